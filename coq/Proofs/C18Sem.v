(* Proofs/C18Sem.v — C18, behaviour: two recipes that differ only by annotations (Comment wrappers,
   stand-alone Comments between statements, Assert comments, Nonce, Pragma) have the same outcome
   under the source semantics, for every stack and state; through [lower_correct] their lowered
   block graphs reach the same configurations. *)
From Coq Require Import List Arith NArith Ascii String Bool Lia.
From PV Require Import Base.Bytes AVM.Syntax AVM.Machine AVM.Parse Src.Expr Src.Denote Comp.WideRatio
  Comp.Blocks Comp.Lower Comp.GraphSem Comp.Assemble Comp.Compile Comp.Annotate
  Proofs.LowerFrame Proofs.LowerLemmas Proofs.LowerCorrect Proofs.C18Fuel.
Import ListNotations.

(* ---- "eventually equal": P F = r for every sufficiently large fuel F ---- *)
Definition ev (P : nat -> dout) (r : dout) : Prop := exists F, forall F', F <= F' -> P F' = r.

Lemma ev_const r : ev (fun _ => r) r.
Proof. exists 0. reflexivity. Qed.

Lemma ev_S P r : ev (fun F => P (S F)) r -> ev P r.
Proof.
  intros [F H]. exists (S F). intros F' L. destruct F' as [|m]; [lia|]. apply H. lia.
Qed.

Lemma ev_ext P Q r : (forall F, P F = Q F) -> ev Q r -> ev P r.
Proof. intros E [F H]. exists F. intros F' L. rewrite E. apply H. exact L. Qed.

Lemma ev_ge n P r : ev P r -> exists F, n <= F /\ forall F', F <= F' -> P F' = r.
Proof. intros [F H]. exists (Nat.max n F). split; [lia|]. intros F' L. apply H. lia. Qed.

Lemma ev_bind P K r k :
  bind r k <> DFuel ->
  (r <> DFuel -> ev P r) ->
  (forall s st, k s st <> DFuel -> ev (fun F => K F s st) (k s st)) ->
  ev (fun F => bind (P F) (K F)) (bind r k).
Proof.
  intros H Hp Hk.
  assert (N : r <> DFuel) by (intros E; apply H; rewrite E; reflexivity).
  destruct (Hp N) as [F1 H1].
  destruct r as [s st| | | | | | | |]; cbn [bind] in *;
    try (exists F1; intros F' L; rewrite (H1 F' L); reflexivity).
  destruct (Hk s st H) as [F2 H2]. exists (Nat.max F1 F2). intros F' L.
  rewrite H1 by lia. cbn [bind]. apply H2. lia.
Qed.

Lemma ev_branch P Y N_ r y n :
  branch r y n <> DFuel ->
  (r <> DFuel -> ev P r) ->
  (forall s st, y s st <> DFuel -> ev (fun F => Y F s st) (y s st)) ->
  (forall s st, n s st <> DFuel -> ev (fun F => N_ F s st) (n s st)) ->
  ev (fun F => branch (P F) (Y F) (N_ F)) (branch r y n).
Proof.
  intros H Hp Hy Hn.
  assert (N : r <> DFuel) by (intros E; apply H; rewrite E; reflexivity).
  destruct (Hp N) as [F1 H1].
  destruct r as [stk st| | | | | | | |]; cbn [branch] in *;
    try (exists F1; intros F' L; rewrite (H1 F' L); reflexivity).
  destruct stk as [|v s1]; [exists F1; intros F' L; rewrite (H1 F' L); reflexivity|].
  destruct (truthy v) as [[|]|] eqn:T.
  - destruct (Hy s1 st H) as [F2 H2]. exists (Nat.max F1 F2). intros F' L.
    rewrite H1 by lia. cbn [branch]. rewrite T. apply H2. lia.
  - destruct (Hn s1 st H) as [F2 H2]. exists (Nat.max F1 F2). intros F' L.
    rewrite H1 by lia. cbn [branch]. rewrite T. apply H2. lia.
  - exists F1. intros F' L. rewrite H1 by lia. cbn [branch]. rewrite T. reflexivity.
Qed.

Lemma ev_after_body P A r a :
  after_body r a <> DFuel ->
  (r <> DFuel -> ev P r) ->
  (forall s st, a s st <> DFuel -> ev (fun F => A F s st) (a s st)) ->
  ev (fun F => after_body (P F) (A F)) (after_body r a).
Proof.
  intros H Hp Ha.
  assert (N : r <> DFuel) by (intros E; apply H; rewrite E; reflexivity).
  destruct (Hp N) as [F1 H1].
  destruct r as [s st|s st|s st| | | | | |]; cbn [after_body] in *;
    try (exists F1; intros F' L; rewrite (H1 F' L); reflexivity);
    destruct (Ha s st H) as [F2 H2]; exists (Nat.max F1 F2); intros F' L;
    rewrite H1 by lia; cbn [after_body]; apply H2; lia.
Qed.

Lemma ev_hdr P A r a :
  hdr r a <> DFuel ->
  (r <> DFuel -> ev P r) ->
  (forall s st, a s st <> DFuel -> ev (fun F => A F s st) (a s st)) ->
  ev (fun F => hdr (P F) (A F)) (hdr r a).
Proof.
  intros H Hp Ha.
  assert (N : r <> DFuel) by (intros E; apply H; rewrite E; reflexivity).
  destruct (Hp N) as [F1 H1].
  destruct r as [s st| | | | | | | |]; cbn [hdr] in *;
    try (exists F1; intros F' L; rewrite (H1 F' L); reflexivity).
  destruct (Ha s st H) as [F2 H2]. exists (Nat.max F1 F2). intros F' L.
  rewrite H1 by lia. cbn [hdr]. apply H2. lia.
Qed.

Section Sim.
  Variable env : denv.

  Definition dsim (d : den_t) (e e' : expr) : Prop :=
    forall stk st, d e stk st <> DFuel -> ev (fun F => denote env F e' stk st) (d e stk st).

  (* ---- what the annotation constructors evaluate to ---- *)
  Lemma comment_expr_eval f ln stk st : denote env (S f) (comment_expr ln) stk st = DNorm stk st.
  Proof. reflexivity. Qed.

  Lemma comments_eval f lines : forall k stk st,
    den_list (denote env (S f)) (map comment_expr lines ++ k) stk st = den_list (denote env (S f)) k stk st.
  Proof. induction lines as [|l t IH]; intros k stk st; [reflexivity|]. cbn [map app den_list]. rewrite comment_expr_eval. cbn [bind]. apply IH. Qed.

  Lemma bind_ret r : bind r (fun s st => DNorm s st) = r.
  Proof. destruct r; reflexivity. Qed.

  Lemma denote_seq f es stk st : denote env (S f) (ESeq es) stk st = den_list (denote env f) es stk st.
  Proof. reflexivity. Qed.

  (* Comment(text, e) needs exactly one more unit of fuel than e *)
  Lemma comment_eval f text e stk st :
    denote env (S f) (annot_comment text e) stk st = denote env f e stk st.
  Proof.
    unfold annot_comment. rewrite denote_seq.
    destruct f as [|f].
    - destruct (map comment_expr (splitlines text)); reflexivity.
    - rewrite comments_eval. cbn [den_list]. apply bind_ret.
  Qed.

  Lemma comment0_eval_big f text stk st : denote env (S (S f)) (annot_comment0 text) stk st = DNorm stk st.
  Proof.
    unfold annot_comment0. rewrite denote_seq.
    rewrite <- (app_nil_r (map comment_expr (splitlines text))). rewrite comments_eval. reflexivity.
  Qed.

  Lemma comment0_eval f text stk st :
    denote env f (annot_comment0 text) stk st = DNorm stk st \/ denote env f (annot_comment0 text) stk st = DFuel.
  Proof.
    destruct f as [|[|f]]; [right; reflexivity| |left; apply comment0_eval_big].
    unfold annot_comment0. rewrite denote_seq. destruct (splitlines text); [left|right]; reflexivity.
  Qed.

  Lemma nonce_push lit b stk st :
    parse_bytes_arg (tokens_of_line lit) = Some (b, []) ->
    do_op env O_byte [AStr lit] stk st = DNorm (VB b :: stk) st.
  Proof. intros H. unfold do_op. cbn [slot_access args_to_imms arg_to_imm]. rewrite H. reflexivity. Qed.

  Lemma nonce_pop v stk st : do_op env O_pop [] (v :: stk) st = DNorm stk st.
  Proof. reflexivity. Qed.

  (* Nonce(base, nonce, e): push the nonce bytes, pop them, then e *)
  Lemma nonce_eval f lit e stk st : nonce_ok lit ->
    denote env (S (S (S f))) (annot_nonce lit e) stk st = denote env (S (S f)) e stk st.
  Proof.
    intros [b Hb]. unfold annot_nonce. rewrite denote_seq. cbn [den_list].
    change (denote env (S (S f)) (EOp O_pop [] TNone [EOp O_byte [AStr lit] TBytes []]) stk st)
      with (bind (bind (bind (DNorm stk st) (fun s1 st1 => do_op env O_byte [AStr lit] s1 st1))
                       (fun s1 st1 => DNorm s1 st1))
                 (fun s1 st1 => do_op env O_pop [] s1 st1)).
    cbn [bind]. rewrite (nonce_push lit b stk st Hb). cbn [bind]. rewrite nonce_pop. cbn [bind].
    apply bind_ret.
  Qed.

  Lemma nonce_eval_small f lit e stk st : f < 3 -> denote env f (annot_nonce lit e) stk st = DFuel.
  Proof. intros L. destruct f as [|[|[|f]]]; try lia; reflexivity. Qed.

  (* ---- list helpers: simulation, given simulation of the elements ---- *)
  Section HelperSim.
    Variable d : den_t.
    Hypothesis IHd : forall e e', arel e e' -> dsim d e e'.
    Hypothesis HC : forall text stk st,
      d (annot_comment0 text) stk st = DNorm stk st \/ d (annot_comment0 text) stk st = DFuel.

    Lemma den_list_sim l l' : arel_list l l' -> forall stk st,
      den_list d l stk st <> DFuel -> ev (fun F => den_list (denote env F) l' stk st) (den_list d l stk st).
    Proof.
      induction 1 as [|x y l l' Hxy Hl IH]; intros stk st H; cbn [den_list] in *; [apply ev_const|].
      apply ev_bind with (P := fun F => denote env F y stk st) (K := fun F s st' => den_list (denote env F) l' s st');
        [exact H|intros N; apply (IHd _ _ Hxy); exact N|intros s st'; apply IH].
    Qed.

    Lemma den_seq_sim l l' : arel_seq l l' -> forall stk st,
      den_list d l stk st <> DFuel -> ev (fun F => den_list (denote env F) l' stk st) (den_list d l stk st).
    Proof.
      induction 1 as [|x y l l' Hxy Hl IH|text l l' Hl IH|text l l' Hl IH]; intros stk st H; cbn [den_list] in *.
      - apply ev_const.
      - apply ev_bind with (P := fun F => denote env F y stk st) (K := fun F s st' => den_list (denote env F) l' s st');
          [exact H|intros N; apply (IHd _ _ Hxy); exact N|intros s st'; apply IH].
      - destruct (HC text stk st) as [E|E]; rewrite E in H |- *; cbn [bind] in *; [apply IH; exact H|congruence].
      - destruct (IH stk st H) as [F HF]. exists (Nat.max 2 F). intros F' L.
        destruct F' as [|[|m]]; try lia. rewrite comment0_eval_big. cbn [bind]. apply HF. lia.
    Qed.

    Lemma den_nary_rest_sim o l l' : arel_list l l' -> forall stk st,
      den_nary_rest env d o l stk st <> DFuel ->
      ev (fun F => den_nary_rest env (denote env F) o l' stk st) (den_nary_rest env d o l stk st).
    Proof.
      induction 1 as [|x y l l' Hxy Hl IH]; intros stk st H; cbn [den_nary_rest] in *; [apply ev_const|].
      apply ev_bind with (P := fun F => denote env F y stk st)
                         (K := fun F s2 st2 => bind (do_op env o [] s2 st2) (fun s3 st3 => den_nary_rest env (denote env F) o l' s3 st3));
        [exact H|intros N; apply (IHd _ _ Hxy); exact N|].
      intros s2 st2 H2.
      apply ev_bind with (P := fun _ => do_op env o [] s2 st2) (K := fun F s3 st3 => den_nary_rest env (denote env F) o l' s3 st3);
        [exact H2|intros _; apply ev_const|intros s3 st3; apply IH].
    Qed.

    Lemma den_cond_sim l l' : arel_arms l l' -> forall stk st,
      den_cond d l stk st <> DFuel -> ev (fun F => den_cond (denote env F) l' stk st) (den_cond d l stk st).
    Proof.
      induction 1 as [|c c' v v' l l' Hc Hv Hl IH]; intros stk st H; cbn [den_cond] in *; [apply ev_const|].
      apply ev_branch with (P := fun F => denote env F c' stk st) (Y := fun F s st' => denote env F v' s st')
                           (N_ := fun F s st' => den_cond (denote env F) l' s st');
        [exact H|intros N; apply (IHd _ _ Hc); exact N|intros s st'; apply (IHd _ _ Hv)|intros s st'; apply IH].
    Qed.

    Lemma den_asserts_sim l l' : arel_list l l' -> forall stk st,
      den_asserts d l stk st <> DFuel -> ev (fun F => den_asserts (denote env F) l' stk st) (den_asserts d l stk st).
    Proof.
      induction 1 as [|x y l l' Hxy Hl IH]; intros stk st H; cbn [den_asserts] in *; [apply ev_const|].
      apply ev_branch with (P := fun F => denote env F y stk st) (Y := fun F s st' => den_asserts (denote env F) l' s st')
                           (N_ := fun _ _ _ => DFail);
        [exact H|intros N; apply (IHd _ _ Hxy); exact N|intros s st'; apply IH|intros s st' _; apply ev_const].
    Qed.

    Lemma den_wide_rest_sim l l' : arel_list l l' -> forall stk st,
      den_wide_rest env d l stk st <> DFuel ->
      ev (fun F => den_wide_rest env (denote env F) l' stk st) (den_wide_rest env d l stk st).
    Proof.
      induction 1 as [|x y l l' Hxy Hl IH]; intros stk st H; cbn [den_wide_rest] in *; [apply ev_const|].
      apply ev_bind with (P := fun F => denote env F y stk st)
                         (K := fun F s1 st1 => bind (den_ops env mul_step_ops s1 st1) (fun s2 st2 => den_wide_rest env (denote env F) l' s2 st2));
        [exact H|intros N; apply (IHd _ _ Hxy); exact N|].
      intros s1 st1 H1.
      apply ev_bind with (P := fun _ => den_ops env mul_step_ops s1 st1) (K := fun F s2 st2 => den_wide_rest env (denote env F) l' s2 st2);
        [exact H1|intros _; apply ev_const|intros s2 st2; apply IH].
    Qed.

    Lemma den_factors_sim l l' : arel_list l l' -> forall stk st,
      den_factors env d l stk st <> DFuel ->
      ev (fun F => den_factors env (denote env F) l' stk st) (den_factors env d l stk st).
    Proof.
      intros Hl stk st H.
      destruct Hl as [|f0 g0 l l' H0 Hl]; [exists 0; reflexivity|].
      destruct Hl as [|f1 g1 l l' H1 Hl]; cbn [den_factors] in *.
      - apply ev_bind with (P := fun _ => den_ops env [I1 O_int 0] stk st) (K := fun F s1 st1 => denote env F g0 s1 st1);
          [exact H|intros _; apply ev_const|intros s1 st1; apply (IHd _ _ H0)].
      - apply ev_bind with (P := fun F => denote env F g0 stk st)
                           (K := fun F s1 st1 => bind (denote env F g1 s1 st1) (fun s2 st2 =>
                                                 bind (den_ops env [I0 O_mulw] s2 st2) (fun s3 st3 => den_wide_rest env (denote env F) l' s3 st3)));
          [exact H|intros N; apply (IHd _ _ H0); exact N|].
        intros s1 st1 Hb1.
        apply ev_bind with (P := fun F => denote env F g1 s1 st1)
                           (K := fun F s2 st2 => bind (den_ops env [I0 O_mulw] s2 st2) (fun s3 st3 => den_wide_rest env (denote env F) l' s3 st3));
          [exact Hb1|intros N; apply (IHd _ _ H1); exact N|].
        intros s2 st2 Hb2.
        apply ev_bind with (P := fun _ => den_ops env [I0 O_mulw] s2 st2) (K := fun F s3 st3 => den_wide_rest env (denote env F) l' s3 st3);
          [exact Hb2|intros _; apply ev_const|intros s3 st3; apply den_wide_rest_sim; exact Hl].
    Qed.

    (* loops: the target uses one fuel for the sub-evaluator and one for the iteration count *)
    Lemma den_while_sim c c' b b' : arel c c' -> arel b b' -> forall n stk st,
      den_while d n c b stk st <> DFuel ->
      exists F, forall F1 F2, F <= F1 -> F <= F2 ->
        den_while (denote env F1) F2 c' b' stk st = den_while d n c b stk st.
    Proof.
      intros Hc Hb. induction n as [|k IH]; intros stk st H; cbn [den_while] in H; [congruence|].
      assert (N : d c stk st <> DFuel).
      { intros E. rewrite E in H. apply H. reflexivity. }
      destruct (IHd _ _ Hc stk st N) as [Fc HFc].
      cbn [den_while].
      destruct (d c stk st) as [s0 st0|s0 st0|s0 st0|s0 st0|v0 st0|s0 st0| | |o0] eqn:E;
        try (exists (S Fc); intros F1 F2 L1 L2; destruct F2 as [|m]; [lia|]; cbn [den_while];
             rewrite HFc by lia; reflexivity).
      cbn [branch] in H |- *.
      destruct s0 as [|v s1];
        [exists (S Fc); intros F1 F2 L1 L2; destruct F2 as [|m]; [lia|]; cbn [den_while]; rewrite HFc by lia; reflexivity|].
      destruct (truthy v) as [[|]|] eqn:T;
        try (exists (S Fc); intros F1 F2 L1 L2; destruct F2 as [|m]; [lia|]; cbn [den_while];
             rewrite HFc by lia; cbn [branch]; rewrite T; reflexivity).
      assert (Nb : d b s1 st0 <> DFuel).
      { intros Eb. rewrite Eb in H. apply H. reflexivity. }
      destruct (IHd _ _ Hb s1 st0 Nb) as [Fb HFb].
      destruct (d b s1 st0) as [s2 st2|s2 st2|s2 st2|s2 st2|v2 st2|s2 st2| | |o2] eqn:Eb; cbn [after_body] in H |- *;
        try (exists (S (Nat.max Fc Fb)); intros F1 F2 L1 L2; destruct F2 as [|m]; [lia|]; cbn [den_while];
             rewrite HFc by lia; cbn [branch]; rewrite T; rewrite HFb by lia; reflexivity).
      - destruct (IH s2 st2 H) as [Fw HFw].
        exists (S (Nat.max (Nat.max Fc Fb) Fw)). intros F1 F2 L1 L2. destruct F2 as [|m]; [lia|]. cbn [den_while].
        rewrite HFc by lia. cbn [branch]. rewrite T. rewrite HFb by lia. cbn [after_body]. apply HFw; lia.
      - destruct (IH s2 st2 H) as [Fw HFw].
        exists (S (Nat.max (Nat.max Fc Fb) Fw)). intros F1 F2 L1 L2. destruct F2 as [|m]; [lia|]. cbn [den_while].
        rewrite HFc by lia. cbn [branch]. rewrite T. rewrite HFb by lia. cbn [after_body]. apply HFw; lia.
    Qed.

    Lemma den_for_sim c c' s s' b b' : arel c c' -> arel s s' -> arel b b' -> forall n stk st,
      den_for d n c s b stk st <> DFuel ->
      exists F, forall F1 F2, F <= F1 -> F <= F2 ->
        den_for (denote env F1) F2 c' s' b' stk st = den_for d n c s b stk st.
    Proof.
      intros Hc Hs Hb. induction n as [|k IH]; intros stk st H; cbn [den_for] in H; [congruence|].
      assert (N : d c stk st <> DFuel).
      { intros E. rewrite E in H. apply H. reflexivity. }
      destruct (IHd _ _ Hc stk st N) as [Fc HFc].
      cbn [den_for].
      destruct (d c stk st) as [s0 st0|s0 st0|s0 st0|s0 st0|v0 st0|s0 st0| | |o0] eqn:E;
        try (exists (S Fc); intros F1 F2 L1 L2; destruct F2 as [|m]; [lia|]; cbn [den_for];
             rewrite HFc by lia; reflexivity).
      cbn [branch] in H |- *.
      destruct s0 as [|v s1];
        [exists (S Fc); intros F1 F2 L1 L2; destruct F2 as [|m]; [lia|]; cbn [den_for]; rewrite HFc by lia; reflexivity|].
      destruct (truthy v) as [[|]|] eqn:T;
        try (exists (S Fc); intros F1 F2 L1 L2; destruct F2 as [|m]; [lia|]; cbn [den_for];
             rewrite HFc by lia; cbn [branch]; rewrite T; reflexivity).
      assert (Nb : d b s1 st0 <> DFuel).
      { intros Eb. rewrite Eb in H. apply H. reflexivity. }
      destruct (IHd _ _ Hb s1 st0 Nb) as [Fb HFb].
      (* what happens after the body: the step expression, then the loop again *)
      assert (STEP : forall s2 st2,
                 hdr (d s s2 st2) (fun s3 st3 => den_for d k c s b s3 st3) <> DFuel ->
                 exists F, forall F1 F2, F <= F1 -> F <= F2 ->
                   hdr (denote env F1 s' s2 st2) (fun s3 st3 => den_for (denote env F1) F2 c' s' b' s3 st3) =
                   hdr (d s s2 st2) (fun s3 st3 => den_for d k c s b s3 st3)).
      { intros s2 st2 Hh.
        assert (Ns : d s s2 st2 <> DFuel).
        { intros Es. rewrite Es in Hh. apply Hh. reflexivity. }
        destruct (IHd _ _ Hs s2 st2 Ns) as [Fs HFs].
        destruct (d s s2 st2) as [s3 st3|s3 st3|s3 st3|s3 st3|v3 st3|s3 st3| | |o3] eqn:Es; cbn [hdr] in Hh |- *;
          try (exists Fs; intros F1 F2 L1 L2; rewrite HFs by lia; reflexivity).
        destruct (IH s3 st3 Hh) as [Fw HFw].
        exists (Nat.max Fs Fw). intros F1 F2 L1 L2. rewrite HFs by lia. cbn [hdr]. apply HFw; lia. }
      destruct (d b s1 st0) as [s2 st2|s2 st2|s2 st2|s2 st2|v2 st2|s2 st2| | |o2] eqn:Eb; cbn [after_body] in H |- *;
        try (exists (S (Nat.max Fc Fb)); intros F1 F2 L1 L2; destruct F2 as [|m]; [lia|]; cbn [den_for];
             rewrite HFc by lia; cbn [branch]; rewrite T; rewrite HFb by lia; reflexivity).
      - destruct (STEP s2 st2 H) as [Fw HFw].
        exists (S (Nat.max (Nat.max Fc Fb) Fw)). intros F1 F2 L1 L2. destruct F2 as [|m]; [lia|]. cbn [den_for].
        rewrite HFc by lia. cbn [branch]. rewrite T. rewrite HFb by lia. cbn [after_body]. apply HFw; lia.
      - destruct (STEP s2 st2 H) as [Fw HFw].
        exists (S (Nat.max (Nat.max Fc Fb) Fw)). intros F1 F2 L1 L2. destruct F2 as [|m]; [lia|]. cbn [den_for].
        rewrite HFc by lia. cbn [branch]. rewrite T. rewrite HFb by lia. cbn [after_body]. apply HFw; lia.
    Qed.
  End HelperSim.

  (* ---- main simulation ---- *)
  Theorem arel_sim : forall f e e', arel e e' -> dsim (denote env f) e e'.
  Proof.
    induction f as [|f IHf]; intros e e' H; [intros stk st N; cbn in N; congruence|].
    pose proof (comment0_eval f) as HC.
    induction H as [o imms t a a' Ha|o t a a' Ha|a a' Ha|c c' t t' Hc IHc Ht IHt|c c' t t' x x' Hc IHc Ht IHt Hx IHx
                   |a a' Ha|c c' b b' Hc IHc Hb IHb|i i' c c' s s' b b' Hi IHi Hc IHc Hs IHs Hb IHb| |
                   |a a' cm cm' Ha| |v v' Hv IHv|v v' Hv IHv|o imms a a' outs Ha|s t a a' Ha|n n' dd dd' Hn Hd|i
                   |text e e' He IHe|text e e' He IHe|lit e e' Hok He IHe|lit e e' Hok He IHe];
      intros stk st N.
    - (* EOp *)
      apply ev_S. cbn [denote] in N |- *.
      apply ev_bind with (P := fun F => den_list (denote env F) a' stk st) (K := fun _ s1 st1 => do_op env o imms s1 st1);
        [exact N|intros N1; apply (den_list_sim _ IHf _ _ Ha); exact N1|intros s1 st1 _; apply ev_const].
    - (* ENary *)
      apply ev_S. cbn [denote] in N |- *.
      destruct Ha as [|a1 b1 rest rest' H1 Hr]; [apply ev_const|].
      apply ev_bind with (P := fun F => denote env F b1 stk st) (K := fun F s1 st1 => den_nary_rest env (denote env F) o rest' s1 st1);
        [exact N|intros N1; apply (IHf _ _ H1); exact N1|intros s1 st1; apply (den_nary_rest_sim _ IHf); exact Hr].
    - (* ESeq *)
      apply ev_S. cbn [denote] in N |- *. apply (den_seq_sim _ IHf HC _ _ Ha). exact N.
    - (* EIf, no else *)
      apply ev_S. cbn [denote] in N |- *.
      apply ev_branch with (P := fun F => denote env F c' stk st) (Y := fun F s1 st1 => denote env F t' s1 st1)
                           (N_ := fun _ s1 st1 => DNorm s1 st1);
        [exact N|intros N1; apply (IHf _ _ Hc); exact N1|intros s1 st1; apply (IHf _ _ Ht)|intros s1 st1 _; apply ev_const].
    - (* EIf with else *)
      apply ev_S. cbn [denote] in N |- *.
      apply ev_branch with (P := fun F => denote env F c' stk st) (Y := fun F s1 st1 => denote env F t' s1 st1)
                           (N_ := fun F s1 st1 => denote env F x' s1 st1);
        [exact N|intros N1; apply (IHf _ _ Hc); exact N1|intros s1 st1; apply (IHf _ _ Ht)|intros s1 st1; apply (IHf _ _ Hx)].
    - (* ECond *)
      apply ev_S. cbn [denote] in N |- *. apply (den_cond_sim _ IHf _ _ Ha). exact N.
    - (* EWhile *)
      cbn [denote] in N |- *.
      destruct (den_while_sim _ IHf c c' b b' Hc Hb f stk st N) as [F HF].
      exists (S F). intros F' L. destruct F' as [|m]; [lia|]. cbn [denote]. apply HF; lia.
    - (* EFor *)
      cbn [denote] in N |- *.
      assert (Ni : denote env f i stk st <> DFuel).
      { intros E. rewrite E in N. apply N. reflexivity. }
      destruct (IHf _ _ Hi stk st Ni) as [Fi HFi].
      destruct (denote env f i stk st) as [s0 st0|s0 st0|s0 st0|s0 st0|v0 st0|s0 st0| | |o0] eqn:E; cbn [hdr] in N |- *;
        try (exists (S Fi); intros F' L; destruct F' as [|m]; [lia|]; cbn [denote]; rewrite HFi by lia; reflexivity).
      destruct (den_for_sim _ IHf c c' s s' b b' Hc Hs Hb f s0 st0 N) as [F HF].
      exists (S (Nat.max Fi F)). intros F' L. destruct F' as [|m]; [lia|]. cbn [denote].
      rewrite HFi by lia. cbn [hdr]. apply HF; lia.
    - (* EBreak *) exists 1. intros F' L. destruct F' as [|m]; [lia|]. reflexivity.
    - (* EContinue *) exists 1. intros F' L. destruct F' as [|m]; [lia|]. reflexivity.
    - (* EAssert *)
      apply ev_S. cbn [denote] in N |- *. apply (den_asserts_sim _ IHf _ _ Ha). exact N.
    - (* EReturn None *) exists 1. intros F' L. destruct F' as [|m]; [lia|]. reflexivity.
    - (* EReturn Some *)
      apply ev_S. cbn [denote] in N |- *.
      apply ev_bind with (P := fun F => denote env F v' stk st)
                         (K := fun _ s1 st1 => if e_in_sub env then DRet s1 st1 else match s1 with r :: _ => DExit r st1 | [] => DFail end);
        [exact N|intros N1; apply (IHf _ _ Hv); exact N1|intros s1 st1 _; apply ev_const].
    - (* EExit *)
      apply ev_S. cbn [denote] in N |- *.
      apply ev_bind with (P := fun F => denote env F v' stk st)
                         (K := fun _ s1 st1 => match s1 with r :: _ => DExit r st1 | [] => DFail end);
        [exact N|intros N1; apply (IHf _ _ Hv); exact N1|intros s1 st1 _; apply ev_const].
    - (* EMulti *)
      apply ev_S. cbn [denote] in N |- *.
      apply ev_bind with (P := fun F => den_list (denote env F) a' stk st)
                         (K := fun _ s1 st1 => bind (do_op env o imms s1 st1) (fun s2 st2 => den_stores env (rev outs) s2 st2));
        [exact N|intros N1; apply (den_list_sim _ IHf _ _ Ha); exact N1|intros s1 st1 _; apply ev_const].
    - (* ECall *) exists 1. intros F' L. destruct F' as [|m]; [lia|]. reflexivity.
    - (* EWide *)
      apply ev_S. cbn [denote] in N |- *.
      apply ev_bind with (P := fun F => den_factors env (denote env F) n' stk st)
                         (K := fun F s1 st1 => bind (den_factors env (denote env F) dd' s1 st1) (fun s2 st2 => den_ops env combine_ops s2 st2));
        [exact N|intros N1; apply (den_factors_sim _ IHf _ _ Hn); exact N1|].
      intros s1 st1 N1.
      apply ev_bind with (P := fun F => den_factors env (denote env F) dd' s1 st1) (K := fun _ s2 st2 => den_ops env combine_ops s2 st2);
        [exact N1|intros N2; apply (den_factors_sim _ IHf _ _ Hd); exact N2|intros s2 st2 _; apply ev_const].
    - (* EParam *) exists 1. intros F' L. destruct F' as [|m]; [lia|]. reflexivity.
    - (* Comment on the left *)
      rewrite comment_eval in N |- *. apply (IHf _ _ He). exact N.
    - (* Comment on the right *)
      apply ev_S. apply ev_ext with (Q := fun F => denote env F e' stk st); [intros F; apply comment_eval|].
      apply IHe. exact N.
    - (* Nonce on the left *)
      destruct (Nat.lt_ge_cases (S f) 3) as [L|L]; [rewrite nonce_eval_small in N by exact L; congruence|].
      destruct f as [|[|f2]]; try lia.
      rewrite (nonce_eval f2 lit e stk st Hok) in N |- *. apply (IHf _ _ He). exact N.
    - (* Nonce on the right *)
      apply ev_S. apply ev_S. apply ev_S.
      apply ev_ext with (Q := fun F => denote env (S (S F)) e' stk st); [intros F; apply nonce_eval; exact Hok|].
      destruct (IHe stk st N) as [F HF]. exists F. intros F' L. apply HF. lia.
  Qed.
End Sim.

(* ---- the relation is an equivalence-like closure: reflexive and symmetric ---- *)
Lemma arel_list_refl l : Forall (fun e => arel e e) l -> arel_list l l.
Proof. induction 1; constructor; assumption. Qed.

Lemma arel_seq_refl l : Forall (fun e => arel e e) l -> arel_seq l l.
Proof. induction 1; constructor; assumption. Qed.

Lemma arel_arms_refl l : Forall (fun a => arel (fst a) (fst a) /\ arel (snd a) (snd a)) l -> arel_arms l l.
Proof. induction 1 as [|[c v] l [Hc Hv] _ IH]; constructor; assumption. Qed.

Lemma arel_refl : forall e, arel e e.
Proof.
  induction e using expr_ind'.
  - apply ar_op. apply arel_list_refl. assumption.
  - apply ar_nary. apply arel_list_refl. assumption.
  - apply ar_seq. apply arel_seq_refl. assumption.
  - match goal with H : opt_all _ el |- _ => destruct H end; [apply ar_if|apply ar_ifelse]; assumption.
  - apply ar_cond. apply arel_arms_refl. assumption.
  - apply ar_while; assumption.
  - apply ar_for; assumption.
  - apply ar_break.
  - apply ar_continue.
  - apply ar_assert. apply arel_list_refl. assumption.
  - match goal with H : opt_all _ v |- _ => destruct H end; [apply ar_return0|apply ar_return; assumption].
  - apply ar_exit. assumption.
  - apply ar_multi. apply arel_list_refl. assumption.
  - apply ar_call. apply arel_list_refl. assumption.
  - apply ar_wide; apply arel_list_refl; assumption.
  - apply ar_param.
Qed.

Lemma arel_sym_all :
  (forall e e', arel e e' -> arel e' e) /\
  (forall l l', arel_list l l' -> arel_list l' l) /\
  (forall l l', arel_seq l l' -> arel_seq l' l) /\
  (forall l l', arel_arms l l' -> arel_arms l' l).
Proof.
  apply arel_mutind; intros.
  - apply ar_op; assumption.
  - apply ar_nary; assumption.
  - apply ar_seq; assumption.
  - apply ar_if; assumption.
  - apply ar_ifelse; assumption.
  - apply ar_cond; assumption.
  - apply ar_while; assumption.
  - apply ar_for; assumption.
  - apply ar_break.
  - apply ar_continue.
  - apply ar_assert; assumption.
  - apply ar_return0.
  - apply ar_return; assumption.
  - apply ar_exit; assumption.
  - apply ar_multi; assumption.
  - apply ar_call; assumption.
  - apply ar_wide; assumption.
  - apply ar_param.
  - apply ar_comment_r; assumption.
  - apply ar_comment_l; assumption.
  - apply ar_nonce_r; assumption.
  - apply ar_nonce_l; assumption.
  - apply arl_nil.
  - apply arl_cons; assumption.
  - apply ars_nil.
  - apply ars_cons; assumption.
  - apply ars_ins_r; assumption.
  - apply ars_ins_l; assumption.
  - apply ara_nil.
  - apply ara_cons; assumption.
Qed.

Lemma arel_sym e e' : arel e e' -> arel e' e.
Proof. apply arel_sym_all. Qed.

(* the four annotation forms relate a recipe to its annotated version *)
Lemma arel_comment text e : arel e (annot_comment text e).
Proof. apply ar_comment_r. apply arel_refl. Qed.

Lemma arel_nonce lit e : nonce_ok lit -> arel e (annot_nonce lit e).
Proof. intros H. apply ar_nonce_r; [exact H|apply arel_refl]. Qed.

Lemma arel_pragma e : arel e (annot_pragma e).
Proof. apply arel_refl. Qed.

Lemma arel_assert_comment conds cm text : arel (EAssert conds cm) (annot_assert conds text).
Proof. apply ar_assert. apply arel_list_refl. apply Forall_forall. intros x _. apply arel_refl. Qed.

Lemma arel_seq_insert text xs ys : arel (ESeq (xs ++ ys)) (ESeq (xs ++ annot_comment0 text :: ys)).
Proof.
  apply ar_seq. induction xs as [|x t IH]; cbn [app].
  - apply ars_ins_r. apply arel_seq_refl. apply Forall_forall. intros x _. apply arel_refl.
  - apply ars_cons; [apply arel_refl|exact IH].
Qed.

(* ---- the property, behavioural part ---- *)
(* [evaluates env e stk st r]: the source semantics gives outcome r (with enough fuel) *)
Definition evaluates (env : denv) (e : expr) (stk : list value) (st : mstate) (r : dout) : Prop :=
  r <> DFuel /\ exists f, denote env f e stk st = r.

Theorem annotation_behaviour : forall env e e', arel e e' ->
  forall stk st r, evaluates env e stk st r <-> evaluates env e' stk st r.
Proof.
  assert (X : forall env e e', arel e e' -> forall stk st r, evaluates env e stk st r -> evaluates env e' stk st r).
  { intros env e e' H stk st r [N [f E]]. split; [exact N|].
    assert (N' : denote env f e stk st <> DFuel) by (rewrite E; exact N).
    destruct (arel_sim env f e e' H stk st N') as [F HF]. exists F. rewrite <- E. apply HF. lia. }
  intros env e e' H stk st r. split; apply X; [exact H|apply arel_sym; exact H].
Qed.

(* an outcome is unique (fuel monotonicity): [evaluates] is a partial function *)
Theorem evaluates_functional : forall env e stk st r1 r2,
  evaluates env e stk st r1 -> evaluates env e stk st r2 -> r1 = r2.
Proof.
  intros env e stk st r1 r2 [N1 [f1 E1]] [N2 [f2 E2]].
  destruct (Nat.le_ge_cases f1 f2) as [L|L].
  - rewrite <- E2, <- E1. symmetry. apply denote_fuel_mono; [exact L|rewrite E1; exact N1].
  - rewrite <- E2, <- E1. apply denote_fuel_mono; [exact L|rewrite E2; exact N2].
Qed.

(* typing facts of the wrappers (what Seq computes for type_of / has_return) *)
Lemma last_comment_app lines e :
  type_of (ESeq (map comment_expr lines ++ [e])) = type_of e /\
  has_return (ESeq (map comment_expr lines ++ [e])) = has_return e.
Proof.
  induction lines as [|l t [IH1 IH2]]; [split; reflexivity|].
  cbn [map app]. destruct (map comment_expr t ++ [e]) eqn:E.
  - destruct (map comment_expr t); discriminate.
  - split; [exact IH1|exact IH2].
Qed.

Lemma annot_comment_type text e : type_of (annot_comment text e) = type_of e.
Proof. apply last_comment_app. Qed.
Lemma annot_comment_has_return text e : has_return (annot_comment text e) = has_return e.
Proof. apply last_comment_app. Qed.
Lemma annot_nonce_type lit e : type_of (annot_nonce lit e) = type_of e.
Proof. reflexivity. Qed.
Lemma annot_nonce_has_return lit e : has_return (annot_nonce lit e) = has_return e.
Proof. reflexivity. Qed.

(* whole routines: the verdict of the main routine is the same whenever the annotated main has the
   same type and has_return (true for every wrapper above; false for a stand-alone Comment placed
   AFTER a final Return — see annotation_trailing_comment_refuted in Proofs/C18Stream.v) *)
Theorem annotation_run_main : forall env main main',
  arel main main' -> type_of main = type_of main' -> has_return main = has_return main' ->
  forall f st, fst (run_main env f main st) <> DVFuel ->
  exists f', run_main env f' main' st = run_main env f main st.
Proof.
  intros env main main' H Ht Hr f st N.
  assert (W : arel (with_implicit_return main) (with_implicit_return main')).
  { unfold with_implicit_return. rewrite <- Hr, <- Ht. destruct (has_return main); [exact H|].
    destruct (type_of main).
    - apply ar_return. exact H.
    - apply ar_return. exact H.
    - apply ar_return. exact H.
    - apply ar_seq. apply ars_cons; [exact H|]. apply ars_cons; [apply ar_return0|apply ars_nil]. }
  unfold run_main in *.
  assert (N' : denote env f (with_implicit_return main) [] st <> DFuel).
  { intros E. rewrite E in N. apply N. reflexivity. }
  destruct (arel_sim env f _ _ W [] st N') as [F HF].
  exists F. rewrite (HF F (le_n F)). reflexivity.
Qed.

(* through lower_correct: both lowered graphs reach the configuration the common outcome prescribes *)
Theorem annotation_graph_behaviour :
  forall (env : denv) (o : copts) (c : lctx) (e e' : expr),
    consistent env c -> arel e e' ->
    forall k1 g1 s1 en1 g1' G1, wf g1 -> lower o c e k1 g1 = ((s1, en1), g1') -> gincl (g_blk g1') G1 ->
    forall k2 g2 s2 en2 g2' G2, wf g2 -> lower o c e' k2 g2 = ((s2, en2), g2') -> gincl (g_blk g2') G2 ->
    forall stk st r, evaluates env e stk st r ->
      tgt env G1 (GAt s1 stk st) k1 c r /\ tgt env G2 (GAt s2 stk st) k2 c r.
Proof.
  intros env o c e e' Hc H k1 g1 s1 en1 g1' G1 W1 L1 I1 k2 g2 s2 en2 g2' G2 W2 L2 I2 stk st r Hev.
  pose proof (proj1 (annotation_behaviour env e e' H stk st r) Hev) as Hev'.
  destruct Hev as [_ [f E]]. destruct Hev' as [_ [f' E']].
  split.
  - rewrite <- E. exact (lower_correct env o f c e Hc k1 g1 s1 en1 g1' W1 L1 G1 I1 stk st).
  - rewrite <- E'. exact (lower_correct env o f' c e' Hc k2 g2 s2 en2 g2' W2 L2 G2 I2 stk st).
Qed.
