(* Proofs/CallComposeLink.v — property C02, the LINKING step.
   A routine's code (as the per-routine pipeline emits it: [callsub <ASub f>], block labels l<k>) sits
   inside the linked program L at an offset, with its labels prefixed and its routine references
   resolved to entry labels ([link_comp], what [flatten_subroutines] does: Proofs/CallComposeLayout.v).
   [link_star]: a run of the routine in the per-routine semantics WITH A CALL ORACLE
   (CallX/LinearSem.v) is a run of the linked program in the semantics with a call stack
   (Comp/LinkedSem.v), provided every answer of the oracle is REALIZED by the linked program itself
   (a run from the callee's entry label, with one more return address, up to the matching retsub). *)
From Coq Require Import List Arith NArith String Bool Lia.
From PV Require Import Base.Bytes AVM.Syntax AVM.Machine Src.Expr Src.Denote
  Comp.Blocks Comp.Lower Comp.Passes Comp.GraphSem Comp.LinearSem Comp.LinkedSem Comp.Compile
  Proofs.LowerLemmas CallX.Denote CallX.GraphSem CallX.LinearSem.
Import ListNotations.
Local Open Scope string_scope.

(* ---- the link transformation of one component ---- *)
Definition link_arg (res : N -> option string) (pre : string) (a : arg) : arg :=
  match a with
  | ASub s => match res s with Some l => AStr l | None => ASub s end
  | ALbl l => ALbl (pre ++ l)
  | other => other
  end.

Definition link_comp (res : N -> option string) (pre : string) (c : comp) : comp :=
  match c with
  | CLabel l cm => CLabel (pre ++ l) cm
  | COp i => COp (rewrite_instr (link_arg res pre) i)
  | other => other
  end.

(* the routine's code occupies L[base ..] *)
Definition placed (L : list comp) (base : nat) (res : N -> option string) (pre : string) (code : list comp) : Prop :=
  forall pc c, nth_error code pc = Some c -> nth_error L (base + pc) = Some (link_comp res pre c).

Definition labels_of (L : list comp) : list string :=
  flat_map (fun c => match c with CLabel l _ => [l] | _ => [] end) L.

(* ---- side conditions on the routine's code (decidable) ---- *)
Definition plain_arg (a : arg) : bool := match a with ASub _ | ALbl _ => false | _ => true end.

Definition is_callsub (o : opc) : bool := match o with O_callsub => true | _ => false end.

(* an instruction is a call ([callsub <ASub f>]), a branch ([b/bz/bnz <label>]), or carries neither a
   routine reference nor a label and is not a callsub *)
Definition linkable_instr (i : instr) : bool :=
  match call_target (i_op i) (i_args i) with
  | Some _ => true
  | None =>
      match jump_of i with
      | Some _ => true
      | None => negb (is_callsub (i_op i)) && forallb plain_arg (i_args i)
      end
  end.

Definition closed_instr (code : list comp) (i : instr) : bool :=
  match jump_of i with
  | Some (_, l) => match find_label l code with Some _ => true | None => false end
  | None => true
  end.

Definition linkable (code : list comp) : bool :=
  forallb (fun c => match c with COp i => linkable_instr i && closed_instr code i | _ => true end) code.

(* ---- labels ---- *)
Lemma find_label_nth l code p : find_label l code = Some p -> exists cm, nth_error code p = Some (CLabel l cm).
Proof.
  revert p. induction code as [|c t IH]; intros p H; [discriminate H|].
  cbn [find_label] in H. destruct c as [i|l' cm|v].
  - destruct (find_label l t) as [q|] eqn:E; [|discriminate H]. injection H as <-. exact (IH q eq_refl).
  - destruct (String.eqb l l') eqn:Q.
    + injection H as <-. apply String.eqb_eq in Q. subst l'. exists cm. reflexivity.
    + destruct (find_label l t) as [q|] eqn:E; [|discriminate H]. injection H as <-. exact (IH q eq_refl).
  - destruct (find_label l t) as [q|] eqn:E; [|discriminate H]. injection H as <-. exact (IH q eq_refl).
Qed.

Lemma nth_label_in L q x cm : nth_error L q = Some (CLabel x cm) -> In x (labels_of L).
Proof.
  intros H. unfold labels_of. apply in_flat_map. exists (CLabel x cm). split; [exact (nth_error_In _ _ H)|left; reflexivity].
Qed.

Lemma find_label_nodup L : NoDup (labels_of L) ->
  forall q x cm, nth_error L q = Some (CLabel x cm) -> find_label x L = Some q.
Proof.
  induction L as [|c t IH]; intros ND q x cm H; [destruct q; discriminate H|].
  destruct q as [|q]; cbn [nth_error] in H.
  - injection H as ->. cbn [find_label]. rewrite String.eqb_refl. reflexivity.
  - destruct c as [i|l' cm'|v]; cbn [find_label].
    + rewrite (IH ND q x cm H). reflexivity.
    + change (labels_of (CLabel l' cm' :: t)) with (l' :: labels_of t) in ND. inversion ND as [|? ? Nin ND']; subst.
      destruct (String.eqb x l') eqn:Q.
      * apply String.eqb_eq in Q. subst l'. exfalso. apply Nin. exact (nth_label_in _ _ _ _ H).
      * rewrite (IH ND' q x cm H). reflexivity.
    + rewrite (IH ND q x cm H). reflexivity.
Qed.

(* ---- the linked instruction ---- *)
Lemma link_op res pre i : i_op (rewrite_instr (link_arg res pre) i) = i_op i.
Proof. reflexivity. Qed.

Lemma link_args_plain res pre l : forallb plain_arg l = true -> map (link_arg res pre) l = l.
Proof.
  induction l as [|a t IH]; intros H; [reflexivity|]. cbn [forallb] in H. apply andb_prop in H. destruct H as [Ha Ht].
  cbn [map]. rewrite (IH Ht). destruct a; try reflexivity; discriminate Ha.
Qed.

Lemma jump_of_inv i k l : jump_of i = Some (k, l) -> i_args i = [ALbl l] /\ is_branch (i_op i) = true.
Proof.
  unfold jump_of. destruct (i_op i); try discriminate;
    destruct (i_args i) as [|[] [|]]; try discriminate; intros H; injection H as <- <-; split; reflexivity.
Qed.

Lemma jump_of_link res pre i k l : jump_of i = Some (k, l) ->
  jump_of (rewrite_instr (link_arg res pre) i) = Some (k, pre ++ l).
Proof.
  intros H. destruct (jump_of_inv _ _ _ H) as [Ea _]. unfold jump_of in *. cbn [rewrite_instr i_op i_args].
  rewrite Ea in *. cbn [map link_arg]. destruct (i_op i); try discriminate H; injection H as <-; reflexivity.
Qed.

Lemma call_target_inv o imms f : call_target o imms = Some f -> o = O_callsub /\ imms = [ASub f].
Proof.
  unfold call_target. destruct o; try discriminate. destruct imms as [|[] [|]]; try discriminate.
  intros H. injection H as <-. split; reflexivity.
Qed.

Lemma call_label_not_callsub i : is_callsub (i_op i) = false -> call_label i = None.
Proof. unfold call_label. destruct (i_op i); try reflexivity. discriminate. Qed.

Lemma jump_of_not_branch i : is_branch (i_op i) = false -> jump_of i = None.
Proof. unfold jump_of. destruct (i_op i); try reflexivity; discriminate. Qed.

(* ---- realization of an oracle by the linked program ---- *)
Definition entry_of (L : list comp) (res : N -> option string) (f : N) : option nat :=
  match res f with Some l => find_label l L | None => None end.

Definition call_image (fr : list nat) (ret : nat) (r : callres) : pconf :=
  match r with
  | CRet s st => PAt fr ret s st
  | CExit v st => PExit v st
  | CFail => PFail
  | CNone => PFail
  end.

Definition realizes (env : Src.Denote.denv) (L : list comp) (res : N -> option string)
           (orc : N -> list value -> mstate -> callres) : Prop :=
  forall f stk st, orc f stk st <> CNone ->
    exists e, entry_of L res f = Some e /\
      forall fr ret, pstar env L (PAt (ret :: fr) e stk st) (call_image fr ret (orc f stk st)).

(* ---- the embedding of the routine's configurations ---- *)
Definition emb (base : nat) (fr : list nat) (c : lconf) : pconf :=
  match c with
  | LAt pc stk st => PAt fr (base + pc) stk st
  | LRet stk st => match fr with ret :: fr' => PAt fr' ret stk st | [] => PFail end
  | LExit v st => PExit v st
  | LFail => PFail
  | LEnd stk st => PFail        (* not claimed *)
  | LUnsup o => PUnsup o        (* not claimed *)
  end.

(* outcomes the statement speaks about: everything except "ran off the end of the routine's own code"
   (in the linked program control would run on into the next routine) and "unsupported" *)
Definition claimed (c : lconf) : Prop :=
  match c with LEnd _ _ | LUnsup _ => False | _ => True end.

Section Link.
  Variable xe : denv.                       (* the routine's environment, with its call oracle *)
  Variable L : list comp.
  Variable base : nat.
  Variable res : N -> option string.
  Variable pre : string.
  Variable code : list comp.
  Let env := old_env xe.

  Hypothesis HP : placed L base res pre code.
  Hypothesis HL : linkable code = true.
  Hypothesis HN : NoDup (labels_of L).
  Hypothesis HR : realizes env L res (e_call xe).

  Lemma linkable_at pc i : nth_error code pc = Some (COp i) ->
    linkable_instr i = true /\ closed_instr code i = true.
  Proof.
    intros H. unfold linkable in HL. rewrite forallb_forall in HL.
    specialize (HL (COp i) (nth_error_In _ _ H)). cbn in HL. apply andb_prop in HL. exact HL.
  Qed.

  Lemma goto_link l p : find_label l code = Some p -> find_label (pre ++ l) L = Some (base + p).
  Proof.
    intros H. destruct (find_label_nth _ _ _ H) as (cm & E).
    pose proof (HP _ _ E) as E'. cbn [link_comp] in E'. exact (find_label_nodup L HN _ _ _ E').
  Qed.

  Lemma link_step fr c c1 : CallX.LinearSem.lstep xe code c = Some c1 -> claimed c1 ->
    pstar env L (emb base fr c) (emb base fr c1).
  Proof.
    intros S1 Cl. destruct c as [pc stk st| | | | |]; try discriminate S1.
    cbn [CallX.LinearSem.lstep] in S1.
    change (emb base fr (LAt pc stk st)) with (PAt fr (base + pc) stk st).
    destruct (nth_error code pc) as [c|] eqn:E.
    2:{ injection S1 as <-. destruct Cl. }
    pose proof (HP _ _ E) as E'.
    destruct c as [i|l cm|v].
    - (* an instruction *)
      injection S1 as <-. cbn [link_comp] in E'.
      destruct (linkable_at pc i E) as [Li Ci].
      unfold CallX.LinearSem.lstep_op in *.
      assert (P1 : pstep env L (PAt fr (base + pc) stk st) =
                   Some (pstep_op env L fr (base + pc) (rewrite_instr (link_arg res pre) i) stk st)).
      { cbn [pstep]. rewrite E'. reflexivity. }
      unfold pstep_op in P1. rewrite link_op in P1.
      destruct (is_return (i_op i)) eqn:R.
      { apply pstar_one. rewrite P1. destruct stk; reflexivity. }
      destruct (is_retsub (i_op i)) eqn:R'.
      { apply pstar_one. rewrite P1. destruct fr; reflexivity. }
      unfold linkable_instr in Li.
      destruct (call_target (i_op i) (i_args i)) as [f|] eqn:CT.
      + (* the call instruction: the oracle's answer is realized by the linked program *)
        destruct (call_target_inv _ _ _ CT) as [Eo Ea].
        assert (J : jump_of i = None) by (apply jump_of_not_branch; rewrite Eo; reflexivity).
        rewrite J in *. unfold do_op in *. rewrite CT in *.
        destruct (e_call xe f stk st) as [s' st'|v st'| |] eqn:EC; cbn [of_callres] in *; try destruct Cl.
        * assert (NC : e_call xe f stk st <> CNone) by (rewrite EC; discriminate).
          destruct (HR f stk st NC) as (e & Ee & Run). unfold entry_of in Ee.
          destruct (res f) as [lb|] eqn:Rf; [|discriminate Ee].
          assert (CL : call_label (rewrite_instr (link_arg res pre) i) = Some lb).
          { unfold call_label. cbn [rewrite_instr i_op i_args]. rewrite Eo, Ea. cbn [map link_arg]. rewrite Rf. reflexivity. }
          rewrite CL, Ee in P1.
          eapply pstar_step; [exact P1|]. specialize (Run fr (S (base + pc))). rewrite EC in Run. cbn [call_image] in Run.
          cbn [emb]. rewrite Nat.add_succ_r. exact Run.
        * assert (NC : e_call xe f stk st <> CNone) by (rewrite EC; discriminate).
          destruct (HR f stk st NC) as (e & Ee & Run). unfold entry_of in Ee.
          destruct (res f) as [lb|] eqn:Rf; [|discriminate Ee].
          assert (CL : call_label (rewrite_instr (link_arg res pre) i) = Some lb).
          { unfold call_label. cbn [rewrite_instr i_op i_args]. rewrite Eo, Ea. cbn [map link_arg]. rewrite Rf. reflexivity. }
          rewrite CL, Ee in P1.
          eapply pstar_step; [exact P1|]. specialize (Run fr (S (base + pc))). rewrite EC in Run. exact Run.
        * assert (NC : e_call xe f stk st <> CNone) by (rewrite EC; discriminate).
          destruct (HR f stk st NC) as (e & Ee & Run). unfold entry_of in Ee.
          destruct (res f) as [lb|] eqn:Rf; [|discriminate Ee].
          assert (CL : call_label (rewrite_instr (link_arg res pre) i) = Some lb).
          { unfold call_label. cbn [rewrite_instr i_op i_args]. rewrite Eo, Ea. cbn [map link_arg]. rewrite Rf. reflexivity. }
          rewrite CL, Ee in P1.
          eapply pstar_step; [exact P1|]. specialize (Run fr (S (base + pc))). rewrite EC in Run. exact Run.
      + destruct (jump_of i) as [[k l]|] eqn:J.
        * (* a branch *)
          destruct (jump_of_inv _ _ _ J) as [_ Br].
          assert (CL : call_label (rewrite_instr (link_arg res pre) i) = None).
          { apply call_label_not_callsub. rewrite link_op. destruct (i_op i); try reflexivity; discriminate Br. }
          rewrite CL, (jump_of_link res pre i k l J) in P1.
          unfold closed_instr in Ci. rewrite J in Ci.
          destruct (find_label l code) as [p|] eqn:Fl; [|discriminate Ci].
          pose proof (goto_link l p Fl) as Gl.
          apply pstar_one. rewrite P1. unfold pgoto, goto. rewrite Gl, Fl.
          destruct k; [reflexivity| |].
          -- destruct stk as [|v s']; [reflexivity|]. destruct (truthy v) as [[|]|]; try reflexivity.
             cbn [emb]. rewrite Nat.add_succ_r. reflexivity.
          -- destruct stk as [|v s']; [reflexivity|]. destruct (truthy v) as [[|]|]; try reflexivity.
             cbn [emb]. rewrite Nat.add_succ_r. reflexivity.
        * (* any other instruction: its arguments are untouched, its meaning is the original one *)
          apply andb_prop in Li. destruct Li as [NCs Pl]. apply negb_true_iff in NCs.
          assert (CL : call_label (rewrite_instr (link_arg res pre) i) = None).
          { apply call_label_not_callsub. rewrite link_op. exact NCs. }
          assert (EA : rewrite_instr (link_arg res pre) i = i).
          { destruct i as [o a]. unfold rewrite_instr. cbn [i_op i_args] in *. rewrite (link_args_plain res pre a Pl). reflexivity. }
          rewrite CL, EA, J in P1.
          rewrite (do_op_old xe _ _ stk st CT) in *. fold env in Cl |- *.
          apply pstar_one. rewrite P1.
          pose proof (PV.Proofs.LowerLemmas.do_op_shape env (i_op i) (i_args i) stk st) as Sh.
          destruct (Src.Denote.do_op env (i_op i) (i_args i) stk st); try reflexivity; try destruct Cl; try destruct Sh.
          cbn [emb]. rewrite Nat.add_succ_r. reflexivity.
    - injection S1 as <-. cbn [link_comp] in E'. apply pstar_one. cbn [emb pstep]. rewrite E', Nat.add_succ_r. reflexivity.
    - injection S1 as <-. cbn [link_comp] in E'. apply pstar_one. cbn [emb pstep]. rewrite E', Nat.add_succ_r. reflexivity.
  Qed.

  Lemma claimed_final c : ~ claimed c -> CallX.LinearSem.lstep xe code c = None.
  Proof. destruct c; cbn; intros H; try reflexivity; exfalso; apply H; exact Logic.I. Qed.

  (* a run of the routine with the oracle is a run of the linked program *)
  Theorem link_star fr c c' : CallX.LinearSem.lstar xe code c c' -> claimed c' ->
    pstar env L (emb base fr c) (emb base fr c').
  Proof.
    induction 1 as [c|c c1 c' S1 H IH]; intros Cl; [apply pstar_refl|].
    assert (C1 : claimed c1).
    { destruct c1; try exact Logic.I.
      - inversion H as [|? ? ? S2 _]; subst; [exact Cl|discriminate S2].
      - inversion H as [|? ? ? S2 _]; subst; [exact Cl|discriminate S2]. }
    eapply pstar_trans; [exact (link_step fr c c1 S1 C1)|exact (IH Cl)].
  Qed.
End Link.
