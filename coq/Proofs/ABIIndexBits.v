(* Proofs/ABIIndexBits.v — byte/bit level lemmas for C07: substrings of concatenations, big-endian
   round trip, the layout of packed bools. *)
From Coq Require Import List NArith Arith Ascii String Bool Lia.
From PV Require Import Base.Bytes Base.U64 AVM.Syntax AVM.Ops ABI.Types ABI.Spec.
Import ListNotations.
Local Open Scope N_scope.

(* ---------------------------------------------------------------------------------------- *)
(* lengths and substrings                                                                     *)
(* ---------------------------------------------------------------------------------------- *)
Lemma blen_app : forall a b : bytes, blen (a ++ b) = blen a + blen b.
Proof. intros. unfold blen. rewrite app_length. lia. Qed.

Lemma blen_nil : blen [] = 0.
Proof. reflexivity. Qed.

Lemma blen_cons : forall c (b : bytes), blen (c :: b) = 1 + blen b.
Proof. intros. unfold blen. cbn [List.length]. lia. Qed.

Lemma to_nat_blen : forall b : bytes, N.to_nat (blen b) = List.length b.
Proof. intros. unfold blen. apply Nat2N.id. Qed.

Lemma firstn_app_exact : forall {A} (a b : list A), firstn (List.length a) (a ++ b) = a.
Proof. intros. rewrite firstn_app, Nat.sub_diag, firstn_all. cbn. apply app_nil_r. Qed.

Lemma skipn_app_exact : forall {A} (a b : list A), skipn (List.length a) (a ++ b) = b.
Proof. intros. rewrite skipn_app, Nat.sub_diag, skipn_all. reflexivity. Qed.

(* the middle of a concatenation *)
Lemma bsub_mid : forall a b c : bytes, bsub (a ++ b ++ c) (blen a) (blen a + blen b) = Some b.
Proof.
  intros. unfold bsub.
  assert (H1 : (blen a <=? blen a + blen b) = true) by (apply N.leb_le; lia).
  assert (H2 : (blen a + blen b <=? blen (a ++ b ++ c)) = true)
    by (apply N.leb_le; rewrite !blen_app; lia).
  rewrite H1, H2. cbn [andb].
  replace (blen a + blen b - blen a) with (blen b) by lia.
  rewrite !to_nat_blen, skipn_app_exact, firstn_app_exact. reflexivity.
Qed.

Lemma bsub_mid' : forall (enc a b c : bytes) s e,
    enc = a ++ b ++ c -> s = blen a -> e = s + blen b -> bsub enc s e = Some b.
Proof. intros; subst. apply bsub_mid. Qed.

(* a suffix: from the end of a to the end *)
Lemma bsub_suffix : forall a b : bytes, bsub (a ++ b) (blen a) (blen (a ++ b)) = Some b.
Proof.
  intros. pose proof (bsub_mid a b []) as H. rewrite app_nil_r in H.
  rewrite blen_app. exact H.
Qed.

Lemma bsub_whole : forall b : bytes, bsub b 0 (blen b) = Some b.
Proof. intro b. exact (bsub_suffix [] b). Qed.

Lemma bsub_len : forall b s e x, bsub b s e = Some x -> blen x = e - s /\ s <= e /\ e <= blen b.
Proof.
  intros b s e x H. unfold bsub in H.
  destruct (s <=? e) eqn:E1; [|discriminate]. destruct (e <=? blen b) eqn:E2; [|discriminate].
  cbn [andb] in H. injection H as <-. apply N.leb_le in E1, E2.
  split; [|split; assumption].
  unfold blen in *. rewrite firstn_length, skipn_length. lia.
Qed.

Lemma bsub_fail : forall b s e, blen b < e -> bsub b s e = None.
Proof.
  intros b s e H. unfold bsub. assert (E : (e <=? blen b) = false) by (apply N.leb_gt; exact H).
  rewrite E, andb_false_r. reflexivity.
Qed.

Lemma nth_N_app_mid : forall (a : bytes) c (r : bytes), nth_N (a ++ c :: r) (blen a) = Some c.
Proof.
  intros. unfold nth_N.
  assert (H : (blen a <? N.of_nat (List.length (a ++ c :: r))) = true).
  { apply N.ltb_lt. unfold blen. rewrite app_length. cbn [List.length]. lia. }
  rewrite H, to_nat_blen. rewrite nth_error_app2 by lia. rewrite Nat.sub_diag. reflexivity.
Qed.

(* ---------------------------------------------------------------------------------------- *)
(* big-endian round trip                                                                      *)
(* ---------------------------------------------------------------------------------------- *)
Lemma b2n_n2b : forall n, b2n (n2b n) = n mod 256.
Proof. intro n. unfold b2n, n2b. apply N_ascii_embedding. apply N.mod_lt. lia. Qed.

Lemma be_decode_acc_app : forall a b acc, be_decode_acc acc (a ++ b) = be_decode_acc (be_decode_acc acc a) b.
Proof. induction a as [|c r IH]; intros b acc; cbn; [reflexivity|]. apply IH. Qed.

Lemma be_decode_acc_encode : forall k n acc,
    be_decode_acc acc (be_encode k n) = acc * 256 ^ N.of_nat k + n mod 256 ^ N.of_nat k.
Proof.
  induction k as [|k IH]; intros n acc.
  - cbn. rewrite N.mod_1_r. lia.
  - cbn [be_encode]. rewrite be_decode_acc_app, IH. cbn [be_decode_acc]. rewrite b2n_n2b.
    rewrite Nat2N.inj_succ, N.pow_succ_r by lia.
    assert (P : 256 ^ N.of_nat k <> 0) by (apply N.pow_nonzero; lia).
    rewrite (N.mod_mul_r n 256 (256 ^ N.of_nat k)) by (lia || assumption).
    lia.
Qed.

Lemma be_decode_encode : forall k n, n < 256 ^ N.of_nat k -> be_decode (be_encode k n) = n.
Proof.
  intros k n H. unfold be_decode. rewrite be_decode_acc_encode. rewrite N.mod_small by exact H. lia.
Qed.

Lemma be_encode_len : forall k n, blen (be_encode k n) = N.of_nat k.
Proof.
  induction k as [|k IH]; intro n; [reflexivity|].
  cbn [be_encode]. rewrite blen_app, IH. unfold blen. cbn [List.length]. lia.
Qed.

(* ---------------------------------------------------------------------------------------- *)
(* bits                                                                                       *)
(* ---------------------------------------------------------------------------------------- *)
(* bit j of a byte string (bit 0 = most significant bit of byte 0), index in nat *)
Definition bit_at (bs : bytes) (j : nat) : option bool :=
  match nth_error bs (j / 8) with
  | Some c => Some (N.testbit (b2n c) (N.of_nat (7 - j mod 8)))
  | None => None
  end.

Lemma get_bit_bytes_bit_at : forall bs j,
    get_bit_bytes bs (N.of_nat j) = option_map b2N (bit_at bs j).
Proof.
  intros bs j. unfold get_bit_bytes, bit_at, nth_N.
  assert (Hd : N.of_nat j / 8 = N.of_nat (j / 8)) by (rewrite Nat2N.inj_div; reflexivity).
  assert (Hm : N.of_nat j mod 8 = N.of_nat (j mod 8)) by (rewrite Nat2N.inj_mod; reflexivity).
  rewrite Hd, Hm, Nat2N.id.
  destruct (N.of_nat (j / 8) <? N.of_nat (List.length bs)) eqn:E.
  - apply N.ltb_lt in E. destruct (nth_error bs (j / 8)) as [c|] eqn:En.
    + cbn [option_map].
      replace (7 - N.of_nat (j mod 8)) with (N.of_nat (7 - j mod 8))
        by (pose proof (Nat.mod_upper_bound j 8 ltac:(lia)); lia).
      reflexivity.
    + apply nth_error_None in En. lia.
  - apply N.ltb_ge in E. assert (En : nth_error bs (j / 8) = None) by (apply nth_error_None; lia).
    rewrite En. reflexivity.
Qed.

Lemma bit_at_cons_lo : forall c r j, (j < 8)%nat -> bit_at (c :: r) j = Some (N.testbit (b2n c) (N.of_nat (7 - j))).
Proof.
  intros c r j H. unfold bit_at. rewrite Nat.div_small, Nat.mod_small by exact H. reflexivity.
Qed.

Lemma bit_at_cons_hi : forall c r j, bit_at (c :: r) (8 + j) = bit_at r j.
Proof.
  intros c r j. unfold bit_at.
  replace ((8 + j) / 8)%nat with (S (j / 8)).
  2:{ replace (8 + j)%nat with (1 * 8 + j)%nat by lia. rewrite Nat.div_add_l by lia. lia. }
  replace ((8 + j) mod 8)%nat with (j mod 8)%nat.
  2:{ replace (8 + j)%nat with (j + 1 * 8)%nat by lia. rewrite Nat.mod_add by lia. reflexivity. }
  reflexivity.
Qed.

Lemma bit_at_app : forall a b j, bit_at (a ++ b) (8 * List.length a + j) = bit_at b j.
Proof.
  induction a as [|c r IH]; intros b j; cbn [List.length app].
  - rewrite Nat.mul_0_r. reflexivity.
  - replace (8 * S (List.length r) + j)%nat with (8 + (8 * List.length r + j))%nat by lia.
    rewrite bit_at_cons_hi. apply IH.
Qed.

Lemma bit_at_app_l : forall a b j, (j < 8 * List.length a)%nat -> bit_at (a ++ b) j = bit_at a j.
Proof.
  intros a b j H. unfold bit_at.
  assert (L : (j / 8 < List.length a)%nat) by (apply Nat.div_lt_upper_bound; lia).
  rewrite nth_error_app1 by exact L. reflexivity.
Qed.

Lemma testbit_n2b : forall x m, m < 8 -> N.testbit (b2n (n2b x)) m = N.testbit x m.
Proof.
  intros x m H. rewrite b2n_n2b. change 256 with (2 ^ 8). apply N.mod_pow2_bits_low. exact H.
Qed.

Lemma testbit_double_plus : forall a (b : bool) m,
    N.testbit (2 * a + (if b then 1 else 0)) m = if m =? 0 then b else N.testbit a (m - 1).
Proof.
  intros a b m. destruct (N.eqb_spec m 0) as [->|Hm].
  - change (if b then 1 else 0) with (N.b2n b). apply N.testbit_0_r.
  - replace m with (N.succ (m - 1)) at 1 by lia.
    change (if b then 1 else 0) with (N.b2n b). apply N.testbit_succ_r.
Qed.

(* the bits of pack_bits: first the [cnt] accumulated bits of [acc], then the list *)
Lemma pack_bits_bit : forall bs acc cnt j,
    (cnt < 8)%nat -> (j < cnt + List.length bs)%nat ->
    bit_at (pack_bits bs acc cnt) j =
    Some (if (j <? cnt)%nat then N.testbit acc (N.of_nat (cnt - 1 - j)) else nth (j - cnt) bs false).
Proof.
  induction bs as [|b r IH]; intros acc cnt j Hc Hj.
  - cbn [List.length] in Hj. cbn [pack_bits].
    destruct (Nat.eqb_spec cnt 0) as [->|Hn]; [lia|].
    assert (Hlt : (j <? cnt)%nat = true) by (apply Nat.ltb_lt; lia). rewrite Hlt.
    rewrite bit_at_cons_lo by lia. f_equal.
    rewrite testbit_n2b by lia.
    rewrite N.shiftl_spec_high' by lia. f_equal. lia.
  - cbn [pack_bits]. cbn [List.length] in Hj.
    destruct (Nat.eqb_spec cnt 7) as [->|Hn7].
    + (* byte complete *)
      destruct (Nat.ltb_spec j 8) as [Hj8|Hj8].
      * rewrite bit_at_cons_lo by exact Hj8. f_equal. rewrite testbit_n2b by lia.
        rewrite testbit_double_plus.
        destruct (Nat.ltb_spec j 7) as [Hj7|Hj7].
        -- assert (E : (N.of_nat (7 - j) =? 0) = false) by (apply N.eqb_neq; lia). rewrite E.
           f_equal. lia.
        -- assert (j = 7)%nat by lia. subst j. cbn. reflexivity.
      * assert (Hk : exists k, j = (8 + k)%nat) by (exists (j - 8)%nat; lia).
        destruct Hk as [k ->]. rewrite bit_at_cons_hi.
        rewrite IH by lia. f_equal.
        assert (E : (8 + k <? 7)%nat = false) by (apply Nat.ltb_ge; lia). rewrite E.
        assert (E0 : (k <? 0)%nat = false) by (apply Nat.ltb_ge; lia). rewrite E0.
        replace (8 + k - 7)%nat with (S (k - 0)) by lia. reflexivity.
    + rewrite IH by lia. f_equal.
      destruct (Nat.ltb_spec j (S cnt)) as [H1|H1]; destruct (Nat.ltb_spec j cnt) as [H2|H2]; try lia.
      * rewrite testbit_double_plus.
        assert (E : (N.of_nat (S cnt - 1 - j) =? 0) = false) by (apply N.eqb_neq; lia). rewrite E.
        f_equal. lia.
      * assert (j = cnt) by lia. subst j. rewrite testbit_double_plus.
        replace (S cnt - 1 - cnt)%nat with 0%nat by lia. cbn [N.of_nat N.eqb].
        rewrite Nat.sub_diag. reflexivity.
      * replace (j - cnt)%nat with (S (j - S cnt)) by lia. reflexivity.
Qed.

Lemma pack_bools_bit : forall bs j, (j < List.length bs)%nat -> bit_at (pack_bools bs) j = Some (nth j bs false).
Proof.
  intros bs j H. unfold pack_bools. rewrite pack_bits_bit by lia.
  cbn [Nat.ltb Nat.leb]. rewrite Nat.sub_0_r. reflexivity.
Qed.

Lemma pack_bits_len : forall bs acc cnt, (cnt < 8)%nat ->
    List.length (pack_bits bs acc cnt) = ((cnt + List.length bs + 7) / 8)%nat.
Proof.
  induction bs as [|b r IH]; intros acc cnt Hc.
  - cbn [pack_bits List.length]. rewrite Nat.add_0_r.
    destruct cnt as [|[|[|[|[|[|[|[|c]]]]]]]]; try reflexivity. lia.
  - cbn [pack_bits List.length].
    destruct (Nat.eqb_spec cnt 7) as [->|Hn7].
    + cbn [List.length]. rewrite IH by lia.
      replace (7 + S (List.length r) + 7)%nat with ((0 + List.length r + 7) + 1 * 8)%nat by lia.
      rewrite Nat.div_add by lia. lia.
    + rewrite IH by lia. f_equal. lia.
Qed.

Lemma pack_bools_len : forall bs, blen (pack_bools bs) = bool_seq_len (N.of_nat (List.length bs)).
Proof.
  intro bs. unfold pack_bools, blen, bool_seq_len. rewrite pack_bits_len by lia.
  rewrite Nat2N.inj_div. f_equal. lia.
Qed.

Lemma rev'_rev : forall {A} (l : list A), rev' l = rev l.
Proof. intros. unfold rev'. rewrite <- rev_alt. reflexivity. Qed.
