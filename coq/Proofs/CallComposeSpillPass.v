(* Proofs/CallComposeSpillPass.v — property C02, recursion: the pass [spill] (model of
   spillLocalSlotsDuringRecursion) with its local definitions named, read as a wrapping of call
   statements in the sense of Proofs/CallComposeSpill.v:
   [sp_wrapper r f] = the code [spill_one] puts before and after a call of f inside routine r
   (None when r is not re-entered through f, or r has no local slots).
   [spill_unit]: if a routine's own code is a correct unit for the wrapping oracle, the code the spill
   pass makes of it is a correct unit for the raw oracle. *)
From Coq Require Import List Arith NArith String Bool Lia.
From PV Require Import Base.Bytes AVM.Syntax AVM.Machine Src.Expr Src.DenoteCall
  Comp.Blocks Comp.Lower Comp.Passes Comp.Compile
  Proofs.LowerShape Proofs.NormalizeLowered
  CallX.Denote CallX.GraphSem CallX.LinearSem CallX.FlattenCorrect CallX.EndToEnd
  Proofs.CallComposeLink Proofs.CallComposeMain Proofs.CallComposeSpill.
Import ListNotations.
Local Open Scope list_scope.

(* ---- spill_one = before ++ [call] ++ after ---- *)
Definition sp_pre (version : N) (slots : list N) (numArgs : nat) : list comp :=
  let nslots := List.length slots in
  let coverAvailable := N.leb 5 version in
  let digArgs := negb coverAvailable in
  let coverSpilled := coverAvailable && Nat.ltb nslots numArgs in
  let uncoverArgs := coverAvailable && negb (Nat.ltb nslots numArgs) in
  let before1 := flat_map (fun s => OpI O_load s :: (if coverSpilled then [OpI O_cover (N.of_nat numArgs)] else [])) slots in
  let dist := (nslots + numArgs - 1)%nat in
  let before2 := flat_map (fun _ =>
                   (if uncoverArgs then (if Nat.eqb dist 1 then [Op0 O_swap] else [OpI O_uncover (N.of_nat dist)]) else [])
                   ++ (if digArgs then [OpI O_dig (N.of_nat dist)] else [])) (seq 0 numArgs) in
  before1 ++ before2.

Definition sp_post (version : N) (caller_returns : bool) (slots : list N) (numArgs : nat) : list comp :=
  let nslots := List.length slots in
  let coverAvailable := N.leb 5 version in
  let digArgs := negb coverAvailable in
  let hide := caller_returns && negb (Nat.eqb nslots 1) && negb coverAvailable in
  let after1 := if caller_returns then
                  if Nat.eqb nslots 1 then [Op0 O_swap]
                  else if coverAvailable then [OpI O_cover (N.of_nat nslots)]
                  else [OpI O_store (hd 0%N slots)]
                else [] in
  let after2 := flat_map (fun s =>
                   (if hide && N.eqb s (hd 0%N slots) then [OpI O_load s; Op0 O_swap] else [])
                   ++ [OpI O_store s]) (rev slots) in
  let after3 := if digArgs then flat_map (fun _ => (if caller_returns then [Op0 O_swap] else []) ++ [Op0 O_pop]) (seq 0 numArgs) else [] in
  after1 ++ after2 ++ after3.

Lemma spill_one_split version cr slots numArgs stmt :
  spill_one version cr slots numArgs stmt = sp_pre version slots numArgs ++ [stmt] ++ sp_post version cr slots numArgs.
Proof. unfold spill_one, sp_pre, sp_post. cbv zeta. rewrite <- !app_assoc. reflexivity. Qed.

Lemma forallb_flat_map {A B} (f : B -> bool) (g : A -> list B) l :
  (forall x, forallb f (g x) = true) -> forallb f (flat_map g l) = true.
Proof. intros H. induction l as [|x t IH]; [reflexivity|]. cbn [flat_map]. rewrite forallb_app, H, IH. reflexivity. Qed.

Lemma sp_pre_straight version slots numArgs : forallb straight (sp_pre version slots numArgs) = true.
Proof.
  unfold sp_pre. cbv zeta. rewrite forallb_app. apply andb_true_intro. split; apply forallb_flat_map; intros x.
  - destruct (_ && _); reflexivity.
  - destruct (_ && _); destruct (negb _); try destruct (Nat.eqb _ 1); reflexivity.
Qed.

Lemma sp_post_straight version cr slots numArgs : forallb straight (sp_post version cr slots numArgs) = true.
Proof.
  unfold sp_post. cbv zeta. rewrite !forallb_app. apply andb_true_intro. split; [|apply andb_true_intro; split].
  - destruct cr; [|reflexivity]. destruct (Nat.eqb _ 1); [reflexivity|]. destruct (N.leb 5 version); reflexivity.
  - apply forallb_flat_map. intros x. destruct (_ && _); reflexivity.
  - destruct (negb _); [|reflexivity]. apply forallb_flat_map. intros x. destruct cr; reflexivity.
Qed.

Section SpillPass.
  Variable version : N.
  Variable p : prog.
  Variable frs : list flat_routine.
  Variable locals : list (option N * list N).

  Definition sp_graph : list (N * list N) :=
    flat_map (fun fr => match fr_sub fr with
                        | Some r => [(r_id r, sort_dedup (flat_map comp_subs (fr_ops fr)))]
                        | None => [] end) frs.

  Definition sp_reentry (s : N) : list N :=
    let n := S (List.length sp_graph) in
    match find (fun x => N.eqb (fst x) s) sp_graph with
    | Some (_, callees) =>
        filter (fun c => graph_search (n * n + n) sp_graph
                           (match find (fun x => N.eqb (fst x) c) sp_graph with Some (_, l) => l | None => [] end) [] s) callees
    | None => []
    end.

  Definition sp_slots (r : routine) : list N :=
    match find (fun x => match fst x with Some k => N.eqb k (r_id r) | None => false end) locals with
    | Some (_, l) => l | None => [] end.

  Definition sp_numargs (callee : N) : nat :=
    match find_sub p callee with Some cr => N.to_nat (r_nargs cr) | None => O end.
  Definition sp_returns (callee : N) : bool :=
    match find_sub p callee with Some cr => negb (ty_eqb (r_ret cr) TNone) | None => false end.

  Definition sp_stmt (re slots : list N) (stmt : comp) : list comp :=
    match filter (fun c => mem_N c re) (comp_subs stmt) with
    | callee :: _ => spill_one version (sp_returns callee) slots (sp_numargs callee) stmt
    | [] => [stmt]
    end.

  (* is routine r spilled at all? *)
  Definition sp_active (r : routine) : bool :=
    match sp_reentry (r_id r), sp_slots r with
    | [], _ | _, [] => false
    | _, _ => true
    end.

  Definition sp_fr (fr : flat_routine) : flat_routine :=
    match fr_sub fr with
    | None => fr
    | Some r =>
        if sp_active r
        then mkFR (fr_sub fr) (flat_map (sp_stmt (sp_reentry (r_id r)) (sp_slots r)) (fr_ops fr))
        else fr
    end.

  Lemma sp_fr_sub fr : fr_sub (sp_fr fr) = fr_sub fr.
  Proof. unfold sp_fr. destruct (fr_sub fr) as [r|] eqn:E; [|exact E]. destruct (sp_active r); [reflexivity|exact E]. Qed.

  (* the per-routine function of [spill], literally *)
  Definition sp_fr' (fr : flat_routine) : flat_routine :=
    match fr_sub fr with
    | None => fr
    | Some r =>
        let re := sp_reentry (r_id r) in
        let slots := sp_slots r in
        match re, slots with
        | [], _ | _, [] => fr
        | _, _ => mkFR (fr_sub fr) (flat_map (sp_stmt re slots) (fr_ops fr))
        end
    end.

  Lemma sp_fr_eq fr : sp_fr' fr = sp_fr fr.
  Proof.
    unfold sp_fr', sp_fr, sp_active. destruct (fr_sub fr) as [r|]; [|reflexivity]. cbv zeta.
    destruct (sp_reentry (r_id r)) as [|x t]; [reflexivity|]. destruct (sp_slots r) as [|y u]; reflexivity.
  Qed.

  Lemma spill_inv frs2 : spill version p frs locals = COk frs2 -> frs2 = map sp_fr frs.
  Proof.
    intros H.
    assert (E : spill version p frs locals =
                if existsb (fun fr => match fr_sub fr with
                                      | Some r => r_byref r && negb (match sp_reentry (r_id r) with [] => true | _ => false end)
                                      | None => false end) frs
                then CErr ErrInput else COk (map sp_fr' frs)) by reflexivity.
    rewrite E in H. destruct (existsb _ frs); [discriminate H|]. injection H as <-.
    apply map_ext. exact sp_fr_eq.
  Qed.

  (* ---- the pass as a wrapping ---- *)
  Definition sp_wrapper (r : routine) (f : N) : option (list comp * list comp) :=
    if sp_active r && mem_N f (sp_reentry (r_id r))
    then Some (sp_pre version (sp_slots r) (sp_numargs f), sp_post version (sp_returns f) (sp_slots r) (sp_numargs f))
    else None.

  Lemma sp_wrapper_ok r : wrapper_ok (sp_wrapper r).
  Proof.
    intros f pre post H. unfold sp_wrapper in H. destruct (_ && _); [|discriminate H]. injection H as <- <-.
    split; [apply sp_pre_straight|apply sp_post_straight].
  Qed.

  (* on an instruction that is a call, a branch, or free of routine references, the pass does what the
     wrapping does *)
  Lemma comp_subs_plain i : forallb plain_arg (i_args i) = true -> comp_subs (COp i) = [].
  Proof.
    unfold comp_subs, instr_subs. induction (i_args i) as [|a t IH]; intros H; [reflexivity|].
    cbn [forallb] in H. apply andb_prop in H. destruct H as [Ha Ht]. cbn [flat_map]. rewrite (IH Ht).
    destruct a; try reflexivity; discriminate Ha.
  Qed.

  Lemma sp_stmt_expand r c : sp_active r = true ->
    match c with COp i => linkable_instr i = true | _ => True end ->
    sp_stmt (sp_reentry (r_id r)) (sp_slots r) c = expand (sp_wrapper r) c.
  Proof.
    intros Ac Lk. destruct c as [i|l cm|v]; try reflexivity.
    unfold sp_stmt, expand, linkable_instr in *.
    destruct (call_target (i_op i) (i_args i)) as [f|] eqn:CT.
    - destruct (call_target_inv _ _ _ CT) as [Eo Ea]. destruct i as [o a]. cbn [i_op i_args] in Eo, Ea. subst o a.
      cbn [comp_subs instr_subs i_args flat_map app filter]. unfold sp_wrapper. rewrite Ac. cbn [andb].
      destruct (mem_N f (sp_reentry (r_id r))); [apply spill_one_split|reflexivity].
    - destruct (jump_of i) as [[k l]|] eqn:J.
      + destruct (jump_of_inv _ _ _ J) as [Ea _]. unfold comp_subs, instr_subs. rewrite Ea. reflexivity.
      + apply andb_prop in Lk. destruct Lk as [_ Pl]. rewrite (comp_subs_plain i Pl). reflexivity.
  Qed.

  Lemma flat_map_ext_in {A B} (f g : A -> list B) l : (forall x, In x l -> f x = g x) -> flat_map f l = flat_map g l.
  Proof.
    induction l as [|x t IH]; intros H; [reflexivity|]. cbn [flat_map].
    rewrite (H x (or_introl eq_refl)), IH; [reflexivity|]. intros y Hy. apply H. right. exact Hy.
  Qed.
End SpillPass.

(* ---- a spilled routine is a correct unit ---- *)
Section SpillUnit.
  Variable o : copts.
  Variable cx : ctx.
  Variable look : N -> N.
  Variable msel : list (string * bytes).
  Variable subs : list routine.
  Variable version : N.
  Variable p : prog.
  Variable frs : list flat_routine.
  Variable locals : list (option N * list N).

  Definition idW : option routine -> (N -> list value -> mstate -> callres) -> (N -> list value -> mstate -> callres) :=
    fun _ orc => orc.

  (* the oracle the source of a routine sees: a call wrapped by the spill pass answers with the outcome of
     its spill segment *)
  Definition W_spill (sub : option routine) (orc : N -> list value -> mstate -> callres) : N -> list value -> mstate -> callres :=
    match sub with
    | None => orc
    | Some r => wrap (sp_wrapper version p frs locals r) (envk o cx look msel subs (Some r) orc) orc
    end.

  Lemma expand_none_id (wr : N -> option (list comp * list comp)) code :
    (forall f, wr f = None) -> flat_map (expand wr) code = code.
  Proof.
    intros H. induction code as [|c t IH]; [reflexivity|]. cbn [flat_map]. rewrite IH.
    destruct c as [i| |]; try reflexivity. cbn [expand].
    destruct (call_target (i_op i) (i_args i)) as [f|]; [rewrite H|]; reflexivity.
  Qed.

  Lemma sp_fr_ops r code :
    (forall i, In (COp i) code -> linkable_instr i = true) ->
    fr_ops (sp_fr version p frs locals (mkFR (Some r) code)) = flat_map (expand (sp_wrapper version p frs locals r)) code.
  Proof.
    intros Lk. unfold sp_fr. cbn [fr_sub fr_ops]. destruct (sp_active frs locals r) eqn:Ac.
    - cbn [fr_ops]. apply flat_map_ext_in. intros c Hc. apply sp_stmt_expand; [exact Ac|].
      destruct c as [i| |]; try exact Logic.I. exact (Lk i Hc).
    - cbn [fr_ops]. symmetry. apply expand_none_id. intros f. unfold sp_wrapper. rewrite Ac. reflexivity.
  Qed.

  Theorem spill_unit r ast0 code :
    (forall i, In (COp i) code -> linkable_instr i = true) ->
    unit_correct o cx look msel subs idW (Some r) ast0 code ->
    unit_correct o cx look msel subs W_spill (Some r) ast0 (fr_ops (sp_fr version p frs locals (mkFR (Some r) code))).
  Proof.
    intros Lk UC orc fuel stk st h Hh. rewrite (sp_fr_ops r code Lk).
    pose proof (UC (W_spill (Some r) orc) fuel stk st h Hh) as Run.
    pose proof (spill_sim (sp_wrapper version p frs locals r) (envk o cx look msel subs (Some r) orc) orc
                          (sp_wrapper_ok version p frs locals r) code _ _ Run) as Sim.
    assert (NU : not_unsup h) by (destruct (denote _ _ _ _ _); cbn in Hh; try discriminate Hh; injection Hh as <-; exact Logic.I).
    specialize (Sim NU). cbn [mapc] in Sim. rewrite pos_0 in Sim.
    assert (Eh : mapc (sp_wrapper version p frs locals r) code h = h).
    { destruct (denote _ _ _ _ _); cbn in Hh; try discriminate Hh; injection Hh as <-; reflexivity. }
    rewrite Eh in Sim. exact Sim.
  Qed.

  (* the main routine is never touched by the pass *)
  Lemma spill_unit_main ast0 code :
    unit_correct o cx look msel subs idW None ast0 code ->
    unit_correct o cx look msel subs W_spill None ast0 code.
  Proof. intros UC. exact UC. Qed.
End SpillUnit.
