(* Proofs/WideRatioGeneralOps.v — C16 for arbitrary factors, part 1: the glue operations of
   WideRatio (int 0, mulw, the 8-op multiply step, the 6-op combine) executed by the SOURCE
   semantics ([den_ops] / [do_op], Src/Denote.v) are exactly their pure stack semantics
   ([run_pure], Comp/WideRatio.v): they never touch the state, and they either succeed with the
   [run_pure] stack or FAIL (never "unsupported", never an exit).  This is what lets the arithmetic
   lemmas of Proofs/WideRatioProof.v (stated on [run_pure]) be reused for [denote]. *)
From Coq Require Import List NArith Lia Bool.
From PV Require Import Base.Bytes Base.U64 AVM.Syntax AVM.Ops AVM.Machine Src.Expr Src.Denote
  Comp.WideRatio Proofs.WideRatioProof.
Import ListNotations.
Local Open Scope N_scope.

(* outcome of a pure op list lifted to the evaluator's outcome type *)
Definition lift (r : option (list value)) (st : mstate) : dout :=
  match r with Some s => DNorm s st | None => DFail end.

Definition is_aint (a : arg) : bool := match a with AInt _ => true | _ => false end.

(* the opcodes WideRatio itself emits (besides [int]) *)
Definition glue_op (o : opc) : bool :=
  match o with
  | O_uncover | O_dig | O_mul | O_cover | O_mulw | O_add | O_swap
  | O_divmodw | O_pop | O_logic_not | O_assert_ => true
  | _ => false
  end.

Definition glue_instr (i : instr) : bool :=
  forallb is_aint (i_args i) &&
  (glue_op (i_op i) || match i_op i, i_args i with O_int, [AInt _] => true | _, _ => false end).

Lemma args_to_imms_ints env o args : forallb is_aint args = true ->
  exists im, args_to_imms env o args = Some im /\ imms_to_args im = args.
Proof.
  induction args as [|a t IH]; intros H; cbn [forallb] in H.
  - exists []. split; reflexivity.
  - apply andb_true_iff in H as [Ha Ht]. destruct (IH Ht) as (im & E1 & E2).
    destruct a as [n| | | |]; try discriminate Ha.
    exists (IInt n :: im). cbn [args_to_imms arg_to_imm]. rewrite E1. cbn [imms_to_args]. rewrite E2.
    split; reflexivity.
Qed.

Ltac crush_pnot :=
  repeat match goal with
         | |- context [match ?x with _ => _ end] => destruct x
         end; discriminate.

(* a glue opcode is a pure opcode on EVERY stack: wrong shape / wrong type panics *)
Lemma glue_not_pnot o args s : glue_op o = true -> exec_pure o args s <> PNot.
Proof.
  intros G. destruct o; try discriminate G; clear G.
  all: destruct s as [|[a|a] [|[b|b] [|[c|c] [|[d|d] r]]]];
    cbn [exec_pure]; unfold oki, okbool; crush_pnot.
Qed.

Lemma int_not_pnot n s : exec_pure O_int [AInt n] s <> PNot.
Proof. cbn [exec_pure]. unfold oki. destruct (fits64 n); discriminate. Qed.

Lemma glue_slot_none i : glue_instr i = true -> slot_access (i_op i) (i_args i) = None.
Proof.
  unfold glue_instr, slot_access. intros H. apply andb_true_iff in H as [Ha _].
  destruct (i_args i) as [|[] [|]]; try reflexivity. discriminate Ha.
Qed.

(* one glue instruction under the source semantics = its pure semantics *)
Lemma do_op_glue env i s st : glue_instr i = true ->
  do_op env (i_op i) (i_args i) s st =
  match exec_pure (i_op i) (i_args i) s with POk s' => DNorm s' st | _ => DFail end.
Proof.
  intros G. unfold do_op. rewrite (glue_slot_none i G).
  unfold glue_instr in G. apply andb_true_iff in G as [Ha Ho].
  destruct (args_to_imms_ints env (i_op i) (i_args i) Ha) as (im & E1 & E2).
  rewrite E1. unfold exec_op. rewrite E2.
  destruct (exec_pure (i_op i) (i_args i) s) eqn:E; try reflexivity.
  exfalso. apply orb_true_iff in Ho as [Ho|Ho].
  - exact (glue_not_pnot _ _ _ Ho E).
  - destruct (i_op i); try discriminate Ho.
    destruct (i_args i) as [|[n| | | |] [|]]; try discriminate Ho.
    exact (int_not_pnot n s E).
Qed.

Lemma den_ops_glue env ops : forallb glue_instr ops = true ->
  forall s st, den_ops env ops s st = lift (run_pure ops s) st.
Proof.
  induction ops as [|i t IH]; intros H s st; cbn [den_ops run_pure lift]; [reflexivity|].
  cbn [forallb] in H. apply andb_true_iff in H as [Hi Ht].
  rewrite (do_op_glue env i s st Hi).
  destruct (exec_pure (i_op i) (i_args i) s); cbn [bind]; try reflexivity.
  apply IH; exact Ht.
Qed.

Lemma den_mul_step env s st : den_ops env mul_step_ops s st = lift (run_pure mul_step_ops s) st.
Proof. apply den_ops_glue. reflexivity. Qed.
Lemma den_combine env s st : den_ops env combine_ops s st = lift (run_pure combine_ops s) st.
Proof. apply den_ops_glue. reflexivity. Qed.
Lemma den_mulw env s st : den_ops env [I0 O_mulw] s st = lift (run_pure [I0 O_mulw] s) st.
Proof. apply den_ops_glue. reflexivity. Qed.
Lemma den_int0 env s st : den_ops env [I1 O_int 0] s st = DNorm (VI 0 :: s) st.
Proof. rewrite den_ops_glue by reflexivity. reflexivity. Qed.

(* the code of a constant factor pushes it *)
Lemma run_const v s : v < U64 -> run_pure (const_code v) s = Some (VI v :: s).
Proof.
  intros H. unfold const_code, I1. cbn [run_pure i_op i_args exec_pure]. unfold oki, fits64.
  apply N.ltb_lt in H. rewrite H. reflexivity.
Qed.

Lemma run_const_app v ops s : v < U64 -> run_pure (const_code v ++ ops) s = run_pure ops (VI v :: s).
Proof. intros H. rewrite run_pure_app, run_const by exact H. reflexivity. Qed.

Lemma lift_app a b s st :
  lift (run_pure (a ++ b) s) st = bind (lift (run_pure a s) st) (fun s1 st1 => lift (run_pure b s1) st1).
Proof. rewrite run_pure_app. destruct (run_pure a s); reflexivity. Qed.

(* the glue never produces anything but a normal outcome or a failure *)
Lemma lift_shape r st : match lift r st with DNorm _ st' => st' = st | DFail => True | _ => False end.
Proof. destruct r; cbn [lift]; auto. Qed.
