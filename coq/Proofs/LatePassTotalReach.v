(* Proofs/LatePassTotalReach.v — two facts about the graph that lowering produces, needed for the
   totality of the passes AFTER compile_one (Props/C20_late.v):

     fill   every id that [lower] allocates is DEFINED when it returns (the ids reserved for the branch
            blocks of loops are defined before the loop's lowering returns): together with closedness
            (Proofs/LowerShape.v) every edge of a lowered routine graph points to a defined block, which
            is what flattenBlocks needs;
     hits   from the START block of a lowered fragment one reaches — along outgoing edges — its END
            block (which is a simple block continuing with the continuation k), or the break / continue
            target of the enclosing loop.  For a whole routine (no enclosing loop) the end block is
            reachable from the start block, which is what sortBlocks needs ("End block not present"
            is never raised).

   [hits] is NOT unconditional: Break/Continue outside a loop and Continue in a loop header are
   lowered to blocks without successor (excluded by compile_one's checks, as in
   Proofs/EndToEndExits.v), and a Cond WITHOUT ARMS is lowered to a bare [err] block from which the
   end block cannot be reached (PyTeal's constructor rejects Cond(); [check_expr] does not model
   constructors).  The latter is the predicate [nec] ("no empty Cond") below; it is necessary
   (Proofs/LatePassTotalExamples.v, [sort_needs_cond_arms]).  One induction over the recipe, same skeleton
   as Proofs/EndToEndExits.v. *)
From Coq Require Import List Arith NArith String Bool Lia.
From PV Require Import Base.Bytes AVM.Syntax Src.Expr Comp.Blocks Comp.WideRatio Comp.Lower Comp.Passes
  Proofs.LowerFrame Proofs.EndToEndExits Proofs.SortCorrect.
Import ListNotations.

(* ---- no Cond without arms, anywhere in the recipe ---- *)
Fixpoint nec (e : expr) {struct e} : bool :=
  match e with
  | EOp _ _ _ args | ENary _ _ args | ESeq args | EMulti _ _ args _ | ECall _ _ args => forallb nec args
  | EIf c th el => nec c && nec th && match el with Some x => nec x | None => true end
  | ECond arms =>
      match arms with [] => false | _ :: _ => true end &&
      forallb (fun a => nec (fst a) && nec (snd a)) arms
  | EWhile c b => nec c && nec b
  | EFor i c s b => nec i && nec c && nec s && nec b
  | EAssert conds _ => forallb nec conds
  | EReturn (Some v) | EExit v => nec v
  | EReturn None | EBreak | EContinue | EParam _ => true
  | EWide ns ds => forallb nec ns && forallb nec ds
  end.

Lemma forallb_Forall {A} (f : A -> bool) l : forallb f l = true -> Forall (fun a => f a = true) l.
Proof. intros H. apply Forall_forall. apply forallb_forall. exact H. Qed.

(* ---- graph extension and reachability ---- *)
Definition gext (g g' : graph) : Prop := forall i b, g_blk g i = Some b -> g_blk g' i = Some b.

Lemma gext_refl g : gext g g.
Proof. intros i b E. exact E. Qed.

Lemma gext_trans a b c : gext a b -> gext b c -> gext a c.
Proof. intros H1 H2 i x E. apply H2, H1, E. Qed.

Lemma frame_gext g g' : wf g -> frame g g' -> gext g g'.
Proof. intros W F i b E. exact (frame_keeps _ _ _ _ F W E). Qed.

Lemma gext_out g g' p x : gext g g' -> In x (out_of g p) -> In x (out_of g' p).
Proof.
  intros H I. unfold out_of in *. destruct (g_blk g p) as [b|] eqn:E; [|destruct I].
  rewrite (H p b E). exact I.
Qed.

Lemma reach_trans g a b c : reach g a b -> reach g b c -> reach g a c.
Proof. intros H1 H2. induction H2 as [|x y H2 IH Hy]; [exact H1|eapply reach_step; eauto]. Qed.

Lemma reach_edge g a b : In b (out_of g a) -> reach g a b.
Proof. intros H. eapply reach_step; [apply reach_refl|exact H]. Qed.

Lemma gext_reach g g' a b : gext g g' -> reach g a b -> reach g' a b.
Proof.
  intros H R. induction R as [|x y R IH Hy]; [apply reach_refl|].
  eapply reach_step; [exact IH|eapply gext_out; eauto].
Qed.

Lemma edge_simple g i ops n : g_blk g i = Some (BSimple ops (Some n)) -> reach g i n.
Proof. intros E. apply reach_edge. unfold out_of. rewrite E. left. reflexivity. Qed.

Lemma edge_cond_t g i ops t f : g_blk g i = Some (BCond ops (Some t) (Some f)) -> reach g i t.
Proof. intros E. apply reach_edge. unfold out_of. rewrite E. left. reflexivity. Qed.

Lemma edge_cond_f g i ops t f : g_blk g i = Some (BCond ops (Some t) (Some f)) -> reach g i f.
Proof. intros E. apply reach_edge. unfold out_of. rewrite E. right. left. reflexivity. Qed.

Lemma define_gext g i b : g_blk g i = None -> gext g (define g i b).
Proof.
  intros N j x E. unfold define. cbn [g_blk]. unfold upd.
  destruct (Nat.eqb_spec j i) as [Q|Q]; [subst; congruence|exact E].
Qed.

(* ---- every allocated id is defined ---- *)
Definition fill (g g' : graph) : Prop :=
  forall j, g_next g <= j -> j < g_next g' -> g_blk g' j <> None.

Lemma fill_refl g : fill g g.
Proof. intros j H1 H2. lia. Qed.

Lemma fill_trans g a b : fill g a -> frame a b -> fill a b -> fill g b.
Proof.
  intros H1 (_ & K & _) H2 j L1 L2.
  destruct (Nat.lt_ge_cases j (g_next a)) as [L|L]; [rewrite K by exact L; apply H1; assumption|].
  apply H2; assumption.
Qed.

Lemma add_block_fill g b i g1 : wf g -> add_block g b = (i, g1) ->
  fill g g1 /\ frame g g1 /\ g_blk g1 i = Some b /\ i = g_next g /\ g_next g1 = S i.
Proof.
  intros W E. destruct (add_block_spec _ _ _ _ W E) as (F & Bi & Ii & Ni).
  split; [|auto]. intros j L1 L2. assert (j = i) by lia. subst j. rewrite Bi. discriminate.
Qed.

(* ---- from the start of a fragment one reaches its end block or a loop target ---- *)
Definition hits (c : lctx) (g' : graph) (s en : id) (k : option id) : Prop :=
  (reach g' s en /\ exists ops, g_blk g' en = Some (BSimple ops k)) \/
  (exists b, (l_brk c = Some b \/ l_cont c = Some b) /\ reach g' s b).

Lemma gext_hits c g g' s en k : gext g g' -> hits c g s en k -> hits c g' s en k.
Proof.
  intros H [[R (ops & E)]|(b & Hb & R)].
  - left. split; [eapply gext_reach; eauto|exists ops; apply H; exact E].
  - right. exists b. split; [exact Hb|eapply gext_reach; eauto].
Qed.

Lemma hits_pre c g s0 s en k : reach g s0 s -> hits c g s en k -> hits c g s0 en k.
Proof.
  intros R0 [[R E]|(b & Hb & R)].
  - left. split; [eapply reach_trans; eauto|exact E].
  - right. exists b. split; [exact Hb|eapply reach_trans; eauto].
Qed.

Lemma hits_block c g b ops k : g_blk g b = Some (BSimple ops k) -> hits c g b b k.
Proof. intros E. left. split; [apply reach_refl|eauto]. Qed.

(* the end block of the first fragment continues with block m, from which x is reached *)
Lemma hits_via c g s e1 m x en k :
  hits c g s e1 (Some m) -> reach g m x -> hits c g x en k -> hits c g s en k.
Proof.
  intros [[R (ops & E)]|(b & Hb & R)] Rm H.
  - apply (hits_pre c g s x); [|exact H].
    eapply reach_trans; [exact R|]. eapply reach_trans; [eapply edge_simple; exact E|exact Rm].
  - right. exists b. split; assumption.
Qed.

Lemma hits_seq c g s1 e1 s2 e2 k : hits c g s1 e1 (Some s2) -> hits c g s2 e2 k -> hits c g s1 e2 k.
Proof. intros H1 H2. eapply hits_via; [exact H1|apply reach_refl|exact H2]. Qed.

Definition rpost (c : lctx) (g : graph) (k : option id) (s en : id) (g' : graph) : Prop :=
  fill g g' /\ hits c g' s en k.

(* =========================================================================================== *)
Section RHelpers.
  Variable lw : expr -> option id -> graph -> (id * id) * graph.
  Hypothesis lw_fr : forall e, lw_frame lw e.
  Variable c : lctx.
  Variable ok : expr -> Prop.

  Definition lw_r (e : expr) : Prop :=
    ok e -> forall k g s en g', wf g -> lw e k g = ((s, en), g') -> rpost c g k s en g'.

  Local Notation frs := (frs lw lw_fr).

  (* right-to-left chains: [ks] is the start of the first element, [endo] the block that received [k] *)
  Definition chain_r (g : graph) (k ks endo : option id) (g' : graph) : Prop :=
    fill g g' /\
    match endo with
    | None => ks = k /\ g' = g
    | Some en => exists s, ks = Some s /\ hits c g' s en k
    end.

  Lemma lower_chain_r es : Forall lw_r es -> Forall ok es ->
    forall k g ks endo g', wf g -> lower_chain lw es k g = ((ks, endo), g') -> chain_r g k ks endo g'.
  Proof.
    induction 1 as [|e t He Ht IH]; intros Ok k g ks endo g' W E; cbn [lower_chain] in E.
    - injection E as E1 E2 E3. subst ks endo g'. split; [apply fill_refl|split; reflexivity].
    - inversion Ok as [|? ? Oe Ot]; subst.
      destruct (lower_chain lw t k g) as [[kt endt] g1] eqn:E1.
      destruct (lw e kt g1) as [[s en] g2] eqn:E2. injection E as Q1 Q2 Q3. subst ks endo g'.
      pose proof (lower_chain_frame lw t (frs t) _ _ _ _ W E1) as F1.
      pose proof (frame_wf _ _ F1) as W1.
      pose proof (lw_fr e _ _ _ _ W1 E2) as F2.
      destruct (IH Ot _ _ _ _ _ W E1) as [L1 T1].
      destruct (He Oe _ _ _ _ _ W1 E2) as [L2 H2].
      split; [eapply fill_trans; eauto|].
      destruct endt as [en'|]; cbn [or_some].
      + destruct T1 as (s' & Ks & H1). subst kt. exists s. split; [reflexivity|].
        eapply hits_seq; [exact H2|]. eapply gext_hits; [apply frame_gext; eauto|exact H1].
      + destruct T1 as [Kt Gt]. subst kt g1. exists s. split; [reflexivity|exact H2].
  Qed.

  (* chains in which every element is followed by a fixed operation block *)
  Lemma op_chain_step g g1 g2 g3 k kt endt (opb : id) ops s en :
    wf g -> frame g g1 -> chain_r g k kt endt g1 ->
    add_block g1 (BSimple ops kt) = (opb, g2) ->
    frame g2 g3 -> rpost c g2 (Some opb) s en g3 ->
    chain_r g k (Some s) (or_some endt opb) g3.
  Proof.
    intros W F1 [L1 T1] E2 F3 [L3 H3].
    pose proof (frame_wf _ _ F1) as W1.
    destruct (add_block_fill _ _ _ _ W1 E2) as (L2 & F2 & B2 & _).
    pose proof (frame_wf _ _ F2) as W2.
    assert (B3 : g_blk g3 opb = Some (BSimple ops kt)) by exact (frame_keeps _ _ _ _ F3 W2 B2).
    split; [eapply fill_trans; [|exact F3|exact L3]; eapply fill_trans; eauto|].
    destruct endt as [en'|]; cbn [or_some].
    - destruct T1 as (s' & Ks & H1). subst kt. exists s. split; [reflexivity|].
      eapply hits_seq; [exact H3|]. eapply hits_seq; [eapply hits_block; exact B3|].
      eapply gext_hits; [|exact H1]. eapply gext_trans; [apply frame_gext; eauto|apply frame_gext; eauto].
    - destruct T1 as [Kt Gt]. subst kt g1. exists s. split; [reflexivity|].
      eapply hits_seq; [exact H3|eapply hits_block; exact B3].
  Qed.

  Lemma lower_nary_rest_r op l : Forall lw_r l -> Forall ok l ->
    forall k g ks endo g', wf g -> lower_nary_rest lw op l k g = ((ks, endo), g') -> chain_r g k ks endo g'.
  Proof.
    induction 1 as [|e t He Ht IH]; intros Ok k g ks endo g' W E; cbn [lower_nary_rest] in E.
    - injection E as E1 E2 E3. subst ks endo g'. split; [apply fill_refl|split; reflexivity].
    - inversion Ok as [|? ? Oe Ot]; subst.
      destruct (lower_nary_rest lw op t k g) as [[kt endt] g1] eqn:E1.
      destruct (add_block g1 (BSimple [I op []] kt)) as [opb g2] eqn:E2.
      destruct (lw e (Some opb) g2) as [[s en] g3] eqn:E3. injection E as Q1 Q2 Q3. subst ks endo g'.
      pose proof (lower_nary_rest_frame lw op t (frs t) _ _ _ _ W E1) as F1.
      pose proof (frame_wf _ _ F1) as W1.
      destruct (add_block_fill _ _ _ _ W1 E2) as (_ & F2 & _). pose proof (frame_wf _ _ F2) as W2.
      eapply op_chain_step; [exact W|exact F1|exact (IH Ot _ _ _ _ _ W E1)|exact E2|
                             exact (lw_fr e _ _ _ _ W2 E3)|exact (He Oe _ _ _ _ _ W2 E3)].
  Qed.

  Lemma lower_wide_rest_r l : Forall lw_r l -> Forall ok l ->
    forall k g ks endo g', wf g -> lower_wide_rest lw l k g = ((ks, endo), g') -> chain_r g k ks endo g'.
  Proof.
    induction 1 as [|e t He Ht IH]; intros Ok k g ks endo g' W E; cbn [lower_wide_rest] in E.
    - injection E as E1 E2 E3. subst ks endo g'. split; [apply fill_refl|split; reflexivity].
    - inversion Ok as [|? ? Oe Ot]; subst.
      destruct (lower_wide_rest lw t k g) as [[kt endt] g1] eqn:E1.
      destruct (add_block g1 (BSimple mul_step_ops kt)) as [opb g2] eqn:E2.
      destruct (lw e (Some opb) g2) as [[s en] g3] eqn:E3. injection E as Q1 Q2 Q3. subst ks endo g'.
      pose proof (lower_wide_rest_frame lw t (frs t) _ _ _ _ W E1) as F1.
      pose proof (frame_wf _ _ F1) as W1.
      destruct (add_block_fill _ _ _ _ W1 E2) as (_ & F2 & _). pose proof (frame_wf _ _ F2) as W2.
      eapply op_chain_step; [exact W|exact F1|exact (IH Ot _ _ _ _ _ W E1)|exact E2|
                             exact (lw_fr e _ _ _ _ W2 E3)|exact (He Oe _ _ _ _ _ W2 E3)].
  Qed.

  (* Cond arms: from the first condition one reaches the Cond's end block through the first arm *)
  Lemma lower_cond_arms_r l :
    Forall (fun a => lw_r (fst a) /\ lw_r (snd a)) l -> Forall (fun a => ok (fst a) /\ ok (snd a)) l ->
    forall en errb g st g' ops k, wf g -> g_blk g en = Some (BSimple ops k) ->
      lower_cond_arms lw l en errb g = (st, g') ->
      fill g g' /\ (l <> [] -> hits c g' st en k).
  Proof.
    induction 1 as [|[cnd pred] t [Hc Hp] Ht IH]; intros Ok en errb g st g' ops k W Ben E;
      cbn [lower_cond_arms] in E.
    - injection E as E1 E2. subst. split; [apply fill_refl|intros Q; destruct (Q eq_refl)].
    - inversion Ok as [|? ? [Oc Op] Ot]; subst. cbn [fst snd] in *.
      destruct (lower_cond_arms lw t en errb g) as [fls g1] eqn:E1.
      destruct (lw pred (Some en) g1) as [[ps pe] g2] eqn:E2.
      destruct (add_block g2 (BCond [] (Some ps) (Some fls))) as [br g3] eqn:E3.
      destruct (lw cnd (Some br) g3) as [[cs ce] g4] eqn:E4. injection E as Q1 Q2. subst st g'.
      assert (F1 : frame g g1).
      { eapply lower_cond_arms_frame; [|exact W|exact E1].
        apply Forall_forall. intros x _. split; apply lw_fr. }
      pose proof (frame_wf _ _ F1) as W1.
      pose proof (lw_fr pred _ _ _ _ W1 E2) as F2. pose proof (frame_wf _ _ F2) as W2.
      destruct (add_block_fill _ _ _ _ W2 E3) as (L3 & F3 & B3 & _). pose proof (frame_wf _ _ F3) as W3.
      pose proof (lw_fr cnd _ _ _ _ W3 E4) as F4.
      destruct (IH Ot _ _ _ _ _ _ _ W Ben E1) as [L1 _].
      destruct (Hp Op _ _ _ _ _ W1 E2) as [L2 H2].
      destruct (Hc Oc _ _ _ _ _ W3 E4) as [L4 H4].
      assert (X14 : gext g1 g4).
      { eapply gext_trans; [apply frame_gext; [exact W1|exact F2]|].
        eapply gext_trans; apply frame_gext; eauto. }
      assert (X24 : gext g2 g4) by (eapply gext_trans; apply frame_gext; eauto).
      split.
      + eapply fill_trans; [|exact F4|exact L4]. eapply fill_trans; [|exact F3|exact L3].
        eapply fill_trans; eauto.
      + intros _. eapply hits_via; [exact H4| |].
        * eapply edge_cond_t. exact (frame_keeps _ _ _ _ F4 W3 B3).
        * eapply hits_seq; [eapply gext_hits; [exact X24|exact H2]|].
          eapply hits_block. apply X14. exact (frame_keeps _ _ _ _ F1 W Ben).
  Qed.

  Lemma lower_factors_r fs : Forall lw_r fs -> Forall ok fs ->
    forall k g st en g', wf g -> lower_factors lw fs k g = ((st, en), g') -> rpost c g k st en g'.
  Proof.
    intros HF Ok k g st en g' W E. unfold lower_factors in E.
    destruct fs as [|f0 [|f1 rest]].
    - destruct (add_block g (BSimple [] k)) as [b g1] eqn:E1. injection E as Q1 Q2 Q3. subst.
      destruct (add_block_fill _ _ _ _ W E1) as (L1 & _ & B1 & _).
      split; [exact L1|eapply hits_block; exact B1].
    - inversion HF as [|? ? H0 _]; subst. inversion Ok as [|? ? O0 _]; subst.
      destruct (lw f0 k g) as [[s0 e0] g1] eqn:E1.
      destruct (add_block g1 (BSimple [I1 O_int 0] (Some s0))) as [hw g2] eqn:E2.
      destruct (add_block g2 (BSimple [] (Some hw))) as [st0 g3] eqn:E3. injection E as Q1 Q2 Q3. subst.
      pose proof (lw_fr f0 _ _ _ _ W E1) as F1. pose proof (frame_wf _ _ F1) as W1.
      destruct (add_block_fill _ _ _ _ W1 E2) as (L2 & F2 & B2 & _). pose proof (frame_wf _ _ F2) as W2.
      destruct (add_block_fill _ _ _ _ W2 E3) as (L3 & F3 & B3 & _).
      destruct (H0 O0 _ _ _ _ _ W E1) as [L1 H1].
      split; [eapply fill_trans; [|exact F3|exact L3]; eapply fill_trans; eauto|].
      eapply hits_pre.
      + eapply reach_trans; [eapply edge_simple; exact B3|].
        eapply edge_simple. exact (frame_keeps _ _ _ _ F3 W2 B2).
      + eapply gext_hits; [|exact H1]. eapply gext_trans; apply frame_gext; eauto.
    - inversion HF as [|? ? H0 HF1]; subst. inversion HF1 as [|? ? H1 HR]; subst.
      inversion Ok as [|? ? O0 Ok1]; subst. inversion Ok1 as [|? ? O1 OR]; subst.
      destruct (lower_wide_rest lw rest k g) as [[krest endrest] g1] eqn:E1.
      destruct (add_block g1 (BSimple [I0 O_mulw] krest)) as [m2 g2] eqn:E2.
      destruct (lw f1 (Some m2) g2) as [[s1 e1] g3] eqn:E3.
      destruct (lw f0 (Some s1) g3) as [[s0 e0] g4] eqn:E4.
      destruct (add_block g4 (BSimple [] (Some s0))) as [st0 g5] eqn:E5. injection E as Q1 Q2 Q3. subst st en g'.
      pose proof (lower_wide_rest_frame lw rest (frs rest) _ _ _ _ W E1) as F1.
      pose proof (frame_wf _ _ F1) as W1.
      destruct (add_block_fill _ _ _ _ W1 E2) as (_ & F2 & _). pose proof (frame_wf _ _ F2) as W2.
      pose proof (lw_fr f1 _ _ _ _ W2 E3) as F3. pose proof (frame_wf _ _ F3) as W3.
      pose proof (lw_fr f0 _ _ _ _ W3 E4) as F4. pose proof (frame_wf _ _ F4) as W4.
      destruct (add_block_fill _ _ _ _ W4 E5) as (L5 & F5 & B5 & _).
      pose proof (op_chain_step _ _ _ _ _ _ _ _ _ _ _ W F1 (lower_wide_rest_r rest HR OR _ _ _ _ _ W E1) E2 F3
                                (H1 O1 _ _ _ _ _ W2 E3)) as [L13 T13].
      destruct (H0 O0 _ _ _ _ _ W3 E4) as [L4 H4].
      split.
      + eapply fill_trans; [|exact F5|exact L5]. eapply fill_trans; eauto.
      + assert (X35 : gext g3 g5) by (eapply gext_trans; apply frame_gext; eauto).
        assert (X45 : gext g4 g5) by (apply frame_gext; assumption).
        assert (K : exists s, Some s1 = Some s /\ hits c g3 s (or_else endrest m2) k).
        { destruct endrest as [en'|]; cbn [or_some or_else] in *; exact T13. }
        destruct K as (s & Qs & Hs). injection Qs as Qs. subst s.
        eapply hits_pre; [eapply edge_simple; exact B5|].
        eapply hits_seq; [eapply gext_hits; [exact X45|exact H4]|].
        eapply gext_hits; [exact X35|exact Hs].
  Qed.
End RHelpers.

Lemma lower_comment_lines_r lines : forall k0 g ks g', wf g ->
  lower_comment_lines lines (Some k0) g = (ks, g') ->
  fill g g' /\ frame g g' /\ exists s, ks = Some s /\ reach g' s k0.
Proof.
  induction lines as [|l t IH]; intros k0 g ks g' W E; cbn [lower_comment_lines] in E.
  - injection E as E1 E2. subst. split; [apply fill_refl|]. split; [apply frame_refl; exact W|].
    exists k0. split; [reflexivity|apply reach_refl].
  - destruct (lower_comment_lines t (Some k0) g) as [kt g1] eqn:E1.
    destruct (add_block g1 (BSimple [mkI O_comment [AStr l]] kt)) as [b g2] eqn:E2. injection E as Q1 Q2. subst.
    destruct (IH _ _ _ _ W E1) as (L1 & F1 & s & Ks & R1). subst kt.
    destruct (add_block_fill _ _ _ _ (frame_wf _ _ F1) E2) as (L2 & F2 & B2 & _).
    split; [eapply fill_trans; eauto|]. split; [eapply frame_trans; eauto|].
    exists b. split; [reflexivity|].
    eapply reach_trans; [eapply edge_simple; exact B2|].
    eapply gext_reach; [apply frame_gext; [exact (frame_wf _ _ F1)|exact F2]|exact R1].
Qed.

(* MultiValue's stores: the chain of store blocks leads from its start to the block created first,
   which received the continuation *)
Lemma lower_stores_r outs : forall kk first g kst lastst g', wf g ->
  lower_stores outs kk first g = (kst, lastst, g') ->
  frame g g' /\ fill g g' /\
  match outs with
  | [] => kst = kk /\ lastst = first /\ g' = g
  | _ :: _ => exists s ops, kst = Some s /\ reach g' s (g_next g) /\
              g_blk g' (g_next g) = Some (BSimple ops kk) /\ lastst = or_some first (g_next g)
  end.
Proof.
  induction outs as [|s t IH]; intros kk first g kst lastst g' W E; cbn [lower_stores] in E.
  - injection E as E1 E2 E3. subst. split; [apply frame_refl; exact W|]. split; [apply fill_refl|auto].
  - destruct (add_block g (BSimple [I O_store [ASlot s]] kk)) as [b g1] eqn:E1.
    destruct (add_block_fill _ _ _ _ W E1) as (L1 & F1 & B1 & I1 & N1). subst b.
    pose proof (frame_wf _ _ F1) as W1.
    destruct (IH _ _ _ _ _ _ W1 E) as (F2 & L2 & T2).
    split; [eapply frame_trans; eauto|]. split; [eapply fill_trans; eauto|].
    pose proof (frame_keeps _ _ _ _ F2 W1 B1) as B2.
    destruct t as [|s2 t2].
    + destruct T2 as (Q1 & Q2 & Q3). subst.
      exists (g_next g), [I O_store [ASlot s]]. split; [reflexivity|]. split; [apply reach_refl|].
      split; [exact B1|reflexivity].
    + destruct T2 as (s' & ops' & Ks & R2 & B2' & Ls).
      exists s', [I O_store [ASlot s]]. split; [exact Ks|]. split.
      * eapply reach_trans; [exact R2|]. eapply edge_simple. exact B2'.
      * split; [exact B2|]. rewrite Ls. apply or_some_or_some.
Qed.

Section RAssert.
  Variable lw : expr -> option id -> graph -> (id * id) * graph.
  Hypothesis lw_fr : forall e, lw_frame lw e.
  Variable c : lctx.
  Variable ok : expr -> Prop.
  Variable version : N.
  Variable comment : option (list string).

  Lemma lower_assert1_r cnd : lw_r lw c ok cnd -> ok cnd ->
    forall k g s en g', wf g -> lower_assert1 lw version comment cnd k g = ((s, en), g') -> rpost c g k s en g'.
  Proof.
    intros Hc Oc k g s en g' W E. unfold lower_assert1 in E.
    destruct (N.leb 3 version).
    - destruct (add_block g (BSimple [I O_assert_ []] k)) as [opb g1] eqn:E1.
      destruct (add_block_fill _ _ _ _ W E1) as (L1 & F1 & B1 & _). pose proof (frame_wf _ _ F1) as W1.
      destruct comment as [lines|].
      + destruct (lower_comment_lines lines (Some opb) g1) as [ks ga] eqn:E2.
        destruct (add_block ga (BSimple [] ks)) as [st gb] eqn:E3.
        destruct (lw cnd (Some st) gb) as [[cs ce] g3] eqn:E4. injection E as Q1 Q2 Q3. subst s en g'.
        destruct (lower_comment_lines_r _ _ _ _ _ W1 E2) as (La & Fa & s0 & Ks & Ra). subst ks.
        pose proof (frame_wf _ _ Fa) as Wa.
        destruct (add_block_fill _ _ _ _ Wa E3) as (Lb & Fb & Bb & _). pose proof (frame_wf _ _ Fb) as Wb.
        pose proof (lw_fr cnd _ _ _ _ Wb E4) as F4.
        destruct (Hc Oc _ _ _ _ _ Wb E4) as [L4 H4].
        assert (Xa3 : gext ga g3) by (eapply gext_trans; apply frame_gext; eauto).
        assert (X13 : gext g1 g3) by (eapply gext_trans; [apply frame_gext; eauto|exact Xa3]).
        split.
        * eapply fill_trans; [|exact F4|exact L4]. eapply fill_trans; [|exact Fb|exact Lb].
          eapply fill_trans; eauto.
        * eapply hits_via; [exact H4| |eapply hits_block; apply X13; exact B1].
          eapply reach_trans; [eapply edge_simple; exact (frame_keeps _ _ _ _ F4 Wb Bb)|].
          eapply gext_reach; [exact Xa3|exact Ra].
      + destruct (lw cnd (Some opb) g1) as [[cs ce] g3] eqn:E4. injection E as Q1 Q2 Q3. subst s en g'.
        pose proof (lw_fr cnd _ _ _ _ W1 E4) as F4.
        destruct (Hc Oc _ _ _ _ _ W1 E4) as [L4 H4].
        split; [eapply fill_trans; eauto|].
        eapply hits_seq; [exact H4|eapply hits_block; exact (frame_keeps _ _ _ _ F4 W1 B1)].
    - destruct (add_block g (BSimple [] k)) as [en0 g1] eqn:E1.
      destruct (add_block g1 (BSimple [I O_err []] None)) as [errb g2] eqn:E2.
      destruct (add_block g2 (BCond [] (Some en0) (Some errb))) as [br g3] eqn:E3.
      destruct (lw cnd (Some br) g3) as [[cs ce] g4] eqn:E4. injection E as Q1 Q2 Q3. subst s en g'.
      destruct (add_block_fill _ _ _ _ W E1) as (L1 & F1 & B1 & _). pose proof (frame_wf _ _ F1) as W1.
      destruct (add_block_fill _ _ _ _ W1 E2) as (L2 & F2 & B2 & _). pose proof (frame_wf _ _ F2) as W2.
      destruct (add_block_fill _ _ _ _ W2 E3) as (L3 & F3 & B3 & _). pose proof (frame_wf _ _ F3) as W3.
      pose proof (lw_fr cnd _ _ _ _ W3 E4) as F4.
      destruct (Hc Oc _ _ _ _ _ W3 E4) as [L4 H4].
      assert (X14 : gext g1 g4).
      { eapply gext_trans; [apply frame_gext; [exact W1|exact F2]|].
        eapply gext_trans; apply frame_gext; eauto. }
      split.
      + eapply fill_trans; [|exact F4|exact L4]. eapply fill_trans; [|exact F3|exact L3].
        eapply fill_trans; eauto.
      + eapply hits_via; [exact H4| |eapply hits_block; apply X14; exact B1].
        eapply edge_cond_t. exact (frame_keeps _ _ _ _ F4 W3 B3).
  Qed.

  Lemma lower_asserts_r l : Forall (lw_r lw c ok) l -> Forall ok l ->
    forall k g ks endo g', wf g -> lower_asserts lw version comment l k g = ((ks, endo), g') ->
      chain_r c g k ks endo g'.
  Proof.
    induction 1 as [|e t He Ht IH]; intros Ok k g ks endo g' W E; cbn [lower_asserts] in E.
    - injection E as E1 E2 E3. subst ks endo g'. split; [apply fill_refl|split; reflexivity].
    - inversion Ok as [|? ? Oe Ot]; subst.
      destruct (lower_asserts lw version comment t k g) as [[kt endt] g1] eqn:E1.
      destruct (lower_assert1 lw version comment e kt g1) as [[s en] g2] eqn:E2.
      injection E as Q1 Q2 Q3. subst ks endo g'.
      assert (F1 : frame g g1).
      { eapply lower_asserts_frame; [|exact W|exact E1]. apply Forall_forall. intros x _. apply lw_fr. }
      pose proof (frame_wf _ _ F1) as W1.
      pose proof (lower_assert1_frame lw version comment e (lw_fr e) _ _ _ _ W1 E2) as F2.
      destruct (IH Ot _ _ _ _ _ W E1) as [L1 T1].
      destruct (lower_assert1_r e He Oe _ _ _ _ _ W1 E2) as [L2 H2].
      split; [eapply fill_trans; eauto|].
      destruct endt as [en'|]; cbn [or_some].
      + destruct T1 as (s' & Ks & H1). subst kt. exists s. split; [reflexivity|].
        eapply hits_seq; [exact H2|]. eapply gext_hits; [apply frame_gext; eauto|exact H1].
      + destruct T1 as [Kt Gt]. subst kt g1. exists s. split; [reflexivity|exact H2].
  Qed.
End RAssert.

(* ---- the lowering itself ---- *)
Definition okr (o : copts) (c : lctx) (il pb : bool) (e : expr) : Prop :=
  okp o c il pb e /\ nec e = true.

Lemma okr_list o c il pb (l : list expr) :
  first_err (map (check_expr o (l_sub_ret c) il) l) = None ->
  existsb (has_bad_continue pb) l = false ->
  forallb nec l = true ->
  Forall (okr o c il pb) l.
Proof.
  intros H1 H2 H3. apply Forall_and; [exact (okp_list o c il pb l H1 H2)|exact (forallb_Forall _ _ H3)].
Qed.

Lemma okr_arms o c il pb (arms : list (expr * expr)) :
  first_err (flat_map (fun a => [check_expr o (l_sub_ret c) il (fst a); check_expr o (l_sub_ret c) il (snd a)]) arms) = None ->
  existsb (fun a => has_bad_continue pb (fst a) || has_bad_continue pb (snd a)) arms = false ->
  forallb (fun a => nec (fst a) && nec (snd a)) arms = true ->
  Forall (fun a => okr o c il pb (fst a) /\ okr o c il pb (snd a)) arms.
Proof.
  intros H1 H2 H3. pose proof (okp_arms o c il pb arms H1 H2) as A. pose proof (forallb_Forall _ _ H3) as B.
  pose proof (Forall_and _ _ _ A B) as AB. eapply Forall_impl; [|exact AB].
  intros a [[P1 P2] N]. apply andb_prop in N. destruct N as [N1 N2]. split; (split; assumption).
Qed.

Lemma chain_block c g1 g2 (opb : id) ops k ks x :
  chain_r c g1 (Some opb) ks x g2 -> g_blk g2 opb = Some (BSimple ops k) ->
  hits c g2 (or_else ks opb) opb k.
Proof.
  intros [_ T] B. destruct x as [en'|].
  - destruct T as (s' & Ks & H). subst ks. cbn [or_else]. eapply hits_seq; [exact H|eapply hits_block; exact B].
  - destruct T as [Ks _]. subst ks. cbn [or_else]. eapply hits_block; exact B.
Qed.

(* a loop: from the start of its condition one reaches the loop's end block (through the false edge of
   the branch block, or through a Break in the condition) *)
Lemma loop_cond_exit g3 g' sr (en0 : id) pm cs ce (br ds : id) :
  hits (mkL sr (Some en0) None pm) g3 cs ce (Some br) -> gext g3 g' ->
  g_blk g' br = Some (BCond [] (Some ds) (Some en0)) -> reach g' cs en0.
Proof.
  intros [[R (ops & E)]|(b & [Hb|Hb] & R)] X B; cbn [l_brk l_cont] in *.
  - eapply reach_trans; [eapply gext_reach; [exact X|exact R]|].
    eapply reach_trans; [eapply edge_simple; apply X; exact E|eapply edge_cond_f; exact B].
  - injection Hb as Hb. subst b. eapply gext_reach; eauto.
  - discriminate Hb.
Qed.

Lemma loop_init_exit g g' sr (en0 : id) pm is_ ie (cs : id) :
  hits (mkL sr (Some en0) None pm) g is_ ie (Some cs) -> gext g g' ->
  reach g' cs en0 -> reach g' is_ en0.
Proof.
  intros [[R (ops & E)]|(b & [Hb|Hb] & R)] X Rc; cbn [l_brk l_cont] in *.
  - eapply reach_trans; [eapply gext_reach; [exact X|exact R]|].
    eapply reach_trans; [eapply edge_simple; apply X; exact E|exact Rc].
  - injection Hb as Hb. subst b. eapply gext_reach; eauto.
  - discriminate Hb.
Qed.

Theorem lower_reach o e : forall c il pb, ctl c il pb -> lw_r (lower o c) c (okr o c il pb) e.
Proof.
  induction e using expr_ind'; intros c il pb Ct [[Ck Hb] Hn] k g s0 en g' W E; cbn [lower] in E;
    cbn [check_expr has_bad_continue] in Ck, Hb; cbn [nec] in Hn;
    pose proof (fun x => lower_frame o x c) as LF.
  - (* EOp *)
    destruct (op_version_ok o o0 imms); [|discriminate Ck].
    pose proof (okr_list o c il pb args Ck Hb Hn) as Oa.
    destruct (add_block g (BSimple [I o0 imms] k)) as [opb g1] eqn:E1.
    destruct (lower_chain (lower o c) args (Some opb) g1) as [[ks x] g2] eqn:E2. injection E as Q1 Q2 Q3. subst s0 en g'.
    destruct (add_block_fill _ _ _ _ W E1) as (L1 & F1 & B1 & _). pose proof (frame_wf _ _ F1) as W1.
    pose proof (lower_chain_frame _ _ (frs _ LF args) _ _ _ _ W1 E2) as F2.
    pose proof (lower_chain_r _ LF c _ args (Forall_inst3 _ _ c il pb H Ct) Oa _ _ _ _ _ W1 E2) as T2.
    split; [eapply fill_trans; [exact L1|exact F2|exact (proj1 T2)]|].
    eapply chain_block; [exact T2|exact (frame_keeps _ _ _ _ F2 W1 B1)].
  - (* ENary *)
    pose proof (okr_list o c il pb args Ck Hb Hn) as Oa.
    destruct args as [|a1 rest].
    + destruct (add_block g (BSimple [] k)) as [b g1] eqn:E1. injection E as Q1 Q2 Q3. subst s0 en g'.
      destruct (add_block_fill _ _ _ _ W E1) as (L1 & _ & B1 & _).
      split; [exact L1|eapply hits_block; exact B1].
    + inversion H as [|? ? H1 HR]; subst. inversion Oa as [|? ? O1 OR]; subst.
      destruct (lower_nary_rest (lower o c) o0 rest k g) as [[krest endrest] g1] eqn:E1.
      destruct (lower o c a1 krest g1) as [[s1 e1] g2] eqn:E2. injection E as Q1 Q2 Q3. subst s0 en g'.
      pose proof (lower_nary_rest_frame _ o0 rest (frs _ LF rest) _ _ _ _ W E1) as F1.
      pose proof (frame_wf _ _ F1) as W1.
      pose proof (LF a1 _ _ _ _ W1 E2) as F2.
      destruct (lower_nary_rest_r _ LF c _ o0 rest (Forall_inst3 _ _ c il pb HR Ct) OR _ _ _ _ _ W E1) as [L1 T1].
      destruct (H1 c il pb Ct O1 _ _ _ _ _ W1 E2) as [L2 H2].
      split; [eapply fill_trans; eauto|].
      destruct endrest as [en'|]; cbn [or_else].
      * destruct T1 as (s' & Ks & H1'). subst krest.
        eapply hits_seq; [exact H2|eapply gext_hits; [apply frame_gext; eauto|exact H1']].
      * destruct T1 as [Kt Gt]. subst krest g1. exact H2.
  - (* ESeq *)
    pose proof (okr_list o c il pb es Ck Hb Hn) as Oa.
    destruct (lower_chain (lower o c) es k g) as [[ks en0] g1] eqn:E1.
    destruct (add_block g1 (BSimple [] ks)) as [st g2] eqn:E2. injection E as Q1 Q2 Q3. subst s0 en g'.
    pose proof (lower_chain_frame _ _ (frs _ LF es) _ _ _ _ W E1) as F1.
    pose proof (frame_wf _ _ F1) as W1.
    destruct (add_block_fill _ _ _ _ W1 E2) as (L2 & F2 & B2 & _).
    destruct (lower_chain_r _ LF c _ es (Forall_inst3 _ _ c il pb H Ct) Oa _ _ _ _ _ W E1) as [L1 T1].
    split; [eapply fill_trans; eauto|].
    destruct en0 as [en'|]; cbn [or_else].
    + destruct T1 as (s' & Ks & H1). subst ks.
      eapply hits_pre; [eapply edge_simple; exact B2|eapply gext_hits; [apply frame_gext; eauto|exact H1]].
    + destruct T1 as [Kt Gt]. subst ks g1. eapply hits_block; exact B2.
  - (* EIf *)
    destruct (first_err_cons _ _ Ck) as [C1 Ck2]. destruct (first_err_cons _ _ Ck2) as [C2 Ck3].
    destruct (first_err_cons _ _ Ck3) as [C3 _].
    apply orb_false_iff in Hb. destruct Hb as [Hb12 Hb3]. apply orb_false_iff in Hb12. destruct Hb12 as [Hb1 Hb2].
    apply andb_prop in Hn. destruct Hn as [Hn12 Hn3]. apply andb_prop in Hn12. destruct Hn12 as [Hn1 Hn2].
    destruct (add_block g (BSimple [] k)) as [en0 g1] eqn:E1.
    destruct (lower o c e2 (Some en0) g1) as [[ths the] g2] eqn:E2.
    destruct (add_block_fill _ _ _ _ W E1) as (L1 & F1 & B1 & _). pose proof (frame_wf _ _ F1) as W1.
    pose proof (LF e2 _ _ _ _ W1 E2) as F2. pose proof (frame_wf _ _ F2) as W2.
    destruct (IHe2 c il pb Ct (conj (conj C2 Hb2) Hn2) _ _ _ _ _ W1 E2) as [L2 H2].
    assert (R : exists els g3, (match el with
                                | Some x => let '((s, _), g'0) := lower o c x (Some en0) g2 in (s, g'0)
                                | None => (en0, g2)
                                end) = (els, g3) /\ fill g2 g3 /\ frame g2 g3).
    { destruct el as [x|].
      - pose proof (opt_all_some' _ _ H) as Hx.
        destruct (lower o c x (Some en0) g2) as [[sx ex] g3] eqn:E3.
        exists sx, g3. split; [reflexivity|].
        destruct (Hx c il pb Ct (conj (conj C3 Hb3) Hn3) _ _ _ _ _ W2 E3) as [L3 _].
        split; [exact L3|exact (LF x _ _ _ _ W2 E3)].
      - exists en0, g2. split; [reflexivity|]. split; [apply fill_refl|apply frame_refl; exact W2]. }
    destruct R as (els & g3 & E3 & L3 & F3). rewrite E3 in E. pose proof (frame_wf _ _ F3) as W3.
    destruct (add_block g3 (BCond [] (Some ths) (Some els))) as [br g4] eqn:E4.
    destruct (lower o c e1 (Some br) g4) as [[cs ce] g5] eqn:E5. injection E as Q1 Q2 Q3. subst s0 en g'.
    destruct (add_block_fill _ _ _ _ W3 E4) as (L4 & F4 & B4 & _). pose proof (frame_wf _ _ F4) as W4.
    pose proof (LF e1 _ _ _ _ W4 E5) as F5.
    destruct (IHe1 c il pb Ct (conj (conj C1 Hb1) Hn1) _ _ _ _ _ W4 E5) as [L5 H5].
    assert (X25 : gext g2 g5).
    { eapply gext_trans; [apply frame_gext; [exact W2|exact F3]|].
      eapply gext_trans; apply frame_gext; eauto. }
    assert (X15 : gext g1 g5) by (eapply gext_trans; [apply frame_gext; eauto|exact X25]).
    split.
    + eapply fill_trans; [|exact F5|exact L5]. eapply fill_trans; [|exact F4|exact L4].
      eapply fill_trans; [|exact F3|exact L3]. eapply fill_trans; eauto.
    + eapply hits_via; [exact H5|eapply edge_cond_t; exact (frame_keeps _ _ _ _ F5 W4 B4)|].
      eapply hits_seq; [eapply gext_hits; [exact X25|exact H2]|eapply hits_block; apply X15; exact B1].
  - (* ECond *)
    apply andb_prop in Hn. destruct Hn as [Hne Hn].
    pose proof (okr_arms o c il pb arms Ck Hb Hn) as Oa.
    destruct (add_block g (BSimple [] k)) as [en0 g1] eqn:E1.
    destruct (add_block g1 (BSimple [I O_err []] None)) as [errb g2] eqn:E2.
    destruct (lower_cond_arms (lower o c) arms en0 errb g2) as [st g3] eqn:E3. injection E as Q1 Q2 Q3. subst s0 en g'.
    destruct (add_block_fill _ _ _ _ W E1) as (L1 & F1 & B1 & _). pose proof (frame_wf _ _ F1) as W1.
    destruct (add_block_fill _ _ _ _ W1 E2) as (L2 & F2 & B2 & _). pose proof (frame_wf _ _ F2) as W2.
    assert (HA : Forall (fun a => lw_r (lower o c) c (okr o c il pb) (fst a) /\
                                 lw_r (lower o c) c (okr o c il pb) (snd a)) arms).
    { eapply Forall_impl; [|exact H]. intros a [Ha Hb']. split; [apply Ha|apply Hb']; exact Ct. }
    assert (F3 : frame g2 g3).
    { eapply lower_cond_arms_frame; [|exact W2|exact E3]. apply Forall_forall. intros x _. split; apply LF. }
    destruct (lower_cond_arms_r _ LF c _ arms HA Oa _ _ _ _ _ _ _ W2 (frame_keeps _ _ _ _ F2 W1 B1) E3) as [L3 H3].
    split; [eapply fill_trans; [|exact F3|exact L3]; eapply fill_trans; eauto|].
    apply H3. intros Q. subst arms. discriminate Hne.
  - (* EWhile *)
    destruct (first_err_cons _ _ Ck) as [C1 Ck2]. destruct (first_err_cons _ _ Ck2) as [C2 _].
    apply orb_false_iff in Hb. destruct Hb as [Hb1 Hb2].
    apply andb_prop in Hn. destruct Hn as [Hn1 Hn2].
    destruct (add_block g (BSimple [] k)) as [en0 g1] eqn:E1.
    destruct (reserve g1) as [br g2] eqn:E2.
    destruct (lower o (mkL (l_sub_ret c) (Some en0) None (l_param c)) e1 (Some br) g2) as [[cs ce] g3] eqn:E3.
    destruct (lower o (mkL (l_sub_ret c) (Some en0) (Some cs) (l_param c)) e2 (Some cs) g3) as [[ds de] g4] eqn:E4.
    injection E as Q1 Q2 Q3. subst s0 en g'.
    destruct (add_block_fill _ _ _ _ W E1) as (L1 & F1 & B1 & I1 & N1). pose proof (frame_wf _ _ F1) as W1.
    destruct (reserve_spec _ _ _ W1 E2) as (F2 & U2 & I2 & N2). pose proof (frame_wf _ _ F2) as W2.
    pose proof (lower_frame o e1 _ _ _ _ _ W2 E3) as F3. pose proof (frame_wf _ _ F3) as W3.
    pose proof (lower_frame o e2 _ _ _ _ _ W3 E4) as F4. pose proof (frame_wf _ _ F4) as W4.
    assert (Ct1 : ctl (mkL (l_sub_ret c) (Some en0) None (l_param c)) true true).
    { split; cbn [l_brk l_cont]; [intros _; discriminate|intros _ Q; discriminate Q]. }
    assert (Ct2 : ctl (mkL (l_sub_ret c) (Some en0) (Some cs) (l_param c)) true false).
    { split; cbn [l_brk l_cont]; [intros _; discriminate|intros _ _; discriminate]. }
    destruct (IHe1 _ true true Ct1 (conj (conj C1 Hb1) Hn1) _ _ _ _ _ W2 E3) as [L3 H3].
    destruct (IHe2 _ true false Ct2 (conj (conj C2 Hb2) Hn2) _ _ _ _ _ W3 E4) as [L4 _].
    assert (Lbr : br < g_next g4).
    { destruct F3 as (L3' & _). destruct F4 as (L4' & _). lia. }
    destruct (define_spec g4 br (BCond [] (Some ds) (Some en0)) W4 Lbr) as (_ & Nd & Bd & Bo).
    assert (U4 : g_blk g4 br = None).
    { destruct F3 as (L3' & K3 & _). destruct F4 as (L4' & K4 & _).
      rewrite K4 by lia. rewrite K3 by lia. exact U2. }
    pose proof (define_gext g4 br (BCond [] (Some ds) (Some en0)) U4) as Xd.
    assert (X3d : gext g3 (define g4 br (BCond [] (Some ds) (Some en0)))).
    { eapply gext_trans; [apply frame_gext; [exact W3|exact F4]|exact Xd]. }
    assert (X1d : gext g1 (define g4 br (BCond [] (Some ds) (Some en0)))).
    { eapply gext_trans; [apply frame_gext; [exact W1|exact F2]|].
      eapply gext_trans; [apply frame_gext; [exact W2|exact F3]|exact X3d]. }
    split.
    + intros j J1 J2. rewrite Nd in J2.
      destruct (Nat.eq_dec j br) as [Q|Q]; [subst j; rewrite Bd; discriminate|].
      rewrite (Bo j Q).
      destruct (Nat.eq_dec j en0) as [Q0|Q0].
      * subst j. rewrite (frame_keeps _ _ _ _ F4 W3 (frame_keeps _ _ _ _ F3 W2 (frame_keeps _ _ _ _ F2 W1 B1))).
        discriminate.
      * apply (fill_trans g2 g3 g4 L3 F4 L4); lia.
    + left. split.
      * eapply loop_cond_exit; [exact H3|exact X3d|exact Bd].
      * exists []. apply X1d. exact B1.
  - (* EFor *)
    destruct (first_err_cons _ _ Ck) as [C1 Ck2]. destruct (first_err_cons _ _ Ck2) as [C2 Ck3].
    destruct (first_err_cons _ _ Ck3) as [C4 Ck4]. destruct (first_err_cons _ _ Ck4) as [C3 _].
    apply orb_false_iff in Hb. destruct Hb as [Hb123 Hb4]. apply orb_false_iff in Hb123. destruct Hb123 as [Hb12 Hb3].
    apply orb_false_iff in Hb12. destruct Hb12 as [Hb1 Hb2].
    apply andb_prop in Hn. destruct Hn as [Hn123 Hn4]. apply andb_prop in Hn123. destruct Hn123 as [Hn12 Hn3].
    apply andb_prop in Hn12. destruct Hn12 as [Hn1 Hn2].
    destruct (add_block g (BSimple [] k)) as [en0 g1] eqn:E1.
    destruct (reserve g1) as [br g2] eqn:E2.
    destruct (lower o (mkL (l_sub_ret c) (Some en0) None (l_param c)) e2 (Some br) g2) as [[cs ce] g3] eqn:E3.
    destruct (lower o (mkL (l_sub_ret c) (Some en0) None (l_param c)) e3 (Some cs) g3) as [[ss se] g4] eqn:E4.
    destruct (lower o (mkL (l_sub_ret c) (Some en0) (Some ss) (l_param c)) e4 (Some ss) g4) as [[ds de] g5] eqn:E5.
    destruct (lower o (mkL (l_sub_ret c) (Some en0) None (l_param c)) e1 (Some cs) g5) as [[is_ ie] g6] eqn:E6.
    injection E as Q1 Q2 Q3. subst s0 en g'.
    destruct (add_block_fill _ _ _ _ W E1) as (L1 & F1 & B1 & I1 & N1). pose proof (frame_wf _ _ F1) as W1.
    destruct (reserve_spec _ _ _ W1 E2) as (F2 & U2 & I2 & N2). pose proof (frame_wf _ _ F2) as W2.
    pose proof (lower_frame o e2 _ _ _ _ _ W2 E3) as F3. pose proof (frame_wf _ _ F3) as W3.
    pose proof (lower_frame o e3 _ _ _ _ _ W3 E4) as F4. pose proof (frame_wf _ _ F4) as W4.
    pose proof (lower_frame o e4 _ _ _ _ _ W4 E5) as F5. pose proof (frame_wf _ _ F5) as W5.
    pose proof (lower_frame o e1 _ _ _ _ _ W5 E6) as F6. pose proof (frame_wf _ _ F6) as W6.
    assert (Ct1 : ctl (mkL (l_sub_ret c) (Some en0) None (l_param c)) true true).
    { split; cbn [l_brk l_cont]; [intros _; discriminate|intros _ Q; discriminate Q]. }
    assert (Ct2 : ctl (mkL (l_sub_ret c) (Some en0) (Some ss) (l_param c)) true false).
    { split; cbn [l_brk l_cont]; [intros _; discriminate|intros _ _; discriminate]. }
    destruct (IHe2 _ true true Ct1 (conj (conj C2 Hb2) Hn2) _ _ _ _ _ W2 E3) as [L3 H3].
    destruct (IHe3 _ true true Ct1 (conj (conj C3 Hb3) Hn3) _ _ _ _ _ W3 E4) as [L4 _].
    destruct (IHe4 _ true false Ct2 (conj (conj C4 Hb4) Hn4) _ _ _ _ _ W4 E5) as [L5 _].
    destruct (IHe1 _ true true Ct1 (conj (conj C1 Hb1) Hn1) _ _ _ _ _ W5 E6) as [L6 H6].
    assert (Lbr : br < g_next g6).
    { destruct F3 as (L3' & _). destruct F4 as (L4' & _). destruct F5 as (L5' & _). destruct F6 as (L6' & _). lia. }
    destruct (define_spec g6 br (BCond [] (Some ds) (Some en0)) W6 Lbr) as (_ & Nd & Bd & Bo).
    assert (U6 : g_blk g6 br = None).
    { destruct F3 as (L3' & K3 & _). destruct F4 as (L4' & K4 & _).
      destruct F5 as (L5' & K5 & _). destruct F6 as (L6' & K6 & _).
      rewrite K6 by lia. rewrite K5 by lia. rewrite K4 by lia. rewrite K3 by lia. exact U2. }
    pose proof (define_gext g6 br (BCond [] (Some ds) (Some en0)) U6) as Xd.
    assert (X36 : gext g3 g6).
    { eapply gext_trans; [apply frame_gext; [exact W3|exact F4]|].
      eapply gext_trans; apply frame_gext; eauto. }
    assert (X3d : gext g3 (define g6 br (BCond [] (Some ds) (Some en0)))) by (eapply gext_trans; eauto).
    assert (X1d : gext g1 (define g6 br (BCond [] (Some ds) (Some en0)))).
    { eapply gext_trans; [apply frame_gext; [exact W1|exact F2]|].
      eapply gext_trans; [apply frame_gext; [exact W2|exact F3]|exact X3d]. }
    split.
    + intros j J1 J2. rewrite Nd in J2.
      destruct (Nat.eq_dec j br) as [Q|Q]; [subst j; rewrite Bd; discriminate|].
      rewrite (Bo j Q).
      destruct (Nat.eq_dec j en0) as [Q0|Q0].
      * subst j. assert (X16 : gext g1 g6).
        { eapply gext_trans; [apply frame_gext; [exact W1|exact F2]|].
          eapply gext_trans; [apply frame_gext; [exact W2|exact F3]|exact X36]. }
        rewrite (X16 _ _ B1). discriminate.
      * apply (fill_trans g2 g5 g6 (fill_trans g2 g4 g5 (fill_trans g2 g3 g4 L3 F4 L4) F5 L5) F6 L6); lia.
    + left. split.
      * eapply loop_init_exit; [exact H6|exact Xd|].
        eapply loop_cond_exit; [exact H3|exact X3d|exact Bd].
      * exists []. apply X1d. exact B1.
  - (* EBreak *)
    destruct il; [|discriminate Ck]. destruct Ct as [Cb _]. specialize (Cb eq_refl).
    destruct (add_block g (BSimple [] (l_brk c))) as [b g1] eqn:E1. injection E as Q1 Q2 Q3. subst s0 en g'.
    destruct (add_block_fill _ _ _ _ W E1) as (L1 & _ & B1 & _).
    split; [exact L1|].
    destruct (l_brk c) as [t|] eqn:Eb; [|destruct (Cb eq_refl)].
    right. exists t. split; [left; exact Eb|eapply edge_simple; exact B1].
  - (* EContinue *)
    destruct il; [|discriminate Ck]. destruct Ct as [_ Cc]. specialize (Cc eq_refl Hb).
    destruct (add_block g (BSimple [] (l_cont c))) as [b g1] eqn:E1. injection E as Q1 Q2 Q3. subst s0 en g'.
    destruct (add_block_fill _ _ _ _ W E1) as (L1 & _ & B1 & _).
    split; [exact L1|].
    destruct (l_cont c) as [t|] eqn:Eb; [|destruct (Cc eq_refl)].
    right. exists t. split; [right; exact Eb|eapply edge_simple; exact B1].
  - (* EAssert *)
    pose proof (okr_list o c il pb conds Ck Hb Hn) as Oa.
    pose proof (Forall_inst3 _ _ c il pb H Ct) as Ha.
    destruct conds as [|c1 [|c2 rest]].
    + cbn [lower_asserts] in E.
      destruct (add_block g (BSimple [] k)) as [st g2] eqn:E2. injection E as Q1 Q2 Q3. subst s0 en g'.
      cbn [or_else]. destruct (add_block_fill _ _ _ _ W E2) as (L1 & _ & B1 & _).
      split; [exact L1|eapply hits_block; exact B1].
    + inversion Ha as [|? ? H1 _]; subst. inversion Oa as [|? ? O1 _]; subst.
      exact (lower_assert1_r _ LF c _ _ _ c1 H1 O1 _ _ _ _ _ W E).
    + destruct (lower_asserts (lower o c) (o_version o) cm (c1 :: c2 :: rest) k g) as [[ks en0] g1] eqn:E1.
      destruct (add_block g1 (BSimple [] ks)) as [st g2] eqn:E2. injection E as Q1 Q2 Q3. subst s0 en g'.
      assert (F1 : frame g g1).
      { eapply lower_asserts_frame; [|exact W|exact E1]. apply Forall_forall. intros x _. apply LF. }
      pose proof (frame_wf _ _ F1) as W1.
      destruct (add_block_fill _ _ _ _ W1 E2) as (L2 & F2 & B2 & _).
      destruct (lower_asserts_r _ LF c _ _ _ _ Ha Oa _ _ _ _ _ W E1) as [L1 T1].
      split; [eapply fill_trans; eauto|].
      destruct en0 as [en'|]; cbn [or_else].
      * destruct T1 as (s' & Ks & H1). subst ks.
        eapply hits_pre; [eapply edge_simple; exact B2|eapply gext_hits; [apply frame_gext; eauto|exact H1]].
      * destruct T1 as [Kt Gt]. subst ks g1. eapply hits_block; exact B2.
  - (* EReturn *)
    destruct (add_block g (BSimple [I match l_sub_ret c with Some _ => O_retsub | None => O_return_ end []] k))
      as [opb g1] eqn:E1.
    destruct (add_block_fill _ _ _ _ W E1) as (L1 & F1 & B1 & _). pose proof (frame_wf _ _ F1) as W1.
    destruct v as [x|].
    + pose proof (opt_all_some' _ _ H) as Hx.
      pose proof (check_return_some _ _ _ _ Ck) as Cx.
      destruct (lower o c x (Some opb) g1) as [[sx ex] g2] eqn:E2. injection E as Q1 Q2 Q3. subst s0 en g'.
      destruct (Hx c il pb Ct (conj (conj Cx Hb) Hn) _ _ _ _ _ W1 E2) as [L2 H2].
      pose proof (LF x _ _ _ _ W1 E2) as F2.
      split; [eapply fill_trans; eauto|].
      eapply hits_seq; [exact H2|eapply hits_block; exact (frame_keeps _ _ _ _ F2 W1 B1)].
    + injection E as Q1 Q2 Q3. subst s0 en g'. split; [exact L1|eapply hits_block; exact B1].
  - (* EExit *)
    destruct (add_block g (BSimple [I O_return_ []] k)) as [opb g1] eqn:E1.
    destruct (lower o c e (Some opb) g1) as [[sx ex] g2] eqn:E2. injection E as Q1 Q2 Q3. subst s0 en g'.
    destruct (add_block_fill _ _ _ _ W E1) as (L1 & F1 & B1 & _). pose proof (frame_wf _ _ F1) as W1.
    destruct (IHe c il pb Ct (conj (conj Ck Hb) Hn) _ _ _ _ _ W1 E2) as [L2 H2].
    pose proof (LF e _ _ _ _ W1 E2) as F2.
    split; [eapply fill_trans; eauto|].
    eapply hits_seq; [exact H2|eapply hits_block; exact (frame_keeps _ _ _ _ F2 W1 B1)].
  - (* EMulti *)
    destruct (op_version_ok o o0 imms); [|discriminate Ck].
    pose proof (okr_list o c il pb args Ck Hb Hn) as Oa.
    destruct (lower_stores outs k None g) as [[kst lastst] g1] eqn:E1.
    destruct (add_block g1 (BSimple [I o0 imms] kst)) as [opb g2] eqn:E2.
    destruct (lower_chain (lower o c) args (Some opb) g2) as [[ks x] g3] eqn:E3. injection E as Q1 Q2 Q3. subst s0 en g'.
    destruct (lower_stores_r outs _ _ _ _ _ _ W E1) as (F1 & L1 & T1). pose proof (frame_wf _ _ F1) as W1.
    destruct (add_block_fill _ _ _ _ W1 E2) as (L2 & F2 & B2 & _). pose proof (frame_wf _ _ F2) as W2.
    pose proof (lower_chain_frame _ _ (frs _ LF args) _ _ _ _ W2 E3) as F3.
    pose proof (lower_chain_r _ LF c _ args (Forall_inst3 _ _ c il pb H Ct) Oa _ _ _ _ _ W2 E3) as T3.
    pose proof (chain_block _ _ _ _ _ _ _ _ T3 (frame_keeps _ _ _ _ F3 W2 B2)) as H3.
    split; [eapply fill_trans; [|exact F3|exact (proj1 T3)]; eapply fill_trans; eauto|].
    destruct outs as [|s1 t1].
    + destruct T1 as (Q1 & Q2 & Q3). subst kst lastst g1. cbn [or_else]. exact H3.
    + destruct T1 as (s' & ops' & Ks & R1 & B1 & Ls). subst kst lastst. cbn [or_some or_else].
      assert (X13 : gext g1 g3) by (eapply gext_trans; apply frame_gext; eauto).
      eapply hits_via; [exact H3|eapply gext_reach; [exact X13|exact R1]|].
      eapply hits_block. apply X13. exact B1.
  - (* ECall *)
    destruct (N.ltb (o_version o) 4); [discriminate Ck|].
    pose proof (okr_list o c il pb args Ck Hb Hn) as Oa.
    destruct (add_block g (BSimple [I O_callsub [ASub s]] k)) as [opb g1] eqn:E1.
    destruct (lower_chain (lower o c) args (Some opb) g1) as [[ks x] g2] eqn:E2. injection E as Q1 Q2 Q3. subst s0 en g'.
    destruct (add_block_fill _ _ _ _ W E1) as (L1 & F1 & B1 & _). pose proof (frame_wf _ _ F1) as W1.
    pose proof (lower_chain_frame _ _ (frs _ LF args) _ _ _ _ W1 E2) as F2.
    pose proof (lower_chain_r _ LF c _ args (Forall_inst3 _ _ c il pb H Ct) Oa _ _ _ _ _ W1 E2) as T2.
    split; [eapply fill_trans; [exact L1|exact F2|exact (proj1 T2)]|].
    eapply chain_block; [exact T2|exact (frame_keeps _ _ _ _ F2 W1 B1)].
  - (* EWide *)
    destruct (N.ltb (o_version o) 5); [discriminate Ck|].
    destruct (first_err_app _ _ Ck) as [Ckn Ckd].
    apply orb_false_iff in Hb. destruct Hb as [Hbn Hbd].
    apply andb_prop in Hn. destruct Hn as [Hnn Hnd].
    pose proof (okr_list o c il pb ns Ckn Hbn Hnn) as On. pose proof (okr_list o c il pb ds Ckd Hbd Hnd) as Od.
    destruct (add_block g (BSimple combine_ops k)) as [cb g1] eqn:E1.
    destruct (lower_factors (lower o c) ds (Some cb) g1) as [[dstart dend] g2] eqn:E2.
    destruct (lower_factors (lower o c) ns (Some dstart) g2) as [[nstart nend] g3] eqn:E3.
    injection E as Q1 Q2 Q3. subst s0 en g'.
    destruct (add_block_fill _ _ _ _ W E1) as (L1 & F1 & B1 & _). pose proof (frame_wf _ _ F1) as W1.
    pose proof (lower_factors_frame _ ds (frs _ LF ds) _ _ _ _ W1 E2) as F2. pose proof (frame_wf _ _ F2) as W2.
    pose proof (lower_factors_frame _ ns (frs _ LF ns) _ _ _ _ W2 E3) as F3.
    destruct (lower_factors_r _ LF c _ ds (Forall_inst3 _ _ c il pb H0 Ct) Od _ _ _ _ _ W1 E2) as [L2 H2].
    destruct (lower_factors_r _ LF c _ ns (Forall_inst3 _ _ c il pb H Ct) On _ _ _ _ _ W2 E3) as [L3 H3].
    split; [eapply fill_trans; [|exact F3|exact L3]; eapply fill_trans; eauto|].
    eapply hits_seq; [exact H3|].
    eapply hits_seq; [eapply gext_hits; [apply frame_gext; eauto|exact H2]|].
    eapply hits_block. exact (frame_keeps _ _ _ _ F3 W2 (frame_keeps _ _ _ _ F2 W1 B1)).
  - (* EParam *)
    destruct (add_block g (BSimple [l_param c i] k)) as [b g1] eqn:E1. injection E as Q1 Q2 Q3. subst s0 en g'.
    destruct (add_block_fill _ _ _ _ W E1) as (L1 & _ & B1 & _).
    split; [exact L1|eapply hits_block; exact B1].
Qed.

(* ---- a whole routine ---- *)
Theorem lower_root_reach o c e s en g0 :
  l_brk c = None -> l_cont c = None ->
  check_expr o (l_sub_ret c) false e = None -> has_bad_continue false e = false -> nec e = true ->
  lower o c e None empty_graph = ((s, en), g0) ->
  reach g0 s en /\ (forall j, j < g_next g0 -> g_blk g0 j <> None).
Proof.
  intros B C Ck Hb Hn E.
  assert (Ct : ctl c false false) by (split; intros Q; discriminate Q).
  destruct (lower_reach o e c false false Ct (conj (conj Ck Hb) Hn) None empty_graph s en g0 wf_empty E) as [L H].
  split.
  - destruct H as [[R _]|(b & [Q|Q] & _)]; [exact R|congruence|congruence].
  - intros j Hj. apply L; [cbn; lia|exact Hj].
Qed.
