(* Proofs/LegalRefuted.v — C04: the statement "whenever compilation succeeds the text is legal" is
   FALSE of the faithful compile model (Comp/Compile.v), hence — each witness is replayed against the
   real compiler by the check — of PyTeal at the pinned commit.  Witnesses ([vm_compute]):
     w_itxn    InnerTxnBuilder.SetField(TxnField.first_valid, Int(1)) -> itxn_field FirstValid  (never settable)
     w_mode    Global.round() in Signature mode        -> global Round               (Application-only field)
     w_back    a While loop at program version 3       -> b main_l..  backwards      (back branches exist from v4)
   The op tables handed to the model are those of AVM/Syntax.v; the witnesses use no field or op whose
   version matters. *)
From Coq Require Import List Arith NArith Ascii String Bool.
From PV Require Import Base.Bytes Base.Sexp AVM.Syntax AVM.Machine AVM.Parse AVM.Langspec AVM.LegalCheck
  Src.Expr Comp.Lower Comp.Compile.
Import ListNotations.
Local Open Scope string_scope.

Definition nl : string := String (ascii_of_N 10) EmptyString.
Definition text_of (lines : list string) : string := concat_sep nl lines.
Definition opts (v : N) (app : bool) : copts := mkOpts v app false false opc_minv (fun _ _ => 0%N).

Definition int_ (n : N) : expr := EOp O_int [AInt n] TUint [].
Definition approve : expr := EExit (int_ 1).

(* (the former witness Txn.application_args[300] is gone: since /repo 6fb1ed6 the constructor refuses a
   constant array index above 255, so that recipe no longer denotes a PyTeal program) *)
Definition w_itxn : prog := mkProgram
  (ESeq [EOp O_itxn_begin [] TNone []; EOp O_itxn_field [AStr "FirstValid"] TNone [int_ 1];
         EOp O_itxn_submit [] TNone []; approve]) [] [].
Definition w_mode : prog := mkProgram (EReturn (Some (EOp O_global_ [AStr "Round"] TUint []))) [] [].
Definition w_back : prog := mkProgram
  (ESeq [EOp O_pop [] TNone [int_ 0];
         EWhile (EOp O_lt [] TUint [EOp O_txn [AStr "Fee"] TUint []; int_ 3]) (EOp O_pop [] TNone [int_ 1]);
         approve]) [] [].

(* the property as a statement about the compile model *)
Definition compile_legal (version : N) (app : bool) (p : prog) : Prop :=
  forall lines, compile_model (opts version app) opc_modes p = COk lines ->
                legal_check version app [] (text_of lines) = LOk.

Lemma compile_legal_refuted_itxn : ~ compile_legal 6 true w_itxn.
Proof.
  intros H.
  destruct (compile_model (opts 6 true) opc_modes w_itxn) as [lines|e] eqn:E; [|vm_compute in E; discriminate E].
  unfold compile_legal in H. pose proof (H lines E) as Hl.
  clear H. vm_compute in E. injection E as <-. vm_compute in Hl. discriminate Hl.
Qed.

Lemma compile_legal_refuted_mode : ~ compile_legal 6 false w_mode.
Proof.
  intros H.
  destruct (compile_model (opts 6 false) opc_modes w_mode) as [lines|e] eqn:E; [|vm_compute in E; discriminate E].
  unfold compile_legal in H. pose proof (H lines E) as Hl.
  clear H. vm_compute in E. injection E as <-. vm_compute in Hl. discriminate Hl.
Qed.

Lemma compile_legal_refuted_back : ~ compile_legal 3 false w_back.
Proof.
  intros H.
  destruct (compile_model (opts 3 false) opc_modes w_back) as [lines|e] eqn:E; [|vm_compute in E; discriminate E].
  unfold compile_legal in H. pose proof (H lines E) as Hl.
  clear H. vm_compute in E. injection E as <-. vm_compute in Hl. discriminate Hl.
Qed.

Lemma compile_legal_refuted_lemma : exists version app p, ~ compile_legal version app p.
Proof. exists 6%N, false, w_mode. exact compile_legal_refuted_mode. Qed.

(* what the checker says about each witness *)
Example w_itxn_verdict :
  compile_model (opts 6 true) opc_modes w_itxn =
    COk ["#pragma version 6"; "itxn_begin"; "int 1"; "itxn_field FirstValid"; "itxn_submit"; "int 1"; "return"] /\
  legal_check 6 true [] (text_of ["#pragma version 6"; "itxn_begin"; "int 1"; "itxn_field FirstValid"; "itxn_submit"; "int 1"; "return"])
    = LBad "itxn-field-not-settable" 2 "itxn_field FirstValid".
Proof. vm_compute. auto. Qed.

Example w_mode_verdict :
  legal_check 6 false [] (text_of ["#pragma version 6"; "global Round"; "return"]) = LBad "field-mode" 0 "global Round" /\
  legal_check 6 true [] (text_of ["#pragma version 6"; "global Round"; "return"]) = LOk.
Proof. vm_compute. auto. Qed.

Example w_back_verdict :
  match compile_model (opts 3 false) opc_modes w_back with
  | COk lines => match legal_check 3 false [] (text_of lines) with LBad k _ _ => k = "back-branch" | _ => False end
  | CErr _ => False
  end.
Proof. vm_compute. reflexivity. Qed.
