(* Proofs/ABIEncodeBool.v — _encode_bool_sequence (SetBit one by one into a zeroed byte string) produces the
   ARC-4 packing of a run of bools (first bool = most significant bit, zero padding on the right). *)
From Coq Require Import List Arith NArith Ascii String Bool Lia.
From PV Require Import Base.Bytes Base.U64 AVM.Ops ABI.Types ABI.Spec ABI.Encode Proofs.ABIEncodeOps.
Import ListNotations.
Local Open Scope N_scope.

(* ---- one byte ---- *)
Definition bit_upd (c : ascii) (i v : N) : ascii :=
  let m := N.shiftl 1 (7 - i mod 8) in
  n2b (if v =? 0 then N.land (b2n c) (255 - m) else N.lor (b2n c) m).

Lemma nth_N_0 : forall {A} (c : A) l, nth_N (c :: l) 0 = Some c.
Proof. reflexivity. Qed.

Lemma nth_N_succ : forall {A} (c : A) l j, nth_N (c :: l) (1 + j) = nth_N l j.
Proof.
  intros A c l j. unfold nth_N. cbn [List.length]. rewrite Nat2N.inj_succ.
  destruct (N.ltb_spec j (N.of_nat (List.length l))) as [H|H].
  - assert (H2 : (1 + j <? N.succ (N.of_nat (List.length l))) = true) by (apply N.ltb_lt; lia).
    rewrite H2. replace (N.to_nat (1 + j)) with (S (N.to_nat j)) by lia. reflexivity.
  - assert (H2 : (1 + j <? N.succ (N.of_nat (List.length l))) = false) by (apply N.ltb_ge; lia).
    rewrite H2. reflexivity.
Qed.

Lemma set_bit_first_byte : forall c zs i v, i < 8 ->
    set_bit_bytes (c :: zs) i v = Some (bit_upd c i v :: zs).
Proof.
  intros c zs i v H. unfold set_bit_bytes. rewrite (N.div_small i 8 H).
  rewrite nth_N_0. reflexivity.
Qed.

Lemma set_bit_shift : forall c acc i v,
    set_bit_bytes (c :: acc) (8 + i) v = option_map (cons c) (set_bit_bytes acc i v).
Proof.
  intros c acc i v. unfold set_bit_bytes.
  assert (Hd : (8 + i) / 8 = 1 + i / 8).
  { replace (8 + i) with (i + 1 * 8) by lia. rewrite N.div_add by discriminate. lia. }
  assert (Hm : (8 + i) mod 8 = i mod 8).
  { replace (8 + i) with (i + 1 * 8) by lia. apply N.mod_add. discriminate. }
  rewrite Hd, Hm, nth_N_succ.
  destruct (nth_N acc (i / 8)) as [c0|]; [|reflexivity]. cbn [option_map].
  replace (N.to_nat (1 + i / 8)) with (S (N.to_nat (i / 8))) by lia. reflexivity.
Qed.

(* SetBit on the first byte only *)
Fixpoint byte_fold (c : ascii) (i : N) (vs : list N) : option ascii :=
  match vs with
  | [] => Some c
  | v :: r => if v <=? 1 then byte_fold (bit_upd c i v) (i + 1) r else None
  end.

Lemma bool_seq_set_first_byte : forall vs c zs i,
    i + N.of_nat (List.length vs) <= 8 ->
    bool_seq_set (c :: zs) i vs = option_map (fun c' => c' :: zs) (byte_fold c i vs).
Proof.
  induction vs as [|v r IH]; intros c zs i H; [reflexivity|].
  cbn [List.length] in H. rewrite Nat2N.inj_succ in H.
  cbn [bool_seq_set byte_fold]. unfold x_setbit. destruct (v <=? 1); [|reflexivity].
  rewrite set_bit_first_byte by lia. cbn [obind]. apply IH. lia.
Qed.

Lemma bool_seq_set_shift : forall vs c acc i,
    bool_seq_set (c :: acc) (8 + i) vs = option_map (cons c) (bool_seq_set acc i vs).
Proof.
  induction vs as [|v r IH]; intros c acc i; [reflexivity|].
  cbn [bool_seq_set]. unfold x_setbit. destruct (v <=? 1); [|reflexivity].
  rewrite set_bit_shift. destruct (set_bit_bytes acc i v) as [acc'|]; [|reflexivity].
  cbn [option_map obind]. replace (8 + i + 1) with (8 + (i + 1)) by lia. apply IH.
Qed.

Lemma bool_seq_set_app : forall l1 l2 acc i,
    bool_seq_set acc i (l1 ++ l2) =
    obind (bool_seq_set acc i l1) (fun acc' => bool_seq_set acc' (i + N.of_nat (List.length l1)) l2).
Proof.
  induction l1 as [|v r IH]; intros l2 acc i.
  - simpl. rewrite N.add_0_r. reflexivity.
  - cbn [app bool_seq_set List.length]. destruct (x_setbit acc i v) as [acc'|]; [|reflexivity].
    cbn [obind]. rewrite IH. rewrite Nat2N.inj_succ.
    replace (i + 1 + N.of_nat (List.length r)) with (i + N.succ (N.of_nat (List.length r))) by lia.
    reflexivity.
Qed.

(* ---- closed facts about at most eight bools (exhaustive computation: 510 lists) ---- *)
Lemma byte_fold_pack : forall l, l <> [] -> (List.length l <= 8)%nat ->
    exists c, byte_fold zero 0 (map b2N l) = Some c /\ pack_bools l = [c].
Proof.
  intros l Hne Hlen.
  destruct l as [|b0 [|b1 [|b2 [|b3 [|b4 [|b5 [|b6 [|b7 [|b8 r]]]]]]]]]; [congruence| | | | | | | | |simpl in Hlen; lia];
    clear Hne Hlen;
    repeat match goal with b : bool |- _ => destruct b end;
    (eexists; split; vm_compute; reflexivity).
Qed.

(* eight bools fill exactly one byte, then packing starts afresh *)
Lemma pack_bools_8 : forall b0 b1 b2 b3 b4 b5 b6 b7 rest,
    pack_bools (b0 :: b1 :: b2 :: b3 :: b4 :: b5 :: b6 :: b7 :: rest) =
    pack_bools [b0; b1; b2; b3; b4; b5; b6; b7] ++ pack_bools rest.
Proof. intros. reflexivity. Qed.

Lemma bsl_small : forall n, (0 < n <= 8)%nat -> N.to_nat (bool_sequence_length (N.of_nat n)) = 1%nat.
Proof.
  intros n H. unfold bool_sequence_length.
  assert (Hq : (N.of_nat n + 8 - 1) / 8 = 1).
  { symmetry. apply N.div_unique with (r := N.of_nat n - 1); lia. }
  rewrite Hq. reflexivity.
Qed.

Lemma bsl_plus8 : forall n, N.to_nat (bool_sequence_length (N.of_nat (8 + n))) =
                            S (N.to_nat (bool_sequence_length (N.of_nat n))).
Proof.
  intro n. unfold bool_sequence_length.
  replace (N.of_nat (8 + n) + 8 - 1) with ((N.of_nat n + 8 - 1) + 1 * 8) by lia.
  rewrite N.div_add by discriminate. lia.
Qed.

(* ---- the theorem ---- *)
Lemma bool_pack_chunks : forall k bs, (List.length bs <= 8 * k)%nat ->
    encode_bool_sequence (map b2N bs) = Some (pack_bools bs).
Proof.
  induction k as [|k IH]; intros bs Hlen.
  - destruct bs; [reflexivity | simpl in Hlen; lia].
  - destruct (le_lt_dec (List.length bs) 8) as [Hs|Hl].
    + (* at most eight *)
      destruct bs as [|b r]; [reflexivity|].
      destruct (byte_fold_pack (b :: r) ltac:(discriminate) Hs) as [c [Hf Hp]].
      unfold encode_bool_sequence. rewrite map_length, bsl_small by (simpl in *; lia).
      change (bzero 1) with [zero].
      rewrite bool_seq_set_first_byte by (rewrite map_length; lia).
      rewrite Hf, Hp. reflexivity.
    + (* eight, then the rest *)
      destruct bs as [|b0 [|b1 [|b2 [|b3 [|b4 [|b5 [|b6 [|b7 rest]]]]]]]]; try (simpl in Hl; lia).
      assert (Hrest : (List.length rest <= 8 * k)%nat) by (simpl in Hlen; lia).
      specialize (IH rest Hrest).
      destruct (byte_fold_pack [b0; b1; b2; b3; b4; b5; b6; b7] ltac:(discriminate) ltac:(simpl; lia)) as [c [Hf Hp]].
      rewrite pack_bools_8, Hp.
      unfold encode_bool_sequence in *. rewrite map_length in *.
      change (List.length (b0 :: b1 :: b2 :: b3 :: b4 :: b5 :: b6 :: b7 :: rest)) with (8 + List.length rest)%nat.
      rewrite bsl_plus8. cbn [bzero repeat].
      change (map b2N (b0 :: b1 :: b2 :: b3 :: b4 :: b5 :: b6 :: b7 :: rest))
        with (map b2N [b0; b1; b2; b3; b4; b5; b6; b7] ++ map b2N rest).
      rewrite bool_seq_set_app.
      rewrite bool_seq_set_first_byte by (simpl; lia). rewrite Hf. cbn [option_map obind].
      change (0 + N.of_nat (List.length (map b2N [b0; b1; b2; b3; b4; b5; b6; b7]))) with (8 + 0).
      rewrite bool_seq_set_shift. unfold bzero in IH. rewrite IH. reflexivity.
Qed.

Theorem bool_pack_correct : forall bs, encode_bool_sequence (map b2N bs) = Some (pack_bools bs).
Proof. intro bs. apply (bool_pack_chunks (List.length bs)). lia. Qed.

(* a cell that does not hold 0 or 1 makes SetBit fail *)
Lemma bool_seq_set_bad : forall vs acc i, existsb (fun v => 1 <? v) vs = true -> bool_seq_set acc i vs = None.
Proof.
  induction vs as [|v r IH]; intros acc i H; [discriminate|].
  simpl in H. cbn [bool_seq_set]. unfold x_setbit.
  destruct (N.leb_spec v 1) as [Hv|Hv].
  - assert (Hf : (1 <? v) = false) by (apply N.ltb_ge; lia). rewrite Hf in H. simpl in H.
    destruct (set_bit_bytes acc i v); [|reflexivity]. simpl. apply IH. exact H.
  - reflexivity.
Qed.

(* Bool.encode of a lone bool *)
Lemma bool_encode_correct : forall b, bool_encode (b2N b) = Some [n2b (if b then 128 else 0)].
Proof. destruct b; reflexivity. Qed.

(* Bool.set(Expr): Not(Not(n)) is 1 for every non-zero n *)
Lemma bool_set_expr_correct : forall n, bool_set_expr n = b2N (negb (n =? 0)).
Proof. intro n. unfold bool_set_expr, x_not. destruct (n =? 0); reflexivity. Qed.
