(* Proofs/StageEPipeline.v — stage E: what [compile_model] prints for a MAIN-ONLY program (no subroutine, slot
   optimiser off): the lines of [main_comps version code], where [code] is the flattened, slot-assigned main
   routine.  Connects the stage-E theorems, stated for that component list, to the pipeline function itself. *)
From Coq Require Import List Arith NArith Ascii String Bool Lia.
From PV Require Import Base.Bytes Base.Sexp AVM.Syntax AVM.Machine Src.Expr Src.Denote
  Comp.Blocks Comp.Lower Comp.Passes Comp.GraphSem Comp.LinearSem Comp.SimCheck Comp.Compile Comp.Assemble
  Proofs.SlotCompose Proofs.SlotComposeAssign Proofs.StageECompose.
Import ListNotations.

Lemma compile_one_main_sub o ast0 cr : compile_one o None ast0 = COk cr -> cr_sub cr = None.
Proof.
  unfold compile_one.
  destruct (check_expr _ _ _ _); [discriminate|].
  destruct (has_bad_continue _ _); [discriminate|].
  destruct (lower _ _ _ _ _) as [[s e] g0].
  destruct (add_incoming g0 s) as [g1 x].
  destruct (negb (validate_tree g1 s)); [discriminate|]. cbn iota.
  destruct (normalize g1 s) as [g3 s3].
  destruct (negb (validate_tree g3 s3)); [discriminate|].
  intros H. injection H as <-. reflexivity.
Qed.

Lemma compile_rec_main_only o p crs :
  p_subs p = [] -> compile_rec 1 o p None (p_main p) [] = COk crs ->
  exists cr, compile_one o None (p_main p) = COk cr /\ crs = [cr].
Proof.
  intros Hs. cbn [compile_rec].
  destruct (compile_one o None (p_main p)) as [cr|e] eqn:E; [|discriminate].
  cbn [app]. set (news := filter _ _). clearbody news.
  intros H. exists cr. split; [reflexivity|].
  assert (Inv : forall l acc, (acc = COk [cr] \/ exists e, acc = CErr e) ->
            let r := fold_left (fun racc s =>
                       match racc with
                       | CErr e => CErr e
                       | COk a =>
                           if existsb (fun c => match cr_key c with Some k => N.eqb k s | None => false end) a then COk a
                           else match find_sub p s with
                                | None => CErr (Unsupported "unknown subroutine id")
                                | Some r => CErr (Unsupported "compile_rec fuel")
                                end
                       end) l acc in
            r = COk [cr] \/ exists e, r = CErr e).
  { induction l as [|s t IH]; intros acc Ha; [exact Ha|]. cbn [fold_left]. apply IH.
    destruct Ha as [->|[e ->]]; [|right; eexists; reflexivity].
    destruct (existsb _ [cr]); [left; reflexivity|].
    right. destruct (find_sub p s); eexists; reflexivity. }
  specialize (Inv news (COk [cr]) (or_introl eq_refl)). cbv zeta in Inv.
  cbn [compile_rec] in H.
  destruct Inv as [Inv|[e Inv]]; rewrite Inv in H; [injection H as <-; reflexivity|discriminate H].
Qed.

Lemma rewrite_instr_id f i : (forall a, f a = a) -> rewrite_instr f i = i.
Proof.
  intros H. destruct i as [o args]. unfold rewrite_instr. cbn [i_op i_args]. f_equal.
  induction args as [|a t IH]; [reflexivity|]. cbn [map]. now rewrite H, IH.
Qed.

Lemma flatten_subroutines_main code :
  flatten_subroutines [mkFR None code] = map (prefix_labels "main_") code.
Proof.
  unfold flatten_subroutines. cbn [flat_map fr_sub fr_ops sort_dedup fold_right app find].
  rewrite !app_nil_r. f_equal.
  induction code as [|c t IH]; [reflexivity|]. cbn [map]. rewrite IH. f_equal.
  destruct c as [i|l cm|v]; try reflexivity. f_equal. apply rewrite_instr_id.
  intros [n|s|l|u|sb]; reflexivity.
Qed.

(* the pipeline on a main-only program, inverted *)
Theorem compile_model_main_only o modes p lines :
  compile_model o modes p = COk lines -> o_opt_slots o = false -> p_subs p = [] ->
  exists cr crs' locals asg order code,
    compile_one o None (p_main p) = COk cr /\
    assign_slots p [cr] = COk (crs', locals, asg) /\
    let cr' := rw_routine (look_of asg) cr in
    sort_blocks (cr_graph cr') (cr_start cr') (cr_end cr') = Some order /\
    flatten_blocks (cr_graph cr') order = Some code /\
    assemble_all (main_comps (o_version o) code) = Some lines.
Proof.
  intros H Ho Hs. unfold compile_model in H.
  destruct (compile_components o modes p) as [comps|e] eqn:C; [|discriminate H].
  destruct (assemble_all comps) as [ls|] eqn:A; [|discriminate H]. injection H as <-.
  unfold compile_components in C. rewrite Ho, Hs in C. cbn [List.length] in C.
  destruct (negb _); [discriminate C|].
  destruct (compile_rec 1 o p None (p_main p) []) as [crs|e] eqn:E1; [|discriminate C].
  destruct (compile_rec_main_only o p crs Hs E1) as (cr & E & ->).
  destruct (assign_slots p [cr]) as [[[crs2 locals] asg]|e] eqn:E2; [|discriminate C].
  pose proof (proj1 (assign_slots_facts p [cr] crs2 locals asg E2)) as R. cbn [map] in R. subst crs2.
  cbn [fold_right] in C.
  set (cr' := rw_routine (look_of asg) cr) in *.
  destruct (sort_blocks (cr_graph cr') (cr_start cr') (cr_end cr')) as [order|] eqn:E3; [|discriminate C].
  destruct (flatten_blocks (cr_graph cr') order) as [code|] eqn:E4; [|discriminate C].
  assert (Sub : cr_sub cr' = None) by (exact (compile_one_main_sub o (p_main p) cr E)).
  rewrite Sub in C.
  unfold spill in C. cbn [existsb fr_sub map orb] in C. cbn iota in C.
  rewrite flatten_subroutines_main in C.
  destruct (verify_ops o modes _); [discriminate C|]. injection C as <-.
  exists cr, [cr'], locals, asg, order, code. repeat split; try assumption.
Qed.

(* source semantics -> the text compile_model prints -> Machine.run, for a main-only program *)
From PV Require Import AVM.Parse Proofs.LowerFrame Proofs.LowerShape Proofs.NormalizeLowered Proofs.LowerCorrect Proofs.EndToEndGlue Proofs.EndToEnd Proofs.FlattenCorrect
  Proofs.StageELink Proofs.StageEText.

Theorem program_text_end_to_end o modes p lines msel :
  compile_model o modes p = COk lines -> o_opt_slots o = false -> p_subs p = [] ->
  head_loop (root_ast (p_main p)) = false ->
  (forall u i, In (u, (i, true)) (p_slots p) -> (i < 256)%N) ->
  exists asg code,
    model_assignment o p = COk asg /\
    assemble_all (main_comps (o_version o) code) = Some lines /\
    (printable msel (main_comps (o_version o) code) = true ->
     targets_ok (main_comps (o_version o) code) = true ->
     exists P,
       parse_program msel (program_text lines) = Some P /\ pr_version P = o_version o /\
       forall env, consistent env (routine_ctx o None) -> e_msel env = msel ->
       forall fuel st v,
         let r := denote (with_asg env (look_of asg)) fuel (root_ast (p_main p)) [] st in
         verdict_of_dout r = Some v ->
         stack_bounded env code (LAt 0 [] st) ->
         exists n m', (forall k, n <= k -> run k (e_ctx env) P (init_mach st) = (v, m')) /\ state_ok r m').
Proof.
  intros H Ho Hs HL HT.
  destruct (compile_model_main_only o modes p lines H Ho Hs) as (cr & crs' & locals & asg & order & code & E & HA & HS & HF & A).
  exists asg, code. split.
  { unfold model_assignment. rewrite Hs, Ho. cbn [List.length].
    assert (E1 : compile_rec 1 o p None (p_main p) [] = COk [cr]).
    { unfold compile_model, compile_components in H. rewrite Ho, Hs in H. cbn [List.length] in H.
      destruct (negb _); [discriminate H|].
      destruct (compile_rec 1 o p None (p_main p) []) as [crs|e] eqn:E1; [|discriminate H].
      destruct (compile_rec_main_only o p crs Hs E1) as (cr0 & E0 & ->). rewrite E in E0. injection E0 as <-. reflexivity. }
    rewrite E1, HA. reflexivity. }
  split; [exact A|].
  intros PR TG.
  destruct (routine_text_end_to_end o (p_main p) cr p [cr] crs' locals asg msel E HL (or_introl eq_refl) HA
              (requested_valid_of_table p _ HT) order code HS HF PR TG) as (lines' & P & A' & PP & PV & Run).
  rewrite A in A'. injection A' as <-.
  exists P. split; [exact PP|]. split; [exact PV|]. exact Run.
Qed.
