(* Proofs/ConstantsProgramExamples.v — C12 whole-program theorem: non-vacuity and necessity examples.
   ex_ops: a counting loop (three rounds) whose body uses five repeated integers (1000..4000 go to the block, 7 is
   the fifth and below 128: stays pushint), a repeated template integer (block entry 4: long form intc 4), a named
   constant, two byte strings each in two spellings, and a method selector.  The assembled form below is, line for
   line, what pyteal.compiler.constants.createConstantBlocks returns on /repo for the same ops. *)
From Coq Require Import List Arith NArith Ascii String Bool Lia.
From PV Require Import Base.Bytes Base.U64 Base.Sexp AVM.Syntax AVM.Ops AVM.Machine AVM.Parse
  Src.Expr Comp.Lower Comp.Compile
  Comp.Assemble Comp.Constants Comp.ConstantsSpec Proofs.C18Text Proofs.StageEText Proofs.ConstantsProof Proofs.ConstantsSim
  Proofs.ConstantsProgramMach Proofs.ConstantsProgramLink Proofs.ConstantsProgram
  Proofs.ConstantsProgramText Proofs.ConstantsProgramCompile.
Import ListNotations.
Local Open Scope string_scope.

Definition op (o : opc) (a : list arg) : comp := COp (mkI o a).
Definition sig_add : string := "add(uint64,uint64)uint64".
(* first four bytes of SHA-512/256 of the signature (computed with algosdk): fe6bdf69 *)
Definition sel_add : bytes := [ascii_of_N 254; ascii_of_N 107; ascii_of_N 223; ascii_of_N 105].
Definition ex_sig_hash : string -> bytes := fun _ => (sel_add ++ sel_add)%list.
Definition ex_msel : list (string * bytes) := [(sig_add, sel_add)].
Definition ex_sigma : string -> string := fun _ => "5000".

Definition ex_ops_gen (fee : arg) : list comp :=
  [ op O_int [AInt 0]; op O_store [AInt 0];
    CLabel "main_l1" None;
    op O_load [AInt 0]; op O_int [AInt 3]; op O_lt []; op O_bz [ALbl "main_l3"];
    op O_byte [AStr """ab"""]; op O_byte [AStr "0x6162"]; op O_eq []; op O_assert_ [];
    op O_byte [AStr """xyz"""]; op O_len []; op O_pop [];
    op O_byte [AStr "base64(eHl6)"]; op O_pop [];
    op O_method_signature [AStr """add(uint64,uint64)uint64"""]; op O_len []; op O_int [AInt 4]; op O_eq []; op O_assert_ [];
    op O_int [AInt 1000]; op O_int [AInt 2000]; op O_int [AInt 3000]; op O_int [AInt 4000];
    op O_int [AInt 7]; op O_int [fee];
    op O_pop []; op O_pop []; op O_pop []; op O_pop []; op O_pop []; op O_pop [];
    op O_int [AInt 1000]; op O_int [AInt 2000]; op O_int [AInt 3000]; op O_int [AInt 4000];
    op O_int [AInt 7]; op O_int [fee];
    op O_add []; op O_add []; op O_add []; op O_add []; op O_add [];
    op O_int [AInt 15007]; op O_eq []; op O_assert_ [];
    op O_load [AInt 0]; op O_int [AStr "pay"]; op O_add []; op O_store [AInt 0];
    op O_b [ALbl "main_l1"];
    CLabel "main_l3" None;
    op O_int [AInt 9]; op O_return_ [] ].
Definition ex_ops : list comp := ex_ops_gen (AStr "TMPL_FEE").
(* the same program without placeholder (for the text-level theorem) *)
Definition ex_ops_t : list comp := ex_ops_gen (AInt 5000).


Definition ex_cx : ctx := mkCtx true [] 0 [] [] 0.
Definition ex_st : mstate := init_state [] [] [].

Definition ex_out : list comp :=
  Eval vm_compute in match create_constant_blocks no_hash ex_sig_hash ex_ops with Some o => o | None => [] end.

Example ex_created : create_constant_blocks no_hash ex_sig_hash ex_ops = Some ex_out.
Proof. vm_compute. reflexivity. Qed.

Example ex_out_text :
  assemble_all ex_out =
  Some ["intcblock 1000 2000 3000 4000 TMPL_FEE"; "bytecblock 0x6162 0x78797a"; "pushint 0 // 0"; "store 0";
        "main_l1:"; "load 0"; "pushint 3 // 3"; "<"; "bz main_l3";
        "bytec_0 // ""ab"""; "bytec_0 // 0x6162"; "=="; "assert";
        "bytec_1 // ""xyz"""; "len"; "pop"; "bytec_1 // base64(eHl6)"; "pop";
        "pushbytes 0xfe6bdf69 // ""add(uint64,uint64)uint64"""; "len"; "pushint 4 // 4"; "=="; "assert";
        "intc_0 // 1000"; "intc_1 // 2000"; "intc_2 // 3000"; "intc_3 // 4000"; "pushint 7 // 7"; "intc 4 // TMPL_FEE";
        "pop"; "pop"; "pop"; "pop"; "pop"; "pop";
        "intc_0 // 1000"; "intc_1 // 2000"; "intc_2 // 3000"; "intc_3 // 4000"; "pushint 7 // 7"; "intc 4 // TMPL_FEE";
        "+"; "+"; "+"; "+"; "+"; "pushint 15007 // 15007"; "=="; "assert";
        "load 0"; "pushint 1 // pay"; "+"; "store 0"; "b main_l1"; "main_l3:"; "pushint 9 // 9"; "return"].
Proof. vm_compute. reflexivity. Qed.

Example ex_msel_consistent : msel_consistent ex_sig_hash ex_msel.
Proof.
  intros sg sel H. unfold ex_msel in H. cbn [alookup] in H.
  destruct (String.eqb sg sig_add); [|discriminate H]. injection H as <-. reflexivity.
Qed.

Example ex_input_ok : input_ok ex_sigma ex_msel ex_ops.
Proof.
  unfold input_ok, ex_ops, ex_ops_gen, op.
  repeat (constructor; [split; [cbn [well_formed_site]; try exact Logic.I; intros Hc; try discriminate Hc; vm_compute; discriminate|split; cbn; auto]|]).
  constructor.
Qed.

Example ex_no_block_ops : no_block_ops ex_ops = true. Proof. vm_compute. reflexivity. Qed.
Example ex_indexes_encodable : indexes_encodable ex_out = true. Proof. vm_compute. reflexivity. Qed.

Definition ex_P : program :=
  Eval vm_compute in match clink ex_sigma ex_msel 8 ex_ops with Some P => P | None => mkProg 0 [] [] end.
Definition ex_P' : program :=
  Eval vm_compute in match clink ex_sigma ex_msel 8 ex_out with Some P => P | None => mkProg 0 [] [] end.

Example ex_links : clink ex_sigma ex_msel 8 ex_ops = Some ex_P /\ clink ex_sigma ex_msel 8 ex_out = Some ex_P'.
Proof. split; vm_compute; reflexivity. Qed.

(* the theorem applies: two block lines, then lock step; for EVERY fuel k, context and initial state the runs agree *)
Example ex_program_equiv :
  forall cx st k,
    fst (run (k + 2) cx ex_P' (init_mach st)) = fst (run k cx ex_P (init_mach st)) /\
    m_stack (snd (run (k + 2) cx ex_P' (init_mach st))) = m_stack (snd (run k cx ex_P (init_mach st))) /\
    m_st (snd (run (k + 2) cx ex_P' (init_mach st))) = m_st (snd (run k cx ex_P (init_mach st))) /\
    m_pc (snd (run (k + 2) cx ex_P' (init_mach st))) = m_pc (snd (run k cx ex_P (init_mach st))) + 2.
Proof.
  destruct ex_links as [L0 L1].
  destruct (constants_program_equiv no_hash ex_sig_hash ex_sigma ex_msel ex_msel_consistent ex_ops ex_out 8 ex_P ex_P'
              ex_created ex_input_ok ex_no_block_ops ex_indexes_encodable L0 L1)
    as (pro & body & ib & bb & Eo & Hb & Hf & _ & _ & _ & _ & Hrun).
  assert (Hlen : List.length pro = 2).
  { apply (f_equal (@List.length comp)) in Eo. rewrite app_length, <- (forall2_length _ _ _ Hf) in Eo.
    assert (E1 : List.length ex_out = 57) by (vm_compute; reflexivity).
    assert (E2 : List.length ex_ops = 55) by (vm_compute; reflexivity).
    lia. }
  intros cx st k. specialize (Hrun cx st k). rewrite Hlen in Hrun.
  destruct Hrun as (Hv & ([Rpc Rstk _ _ Rst] & _ & _)). repeat split; assumption.
Qed.

(* the two programs really run to the end: three rounds of the loop, approve *)
Example ex_runs :
  fst (run 1000 ex_cx ex_P (init_mach ex_st)) = VApprove /\
  fst (run 1000 ex_cx ex_P' (init_mach ex_st)) = VApprove /\
  List.length (pr_code ex_P') = (List.length (pr_code ex_P) + 2)%nat /\
  label_pc ex_P "main_l1" = Some 2%nat /\ label_pc ex_P' "main_l1" = Some 4%nat.
Proof. repeat split; vm_compute; reflexivity. Qed.

(* NECESSITY of [no_block_ops]: a pseudo-op program that itself contains a block opcode is not preserved — the
   block the compiler adds gives the stray intc_0 a value.  int 7000; int 7000; ==; pop; intc_0; return *)
Definition stray_ops : list comp :=
  [op O_int [AInt 7000]; op O_int [AInt 7000]; op O_eq []; op O_pop []; op O_intc_0 []; op O_return_ []].

Example program_equiv_needs_no_block_ops :
  exists out P P',
    create_constant_blocks no_hash no_sig stray_ops = Some out /\
    input_ok id_sigma [] stray_ops /\ indexes_encodable out = true /\
    no_block_ops stray_ops = false /\
    clink id_sigma [] 8 stray_ops = Some P /\ clink id_sigma [] 8 out = Some P' /\
    fst (run 100 ex_cx P (init_mach ex_st)) = VFail /\
    fst (run 100 ex_cx P' (init_mach ex_st)) = VApprove.
Proof.
  eexists _, _, _. split; [vm_compute; reflexivity|]. split.
  { unfold input_ok, stray_ops, op.
    repeat (constructor; [split; [cbn [well_formed_site]; try exact Logic.I; intros Hc; try discriminate Hc; vm_compute; discriminate|split; cbn; auto]|]).
    constructor. }
  repeat split; vm_compute; reflexivity.
Qed.

(* the excluded template case at program level: `addr TMPL_A` instantiated by an address links as a pseudo-op
   program, while the output of createConstantBlocks (pushbytes TMPL_A) does not link at all — input_ok
   (no_addr_template_site) is what keeps this case out of the theorem *)
Example addr_template_program_unlinkable :
  exists out P,
    create_constant_blocks no_hash no_sig (tmpl_addr_ops ++ [op O_pop []; op O_int [AInt 1]]) = Some out /\
    clink (fun _ => zero_address) [] 8 (tmpl_addr_ops ++ [op O_pop []; op O_int [AInt 1]]) = Some P /\
    fst (run 100 ex_cx P (init_mach ex_st)) = VApprove /\
    clink (fun _ => zero_address) [] 8 out = None.
Proof. eexists _, _. repeat split; vm_compute; reflexivity. Qed.

(* the refuted index case is outside the theorem: its witness fails [indexes_encodable] *)
Example refuted_case_excluded :
  exists out, create_constant_blocks no_hash no_sig (witness_ints 257) = Some out /\ indexes_encodable out = false.
Proof.
  destruct (create_constant_blocks no_hash no_sig (witness_ints 257)) as [out|] eqn:E; [|vm_compute in E; discriminate E].
  exists out. split; [reflexivity|].
  assert (Hc : option_map indexes_encodable (create_constant_blocks no_hash no_sig (witness_ints 257)) = Some false)
    by (vm_compute; reflexivity).
  rewrite E in Hc. now injection Hc.
Qed.

(* ---------------------------------------------------------------- the texts *)
(* text-level theorem on the placeholder-free variant of the example: every hypothesis holds by computation *)
Definition ex_out_t : list comp :=
  Eval vm_compute in match create_constant_blocks no_hash ex_sig_hash ex_ops_t with Some o => o | None => [] end.
Definition ex_lines_t : list string :=
  Eval vm_compute in match assemble_all (CPragma 8 :: ex_ops_t) with Some l => l | None => [] end.
Definition ex_Pt : program :=
  Eval vm_compute in match parse_program ex_msel (program_text ex_lines_t) with Some P => P | None => mkProg 0 [] [] end.

Example ex_text_hyps :
  create_constant_blocks no_hash ex_sig_hash ex_ops_t = Some ex_out_t /\
  printable ex_msel ex_ops_t = true /\ single_tok ex_ops_t = true /\
  no_block_ops ex_ops_t = true /\ indexes_encodable ex_out_t = true /\
  assemble_all (CPragma 8 :: ex_ops_t) = Some ex_lines_t /\
  parse_program ex_msel (program_text ex_lines_t) = Some ex_Pt.
Proof. repeat split; vm_compute; reflexivity. Qed.

Example ex_input_ok_t : input_ok id_sigma ex_msel ex_ops_t.
Proof.
  unfold input_ok, ex_ops_t, ex_ops_gen, op.
  repeat (constructor; [split; [cbn [well_formed_site]; try exact Logic.I; intros Hc; try discriminate Hc; vm_compute; discriminate|split; cbn; auto]|]).
  constructor.
Qed.

Example ex_text_equiv :
  exists lines' P',
    assemble_all (CPragma 8 :: ex_out_t) = Some lines' /\
    parse_program ex_msel (program_text lines') = Some P' /\
    nth_error lines' 1 = Some "intcblock 1000 2000 3000 4000 5000" /\
    nth_error lines' 29 = Some "intc 4 // 5000" /\
    forall cx st k, fst (run (k + 2) cx P' (init_mach st)) = fst (run k cx ex_Pt (init_mach st)) /\
                    m_stack (snd (run (k + 2) cx P' (init_mach st))) = m_stack (snd (run k cx ex_Pt (init_mach st))) /\
                    m_st (snd (run (k + 2) cx P' (init_mach st))) = m_st (snd (run k cx ex_Pt (init_mach st))).
Proof.
  destruct ex_text_hyps as (Hc & Hp & Hs & Hnb & Hie & A & HP).
  destruct (constants_text_equiv no_hash ex_sig_hash ex_msel ex_msel_consistent 8 ex_ops_t ex_out_t ex_lines_t ex_Pt
              Hc Hp Hs ex_input_ok_t Hnb Hie A HP)
    as (lines' & P' & A' & HP' & pro & body & ib & bb & Eo & _ & Hf & _ & _ & _ & _ & Hrun).
  exists lines', P'. split; [exact A'|]. split; [exact HP'|].
  assert (El : Some lines' = assemble_all (CPragma 8 :: ex_out_t)) by (now rewrite A').
  vm_compute in El. injection El as ->. split; [reflexivity|]. split; [reflexivity|].
  assert (Hlen : List.length pro = 2).
  { apply (f_equal (@List.length comp)) in Eo. rewrite app_length, <- (forall2_length _ _ _ Hf) in Eo.
    assert (E1 : List.length ex_out_t = 57) by (vm_compute; reflexivity).
    assert (E2 : List.length ex_ops_t = 55) by (vm_compute; reflexivity).
    lia. }
  intros cx st k. specialize (Hrun cx st k). rewrite Hlen in Hrun.
  destruct Hrun as (Hv & ([Rpc Rstk _ _ Rst] & _ & _)). repeat split; assumption.
Qed.

(* ---------------------------------------------------------------- the compiler model's two texts *)
Definition s_int (n : N) : expr := EOp O_int [AInt n] TUint [].
Definition s_ld (u : N) : expr := EOp O_load [ASlot u] TUint [].
Definition s_st (u : N) (e : expr) : expr := EOp O_store [ASlot u] TNone [e].
(* Bytes('a;b // "q"\n'): the literal echo after `//` contains a semicolon, a comment marker and escaped quotes *)
Definition cc_lit : expr := EOp O_byte [AStr """a;b // \""q\""\n"""] TBytes [].
Definition cc_opts : copts := mkOpts 6 true false false (fun _ => 0%N) (fun _ _ => 0%N).

(* acc := 0; i := 0; while i < 3 { acc := acc + len(lit) + len(lit) + 1000; i := i + 1 };
   return acc == 1000 + 1000 + 1000 + 66 *)
Definition cc_ast : expr :=
  ESeq [ s_st 0 (s_int 0);
         s_st 300 (s_int 0);
         EWhile (EOp O_lt [] TUint [s_ld 300; s_int 3])
                (ESeq [ s_st 0 (ENary O_add TUint [s_ld 0; EOp O_len [] TUint [cc_lit]; EOp O_len [] TUint [cc_lit]; s_int 1000]);
                        s_st 300 (ENary O_add TUint [s_ld 300; s_int 1]) ]);
         EReturn (Some (EOp O_eq [] TUint [s_ld 0; ENary O_add TUint [s_int 1000; s_int 1000; s_int 1000; s_int 66]])) ].
Definition cc_prog : prog := mkProgram cc_ast [] [(0%N, (7%N, true))].

Definition cc_comps : list comp :=
  Eval vm_compute in match compile_components cc_opts opc_modes cc_prog with COk (_ :: l) => l | _ => [] end.
Definition cc_out : list comp :=
  Eval vm_compute in match create_constant_blocks no_hash no_sig cc_comps with Some o => o | None => [] end.
Definition cc_lines : list string :=
  Eval vm_compute in match compile_model cc_opts opc_modes cc_prog with COk l => l | _ => [] end.
Definition cc_P : program :=
  Eval vm_compute in match parse_program [] (program_text cc_lines) with Some P => P | None => mkProg 0 [] [] end.

(* both texts are, line for line, what compileTeal(..., version=6, assembleConstants=False/True) returns on /repo *)
Example cc_texts :
  compile_model cc_opts opc_modes cc_prog =
  COk ["#pragma version 6"; "int 0"; "store 7"; "int 0"; "store 0"; "main_l1:"; "load 0"; "int 3"; "<"; "bz main_l3";
       "load 7"; "byte ""a;b // \""q\""\n"""; "len"; "+"; "byte ""a;b // \""q\""\n"""; "len"; "+"; "int 1000"; "+";
       "store 7"; "load 0"; "int 1"; "+"; "store 0"; "b main_l1"; "main_l3:"; "load 7"; "int 1000"; "int 1000"; "+";
       "int 1000"; "+"; "int 66"; "+"; "=="; "return"] /\
  compile_model_constants no_hash no_sig cc_opts opc_modes cc_prog =
  COk ["#pragma version 6"; "intcblock 1000 0"; "bytecblock 0x613b62202f2f202271220a"; "intc_1 // 0"; "store 7";
       "intc_1 // 0"; "store 0"; "main_l1:"; "load 0"; "pushint 3 // 3"; "<"; "bz main_l3"; "load 7";
       "bytec_0 // ""a;b // \""q\""\n"""; "len"; "+"; "bytec_0 // ""a;b // \""q\""\n"""; "len"; "+";
       "intc_0 // 1000"; "+"; "store 7"; "load 0"; "pushint 1 // 1"; "+"; "store 0"; "b main_l1"; "main_l3:"; "load 7";
       "intc_0 // 1000"; "intc_0 // 1000"; "+"; "intc_0 // 1000"; "+"; "pushint 66 // 66"; "+"; "=="; "return"].
Proof. split; vm_compute; reflexivity. Qed.

Example cc_hyps :
  compile_model cc_opts opc_modes cc_prog = COk cc_lines /\
  compile_components cc_opts opc_modes cc_prog = COk (CPragma (o_version cc_opts) :: cc_comps) /\
  (assemble_constants_min_version <= o_version cc_opts)%N /\
  create_constant_blocks no_hash no_sig cc_comps = Some cc_out /\
  printable [] cc_comps = true /\ single_tok cc_comps = true /\
  no_block_ops cc_comps = true /\ indexes_encodable cc_out = true /\
  parse_program [] (program_text cc_lines) = Some cc_P.
Proof. repeat split; try (vm_compute; reflexivity). vm_compute. discriminate. Qed.

Example cc_input_ok : input_ok id_sigma [] cc_comps.
Proof.
  unfold input_ok, cc_comps.
  repeat (constructor; [split; [cbn [well_formed_site]; try exact Logic.I; intros Hc; try discriminate Hc; vm_compute; discriminate|split; cbn; auto]|]).
  constructor.
Qed.

Example cc_text_equiv :
  exists lines' P',
    compile_model_constants no_hash no_sig cc_opts opc_modes cc_prog = COk lines' /\
    parse_program [] (program_text lines') = Some P' /\
    fst (run 1000 ex_cx cc_P (init_mach ex_st)) = VApprove /\
    fst (run 1000 ex_cx P' (init_mach ex_st)) = VApprove /\
    forall cx st k, fst (run (k + 2) cx P' (init_mach st)) = fst (run k cx cc_P (init_mach st)) /\
                    m_stack (snd (run (k + 2) cx P' (init_mach st))) = m_stack (snd (run k cx cc_P (init_mach st))) /\
                    m_st (snd (run (k + 2) cx P' (init_mach st))) = m_st (snd (run k cx cc_P (init_mach st))).
Proof.
  destruct cc_hyps as (Hm & Hcc & Hv & Hc & Hp & Hs & Hnb & Hie & HP).
  destruct (constants_compiled_text_equiv no_hash no_sig [] example_msel_consistent cc_opts opc_modes cc_prog
              cc_lines cc_comps cc_out cc_P Hm Hcc Hv Hc Hp Hs cc_input_ok Hnb Hie HP)
    as (lines' & P' & Hm' & HP' & pro & body & ib & bb & Eo & _ & Hf & _ & _ & _ & Hrun).
  exists lines', P'. split; [exact Hm'|]. split; [exact HP'|].
  assert (El : COk lines' = compile_model_constants no_hash no_sig cc_opts opc_modes cc_prog) by (now rewrite Hm').
  vm_compute in El. injection El as ->.
  assert (EP : Some P' = parse_program [] (program_text
     ["#pragma version 6"; "intcblock 1000 0"; "bytecblock 0x613b62202f2f202271220a"; "intc_1 // 0"; "store 7";
       "intc_1 // 0"; "store 0"; "main_l1:"; "load 0"; "pushint 3 // 3"; "<"; "bz main_l3"; "load 7";
       "bytec_0 // ""a;b // \""q\""\n"""; "len"; "+"; "bytec_0 // ""a;b // \""q\""\n"""; "len"; "+";
       "intc_0 // 1000"; "+"; "store 7"; "load 0"; "pushint 1 // 1"; "+"; "store 0"; "b main_l1"; "main_l3:"; "load 7";
       "intc_0 // 1000"; "intc_0 // 1000"; "+"; "intc_0 // 1000"; "+"; "pushint 66 // 66"; "+"; "=="; "return"]))
    by (now rewrite HP').
  vm_compute in EP. injection EP as ->.
  split; [vm_compute; reflexivity|]. split; [vm_compute; reflexivity|].
  assert (Hlen : List.length pro = 2).
  { apply (f_equal (@List.length comp)) in Eo. rewrite app_length, <- (forall2_length _ _ _ Hf) in Eo.
    assert (E1 : List.length cc_out = 37) by (vm_compute; reflexivity).
    assert (E2 : List.length cc_comps = 35) by (vm_compute; reflexivity).
    lia. }
  intros cx st k. specialize (Hrun cx st k). rewrite Hlen in Hrun.
  destruct Hrun as (Hv' & ([Rpc Rstk _ _ Rst] & _ & _)). repeat split; assumption.
Qed.
