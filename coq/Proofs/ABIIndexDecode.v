(* Proofs/ABIIndexDecode.v — x.decode(encoded) with no range on the encoding of a value (scalar decoders,
   and the identity for byte-string-stored types). *)
From Coq Require Import List NArith Arith Ascii String Bool Lia.
From PV Require Import Base.Bytes Base.U64 AVM.Syntax AVM.Ops ABI.Types ABI.Spec ABI.Index
  Proofs.ABISpecProof Proofs.ABIIndexBits Proofs.ABIIndexAsm Proofs.ABIIndexElems Proofs.ABIIndexSel
  Proofs.ABIIndexWalk Proofs.ABIIndexExec Proofs.ABIIndexTuple.
Import ListNotations.
Local Open Scope N_scope.

Theorem decode_whole_correct : forall ver t v enc idx,
    EXTRACT_MIN_VERSION <= ver -> arc4_encode t v = Some enc -> blen enc <= MAX_BYTES -> pyteal_elem t = true ->
    exists p sv, decode_plan t None None None = Some p /\ stored t v = Some sv /\ exec_plan ver p enc idx = Some sv.
Proof.
  intros ver t v enc idx Hv He Hl Hp.
  destruct (is_bool t) eqn:Hb.
  - apply is_bool_true in Hb. subst t. cbn [arc4_encode] in He. destruct v as [b|n|r|vs]; cbn in He; try discriminate.
    injection He as <-. exists (PGetbit (IMul (IInt 0) (IInt 8))), (VI (b2N b)).
    split; [reflexivity|]. split; [reflexivity|]. destruct b; vm_compute; reflexivity.
  - destruct (is_dynamic t) eqn:Hd.
    + destruct (dyn_not_scalar t (@None iexpr) (@None iexpr) (@None iexpr) Hd) as [Hdp Hst].
      exists PWhole, (VB enc). rewrite Hdp, Hst, He. repeat split.
    + eapply (decode_static_ok ver t v enc enc idx [] []); eauto.
      * rewrite app_nil_r. reflexivity.
      * split; reflexivity.
Qed.

(* the uint decoders, spelled out: every (start, end, length) variant that _index_tuple / ArrayElement use
   reads the big-endian value at the start position *)
Theorem uint_decode_correct : forall ver bits n enc idx a c s e l,
    (bits = 8 \/ bits = 16 \/ bits = 32 \/ bits = 64) -> n < 2 ^ bits ->
    enc = a ++ be_encode (N.to_nat (bits / 8)) n ++ c ->
    eval_iexpr enc idx (odefault s (IInt 0)) = Some (blen a) ->
    (s = None -> e = None -> l = None -> bits = 64 -> a = [] /\ c = []) ->
    exists p, uint_decode bits s e l = Some p /\ exec_plan ver p enc idx = Some (VI n).
Proof.
  intros ver bits n enc idx a c s e l Hb Hn E Hs Hwhole.
  assert (G : exec_plan ver (PUintAt bits (odefault s (IInt 0))) enc idx = Some (VI n))
    by (eapply exec_uint_at_gen; eauto).
  destruct Hb as [-> | [-> | [-> | ->]]].
  1-3: eexists; split; [reflexivity | exact G].
  destruct s as [x|]; [eexists; split; [reflexivity | exact G]|].
  destruct e as [y|]; [eexists; split; [reflexivity | exact G]|].
  destruct l as [z|]; [eexists; split; [reflexivity | exact G]|].
  destruct (Hwhole eq_refl eq_refl eq_refl eq_refl) as [-> ->].
  exists PBtoi. split; [reflexivity|]. apply exec_btoi; [exact Hn|]. rewrite E, app_nil_r. reflexivity.
Qed.
