(* Proofs/IncomingProof.v — the two recursive walks of pyteal/ir/tealblock.py over the block graph
   (modelled in Comp/Passes.v with an explicit stack and fuel):
     addIncoming  : afterwards every block reachable from the start holds exactly its reachable
                    predecessors, each once ([add_incoming_spec], [add_incoming_exact]);
     validateTree : succeeds iff every edge out of a reachable block finds its source exactly once in
                    the target's incoming list ([validate_tree_iff]).
   The fuel 3 * S (g_next g) used by the model is shown sufficient: every iteration pops one stack
   entry, entries are pushed only when a block is visited for the first time, at most two per block. *)
From Coq Require Import List Arith NArith String Bool Lia.
From PV Require Import Base.Bytes AVM.Syntax AVM.Machine Src.Expr Src.Denote
  Comp.Blocks Comp.Lower Comp.Passes Comp.GraphSem Comp.SimCheck
  Proofs.LowerFrame Proofs.NormalizeSem Proofs.NormalizeGraph.
Import ListNotations.

(* ---- the fuel measure ---- *)
Definition unvis_in (l : list id) (visited : list id) : nat :=
  List.length (filter (fun i => negb (mem_id i visited)) l).

Lemma filter_length_le {A} (f h : A -> bool) l :
  (forall x, f x = true -> h x = true) -> List.length (filter f l) <= List.length (filter h l).
Proof.
  intros H. induction l as [|x l IH]; [apply Nat.le_refl|]. cbn [filter].
  destruct (f x) eqn:E; [rewrite (H x E); cbn [List.length]; lia|].
  destruct (h x); cbn [List.length]; lia.
Qed.

Lemma mem_id_cons_neq x b v : x <> b -> mem_id x (b :: v) = mem_id x v.
Proof. intros N. cbn [mem_id]. destruct (Nat.eqb_spec x b); [contradiction|reflexivity]. Qed.

Lemma unvis_in_cons_le l b v : unvis_in l (b :: v) <= unvis_in l v.
Proof.
  unfold unvis_in. apply filter_length_le. intros x H.
  apply negb_true_iff in H. apply negb_true_iff. apply mem_id_false. apply mem_id_false in H.
  intros I. apply H. right. exact I.
Qed.

Lemma unvis_in_cons_lt l b v : In b l -> ~ In b v -> S (unvis_in l (b :: v)) <= unvis_in l v.
Proof.
  induction l as [|x l IH]; [intros []|]. intros I N. unfold unvis_in in *. cbn [filter].
  destruct (Nat.eq_dec x b) as [E|E].
  - subst x. rewrite (proj2 (mem_id_In b (b :: v)) (or_introl eq_refl)).
    rewrite (proj2 (mem_id_false b v) N). cbn [negb List.length].
    pose proof (unvis_in_cons_le l b v) as K. unfold unvis_in in K. lia.
  - destruct I as [I|I]; [congruence|]. specialize (IH I N).
    rewrite (mem_id_cons_neq x b v E). destruct (negb (mem_id x v)); cbn [List.length]; lia.
Qed.

Definition unvis (n : nat) (visited : list id) : nat := unvis_in (seq 0 n) visited.

Lemma unvis_nil n : unvis n [] = n.
Proof.
  unfold unvis, unvis_in. rewrite <- (seq_length n 0) at 2.
  induction (seq 0 n) as [|x l IH]; [reflexivity|]. cbn [filter mem_id negb List.length]. f_equal. exact IH.
Qed.

Lemma outgoing_le2 b : List.length (outgoing b) <= 2.
Proof. destruct b as [o [n|]|o [t|] [f|]]; cbn; lia. Qed.

Lemma out_of_le2 g b : List.length (out_of g b) <= 2.
Proof. unfold out_of. destruct (g_blk g b); [apply outgoing_le2|cbn; lia]. Qed.

Lemma out_of_undefined g b : wf g -> g_next g <= b -> out_of g b = [].
Proof. intros W L. unfold out_of. rewrite W by exact L. reflexivity. Qed.

Lemma out_of_ext g h b : g_blk g = g_blk h -> out_of g b = out_of h b.
Proof. intros E. unfold out_of. rewrite E. reflexivity. Qed.

Lemma reach_ext g h s x : g_blk g = g_blk h -> reach g s x -> reach h s x.
Proof.
  intros E. induction 1 as [|p x R IH I]; [apply reach_refl|].
  eapply reach_step; [exact IH|]. rewrite <- (out_of_ext g h p E). exact I.
Qed.

(* the step measure *)
Lemma measure_visit g b (v : list id) (rest : nat) f :
  wf g -> ~ In b v ->
  S rest + 2 * unvis (g_next g) v <= S f ->
  List.length (out_of g b) + rest + 2 * unvis (g_next g) (b :: v) <= f.
Proof.
  intros W N H. destruct (Nat.lt_ge_cases b (g_next g)) as [L|L].
  - assert (I : In b (seq 0 (g_next g))) by (apply in_seq; lia).
    pose proof (unvis_in_cons_lt _ b v I N) as K. fold (unvis (g_next g) (b :: v)) in K.
    fold (unvis (g_next g) v) in K. pose proof (out_of_le2 g b). lia.
  - rewrite (out_of_undefined g b W L). cbn [List.length].
    pose proof (unvis_in_cons_le (seq 0 (g_next g)) b v) as K.
    fold (unvis (g_next g) (b :: v)) in K. fold (unvis (g_next g) v) in K. lia.
Qed.

(* =========================================================================================== *)
(* addIncoming                                                                                  *)
(* =========================================================================================== *)
Section AddIncoming.
  Variable g0 : graph.
  Variable s : id.
  Hypothesis W0 : wf g0.

  Local Notation outB := (out_of g0).
  Local Notation inc0 := (g_inc g0).

  Definition ai_step_graph (g : graph) (b : id) (parent : option id) : graph :=
    match parent with
    | Some p => if mem_id p (g_inc g b) then g else set_inc g b (g_inc g b ++ [p])
    | None => g
    end.

  Lemma ai_step_blk g b parent : g_blk (ai_step_graph g b parent) = g_blk g /\
                                 g_next (ai_step_graph g b parent) = g_next g.
  Proof. unfold ai_step_graph. destruct parent as [p|]; [destruct (mem_id p (g_inc g b))|]; split; reflexivity. Qed.

  Lemma ai_step_inc g b parent x q :
    In q (g_inc (ai_step_graph g b parent) x) <->
    In q (g_inc g x) \/ (x = b /\ parent = Some q).
  Proof.
    unfold ai_step_graph. destruct parent as [p|]; [|split; [tauto|intros [H|[_ H]]; [exact H|discriminate]]].
    destruct (mem_id p (g_inc g b)) eqn:M.
    - apply mem_id_In in M. split; [tauto|]. intros [H|[H1 H2]]; [exact H|].
      injection H2 as H2. subst. exact M.
    - cbn [set_inc g_inc]. unfold upd. destruct (Nat.eqb_spec x b) as [E|E].
      + subst x. rewrite in_app_iff. cbn [In]. split.
        * intros [H|[H|[]]]; [tauto|subst; tauto].
        * intros [H|[_ H]]; [tauto|]. injection H as H. subst. tauto.
      + split; [tauto|]. intros [H|[H _]]; [exact H|contradiction].
  Qed.

  Lemma ai_step_nodup g b parent x : NoDup (g_inc g x) -> NoDup (g_inc (ai_step_graph g b parent) x).
  Proof.
    unfold ai_step_graph. destruct parent as [p|]; [|auto].
    destruct (mem_id p (g_inc g b)) eqn:M; [auto|].
    cbn [set_inc g_inc]. unfold upd. destruct (Nat.eqb_spec x b) as [E|E]; [|auto].
    subst x. intros N. apply nodup_snoc; [exact N|]. apply mem_id_false. exact M.
  Qed.

  Record ai_inv (g : graph) (stack : list (id * option id * nat)) (visited : list id) : Prop := {
    ai_blk : g_blk g = g_blk g0;
    ai_next : g_next g = g_next g0;
    ai_edge : forall b p d, In (b, Some p, d) stack -> In p visited /\ In b (outB p);
    ai_root : forall b d, In (b, None, d) stack -> b = s;
    ai_done : forall p x, In p visited -> In x (outB p) ->
                (In p (g_inc g x) /\ In x visited) \/ exists d, In (x, Some p, d) stack;
    ai_start : In s visited \/ exists d, In (s, None, d) stack;
    ai_vis : forall v, In v visited -> reach g0 s v;
    ai_mem : forall x p, In p (g_inc g x) -> In p (inc0 x) \/ (In p visited /\ In x (outB p));
    ai_keep : forall x p, In p (inc0 x) -> In p (g_inc g x);
    ai_nodup : forall x, NoDup (inc0 x) -> NoDup (g_inc g x)
  }.

  Record ai_post (g : graph) : Prop := {
    ap_blk : g_blk g = g_blk g0;
    ap_next : g_next g = g_next g0;
    ap_cov : forall p x, reach g0 s p -> In x (outB p) -> In p (g_inc g x);
    ap_mem : forall x p, In p (g_inc g x) -> In p (inc0 x) \/ (reach g0 s p /\ In x (outB p));
    ap_keep : forall x p, In p (inc0 x) -> In p (g_inc g x);
    ap_nodup : forall x, NoDup (inc0 x) -> NoDup (g_inc g x)
  }.

  Lemma ai_finish g visited : ai_inv g [] visited -> ai_post g.
  Proof.
    intros [B N E R D St V M K ND].
    assert (Sv : In s visited) by (destruct St as [St|[d []]]; exact St).
    assert (C : forall p, reach g0 s p -> In p visited).
    { induction 1 as [|p x Rp IH I]; [exact Sv|].
      destruct (D p x IH I) as [[_ H]|[d []]]. exact H. }
    constructor; auto.
    - intros p x Rp I. destruct (D p x (C p Rp) I) as [[H _]|[d []]]. exact H.
    - intros x p I. destruct (M x p I) as [H|[H1 H2]]; [left; exact H|right; split; auto].
  Qed.

  Lemma ai_loop_spec fuel : forall g stack visited maxd,
    ai_inv g stack visited ->
    List.length stack + 2 * unvis (g_next g0) visited <= fuel ->
    ai_post (fst (add_incoming_loop fuel g stack visited maxd)).
  Proof.
    induction fuel as [|f IH]; intros g stack visited maxd Inv Hm.
    - destruct stack; [|cbn in Hm; lia]. cbn. eapply ai_finish; eauto.
    - cbn [add_incoming_loop]. destruct stack as [|[[b parent] d] rest]; [cbn; eapply ai_finish; eauto|].
      fold (ai_step_graph g b parent).
      destruct (ai_step_blk g b parent) as [B1 N1].
      destruct Inv as [B N E R D St V M K ND].
      destruct (mem_id b visited) eqn:Mb.
      + (* already visited: only the parent pointer is recorded *)
        apply mem_id_In in Mb. apply IH; [|cbn [List.length] in Hm; lia].
        constructor; try congruence.
        * intros b' p d' I. apply (E b' p d'). right. exact I.
        * intros b' d' I. apply (R b' d'). right. exact I.
        * intros p x Ip Ix. destruct (D p x Ip Ix) as [[H1 H2]|[d' [H|H]]].
          -- left. split; [apply ai_step_inc; left; exact H1|exact H2].
          -- injection H as H1 H2 H3. subst. left. split; [apply ai_step_inc; right; auto|exact Mb].
          -- right. exists d'. exact H.
        * destruct St as [St|[d' [H|H]]]; [left; exact St| |right; exists d'; exact H].
          injection H as H1 H2 H3. subst. left. exact Mb.
        * exact V.
        * intros x p I. apply ai_step_inc in I. destruct I as [I|[I1 I2]]; [apply M; exact I|].
          subst. right. apply (E b p d). left. reflexivity.
        * intros x p I. apply ai_step_inc. left. apply K. exact I.
        * intros x H. apply ai_step_nodup. apply ND. exact H.
      + (* first visit: the children are pushed *)
        apply mem_id_false in Mb.
        assert (Eo : out_of (ai_step_graph g b parent) b = outB b)
          by (apply out_of_ext; congruence).
        rewrite Eo. apply IH.
        * constructor; try congruence.
          -- intros b' p d' I. apply in_app_or in I. destruct I as [I|I].
             ++ apply in_map_iff in I. destruct I as (c & I1 & I2). injection I1 as I1 I3 I4. subst.
                split; [left; reflexivity|exact I2].
             ++ destruct (E b' p d' (or_intror I)) as [H1 H2]. split; [right; exact H1|exact H2].
          -- intros b' d' I. apply in_app_or in I. destruct I as [I|I].
             ++ apply in_map_iff in I. destruct I as (c & I1 & _). discriminate.
             ++ apply (R b' d'). right. exact I.
          -- intros p x Ip Ix. destruct Ip as [Ip|Ip].
             ++ subst p. right. exists (S d). apply in_or_app. left.
                apply in_map_iff. exists x. split; [reflexivity|exact Ix].
             ++ destruct (D p x Ip Ix) as [[H1 H2]|[d' [H|H]]].
                ** left. split; [apply ai_step_inc; left; exact H1|right; exact H2].
                ** injection H as H1 H2 H3. subst. left.
                   split; [apply ai_step_inc; right; auto|left; reflexivity].
                ** right. exists d'. apply in_or_app. right. exact H.
          -- destruct St as [St|[d' [H|H]]]; [left; right; exact St| |right; exists d'; apply in_or_app; right; exact H].
             injection H as H1 H2 H3. subst. left. left. reflexivity.
          -- intros v [Iv|Iv]; [|apply V; exact Iv]. subst v.
             destruct parent as [p|].
             ++ destruct (E b p d (or_introl eq_refl)) as [H1 H2].
                eapply reach_step; [apply V; exact H1|exact H2].
             ++ rewrite (R b d (or_introl eq_refl)). apply reach_refl.
          -- intros x p I. apply ai_step_inc in I. destruct I as [I|[I1 I2]].
             ++ destruct (M x p I) as [H|[H1 H2]]; [left; exact H|right; split; [right; exact H1|exact H2]].
             ++ subst. right. destruct (E b p d (or_introl eq_refl)) as [H1 H2]. split; [right; exact H1|exact H2].
          -- intros x p I. apply ai_step_inc. left. apply K. exact I.
          -- intros x H. apply ai_step_nodup. apply ND. exact H.
        * rewrite app_length, map_length. cbn [List.length] in Hm.
          pose proof (measure_visit g0 b visited (List.length rest) f W0 Mb Hm). lia.
  Qed.

  (* addIncoming on the whole graph *)
  Theorem add_incoming_spec : ai_post (fst (add_incoming g0 s)).
  Proof.
    unfold add_incoming. apply ai_loop_spec.
    - constructor; try reflexivity.
      + intros b p d [H|[]]. discriminate.
      + intros b d [H|[]]. congruence.
      + intros p x [].
      + right. exists 0. left. reflexivity.
      + intros v [].
      + intros x p I. left. exact I.
      + auto.
      + auto.
    - cbn [List.length]. rewrite unvis_nil. lia.
  Qed.
  (* any fuel from 1 + 2 * g_next on gives the same guarantee; the model uses 3 * S (g_next g) *)
  Theorem add_incoming_fuel_suffices fuel :
    1 + 2 * g_next g0 <= fuel -> ai_post (fst (add_incoming_loop fuel g0 [(s, None, 0)] [] 0)).
  Proof.
    intros Hf. apply ai_loop_spec.
    - constructor; try reflexivity.
      + intros b p d [H|[]]. discriminate.
      + intros b d [H|[]]. congruence.
      + intros p x [].
      + right. exists 0. left. reflexivity.
      + intros v [].
      + intros x p I. left. exact I.
      + auto.
      + auto.
    - cbn [List.length]. rewrite unvis_nil. lia.
  Qed.
End AddIncoming.

(* the statement of C20: exact incoming lists on the reachable part, blocks untouched *)
Theorem add_incoming_exact g s :
  wf g -> (forall b, reach g s b -> g_inc g b = []) ->
  let g' := fst (add_incoming g s) in
  g_blk g' = g_blk g /\ g_next g' = g_next g /\ inc_exact g' s.
Proof.
  intros W Z g'. destruct (add_incoming_spec g s W) as [B N C M K ND]. fold g' in B, N, C, M, K, ND.
  split; [exact B|]. split; [exact N|].
  intros b R. apply (reach_ext g' g s b B) in R. split.
  - apply ND. rewrite (Z b R). constructor.
  - intros p. split.
    + intros I. destruct (M b p I) as [H|[H1 H2]]; [rewrite (Z b R) in H; destruct H|].
      split; [apply (reach_ext g g' s p (eq_sym B)); exact H1|].
      rewrite (out_of_ext g' g p B). exact H2.
    + intros [H1 H2]. apply (C p b).
      * apply (reach_ext g' g s p B). exact H1.
      * rewrite <- (out_of_ext g' g p B). exact H2.
Qed.

(* global form used by the normalisation theorems: no duplicates anywhere, predecessors covered *)
Theorem add_incoming_covers g s :
  wf g -> (forall b, NoDup (g_inc g b)) ->
  let g' := fst (add_incoming g s) in
  g_blk g' = g_blk g /\ g_next g' = g_next g /\ inc_covers g' s /\ (forall b, NoDup (g_inc g' b)) /\
  (g_inc g s = [] -> (forall p, reach g s p -> ~ In s (out_of g p)) -> g_inc g' s = []).
Proof.
  intros W Z g'. destruct (add_incoming_spec g s W) as [B N C M K ND]. fold g' in B, N, C, M, K, ND.
  split; [exact B|]. split; [exact N|]. split; [|split].
  - intros p b R I. apply (C p b).
    + apply (reach_ext g' g s p B). exact R.
    + rewrite <- (out_of_ext g' g p B). exact I.
  - intros b. apply ND. apply Z.
  - intros Hs Hn. destruct (g_inc g' s) as [|p l] eqn:E; [reflexivity|]. exfalso.
    destruct (M s p) as [H|[H1 H2]]; [rewrite E; left; reflexivity|rewrite Hs in H; destruct H|].
    apply (Hn p H1 H2).
Qed.

(* =========================================================================================== *)
(* validateTree                                                                                 *)
(* =========================================================================================== *)
Section ValidateTree.
  Variable g : graph.
  Variable s : id.

  Definition vt_ok (b : id) (parent : option id) : bool :=
    match parent with Some p => Nat.eqb (count_id p (g_inc g b)) 1 | None => true end.

  (* completeness: if every edge out of a reachable block is fine, no assertion fires (any fuel) *)
  Lemma vt_complete fuel : forall stack visited,
    tree_valid g s ->
    (forall b par, In (b, par) stack ->
       reach g s b /\ forall p, par = Some p -> reach g s p /\ In b (out_of g p)) ->
    validate_tree_loop fuel g stack visited = true.
  Proof.
    induction fuel as [|f IH]; intros stack visited T Inv; [reflexivity|].
    cbn [validate_tree_loop]. destruct stack as [|[b parent] rest]; [reflexivity|].
    fold (vt_ok b parent).
    destruct (Inv b parent (or_introl eq_refl)) as [Rb Hp].
    assert (Ok : vt_ok b parent = true).
    { unfold vt_ok. destruct parent as [p|]; [|reflexivity].
      destruct (Hp p eq_refl) as [Rp I]. rewrite (T p b Rp I). reflexivity. }
    rewrite Ok. cbn [negb]. destruct (mem_id b visited).
    - apply IH; [exact T|]. intros b' par I. apply Inv. right. exact I.
    - apply IH; [exact T|]. intros b' par I. apply in_app_or in I. destruct I as [I|I].
      + apply in_map_iff in I. destruct I as (c & I1 & I2). injection I1 as I1 I3. subst.
        split; [eapply reach_step; eauto|]. intros p Q. injection Q as Q. subst. split; assumption.
      + apply Inv. right. exact I.
  Qed.

  Hypothesis W : wf g.

  Record vt_inv (stack : list (id * option id)) (visited : list id) : Prop := {
    vt_done : forall p x, In p visited -> In x (out_of g p) ->
                (count_id p (g_inc g x) = 1 /\ In x visited) \/ In (x, Some p) stack;
    vt_start : In s visited \/ In (s, None) stack
  }.

  Lemma vt_finish visited : vt_inv [] visited -> tree_valid g s.
  Proof.
    intros [D St].
    assert (Sv : In s visited) by (destruct St as [St|[]]; exact St).
    assert (C : forall p, reach g s p -> In p visited).
    { induction 1 as [|p x Rp IH I]; [exact Sv|]. destruct (D p x IH I) as [[_ H]|[]]. exact H. }
    intros p b R I. destruct (D p b (C p R) I) as [[H _]|[]]. exact H.
  Qed.

  (* soundness: with the model's fuel, [true] means every edge was checked *)
  Lemma vt_sound fuel : forall stack visited,
    vt_inv stack visited ->
    List.length stack + 2 * unvis (g_next g) visited <= fuel ->
    validate_tree_loop fuel g stack visited = true -> tree_valid g s.
  Proof.
    induction fuel as [|f IH]; intros stack visited Inv Hm E.
    - destruct stack; [|cbn in Hm; lia]. eapply vt_finish; eauto.
    - cbn [validate_tree_loop] in E. destruct stack as [|[b parent] rest]; [eapply vt_finish; eauto|].
      fold (vt_ok b parent) in E. destruct (vt_ok b parent) eqn:Ok; cbn [negb] in E; [|discriminate].
      destruct Inv as [D St].
      assert (Chk : forall p, parent = Some p -> count_id p (g_inc g b) = 1).
      { intros p Q. subst parent. cbn in Ok. apply Nat.eqb_eq in Ok. exact Ok. }
      destruct (mem_id b visited) eqn:Mb.
      + apply mem_id_In in Mb. apply (IH rest visited); [|cbn [List.length] in Hm; lia|exact E].
        constructor.
        * intros p x Ip Ix. destruct (D p x Ip Ix) as [H|[H|H]]; [left; exact H| |right; exact H].
          injection H as H1 H2. subst. left. split; [apply Chk; reflexivity|exact Mb].
        * destruct St as [St|[H|H]]; [left; exact St| |right; exact H].
          injection H as H1 H2. subst. left. exact Mb.
      + apply mem_id_false in Mb.
        apply (IH (map (fun c => (c, Some b)) (out_of g b) ++ rest) (b :: visited)); [| |exact E].
        * constructor.
          -- intros p x Ip Ix. destruct Ip as [Ip|Ip].
             ++ subst p. right. apply in_or_app. left. apply in_map_iff. exists x. split; [reflexivity|exact Ix].
             ++ destruct (D p x Ip Ix) as [[H1 H2]|[H|H]].
                ** left. split; [exact H1|right; exact H2].
                ** injection H as H1 H2. subst. left. split; [apply Chk; reflexivity|left; reflexivity].
                ** right. apply in_or_app. right. exact H.
          -- destruct St as [St|[H|H]]; [left; right; exact St| |right; apply in_or_app; right; exact H].
             injection H as H1 H2. subst. left. left. reflexivity.
        * rewrite app_length, map_length. cbn [List.length] in Hm.
          pose proof (measure_visit g b visited (List.length rest) f W Mb Hm). lia.
  Qed.

  Theorem validate_tree_iff : validate_tree g s = true <-> tree_valid g s.
  Proof.
    unfold validate_tree. split.
    - apply vt_sound.
      + constructor; [intros p x []|right; left; reflexivity].
      + cbn [List.length]. rewrite unvis_nil. lia.
    - intros T. apply vt_complete; [exact T|].
      intros b par [H|[]]. injection H as H1 H2. subst. split; [apply reach_refl|discriminate].
  Qed.
End ValidateTree.

(* validateTree passes right after addIncoming *)
Theorem validate_tree_passes_after_add_incoming g s :
  wf g -> (forall b, NoDup (g_inc g b)) ->
  validate_tree (fst (add_incoming g s)) s = true.
Proof.
  intros W Z. destruct (add_incoming_covers g s W Z) as (B & N & C & ND & _).
  apply validate_tree_iff.
  - intros i L. rewrite B. apply W. rewrite <- N. exact L.
  - apply tree_valid_of_cov; assumption.
Qed.
