(* Proofs/CallComposeLayout.v — property C02: [flatten_subroutines] lays the routines out as
   Proofs/CallComposeLink.v assumes: the main routine's code at offset 0 with prefix "main_", every
   subroutine's code directly behind its entry label with prefix "<entry label>_", routine references
   resolved to entry labels ([fs_res]). *)
From Coq Require Import List Arith NArith String Bool Lia.
From PV Require Import Base.Bytes Base.Sexp AVM.Syntax AVM.Machine Src.Expr Src.Denote Src.DenoteCall
  Comp.Blocks Comp.Lower Comp.Passes Comp.GraphSem Comp.LinearSem Comp.LinkedSem Comp.Compile
  Proofs.SlotCompose CallX.Denote Proofs.CallComposeLink.
Import ListNotations.
Local Open Scope string_scope.
Local Open Scope list_scope.

(* ---- the local definitions of flatten_subroutines, named ---- *)
Definition fs_ids (frs : list flat_routine) : list N :=
  sort_dedup (flat_map (fun fr => match fr_sub fr with Some r => [r_id r] | None => [] end) frs).

Definition fs_label (frs : list flat_routine) (r : routine) : string :=
  (sanitize (r_name r) ++ "_" ++ N_to_dec (N.of_nat (index_N (r_id r) (fs_ids frs) 0)))%string.

Definition fs_find (frs : list flat_routine) (i : N) : option flat_routine :=
  find (fun fr => match fr_sub fr with Some r => N.eqb (r_id r) i | None => false end) frs.

Definition fs_sub_of (frs : list flat_routine) (i : N) : option routine :=
  match fs_find frs i with Some fr => fr_sub fr | None => None end.

(* routine id -> entry label *)
Definition fs_res (frs : list flat_routine) (i : N) : option string :=
  match fs_sub_of frs i with Some r => Some (fs_label frs r) | None => None end.

Definition fs_resolve (frs : list flat_routine) (c : comp) : comp :=
  match c with
  | COp i => COp (rewrite_instr (fun a => match a with
                                          | ASub s => match fs_sub_of frs s with Some r => AStr (fs_label frs r) | None => a end
                                          | _ => a end) i)
  | other => other
  end.

Definition fs_main (frs : list flat_routine) : list comp :=
  flat_map (fun fr => match fr_sub fr with
                      | None => map (prefix_labels "main_") (map (fs_resolve frs) (fr_ops fr))
                      | Some _ => [] end) frs.

Definition fs_unit (frs : list flat_routine) (i : N) : list comp :=
  match fs_find frs i with
  | Some fr =>
      match fr_sub fr with
      | Some r =>
          let lbl := fs_label frs r in
          CLabel lbl (Some (r_name r)) :: map (prefix_labels (lbl ++ "_")%string) (map (fs_resolve frs) (fr_ops fr))
      | None => []
      end
  | None => []
  end.

Lemma flatten_subroutines_eq frs :
  flatten_subroutines frs = fs_main frs ++ flat_map (fs_unit frs) (fs_ids frs).
Proof. reflexivity. Qed.

(* prefixing after resolving is the link transformation *)
Lemma link_comp_eq frs pre c : prefix_labels pre (fs_resolve frs c) = link_comp (fs_res frs) pre c.
Proof.
  destruct c as [i|l cm|v]; try reflexivity.
  cbn [fs_resolve prefix_labels link_comp]. f_equal. unfold rewrite_instr. cbn [i_op i_args]. f_equal.
  rewrite map_map. apply map_ext. intros a. unfold link_arg, fs_res.
  destruct a as [n|s|l|u|sb]; try reflexivity.
  destruct (fs_sub_of frs sb); reflexivity.
Qed.

Lemma link_code_eq frs pre code :
  map (prefix_labels pre) (map (fs_resolve frs) code) = map (link_comp (fs_res frs) pre) code.
Proof. rewrite map_map. apply map_ext. intros c. apply link_comp_eq. Qed.

(* ---- placement inside an append ---- *)
Lemma placed_mid (A B : list comp) res pre code :
  placed (A ++ map (link_comp res pre) code ++ B) (List.length A) res pre code.
Proof.
  intros pc c H. rewrite nth_error_app2 by lia. replace (List.length A + pc - List.length A) with pc by lia.
  rewrite nth_error_app1 by (rewrite map_length; apply nth_error_Some; rewrite H; discriminate).
  rewrite nth_error_map, H. reflexivity.
Qed.

(* the compiled subroutines, in the order of the component list *)
Definition fs_subs (frs : list flat_routine) : list routine :=
  flat_map (fun fr => match fr_sub fr with Some r => [r] | None => [] end) frs.

Lemma find_routine_fs frs f r : find_routine (fs_subs frs) f = Some r ->
  r_id r = f /\ exists fr, fs_find frs f = Some fr /\ fr_sub fr = Some r.
Proof.
  unfold find_routine, fs_subs, fs_find. induction frs as [|fr t IH]; intros H; [discriminate H|].
  cbn [flat_map find] in *. destruct (fr_sub fr) as [r0|] eqn:E.
  - cbn [app find] in H. destruct (N.eqb (r_id r0) f) eqn:Q.
    + injection H as <-. split; [apply N.eqb_eq; exact Q|]. exists fr. split; [reflexivity|exact E].
    + exact (IH H).
  - cbn [app] in H. exact (IH H).
Qed.

Lemma fs_find_in frs f fr : fs_find frs f = Some fr -> In fr frs.
Proof. unfold fs_find. intros H. exact (proj1 (find_some _ _ H)). Qed.

Lemma fs_ids_in frs fr r : In fr frs -> fr_sub fr = Some r -> In (r_id r) (fs_ids frs).
Proof.
  intros Hin E. unfold fs_ids. apply in_sort_dedup'. apply in_flat_map. exists fr. split; [exact Hin|].
  rewrite E. left. reflexivity.
Qed.

(* ---- the layout ---- *)
Theorem flatten_layout_sub frs f r :
  find_routine (fs_subs frs) f = Some r ->
  r_id r = f /\
  exists fr e,
    In fr frs /\ fr_sub fr = Some r /\
    fs_res frs f = Some (fs_label frs r) /\
    nth_error (flatten_subroutines frs) e = Some (CLabel (fs_label frs r) (Some (r_name r))) /\
    placed (flatten_subroutines frs) (S e) (fs_res frs) (fs_label frs r ++ "_")%string (fr_ops fr).
Proof.
  intros H. destruct (find_routine_fs frs f r H) as [Eid (fr & Ff & Es)]. split; [exact Eid|].
  pose proof (fs_find_in frs f fr Ff) as Hin.
  pose proof (fs_ids_in frs fr r Hin Es) as Hid. rewrite Eid in Hid.
  destruct (in_split _ _ Hid) as (a & b & Eids).
  assert (EU : fs_unit frs f = CLabel (fs_label frs r) (Some (r_name r)) ::
                 map (link_comp (fs_res frs) (fs_label frs r ++ "_")%string) (fr_ops fr)).
  { unfold fs_unit. rewrite Ff, Es. cbv zeta. rewrite link_code_eq. reflexivity. }
  set (A := fs_main frs ++ flat_map (fs_unit frs) a).
  assert (EL : flatten_subroutines frs =
               (A ++ [CLabel (fs_label frs r) (Some (r_name r))]) ++
               map (link_comp (fs_res frs) (fs_label frs r ++ "_")%string) (fr_ops fr) ++ flat_map (fs_unit frs) b).
  { rewrite flatten_subroutines_eq, Eids, flat_map_app. cbn [flat_map]. rewrite EU. unfold A.
    rewrite <- !app_assoc. reflexivity. }
  exists fr, (List.length A). split; [exact Hin|]. split; [exact Es|]. split.
  { unfold fs_res, fs_sub_of. rewrite Ff, Es. reflexivity. }
  split.
  - rewrite EL, <- app_assoc. rewrite nth_error_app2 by lia. rewrite Nat.sub_diag. reflexivity.
  - rewrite EL. replace (S (List.length A)) with (List.length (A ++ [CLabel (fs_label frs r) (Some (r_name r))])).
    + apply placed_mid.
    + rewrite app_length. cbn [List.length]. lia.
Qed.

Lemma flat_map_main_head (g : flat_routine -> list comp) mainfr rest :
  fr_sub mainfr = None -> Forall (fun fr => fr_sub fr <> None) rest ->
  flat_map (fun fr => match fr_sub fr with None => g fr | Some _ => [] end) (mainfr :: rest) = g mainfr.
Proof.
  intros Em Hr. cbn [flat_map]. rewrite Em.
  assert (Z : flat_map (fun fr => match fr_sub fr with None => g fr | Some _ => [] end) rest = []).
  { induction rest as [|x t IH]; [reflexivity|]. inversion Hr as [|? ? Hx Ht]; subst.
    cbn [flat_map]. destruct (fr_sub x); [|exfalso; apply Hx; reflexivity]. exact (IH Ht). }
  rewrite Z, app_nil_r. reflexivity.
Qed.

Lemma fs_main_head frs mainfr rest :
  frs = mainfr :: rest -> fr_sub mainfr = None -> Forall (fun fr => fr_sub fr <> None) rest ->
  fs_main frs = map (link_comp (fs_res frs) "main_") (fr_ops mainfr).
Proof.
  intros E Em Hr. unfold fs_main.
  set (g := fun fr => map (prefix_labels "main_") (map (fs_resolve frs) (fr_ops fr))).
  change (flat_map (fun fr => match fr_sub fr with None => g fr | Some _ => [] end) frs =
          map (link_comp (fs_res frs) "main_") (fr_ops mainfr)).
  assert (G : g mainfr = map (link_comp (fs_res frs) "main_") (fr_ops mainfr)) by (unfold g; apply link_code_eq).
  rewrite <- G. clear G. clearbody g. rewrite E. exact (flat_map_main_head g mainfr rest Em Hr).
Qed.

Theorem flatten_layout_main frs mainfr rest :
  frs = mainfr :: rest -> fr_sub mainfr = None -> Forall (fun fr => fr_sub fr <> None) rest ->
  placed (flatten_subroutines frs) 0 (fs_res frs) "main_" (fr_ops mainfr).
Proof.
  intros E Em Hr. rewrite flatten_subroutines_eq, (fs_main_head frs mainfr rest E Em Hr).
  exact (placed_mid [] _ (fs_res frs) "main_" (fr_ops mainfr)).
Qed.
