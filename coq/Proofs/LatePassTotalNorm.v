(* Proofs/LatePassTotalNorm.v — NormalizeBlocks keeps what sortBlocks and flattenBlocks rely on:
     * the end block stays reachable from the (possibly moved) start block,
     * every edge of the graph points to a defined block, and the start block is defined.
   As in Proofs/NormalizeCorrect.v the walk is irrelevant: each pass body keeps the invariant for ANY
   block it is applied to ([norm_iter_inv]).  Both bodies act on the edges in the same way: every edge
   into a block w whose only successor is ob (pass 1: w = the merged predecessor, ob = the block;
   pass 2: w = the by-passed empty block, ob = its successor) is re-pointed to ob or left alone, no other
   edge changes, and w keeps its edge to ob — so a path to the end block (which is not w: it has no
   successor) survives with w cut out. *)
From Coq Require Import List Arith NArith String Bool Lia.
From PV Require Import Base.Bytes AVM.Syntax Src.Expr
  Comp.Blocks Comp.Lower Comp.Passes Comp.SimCheck
  Proofs.LowerFrame Proofs.NormalizeSem Proofs.NormalizeGraph Proofs.NormalizeCorrect
  Proofs.EndToEndExits Proofs.EndToEndGlue Proofs.LatePassTotalReach Proofs.SortCorrect.
Import ListNotations.

Local Notation reach := SortCorrect.reach.

(* ---- what an edge substitution does to the successors of a block ---- *)
Definition erel (w ob : id) (b b' : block) : Prop :=
  (forall x, In x (outgoing b) -> In x (outgoing b') \/ (x = w /\ In ob (outgoing b'))) /\
  (forall x, In x (outgoing b') -> In x (outgoing b) \/ x = ob).

Lemma osub_fwd old new o o' x : osub old new o o' -> oin x o -> oin x o' \/ (x = old /\ oin new o').
Proof.
  unfold oin. intros [H|[H H']] E; subst; [left; reflexivity|].
  right. injection E as E. split; [congruence|reflexivity].
Qed.

Lemma esub_erel w ob b0 b b' : outgoing b0 = outgoing b -> esub w ob b0 b' -> erel w ob b b'.
Proof.
  intros Eo H. split; intros x Hx.
  - rewrite <- Eo in Hx. revert Hx. rewrite !in_outgoing.
    destruct b0 as [o n|o t f], b' as [o' n'|o' t' f']; cbn in H; try tauto.
    + destruct H as [_ H]. apply osub_fwd. exact H.
    + destruct H as (_ & H1 & H2). intros [E|E].
      * destruct (osub_fwd _ _ _ _ _ H1 E) as [K|[K K']]; tauto.
      * destruct (osub_fwd _ _ _ _ _ H2 E) as [K|[K K']]; tauto.
  - rewrite <- Eo. destruct (esub_out _ _ _ _ _ H Hx) as [K|[_ K]]; [left; exact K|right; exact K].
Qed.

Definition grel (w ob : id) (g g' : graph) : Prop :=
  forall i, match g_blk g i with
            | None => g_blk g' i = None
            | Some b => exists b', g_blk g' i = Some b' /\ erel w ob b b'
            end.

Lemma grel_fwd w ob g g' p x : grel w ob g g' ->
  In x (out_of g p) -> In x (out_of g' p) \/ (x = w /\ In ob (out_of g' p)).
Proof.
  intros H I. specialize (H p). unfold out_of in *. destruct (g_blk g p) as [b|]; [|destruct I].
  destruct H as (b' & E & [F _]). rewrite E. exact (F x I).
Qed.

Lemma grel_bwd w ob g g' p x : grel w ob g g' ->
  In x (out_of g' p) -> In x (out_of g p) \/ x = ob.
Proof.
  intros H I. specialize (H p). unfold out_of in *. destruct (g_blk g p) as [b|].
  - destruct H as (b' & E & [_ B]). rewrite E in I. exact (B x I).
  - rewrite H in I. destruct I.
Qed.

Lemma grel_dom w ob g g' i : grel w ob g g' -> g_blk g i <> None -> g_blk g' i <> None.
Proof.
  intros H N. specialize (H i). destruct (g_blk g i) as [b|]; [|congruence].
  destruct H as (b' & E & _). rewrite E. discriminate.
Qed.

Definition rdx (w ob x : id) : id := if Nat.eqb x w then ob else x.

Lemma rdx_other w ob x : x <> w -> rdx w ob x = x.
Proof. intros H. unfold rdx. destruct (Nat.eqb_spec x w); [contradiction|reflexivity]. Qed.

Lemma rdx_new w ob : rdx w ob ob = ob.
Proof. unfold rdx. destruct (Nat.eqb_spec ob w); reflexivity. Qed.

(* paths survive, with w cut out *)
Lemma grel_reach w ob g g' s x : grel w ob g g' -> out_of g w = [ob] ->
  reach g s x -> reach g' (rdx w ob s) (rdx w ob x).
Proof.
  intros H O R. induction R as [|p x R IH Hx]; [apply reach_refl|].
  assert (Wob : In ob (out_of g' w)).
  { assert (I : In ob (out_of g w)) by (rewrite O; left; reflexivity).
    destruct (grel_fwd _ _ _ _ _ _ H I) as [K|[_ K]]; exact K. }
  destruct (Nat.eq_dec p w) as [Q|Q].
  - subst p. rewrite O in Hx. destruct Hx as [Hx|[]]. subst x. rewrite rdx_new.
    unfold rdx in IH. rewrite Nat.eqb_refl in IH. exact IH.
  - rewrite (rdx_other _ _ _ Q) in IH.
    destruct (grel_fwd _ _ _ _ _ _ H Hx) as [K|[K1 K2]].
    + destruct (Nat.eq_dec x w) as [Qx|Qx].
      * subst x. unfold rdx at 2. rewrite Nat.eqb_refl.
        eapply reach_step; [eapply reach_step; [exact IH|exact K]|exact Wob].
      * rewrite (rdx_other _ _ _ Qx). eapply reach_step; [exact IH|exact K].
    + subst x. unfold rdx at 2. rewrite Nat.eqb_refl. eapply reach_step; [exact IH|exact K2].
Qed.

(* every edge points to a defined block *)
Definition dclosed (g : graph) : Prop := forall p x, In x (out_of g p) -> g_blk g x <> None.

Lemma grel_dclosed w ob g g' : grel w ob g g' -> out_of g w = [ob] -> dclosed g -> dclosed g'.
Proof.
  intros H O D p x I.
  assert (Dob : g_blk g ob <> None) by (apply (D w); rewrite O; left; reflexivity).
  destruct (grel_bwd _ _ _ _ _ _ H I) as [K|K].
  - eapply grel_dom; [exact H|exact (D p x K)].
  - subst x. eapply grel_dom; eauto.
Qed.

(* ---- the two pass bodies ---- *)
Lemma body1_grel g s w g' s' :
  gbody1 replace_outgoing g s w = (g', s') ->
  (g' = g /\ s' = s) \/
  exists prev, out_of g prev = [w] /\ grel prev w g g' /\ s' = rdx prev w s.
Proof.
  intros E. apply gbody1_cases in E.
  destruct E as [[E1 E2]|(prev & bb & Hi & Ho & Hb & E1 & E2)]; [left; auto|]. right. subst g' s'.
  exists prev. split; [exact Ho|]. split.
  - intros i.
    pose proof (fold1_blk replace_outgoing replace_outgoing_esub prev w (g_inc g prev) (mg2 g w prev bb) i) as K.
    fold (mg3 replace_outgoing g w prev bb) in K.
    assert (B : g_blk (mg2 g w prev bb) i =
                if Nat.eqb i w then Some (set_ops bb (get_ops g prev ++ b_ops bb)) else g_blk g i) by reflexivity.
    rewrite B in K. destruct (Nat.eqb_spec i w) as [Q|Q].
    + subst i. rewrite Hb. destruct K as (b' & K1 & K2). exists b'. split; [exact K1|].
      eapply esub_erel; [|exact K2]. apply outgoing_set_ops.
    + destruct (g_blk g i) as [b|]; [|exact K].
      destruct K as (b' & K1 & K2). exists b'. split; [exact K1|eapply esub_erel; [reflexivity|exact K2]].
  - unfold ms, rdx. rewrite (Nat.eqb_sym s prev). reflexivity.
Qed.

Lemma body2_grel g s w g' s' :
  gbody2 replace_outgoing true true g s w = (g', s') ->
  (g' = g /\ s' = s) \/
  exists ob, out_of g w = [ob] /\ grel w ob g g' /\ s' = rdx w ob s.
Proof.
  intros E. apply gbody2_cases in E.
  destruct E as [[E1 E2]|(ob & Hg & Ho & Hs & E1 & E2)]; [left; auto|]. right. subst g' s'.
  exists ob. split; [exact Ho|]. split.
  - intros i.
    pose proof (fold2_blk replace_outgoing replace_outgoing_esub w ob (g_inc (bg1 g w ob) w) (bg1 g w ob) i) as K.
    fold (bg2 replace_outgoing g w ob) in K.
    change (g_blk (bg1 g w ob) i) with (g_blk g i) in K.
    destruct (g_blk g i) as [b|]; [|exact K].
    destruct K as (b' & K1 & K2). exists b'. split; [exact K1|eapply esub_erel; [reflexivity|exact K2]].
  - unfold bs, rdx. cbn [andb]. rewrite (Nat.eqb_sym s w). reflexivity.
Qed.

(* ---- the invariant ---- *)
Definition late_inv (en : id) (g : graph) (s : id) : Prop :=
  exits_at g en /\ reach g s en /\ dclosed g /\ g_blk g s <> None.

Lemma late_inv_step en w ob g g' s :
  out_of g w = [ob] -> grel w ob g g' -> exits_at g' en ->
  late_inv en g s -> late_inv en g' (rdx w ob s).
Proof.
  intros O H X' (X & R & D & Ds).
  assert (Ne : en <> w).
  { intros Q. subst w. destruct X as [_ (ops & Be)]. unfold out_of in O. rewrite Be in O. discriminate O. }
  split; [exact X'|]. split; [|split].
  - pose proof (grel_reach _ _ _ _ _ _ H O R) as K. rewrite (rdx_other _ _ _ Ne) in K. exact K.
  - eapply grel_dclosed; eauto.
  - unfold rdx. destruct (Nat.eqb_spec s w) as [Q|Q].
    + eapply grel_dom; [exact H|]. apply (D w). rewrite O. left. reflexivity.
    + eapply grel_dom; eauto.
Qed.

Theorem normalize_late_inv g s g' s' en :
  normalize g s = (g', s') -> late_inv en g s -> late_inv en g' s'.
Proof.
  intros E X. rewrite <- gnormalize_faithful in E. unfold gnormalize in E.
  destruct (norm_iter (gbody1 replace_outgoing) (S (g_next g)) g s [s] [s]) as [ga sa] eqn:E1.
  assert (A : late_inv en ga sa).
  { refine (norm_iter_inv (gbody1 replace_outgoing) (late_inv en) _ _ _ _ _ _ _ _ X E1).
    intros h t w h' t' Hh Eb.
    pose proof (body1_exits _ _ _ _ _ en Eb (proj1 Hh)) as X'.
    destruct (body1_grel _ _ _ _ _ Eb) as [[Q1 Q2]|(prev & O & G & Q)]; subst; [exact Hh|].
    eapply late_inv_step; eauto. }
  refine (norm_iter_inv (gbody2 replace_outgoing true true) (late_inv en) _ _ _ _ _ _ _ _ A E).
  intros h t w h' t' Hh Eb.
  pose proof (body2_exits _ _ _ _ _ _ _ en Eb (proj1 Hh)) as X'.
  destruct (body2_grel _ _ _ _ _ Eb) as [[Q1 Q2]|(ob & O & G & Q)]; subst; [exact Hh|].
  eapply late_inv_step; eauto.
Qed.

(* consequences used by the late passes *)
Lemma dclosed_reach_defined g s x : dclosed g -> g_blk g s <> None -> reach g s x -> g_blk g x <> None.
Proof. intros D Ds R. destruct R as [|p x R Hx]; [exact Ds|exact (D p x Hx)]. Qed.
