(* Proofs/StageECompose.v — stage E, part 3: from the source semantics to [Machine.run] on the parsed TEXT.
   Composition of: C01_routine_end_to_end_assigned (source semantics -> flattened, slot-assigned instruction
   list), the label prefixing of flattenSubroutines for a main-only program, the text round trip (StageEText)
   and the machine bridge (StageELink). *)
From Coq Require Import List Arith NArith Ascii String Bool Lia.
From PV Require Import Base.Bytes Base.Sexp AVM.Syntax AVM.Ops AVM.Machine AVM.Parse Src.Expr Src.Denote
  Comp.Blocks Comp.Lower Comp.Passes Comp.GraphSem Comp.LinearSem Comp.SimCheck Comp.Compile Comp.Assemble
  Proofs.LowerFrame Proofs.LowerCorrect Proofs.LowerShape Proofs.NormalizeLowered Proofs.FlattenCorrect Proofs.SortCorrect
  Proofs.EndToEndGlue Proofs.EndToEnd
  Proofs.SlotCompose Proofs.SlotComposeAssign Proofs.SlotComposeEnd Proofs.SlotComposeCover Proofs.SlotComposeFinal
  Proofs.C18Text Proofs.StageELink Proofs.StageEText.
Import ListNotations.
Local Open Scope list_scope.
Local Open Scope string_scope.

(* ---------------------------------------------------------------------------------------------- *)
(* 1. label prefixing (flattenSubroutines: main_ / <sub>_ in front of every label) is invisible       *)
(* ---------------------------------------------------------------------------------------------- *)
Definition pfx_arg (pre : string) (a : arg) : arg :=
  match a with ALbl l => ALbl (pre ++ l) | _ => a end.

Lemma prefix_labels_op pre i : prefix_labels pre (COp i) = COp (rewrite_instr (pfx_arg pre) i).
Proof. reflexivity. Qed.

Lemma eqb_prefix pre a b : String.eqb (pre ++ a) (pre ++ b) = String.eqb a b.
Proof. induction pre as [|c pre IH]; cbn; [reflexivity|]. now rewrite Ascii.eqb_refl. Qed.

Lemma find_label_prefix pre l : forall code,
  find_label (pre ++ l) (map (prefix_labels pre) code) = find_label l code.
Proof.
  induction code as [|c t IH]; [reflexivity|].
  destruct c as [i|l' cm|v]; cbn [map prefix_labels find_label]; rewrite ?IH; try reflexivity.
  rewrite eqb_prefix. reflexivity.
Qed.

(* label references occur only where the linear semantics looks for them *)
Definition not_lbl (a : arg) : bool := match a with ALbl _ => false | _ => true end.
Definition lbl_regular (i : instr) : bool :=
  match jump_of i with Some _ => true | None => forallb not_lbl (i_args i) end.

Lemma jump_of_rw pre i :
  jump_of (rewrite_instr (pfx_arg pre) i) =
  match jump_of i with Some (k, l) => Some (k, pre ++ l) | None => None end.
Proof.
  destruct i as [o args]. unfold jump_of. cbn [rewrite_instr i_op i_args].
  destruct o; try reflexivity; destruct args as [|[n|s|l|u|sb] [|a2 r]]; reflexivity.
Qed.

Lemma map_pfx_id pre args : forallb not_lbl args = true -> map (pfx_arg pre) args = args.
Proof.
  induction args as [|a t IH]; intros H; [reflexivity|].
  cbn [forallb] in H. apply andb_true_iff in H as [Ha Ht]. cbn [map]. rewrite IH by exact Ht.
  destruct a; try reflexivity. discriminate Ha.
Qed.

Lemma lbl_regular_rw pre i : lbl_regular (rewrite_instr (pfx_arg pre) i) = lbl_regular i.
Proof.
  unfold lbl_regular. rewrite jump_of_rw. destruct (jump_of i) as [[k l]|]; [reflexivity|].
  cbn [rewrite_instr i_args]. induction (i_args i) as [|a t IH]; [reflexivity|].
  cbn [map forallb]. rewrite IH. destruct a; reflexivity.
Qed.

Lemma lstep_prefix env pre code :
  (forall i, In (COp i) code -> lbl_regular i = true) ->
  forall c, lstep env (map (prefix_labels pre) code) c = lstep env code c.
Proof.
  intros Reg c. destruct c as [pc stk st| | | | |]; try reflexivity.
  cbn [lstep]. rewrite nth_error_map.
  destruct (nth_error code pc) as [[i|l cm|v]|] eqn:En; cbn [option_map]; try reflexivity.
  rewrite prefix_labels_op. f_equal. specialize (Reg i (nth_error_In _ _ En)).
  unfold lstep_op. cbn [rewrite_instr i_op]. rewrite jump_of_rw.
  unfold lbl_regular in Reg.
  destruct (jump_of i) as [[k l]|] eqn:Ej.
  - unfold goto. rewrite find_label_prefix. reflexivity.
  - cbn [rewrite_instr i_args]. rewrite (map_pfx_id pre _ Reg). reflexivity.
Qed.

Lemma lstar_prefix env pre code :
  (forall i, In (COp i) code -> lbl_regular i = true) ->
  forall c c', lstar env (map (prefix_labels pre) code) c c' <-> lstar env code c c'.
Proof.
  intros Reg c c'. split; intros H.
  - induction H as [c|c c1 c2 S1 _ IH]; [apply lstar_refl|].
    rewrite (lstep_prefix env pre code Reg) in S1. eapply lstar_step; [exact S1|exact IH].
  - induction H as [c|c c1 c2 S1 _ IH]; [apply lstar_refl|].
    rewrite <- (lstep_prefix env pre code Reg) in S1. eapply lstar_step; [exact S1|exact IH].
Qed.

(* a pragma in front shifts every position by one *)
Lemma find_label_pragma v l code : find_label l (CPragma v :: code) = option_map S (find_label l code).
Proof. reflexivity. Qed.

Definition shift (c : lconf) : lconf := match c with LAt pc stk st => LAt (S pc) stk st | other => other end.

Lemma lstep_pragma env v code c :
  lstep env (CPragma v :: code) (shift c) = option_map shift (lstep env code c).
Proof.
  destruct c as [pc stk st| | | | |]; try reflexivity.
  cbn [shift lstep nth_error].
  destruct (nth_error code pc) as [[i|l cm|vv]|]; cbn [option_map shift]; try reflexivity.
  f_equal. unfold lstep_op.
  destruct (is_return (i_op i)); [destruct stk; reflexivity|].
  destruct (is_retsub (i_op i)); [reflexivity|].
  destruct (jump_of i) as [[[| |] l]|].
  - unfold goto. rewrite find_label_pragma. destruct (find_label l code); reflexivity.
  - destruct stk as [|x s']; [reflexivity|]. destruct (truthy x) as [[|]|]; try reflexivity.
    unfold goto. rewrite find_label_pragma. destruct (find_label l code); reflexivity.
  - destruct stk as [|x s']; [reflexivity|]. destruct (truthy x) as [[|]|]; try reflexivity.
    unfold goto. rewrite find_label_pragma. destruct (find_label l code); reflexivity.
  - destruct (do_op env (i_op i) (i_args i) stk st); reflexivity.
Qed.

Lemma lstar_pragma env v code c c' :
  lstar env code c c' -> lstar env (CPragma v :: code) (shift c) (shift c').
Proof.
  induction 1 as [c|c c1 c2 S1 _ IH]; [apply lstar_refl|].
  eapply lstar_step; [|exact IH]. rewrite lstep_pragma, S1. reflexivity.
Qed.

Lemma lstar_pragma_inv env v code : forall d d', lstar env (CPragma v :: code) d d' ->
  forall c, d = shift c -> exists c', d' = shift c' /\ lstar env code c c'.
Proof.
  induction 1 as [d|d d1 d2 S1 _ IH]; intros c E.
  - exists c. split; [exact E|apply lstar_refl].
  - subst d. rewrite lstep_pragma in S1. destruct (lstep env code c) as [c1|] eqn:E1; [|discriminate S1].
    injection S1 as <-. destruct (IH c1 eq_refl) as (c' & E' & H'). exists c'. split; [exact E'|].
    eapply lstar_step; [exact E1|exact H'].
Qed.

(* the components compile_components returns for a main-only program whose routine flattens to [code] *)
Definition main_comps (version : N) (code : list comp) : list comp :=
  CPragma version :: map (prefix_labels "main_") code.

Lemma main_comps_run env version code :
  (forall i, In (COp i) code -> lbl_regular i = true) ->
  forall stk st h, lfinal h = true -> lstar env code (LAt 0 stk st) h ->
    lstar env (main_comps version code) (LAt 0 stk st) h.
Proof.
  intros Reg stk st h F H. unfold main_comps.
  eapply lstar_step; [reflexivity|].
  apply (lstar_prefix env "main_" code Reg) in H.
  apply (lstar_pragma env version) in H. cbn [shift] in H.
  replace (shift h) with h in H by (destruct h; try reflexivity; discriminate F). exact H.
Qed.

Lemma main_comps_bounded env version code :
  (forall i, In (COp i) code -> lbl_regular i = true) ->
  forall stk st, stack_bounded env code (LAt 0 stk st) ->
    stack_bounded env (main_comps version code) (LAt 0 stk st).
Proof.
  intros Reg stk st B pc stk' st' H. unfold main_comps in H.
  remember (LAt 0 stk st) as c0 eqn:E0. remember (LAt pc stk' st') as c1 eqn:E1.
  destruct H as [c|c cm c2 S1 H'].
  - subst c. injection E1 as E1a E1b E1c. subst. apply (B 0 stk' st'). apply lstar_refl.
  - subst c c2. cbn in S1. injection S1 as <-.
    destruct (lstar_pragma_inv env version _ _ _ H' (LAt 0 stk st) eq_refl) as (c' & E & Hc).
    apply (lstar_prefix env "main_" code Reg) in Hc.
    destruct c' as [pc2 stk2 st2| | | | |]; try discriminate E. injection E as E2a E2b E2c. subst.
    exact (B pc2 stk2 st2 Hc).
Qed.

(* ---------------------------------------------------------------------------------------------- *)
(* 2. facts about printable code and about what flattenBlocks emits                                 *)
(* ---------------------------------------------------------------------------------------------- *)
Lemma jump_of_nonbranch o args : is_branch o = false -> jump_of (mkI o args) = None.
Proof. unfold jump_of. cbn [i_op i_args]. destruct o; intros H; try discriminate H; reflexivity. Qed.

Lemma kind_nonbranch o : kind_of o <> KBranch -> is_branch o = false.
Proof. destruct o; intros H; try reflexivity; exfalso; apply H; reflexivity. Qed.

Lemma printable_regular msel i : printable_instr msel i = true -> lbl_regular i = true.
Proof.
  destruct i as [o args]. unfold printable_instr, lbl_regular. cbn [i_op i_args].
  destruct (kind_of o) eqn:K; intros H;
    try (rewrite (jump_of_nonbranch o args (kind_nonbranch o ltac:(rewrite K; discriminate)))).
  - revert H. apply forallb_impl. intros [n|s|l|u|sb] Ha; try discriminate Ha; reflexivity.
  - destruct args as [|[n|s|l|u|sb] [|a2 r]]; try discriminate H; reflexivity.
  - destruct args as [|[n|s|l|u|sb] [|a2 r]]; try discriminate H; reflexivity.
  - destruct args as [|[n|s|l|u|sb] [|a2 r]]; try discriminate H; reflexivity.
  - destruct args as [|[n|s|l|u|sb] [|a2 r]]; try discriminate H; reflexivity.
  - destruct args as [|[n|s|l|u|sb] [|a2 r]]; try discriminate H.
    + unfold jump_of. cbn [i_op i_args]. destruct o; reflexivity.
    + apply andb_true_iff in H as [_ Hb]. unfold jump_of. cbn [i_op i_args].
      destruct o; try discriminate Hb; reflexivity.
  - discriminate H.
  - revert H. apply forallb_impl. intros [n|s|l|u|sb] Ha; try discriminate Ha; reflexivity.
Qed.

Lemma printable_code_regular msel pre code :
  printable msel (map (prefix_labels pre) code) = true ->
  forall i, In (COp i) code -> lbl_regular i = true.
Proof.
  intros H i Hin. unfold printable in H. rewrite forallb_forall in H.
  specialize (H (prefix_labels pre (COp i)) (in_map _ _ _ Hin)). rewrite prefix_labels_op in H.
  cbn [printable_comp] in H. apply printable_regular in H. rewrite lbl_regular_rw in H. exact H.
Qed.

(* labels *)
Lemma labels_of_app a b : labels_of (a ++ b)%list = (labels_of a ++ labels_of b)%list.
Proof.
  induction a as [|c a IH]; [reflexivity|]. destruct c as [i|l cm|v]; cbn [app labels_of]; rewrite IH; reflexivity.
Qed.

Lemma labels_of_ops code : labels_of (map COp code) = [].
Proof. induction code as [|i t IH]; [reflexivity|]. exact IH. Qed.

Lemma labels_of_In l : forall code, In l (labels_of code) -> exists c, In (CLabel l c) code.
Proof.
  induction code as [|c t IH]; intros H; [destruct H|].
  destruct c as [i|l' cm|v]; cbn [labels_of] in H.
  - destruct (IH H) as [c Hc]. exists c. right. exact Hc.
  - destruct H as [->|H]; [exists cm; left; reflexivity|]. destruct (IH H) as [c Hc]. exists c. right. exact Hc.
  - destruct (IH H) as [c Hc]. exists c. right. exact Hc.
Qed.

Lemma emit_labels_nodup codes refs : forall i, NoDup (labels_of (flatten_emit codes refs i)).
Proof.
  induction codes as [|code t IH]; intros i; [constructor|].
  rewrite emit_cons, !labels_of_app, labels_of_ops, app_nil_r.
  unfold lab. destruct (mem_nat i refs); [|exact (IH (S i))].
  cbn [labels_of app]. constructor; [|exact (IH (S i))].
  intros Hin. destruct (labels_of_In _ _ Hin) as [c Hc].
  destruct (emit_labels t refs (S i) _ c Hc) as (k & Hk & E). apply label_of_inj in E. lia.
Qed.

Lemma flatten_labels_nodup g blocks code : flatten_blocks g blocks = Some code -> NoDup (labels_of code).
Proof.
  unfold flatten_blocks. destruct (flatten_collect g blocks 0 blocks) as [[codes refs]|]; [|discriminate].
  intros E. injection E as <-. apply emit_labels_nodup.
Qed.

Lemma labels_of_prefix pre code : labels_of (map (prefix_labels pre) code) = map (append pre) (labels_of code).
Proof.
  induction code as [|c t IH]; [reflexivity|].
  destruct c as [i|l cm|v]; cbn [map prefix_labels labels_of]; rewrite IH; reflexivity.
Qed.

Lemma append_inj pre a b : (pre ++ a)%string = (pre ++ b)%string -> a = b.
Proof. intros H. apply String.eqb_eq. rewrite <- (eqb_prefix pre). apply String.eqb_eq. exact H. Qed.

Lemma nodup_map_inj {A B} (f : A -> B) : (forall a b, f a = f b -> a = b) ->
  forall l, NoDup l -> NoDup (map f l).
Proof.
  intros Inj l H. induction H as [|x l Hx _ IH]; cbn [map]; constructor; [|exact IH].
  intros Hin. apply in_map_iff in Hin as (y & E & Hy). apply Inj in E. subst y. exact (Hx Hy).
Qed.

Lemma main_comps_nodup version code : NoDup (labels_of code) -> NoDup (labels_of (main_comps version code)).
Proof.
  intros H. unfold main_comps. cbn [labels_of]. rewrite labels_of_prefix.
  apply nodup_map_inj; [apply append_inj|exact H].
Qed.

(* pragmas *)
Definition no_pragma (code : list comp) : bool :=
  forallb (fun c => match c with CPragma _ => false | _ => true end) code.

Lemma emit_no_pragma codes refs : forall i, no_pragma (flatten_emit codes refs i) = true.
Proof.
  induction codes as [|code t IH]; intros i; [reflexivity|].
  rewrite emit_cons. unfold no_pragma. rewrite !forallb_app. fold (no_pragma (flatten_emit t refs (S i))). rewrite IH.
  unfold lab. destruct (mem_nat i refs); cbn [forallb andb];
    (rewrite andb_true_r; induction code as [|x r IHr]; [reflexivity|exact IHr]).
Qed.

Lemma flatten_no_pragma g blocks code : flatten_blocks g blocks = Some code -> no_pragma code = true.
Proof.
  unfold flatten_blocks. destruct (flatten_collect g blocks 0 blocks) as [[codes refs]|]; [|discriminate].
  intros E. injection E as <-. apply emit_no_pragma.
Qed.

Lemma prefix_no_pragma pre code : no_pragma code = true -> no_pragma (map (prefix_labels pre) code) = true.
Proof.
  unfold no_pragma. induction code as [|c t IH]; [reflexivity|]. cbn [map forallb].
  intros H. apply andb_true_iff in H as [Hc Ht]. rewrite (IH Ht). destruct c; try discriminate Hc; reflexivity.
Qed.

Lemma build_prog_version msel : forall code ss pc ver acc labels P,
  stmts_of msel code = Some ss -> no_pragma code = true ->
  build_prog ss pc ver acc labels = Some P -> pr_version P = ver.
Proof.
  induction code as [|c t IH]; intros ss pc ver acc labels P HS N B.
  - injection HS as <-. cbn in B. injection B as <-. reflexivity.
  - cbn [stmts_of] in HS.
    destruct (stmt_of msel c) as [s1|] eqn:E1; [|discriminate HS].
    destruct (stmts_of msel t) as [r|] eqn:Et; [|discriminate HS].
    injection HS as <-. unfold no_pragma in N. cbn [forallb] in N. apply andb_true_iff in N as [Nc Nt].
    destruct c as [i|l cm|v]; cbn [stmt_of] in E1; try discriminate Nc.
    + destruct (is_comment (i_op i)).
      * injection E1 as <-. exact (IH r _ _ _ _ _ eq_refl Nt B).
      * destruct (imms_of_args msel (i_op i) (i_args i)); [|discriminate E1]. injection E1 as <-.
        cbn [app build_prog] in B. exact (IH r _ _ _ _ _ eq_refl Nt B).
    + injection E1 as <-. cbn [app build_prog] in B.
      destruct (alookup String.eqb l labels); [discriminate B|]. exact (IH r _ _ _ _ _ eq_refl Nt B).
Qed.

Lemma main_comps_version msel version code P :
  no_pragma code = true -> link msel (main_comps version code) = Some P -> pr_version P = version.
Proof.
  intros N L. unfold link, main_comps in L. cbn [stmts_of stmt_of] in L.
  destruct (stmts_of msel (map (prefix_labels "main_") code)) as [ss|] eqn:HS; [|discriminate L].
  cbn [app build_prog] in L.
  exact (build_prog_version msel _ ss _ _ _ _ P HS (prefix_no_pragma _ _ N) L).
Qed.

(* ---------------------------------------------------------------------------------------------- *)
(* 3. list -> text -> machine, for any printable main routine                                       *)
(* ---------------------------------------------------------------------------------------------- *)

(* From a halting run of the flattened list of a main routine to the verdict of Machine.run on the program
   the assembler reads from the printed text. *)
Theorem main_text_runs msel version code :
  let comps := main_comps version code in
  NoDup (labels_of code) -> no_pragma code = true ->
  printable msel comps = true -> targets_ok comps = true ->
  exists lines P,
    assemble_all comps = Some lines /\
    parse_program msel (program_text lines) = Some P /\ link msel comps = Some P /\ pr_version P = version /\
    forall env, e_msel env = msel ->
    forall st h v,
      lstar env code (LAt 0 [] st) h -> verdict_of h = Some v ->
      stack_bounded env code (LAt 0 [] st) ->
      exists n m', (forall k, n <= k -> run k (e_ctx env) P (init_mach st) = (v, m')) /\ final_ok h m'.
Proof.
  intros comps ND NP PR TG.
  destruct (lines_roundtrip msel comps PR) as (lines & lss & ss & A & _ & _ & _ & _ & HS & _).
  destruct (link_total msel comps ss HS (main_comps_nodup version code ND)) as [P LK].
  exists lines, P. split; [exact A|].
  assert (TL : parse_program msel (program_text lines) = link msel comps).
  { apply text_links; [exact PR|discriminate|exact A]. }
  split; [rewrite TL; exact LK|]. split; [exact LK|].
  split; [exact (main_comps_version msel version code P NP LK)|].
  intros env Em st h v H V B.
  assert (Reg : forall i, In (COp i) code -> lbl_regular i = true).
  { apply (printable_code_regular msel "main_"). unfold comps, main_comps, printable in PR. cbn [forallb] in PR. exact PR. }
  assert (F : lfinal h = true) by (destruct h; try reflexivity; discriminate V).
  subst msel.
  exact (machine_bridge_init env comps P LK TG st h v (main_comps_run env version code Reg [] st h F H) V
           (main_comps_bounded env version code Reg [] st B)).
Qed.

(* the verdict a source outcome stands for: what Machine.run must answer *)
Definition verdict_of_dout (r : dout) : option verdict :=
  match halt_of r with Some h => verdict_of h | None => None end.

Lemma verdict_of_dout_spec :
  (forall n st, verdict_of_dout (DExit (VI n) st) = Some (if (n =? 0)%N then VReject else VApprove)) /\
  (forall b st, verdict_of_dout (DExit (VB b) st) = Some VFail) /\
  verdict_of_dout DFail = Some VFail /\
  (forall s st, verdict_of_dout (DRet s st) = Some VFail) /\
  (forall s st, verdict_of_dout (DNorm s st) = Some (end_verdict s)) /\
  (forall s st, verdict_of_dout (DEnd s st) = Some (end_verdict s)) /\
  verdict_of_dout DFuel = None /\ (forall o, verdict_of_dout (DUnsup o) = None).
Proof. repeat split. Qed.

(* the machine state at the verdict carries the state the source semantics ends in *)
Definition state_ok (r : dout) (m : mach) : Prop :=
  match r with
  | DExit v st => m_st m = st /\ hd_error (m_stack m) = Some v
  | DNorm s st | DBrk s st | DCont s st | DEnd s st | DRet s st => m_st m = st /\ m_stack m = s
  | _ => True
  end.

(* THE composition: source semantics -> text -> Machine.run, main routine of a main-only program *)
Theorem routine_text_end_to_end o ast0 cr p crs crs' locals asg msel :
  compile_one o None ast0 = COk cr ->
  head_loop (root_ast ast0) = false ->
  In cr crs ->
  assign_slots p crs = COk (crs', locals, asg) ->
  requested_valid p (all_slots crs) ->
  let cr' := rw_routine (look_of asg) cr in
  forall order code,
  sort_blocks (cr_graph cr') (cr_start cr') (cr_end cr') = Some order ->
  flatten_blocks (cr_graph cr') order = Some code ->
  let comps := main_comps (o_version o) code in
  printable msel comps = true -> targets_ok comps = true ->
  exists lines P,
    assemble_all comps = Some lines /\
    parse_program msel (program_text lines) = Some P /\ pr_version P = o_version o /\
    forall env, consistent env (routine_ctx o None) -> e_msel env = msel ->
    forall fuel st v,
      let r := denote (with_asg env (look_of asg)) fuel (root_ast ast0) [] st in
      verdict_of_dout r = Some v ->
      stack_bounded env code (LAt 0 [] st) ->
      exists n m', (forall k, n <= k -> run k (e_ctx env) P (init_mach st) = (v, m')) /\ state_ok r m'.
Proof.
  intros E HL Hin HA HV cr' order code HS HF comps PR TG.
  destruct (routine_end_to_end_assigned o None ast0 cr p crs crs' locals asg eq_refl E HL Hin HA HV) as [_ T].
  destruct (T order code HS HF) as (_ & _ & T').
  destruct (main_text_runs msel (o_version o) code (flatten_labels_nodup _ _ _ HF) (flatten_no_pragma _ _ _ HF) PR TG)
    as (lines & P & A & PP & _ & PV & Run).
  exists lines, P. split; [exact A|]. split; [exact PP|]. split; [exact PV|].
  intros env Hc Em fuel st v r V B.
  unfold verdict_of_dout in V. destruct (halt_of r) as [h|] eqn:Hh; [|discriminate V].
  destruct (T' env Hc fuel [] st h Hh) as [H _].
  destruct (Run env Em st h v H V B) as (n & m' & Hrun & Hfin).
  exists n, m'. split; [exact Hrun|].
  destruct r; cbn in Hh; try discriminate Hh; injection Hh as <-; exact Hfin.
Qed.
