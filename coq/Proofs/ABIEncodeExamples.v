(* Proofs/ABIEncodeExamples.v — non-vacuity: the hypotheses of the C06 theorems are satisfiable on nested
   shapes, and every outcome (bytes / rejected at construction / fails at run time) occurs. *)
From Coq Require Import List Arith NArith ZArith Ascii String Bool Lia.
From PV Require Import Base.Bytes Base.Sexp ABI.Types ABI.Spec ABI.Encode
  Proofs.ABIEncodeTuple Proofs.ABIEncodeSet.
Import ListNotations.
Local Open Scope N_scope.

Definition hex (s : string) : bytes := match bytes_of_hex s with Some b => b | None => [] end.
Definition txt (s : string) : bytes := bytes_of_string s.

(* (bool,uint16,string,bool,bool): a bool, then a static member, a dynamic one, then a run of two bools *)
Definition T1 : ty := TTuple None [TBool; TUint 16; TString; TBool; TBool].
Definition S1 : src := SMembers [SBoolLit true; SIntExpr 5; SBytesExpr (txt "hello"); SIntExpr 7; SBoolLit false].

Example ex1_hyps : pyteal_ty T1 = true /\ src_wf S1 = true /\
                   denote T1 S1 = Some (VList [VBool true; VUint 5; VBytes (txt "hello"); VBool true; VBool false]).
Proof. vm_compute. repeat split. Qed.

Example ex1_bytes : set_outcome None T1 S1 = OBytes (hex "800005000680000568656c6c6f")
                    /\ set_outcome (Some 4096) T1 S1 = OBytes (hex "800005000680000568656c6c6f").
Proof. vm_compute. split; reflexivity. Qed.

(* bool[]: eleven bools, two bytes, preceded by the element count *)
Definition T2 : ty := TDynArray TBool.
Definition S2 : src := SMembers (repeat (SBoolLit true) 9 ++ [SIntExpr 0; SCopy (SIntExpr 7)]).

Example ex2_hyps : pyteal_ty T2 = true /\ src_wf S2 = true /\
                   denote T2 S2 = Some (VList (repeat (VBool true) 9 ++ [VBool false; VBool true])).
Proof. vm_compute. repeat split. Qed.

Example ex2_bytes : set_outcome None T2 S2 = OBytes (hex "000bffa0").
Proof. vm_compute. reflexivity. Qed.

(* (string,uint8[2])[]: dynamic elements inside a dynamic array: two levels of offsets *)
Definition T3 : ty := TDynArray (TTuple None [TString; TStaticArray (TUint 8) 2]).
Definition S3 : src :=
  SMembers [SMembers [SBytesLit (txt "ab"); SMembers [SInt 1; SIntExpr 2]];
            SMembers [SBytesExpr (txt "cde"); SMembers [SInt 255; SIntExpr 0]]].

Example ex3_hyps : pyteal_ty T3 = true /\ src_wf S3 = true /\
                   match denote T3 S3 with Some v => val_has_type T3 v | None => false end = true.
Proof. vm_compute. repeat split. Qed.

Example ex3_bytes : set_outcome None T3 S3 = OBytes (hex "00020004000c00040102000261620004ff000003636465").
Proof. vm_compute. reflexivity. Qed.

(* ---- the three ways of not getting bytes ---- *)
(* a Python int that does not fit: rejected at construction *)
Example ex_reject_int : set_outcome None (TUint 8) (SInt 256) = OReject
                        /\ set_outcome None (TUint 8) (SInt (-1)) = OReject
                        /\ set_outcome None (TUint 64) (SInt 18446744073709551616) = OReject
                        /\ set_outcome None (TUint 64) (SInt 18446744073709551615) = OBytes (hex "ffffffffffffffff").
Proof. repeat match goal with |- _ /\ _ => split end; vm_compute; reflexivity. Qed.

(* an expression that does not fit: the program fails; uint64 has no check and needs none *)
Example ex_fail_expr : set_outcome None (TUint 8) (SIntExpr 256) = OFail
                       /\ set_outcome None (TUint 16) (SIntExpr 65536) = OFail
                       /\ set_outcome None (TUint 32) (SIntExpr 4294967296) = OFail
                       /\ set_outcome None (TUint 16) (SIntExpr 65535) = OBytes (hex "ffff")
                       /\ set_outcome None (TUint 64) (SIntExpr 18446744073709551615) = OBytes (hex "ffffffffffffffff").
Proof. repeat match goal with |- _ /\ _ => split end; vm_compute; reflexivity. Qed.

(* boolean observers, so that the 64 KiB values below never appear in a goal *)
Definition is_reject (o : outcome) : bool := match o with OReject => true | _ => false end.
Definition is_fail (o : outcome) : bool := match o with OFail => true | _ => false end.
Definition spec_has_no_encoding (t : ty) (s : src) : bool :=
  match denote t s with
  | Some v => match arc4_encode t v with None => true | Some _ => false end
  | None => false
  end.
Definition bytes_start_with (o : outcome) (p : bytes) : bool :=
  match o with OBytes b => bytes_eqb (firstn (List.length p) b) p | _ => false end.

(* the first tail offset (= the head length, a Python int put into a Uint16) does not fit: rejected *)
Definition T4 : ty := TTuple None [TStaticBytes 65534; TString].
Definition S4 : src := SMembers [SBytesLit (repeat zero (N.to_nat 65534)); SBytesLit []].
Example ex_reject_head :
  is_reject (set_outcome None T4 S4) && spec_has_no_encoding T4 S4 && pyteal_ty T4 && src_wf S4 = true.
Proof. vm_compute. reflexivity. Qed.

(* a later tail offset does not fit: the range assert on tail_offset_accumulator fails at run time
   (idealised machine; on the AVM the 4096-byte cap of concat strikes long before) *)
Definition T5 : ty := TTuple None [TString; TString].
Definition S5 : src := SMembers [SBytesLit (repeat zero (N.to_nat 65530)); SBytesLit []].
Example ex_fail_offset :
  is_fail (set_outcome None T5 S5) && set_ok T5 S5 && spec_has_no_encoding T5 S5 && src_wf S5 = true.
Proof. vm_compute. reflexivity. Qed.
(* ... and one byte less fits: offsets 4 and 65535 *)
Definition S5' : src := SMembers [SBytesLit (repeat zero (N.to_nat 65529)); SBytesLit []].
Example ex_ok_offset : bytes_start_with (set_outcome None T5 S5') (hex "0004ffff") = true.
Proof. vm_compute. reflexivity. Qed.

(* encode_tuple_correct's hypothesis [Forall2 rep] on a concrete member list *)
Example ex_rep : Forall2 rep [(TBool, sb true); (TUint 16, SI 5); (TString, SB (hex "000568656c6c6f"))]
                             [EB true; ES (hex "0005"); ED (hex "000568656c6c6f")].
Proof.
  repeat constructor.
Qed.
