(* Proofs/ItxnCorrect.v — C14: the recorded inner group of InnerTxnBuilder.MethodCall against the ARC-4
   client convention ([valid_call] of Router/Itxn.v): correctness up to 15 non-transaction arguments,
   the type gate, the index rules, and the refutation beyond 15 (no tuple packing). *)
From Coq Require Import List Arith NArith Ascii String Bool Lia.
From PV Require Import Base.Bytes Base.Sexp AVM.Syntax ABI.Types ABI.Spec ABI.Layout ABI.Descr ABI.Assignable
  Router.Args Proofs.AssignableProof Router.Itxn Proofs.ItxnWalk.
Import ListNotations.
Local Open Scope string_scope.
Local Open Scope list_scope.

(* ------------------------------------------------------------------------------------------ *)
(* reading the recorded values                                                                  *)
(* ------------------------------------------------------------------------------------------ *)
Lemma all_bytes_map : forall l, all_bytes (map VB l) = Some l.
Proof. induction l as [|b r IH]; cbn; [reflexivity | rewrite IH; reflexivity]. Qed.

Lemma all_uints_map : forall l, all_uints_v (map VI l) = Some l.
Proof. induction l as [|b r IH]; cbn; [reflexivity | rewrite IH; reflexivity]. Qed.

Lemma all_bytes_app_inv : forall l rest out,
  all_bytes (map VB l ++ rest) = Some out -> exists s, out = l ++ s.
Proof.
  induction l as [|b r IH]; intros rest out H; cbn in *.
  - exists out. reflexivity.
  - destruct (all_bytes (map VB r ++ rest)) as [o|] eqn:E; [|discriminate].
    inversion H. destruct (IH rest o E) as [s ->]. exists s. reflexivity.
Qed.

Lemma all_uints_app_inv : forall l rest out,
  all_uints_v (map VI l ++ rest) = Some out -> exists s, out = l ++ s.
Proof.
  induction l as [|b r IH]; intros rest out H; cbn in *.
  - exists out. reflexivity.
  - destruct (all_uints_v (map VI r ++ rest)) as [o|] eqn:E; [|discriminate].
    inversion H. destruct (IH rest o E) as [s ->]. exists s. reflexivity.
Qed.

(* ------------------------------------------------------------------------------------------ *)
(* MethodCall, taken apart                                                                      *)
(* ------------------------------------------------------------------------------------------ *)
Definition id_fields (idf : itx) : Prop := idf = [] \/ exists v, idf = [("ApplicationID", v)].

Lemma method_call_inv : forall sel s app_id args extra grp,
  method_call sel s app_id args extra = Ok grp ->
  exists idf st ex,
    id_fields idf /\
    List.length args = List.length (s_params s) /\
    walk (s_params s) args acc0 = Ok st /\
    set_fields extra = Ok ex /\
    grp = a_txns st ++ [app_call_fields sel s idf st ++ ex].
Proof.
  intros sel s app_id args extra grp H. unfold method_call in H.
  apply rbind_ok in H. destruct H as [idf [Hid H]].
  destruct (negb (sig_in_domain s)); [discriminate|].
  destruct (negb (sdk_parses s)); [discriminate|].
  destruct (negb (pyteal_supports s)); [discriminate|].
  destruct (Nat.eqb_spec (List.length args) (List.length (s_params s))) as [Hlen|]; [|discriminate].
  cbn [negb] in H.
  apply rbind_ok in H. destruct H as [st [Hw H]].
  apply rbind_ok in H. destruct H as [ex [Hex H]]. inversion H.
  exists idf, st, ex. repeat split; try assumption.
  destruct app_id as [|e|]; cbn in Hid.
  - inversion Hid. left. reflexivity.
  - destruct (require_ok (x_type e) T_uint); [|discriminate]. inversion Hid. right. eexists. reflexivity.
  - discriminate.
Qed.

Lemma extra_keys : forall extra ex f,
  set_fields extra = Ok ex -> ~ In f (map fst extra) -> Forall (fun kv => fst kv <> f) ex.
Proof.
  intros extra ex f H Hn. apply set_fields_keys in H. eapply Forall_impl; [|exact H].
  intros kv Hin Heq. cbn beta in Hin. rewrite Heq in Hin. contradiction.
Qed.

Lemma extra_ok_keys : forall extra,
  extra_ok extra = true ->
  ~ In "ApplicationArgs" (map fst extra) /\ ~ In "TypeEnum" (map fst extra) /\ ~ In "ApplicationID" (map fst extra).
Proof.
  induction extra as [|[f v] r IH]; intros H; cbn in *.
  - repeat split; intros [].
  - apply andb_true_iff in H. destruct H as [H1 H2]. destruct (IH H2) as [I1 [I2 I3]].
    apply negb_true_iff in H1. apply orb_false_iff in H1. destruct H1 as [H1 H1c].
    apply orb_false_iff in H1. destruct H1 as [H1a H1b].
    repeat split; intros [Heq|Hin]; try contradiction; subst f;
      rewrite String.eqb_refl in *; discriminate.
Qed.

Lemma id_fields_absent : forall idf f, id_fields idf -> f <> "ApplicationID" -> Forall (fun kv => fst kv <> f) idf.
Proof.
  intros idf f [->|[v ->]] Hf; repeat constructor. cbn. congruence.
Qed.

Lemma fields_of_absent : forall f g vs, f <> g -> Forall (fun kv => fst kv <> f) (fields_of g vs).
Proof.
  intros f g vs H. unfold fields_of. apply Forall_forall. intros kv Hin.
  apply in_map_iff in Hin. destruct Hin as [y [Hy _]]. subst kv. cbn. congruence.
Qed.

(* the arrays of the application-call transaction *)
Lemma call_arrays : forall sel s idf st ex,
  id_fields idf ->
  let x := app_call_fields sel s idf st ++ ex in
  arr_of "ApplicationArgs" x = (VB (sel (arc4_sig_str s)) :: a_args st) ++ arr_of "ApplicationArgs" ex /\
  arr_of "Accounts" x = a_accts st ++ arr_of "Accounts" ex /\
  arr_of "Applications" x = a_apps st ++ arr_of "Applications" ex /\
  arr_of "Assets" x = a_assets st ++ arr_of "Assets" ex.
Proof.
  intros sel s idf st ex Hid x. subst x. unfold app_call_fields.
  repeat rewrite arr_of_app.
  rewrite !arr_of_fields_same.
  rewrite !(arr_of_absent _ idf) by (apply id_fields_absent; [exact Hid | discriminate]).
  repeat (rewrite arr_of_fields_other by discriminate).
  cbn. rewrite !app_nil_r. repeat split; reflexivity.
Qed.

Lemma call_type_enum : forall sel s idf st ex,
  id_fields idf -> Forall (fun kv => fst kv <> "TypeEnum") ex ->
  last_field "TypeEnum" (app_call_fields sel s idf st ++ ex) = Some (VI 6).
Proof.
  intros sel s idf st ex Hid Hex. unfold app_call_fields.
  rewrite <- !app_assoc. rewrite last_field_app.
  rewrite last_field_absent; [reflexivity|].
  repeat (apply Forall_app; split); try exact Hex;
    try (apply fields_of_absent; discriminate).
  apply id_fields_absent; [exact Hid | discriminate].
Qed.

(* ------------------------------------------------------------------------------------------ *)
(* MAIN: up to 15 non-transaction arguments                                                     *)
(* ------------------------------------------------------------------------------------------ *)
Theorem method_call_correct_le15 :
  forall (selector_of : string -> bytes) (s : msig) (app_id : aid) (args : list iarg) (extra : fdict)
         (grp : list itx) (ks : list karg) (sender : bytes) (callee : N),
    method_call selector_of s app_id args extra = Ok grp ->
    denotes (s_params s) args ks ->
    (count_nontxn (s_params s) <= 15)%nat ->
    extra_ok extra = true ->
    let pre := ktxns (combine (s_params s) ks) in
    exists calltx,
      grp = pre ++ [calltx] /\
      last_field "TypeEnum" calltx = Some (VI 6) /\
      forall c, observe pre calltx = Some c ->
                valid_call (selector_of (arc4_sig_str s)) sender callee s ks c.
Proof.
  intros sel s app_id args extra grp ks sender callee Hmc Hden Hle Hex pre.
  destruct (method_call_inv _ _ _ _ _ _ Hmc) as [idf [st [ex [Hid [Hlen [Hw [Hset ->]]]]]]].
  destruct (denotes_length _ _ _ Hden) as [_ Hlk].
  destruct (walk_denotes _ _ _ Hden _ _ Hw) as [w [encs [Hwire [Henc [Ha [Ht [Hac [Hap [Has [Hb Hk]]]]]]]]]].
  cbn [acc0 a_args a_txns a_accts a_apps a_assets List.length app] in *.
  destruct (extra_ok_keys _ Hex) as [K1 [K2 K3]].
  exists (app_call_fields sel s idf st ++ ex).
  split; [rewrite Ht; reflexivity|].
  split; [apply call_type_enum; [exact Hid | eapply extra_keys; eassumption]|].
  intros c Hobs. unfold observe in Hobs.
  destruct (call_arrays sel s idf st ex Hid) as [A1 [A2 [A3 A4]]].
  rewrite A1, A2, A3, A4 in Hobs.
  rewrite (arr_of_absent "ApplicationArgs" ex) in Hobs by (eapply extra_keys; eassumption).
  rewrite app_nil_r, Ha, Hac, Hap, Has in Hobs.
  change (VB (sel (arc4_sig_str s)) :: map VB encs) with (map VB (sel (arc4_sig_str s) :: encs)) in Hobs.
  rewrite all_bytes_map in Hobs.
  destruct (all_bytes (map VB (kaccts (combine (s_params s) ks)) ++ arr_of "Accounts" ex)) as [oa|] eqn:EA; [|discriminate].
  destruct (all_uints_v (map VI (kassets (combine (s_params s) ks)) ++ arr_of "Assets" ex)) as [os|] eqn:ES; [|discriminate].
  destruct (all_uints_v (map VI (kapps (combine (s_params s) ks)) ++ arr_of "Applications" ex)) as [op|] eqn:EP; [|discriminate].
  inversion Hobs. subst c. clear Hobs.
  destruct (all_bytes_app_inv _ _ _ EA) as [sA ->].
  destruct (all_uints_app_inv _ _ _ ES) as [sC ->].
  destruct (all_uints_app_inv _ _ _ EP) as [sB ->].
  split; [symmetry; exact Hlk|].
  exists (ref_idxs 0 0 0 (s_params s)), w, encs.
  split; [exact Hwire|]. split.
  - pose proof (refs_resolve_idxs sender callee
        (mkICall (sel (arc4_sig_str s) :: encs)
                 (kaccts (combine (s_params s) ks) ++ sA) (kassets (combine (s_params s) ks) ++ sC)
                 (kapps (combine (s_params s) ks) ++ sB) pre)
        (combine (s_params s) ks) [] [] [] sA sB sC Hk eq_refl eq_refl eq_refl) as R.
    cbn [List.length] in R. rewrite (map_fst_combine _ _ Hlk) in R. exact R.
  - split; [|split; reflexivity].
    rewrite pack_le15; [exact Henc|].
    rewrite (wire_length _ _ _ Hwire). rewrite (map_fst_combine _ _ Hlk). exact Hle.
Qed.

(* the call can be read back whenever extra_fields adds no ill-typed foreign entries — in particular
   when it does not touch the foreign arrays at all *)
Definition extra_plain (extra : fdict) : bool :=
  extra_ok extra &&
  forallb (fun kv => negb (String.eqb (fst kv) "Accounts" || String.eqb (fst kv) "Assets"
                           || String.eqb (fst kv) "Applications")) extra.

Lemma extra_plain_keys : forall extra,
  extra_plain extra = true ->
  extra_ok extra = true /\ ~ In "Accounts" (map fst extra) /\ ~ In "Assets" (map fst extra)
  /\ ~ In "Applications" (map fst extra).
Proof.
  unfold extra_plain. intros extra H. apply andb_true_iff in H. destruct H as [H0 H]. split; [exact H0|].
  clear H0. induction extra as [|[f v] r IH]; cbn in *.
  - repeat split; intros [].
  - apply andb_true_iff in H. destruct H as [H1 H2]. destruct (IH H2) as [I1 [I2 I3]].
    apply negb_true_iff in H1. apply orb_false_iff in H1. destruct H1 as [H1 H1c].
    apply orb_false_iff in H1. destruct H1 as [H1a H1b].
    repeat split; intros [Heq|Hin]; try contradiction; subst f;
      rewrite String.eqb_refl in *; discriminate.
Qed.

Theorem method_call_observable :
  forall (selector_of : string -> bytes) s app_id args extra grp ks,
    method_call selector_of s app_id args extra = Ok grp ->
    denotes (s_params s) args ks ->
    extra_plain extra = true ->
    exists calltx c, grp = ktxns (combine (s_params s) ks) ++ [calltx] /\
                     observe (ktxns (combine (s_params s) ks)) calltx = Some c.
Proof.
  intros sel s app_id args extra grp ks Hmc Hden Hex.
  destruct (extra_plain_keys _ Hex) as [Hok [P1 [P2 P3]]].
  destruct (extra_ok_keys _ Hok) as [K1 [K2 K3]].
  destruct (method_call_inv _ _ _ _ _ _ Hmc) as [idf [st [ex [Hid [Hlen [Hw [Hset ->]]]]]]].
  destruct (walk_denotes _ _ _ Hden _ _ Hw) as [w [encs [Hwire [Henc [Ha [Ht [Hac [Hap [Has [Hb Hk]]]]]]]]]].
  cbn [acc0 a_args a_txns a_accts a_apps a_assets List.length app] in *.
  eexists. eexists. split; [rewrite Ht; reflexivity|].
  unfold observe. destruct (call_arrays sel s idf st ex Hid) as [A1 [A2 [A3 A4]]].
  rewrite A1, A2, A3, A4.
  rewrite (arr_of_absent "ApplicationArgs" ex) by (eapply extra_keys; eassumption).
  rewrite (arr_of_absent "Accounts" ex) by (eapply extra_keys; eassumption).
  rewrite (arr_of_absent "Assets" ex) by (eapply extra_keys; eassumption).
  rewrite (arr_of_absent "Applications" ex) by (eapply extra_keys; eassumption).
  rewrite !app_nil_r, Ha, Hac, Hap, Has.
  change (VB (sel (arc4_sig_str s)) :: map VB encs) with (map VB (sel (arc4_sig_str s) :: encs)).
  rewrite !all_bytes_map, !all_uints_map. reflexivity.
Qed.

(* ------------------------------------------------------------------------------------------ *)
(* the type gate                                                                                *)
(* ------------------------------------------------------------------------------------------ *)
Lemma walk_nth : forall ps args st st',
  walk ps args st = Ok st' ->
  forall i t a, nth_error ps i = Some t -> nth_error args i = Some a ->
  exists st1 st2, step t a st1 = Ok st2.
Proof.
  induction ps as [|p pr IH]; intros [|a0 ar] st st' H i t a Hp Ha; destruct i; cbn in *; try discriminate.
  - inversion Hp. inversion Ha. subst. apply rbind_ok in H. destruct H as [st1 [Hs _]]. eauto.
  - apply rbind_ok in H. destruct H as [st1 [_ Hw]]. eapply IH; eassumption.
Qed.

Lemma step_abi_accepts : forall t a v st st',
  step t (IAbi a v) st = Ok st' ->
  is_txn_ty t = false /\ is_ref_ty t = false /\ assignable a t = true /\
  exists bs, arc4_encode a v = Some bs /\ st' = push_arg st (VB bs).
Proof.
  intros t a v st st' H.
  assert (P : step_plain t (IAbi a v) st = Ok st' ->
              assignable a t = true /\ exists bs, arc4_encode a v = Some bs /\ st' = push_arg st (VB bs)).
  { cbn [step_plain]. intros Hp. destruct (assignable a t); [|discriminate].
    destruct (arc4_encode a v) as [bs|]; [|discriminate]. inversion Hp. eauto. }
  destruct t as [| | | | | | | | | | k|k]; cbn [step] in H;
    try (destruct (P H) as [Q1 Q2]; repeat split; solve [reflexivity | assumption]).
  - cbn in H. discriminate.
  - destruct k; cbn [step_ref ref_value rbind] in H; try discriminate.
    destruct (index_byte (List.length (a_assets st))); cbn in H; discriminate.
Qed.

Theorem method_call_gate :
  forall (selector_of : string -> bytes) s app_id args extra grp i t a v,
    method_call selector_of s app_id args extra = Ok grp ->
    nth_error (s_params s) i = Some t -> nth_error args i = Some (IAbi a v) ->
    is_txn_ty t = false /\ is_ref_ty t = false /\
    assignable a t = true /\ canon a = canon t /\
    exists bs, arc4_encode a v = Some bs /\ arc4_encode t v = Some bs /\ val_has_type t v = true.
Proof.
  intros sel s app_id args extra grp i t a v Hmc Hp Ha.
  destruct (method_call_inv _ _ _ _ _ _ Hmc) as [idf [st [ex [_ [_ [Hw _]]]]]].
  destruct (walk_nth _ _ _ _ Hw i t _ Hp Ha) as [st1 [st2 Hs]].
  destruct (step_abi_accepts _ _ _ _ _ Hs) as [H1 [H2 [H3 [bs [H4 _]]]]].
  repeat split; try assumption.
  - apply assignable_same_layout. exact H3.
  - exists bs. destruct (admitted_bytes_valid_for_target a t v bs H3 H4) as [E1 E2]. auto.
Qed.

Theorem method_call_rejects_unassignable :
  forall (selector_of : string -> bytes) s app_id args extra i t a v,
    nth_error (s_params s) i = Some t -> nth_error args i = Some (IAbi a v) ->
    assignable a t = false ->
    exists e, method_call selector_of s app_id args extra = Err e.
Proof.
  intros sel s app_id args extra i t a v Hp Ha Hn.
  destruct (method_call sel s app_id args extra) as [grp|e] eqn:E; [|eauto].
  destruct (method_call_gate _ _ _ _ _ _ _ _ _ _ E Hp Ha) as [_ [_ [H _]]]. congruence.
Qed.

(* ------------------------------------------------------------------------------------------ *)
(* the index rules                                                                              *)
(* ------------------------------------------------------------------------------------------ *)
Lemma walk_app : forall ps1 as1 ps2 as2 st,
  List.length as1 = List.length ps1 ->
  walk (ps1 ++ ps2) (as1 ++ as2) st = rbind (walk ps1 as1 st) (walk ps2 as2).
Proof.
  induction ps1 as [|p r IH]; intros [|a ar] ps2 as2 st H; cbn in *; try discriminate.
  - destruct ps2, as2; reflexivity.
  - destruct (step p a st) as [st1|e]; cbn; [|reflexivity]. apply IH. congruence.
Qed.

(* one accepted argument: which accumulators grow, by what *)
Definition grows (st st' : acc) (dargs daccts dapps dassets : list value) : Prop :=
  a_args st' = a_args st ++ dargs /\ a_accts st' = a_accts st ++ daccts /\
  a_apps st' = a_apps st ++ dapps /\ a_assets st' = a_assets st ++ dassets.

Definition foreign_of (k : ref_kind) (st : acc) : list value :=
  match k with RAccount => a_accts st | RAsset => a_assets st | RApplication => a_apps st end.

Definition pyteal_index (k : ref_kind) (before : nat) : nat :=
  match k with RAsset => before | _ => S before end.

Lemma step_ref_grows : forall k a st st',
  step (TRef k) a st = Ok st' ->
  exists v, ref_value k a = Ok v /\
    a_args st' = a_args st ++ [VB [n2b (N.of_nat (pyteal_index k (List.length (foreign_of k st))))]] /\
    foreign_of k st' = foreign_of k st ++ [v] /\
    (forall k', k' <> k -> foreign_of k' st' = foreign_of k' st).
Proof.
  intros k a st st' H. cbn [step] in H. destruct k; cbn [step_ref] in H.
  - apply rbind_ok in H. destruct H as [v [Hv H]]. apply rbind_ok in H. destruct H as [b [Hb H]].
    apply index_byte_ok in Hb. destruct Hb as [_ ->]. inversion H. subst st'. clear H.
    exists v. cbn. rewrite app_length, Nat.add_1_r. repeat split; try assumption.
    intros k' Hk. destruct k'; try contradiction; reflexivity.
  - apply rbind_ok in H. destruct H as [b [Hb H]]. apply rbind_ok in H. destruct H as [v [Hv H]].
    apply index_byte_ok in Hb. destruct Hb as [_ ->]. inversion H. subst st'. clear H.
    exists v. cbn. repeat split; try assumption.
    intros k' Hk. destruct k'; try contradiction; reflexivity.
  - apply rbind_ok in H. destruct H as [v [Hv H]]. apply rbind_ok in H. destruct H as [b [Hb H]].
    apply index_byte_ok in Hb. destruct Hb as [_ ->]. inversion H. subst st'. clear H.
    exists v. cbn. rewrite app_length, Nat.add_1_r. repeat split; try assumption.
    intros k' Hk. destruct k'; try contradiction; reflexivity.
Qed.

Lemma step_plain_grows : forall t a st st',
  is_txn_ty t = false -> is_ref_ty t = false -> step t a st = Ok st' ->
  exists x, a_args st' = a_args st ++ [x] /\ forall k, foreign_of k st' = foreign_of k st.
Proof.
  intros t a st st' H1 H2 H. rewrite step_plain_eq in H by assumption.
  destruct a as [e|sp v|k rv|fs|]; cbn [step_plain] in H; try discriminate.
  - destruct (require_ok (x_type e) T_bytes); [|discriminate]. inversion H. subst st'.
    eexists. split; [reflexivity|]. intros []; reflexivity.
  - destruct (assignable sp t); [|discriminate]. destruct (arc4_encode sp v); [|discriminate].
    inversion H. subst st'. eexists. split; [reflexivity|]. intros []; reflexivity.
  - destruct (assignable (TRef k) t); discriminate.
Qed.

Lemma step_txn_grows : forall k a st st',
  step (TTxn k) a st = Ok st' -> a_args st' = a_args st /\ forall k', foreign_of k' st' = foreign_of k' st.
Proof.
  intros k a st st' H. cbn [step] in H. unfold step_txn in H.
  destruct a as [| | |fs|]; try discriminate.
  destruct (assoc_str "TypeEnum" fs) as [[e| | |]|]; try discriminate.
  destruct e as [|name]; [discriminate|].
  destruct (spec_of_enum_name name); [|discriminate].
  destruct (assignable _ _); [|discriminate].
  apply rbind_ok in H. destruct H as [x [_ H]]. inversion H. subst st'. cbn.
  split; [reflexivity|]. intros []; reflexivity.
Qed.

(* the loop: lengths of what was appended *)
Lemma walk_counts : forall ps args st st',
  List.length args = List.length ps -> walk ps args st = Ok st' ->
  (exists d, a_args st' = a_args st ++ d /\ List.length d = count_nontxn ps) /\
  (forall k, exists d, foreign_of k st' = foreign_of k st ++ d /\ List.length d = count_ref k ps).
Proof.
  unfold count_nontxn, count_ref.
  induction ps as [|t pr IH]; intros [|a ar] st st' Hl H; cbn in Hl; try discriminate.
  - cbn in H. inversion H. split; [exists []|intros k; exists []]; rewrite app_nil_r; auto.
  - cbn [walk] in H. apply rbind_ok in H. destruct H as [st1 [Hs Hw]].
    assert (Hl' : List.length ar = List.length pr) by congruence.
    destruct (IH ar st1 st' Hl' Hw) as [[d [Hd Hdl]] Hf]. clear IH.
    destruct (is_txn_ty t) eqn:Et; [|destruct (is_ref_ty t) eqn:Er].
    + destruct t; try discriminate Et.
      destruct (step_txn_grows _ _ _ _ Hs) as [Hx Hk]. split.
      * exists d. rewrite Hd, Hx. split; [reflexivity | exact Hdl].
      * intros k0. destruct (Hf k0) as [d0 [Hd0 Hl0]]. exists d0. rewrite Hd0, Hk. split; [reflexivity | exact Hl0].
    + destruct t as [| | | | | | | | | | |k]; try discriminate Er.
      destruct (step_ref_grows _ _ _ _ Hs) as [v [_ [Hx [Hk Hother]]]]. split.
      * eexists. rewrite Hd, Hx, <- app_assoc. split; [reflexivity|]. cbn. f_equal. exact Hdl.
      * intros k0. destruct (Hf k0) as [d0 [Hd0 Hl0]].
        destruct (ref_kind_eqb k k0) eqn:E.
        -- assert (k0 = k) by (destruct k, k0; try discriminate; reflexivity). subst k0.
           exists (v :: d0). rewrite Hd0, Hk, <- app_assoc. split; [reflexivity|].
           cbn [filter]. rewrite E. cbn. f_equal. exact Hl0.
        -- assert (k0 <> k) by (intros ->; destruct k; discriminate).
           exists d0. rewrite Hd0, (Hother k0) by assumption. split; [reflexivity|].
           cbn [filter]. rewrite E. exact Hl0.
    + destruct (step_plain_grows _ _ _ _ Et Er Hs) as [x [Hx Hk]]. split.
      * exists (x :: d). rewrite Hd, Hx, <- app_assoc. split; [reflexivity|].
        cbn [filter]. unfold not_txn_ty at 1. rewrite Et. cbn. f_equal. exact Hdl.
      * intros k0. destruct (Hf k0) as [d0 [Hd0 Hl0]]. exists d0. rewrite Hd0, Hk. split; [reflexivity|].
        cbn [filter].
        replace (match t with TRef k' => ref_kind_eqb k' k0 | _ => false end) with false
          by (destruct t; try reflexivity; discriminate Er).
        exact Hl0.
Qed.

Lemma walk_prefix : forall ps args st st',
  List.length args = List.length ps -> walk ps args st = Ok st' ->
  (exists d, a_args st' = a_args st ++ d) /\ (forall k, exists d, foreign_of k st' = foreign_of k st ++ d).
Proof.
  intros ps args st st' Hl H. destruct (walk_counts _ _ _ _ Hl H) as [[d [Hd _]] Hf].
  split; [eauto|]. intros k. destruct (Hf k) as [d0 [Hd0 _]]. eauto.
Qed.

Theorem reference_index_rules_walk :
  forall ps1 k ps2 as1 a as2 st,
    List.length as1 = List.length ps1 -> List.length as2 = List.length ps2 ->
    walk (ps1 ++ TRef k :: ps2) (as1 ++ a :: as2) acc0 = Ok st ->
    exists v, ref_value k a = Ok v /\
      nth_error (a_args st) (count_nontxn ps1)
        = Some (VB [n2b (N.of_nat (pyteal_index k (count_ref k ps1)))]) /\
      nth_error (foreign_of k st) (count_ref k ps1) = Some v.
Proof.
  intros ps1 k ps2 as1 a as2 st H1 H2 Hw.
  rewrite walk_app in Hw by exact H1. apply rbind_ok in Hw. destruct Hw as [st1 [Hw1 Hw]].
  cbn [walk] in Hw. apply rbind_ok in Hw. destruct Hw as [st2 [Hs Hw2]].
  destruct (walk_counts _ _ _ _ H1 Hw1) as [[d1 [Hd1 Hl1]] Hf1].
  destruct (Hf1 k) as [f1 [Hf1k Hlf1]]. cbn in Hd1.
  assert (Hf1k' : foreign_of k st1 = f1) by (rewrite Hf1k; destruct k; reflexivity).
  destruct (step_ref_grows _ _ _ _ Hs) as [v [Hv [Hx [Hk _]]]].
  destruct (walk_prefix _ _ _ _ H2 Hw2) as [[d2 Hd2] Hf2]. destruct (Hf2 k) as [f2 Hf2k].
  exists v. split; [exact Hv|]. split.
  - rewrite Hd2, Hx, Hd1, Hf1k', Hlf1. rewrite <- app_assoc. rewrite nth_error_app2 by lia.
    rewrite Hl1, Nat.sub_diag. reflexivity.
  - rewrite Hf2k, Hk, Hf1k'. rewrite <- app_assoc. rewrite nth_error_app2 by lia.
    rewrite Hlf1, Nat.sub_diag. reflexivity.
Qed.

Definition array_name (k : ref_kind) : string :=
  match k with RAccount => "Accounts" | RAsset => "Assets" | RApplication => "Applications" end.

Theorem reference_index_rules :
  forall (selector_of : string -> bytes) s app_id args extra grp ps1 k ps2 as1 a as2,
    method_call selector_of s app_id args extra = Ok grp ->
    s_params s = ps1 ++ TRef k :: ps2 -> args = as1 ++ a :: as2 -> List.length as1 = List.length ps1 ->
    exists pre calltx v,
      grp = pre ++ [calltx] /\ ref_value k a = Ok v /\
      nth_error (arr_of "ApplicationArgs" calltx) (S (count_nontxn ps1))
        = Some (VB [n2b (N.of_nat (pyteal_index k (count_ref k ps1)))]) /\
      nth_error (arr_of (array_name k) calltx) (count_ref k ps1) = Some v.
Proof.
  intros sel s app_id args extra grp ps1 k ps2 as1 a as2 Hmc Hps Hargs Hl1.
  destruct (method_call_inv _ _ _ _ _ _ Hmc) as [idf [st [ex [Hid [Hlen [Hw [Hset ->]]]]]]].
  rewrite Hps, Hargs in Hw, Hlen.
  assert (Hl2 : List.length as2 = List.length ps2).
  { rewrite !app_length in Hlen. cbn in Hlen. lia. }
  destruct (reference_index_rules_walk _ _ _ _ _ _ _ Hl1 Hl2 Hw) as [v [Hv [Ha Hf]]].
  exists (a_txns st), (app_call_fields sel s idf st ++ ex), v.
  split; [reflexivity|]. split; [exact Hv|].
  destruct (call_arrays sel s idf st ex Hid) as [A1 [A2 [A3 A4]]].
  split.
  - rewrite A1. rewrite nth_error_app1.
    + cbn [nth_error]. exact Ha.
    + cbn [List.length]. apply -> Nat.succ_lt_mono. apply nth_error_Some. rewrite Ha. discriminate.
  - destruct k; cbn [array_name foreign_of] in *.
    + rewrite A2. rewrite nth_error_app1; [exact Hf|]. apply nth_error_Some. rewrite Hf. discriminate.
    + rewrite A4. rewrite nth_error_app1; [exact Hf|]. apply nth_error_Some. rewrite Hf. discriminate.
    + rewrite A3. rewrite nth_error_app1; [exact Hf|]. apply nth_error_Some. rewrite Hf. discriminate.
Qed.

(* ------------------------------------------------------------------------------------------ *)
(* beyond 15 arguments                                                                          *)
(* ------------------------------------------------------------------------------------------ *)
Theorem valid_call_at_most_16_args :
  forall sel sender callee s ks c, valid_call sel sender callee s ks c -> (List.length (ic_args c) <= 16)%nat.
Proof.
  intros sel sender callee s ks c [_ [idxs [w [bs [_ [_ [Hp [Ha _]]]]]]]].
  rewrite Ha. cbn. apply pack_length in Hp. lia.
Qed.

Definition s16 : msig := mkSig "f" (repeat (TUint 64) 16) None.
Definition vals16 : list N := map N.of_nat (seq 0 16).
Definition args16 : list iarg := map (fun n => IAbi (TUint 64) (VUint n)) vals16.
Definition ks16 : list karg := map (fun n => KVal (VUint n)) vals16.

Theorem method_call_gt15_refuted :
  forall (selector_of : string -> bytes) (sender : bytes) (callee : N),
    exists grp calltx c,
      method_call selector_of s16 (AidExpr (XE T_uint (VI 1))) args16 [] = Ok grp /\
      denotes (s_params s16) args16 ks16 /\
      grp = ktxns (combine (s_params s16) ks16) ++ [calltx] /\
      observe (ktxns (combine (s_params s16) ks16)) calltx = Some c /\
      List.length (ic_args c) = 17%nat /\
      ~ valid_call (selector_of (arc4_sig_str s16)) sender callee s16 ks16 c.
Proof.
  intros sel sender callee.
  eexists. eexists. eexists.
  split; [vm_compute; reflexivity|].
  split; [repeat (constructor; try reflexivity)|].
  split; [vm_compute; reflexivity|].
  split; [vm_compute; reflexivity|].
  split; [reflexivity|].
  intros H. apply valid_call_at_most_16_args in H. cbn in H. lia.
Qed.

(* what ARC-4 prescribes for the same sixteen values: selector + 14 single encodings + ONE tuple *)
Example arc4_packs_sixteen :
  exists bs, pack (map (fun n => (TUint 64, VUint n)) vals16) = Some bs /\ List.length bs = 15%nat /\
             nth_error bs 14 = Some (be_encode 8 14 ++ be_encode 8 15).
Proof. eexists. vm_compute. repeat split; reflexivity. Qed.
