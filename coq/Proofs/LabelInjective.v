(* Proofs/LabelInjective.v — C04: the labels PyTeal writes into a program are pairwise distinct.

   Naming (pyteal/compiler/flatten.py flattenBlocks + flattenSubroutines, subroutines.py
   resolveSubroutines; modelled in Comp/Passes.v [label_of], Comp/Compile.v [sanitize],
   [flatten_subroutines]):
     - the i-th subroutine (index i in the order of subroutine ids) gets the label
           sanitize(name) ++ "_" ++ decimal(i)         sanitize = delete every char outside [A-Za-z0-9]
     - block k of the main routine gets   "main_" ++ "l" ++ decimal(k)
     - block k of subroutine i gets       sanitize(name) ++ "_" ++ decimal(i) ++ "_" ++ "l" ++ decimal(k)
   Theorem [label_injective]: two labels with the same text have the same (routine index, block index)
   — whatever the subroutine names are (a subroutine called "main", an empty sanitised name, names that
   differ only in deleted characters, names ending in digits, ...).  The proof only uses: a sanitised
   name contains no underscore; a decimal numeral is a non-empty string of digits; the numeral of a
   number determines the number. *)
From Coq Require Import List Arith NArith Ascii String Bool Lia.
From PV Require Import Base.Bytes Base.Sexp AVM.Syntax Comp.Passes Comp.Compile.
Import ListNotations.
Local Open Scope string_scope.

Inductive lab : Type :=
| LMain (k : nat)                                  (* block k of the main routine *)
| LEntry (name : string) (idx : N)                 (* entry label of subroutine number idx *)
| LInner (name : string) (idx : N) (k : nat).      (* block k of subroutine number idx *)

Definition sub_label (name : string) (idx : N) : string := sanitize name ++ "_" ++ N_to_dec idx.

Definition label_text (l : lab) : string :=
  match l with
  | LMain k => "main_" ++ label_of k
  | LEntry n i => sub_label n i
  | LInner n i k => (sub_label n i ++ "_") ++ label_of k
  end.

(* what a label denotes: (routine: None = main / Some idx, block: None = the entry label itself) *)
Definition lab_key (l : lab) : option N * option nat :=
  match l with
  | LMain k => (None, Some k)
  | LEntry _ i => (Some i, None)
  | LInner _ i k => (Some i, Some k)
  end.

(* ---- strings as character lists ---- *)
Definition L (s : string) : list ascii := list_ascii_of_string s.

Lemma L_app a b : L (a ++ b) = (L a ++ L b)%list.
Proof. induction a as [|c a IH]; cbn; [reflexivity|]. unfold L in IH. now rewrite IH. Qed.

Lemma L_inj a b : L a = L b -> a = b.
Proof.
  intros H. rewrite <- (string_of_list_ascii_of_string a), <- (string_of_list_ascii_of_string b).
  unfold L in H. now rewrite H.
Qed.

Definition us : ascii := "_"%char.
Definition no_us (l : list ascii) : Prop := Forall (fun c => c <> us) l.

Lemma split_at_us : forall a b x y, no_us a -> no_us b ->
  (a ++ us :: x = b ++ us :: y)%list -> a = b /\ x = y.
Proof.
  induction a as [|c a IH]; intros b x y Ha Hb H.
  - destruct b as [|d b]; cbn in H.
    + injection H as ->. auto.
    + injection H as Hd _. inversion Hb as [|? ? Hne _]; subst. congruence.
  - destruct b as [|d b]; cbn in H.
    + injection H as Hc _. inversion Ha as [|? ? Hne _]; subst. congruence.
    + injection H as -> H. inversion Ha; inversion Hb; subst.
      destruct (IH b x y) as [-> ->]; auto.
Qed.

(* ---- sanitised names ---- *)
Lemma is_alnum_not_us c : is_alnum c = true -> c <> us.
Proof. intros H ->. vm_compute in H. discriminate. Qed.

Lemma sanitize_no_us n : no_us (L (sanitize n)).
Proof.
  unfold sanitize, L. rewrite list_ascii_of_string_of_list_ascii.
  apply Forall_forall. intros c Hc. apply filter_In in Hc. apply is_alnum_not_us. tauto.
Qed.

(* ---- decimal numerals ---- *)
Definition is_digit (c : ascii) : bool := ((48 <=? N_of_ascii c) && (N_of_ascii c <=? 57))%N.

Lemma dec_digits_digits f : forall n acc, Forall (fun c => is_digit c = true) acc ->
  Forall (fun c => is_digit c = true) (dec_digits f n acc).
Proof.
  induction f as [|f IH]; intros n acc H; cbn [dec_digits]; [exact H|].
  assert (Hd : is_digit (ascii_of_N (48 + n mod 10)) = true).
  { unfold is_digit. pose proof (N.mod_lt n 10 ltac:(lia)) as Hm. remember (n mod 10)%N as d.
    rewrite N_ascii_embedding by lia. apply andb_true_intro; split; apply N.leb_le; lia. }
  destruct (n <? 10)%N; [constructor; assumption|]. apply IH. constructor; assumption.
Qed.

Lemma dec_digits_nonempty f : forall n acc, acc <> [] -> dec_digits f n acc <> [].
Proof.
  induction f as [|f IH]; intros n acc H; cbn [dec_digits]; [exact H|].
  destruct (n <? 10)%N; [discriminate|]. apply IH. discriminate.
Qed.

Lemma dec_acc_digit d acc a : (d < 10)%N ->
  dec_acc (ascii_of_N (48 + d) :: acc) a = dec_acc acc (a * 10 + d)%N.
Proof.
  intros H. cbn [dec_acc]. rewrite N_ascii_embedding by lia.
  replace (48 <=? 48 + d)%N with true by (symmetry; apply N.leb_le; lia).
  replace (48 + d <=? 57)%N with true by (symmetry; apply N.leb_le; lia).
  cbn [andb]. f_equal. lia.
Qed.

Lemma dec_digits_value f : forall n acc, (n < 10 * 2 ^ N.of_nat f)%N ->
  dec_acc (dec_digits (S f) n acc) 0 = dec_acc acc n.
Proof.
  induction f as [|f IH]; intros n acc H.
  - change (2 ^ N.of_nat 0)%N with 1%N in H. cbn [dec_digits].
    destruct (N.ltb_spec n 10) as [Hlt|Hge]; [|lia].
    rewrite N.mod_small by lia. now rewrite dec_acc_digit by lia.
  - change (dec_digits (S (S f)) n acc) with
      (if (n <? 10)%N then ascii_of_N (48 + n mod 10) :: acc
       else dec_digits (S f) (n / 10) (ascii_of_N (48 + n mod 10) :: acc)).
    destruct (N.ltb_spec n 10) as [Hlt|Hge].
    + rewrite N.mod_small by lia. now rewrite dec_acc_digit by lia.
    + rewrite IH.
      * pose proof (N.mod_lt n 10 ltac:(lia)). rewrite dec_acc_digit by lia.
        f_equal. rewrite N.mul_comm. symmetry. apply N.div_mod. lia.
      * rewrite Nat2N.inj_succ, N.pow_succ_r' in H.
        apply N.div_lt_upper_bound; lia.
Qed.

Lemma N_of_dec_to_dec n : N_of_dec (N_to_dec n) = Some n.
Proof.
  unfold N_of_dec, N_to_dec. rewrite list_ascii_of_string_of_list_ascii.
  set (f := N.to_nat (N.size n)).
  assert (Hne : dec_digits (S f) n [] <> []).
  { cbn [dec_digits]. destruct (n <? 10)%N; [discriminate|]. apply dec_digits_nonempty. discriminate. }
  destruct (dec_digits (S f) n []) as [|c t] eqn:E; [congruence|]. rewrite <- E.
  rewrite dec_digits_value; [reflexivity|].
  unfold f. rewrite N2Nat.id. pose proof (N.size_gt n). lia.
Qed.

Lemma N_to_dec_inj a b : N_to_dec a = N_to_dec b -> a = b.
Proof.
  intros H. pose proof (N_of_dec_to_dec a) as Ha. rewrite H, N_of_dec_to_dec in Ha. congruence.
Qed.

Lemma dec_chars n : Forall (fun c => is_digit c = true) (L (N_to_dec n)).
Proof.
  unfold N_to_dec, L. rewrite list_ascii_of_string_of_list_ascii. apply dec_digits_digits. constructor.
Qed.

Lemma dec_nonempty n : L (N_to_dec n) <> [].
Proof.
  unfold N_to_dec, L. rewrite list_ascii_of_string_of_list_ascii. cbn [dec_digits].
  destruct (n <? 10)%N; [discriminate|]. apply dec_digits_nonempty. discriminate.
Qed.

Lemma digit_not_us c : is_digit c = true -> c <> us.
Proof. intros H ->. vm_compute in H. discriminate. Qed.

Lemma digit_not_l c : is_digit c = true -> c <> "l"%char.
Proof. intros H ->. vm_compute in H. discriminate. Qed.

Lemma dec_no_us n : no_us (L (N_to_dec n)).
Proof. eapply Forall_impl; [|apply dec_chars]. intros c. apply digit_not_us. Qed.

(* a numeral starts with a digit *)
Lemma dec_head n : exists c t, L (N_to_dec n) = c :: t /\ is_digit c = true.
Proof.
  pose proof (dec_chars n) as H. pose proof (dec_nonempty n) as Hne.
  destruct (L (N_to_dec n)) as [|c t]; [congruence|]. exists c, t. split; [reflexivity|].
  now inversion H.
Qed.

(* ---- the character lists of the three kinds of labels ---- *)
Definition lbl (k : nat) : list ascii := "l"%char :: L (N_to_dec (N.of_nat k)).

Lemma L_label_of k : L (label_of k) = lbl k.
Proof. unfold label_of. rewrite L_app. reflexivity. Qed.

Lemma L_sub_label n i : L (sub_label n i) = (L (sanitize n) ++ us :: L (N_to_dec i))%list.
Proof. unfold sub_label. rewrite !L_app. reflexivity. Qed.

Lemma L_main k : L (label_text (LMain k)) = (L "main" ++ us :: lbl k)%list.
Proof. cbn [label_text]. rewrite L_app, L_label_of. reflexivity. Qed.

Lemma L_entry n i : L (label_text (LEntry n i)) = (L (sanitize n) ++ us :: L (N_to_dec i))%list.
Proof. apply L_sub_label. Qed.

Lemma L_inner n i k :
  L (label_text (LInner n i k)) = (L (sanitize n) ++ us :: (L (N_to_dec i) ++ us :: lbl k))%list.
Proof.
  cbn [label_text]. rewrite !L_app, L_sub_label, L_label_of.
  rewrite <- !app_assoc. reflexivity.
Qed.

Lemma main_no_us : no_us (L "main").
Proof. repeat constructor; intros H; vm_compute in H; discriminate. Qed.

Lemma lbl_inj a b : lbl a = lbl b -> a = b.
Proof.
  unfold lbl. intros H. injection H as H. apply L_inj in H. apply N_to_dec_inj in H. lia.
Qed.

(* a numeral is neither "l..." nor contains an underscore *)
Lemma dec_not_lbl i k : L (N_to_dec i) <> lbl k.
Proof.
  intros H. destruct (dec_head i) as [c [t [E Hd]]]. rewrite E in H. unfold lbl in H.
  injection H as -> _. now apply digit_not_l in Hd.
Qed.

Lemma dec_not_with_us i j x : L (N_to_dec i) <> (L (N_to_dec j) ++ us :: x)%list.
Proof.
  intros H. pose proof (dec_no_us i) as Hn. rewrite H in Hn.
  apply Forall_app in Hn. destruct Hn as [_ Hn]. inversion Hn as [|? ? Hne _]; subst. congruence.
Qed.

Lemma lbl_not_dec_us k j x : lbl k <> (L (N_to_dec j) ++ us :: x)%list.
Proof.
  intros H. destruct (dec_head j) as [c [t [E Hd]]]. rewrite E in H. unfold lbl in H. cbn in H.
  injection H as <- _. now apply digit_not_l in Hd.
Qed.

Lemma label_injective_lemma a b : label_text a = label_text b -> lab_key a = lab_key b.
Proof.
  intros H. apply (f_equal L) in H.
  destruct a as [k1|n1 i1|n1 i1 k1], b as [k2|n2 i2|n2 i2 k2];
    rewrite ?L_main, ?L_entry, ?L_inner in H; cbn [lab_key].
  - apply split_at_us in H; try apply main_no_us. destruct H as [_ H]. apply lbl_inj in H. now subst.
  - apply split_at_us in H; [|apply main_no_us|apply sanitize_no_us]. destruct H as [_ H].
    symmetry in H. now apply dec_not_lbl in H.
  - apply split_at_us in H; [|apply main_no_us|apply sanitize_no_us]. destruct H as [_ H].
    now apply lbl_not_dec_us in H.
  - apply split_at_us in H; [|apply sanitize_no_us|apply main_no_us]. destruct H as [_ H].
    now apply dec_not_lbl in H.
  - apply split_at_us in H; try apply sanitize_no_us. destruct H as [_ H].
    apply L_inj in H. apply N_to_dec_inj in H. now subst.
  - apply split_at_us in H; try apply sanitize_no_us. destruct H as [_ H].
    now apply dec_not_with_us in H.
  - apply split_at_us in H; [|apply sanitize_no_us|apply main_no_us]. destruct H as [_ H].
    symmetry in H. now apply lbl_not_dec_us in H.
  - apply split_at_us in H; try apply sanitize_no_us. destruct H as [_ H].
    symmetry in H. now apply dec_not_with_us in H.
  - apply split_at_us in H; try apply sanitize_no_us. destruct H as [_ H].
    apply split_at_us in H; try apply dec_no_us. destruct H as [Hi Hk].
    apply L_inj in Hi. apply N_to_dec_inj in Hi. apply lbl_inj in Hk. now subst.
Qed.

(* The model's own subroutine label is [sub_label] of the sanitised name and the index. *)
Example sub_label_shape : sub_label "a b-c" 1 = "abc_1" /\ sub_label "" 0 = "_0" /\ sub_label "main" 0 = "main_0".
Proof. vm_compute. auto. Qed.

(* the suspicious cases of the design notes are all kept apart *)
Example label_cases :
  label_text (LInner "main" 0 0) = "main_0_l0" /\ label_text (LMain 0) = "main_l0" /\
  label_text (LEntry "a_1" 0) = "a1_0" /\ label_text (LEntry "a" 10) = "a_10" /\
  label_text (LInner "a" 1 0) = "a_1_l0" /\ label_text (LEntry "a1l0" 2) = "a1l0_2".
Proof. vm_compute. repeat split. Qed.
