(* Proofs/HistoryEvents.v — lemmas about the global-state machine Hist/Events.v (property C11). *)
From Coq Require Import NArith List Bool Lia.
From PV Require Import Hist.Events.
Import ListNotations.
Local Open Scope N_scope.

Scheme ev_mut := Induction for ev Sort Prop
with evs_mut := Induction for evs Sort Prop.
Combined Scheme ev_evs_ind from ev_mut, evs_mut.

(* ------------------------------------------------------------------------------------------ *)
(* 1. Shift: starting from other counter values only renumbers what is handed out.             *)
(* ------------------------------------------------------------------------------------------ *)

Lemma shift_set_marker a b g p : set_marker (shift_st a b g) p = shift_st a b (set_marker g p).
Proof. reflexivity. Qed.

Lemma gst_eq s1 u1 m1 s2 u2 m2 : s1 = s2 -> u1 = u2 -> m1 = m2 -> mkG s1 u1 m1 = mkG s2 u2 m2.
Proof. intros; subst; reflexivity. Qed.

Lemma run_shift_both (m : mode) (a b : N) :
  (forall e g, run_ev m e (shift_st a b g) = shift_res a b (run_ev m e g)) /\
  (forall es g, run_evs m es (shift_st a b g) = shift_res a b (run_evs m es g)).
Proof.
  apply ev_evs_ind.
  - (* EAlloc *) intros g. unfold run_ev, alloc_slot, shift_res, shift_st; cbn.
    f_equal. apply gst_eq; [lia | reflexivity | reflexivity].
  - (* EReserved *) intros n g. cbn. destruct (n <? NUM_SLOTS); reflexivity.
  - (* EAbi *) intros g. cbn [run_ev shift_st g_marker].
    destruct (g_marker g) as [[t n]|] eqn:Em.
    + destruct (n + 1 <=? MAX_FRAME_LOCAL_VARS); [reflexivity|].
      unfold alloc_slot, shift_res, shift_st; cbn. f_equal. apply gst_eq; [lia | reflexivity | reflexivity].
    + unfold alloc_slot, shift_res, shift_st; cbn. f_equal. apply gst_eq; [lia | reflexivity | reflexivity].
  - (* EDefSub *) intros g. unfold run_ev, shift_res, shift_st; cbn.
    f_equal. apply gst_eq; [reflexivity | lia | reflexivity].
  - (* ECtx *) intros p body IH g. cbn [run_ev]. rewrite shift_set_marker, IH.
    cbn [shift_res r_raised r_st r_tr].
    destruct (r_raised (run_evs m body (set_marker g p))); destruct m; reflexivity.
  - (* EProbe *) intros body IH g. cbn [run_ev]. rewrite IH. cbn [shift_res r_raised r_st r_tr].
    destruct (r_raised (run_evs m body g)); reflexivity.
  - (* EClean *) intros body IH g. cbn [run_ev]. rewrite IH. reflexivity.
  - (* ECatch *) intros body IH g. cbn [run_ev]. rewrite IH. reflexivity.
  - (* ERaise *) intros g. reflexivity.
  - (* ENil *) intros g. reflexivity.
  - (* ECons *) intros e IHe es IHes g. cbn [run_evs]. rewrite IHe. cbn [shift_res r_raised r_st r_tr].
    destruct (r_raised (run_ev m e g)); [reflexivity|].
    rewrite IHes. unfold shift_res. cbn [r_raised r_st r_tr]. rewrite map_app. reflexivity.
Qed.

Lemma run_evs_shift m a b es g : run_evs m es (shift_st a b g) = shift_res a b (run_evs m es g).
Proof. apply run_shift_both. Qed.

(* ------------------------------------------------------------------------------------------ *)
(* 2. Monotonicity: no event tree ever leaves a counter below where it found it.               *)
(* ------------------------------------------------------------------------------------------ *)

Lemma run_monotone_both (m : mode) :
  (forall e g, g_slot g <= g_slot (r_st (run_ev m e g)) /\ g_sub g <= g_sub (r_st (run_ev m e g))) /\
  (forall es g, g_slot g <= g_slot (r_st (run_evs m es g)) /\ g_sub g <= g_sub (r_st (run_evs m es g))).
Proof.
  apply ev_evs_ind.
  - intros g; cbn; lia.
  - intros n g; cbn; destruct (n <? NUM_SLOTS); cbn; lia.
  - intros g; cbn; destruct (g_marker g) as [[t n]|]; [destruct (n + 1 <=? MAX_FRAME_LOCAL_VARS)|]; cbn; lia.
  - intros g; cbn; lia.
  - intros p body IH g. cbn [run_ev]. specialize (IH (set_marker g p)). cbn in IH.
    destruct (r_raised (run_evs m body (set_marker g p))); destruct m; cbn; exact IH.
  - intros body IH g. cbn [run_ev]. specialize (IH g).
    destruct (r_raised (run_evs m body g)); cbn; lia.
  - intros body IH g. cbn [run_ev]. specialize (IH g). cbn; lia.
  - intros body IH g. cbn [run_ev]. specialize (IH g). cbn; lia.
  - intros g; cbn; lia.
  - intros g; cbn; lia.
  - intros e IHe es IHes g. cbn [run_evs]. specialize (IHe g).
    destruct (r_raised (run_ev m e g)); [exact IHe|].
    specialize (IHes (r_st (run_ev m e g))). cbn; lia.
Qed.

Lemma run_evs_monotone m es g :
  g_slot g <= g_slot (r_st (run_evs m es g)) /\ g_sub g <= g_sub (r_st (run_evs m es g)).
Proof. apply run_monotone_both. Qed.

(* a probe that completes rewinds the slot counter exactly; the router's cleaning context always does *)
Lemma probe_rewinds m body g :
  r_raised (run_ev m (EProbe body) g) = false -> g_slot (r_st (run_ev m (EProbe body) g)) = g_slot g.
Proof. cbn [run_ev]. destruct (r_raised (run_evs m body g)) eqn:E; cbn; [rewrite E; discriminate | reflexivity]. Qed.

Lemma clean_rewinds m body g : g_slot (r_st (run_ev m (EClean body) g)) = g_slot g.
Proof. reflexivity. Qed.

Lemma history_monotone m h : forall g,
  g_slot g <= g_slot (run_history m h g) /\ g_sub g <= g_sub (run_history m h g).
Proof.
  induction h as [|op t IH]; intros g; cbn [run_history]; [lia|].
  pose proof (run_evs_monotone m op g) as H1. specialize (IH (r_st (run_evs m op g))). lia.
Qed.

(* ------------------------------------------------------------------------------------------ *)
(* 3. The marker.                                                                              *)
(* ------------------------------------------------------------------------------------------ *)

(* with try/finally the marker is restored whatever happens inside (the Proto it names; an ABI value
   created while it is set lengthens that Proto's list of locals) *)
Lemma marker_fixed_both :
  (forall e g, marker_tag (r_st (run_ev Fixed e g)) = marker_tag g) /\
  (forall es g, marker_tag (r_st (run_evs Fixed es g)) = marker_tag g).
Proof.
  apply ev_evs_ind.
  - intros g; reflexivity.
  - intros n g; cbn; destruct (n <? NUM_SLOTS); reflexivity.
  - intros g; unfold marker_tag; cbn; destruct (g_marker g) as [[t n]|] eqn:E;
      [destruct (n + 1 <=? MAX_FRAME_LOCAL_VARS)|]; cbn; rewrite ?E; reflexivity.
  - intros g; reflexivity.
  - intros p body IH g. cbn [run_ev]. destruct (r_raised (run_evs Fixed body (set_marker g p))); reflexivity.
  - intros body IH g. cbn [run_ev]. destruct (r_raised (run_evs Fixed body g)); cbn; apply IH.
  - intros body IH g. cbn. apply IH.
  - intros body IH g. cbn. apply IH.
  - intros g; reflexivity.
  - intros g; reflexivity.
  - intros e IHe es IHes g. cbn [run_evs]. destruct (r_raised (run_ev Fixed e g)); [apply IHe|].
    cbn. rewrite IHes. apply IHe.
Qed.

Lemma marker_tag_none g : marker_tag g = None <-> g_marker g = None.
Proof. unfold marker_tag. destruct (g_marker g); cbn; split; congruence. Qed.

Lemma marker_fixed_none es g : g_marker g = None -> g_marker (r_st (run_evs Fixed es g)) = None.
Proof. intros H. apply marker_tag_none. rewrite (proj2 marker_fixed_both). apply marker_tag_none. exact H. Qed.

Lemma marker_restored_fixed_proof (es : evs) (g : gst) :
  marker_tag (r_st (run_evs Fixed es g)) = marker_tag g /\
  (g_marker g = None -> g_marker (r_st (run_evs Fixed es g)) = None).
Proof. split; [apply marker_fixed_both | apply marker_fixed_none]. Qed.

(* the code as it is restores the marker when no exception escapes and none is swallowed *)
Lemma marker_faithful_both :
  (forall e g, no_catch e = true -> r_raised (run_ev Faithful e g) = false ->
               marker_tag (r_st (run_ev Faithful e g)) = marker_tag g) /\
  (forall es g, no_catch_s es = true -> r_raised (run_evs Faithful es g) = false ->
               marker_tag (r_st (run_evs Faithful es g)) = marker_tag g).
Proof.
  apply ev_evs_ind.
  - intros g _ _; reflexivity.
  - intros n g _; cbn; destruct (n <? NUM_SLOTS); reflexivity.
  - intros g _ _; unfold marker_tag; cbn; destruct (g_marker g) as [[t n]|] eqn:E;
      [destruct (n + 1 <=? MAX_FRAME_LOCAL_VARS)|]; cbn; rewrite ?E; reflexivity.
  - intros g _ _; reflexivity.
  - intros p body IH g Hc. cbn [run_ev].
    destruct (r_raised (run_evs Faithful body (set_marker g p))) eqn:E; cbn; [rewrite E; discriminate | reflexivity].
  - intros body IH g Hc. cbn [run_ev]. cbn in Hc.
    destruct (r_raised (run_evs Faithful body g)) eqn:E; cbn; [rewrite E; discriminate|].
    intros _. apply IH; assumption.
  - intros body IH g Hc. cbn in Hc. cbn. intros Hr. apply IH; assumption.
  - intros body IH g Hc. cbn in Hc. discriminate.
  - intros g _; cbn; discriminate.
  - intros g _ _; reflexivity.
  - intros e IHe es IHes g Hc. cbn in Hc. apply andb_true_iff in Hc as [Hc1 Hc2]. cbn [run_evs].
    destruct (r_raised (run_ev Faithful e g)) eqn:E; [rewrite E; discriminate|].
    cbn. intros Hr. rewrite IHes by assumption. apply IHe; assumption.
Qed.

(* when nothing raises and nothing is swallowed the two semantics coincide *)
Lemma modes_agree_both :
  (forall e g, no_catch e = true -> r_raised (run_ev Faithful e g) = false ->
               run_ev Fixed e g = run_ev Faithful e g) /\
  (forall es g, no_catch_s es = true -> r_raised (run_evs Faithful es g) = false ->
               run_evs Fixed es g = run_evs Faithful es g).
Proof.
  apply ev_evs_ind.
  - reflexivity.
  - reflexivity.
  - reflexivity.
  - reflexivity.
  - intros p body IH g Hc. cbn [run_ev]. cbn in Hc.
    destruct (r_raised (run_evs Faithful body (set_marker g p))) eqn:E; [cbn; rewrite E; discriminate|].
    intros _. rewrite IH by assumption. rewrite E. reflexivity.
  - intros body IH g Hc. cbn [run_ev]. cbn in Hc.
    destruct (r_raised (run_evs Faithful body g)) eqn:E; [rewrite E; discriminate|].
    intros _. rewrite IH by assumption. rewrite E. reflexivity.
  - intros body IH g Hc. cbn in Hc. cbn. intros Hr. rewrite IH by assumption. reflexivity.
  - intros body IH g Hc. cbn in Hc. discriminate.
  - reflexivity.
  - reflexivity.
  - intros e IHe es IHes g Hc. cbn in Hc. apply andb_true_iff in Hc as [Hc1 Hc2]. cbn [run_evs].
    destruct (r_raised (run_ev Faithful e g)) eqn:E; [rewrite E; discriminate|].
    cbn. intros Hr. rewrite IHe by assumption. rewrite E. rewrite IHes by assumption. reflexivity.
Qed.

Lemma ctx_raised m p body g :
  r_raised (run_ev m (ECtx p body) g) = r_raised (run_evs m body (set_marker g p)).
Proof.
  cbn [run_ev]. destruct (r_raised (run_evs m body (set_marker g p))) eqn:E; destruct m; cbn; congruence.
Qed.

Lemma probe_raised m body g :
  r_raised (run_ev m (EProbe body) g) = r_raised (run_evs m body g).
Proof. cbn [run_ev]. destruct (r_raised (run_evs m body g)) eqn:E; cbn; congruence. Qed.

Lemma cons_raised m e es g :
  r_raised (run_evs m (ECons e es) g) =
  if r_raised (run_ev m e g) then true else r_raised (run_evs m es (r_st (run_ev m e g))).
Proof. cbn [run_evs]. destruct (r_raised (run_ev m e g)) eqn:E; cbn; congruence. Qed.

(* whether an exception escapes does not depend on the state or on the mode *)
Lemma raised_indep_both :
  (forall e m1 m2 g1 g2, r_raised (run_ev m1 e g1) = r_raised (run_ev m2 e g2)) /\
  (forall es m1 m2 g1 g2, r_raised (run_evs m1 es g1) = r_raised (run_evs m2 es g2)).
Proof.
  apply ev_evs_ind.
  - reflexivity.
  - intros n m1 m2 g1 g2; cbn; destruct (n <? NUM_SLOTS); reflexivity.
  - intros m1 m2 g1 g2; cbn; destruct (g_marker g1) as [[t1 n1]|], (g_marker g2) as [[t2 n2]|];
      try destruct (n1 + 1 <=? MAX_FRAME_LOCAL_VARS); try destruct (n2 + 1 <=? MAX_FRAME_LOCAL_VARS); reflexivity.
  - reflexivity.
  - intros p body IH m1 m2 g1 g2. rewrite !ctx_raised. apply IH.
  - intros body IH m1 m2 g1 g2. rewrite !probe_raised. apply IH.
  - intros body IH m1 m2 g1 g2. cbn. apply IH.
  - reflexivity.
  - reflexivity.
  - reflexivity.
  - intros e IHe es IHes m1 m2 g1 g2. rewrite !cons_raised. rewrite (IHe m1 m2 g1 g2).
    destruct (r_raised (run_ev m2 e g2)); [reflexivity | apply IHes].
Qed.

(* ------------------------------------------------------------------------------------------ *)
(* 4. Histories.                                                                               *)
(* ------------------------------------------------------------------------------------------ *)

Lemma history_marker_fixed h : forall g, g_marker g = None -> g_marker (run_history Fixed h g) = None.
Proof.
  induction h as [|op t IH]; intros g Hg; cbn [run_history]; [exact Hg|].
  apply IH. apply marker_fixed_none. exact Hg.
Qed.

Lemma shift_st_of_init g :
  NUM_SLOTS <= g_slot g -> g_marker g = None ->
  g = shift_st (g_slot g - NUM_SLOTS) (g_sub g) init_gst.
Proof.
  intros Hs Hm. destruct g as [s u mk]. cbn [g_slot g_sub g_marker] in *. subst mk.
  unfold shift_st, init_gst. cbn [g_slot g_sub g_marker].
  apply gst_eq; [lia | lia | reflexivity].
Qed.

(* whatever happened before, as long as the marker is clear, running [p] hands out the
   identifiers of a fresh process plus a constant per counter *)
Lemma history_only_shifts_gen m (h : list evs) (p : evs) :
  let g := run_history m h init_gst in
  g_marker g = None ->
  run_evs m p g = shift_res (g_slot g - NUM_SLOTS) (g_sub g) (run_evs m p init_gst).
Proof.
  intros g Hm.
  pose proof (history_monotone m h init_gst) as [Hs _]. fold g in Hs. change (g_slot init_gst) with NUM_SLOTS in Hs.
  rewrite (shift_st_of_init g Hs Hm) at 1. apply run_evs_shift.
Qed.

(* the shift is a strictly monotone renumbering *)
Lemma shift_strictly_monotone (d x y : N) : x < y -> x + d < y + d.
Proof. lia. Qed.
