(* Proofs/ItxnWalk.v — C14: lemmas about the argument loop of InnerTxnBuilder.MethodCall (Router/Itxn.v):
   what every accepted argument contributes to the four accumulators, by induction over the argument
   list with the three foreign-array counters generalised. *)
From Coq Require Import List Arith NArith Ascii String Bool Lia.
From PV Require Import Base.Bytes Base.Sexp AVM.Syntax ABI.Types ABI.Spec ABI.Descr ABI.Assignable
  Router.Args Proofs.AssignableProof Router.Itxn.
Import ListNotations.
Local Open Scope string_scope.
Local Open Scope list_scope.

(* ------------------------------------------------------------------------------------------ *)
(* small facts                                                                                 *)
(* ------------------------------------------------------------------------------------------ *)
Lemma rbind_ok : forall {A B} (r : res A) (f : A -> res B) b,
  rbind r f = Ok b -> exists a, r = Ok a /\ f a = Ok b.
Proof. intros A B [a|e] f b H; cbn in H; [eauto | discriminate]. Qed.

Lemma index_byte_ok : forall n v, index_byte n = Ok v -> (n < 256)%nat /\ v = VB [n2b (N.of_nat n)].
Proof.
  unfold index_byte. intros n v H. destruct (Nat.ltb_spec n 256) as [Hl|Hl]; [|discriminate].
  inversion H. split; [exact Hl | reflexivity].
Qed.

Lemma enc_each_length : forall w bs, enc_each w = Some bs -> List.length bs = List.length w.
Proof.
  induction w as [|[t v] r IH]; intros bs H; cbn in H.
  - inversion H. reflexivity.
  - destruct (arc4_encode t v) as [b|]; [|discriminate].
    destruct (enc_each r) as [bs'|] eqn:E; [|discriminate].
    inversion H. cbn. f_equal. apply IH. reflexivity.
Qed.

Lemma pack_le15 : forall w, (List.length w <= 15)%nat -> pack w = enc_each w.
Proof.
  intros w H. unfold pack. destruct (Nat.ltb_spec 15 (List.length w)) as [Hl|Hl]; [lia | reflexivity].
Qed.

Lemma pack_length : forall w bs, pack w = Some bs -> (List.length bs <= 15)%nat.
Proof.
  intros w bs H. unfold pack in H. destruct (Nat.ltb_spec 15 (List.length w)) as [Hl|Hl].
  - destruct (enc_each (firstn 14 w)) as [hs|] eqn:E; [|discriminate].
    destruct (arc4_encode _ _) as [tup|]; [|discriminate].
    inversion H. rewrite app_length. apply enc_each_length in E. rewrite E, firstn_length. cbn [List.length]. lia.
  - apply enc_each_length in H. lia.
Qed.

Lemma enc_each_app : forall w1 w2 b1 b2,
  enc_each w1 = Some b1 -> enc_each w2 = Some b2 -> enc_each (w1 ++ w2) = Some (b1 ++ b2).
Proof.
  induction w1 as [|[t v] r IH]; intros w2 b1 b2 H1 H2; cbn in *.
  - inversion H1. exact H2.
  - destruct (arc4_encode t v) as [b|]; [|discriminate].
    destruct (enc_each r) as [bs'|] eqn:E; [|discriminate].
    inversion H1. rewrite (IH w2 bs' b2 eq_refl H2). reflexivity.
Qed.

(* ------------------------------------------------------------------------------------------ *)
(* SetFields: keys of the output, last value of a scalar                                        *)
(* ------------------------------------------------------------------------------------------ *)
Lemma some_vals_keys : forall f es, Forall (fun kv => fst kv = f) (some_vals f es).
Proof.
  induction es as [|[e|] r IH]; cbn; [constructor | constructor; [reflexivity | exact IH] | exact IH].
Qed.

Lemma set_field_keys : forall f v x, set_field f v = Ok x -> Forall (fun kv => fst kv = f) x.
Proof.
  unfold set_field. intros f v x H.
  destruct (field_type f) as [ft|]; [|discriminate].
  destruct (negb (field_is_array f)).
  - destruct v as [e|es|t vs|]; try discriminate.
    destruct (require_ok (x_type e) ft); [|discriminate]. inversion H. repeat constructor.
  - destruct v as [e|es|t vs|]; try discriminate.
    + destruct (existsb is_noneo es); [discriminate|].
      destruct (first_bad_type ft es); [discriminate|]. inversion H. apply some_vals_keys.
    + destruct (require_ok t ft); [|discriminate]. inversion H.
      apply Forall_forall. intros kv Hin. apply in_map_iff in Hin. destruct Hin as [y [Hy _]]. subst kv. reflexivity.
Qed.

Lemma set_fields_keys : forall fs x, set_fields fs = Ok x -> Forall (fun kv => In (fst kv) (map fst fs)) x.
Proof.
  induction fs as [|[f v] r IH]; intros x H; cbn in H.
  - inversion H. constructor.
  - apply rbind_ok in H. destruct H as [a [Ha H]].
    apply rbind_ok in H. destruct H as [b [Hb H]]. inversion H.
    apply Forall_app. split.
    + apply set_field_keys in Ha. eapply Forall_impl; [|exact Ha]. intros kv Hk. cbn. left. symmetry. exact Hk.
    + eapply Forall_impl; [|apply IH; exact Hb]. intros kv Hk. cbn. right. exact Hk.
Qed.

Lemma last_field_app : forall f a b,
  last_field f (a ++ b) = match last_field f b with Some w => Some w | None => last_field f a end.
Proof.
  induction a as [|[k v] r IH]; intros b; cbn.
  - destruct (last_field f b); reflexivity.
  - rewrite IH. destruct (last_field f b); [reflexivity|]. reflexivity.
Qed.

Lemma last_field_absent : forall f x, Forall (fun kv => fst kv <> f) x -> last_field f x = None.
Proof.
  induction x as [|[k v] r IH]; intros H; cbn; [reflexivity|].
  inversion H as [|? ? Hk Hr]. subst. rewrite (IH Hr). cbn in Hk.
  destruct (String.eqb_spec k f); [contradiction | reflexivity].
Qed.

Lemma arr_of_absent : forall f x, Forall (fun kv => fst kv <> f) x -> arr_of f x = [].
Proof.
  unfold arr_of. induction x as [|[k v] r IH]; intros H; cbn; [reflexivity|].
  inversion H as [|? ? Hk Hr]. subst. cbn in Hk.
  destruct (String.eqb_spec k f); [contradiction | apply IH; exact Hr].
Qed.

Lemma arr_of_app : forall f a b, arr_of f (a ++ b) = arr_of f a ++ arr_of f b.
Proof. intros. unfold arr_of. rewrite filter_app, map_app. reflexivity. Qed.

Lemma arr_of_fields_same : forall f vs, arr_of f (fields_of f vs) = vs.
Proof.
  unfold arr_of, fields_of. induction vs as [|v r IH]; cbn; [reflexivity|].
  rewrite String.eqb_refl. cbn. f_equal. exact IH.
Qed.

Lemma arr_of_fields_other : forall f g vs, f <> g -> arr_of f (fields_of g vs) = [].
Proof.
  intros f g vs H. apply arr_of_absent. unfold fields_of. apply Forall_forall. intros kv Hin.
  apply in_map_iff in Hin. destruct Hin as [y [Hy _]]. subst kv. cbn. congruence.
Qed.

(* a dict with distinct keys: the recorded transaction's last value of a scalar key is the dict's *)
Lemma set_fields_last : forall fs x f e,
  set_fields fs = Ok x -> NoDup (map fst fs) -> assoc_str f fs = Some (FExpr e) ->
  last_field f x = Some (x_val e).
Proof.
  induction fs as [|[f0 v0] r IH]; intros x f e H Hnd Hassoc; cbn in *; [discriminate|].
  apply rbind_ok in H. destruct H as [a [Ha H]].
  apply rbind_ok in H. destruct H as [b [Hb H]]. inversion H. subst x. clear H.
  inversion Hnd as [|? ? Hnotin Hnd']. subst.
  rewrite last_field_app.
  destruct (String.eqb_spec f f0) as [Heq|Hne].
  - subst f0. inversion Hassoc. subst v0.
    assert (Hb' : last_field f b = None).
    { apply last_field_absent. apply set_fields_keys in Hb.
      eapply Forall_impl; [|exact Hb]. intros kv Hin Heq. cbn in Hin. rewrite Heq in Hin. contradiction. }
    rewrite Hb'.
    unfold set_field in Ha. destruct (field_type f) as [ft|]; [|discriminate].
    destruct (negb (field_is_array f)); [|discriminate].
    destruct (require_ok (x_type e) ft); [|discriminate]. inversion Ha. cbn.
    rewrite String.eqb_refl. reflexivity.
  - rewrite (IH b f e Hb Hnd' Hassoc). reflexivity.
Qed.

(* ------------------------------------------------------------------------------------------ *)
(* the indices PyTeal assigns, as a function of the parameter types and the three counters      *)
(* ------------------------------------------------------------------------------------------ *)
Fixpoint ref_idxs (na nb nc : nat) (ps : list ty) : list N :=
  match ps with
  | [] => []
  | TRef RAccount :: r => N.of_nat (S na) :: ref_idxs (S na) nb nc r       (* accounts: after the append *)
  | TRef RApplication :: r => N.of_nat (S nb) :: ref_idxs na (S nb) nc r   (* applications: after the append *)
  | TRef RAsset :: r => N.of_nat nc :: ref_idxs na nb (S nc) r             (* assets: before the append *)
  | _ :: r => ref_idxs na nb nc r
  end.

Fixpoint kaccts (ps : list (ty * karg)) : list bytes :=
  match ps with
  | [] => []
  | (_, KAccount a) :: r => a :: kaccts r
  | _ :: r => kaccts r
  end.
Fixpoint kassets (ps : list (ty * karg)) : list N :=
  match ps with
  | [] => []
  | (_, KAsset n) :: r => n :: kassets r
  | _ :: r => kassets r
  end.
Fixpoint kapps (ps : list (ty * karg)) : list N :=
  match ps with
  | [] => []
  | (_, KApp n) :: r => n :: kapps r
  | _ :: r => kapps r
  end.

Definition kinds_fit (pks : list (ty * karg)) : bool := forallb (fun p => kind_fits (fst p) (snd p)) pks.

(* what one accepted run of the loop appends to the accumulators *)
Definition walk_result (st st' : acc) (ps : list ty) (ks : list karg) : Prop :=
  let idxs := ref_idxs (List.length (a_accts st)) (List.length (a_apps st)) (List.length (a_assets st)) ps in
  exists w encs,
    wire (combine ps ks) idxs = Some w /\
    enc_each w = Some encs /\
    a_args st' = a_args st ++ map VB encs /\
    a_txns st' = a_txns st ++ ktxns (combine ps ks) /\
    a_accts st' = a_accts st ++ map VB (kaccts (combine ps ks)) /\
    a_apps st' = a_apps st ++ map VI (kapps (combine ps ks)) /\
    a_assets st' = a_assets st ++ map VI (kassets (combine ps ks)) /\
    Forall (fun i => (i < 256)%N) idxs /\
    kinds_fit (combine ps ks) = true.

Lemma of_nat_lt_256 : forall n, (n < 256)%nat -> (N.of_nat n < 256)%N.
Proof. intros. lia. Qed.

Lemma enum_kind_ok : forall name k1,
  spec_of_enum_name name = Some (TTxn k1) ->
  kind_enum k1 = None \/ kind_enum k1 = Some (enum_value name).
Proof.
  intros name k1 H. unfold spec_of_enum_name in H.
  repeat match type of H with
  | (if String.eqb name ?s then _ else _) = _ =>
      destruct (String.eqb_spec name s) as [->|_];
      [ inversion H; subst; first [left; reflexivity | right; reflexivity] | ]
  end.
  discriminate.
Qed.

Lemma uint8_encode : forall n, (n < 256)%N -> arc4_encode (TUint 8) (VUint n) = Some [n2b n].
Proof.
  intros n H. change (arc4_encode (TUint 8) (VUint n)) with (uint_enc 8 (VUint n)).
  unfold uint_enc. change (valid_uint_bits 8) with true. change (2 ^ 8)%N with 256%N.
  destruct (N.ltb_spec n 256) as [_|Hge]; [|lia].
  change (N.to_nat (8 / 8)) with 1%nat. reflexivity.
Qed.

Lemma step_plain_eq : forall t a st,
  is_txn_ty t = false -> is_ref_ty t = false -> step t a st = step_plain t a st.
Proof. intros t a st H1 H2. destruct t; try reflexivity; discriminate. Qed.

Lemma wire_plain : forall t v r idxs,
  is_txn_ty t = false -> is_ref_ty t = false ->
  wire ((t, KVal v) :: r) idxs = option_map (cons (t, v)) (wire r idxs).
Proof. intros t v r idxs H1 H2. destruct t; try reflexivity; discriminate. Qed.

Lemma ref_idxs_plain : forall t r na nb nc,
  is_ref_ty t = false -> ref_idxs na nb nc (t :: r) = ref_idxs na nb nc r.
Proof. intros t r na nb nc H. destruct t; try reflexivity; discriminate. Qed.

Lemma kind_fits_plain : forall t v, is_txn_ty t = false -> is_ref_ty t = false -> kind_fits t (KVal v) = true.
Proof. intros t v H1 H2. destruct t; try reflexivity; discriminate. Qed.

Lemma walk_result_nil : forall st, walk_result st st [] [].
Proof.
  intros st. exists [], []. cbn. rewrite !app_nil_r. repeat split; constructor.
Qed.

Lemma wr_cons_plain : forall t v bs st st' ps ks,
  is_txn_ty t = false -> is_ref_ty t = false -> arc4_encode t v = Some bs ->
  walk_result (push_arg st (VB bs)) st' ps ks ->
  walk_result st st' (t :: ps) (KVal v :: ks).
Proof.
  intros t v bs st st' ps ks H1 H2 He [w [encs [Hw [Hen [Ha [Ht [Hac [Hap [Has [Hb Hk]]]]]]]]]].
  cbn [push_arg a_accts a_apps a_assets a_args a_txns] in *.
  exists ((t, v) :: w), (bs :: encs).
  rewrite ref_idxs_plain by exact H2. cbn [combine]. rewrite wire_plain by assumption. rewrite Hw.
  cbn [ktxns kaccts kapps kassets].
  repeat split; try assumption.
  - cbn. rewrite He, Hen. reflexivity.
  - rewrite Ha. rewrite <- app_assoc. reflexivity.
  - unfold kinds_fit. cbn [forallb fst snd]. rewrite kind_fits_plain by assumption. exact Hk.
Qed.

Lemma wr_cons_txn : forall k x st st' ps ks,
  ktxn_type_ok k x = true ->
  walk_result (mkAcc (a_txns st ++ [x]) (a_accts st) (a_apps st) (a_assets st) (a_args st)) st' ps ks ->
  walk_result st st' (TTxn k :: ps) (KTxn x :: ks).
Proof.
  intros k x st st' ps ks Hok [w [encs [Hw [Hen [Ha [Ht [Hac [Hap [Has [Hb Hk]]]]]]]]]].
  cbn [a_accts a_apps a_assets a_args a_txns] in *.
  exists w, encs. cbn [combine ref_idxs]. cbn [wire kind_fits]. rewrite Hok. cbn [negb].
  cbn [ktxns kaccts kapps kassets].
  repeat split; try assumption.
  - rewrite Ht. rewrite <- app_assoc. reflexivity.
  - unfold kinds_fit. cbn [forallb fst snd kind_fits]. rewrite Hok. exact Hk.
Qed.

Lemma wr_cons_account : forall a st st' ps ks,
  (S (List.length (a_accts st)) < 256)%nat ->
  walk_result (mkAcc (a_txns st) (a_accts st ++ [VB a]) (a_apps st) (a_assets st)
                     (a_args st ++ [VB [n2b (N.of_nat (S (List.length (a_accts st))))]])) st' ps ks ->
  walk_result st st' (TRef RAccount :: ps) (KAccount a :: ks).
Proof.
  intros a st st' ps ks Hlt [w [encs [Hw [Hen [Ha [Ht [Hac [Hap [Has [Hb Hk]]]]]]]]]].
  cbn [a_accts a_apps a_assets a_args a_txns] in *.
  rewrite app_length in Hw, Hb. cbn [List.length] in Hw, Hb. rewrite Nat.add_1_r in Hw, Hb.
  exists ((TUint 8, VUint (N.of_nat (S (List.length (a_accts st))))) :: w),
         ([n2b (N.of_nat (S (List.length (a_accts st))))] :: encs).
  cbn [combine ref_idxs]. cbn [wire kind_fits negb]. rewrite Hw.
  cbn [ktxns kaccts kapps kassets].
  repeat split; try assumption.
  - cbn [enc_each option_map]. rewrite Hen.
    assert (He := uint8_encode (N.of_nat (S (List.length (a_accts st)))) ltac:(lia)).
    rewrite He. reflexivity.
  - rewrite Ha. rewrite <- app_assoc. reflexivity.
  - rewrite Hac. rewrite <- app_assoc. reflexivity.
  - constructor; [lia | exact Hb].
Qed.

Lemma wr_cons_app : forall n st st' ps ks,
  (S (List.length (a_apps st)) < 256)%nat ->
  walk_result (mkAcc (a_txns st) (a_accts st) (a_apps st ++ [VI n]) (a_assets st)
                     (a_args st ++ [VB [n2b (N.of_nat (S (List.length (a_apps st))))]])) st' ps ks ->
  walk_result st st' (TRef RApplication :: ps) (KApp n :: ks).
Proof.
  intros n st st' ps ks Hlt [w [encs [Hw [Hen [Ha [Ht [Hac [Hap [Has [Hb Hk]]]]]]]]]].
  cbn [a_accts a_apps a_assets a_args a_txns] in *.
  rewrite app_length in Hw, Hb. cbn [List.length] in Hw, Hb. rewrite Nat.add_1_r in Hw, Hb.
  exists ((TUint 8, VUint (N.of_nat (S (List.length (a_apps st))))) :: w),
         ([n2b (N.of_nat (S (List.length (a_apps st))))] :: encs).
  cbn [combine ref_idxs]. cbn [wire kind_fits negb]. rewrite Hw.
  cbn [ktxns kaccts kapps kassets].
  repeat split; try assumption.
  - cbn [enc_each option_map]. rewrite Hen.
    assert (He := uint8_encode (N.of_nat (S (List.length (a_apps st)))) ltac:(lia)).
    rewrite He. reflexivity.
  - rewrite Ha. rewrite <- app_assoc. reflexivity.
  - rewrite Hap. rewrite <- app_assoc. reflexivity.
  - constructor; [lia | exact Hb].
Qed.

Lemma wr_cons_asset : forall n st st' ps ks,
  (List.length (a_assets st) < 256)%nat ->
  walk_result (mkAcc (a_txns st) (a_accts st) (a_apps st) (a_assets st ++ [VI n])
                     (a_args st ++ [VB [n2b (N.of_nat (List.length (a_assets st)))]])) st' ps ks ->
  walk_result st st' (TRef RAsset :: ps) (KAsset n :: ks).
Proof.
  intros n st st' ps ks Hlt [w [encs [Hw [Hen [Ha [Ht [Hac [Hap [Has [Hb Hk]]]]]]]]]].
  cbn [a_accts a_apps a_assets a_args a_txns] in *.
  rewrite app_length in Hw, Hb. cbn [List.length] in Hw, Hb. rewrite Nat.add_1_r in Hw, Hb.
  exists ((TUint 8, VUint (N.of_nat (List.length (a_assets st)))) :: w),
         ([n2b (N.of_nat (List.length (a_assets st)))] :: encs).
  cbn [combine ref_idxs]. cbn [wire kind_fits negb]. rewrite Hw.
  cbn [ktxns kaccts kapps kassets].
  repeat split; try assumption.
  - cbn [enc_each option_map]. rewrite Hen.
    assert (He := uint8_encode (N.of_nat (List.length (a_assets st))) ltac:(lia)).
    rewrite He. reflexivity.
  - rewrite Ha. rewrite <- app_assoc. reflexivity.
  - rewrite Has. rewrite <- app_assoc. reflexivity.
  - constructor; [lia | exact Hb].
Qed.

(* ------------------------------------------------------------------------------------------ *)
(* the loop, for arguments with a meaning                                                       *)
(* ------------------------------------------------------------------------------------------ *)
Lemma step_txn_ok : forall k fs st st',
  step_txn (TTxn k) (IDict fs) st = Ok st' -> NoDup (map fst fs) ->
  exists x, set_fields fs = Ok x /\ ktxn_type_ok k x = true /\
            st' = mkAcc (a_txns st ++ [x]) (a_accts st) (a_apps st) (a_assets st) (a_args st).
Proof.
  intros k fs st st' H Hnd. unfold step_txn in H.
  destruct (assoc_str "TypeEnum" fs) as [[e| | |]|] eqn:Ha; try discriminate.
  destruct e as [|name]; [discriminate|].
  destruct (spec_of_enum_name name) as [a_spec|] eqn:Hs; [|discriminate].
  destruct (assignable a_spec (TTxn k)) eqn:Has; [|discriminate].
  apply rbind_ok in H. destruct H as [x [Hx H]]. inversion H. subst st'.
  exists x. split; [exact Hx|]. split; [|reflexivity].
  destruct (assignable_to_txn _ _ Has) as [k1 ->].
  apply assignable_txn_iff in Has. destruct Has as [k2 [Heq Hor]]. inversion Heq. subst k2.
  unfold ktxn_type_ok.
  destruct Hor as [->| ->]; [|reflexivity].
  destruct (enum_kind_ok _ _ Hs) as [Hn|Hn]; rewrite Hn; [reflexivity|].
  rewrite (set_fields_last fs x "TypeEnum" (XEnum name) Hx Hnd Ha). cbn. apply N.eqb_refl.
Qed.

Lemma walk_denotes : forall ps args ks,
  denotes ps args ks -> forall st st', walk ps args st = Ok st' -> walk_result st st' ps ks.
Proof.
  induction 1 as [|t a k ts args ks H1 Hrest IH]; intros st st' Hw.
  - cbn in Hw. inversion Hw. apply walk_result_nil.
  - cbn [walk] in Hw. apply rbind_ok in Hw. destruct Hw as [st1 [Hs Hw]].
    specialize (IH st1 st' Hw).
    destruct H1 as [t a v Ht Hr | t e bs v Ht Hr Hv He | e a Hv | a | e n Hv | n | e n Hv | n | k fs x Hx Hnd].
    + (* ABI instance *)
      rewrite step_plain_eq in Hs by assumption. cbn [step_plain] in Hs.
      destruct (assignable a t) eqn:Has; [|discriminate].
      destruct (arc4_encode a v) as [bs|] eqn:He; [|discriminate]. inversion Hs. subst st1.
      destruct (admitted_bytes_valid_for_target a t v bs Has He) as [He' _].
      eapply wr_cons_plain; eassumption.
    + (* raw bytes *)
      rewrite step_plain_eq in Hs by assumption. cbn [step_plain] in Hs.
      destruct (require_ok (x_type e) T_bytes); [|discriminate]. inversion Hs. subst st1.
      rewrite Hv in IH. eapply wr_cons_plain; eassumption.
    + (* account, expression *)
      cbn [step step_ref ref_value] in Hs.
      destruct (require_ok (x_type e) (ref_tt RAccount)); [|discriminate]. cbn [rbind] in Hs.
      apply rbind_ok in Hs. destruct Hs as [b [Hb Hs]]. apply index_byte_ok in Hb. destruct Hb as [Hlt ->].
      inversion Hs. subst st1. rewrite app_length in Hlt, IH. cbn [List.length] in Hlt, IH.
      rewrite Nat.add_1_r in Hlt, IH. rewrite Hv in IH. apply wr_cons_account; assumption.
    + (* account, instance *)
      cbn [step step_ref ref_value ref_kind_eqb rbind] in Hs.
      apply rbind_ok in Hs. destruct Hs as [b [Hb Hs]]. apply index_byte_ok in Hb. destruct Hb as [Hlt ->].
      inversion Hs. subst st1. rewrite app_length in Hlt, IH. cbn [List.length] in Hlt, IH.
      rewrite Nat.add_1_r in Hlt, IH. apply wr_cons_account; assumption.
    + (* asset, expression *)
      cbn [step step_ref] in Hs.
      apply rbind_ok in Hs. destruct Hs as [b [Hb Hs]]. apply index_byte_ok in Hb. destruct Hb as [Hlt ->].
      cbn [ref_value] in Hs. destruct (require_ok (x_type e) (ref_tt RAsset)); [|discriminate]. cbn [rbind] in Hs.
      inversion Hs. subst st1. rewrite Hv in IH. apply wr_cons_asset; assumption.
    + (* asset, instance *)
      cbn [step step_ref] in Hs.
      apply rbind_ok in Hs. destruct Hs as [b [Hb Hs]]. apply index_byte_ok in Hb. destruct Hb as [Hlt ->].
      cbn [ref_value ref_kind_eqb rbind] in Hs. inversion Hs. subst st1. apply wr_cons_asset; assumption.
    + (* application, expression *)
      cbn [step step_ref ref_value] in Hs.
      destruct (require_ok (x_type e) (ref_tt RApplication)); [|discriminate]. cbn [rbind] in Hs.
      apply rbind_ok in Hs. destruct Hs as [b [Hb Hs]]. apply index_byte_ok in Hb. destruct Hb as [Hlt ->].
      inversion Hs. subst st1. rewrite app_length in Hlt, IH. cbn [List.length] in Hlt, IH.
      rewrite Nat.add_1_r in Hlt, IH. rewrite Hv in IH. apply wr_cons_app; assumption.
    + (* application, instance *)
      cbn [step step_ref ref_value ref_kind_eqb rbind] in Hs.
      apply rbind_ok in Hs. destruct Hs as [b [Hb Hs]]. apply index_byte_ok in Hb. destruct Hb as [Hlt ->].
      inversion Hs. subst st1. rewrite app_length in Hlt, IH. cbn [List.length] in Hlt, IH.
      rewrite Nat.add_1_r in Hlt, IH. apply wr_cons_app; assumption.
    + (* transaction *)
      cbn [step] in Hs. destruct (step_txn_ok _ _ _ _ Hs Hnd) as [x' [Hx' [Hok ->]]].
      rewrite Hx in Hx'. inversion Hx'. subst x'. apply wr_cons_txn; assumption.
Qed.

Lemma denotes_length : forall ps args ks,
  denotes ps args ks -> List.length args = List.length ps /\ List.length ks = List.length ps.
Proof. induction 1 as [|t a k ts args ks _ _ [IH1 IH2]]; cbn; [split; reflexivity | split; congruence]. Qed.

Lemma map_fst_combine : forall {A B} (l1 : list A) (l2 : list B),
  List.length l2 = List.length l1 -> map fst (combine l1 l2) = l1.
Proof.
  induction l1 as [|x r IH]; intros [|y l2] H; cbn in *; try discriminate; [reflexivity|].
  f_equal. apply IH. congruence.
Qed.

(* ------------------------------------------------------------------------------------------ *)
(* every index PyTeal assigns resolves, for the callee, to the argument that was passed         *)
(* ------------------------------------------------------------------------------------------ *)
Lemma resolve_account_after : forall sender A0 x rest n,
  n = List.length A0 ->
  resolve_account sender (A0 ++ x :: rest) (N.of_nat (S n)) = Some x.
Proof.
  intros sender A0 x rest n ->. unfold resolve_account.
  destruct (N.eqb_spec (N.of_nat (S (List.length A0))) 0) as [H|_]; [lia|].
  replace (N.to_nat (N.of_nat (S (List.length A0))) - 1)%nat with (List.length A0) by lia.
  rewrite nth_error_app2 by lia. rewrite Nat.sub_diag. reflexivity.
Qed.

Lemma resolve_app_after : forall callee B0 x rest n,
  n = List.length B0 ->
  resolve_app callee (B0 ++ x :: rest) (N.of_nat (S n)) = Some x.
Proof.
  intros callee B0 x rest n ->. unfold resolve_app.
  destruct (N.eqb_spec (N.of_nat (S (List.length B0))) 0) as [H|_]; [lia|].
  replace (N.to_nat (N.of_nat (S (List.length B0))) - 1)%nat with (List.length B0) by lia.
  rewrite nth_error_app2 by lia. rewrite Nat.sub_diag. reflexivity.
Qed.

Lemma resolve_asset_before : forall C0 x rest n,
  n = List.length C0 -> resolve_asset (C0 ++ x :: rest) (N.of_nat n) = Some x.
Proof.
  intros C0 x rest n ->. unfold resolve_asset. rewrite Nat2N.id.
  rewrite nth_error_app2 by lia. rewrite Nat.sub_diag. reflexivity.
Qed.

Lemma refs_resolve_idxs : forall sender callee c pks A0 B0 C0 sA sB sC,
  kinds_fit pks = true ->
  ic_accounts c = A0 ++ kaccts pks ++ sA ->
  ic_apps c = B0 ++ kapps pks ++ sB ->
  ic_assets c = C0 ++ kassets pks ++ sC ->
  refs_resolve sender callee c pks (ref_idxs (List.length A0) (List.length B0) (List.length C0) (map fst pks)).
Proof.
  intros sender callee c pks. induction pks as [|[t a] r IH]; intros A0 B0 C0 sA sB sC Hk Ha Hb Hc.
  - exact I.
  - unfold kinds_fit in Hk. cbn [forallb fst snd] in Hk. apply andb_true_iff in Hk. destruct Hk as [Hk1 Hk].
    destruct t as [| | | | | | | | | | |k]; try destruct k; destruct a; try discriminate Hk1;
      cbn [map fst ref_idxs refs_resolve kaccts kapps kassets] in *;
      try (eapply IH; eassumption).
    + (* account *)
      split.
      * rewrite Ha. apply resolve_account_after. reflexivity.
      * specialize (IH (A0 ++ [a]) B0 C0 sA sB sC Hk).
        rewrite app_length in IH. cbn [List.length] in IH. rewrite Nat.add_1_r in IH.
        apply IH; try assumption. rewrite Ha. rewrite <- app_assoc. reflexivity.
    + (* asset *)
      split.
      * rewrite Hc. apply resolve_asset_before. reflexivity.
      * specialize (IH A0 B0 (C0 ++ [id]) sA sB sC Hk).
        rewrite app_length in IH. cbn [List.length] in IH. rewrite Nat.add_1_r in IH.
        apply IH; try assumption. rewrite Hc. rewrite <- app_assoc. reflexivity.
    + (* application *)
      split.
      * rewrite Hb. apply resolve_app_after. reflexivity.
      * specialize (IH A0 (B0 ++ [id]) C0 sA sB sC Hk).
        rewrite app_length in IH. cbn [List.length] in IH. rewrite Nat.add_1_r in IH.
        apply IH; try assumption. rewrite Hb. rewrite <- app_assoc. reflexivity.
Qed.

Lemma wire_length : forall pks idxs w,
  wire pks idxs = Some w -> List.length w = count_nontxn (map fst pks).
Proof.
  unfold count_nontxn.
  induction pks as [|[t a] r IH]; intros idxs w H.
  - inversion H. reflexivity.
  - cbn [wire] in H. destruct (negb (kind_fits t a)); [discriminate|].
    destruct t as [| | | | | | | | | | k|k]; cbn [map fst filter not_txn_ty is_txn_ty negb List.length];
      try (destruct a; try discriminate;
           destruct (wire r idxs) as [w'|] eqn:E; [|discriminate]; inversion H; cbn; f_equal; eapply IH; exact E).
    + eapply IH; exact H.
    + destruct idxs as [|i ir]; [discriminate|].
      destruct (wire r ir) as [w'|] eqn:E; [|discriminate]. inversion H. cbn. f_equal. eapply IH; exact E.
Qed.
