(* Proofs/CallComposeMain.v — property C02, the COMPOSITION over the call graph (scratch-slot calling
   convention, no spill code).

   [call_k n]: what a call of routine f does, to depth n — the declaration body of f (prologue
   [store]s of the arguments, then the body; parameter i is [load <slot of parameter i>]) evaluated by
   the source semantics in f's own environment ON THE CALLER'S OPERAND STACK, nested calls answered by
   [call_k (n-1)]; [DRet] hands the whole stack back, [DExit] ends the program.
   [denote_k N] = the source semantics of the main routine with [call_k N] as the meaning of calls.

   [linked_calls_realized] / [linked_main_correct]: if every routine's code satisfies the one-routine
   end-to-end statement for EVERY oracle ([unit_correct], which is what the CallX copy of the C01 chain
   proves: CallX/SlotComposeFinal.v), and the codes are laid out in L as flatten_subroutines does
   ([unit_placed]), then the linked program L, run with a call stack and no oracle at all
   (Comp/LinkedSem.v), computes [denote_k]: induction on n, [link_star] at every level. Any call graph
   (also recursive ones: [call_k] is defined by recursion on the depth, not on the graph).

   Everything is parametric in an oracle transformer [W sub] per routine: the oracle the routine's SOURCE
   is evaluated with is [W sub orc] when its CODE runs with [orc].  W = identity: the code is the
   routine's own code.  For a routine whose re-entrant calls are wrapped in spill code W is the
   wrapping of Proofs/CallComposeSpill.v (a wrapped call = the outcome of the spill segment). *)
From Coq Require Import List Arith NArith String Bool Lia.
From PV Require Import Base.Bytes AVM.Syntax AVM.Machine Src.Expr Src.Denote Src.DenoteCall
  Comp.Blocks Comp.Lower Comp.Passes Comp.GraphSem Comp.LinearSem Comp.LinkedSem Comp.Compile
  Proofs.LowerFrame Proofs.LowerShape Proofs.NormalizeLowered Proofs.EndToEndExits
  CallX.Denote CallX.GraphSem CallX.LinearSem CallX.LowerCorrect CallX.EndToEndGlue CallX.EndToEnd
  Proofs.CallComposeLink.
Import ListNotations.
Local Open Scope string_scope.

(* ---- the linked machine looks at the environment only through ctx, slot numbering, selectors ---- *)
Lemma old_arg_to_imm_irrel (e1 e2 : Src.Denote.denv) o a :
  Src.Denote.e_asg e1 = Src.Denote.e_asg e2 -> Src.Denote.e_msel e1 = Src.Denote.e_msel e2 ->
  Src.Denote.arg_to_imm e1 o a = Src.Denote.arg_to_imm e2 o a.
Proof. intros A M. destruct a; cbn [Src.Denote.arg_to_imm]; rewrite ?A, ?M; reflexivity. Qed.

Lemma old_args_to_imms_irrel (e1 e2 : Src.Denote.denv) o l :
  Src.Denote.e_asg e1 = Src.Denote.e_asg e2 -> Src.Denote.e_msel e1 = Src.Denote.e_msel e2 ->
  Src.Denote.args_to_imms e1 o l = Src.Denote.args_to_imms e2 o l.
Proof.
  intros A M. induction l as [|a t IH]; [reflexivity|]. cbn [Src.Denote.args_to_imms].
  rewrite (old_arg_to_imm_irrel e1 e2 o a A M), IH. reflexivity.
Qed.

Lemma old_do_op_irrel (e1 e2 : Src.Denote.denv) o imms stk st :
  Src.Denote.e_ctx e1 = Src.Denote.e_ctx e2 ->
  Src.Denote.e_asg e1 = Src.Denote.e_asg e2 -> Src.Denote.e_msel e1 = Src.Denote.e_msel e2 ->
  Src.Denote.do_op e1 o imms stk st = Src.Denote.do_op e2 o imms stk st.
Proof.
  intros C A M. unfold Src.Denote.do_op. rewrite (old_args_to_imms_irrel e1 e2 o imms A M), C, A. reflexivity.
Qed.

Lemma pstep_irrel (e1 e2 : Src.Denote.denv) L c :
  Src.Denote.e_ctx e1 = Src.Denote.e_ctx e2 ->
  Src.Denote.e_asg e1 = Src.Denote.e_asg e2 -> Src.Denote.e_msel e1 = Src.Denote.e_msel e2 ->
  pstep e1 L c = pstep e2 L c.
Proof.
  intros C A M. destruct c as [fr pc stk st| | | |]; try reflexivity. cbn [pstep].
  destruct (nth_error L pc) as [[i|l cm|v]|]; try reflexivity.
  unfold pstep_op. rewrite (old_do_op_irrel e1 e2 _ _ stk st C A M). reflexivity.
Qed.

Lemma pstar_irrel (e1 e2 : Src.Denote.denv) L c c' :
  Src.Denote.e_ctx e1 = Src.Denote.e_ctx e2 ->
  Src.Denote.e_asg e1 = Src.Denote.e_asg e2 -> Src.Denote.e_msel e1 = Src.Denote.e_msel e2 ->
  pstar e1 L c c' -> pstar e2 L c c'.
Proof.
  intros C A M. induction 1 as [c|c c1 c2 S1 _ IH]; [apply pstar_refl|].
  eapply pstar_step; [|exact IH]. rewrite <- (pstep_irrel e1 e2 L c C A M). exact S1.
Qed.

Section Compose.
  Variable o : copts.
  Variable cx : ctx.
  Variable look : N -> N.                       (* the slot assignment *)
  Variable msel : list (string * bytes).
  Variable subs : list routine.                 (* the program's subroutines *)
  (* per routine: the oracle its source sees, given the oracle its code runs with *)
  Variable W : option routine -> (N -> list value -> mstate -> callres) -> (N -> list value -> mstate -> callres).

  (* the environment in which routine [sub] is evaluated, calls answered by [orc] *)
  Definition envk (sub : option routine) (orc : N -> list value -> mstate -> callres) : denv :=
    mkEnv cx look msel subs
          (match sub with Some _ => true | None => false end)
          (match sub with Some r => param_instr o r | None => main_param end)
          orc.

  Lemma envk_consistent sub orc : consistent (envk sub orc) (routine_ctx o sub).
  Proof. destruct sub; split; reflexivity. Qed.

  (* the environment of the linked machine *)
  Definition lenv : Src.Denote.denv := Src.Denote.mkEnv cx look msel subs false main_param.

  (* ---- the meaning of a call, to depth n ---- *)
  Fixpoint call_k (n : nat) (f : N) (stk : list value) (st : mstate) : callres :=
    match n with
    | O => CNone
    | S m =>
        match find_routine subs f with
        | None => CNone
        | Some r =>
            match denote (envk (Some r) (W (Some r) (call_k m))) m (root_ast (decl_body o r)) stk st with
            | DRet s' st' => CRet s' st'
            | DExit v st' => CExit v st'
            | DFail => CFail
            | _ => CNone
            end
        end
    end.

  (* the source semantics of a routine body with calls *)
  Definition denote_k (n : nat) (sub : option routine) (fuel : nat) (e : expr) (stk : list value) (st : mstate) : dout :=
    denote (envk sub (W sub (call_k n))) fuel e stk st.

  (* ---- what is assumed of one compiled routine ---- *)
  (* the one-routine end-to-end statement, for every oracle *)
  Definition unit_correct (sub : option routine) (ast0 : expr) (code : list comp) : Prop :=
    forall orc fuel stk st h,
      halt_of (denote (envk sub (W sub orc)) fuel (root_ast ast0) stk st) = Some h ->
      CallX.LinearSem.lstar (envk sub orc) code (LAt 0 stk st) h.

  Variable L : list comp.                       (* the linked program *)
  Variable res : N -> option string.            (* routine id -> entry label *)

  (* routine r sits in L behind its entry label *)
  Definition unit_placed (r : routine) : Prop :=
    exists lbl e cm pre code,
      res (r_id r) = Some lbl /\
      nth_error L e = Some (CLabel lbl cm) /\
      placed L (S e) res pre code /\
      linkable code = true /\
      unit_correct (Some r) (decl_body o r) code.

  Hypothesis HN : NoDup (labels_of L).
  Hypothesis Hsubs : forall f r, find_routine subs f = Some r -> r_id r = f /\ unit_placed r.

  Lemma halt_of_claimed r h : halt_of r = Some h ->
    match r with DRet _ _ | DExit _ _ | DFail => claimed h | _ => True end.
  Proof. destruct r; cbn; intros H; try exact Logic.I; injection H as <-; exact Logic.I. Qed.

  (* every answer of [call_k n] is realized by the linked program *)
  Theorem linked_calls_realized : forall n, realizes lenv L res (call_k n).
  Proof.
    induction n as [|m IH]; intros f stk st NC; [exfalso; apply NC; reflexivity|].
    cbn [call_k] in NC |- *.
    destruct (find_routine subs f) as [r|] eqn:Fr; [|exfalso; apply NC; reflexivity].
    destruct (Hsubs f r Fr) as [Eid (lbl & e & cm & pre & code & Rl & Ne & Pl & Lk & UC)]. subst f.
    exists e. split.
    { unfold entry_of. rewrite Rl. exact (find_label_nodup L HN e lbl cm Ne). }
    intros fr ret.
    (* the step over the entry label *)
    eapply pstar_step; [cbn [pstep]; rewrite Ne; reflexivity|].
    set (xe := envk (Some r) (call_k m)) in *.
    assert (HR : realizes (old_env xe) L res (e_call xe)).
    { intros f' stk' st' NC'. destruct (IH f' stk' st' NC') as (e' & Ee' & Run'). exists e'. split; [exact Ee'|].
      intros fr' ret'. eapply pstar_irrel; [| | |exact (Run' fr' ret')]; reflexivity. }
    destruct (denote (envk (Some r) (W (Some r) (call_k m))) m (root_ast (decl_body o r)) stk st) as [| | |s' st'|v st'| | | |] eqn:D;
      try (exfalso; apply NC; reflexivity).
    - pose proof (UC (call_k m) m stk st (LRet s' st')) as Run. rewrite D in Run. specialize (Run eq_refl). fold xe in Run.
      pose proof (link_star xe L (S e) res pre code Pl Lk HN HR (ret :: fr) _ _ Run Logic.I) as PR.
      cbn [emb call_image] in PR |- *. rewrite Nat.add_0_r in PR.
      eapply pstar_irrel; [| | |exact PR]; reflexivity.
    - pose proof (UC (call_k m) m stk st (LExit v st')) as Run. rewrite D in Run. specialize (Run eq_refl). fold xe in Run.
      pose proof (link_star xe L (S e) res pre code Pl Lk HN HR (ret :: fr) _ _ Run Logic.I) as PR.
      cbn [emb call_image] in PR |- *. rewrite Nat.add_0_r in PR.
      eapply pstar_irrel; [| | |exact PR]; reflexivity.
    - pose proof (UC (call_k m) m stk st LFail) as Run. rewrite D in Run. specialize (Run eq_refl). fold xe in Run.
      pose proof (link_star xe L (S e) res pre code Pl Lk HN HR (ret :: fr) _ _ Run Logic.I) as PR.
      cbn [emb call_image] in PR |- *. rewrite Nat.add_0_r in PR.
      eapply pstar_irrel; [| | |exact PR]; reflexivity.
  Qed.

  (* ---- a routine (the main routine, or any routine entered with a call stack [fr]) ---- *)
  Theorem linked_routine_correct sub ast0 base pre code :
    placed L base res pre code -> linkable code = true -> unit_correct sub ast0 code ->
    forall n fuel fr stk st h,
      halt_of (denote_k n sub fuel (root_ast ast0) stk st) = Some h -> claimed h ->
      pstar lenv L (PAt fr base stk st) (emb base fr h).
  Proof.
    intros Pl Lk UC n fuel fr stk st h Hh Cl. unfold denote_k in Hh.
    set (xe := envk sub (call_k n)) in *.
    assert (HR : realizes (old_env xe) L res (e_call xe)).
    { intros f' stk' st' NC'. destruct (linked_calls_realized n f' stk' st' NC') as (e' & Ee' & Run'). exists e'. split; [exact Ee'|].
      intros fr' ret'. eapply pstar_irrel; [| | |exact (Run' fr' ret')]; reflexivity. }
    pose proof (UC (call_k n) fuel stk st h Hh) as Run. fold xe in Run.
    pose proof (link_star xe L base res pre code Pl Lk HN HR fr _ _ Run Cl) as PR.
    cbn [emb] in PR. rewrite Nat.add_0_r in PR.
    eapply pstar_irrel; [| | |exact PR]; reflexivity.
  Qed.
End Compose.
