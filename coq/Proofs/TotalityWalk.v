(* Proofs/TotalityWalk.v — property C20, part 2: the graph passes of compileSubroutine on a
   descending chain (what every straight-line program lowers to, Proofs/TotalityChain.v):

     addIncoming   visits the chain from its top T down to block 0; its recursion depth is T
                   ([add_incoming_chain]) — one Python stack frame per block of the program;
     validateTree  passes ([validate_tree_chain]);
     NormalizeBlocks  merges the whole chain into block 0, which becomes the start ([normalize_chain]);
     validateTree  passes on the result.

   The recursive Python walks are modelled with an explicit stack that records the depth the
   recursion would have (Comp/Passes.v, [add_incoming] returns the maximal depth). *)
From Coq Require Import List Arith NArith String Bool Lia.
From PV Require Import Base.Bytes AVM.Syntax Src.Expr Comp.Blocks Comp.Lower Comp.Passes
  Proofs.LowerFrame Proofs.TotalityChain.
Import ListNotations.

Section Walk.
  Variable P : instr -> Prop.

  (* blocks 0..T: block 0 is terminal, block (S i) continues with block i *)
  Definition dchain (g : graph) (T : nat) : Prop :=
    (exists ops, g_blk g 0 = Some (BSimple ops None) /\ Forall P ops) /\
    (forall i, i < T -> exists ops, g_blk g (S i) = Some (BSimple ops (Some i)) /\ Forall P ops).

  Lemma dchain_out0 g T : dchain g T -> out_of g 0 = [].
  Proof. intros ((ops & B & _) & _). unfold out_of. rewrite B. reflexivity. Qed.

  Lemma dchain_outS g T i : dchain g T -> i < T -> out_of g (S i) = [i].
  Proof. intros (_ & H) L. destruct (H i L) as (ops & B & _). unfold out_of. rewrite B. reflexivity. Qed.

  Lemma dchain_blk_eq g g' T : g_blk g' = g_blk g -> dchain g T -> dchain g' T.
  Proof. intros E D. unfold dchain. rewrite E. exact D. Qed.

  Lemma dchain_le g T T' : T' <= T -> dchain g T -> dchain g T'.
  Proof. intros L (A & B). split; [exact A|]. intros i Hi. apply B. lia. Qed.

  Lemma mem_id_above b visited : (forall x, In x visited -> b < x) -> mem_id b visited = false.
  Proof.
    induction visited as [|y t IH]; intros H; cbn [mem_id]; [reflexivity|].
    destruct (Nat.eqb_spec b y) as [->|N].
    - specialize (H y (or_introl eq_refl)). lia.
    - cbn [orb]. apply IH. intros x Hx. apply H. right. exact Hx.
  Qed.

  (* ---- addIncoming ---- *)
  Lemma ai_nil f g v m : add_incoming_loop f g [] v m = (g, m).
  Proof. destruct f; reflexivity. Qed.

  Lemma ai_chain T : forall b fuel g parent d visited maxd,
    dchain g T -> b <= T -> b < fuel ->
    (forall x, In x visited -> b < x) ->
    (forall i, i <= b -> g_inc g i = []) ->
    exists g', add_incoming_loop fuel g [(b, parent, d)] visited maxd = (g', Nat.max maxd (d + b)) /\
      g_blk g' = g_blk g /\ g_next g' = g_next g /\
      (forall i, i < b -> g_inc g' i = [S i]) /\
      g_inc g' b = (match parent with Some p => [p] | None => [] end) /\
      (forall i, b < i -> g_inc g' i = g_inc g i).
  Proof.
    induction b as [|b IH]; intros fuel g parent d visited maxd D LT LF HV HI;
      (destruct fuel as [|f]; [lia|]); cbn [add_incoming_loop].
    - (* block 0: terminal *)
      set (g1 := match parent with
                 | Some p => if mem_id p (g_inc g 0) then g else set_inc g 0 (g_inc g 0 ++ [p])
                 | None => g end).
      assert (B1 : g_blk g1 = g_blk g).
      { unfold g1. destruct parent as [p|]; [|reflexivity]. destruct (mem_id p (g_inc g 0)); reflexivity. }
      assert (N1 : g_next g1 = g_next g).
      { unfold g1. destruct parent as [p|]; [|reflexivity]. destruct (mem_id p (g_inc g 0)); reflexivity. }
      assert (I1 : g_inc g1 0 = match parent with Some p => [p] | None => [] end).
      { unfold g1. destruct parent as [p|]; [|apply HI; lia]. rewrite (HI 0) by lia. cbn [mem_id app].
        unfold set_inc. cbn [g_inc]. apply upd_same. }
      assert (I2 : forall i, 0 < i -> g_inc g1 i = g_inc g i).
      { intros i Hi. unfold g1. destruct parent as [p|]; [|reflexivity]. rewrite (HI 0) by lia. cbn [mem_id app].
        unfold set_inc. cbn [g_inc]. apply upd_other. lia. }
      clearbody g1.
      rewrite (mem_id_above 0 visited HV).
      rewrite (dchain_out0 g1 T (dchain_blk_eq _ _ _ B1 D)). cbn [map app]. rewrite ai_nil.
      exists g1. split. { f_equal. lia. } split; [exact B1|]. split; [exact N1|].
      split; [intros i Hi; lia|]. split; [exact I1|exact I2].
    - (* block S b: continues with block b *)
      set (g1 := match parent with
                 | Some p => if mem_id p (g_inc g (S b)) then g else set_inc g (S b) (g_inc g (S b) ++ [p])
                 | None => g end).
      assert (B1 : g_blk g1 = g_blk g).
      { unfold g1. destruct parent as [p|]; [|reflexivity]. destruct (mem_id p (g_inc g (S b))); reflexivity. }
      assert (N1 : g_next g1 = g_next g).
      { unfold g1. destruct parent as [p|]; [|reflexivity]. destruct (mem_id p (g_inc g (S b))); reflexivity. }
      assert (I1 : g_inc g1 (S b) = match parent with Some p => [p] | None => [] end).
      { unfold g1. destruct parent as [p|]; [|apply HI; lia]. rewrite (HI (S b)) by lia. cbn [mem_id app].
        unfold set_inc. cbn [g_inc]. apply upd_same. }
      assert (I2 : forall i, i <> S b -> g_inc g1 i = g_inc g i).
      { intros i Hi. unfold g1. destruct parent as [p|]; [|reflexivity]. rewrite (HI (S b)) by lia. cbn [mem_id app].
        unfold set_inc. cbn [g_inc]. apply upd_other. exact Hi. }
      assert (D1 : dchain g1 T) by (apply (dchain_blk_eq _ _ _ B1 D)).
      clearbody g1.
      rewrite (mem_id_above (S b) visited HV).
      rewrite (dchain_outS g1 T b D1) by lia. cbn [map app].
      destruct (IH f g1 (Some (S b)) (S d) (S b :: visited) (Nat.max maxd d) D1) as (g' & R & B' & N' & J1 & J2 & J3).
      + lia.
      + lia.
      + intros x [<-|Hx]; [lia|]. specialize (HV x Hx). lia.
      + intros i Hi. rewrite I2 by lia. apply HI. lia.
      + exists g'. split. { etransitivity; [exact R|]. f_equal. lia. } split; [congruence|]. split; [congruence|].
        split; [|split].
        * intros i Hi. destruct (Nat.eq_dec i b) as [->|Ne]; [exact J2|apply J1; lia].
        * rewrite J3 by lia. exact I1.
        * intros i Hi. rewrite J3 by lia. apply I2. lia.
  Qed.

  (* addIncoming from the top of a chain whose incoming lists are still empty *)
  Theorem add_incoming_chain g T :
    dchain g T -> T < g_next g -> (forall i, g_inc g i = []) ->
    exists g', add_incoming g T = (g', T) /\ g_blk g' = g_blk g /\ g_next g' = g_next g /\
      (forall i, i < T -> g_inc g' i = [S i]) /\ g_inc g' T = [] /\ (forall i, T < i -> g_inc g' i = []).
  Proof.
    intros D L Z. unfold add_incoming.
    destruct (ai_chain T T (3 * S (g_next g)) g None 0 [] 0 D) as (g' & R & B & N & J1 & J2 & J3).
    - lia.
    - lia.
    - intros x [].
    - intros i _. apply Z.
    - exists g'. split; [etransitivity; [exact R|reflexivity]|].
      split; [exact B|]. split; [exact N|]. split; [exact J1|]. split; [exact J2|].
      intros i Hi. rewrite J3 by exact Hi. apply Z.
  Qed.

  (* ---- validateTree ---- *)
  Lemma vt_nil f g v : validate_tree_loop f g [] v = true.
  Proof. destruct f; reflexivity. Qed.

  Lemma vt_chain T : forall b fuel g parent visited,
    dchain g T -> b <= T ->
    (forall x, In x visited -> b < x) ->
    (forall i, i < b -> g_inc g i = [S i]) ->
    (match parent with Some p => g_inc g b = [p] | None => True end) ->
    validate_tree_loop fuel g [(b, parent)] visited = true.
  Proof.
    induction b as [|b IH]; intros fuel g parent visited D LT HV HI HP;
      (destruct fuel as [|f]; [reflexivity|]); cbn [validate_tree_loop].
    - assert (OK : match parent with Some p => Nat.eqb (count_id p (g_inc g 0)) 1 | None => true end = true).
      { destruct parent as [p|]; [|reflexivity]. rewrite HP. cbn [count_id]. rewrite Nat.eqb_refl. reflexivity. }
      rewrite OK. cbn [negb]. rewrite (mem_id_above 0 visited HV). rewrite (dchain_out0 g T D). cbn [map app].
      apply vt_nil.
    - assert (OK : match parent with Some p => Nat.eqb (count_id p (g_inc g (S b))) 1 | None => true end = true).
      { destruct parent as [p|]; [|reflexivity]. rewrite HP. cbn [count_id]. rewrite Nat.eqb_refl. reflexivity. }
      rewrite OK. cbn [negb]. rewrite (mem_id_above (S b) visited HV). rewrite (dchain_outS g T b D) by lia.
      cbn [map app]. apply IH; try assumption.
      + lia.
      + intros x [<-|Hx]; [lia|]. specialize (HV x Hx). lia.
      + intros i Hi. apply HI. lia.
      + apply HI. lia.
  Qed.

  Theorem validate_tree_chain g T :
    dchain g T -> (forall i, i < T -> g_inc g i = [S i]) -> validate_tree g T = true.
  Proof.
    intros D HI. unfold validate_tree. apply (vt_chain T); auto.
    - intros x [].
  Qed.

  (* ---- NormalizeBlocks, pass 1: the chain is merged into block 0 ---- *)
  Lemma ni_nil body f g s v : norm_iter body f g s [] v = (g, s).
  Proof. destruct f; reflexivity. Qed.

  Lemma ni_step body f g s w q v :
    norm_iter body (S f) g s (w :: q) v =
    let nexts := out_of g w in
    let '(g1, s1) := body g s w in
    let '(q1, v1) := enqueue nexts q v in
    norm_iter body f g1 s1 q1 v1.
  Proof. reflexivity. Qed.

  Definition single (g : graph) : Prop :=
    exists ops, g_blk g 0 = Some (BSimple ops None) /\ Forall P ops.

  Lemma wf_set_blk g i b : wf g -> i < g_next g -> wf (set_blk g i b).
  Proof. intros W L. unfold set_blk. apply (define_spec g i b W L). Qed.

  (* state while block w is at the head of the queue: blocks 0..w are the untouched chain, block S w
     holds everything merged so far and is the current start *)
  Lemma n1_chain : forall w fuel g visited acc,
    w < fuel -> wf g -> S w < g_next g ->
    dchain g w ->
    (forall i, i <= w -> g_inc g i = [S i]) ->
    g_blk g (S w) = Some (BSimple acc (Some w)) -> Forall P acc -> g_inc g (S w) = [] ->
    (forall x, In x visited -> w <= x) ->
    exists g', norm_iter norm_body1 fuel g (S w) [w] visited = (g', 0) /\
      single g' /\ g_inc g' 0 = [] /\ g_next g' = g_next g /\ wf g'.
  Proof.
    induction w as [|w IH]; intros fuel g visited acc LF W LN D HI BS PA IS HV;
      (destruct fuel as [|f]; [lia|]); cbn [norm_iter].
    - (* w = 0 *)
      destruct D as ((ops0 & B0 & P0) & D').
      assert (O0 : out_of g 0 = []) by (unfold out_of; rewrite B0; reflexivity).
      rewrite O0. unfold norm_body1. rewrite (HI 0) by lia.
      assert (O1 : out_of g 1 = [0]) by (unfold out_of; rewrite BS; reflexivity).
      rewrite O1. cbn [Nat.eqb]. rewrite B0. rewrite IS. cbn [fold_left].
      cbn [enqueue fold_left]. rewrite ni_nil.
      eexists. split; [reflexivity|]. split; [|split; [|split]].
      + exists (acc ++ ops0). split.
        * unfold set_inc, set_blk, define. cbn [g_blk]. rewrite upd_same. cbn [set_ops b_ops].
          unfold get_ops. rewrite BS. reflexivity.
        * apply Forall_app. split; assumption.
      + unfold set_inc. cbn [g_inc]. apply upd_same.
      + reflexivity.
      + unfold set_inc. intros i Hi. cbn [g_blk g_next] in *. apply (wf_set_blk g 0 _ W); [lia|exact Hi].
    - (* w = S w *)
      destruct (proj2 D w (Nat.lt_succ_diag_r w)) as (opsw & Bw & Pw).
      assert (Ow : out_of g (S w) = [w]) by (unfold out_of; rewrite Bw; reflexivity).
      rewrite Ow. unfold norm_body1. rewrite (HI (S w)) by lia.
      assert (O1 : out_of g (S (S w)) = [S w]) by (unfold out_of; rewrite BS; reflexivity).
      rewrite O1. rewrite Nat.eqb_refl. rewrite Bw. rewrite IS. cbn [fold_left].
      rewrite Nat.eqb_refl.
      unfold enqueue. cbn [fold_left]. rewrite (mem_id_above w visited) by (intros x Hx; specialize (HV x Hx); lia).
      cbn [app].
      set (g2 := set_inc (set_blk g (S w) (set_ops (BSimple opsw (Some w)) (get_ops g (S (S w)) ++ b_ops (BSimple opsw (Some w))))) (S w) []).
      assert (BE : forall i, i <> S w -> g_blk g2 i = g_blk g i).
      { intros i Hi. unfold g2, set_inc, set_blk, define. cbn [g_blk]. apply upd_other. exact Hi. }
      assert (IE : forall i, i <> S w -> g_inc g2 i = g_inc g i).
      { intros i Hi. unfold g2, set_inc. cbn [g_inc]. apply upd_other. exact Hi. }
      assert (W2 : wf g2).
      { unfold g2, set_inc. intros i Hi. cbn [g_blk g_next] in *. apply (wf_set_blk g (S w) _ W); [lia|exact Hi]. }
      destruct (IH f g2 (visited ++ [w]) (acc ++ opsw)) as (g' & R & SG & I0 & N' & W').
      + lia.
      + exact W2.
      + unfold g2, set_inc, set_blk, define. cbn [g_next]. lia.
      + destruct D as (D0 & D'). split.
        * destruct D0 as (ops0 & B0 & P0). exists ops0. rewrite BE by lia. auto.
        * intros i Hi. destruct (D' i) as (ops & B & Po); [lia|]. exists ops. rewrite BE by lia. auto.
      + intros i Hi. rewrite IE by lia. apply HI. lia.
      + unfold g2, set_inc, set_blk, define. cbn [g_blk]. rewrite upd_same. cbn [set_ops b_ops].
        unfold get_ops. rewrite BS. reflexivity.
      + apply Forall_app. split; assumption.
      + unfold g2, set_inc. cbn [g_inc]. apply upd_same.
      + intros x Hx. apply in_app_or in Hx. destruct Hx as [Hx|[<-|[]]]; [specialize (HV x Hx); lia|lia].
      + exists g'. split; [exact R|]. split; [exact SG|]. split; [exact I0|]. split; [|exact W'].
        rewrite N'. reflexivity.
  Qed.

  Lemma n2_single f g : single g -> norm_iter norm_body2 (S f) g 0 [0] [0] = (g, 0).
  Proof.
    intros (ops & B & _). cbn [norm_iter].
    assert (O0 : out_of g 0 = []) by (unfold out_of; rewrite B; reflexivity).
    rewrite O0. unfold norm_body2. rewrite O0.
    destruct (get_ops g 0); cbn [enqueue fold_left]; apply ni_nil.
  Qed.

  (* NormalizeBlocks on a chain with exact incoming lists *)
  Theorem normalize_chain g T :
    wf g -> g_next g = S T -> dchain g T ->
    (forall i, i < T -> g_inc g i = [S i]) -> g_inc g T = [] ->
    exists g', normalize g T = (g', 0) /\ single g' /\ g_next g' = g_next g /\ wf g'.
  Proof.
    intros W N D HI HT. unfold normalize. rewrite N. unfold id in *.
    assert (P1 : exists g', norm_iter norm_body1 (S (S T)) g T [T] [T] = (g', 0) /\
                            single g' /\ g_next g' = g_next g /\ wf g').
    { rewrite ni_step. unfold norm_body1 at 1. rewrite HT.
      destruct T as [|T'].
      - rewrite (dchain_out0 g 0 D). cbn [enqueue fold_left]. rewrite ni_nil.
        exists g. split; [reflexivity|]. split; [exact (proj1 D)|]. split; [reflexivity|exact W].
      - destruct (proj2 D T' (Nat.lt_succ_diag_r T')) as (opsT & BT & PT).
        rewrite (dchain_outS g (S T') T' D) by lia.
        unfold enqueue. cbn [fold_left mem_id]. destruct (Nat.eqb_spec T' (S T')); [lia|]. cbn [orb app].
        destruct (n1_chain T' (S (S T')) g [S T'; T'] opsT) as (g' & R & SG & I0 & N' & W').
        + lia.
        + exact W.
        + lia.
        + apply (dchain_le g (S T')); [lia|exact D].
        + intros i Hi. apply HI. lia.
        + exact BT.
        + exact PT.
        + exact HT.
        + intros x [<-|[<-|[]]]; lia.
        + exists g'. split; [exact R|]. split; [exact SG|]. split; [exact N'|exact W']. }
    destruct P1 as (g1 & R1 & SG & N1 & W1). rewrite R1.
    rewrite (n2_single (S T) g1 SG). exists g1. split; [reflexivity|]. split; [exact SG|]. split; [congruence|exact W1].
  Qed.

  Lemma validate_tree_single g : single g -> validate_tree g 0 = true.
  Proof.
    intros (ops & B & _). unfold validate_tree.
    assert (O0 : out_of g 0 = []) by (unfold out_of; rewrite B; reflexivity).
    destruct (3 * S (g_next g)) as [|f]; [reflexivity|]. cbn [validate_tree_loop negb mem_id].
    rewrite O0. cbn [map app]. apply vt_nil.
  Qed.
End Walk.
