(* Proofs/LatePassTotalProgram.v — the late-pass totality carried to the pipeline function (C20):
     * the slot-assigned routine (what compile_components really sorts and flattens) is sorted and
       flattened successfully, to the slot rewrite of the code of the routine itself;
     * [compile_model] NEVER REPORTS A CRASH (CrashAssertion / CrashRecursion / CrashOther) for a program —
       main routine and any number of subroutines, recursion included — with the scratch-slot optimiser
       off, no ABI-returning subroutine (no deferred expression) and no Cond without arms: its outcome is
       TEAL lines, one of PyTeal's errors, or the model's own "unsupported". *)
From Coq Require Import List Arith NArith String Bool Lia.
From PV Require Import Base.Bytes AVM.Syntax AVM.Machine Src.Expr Src.Denote
  Comp.Blocks Comp.Lower Comp.Passes Comp.GraphSem Comp.LinearSem Comp.SimCheck Comp.Compile Comp.Assemble
  Proofs.LowerFrame Proofs.LowerShape Proofs.NormalizeLowered Proofs.FlattenCorrect
  Proofs.EndToEndExits Proofs.EndToEndGlue Proofs.EndToEnd
  Proofs.SlotCompose Proofs.SlotComposeAssign Proofs.SlotComposeCover Proofs.SlotComposePipeline
  Proofs.LatePassTotalReach Proofs.LatePassTotalNorm Proofs.LatePassTotal Proofs.SortCorrect.
Import ListNotations.

(* =========================================================================================== *)
(* 1. after slot assignment                                                                     *)
(* =========================================================================================== *)
Theorem routine_assigned_total look o sub ast0 cr :
  (match sub with Some r => r_deferred r | None => None end) = None ->
  compile_one o sub ast0 = COk cr ->
  nec (root_ast ast0) = true ->
  let cr' := rw_routine look cr in
  exists order code,
    sort_blocks (cr_graph cr) (cr_start cr) (cr_end cr) = Some order /\
    flatten_blocks (cr_graph cr) order = Some code /\
    sort_blocks (cr_graph cr') (cr_start cr') (cr_end cr') = Some order /\
    flatten_blocks (cr_graph cr') order = Some (rw_code look code).
Proof.
  intros D E Hn cr'.
  destruct (late_passes_total o sub ast0 cr D E Hn) as (order & code & HS & HF).
  destruct (compiled_late_facts o sub ast0 cr D E Hn) as (W & _).
  exists order, code. split; [exact HS|]. split; [exact HF|]. split.
  - unfold cr'. cbn [rw_routine map_graph_ops cr_start cr_end]. rewrite <- HS. apply sort_blocks_rw.
  - pose proof (order_covered_plain cr order code W HS HF) as Cov.
    unfold cr'. rewrite (flatten_blocks_rw look (cr_graph cr) _ order); [rewrite HF; reflexivity|].
    intros b Hb. rewrite mgo_blk. rewrite (proj2 (SortCorrect.mem_id_In b _) (Cov b Hb)). reflexivity.
Qed.

(* =========================================================================================== *)
(* 2. no stage reports a crash                                                                  *)
(* =========================================================================================== *)
Definition is_crash (e : cerr) : bool :=
  match e with CrashAssertion | CrashRecursion | CrashOther _ => true | _ => false end.

Lemma first_err_in (l : list (option cerr)) e : first_err l = Some e -> In (Some e) l.
Proof.
  unfold first_err.
  assert (G : forall acc, fold_left (fun (acc x : option cerr) => match acc with Some _ => acc | None => x end) l acc = Some e ->
                          acc = Some e \/ In (Some e) l).
  { induction l as [|x t IH]; intros acc H; cbn [fold_left] in H; [left; exact H|].
    destruct (IH _ H) as [K|K]; [|right; right; exact K].
    destruct acc as [a|]; [left; exact K|right; left; exact K]. }
  intros H. destruct (G None H) as [K|K]; [discriminate K|exact K].
Qed.

Definition user_err (e : cerr) : Prop := e = ErrInput \/ e = ErrCompile.

Lemma first_err_map_user {A} (f : A -> option cerr) l e :
  Forall (fun a => forall err, f a = Some err -> user_err err) l ->
  first_err (map f l) = Some e -> user_err e.
Proof.
  intros H E. apply first_err_in in E. apply in_map_iff in E. destruct E as (a & Ea & Ia).
  rewrite Forall_forall in H. exact (H a Ia e Ea).
Qed.

(* the errors __teal__ raises are TealInputError / TealCompileError *)
Lemma check_expr_user o sub e : forall il err, check_expr o sub il e = Some err -> user_err err.
Proof.
  induction e using expr_ind'; intros il err E; cbn [check_expr] in E.
  - destruct (op_version_ok o o0 imms); [|injection E as <-; left; reflexivity].
    eapply first_err_map_user; [|exact E]. eapply Forall_impl; [|exact H]. intros a Ha. apply Ha.
  - eapply first_err_map_user; [|exact E]. eapply Forall_impl; [|exact H]. intros a Ha. apply Ha.
  - eapply first_err_map_user; [|exact E]. eapply Forall_impl; [|exact H]. intros a Ha. apply Ha.
  - apply first_err_in in E. destruct E as [E|[E|[E|[]]]]; [eapply IHe1; eauto|eapply IHe2; eauto|].
    destruct el as [x|]; [|discriminate E]. inversion H; subst. eauto.
  - apply first_err_in in E. apply in_flat_map in E. destruct E as (a & Ia & [E|[E|[]]]);
      rewrite Forall_forall in H; destruct (H a Ia) as [Hc Hv]; eauto.
  - apply first_err_in in E. destruct E as [E|[E|[]]]; eauto.
  - apply first_err_in in E. destruct E as [E|[E|[E|[E|[]]]]]; eauto.
  - destruct il; [discriminate E|injection E as <-; right; reflexivity].
  - destruct il; [discriminate E|injection E as <-; right; reflexivity].
  - eapply first_err_map_user; [|exact E]. eapply Forall_impl; [|exact H]. intros a Ha. apply Ha.
  - assert (X : forall x, v = Some x -> forall err', check_expr o sub il x = Some err' -> user_err err').
    { intros x Q. subst v. inversion H; subst. eauto. }
    destruct sub as [rt|].
    + destruct (N.ltb (o_version o) 4); [injection E as <-; left; reflexivity|].
      destruct rt, v as [x|]; try discriminate E; try (injection E as <-; right; reflexivity);
        (destruct (types_match (type_of x) _); [exact (X x eq_refl err E)|injection E as <-; right; reflexivity]).
    + destruct v as [x|]; [|injection E as <-; right; reflexivity].
      destruct (types_match (type_of x) TUint); [exact (X x eq_refl err E)|injection E as <-; right; reflexivity].
  - eauto.
  - destruct (op_version_ok o o0 imms); [|injection E as <-; left; reflexivity].
    eapply first_err_map_user; [|exact E]. eapply Forall_impl; [|exact H]. intros a Ha. apply Ha.
  - destruct (N.ltb (o_version o) 4); [injection E as <-; left; reflexivity|].
    eapply first_err_map_user; [|exact E]. eapply Forall_impl; [|exact H]. intros a Ha. apply Ha.
  - destruct (N.ltb (o_version o) 5); [injection E as <-; right; reflexivity|].
    apply first_err_in in E. apply in_app_or in E. destruct E as [E|E]; apply in_map_iff in E;
      destruct E as (a & Ea & Ia); [rewrite Forall_forall in H; exact (H a Ia il err Ea)|
                                    rewrite Forall_forall in H0; exact (H0 a Ia il err Ea)].
  - discriminate E.
Qed.

Lemma user_err_no_crash e : user_err e -> is_crash e = false.
Proof. intros [->| ->]; reflexivity. Qed.

(* compileSubroutine for one routine: errors of __teal__, the model's limit, or success *)
Theorem compile_one_no_crash o sub ast0 e :
  (match sub with Some r => r_deferred r | None => None end) = None ->
  compile_one o sub ast0 = CErr e -> is_crash e = false.
Proof.
  intros D E.
  destruct (check_expr o (option_map r_ret sub) false (root_ast ast0)) as [err|] eqn:Ck.
  - unfold compile_one in E. fold (root_ast ast0) in E. rewrite Ck in E. injection E as <-.
    exact (user_err_no_crash _ (check_expr_user _ _ _ _ _ Ck)).
  - destruct (has_bad_continue false (root_ast ast0)) eqn:Hb.
    + unfold compile_one in E. fold (root_ast ast0) in E. rewrite Ck, Hb in E. injection E as <-. reflexivity.
    + destruct (compile_one_tree_checks_pass o sub ast0 D Ck Hb) as (cr & E' & _). congruence.
Qed.

Section Rec.
  Variable o : copts.
  Variable p : prog.
  Hypothesis HD : forall r, In r (p_subs p) -> r_deferred r = None.

  Lemma compile_rec_no_crash : forall fuel sub ast acc e,
    (match sub with Some r => r_deferred r | None => None end) = None ->
    compile_rec fuel o p sub ast acc = CErr e -> is_crash e = false.
  Proof.
    induction fuel as [|f IH]; intros sub ast acc e D H; [injection H as <-; reflexivity|].
    cbn [compile_rec] in H.
    destruct (compile_one o sub ast) as [cr0|e0] eqn:E0;
      [|injection H as <-; exact (compile_one_no_crash o sub ast e0 D E0)].
    match type of H with
    | fold_left ?F ?news (COk ?acc1) = _ => set (FF := F) in H; set (nws := news) in H; set (a1 := acc1) in H
    end.
    clearbody a1. clearbody nws. revert a1 H. induction nws as [|s t IHn]; intros a1 H.
    - discriminate H.
    - cbn [fold_left] in H. unfold FF at 2 in H.
      destruct (existsb (fun c => match cr_key c with Some k => N.eqb k s | None => false end) a1).
      + exact (IHn a1 H).
      + destruct (find_sub p s) as [r|] eqn:Fs.
        * destruct (compile_rec f o p (Some r) (decl_body o r) a1) as [a2|e2] eqn:E2.
          -- exact (IHn a2 H).
          -- rewrite fold_step_err in H; [|intros e0 x; reflexivity]. injection H as <-.
             exact (IH (Some r) _ _ _ (HD r (find_sub_in p s r Fs)) E2).
        * rewrite fold_step_err in H; [|intros e0 x; reflexivity]. injection H as <-. reflexivity.
  Qed.
End Rec.

Lemma assign_slots_no_crash p crs e : assign_slots p crs = CErr e -> is_crash e = false.
Proof.
  unfold assign_slots.
  destruct (negb _); [intros H; injection H as <-; reflexivity|].
  destruct (Nat.ltb 256 _); [intros H; injection H as <-; reflexivity|].
  destruct (fold_left _ crs (Some false)) as [[|]|]; intros H; try discriminate H; injection H as <-; reflexivity.
Qed.

Lemma spill_no_crash v p frs locals e : spill v p frs locals = CErr e -> is_crash e = false.
Proof. unfold spill. destruct (existsb _ frs); intros H; [injection H as <-; reflexivity|discriminate H]. Qed.

Lemma verify_ops_no_crash o modes cs e : verify_ops o modes cs = Some e -> is_crash e = false.
Proof.
  unfold verify_ops. destruct (existsb _ cs); [intros H; injection H as <-; reflexivity|].
  destruct (existsb _ cs); intros H; [injection H as <-; reflexivity|discriminate H].
Qed.

(* the sort + flatten stage of compile_components, as a function of the assigned routines *)
Definition flat_stage (crs2 : list croutine) : cres (list flat_routine) :=
  fold_right (fun c acc =>
                match acc with
                | CErr e => CErr e
                | COk l =>
                    match sort_blocks (cr_graph c) (cr_start c) (cr_end c) with
                    | None => CErr ErrInternal
                    | Some order =>
                        match flatten_blocks (cr_graph c) order with
                        | Some ops => COk (mkFR (cr_sub c) ops :: l)
                        | None => CErr CrashAssertion
                        end
                    end
                end) (COk []) crs2.

Lemma flat_stage_total crs2 :
  (forall c, In c crs2 -> exists order code,
      sort_blocks (cr_graph c) (cr_start c) (cr_end c) = Some order /\ flatten_blocks (cr_graph c) order = Some code) ->
  exists frs, flat_stage crs2 = COk frs.
Proof.
  induction crs2 as [|c t IH]; intros H; [exists []; reflexivity|].
  destruct (IH (fun x Hx => H x (or_intror Hx))) as (frs & E).
  destruct (H c (or_introl eq_refl)) as (order & code & HS & HF).
  unfold flat_stage in *. cbn [fold_right]. rewrite E, HS, HF. eauto.
Qed.

(* every routine of a program, after slot assignment, is sorted and flattened successfully: neither
   TealInternalError("End block not present") nor an assertion of flattenBlocks *)
Theorem program_flat_stage_total o p crs crs' locals asg :
  (forall r, In r (p_subs p) -> r_deferred r = None /\ nec (r_body r) = true) ->
  nec (root_ast (p_main p)) = true ->
  compile_rec (S (List.length (p_subs p))) o p None (p_main p) [] = COk crs ->
  assign_slots p crs = COk (crs', locals, asg) ->
  exists frs, flat_stage crs' = COk frs.
Proof.
  intros HS Hm HR HA. apply flat_stage_total. intros c' Hc'.
  rewrite (proj1 (assign_slots_facts p crs crs' locals asg HA)) in Hc'.
  apply in_map_iff in Hc'. destruct Hc' as (c & <- & Hc).
  destruct (compile_rec_origin o p crs HR c Hc) as [E|(r & Hr & E)].
  - destruct (routine_assigned_total (look_of asg) o None (p_main p) c eq_refl E Hm) as (order & code & _ & _ & S2 & F2).
    eauto.
  - destruct (HS r Hr) as [Dr Nr].
    destruct (routine_assigned_total (look_of asg) o (Some r) (decl_body o r) c Dr E (nec_decl_body o r Nr))
      as (order & code & _ & _ & S2 & F2).
    eauto.
Qed.

Theorem compile_components_no_crash o modes p e :
  o_opt_slots o = false ->
  (forall r, In r (p_subs p) -> r_deferred r = None /\ nec (r_body r) = true) ->
  nec (root_ast (p_main p)) = true ->
  compile_components o modes p = CErr e -> is_crash e = false.
Proof.
  intros Ho HS Hm H. unfold compile_components in H. rewrite Ho in H.
  destruct (negb _); [injection H as <-; reflexivity|].
  destruct (compile_rec (S (List.length (p_subs p))) o p None (p_main p) []) as [crs|e1] eqn:E1.
  2:{ injection H as <-. exact (compile_rec_no_crash o p (fun r Hr => proj1 (HS r Hr)) _ None _ _ _ eq_refl E1). }
  destruct (assign_slots p crs) as [[[crs2 locals] asg]|e2] eqn:E2;
    [|injection H as <-; exact (assign_slots_no_crash p crs e2 E2)].
  destruct (program_flat_stage_total o p crs crs2 locals asg HS Hm E1 E2) as (frs & EF).
  unfold flat_stage in EF. rewrite EF in H.
  destruct (spill (o_version o) p frs locals) as [frs2|e3] eqn:E3;
    [|injection H as <-; exact (spill_no_crash _ _ _ _ _ E3)].
  destruct (verify_ops o modes (flatten_subroutines frs2)) as [e4|] eqn:E4;
    [injection H as <-; exact (verify_ops_no_crash _ _ _ _ E4)|discriminate H].
Qed.

Theorem compile_model_no_crash o modes p e :
  o_opt_slots o = false ->
  (forall r, In r (p_subs p) -> r_deferred r = None /\ nec (r_body r) = true) ->
  nec (root_ast (p_main p)) = true ->
  compile_model o modes p = CErr e -> is_crash e = false.
Proof.
  intros Ho HS Hm H. unfold compile_model in H.
  destruct (compile_components o modes p) as [comps|e1] eqn:C.
  - destruct (assemble_all comps); [discriminate H|injection H as <-; reflexivity].
  - injection H as <-. exact (compile_components_no_crash o modes p e1 Ho HS Hm C).
Qed.
