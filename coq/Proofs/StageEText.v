(* Proofs/StageEText.v — stage E, part 2: the TEXT ROUND TRIP.
   The lines PyTeal prints for an instruction list ([Comp.Assemble.assemble_all], joined with line feeds) are read
   back by the assembler model ([AVM.Parse.statements_of_text]) as exactly the statements of the list
   ([StageELink.stmts_of]): comments dropped, the pragma recognised, every literal with its value. *)
From Coq Require Import List Arith NArith Ascii String Bool Lia.
From PV Require Import Base.Bytes Base.Sexp AVM.Syntax AVM.Machine AVM.Parse Src.Expr Src.Denote
  Comp.Blocks Comp.LinearSem Comp.Assemble Comp.SplitLines
  Proofs.LitLineProof Proofs.LitIntProof Proofs.C18Text Proofs.StageELink.
Import ListNotations.
Local Open Scope string_scope.
Local Open Scope list_scope.

(* ---------------------------------------------------------------------------------------------- *)
(* 1. the tokeniser on blank-separated words                                                        *)
(* ---------------------------------------------------------------------------------------------- *)

(* finished tokens are only ever prepended to *)
Lemma tok_acc : forall s cur i e b acc,
  tok_line s cur i e b acc = rev acc ++ tok_line s cur i e b [].
Proof.
  induction s as [|c t IH]; intros cur i e b acc.
  - cbn [tok_line]. destruct cur; cbn [rev app]; [now rewrite app_nil_r|reflexivity].
  - cbn [tok_line].
    repeat match goal with
           | |- context [if ?x then _ else _] => destruct x
           | |- context [match ?l with [] => _ | _ :: _ => _ end] => destruct l
           end;
      try apply IH;
      try (cbn [rev app]; now rewrite ?app_nil_r);
      try (rewrite IH; symmetry; rewrite IH; cbn [rev app]; rewrite <- ?app_assoc; reflexivity).
Qed.

(* word characters: ordinary for the tokeniser, and not a line feed *)
Definition wc (c : ascii) : bool := plainc c && negb (Ascii.eqb c newline).

(* a word: word characters, the last one may be a slash (the op names / and b/) *)
Fixpoint wordl (w : list ascii) : bool :=
  match w with
  | [] => true
  | [c] => wc c || Ascii.eqb c "/"
  | c :: t => wc c && wordl t
  end.

Definition word (s : string) : bool :=
  wordl (list_ascii_of_string s) && negb (String.eqb s "") && negb (String.eqb s "base64") && negb (String.eqb s "b64").

Lemma wc_plain c : wc c = true -> plainc c = true.
Proof. unfold wc. intros H. apply andb_true_iff in H as [H _]. exact H. Qed.

Lemma tok_wordl : forall w rest cur ib acc,
  wordl w = true -> (rest = [] \/ exists t, rest = " "%char :: t) ->
  tok_line (w ++ rest) cur false false ib acc = tok_line rest (rev w ++ cur) false false ib acc.
Proof.
  induction w as [|c w IH]; intros rest cur ib acc H R; [reflexivity|].
  destruct w as [|c2 w'].
  - cbn [wordl] in H. apply orb_true_iff in H as [H|H].
    + apply (LitLineProof.tok_plain [c] rest cur ib acc). cbn [forallb]. now rewrite (wc_plain c H).
    + apply Ascii.eqb_eq in H. subst c. cbn [app rev]. destruct R as [->|[t ->]]; reflexivity.
  - change (wordl (c :: c2 :: w')) with (wc c && wordl (c2 :: w')) in H. apply andb_true_iff in H as [Hc Hw].
    change ((c :: c2 :: w') ++ rest) with ([c] ++ ((c2 :: w') ++ rest)).
    rewrite (LitLineProof.tok_plain [c]) by (cbn [forallb]; now rewrite (wc_plain c Hc)).
    rewrite IH by assumption. cbn [rev app]. now rewrite <- !app_assoc.
Qed.

Lemma str_of_rev_nil l : str_of (rev l ++ []) = string_of_list_ascii l.
Proof. unfold str_of. now rewrite app_nil_r, rev_involutive. Qed.

Lemma word_nonempty w : word w = true -> list_ascii_of_string w <> [].
Proof.
  unfold word. intros H E. repeat (apply andb_true_iff in H as [H ?]).
  destruct w; [discriminate|discriminate E].
Qed.

Lemma word_parts w : word w = true ->
  wordl (list_ascii_of_string w) = true /\ String.eqb w "base64" = false /\ String.eqb w "b64" = false.
Proof.
  unfold word. intros H. repeat (apply andb_true_iff in H as [H ?]).
  repeat match goal with X : negb _ = true |- _ => apply negb_true_iff in X end. auto.
Qed.

(* a word, a blank, the rest of the line *)
Lemma tokens_cons w s : word w = true -> tokens_of_line (w ++ " " ++ s) = w :: tokens_of_line s.
Proof.
  intros H. destruct (word_parts w H) as (Hw & H1 & H2). pose proof (word_nonempty w H) as Hne.
  unfold tokens_of_line. rewrite !los_app. change (list_ascii_of_string " ") with [" "%char]. cbn [app].
  rewrite tok_wordl; [|exact Hw|right; eexists; reflexivity].
  cbn [tok_line]. change (is_space " ") with true. cbn iota.
  destruct (rev (list_ascii_of_string w) ++ []) as [|x l] eqn:E.
  { exfalso. rewrite app_nil_r in E. apply (f_equal (@rev ascii)) in E. rewrite rev_involutive in E. exact (Hne E). }
  rewrite <- E, str_of_rev_nil, sol_los, H1, H2. cbn [orb].
  rewrite tok_acc. reflexivity.
Qed.

Lemma tokens_word w : word w = true -> tokens_of_line w = [w].
Proof.
  intros H. destruct (word_parts w H) as (Hw & _ & _). pose proof (word_nonempty w H) as Hne.
  unfold tokens_of_line. rewrite <- (app_nil_r (list_ascii_of_string w)).
  rewrite tok_wordl; [|exact Hw|left; reflexivity].
  cbn [tok_line].
  destruct (rev (list_ascii_of_string w) ++ []) as [|x l] eqn:E.
  { exfalso. rewrite app_nil_r in E. apply (f_equal (@rev ascii)) in E. rewrite rev_involutive in E. exact (Hne E). }
  rewrite <- E, str_of_rev_nil, sol_los. reflexivity.
Qed.

Lemma tokens_words : forall ws, ws <> [] -> forallb word ws = true ->
  tokens_of_line (concat_sep " " ws) = ws.
Proof.
  induction ws as [|w t IH]; intros Hne H; [congruence|].
  cbn [forallb] in H. apply andb_true_iff in H as [Hw Ht].
  destruct t as [|w2 t'].
  - cbn [concat_sep]. apply tokens_word. exact Hw.
  - change (concat_sep " " (w :: w2 :: t')) with (w ++ " " ++ concat_sep " " (w2 :: t'))%string.
    rewrite tokens_cons by exact Hw. rewrite IH; [reflexivity|discriminate|exact Ht].
Qed.

(* no line feed inside *)
Definition no_nlb (s : string) : bool := forallb (fun c => negb (Ascii.eqb c newline)) (list_ascii_of_string s).

Lemma no_nlb_spec s : no_nlb s = true -> no_nl (list_ascii_of_string s).
Proof.
  unfold no_nlb, no_nl. intros H. rewrite forallb_forall in H. apply Forall_forall. intros c Hin E.
  specialize (H c Hin). subst c. discriminate H.
Qed.

Lemma no_nl_app a b : no_nl a -> no_nl b -> no_nl (a ++ b).
Proof. unfold no_nl. intros. apply Forall_app. split; assumption. Qed.

Lemma wordl_no_nl : forall w, wordl w = true -> no_nl w.
Proof.
  induction w as [|c w IH]; intros H; [constructor|].
  destruct w as [|c2 w'].
  - cbn [wordl] in H. constructor; [|constructor]. intros ->. vm_compute in H. discriminate H.
  - change (wordl (c :: c2 :: w')) with (wc c && wordl (c2 :: w')) in H. apply andb_true_iff in H as [Hc Hw].
    constructor; [|apply IH; exact Hw]. intros ->. vm_compute in Hc. discriminate Hc.
Qed.

Lemma word_no_nl w : word w = true -> no_nl (list_ascii_of_string w).
Proof. intros H. apply wordl_no_nl. apply (word_parts w H). Qed.

Lemma words_no_nl : forall ws, forallb word ws = true -> no_nl (list_ascii_of_string (concat_sep " " ws)).
Proof.
  induction ws as [|w t IH]; intros H; [constructor|].
  cbn [forallb] in H. apply andb_true_iff in H as [Hw Ht].
  destruct t as [|w2 t'].
  - cbn [concat_sep]. apply word_no_nl. exact Hw.
  - change (concat_sep " " (w :: w2 :: t')) with (w ++ " " ++ concat_sep " " (w2 :: t'))%string.
    rewrite !los_app. apply no_nl_app; [apply word_no_nl; exact Hw|]. apply no_nl_app; [|apply IH; exact Ht].
    constructor; [|constructor]. intros E. discriminate E.
Qed.

Lemma word_not_semi w : word w = true -> String.eqb w ";" = false.
Proof.
  intros H. destruct (String.eqb w ";") eqn:E; [|reflexivity].
  apply String.eqb_eq in E. subst w. vm_compute in H. discriminate H.
Qed.

(* decimal numbers are words *)
Lemma digit_wc c : is_digit c = true -> wc c = true.
Proof. destruct c as [[|] [|] [|] [|] [|] [|] [|] [|]]; cbn; intros H; try discriminate H; reflexivity. Qed.

Lemma wc_wordl : forall l, forallb wc l = true -> wordl l = true.
Proof.
  induction l as [|c l IH]; intros H; [reflexivity|].
  cbn [forallb] in H. apply andb_true_iff in H as [Hc Hl].
  destruct l as [|c2 l']; [cbn [wordl]; now rewrite Hc|].
  change (wordl (c :: c2 :: l')) with (wc c && wordl (c2 :: l')). now rewrite Hc, IH.
Qed.

Lemma forallb_impl {A} (p q : A -> bool) : (forall x, p x = true -> q x = true) ->
  forall l, forallb p l = true -> forallb q l = true.
Proof.
  intros H l. induction l as [|x l IH]; cbn; [reflexivity|].
  intros E. apply andb_true_iff in E as [E1 E2]. now rewrite (H x E1), IH.
Qed.

Lemma dec_word n : word (N_to_dec n) = true.
Proof.
  unfold word. pose proof (N_to_dec_digits n) as D.
  rewrite (wc_wordl _ (forallb_impl _ _ digit_wc _ D)). cbn [andb].
  assert (F : forall s, (match s with String c _ => is_digit c | EmptyString => false end) = false ->
                        String.eqb (N_to_dec n) s = false).
  { intros s Hs. destruct (String.eqb (N_to_dec n) s) eqn:E; [|reflexivity].
    apply String.eqb_eq in E. rewrite E in D. destruct s as [|c s']; [exfalso; apply (N_to_dec_nonempty n); exact E|].
    cbn [list_ascii_of_string forallb] in D. apply andb_true_iff in D as [D _]. rewrite D in Hs. discriminate Hs. }
  rewrite !F by reflexivity. reflexivity.
Qed.

(* ---------------------------------------------------------------------------------------------- *)
(* 2. the statement parser on an op word and its arguments                                          *)
(* ---------------------------------------------------------------------------------------------- *)

(* how the assembler model reads the arguments of an opcode *)
Inductive okind : Type := KComment | KInt | KByte | KAddr | KMethod | KBranch | KExcl | KGen.

Definition kind_of (o : opc) : okind :=
  match o with
  | O_comment => KComment
  | O_int | O_pushint => KInt
  | O_byte | O_pushbytes => KByte
  | O_addr => KAddr
  | O_method_signature => KMethod
  | O_b | O_bz | O_bnz | O_callsub => KBranch
  | O_intcblock | O_pushints | O_bytecblock | O_pushbytess | O_switch | O_match_ | O_frame_dig | O_frame_bury => KExcl
  | _ => KGen
  end.

(* table facts, by computation over the 190 opcodes *)
Lemma opc_name_word o : is_comment o = false -> word (opc_name o) = true.
Proof. destruct o; intros H; try discriminate H; vm_compute; reflexivity. Qed.

Lemma opc_name_reads_back o : is_comment o = false -> parse_opc (opc_name o) = Some o.
Proof. destruct o; intros H; try discriminate H; vm_compute; reflexivity. Qed.

Lemma kind_not_comment o : kind_of o <> KComment -> is_comment o = false.
Proof. destruct o; intros H; try reflexivity. exfalso. apply H. reflexivity. Qed.

Definition mkS (o : opc) (imms : list imm) : option (option stmt) := Some (Some (SInstr (mkP o imms))).

Lemma parse_gen msel o args : kind_of o = KGen ->
  parse_stmt msel (opc_name o :: args) = mkS o (map generic_imm args).
Proof. destruct o; intros H; try discriminate H; reflexivity. Qed.

Lemma parse_int msel o a : kind_of o = KInt ->
  parse_stmt msel [opc_name o; a] = match parse_int_arg a with Some n => mkS o [IInt n] | None => None end.
Proof. destruct o; intros H; try discriminate H; reflexivity. Qed.

Lemma parse_byte msel o ts : kind_of o = KByte ->
  parse_stmt msel (opc_name o :: ts) = match parse_bytes_arg ts with Some (b, []) => mkS o [IBytes b] | _ => None end.
Proof. destruct o; intros H; try discriminate H; reflexivity. Qed.

Lemma parse_addr msel o a : kind_of o = KAddr ->
  parse_stmt msel [opc_name o; a] =
  if (String.length a =? 58)%nat
  then match decode_base32 a with Some b => mkS o [IBytes (firstn 32 b)] | None => None end
  else None.
Proof. destruct o; intros H; try discriminate H; reflexivity. Qed.

Lemma parse_method msel o a : kind_of o = KMethod ->
  parse_stmt msel [opc_name o; a] =
  match parse_string_literal a with
  | Some sig => match alookup String.eqb (string_of_bytes sig) msel with Some sel => mkS o [IBytes sel] | None => None end
  | None => None
  end.
Proof. destruct o; intros H; try discriminate H; reflexivity. Qed.

Lemma parse_branch msel o l : kind_of o = KBranch -> parse_stmt msel [opc_name o; l] = mkS o [IName l].
Proof. destruct o; intros H; try discriminate H; reflexivity. Qed.

(* ... and what [imm_of_arg] does for the same opcode *)
Lemma imm_gen_str msel o s : kind_of o = KGen -> imm_of_arg msel o (AStr s) = Some (IName s).
Proof. destruct o; intros H; try discriminate H; reflexivity. Qed.
Lemma imm_branch_str msel o s : kind_of o = KBranch -> imm_of_arg msel o (AStr s) = Some (IName s).
Proof. destruct o; intros H; try discriminate H; reflexivity. Qed.
Lemma imm_int_str msel o s : kind_of o = KInt -> imm_of_arg msel o (AStr s) = option_map IInt (parse_int_arg s).
Proof. destruct o; intros H; try discriminate H; reflexivity. Qed.
Lemma imm_byte_str msel o s : kind_of o = KByte ->
  imm_of_arg msel o (AStr s) = match parse_bytes_arg (tokens_of_line s) with Some (b, []) => Some (IBytes b) | _ => None end.
Proof. destruct o; intros H; try discriminate H; reflexivity. Qed.
Lemma imm_addr_str msel o s : kind_of o = KAddr ->
  imm_of_arg msel o (AStr s) = match decode_base32 s with Some b => Some (IBytes (firstn 32 b)) | None => None end.
Proof. destruct o; intros H; try discriminate H; reflexivity. Qed.
Lemma imm_method_str msel o s : kind_of o = KMethod ->
  imm_of_arg msel o (AStr s) =
  match parse_string_literal s with
  | Some sig => option_map IBytes (alookup String.eqb (string_of_bytes sig) msel)
  | None => None
  end.
Proof. destruct o; intros H; try discriminate H; reflexivity. Qed.

(* ---------------------------------------------------------------------------------------------- *)
(* 3. printable components                                                                          *)
(* ---------------------------------------------------------------------------------------------- *)
Definition is_some {A} (x : option A) : bool := match x with Some _ => true | None => false end.
Definition is_none {A} (x : option A) : bool := match x with Some _ => false | None => true end.

(* an argument of an op without special argument syntax: a number, or a name (a word that is not a number) *)
Definition gen_arg (a : arg) : bool :=
  match a with
  | AInt _ => true
  | AStr s => word s && is_none (parse_uint s)
  | _ => false
  end.

Fixpoint strs_eqb (a b : list string) : bool :=
  match a, b with
  | [], [] => true
  | x :: a', y :: b' => String.eqb x y && strs_eqb a' b'
  | _, _ => false
  end.
Lemma strs_eqb_eq a : forall b, strs_eqb a b = true -> a = b.
Proof.
  induction a as [|x a IH]; intros [|y b] H; try discriminate H; [reflexivity|].
  cbn in H. apply andb_true_iff in H as [H1 H2]. apply String.eqb_eq in H1. now rewrite H1, (IH b H2).
Qed.

(* the syntactic class of instructions whose printed line is read back as the same instruction:
   - comment ops (text without line feed);
   - int / pushint with a number below 2^64 or a named constant;
   - byte / pushbytes with ONE spelling the assembler's literal reader accepts (quoted string with escapes, 0x hex,
     base32(..), base64(..), or the two-token forms), free of line feeds;
   - addr with a 58-character base32 word; method with a quoted signature found in the selector table;
   - b / bz / bnz / callsub with a label word;
   - every other opcode except the constant blocks, pushints/pushbytess, switch/match and frame_dig/frame_bury:
     numbers and names as arguments. *)
Definition printable_instr (msel : list (string * bytes)) (i : instr) : bool :=
  match kind_of (i_op i), i_args i with
  | KComment, args => forallb (fun a => match a with AStr s => no_nlb s | _ => false end) args
  | KInt, [AInt n] => (n <? 18446744073709551616)%N
  | KInt, [AStr s] => word s && is_some (parse_int_arg s)
  | KByte, [AStr s] =>
      no_nlb s && negb (String.eqb s "") &&
      match parse_bytes_arg (tokens_of_line s) with Some (_, []) => true | _ => false end
  | KAddr, [AStr s] => word s && (String.length s =? 58)%nat && is_some (decode_base32 s)
  | KMethod, [AStr s] =>
      no_nlb s && strs_eqb (tokens_of_line s) [s] &&
      match parse_string_literal s with
      | Some sig => is_some (alookup String.eqb (string_of_bytes sig) msel)
      | None => false
      end
  | KBranch, [ALbl l] => word l
  | KBranch, [AStr l] => word l
  | KGen, args => forallb gen_arg args
  | _, _ => false
  end.

Definition printable_comp (msel : list (string * bytes)) (c : comp) : bool :=
  match c with
  | COp i => printable_instr msel i
  | CLabel l None => negb (String.eqb l "") && forallb label_char (list_ascii_of_string l)
  | CLabel _ (Some _) => false
  | CPragma _ => true
  end.

Definition printable (msel : list (string * bytes)) (code : list comp) : bool := forallb (printable_comp msel) code.

(* what one line contributes *)
Definition line_stmts (msel : list (string * bytes)) (ln : string) : option (list stmt) :=
  parse_stmts msel (split_semis (tokens_of_line ln) []).

Lemma split_semis_none : forall ts cur,
  forallb (fun t => negb (String.eqb t ";")) ts = true -> split_semis ts cur = [rev cur ++ ts].
Proof.
  induction ts as [|t r IH]; intros cur H; cbn [split_semis]; [now rewrite app_nil_r|].
  cbn [forallb] in H. apply andb_true_iff in H as [Ht Hr]. apply negb_true_iff in Ht. rewrite Ht.
  rewrite IH by exact Hr. cbn [rev]. now rewrite <- app_assoc.
Qed.

Lemma line_one msel ln ts r :
  tokens_of_line ln = ts -> forallb (fun t => negb (String.eqb t ";")) ts = true ->
  parse_stmt msel ts = Some r ->
  line_stmts msel ln = Some (match r with Some s => [s] | None => [] end).
Proof.
  intros T Hs Pr. unfold line_stmts. rewrite T, split_semis_none by exact Hs. cbn [rev app parse_stmts].
  rewrite Pr. destruct r; reflexivity.
Qed.

Lemma words_no_semi ws : forallb word ws = true -> forallb (fun t => negb (String.eqb t ";")) ws = true.
Proof. apply forallb_impl. intros w H. now rewrite (word_not_semi w H). Qed.

(* a byte literal the reader accepts as the whole argument contains no statement separator *)
Lemma decode_base64_semi : decode_base64 ";" = None. Proof. vm_compute. reflexivity. Qed.
Lemma decode_base32_semi : decode_base32 ";" = None. Proof. vm_compute. reflexivity. Qed.

Lemma parse_bytes_arg_no_semi ts b :
  parse_bytes_arg ts = Some (b, []) -> forallb (fun t => negb (String.eqb t ";")) ts = true.
Proof.
  intros H. destruct ts as [|tk rest]; [reflexivity|].
  unfold parse_bytes_arg in H.
  destruct (String.eqb tk "base64" || String.eqb tk "b64") eqn:E1.
  { destruct rest as [|a r]; [discriminate H|].
    destruct (decode_base64 a) as [x|] eqn:D; [|discriminate H]. cbn [option_map] in H. injection H as _ ->.
    cbn [forallb]. destruct (String.eqb tk ";") eqn:Et.
    - apply String.eqb_eq in Et. subst tk. discriminate E1.
    - destruct (String.eqb a ";") eqn:Ea; [|reflexivity].
      apply String.eqb_eq in Ea. subst a. rewrite decode_base64_semi in D. discriminate D. }
  destruct (String.eqb tk "base32" || String.eqb tk "b32") eqn:E2.
  { destruct rest as [|a r]; [discriminate H|].
    destruct (decode_base32 a) as [x|] eqn:D; [|discriminate H]. cbn [option_map] in H. injection H as _ ->.
    cbn [forallb]. destruct (String.eqb tk ";") eqn:Et.
    - apply String.eqb_eq in Et. subst tk. discriminate E2.
    - destruct (String.eqb a ";") eqn:Ea; [|reflexivity].
      apply String.eqb_eq in Ea. subst a. rewrite decode_base32_semi in D. discriminate D. }
  assert (R : rest = []).
  { repeat match type of H with
           | match ?x with Some _ => _ | None => _ end = _ => destruct x
           | option_map _ ?x = _ => destruct x; cbn [option_map] in H
           end; try discriminate H; injection H as _ ->; reflexivity. }
  subst rest. cbn [forallb]. destruct (String.eqb tk ";") eqn:Et; [|reflexivity].
  apply String.eqb_eq in Et. subst tk. vm_compute in H. discriminate H.
Qed.
