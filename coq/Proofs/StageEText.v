(* Proofs/StageEText.v — stage E, part 2: the TEXT ROUND TRIP.
   The lines PyTeal prints for an instruction list ([Comp.Assemble.assemble_all], joined with line feeds) are read
   back by the assembler model ([AVM.Parse.statements_of_text]) as exactly the statements of the list
   ([StageELink.stmts_of]): comments dropped, the pragma recognised, every literal with its value. *)
From Coq Require Import List Arith NArith Ascii String Bool Lia.
From PV Require Import Base.Bytes Base.Sexp AVM.Syntax AVM.Machine AVM.Parse Src.Expr Src.Denote
  Comp.Blocks Comp.LinearSem Comp.Assemble Comp.SplitLines
  Proofs.LitLineProof Proofs.LitIntProof Proofs.C18Text Proofs.StageELink.
Import ListNotations.
Local Open Scope string_scope.
Local Open Scope list_scope.

(* ---------------------------------------------------------------------------------------------- *)
(* 1. the tokeniser on blank-separated words                                                        *)
(* ---------------------------------------------------------------------------------------------- *)

(* finished tokens are only ever prepended to *)
Lemma tok_acc : forall s cur i e b acc,
  tok_line s cur i e b acc = rev acc ++ tok_line s cur i e b [].
Proof.
  induction s as [|c t IH]; intros cur i e b acc.
  - cbn [tok_line]. destruct cur; cbn [rev app]; [now rewrite app_nil_r|reflexivity].
  - cbn [tok_line].
    repeat match goal with
           | |- context [if ?x then _ else _] => destruct x
           | |- context [match ?l with [] => _ | _ :: _ => _ end] => destruct l
           end;
      try apply IH;
      try (cbn [rev app]; now rewrite ?app_nil_r);
      try (rewrite IH; symmetry; rewrite IH; cbn [rev app]; rewrite <- ?app_assoc; reflexivity).
Qed.

(* word characters: ordinary for the tokeniser, and not a line feed *)
Definition wc (c : ascii) : bool := plainc c && negb (Ascii.eqb c newline).

(* a word: word characters, the last one may be a slash (the op names / and b/) *)
Fixpoint wordl (w : list ascii) : bool :=
  match w with
  | [] => true
  | [c] => wc c || Ascii.eqb c "/"
  | c :: t => wc c && wordl t
  end.

Definition word (s : string) : bool :=
  wordl (list_ascii_of_string s) && negb (String.eqb s "") && negb (String.eqb s "base64") && negb (String.eqb s "b64").

Lemma wc_plain c : wc c = true -> plainc c = true.
Proof. unfold wc. intros H. apply andb_true_iff in H as [H _]. exact H. Qed.

Lemma tok_wordl : forall w rest cur ib acc,
  wordl w = true -> (rest = [] \/ exists t, rest = " "%char :: t) ->
  tok_line (w ++ rest) cur false false ib acc = tok_line rest (rev w ++ cur) false false ib acc.
Proof.
  induction w as [|c w IH]; intros rest cur ib acc H R; [reflexivity|].
  destruct w as [|c2 w'].
  - cbn [wordl] in H. apply orb_true_iff in H as [H|H].
    + apply (LitLineProof.tok_plain [c] rest cur ib acc). cbn [forallb]. now rewrite (wc_plain c H).
    + apply Ascii.eqb_eq in H. subst c. cbn [app rev]. destruct R as [->|[t ->]]; reflexivity.
  - change (wordl (c :: c2 :: w')) with (wc c && wordl (c2 :: w')) in H. apply andb_true_iff in H as [Hc Hw].
    change ((c :: c2 :: w') ++ rest) with ([c] ++ ((c2 :: w') ++ rest)).
    rewrite (LitLineProof.tok_plain [c]) by (cbn [forallb]; now rewrite (wc_plain c Hc)).
    rewrite IH by assumption. cbn [rev app]. now rewrite <- !app_assoc.
Qed.

Lemma str_of_rev_nil l : str_of (rev l ++ []) = string_of_list_ascii l.
Proof. unfold str_of. now rewrite app_nil_r, rev_involutive. Qed.

Lemma word_nonempty w : word w = true -> list_ascii_of_string w <> [].
Proof.
  unfold word. intros H E. repeat (apply andb_true_iff in H as [H ?]).
  destruct w; [discriminate|discriminate E].
Qed.

Lemma word_parts w : word w = true ->
  wordl (list_ascii_of_string w) = true /\ String.eqb w "base64" = false /\ String.eqb w "b64" = false.
Proof.
  unfold word. intros H. repeat (apply andb_true_iff in H as [H ?]).
  repeat match goal with X : negb _ = true |- _ => apply negb_true_iff in X end. auto.
Qed.

(* a word, a blank, the rest of the line *)
Lemma tokens_cons w s : word w = true -> tokens_of_line (w ++ " " ++ s) = w :: tokens_of_line s.
Proof.
  intros H. destruct (word_parts w H) as (Hw & H1 & H2). pose proof (word_nonempty w H) as Hne.
  unfold tokens_of_line. rewrite !los_app. change (list_ascii_of_string " ") with [" "%char]. cbn [app].
  rewrite tok_wordl; [|exact Hw|right; eexists; reflexivity].
  cbn [tok_line]. change (is_space " ") with true. cbn iota.
  destruct (rev (list_ascii_of_string w) ++ []) as [|x l] eqn:E.
  { exfalso. rewrite app_nil_r in E. apply (f_equal (@rev ascii)) in E. rewrite rev_involutive in E. exact (Hne E). }
  rewrite <- E, str_of_rev_nil, sol_los, H1, H2. cbn [orb].
  rewrite tok_acc. reflexivity.
Qed.

Lemma tokens_word w : word w = true -> tokens_of_line w = [w].
Proof.
  intros H. destruct (word_parts w H) as (Hw & _ & _). pose proof (word_nonempty w H) as Hne.
  unfold tokens_of_line. rewrite <- (app_nil_r (list_ascii_of_string w)).
  rewrite tok_wordl; [|exact Hw|left; reflexivity].
  cbn [tok_line].
  destruct (rev (list_ascii_of_string w) ++ []) as [|x l] eqn:E.
  { exfalso. rewrite app_nil_r in E. apply (f_equal (@rev ascii)) in E. rewrite rev_involutive in E. exact (Hne E). }
  rewrite <- E, str_of_rev_nil, sol_los. reflexivity.
Qed.

Lemma tokens_words : forall ws, ws <> [] -> forallb word ws = true ->
  tokens_of_line (concat_sep " " ws) = ws.
Proof.
  induction ws as [|w t IH]; intros Hne H; [congruence|].
  cbn [forallb] in H. apply andb_true_iff in H as [Hw Ht].
  destruct t as [|w2 t'].
  - cbn [concat_sep]. apply tokens_word. exact Hw.
  - change (concat_sep " " (w :: w2 :: t')) with (w ++ " " ++ concat_sep " " (w2 :: t'))%string.
    rewrite tokens_cons by exact Hw. rewrite IH; [reflexivity|discriminate|exact Ht].
Qed.

(* no line feed inside *)
Definition no_nlb (s : string) : bool := forallb (fun c => negb (Ascii.eqb c newline)) (list_ascii_of_string s).

Lemma no_nlb_spec s : no_nlb s = true -> no_nl (list_ascii_of_string s).
Proof.
  unfold no_nlb, no_nl. intros H. rewrite forallb_forall in H. apply Forall_forall. intros c Hin E.
  specialize (H c Hin). subst c. discriminate H.
Qed.

Lemma no_nl_app a b : no_nl a -> no_nl b -> no_nl (a ++ b).
Proof. unfold no_nl. intros. apply Forall_app. split; assumption. Qed.

Lemma wordl_no_nl : forall w, wordl w = true -> no_nl w.
Proof.
  induction w as [|c w IH]; intros H; [constructor|].
  destruct w as [|c2 w'].
  - cbn [wordl] in H. constructor; [|constructor]. intros ->. vm_compute in H. discriminate H.
  - change (wordl (c :: c2 :: w')) with (wc c && wordl (c2 :: w')) in H. apply andb_true_iff in H as [Hc Hw].
    constructor; [|apply IH; exact Hw]. intros ->. vm_compute in Hc. discriminate Hc.
Qed.

Lemma word_no_nl w : word w = true -> no_nl (list_ascii_of_string w).
Proof. intros H. apply wordl_no_nl. apply (word_parts w H). Qed.

Lemma words_no_nl : forall ws, forallb word ws = true -> no_nl (list_ascii_of_string (concat_sep " " ws)).
Proof.
  induction ws as [|w t IH]; intros H; [constructor|].
  cbn [forallb] in H. apply andb_true_iff in H as [Hw Ht].
  destruct t as [|w2 t'].
  - cbn [concat_sep]. apply word_no_nl. exact Hw.
  - change (concat_sep " " (w :: w2 :: t')) with (w ++ " " ++ concat_sep " " (w2 :: t'))%string.
    rewrite !los_app. apply no_nl_app; [apply word_no_nl; exact Hw|]. apply no_nl_app; [|apply IH; exact Ht].
    constructor; [|constructor]. intros E. discriminate E.
Qed.

Lemma word_not_semi w : word w = true -> String.eqb w ";" = false.
Proof.
  intros H. destruct (String.eqb w ";") eqn:E; [|reflexivity].
  apply String.eqb_eq in E. subst w. vm_compute in H. discriminate H.
Qed.

(* decimal numbers are words *)
Lemma digit_wc c : is_digit c = true -> wc c = true.
Proof. destruct c as [[|] [|] [|] [|] [|] [|] [|] [|]]; cbn; intros H; try discriminate H; reflexivity. Qed.

Lemma wc_wordl : forall l, forallb wc l = true -> wordl l = true.
Proof.
  induction l as [|c l IH]; intros H; [reflexivity|].
  cbn [forallb] in H. apply andb_true_iff in H as [Hc Hl].
  destruct l as [|c2 l']; [cbn [wordl]; now rewrite Hc|].
  change (wordl (c :: c2 :: l')) with (wc c && wordl (c2 :: l')). now rewrite Hc, IH.
Qed.

Lemma forallb_impl {A} (p q : A -> bool) : (forall x, p x = true -> q x = true) ->
  forall l, forallb p l = true -> forallb q l = true.
Proof.
  intros H l. induction l as [|x l IH]; cbn; [reflexivity|].
  intros E. apply andb_true_iff in E as [E1 E2]. now rewrite (H x E1), IH.
Qed.

Lemma dec_word n : word (N_to_dec n) = true.
Proof.
  unfold word. pose proof (N_to_dec_digits n) as D.
  rewrite (wc_wordl _ (forallb_impl _ _ digit_wc _ D)). cbn [andb].
  assert (F : forall s, (match s with String c _ => is_digit c | EmptyString => false end) = false ->
                        String.eqb (N_to_dec n) s = false).
  { intros s Hs. destruct (String.eqb (N_to_dec n) s) eqn:E; [|reflexivity].
    apply String.eqb_eq in E. rewrite E in D. destruct s as [|c s']; [exfalso; apply (N_to_dec_nonempty n); exact E|].
    cbn [list_ascii_of_string forallb] in D. apply andb_true_iff in D as [D _]. rewrite D in Hs. discriminate Hs. }
  rewrite !F by reflexivity. reflexivity.
Qed.

(* ---------------------------------------------------------------------------------------------- *)
(* 2. the statement parser on an op word and its arguments                                          *)
(* ---------------------------------------------------------------------------------------------- *)

(* how the assembler model reads the arguments of an opcode *)
Inductive okind : Type := KComment | KInt | KByte | KAddr | KMethod | KBranch | KExcl | KGen.

Definition kind_of (o : opc) : okind :=
  match o with
  | O_comment => KComment
  | O_int | O_pushint => KInt
  | O_byte | O_pushbytes => KByte
  | O_addr => KAddr
  | O_method_signature => KMethod
  | O_b | O_bz | O_bnz | O_callsub => KBranch
  | O_intcblock | O_pushints | O_bytecblock | O_pushbytess | O_switch | O_match_ | O_frame_dig | O_frame_bury => KExcl
  | _ => KGen
  end.

(* table facts, by computation over the 190 opcodes *)
Lemma opc_name_word o : is_comment o = false -> word (opc_name o) = true.
Proof. destruct o; intros H; try discriminate H; vm_compute; reflexivity. Qed.

Lemma opc_name_reads_back o : is_comment o = false -> parse_opc (opc_name o) = Some o.
Proof. destruct o; intros H; try discriminate H; vm_compute; reflexivity. Qed.

Lemma kind_not_comment o : kind_of o <> KComment -> is_comment o = false.
Proof. destruct o; intros H; try reflexivity. exfalso. apply H. reflexivity. Qed.

Definition mkS (o : opc) (imms : list imm) : option (option stmt) := Some (Some (SInstr (mkP o imms))).

Lemma parse_gen msel o args : kind_of o = KGen ->
  parse_stmt msel (opc_name o :: args) = mkS o (map generic_imm args).
Proof. destruct o; intros H; try discriminate H; reflexivity. Qed.

Lemma parse_int msel o a : kind_of o = KInt ->
  parse_stmt msel [opc_name o; a] = match parse_int_arg a with Some n => mkS o [IInt n] | None => None end.
Proof. destruct o; intros H; try discriminate H; reflexivity. Qed.

Lemma parse_byte msel o ts : kind_of o = KByte ->
  parse_stmt msel (opc_name o :: ts) = match parse_bytes_arg ts with Some (b, []) => mkS o [IBytes b] | _ => None end.
Proof. destruct o; intros H; try discriminate H; reflexivity. Qed.

Lemma parse_addr msel o a : kind_of o = KAddr ->
  parse_stmt msel [opc_name o; a] =
  if (String.length a =? 58)%nat
  then match decode_base32 a with Some b => mkS o [IBytes (firstn 32 b)] | None => None end
  else None.
Proof. destruct o; intros H; try discriminate H; reflexivity. Qed.

Lemma parse_method msel o a : kind_of o = KMethod ->
  parse_stmt msel [opc_name o; a] =
  match parse_string_literal a with
  | Some sig => match alookup String.eqb (string_of_bytes sig) msel with Some sel => mkS o [IBytes sel] | None => None end
  | None => None
  end.
Proof. destruct o; intros H; try discriminate H; reflexivity. Qed.

Lemma parse_branch msel o l : kind_of o = KBranch -> parse_stmt msel [opc_name o; l] = mkS o [IName l].
Proof. destruct o; intros H; try discriminate H; reflexivity. Qed.

(* ... and what [imm_of_arg] does for the same opcode *)
Lemma imm_gen_str msel o s : kind_of o = KGen -> imm_of_arg msel o (AStr s) = Some (IName s).
Proof. destruct o; intros H; try discriminate H; reflexivity. Qed.
Lemma imm_branch_str msel o s : kind_of o = KBranch -> imm_of_arg msel o (AStr s) = Some (IName s).
Proof. destruct o; intros H; try discriminate H; reflexivity. Qed.
Lemma imm_int_str msel o s : kind_of o = KInt -> imm_of_arg msel o (AStr s) = option_map IInt (parse_int_arg s).
Proof. destruct o; intros H; try discriminate H; reflexivity. Qed.
Lemma imm_byte_str msel o s : kind_of o = KByte ->
  imm_of_arg msel o (AStr s) = match parse_bytes_arg (tokens_of_line s) with Some (b, []) => Some (IBytes b) | _ => None end.
Proof. destruct o; intros H; try discriminate H; reflexivity. Qed.
Lemma imm_addr_str msel o s : kind_of o = KAddr ->
  imm_of_arg msel o (AStr s) = match decode_base32 s with Some b => Some (IBytes (firstn 32 b)) | None => None end.
Proof. destruct o; intros H; try discriminate H; reflexivity. Qed.
Lemma imm_method_str msel o s : kind_of o = KMethod ->
  imm_of_arg msel o (AStr s) =
  match parse_string_literal s with
  | Some sig => option_map IBytes (alookup String.eqb (string_of_bytes sig) msel)
  | None => None
  end.
Proof. destruct o; intros H; try discriminate H; reflexivity. Qed.

(* ---------------------------------------------------------------------------------------------- *)
(* 3. printable components                                                                          *)
(* ---------------------------------------------------------------------------------------------- *)
Definition is_some {A} (x : option A) : bool := match x with Some _ => true | None => false end.
Definition is_none {A} (x : option A) : bool := match x with Some _ => false | None => true end.

(* an argument of an op without special argument syntax: a number, or a name (a word that is not a number) *)
Definition gen_arg (a : arg) : bool :=
  match a with
  | AInt _ => true
  | AStr s => word s && is_none (parse_uint s)
  | _ => false
  end.

Fixpoint strs_eqb (a b : list string) : bool :=
  match a, b with
  | [], [] => true
  | x :: a', y :: b' => String.eqb x y && strs_eqb a' b'
  | _, _ => false
  end.
Lemma strs_eqb_eq a : forall b, strs_eqb a b = true -> a = b.
Proof.
  induction a as [|x a IH]; intros [|y b] H; try discriminate H; [reflexivity|].
  cbn in H. apply andb_true_iff in H as [H1 H2]. apply String.eqb_eq in H1. now rewrite H1, (IH b H2).
Qed.

(* the syntactic class of instructions whose printed line is read back as the same instruction:
   - comment ops (text without line feed);
   - int / pushint with a number below 2^64 or a named constant;
   - byte / pushbytes with ONE spelling the assembler's literal reader accepts (quoted string with escapes, 0x hex,
     base32(..), base64(..), or the two-token forms), free of line feeds;
   - addr with a 58-character base32 word; method with a quoted signature found in the selector table;
   - b / bz / bnz with a label reference or a label word, callsub with a label word (the resolved subroutine label);
   - every other opcode except the constant blocks, pushints/pushbytess, switch/match and frame_dig/frame_bury:
     numbers and names as arguments. *)
Definition printable_instr (msel : list (string * bytes)) (i : instr) : bool :=
  match kind_of (i_op i), i_args i with
  | KComment, args => forallb (fun a => match a with AStr s => no_nlb s | _ => false end) args
  | KInt, [AInt n] => (n <? 18446744073709551616)%N
  | KInt, [AStr s] => word s && is_some (parse_int_arg s)
  | KByte, [AStr s] =>
      no_nlb s &&
      match parse_bytes_arg (tokens_of_line s) with Some (_, []) => true | _ => false end
  | KAddr, [AStr s] => word s && (String.length s =? 58)%nat && is_some (decode_base32 s)
  | KMethod, [AStr s] =>
      no_nlb s && strs_eqb (tokens_of_line s) [s] &&
      match parse_string_literal s with
      | Some sig => is_some (alookup String.eqb (string_of_bytes sig) msel)
      | None => false
      end
  | KBranch, [ALbl l] => word l && is_branch (i_op i)
  | KBranch, [AStr l] => word l
  | KGen, args => forallb gen_arg args
  | _, _ => false
  end.

Definition printable_comp (msel : list (string * bytes)) (c : comp) : bool :=
  match c with
  | COp i => printable_instr msel i
  | CLabel l _ => negb (String.eqb l "") && forallb label_char (list_ascii_of_string l)
  | CPragma _ => true
  end.

Definition printable (msel : list (string * bytes)) (code : list comp) : bool := forallb (printable_comp msel) code.

(* what one line contributes *)
Definition line_stmts (msel : list (string * bytes)) (ln : string) : option (list stmt) :=
  parse_stmts msel (split_semis (tokens_of_line ln) []).

Lemma split_semis_none : forall ts cur,
  forallb (fun t => negb (String.eqb t ";")) ts = true -> split_semis ts cur = [rev cur ++ ts].
Proof.
  induction ts as [|t r IH]; intros cur H; cbn [split_semis]; [now rewrite app_nil_r|].
  cbn [forallb] in H. apply andb_true_iff in H as [Ht Hr]. apply negb_true_iff in Ht. rewrite Ht.
  rewrite IH by exact Hr. cbn [rev]. now rewrite <- app_assoc.
Qed.

Lemma line_one msel ln ts r :
  tokens_of_line ln = ts -> forallb (fun t => negb (String.eqb t ";")) ts = true ->
  parse_stmt msel ts = Some r ->
  line_stmts msel ln = Some (match r with Some s => [s] | None => [] end).
Proof.
  intros T Hs Pr. unfold line_stmts. rewrite T, split_semis_none by exact Hs. cbn [rev app parse_stmts].
  rewrite Pr. destruct r; reflexivity.
Qed.

Lemma words_no_semi ws : forallb word ws = true -> forallb (fun t => negb (String.eqb t ";")) ws = true.
Proof. apply forallb_impl. intros w H. now rewrite (word_not_semi w H). Qed.

(* a byte literal the reader accepts as the whole argument contains no statement separator *)
Lemma decode_base64_semi : decode_base64 ";" = None. Proof. vm_compute. reflexivity. Qed.
Lemma decode_base32_semi : decode_base32 ";" = None. Proof. vm_compute. reflexivity. Qed.

Lemma parse_bytes_arg_no_semi ts b :
  parse_bytes_arg ts = Some (b, []) -> forallb (fun t => negb (String.eqb t ";")) ts = true.
Proof.
  intros H. destruct ts as [|tk rest]; [reflexivity|].
  unfold parse_bytes_arg in H.
  destruct (String.eqb tk "base64" || String.eqb tk "b64") eqn:E1.
  { destruct rest as [|a r]; [discriminate H|].
    destruct (decode_base64 a) as [x|] eqn:D; [|discriminate H]. cbn [option_map] in H. injection H as _ ->.
    cbn [forallb]. destruct (String.eqb tk ";") eqn:Et.
    - apply String.eqb_eq in Et. subst tk. discriminate E1.
    - destruct (String.eqb a ";") eqn:Ea; [|reflexivity].
      apply String.eqb_eq in Ea. subst a. rewrite decode_base64_semi in D. discriminate D. }
  destruct (String.eqb tk "base32" || String.eqb tk "b32") eqn:E2.
  { destruct rest as [|a r]; [discriminate H|].
    destruct (decode_base32 a) as [x|] eqn:D; [|discriminate H]. cbn [option_map] in H. injection H as _ ->.
    cbn [forallb]. destruct (String.eqb tk ";") eqn:Et.
    - apply String.eqb_eq in Et. subst tk. discriminate E2.
    - destruct (String.eqb a ";") eqn:Ea; [|reflexivity].
      apply String.eqb_eq in Ea. subst a. rewrite decode_base32_semi in D. discriminate D. }
  assert (R : rest = []).
  { repeat match type of H with
           | match ?x with Some _ => _ | None => _ end = _ => destruct x
           | option_map _ ?x = _ => destruct x; cbn [option_map] in H
           end; try discriminate H; injection H as _ ->; reflexivity. }
  subst rest. cbn [forallb]. destruct (String.eqb tk ";") eqn:Et; [|reflexivity].
  apply String.eqb_eq in Et. subst tk. vm_compute in H. discriminate H.
Qed.

(* ---------------------------------------------------------------------------------------------- *)
(* 4. one instruction, one line, one statement                                                      *)
(* ---------------------------------------------------------------------------------------------- *)
Lemma generic_dec n : generic_imm (N_to_dec n) = IInt n.
Proof. unfold generic_imm. now rewrite parse_uint_dec. Qed.

Lemma gen_args_ok msel o : kind_of o = KGen -> forall args, forallb gen_arg args = true ->
  exists parts, assemble_args args = Some parts /\ forallb word parts = true /\
                imms_of_args msel o args = Some (map generic_imm parts).
Proof.
  intros K. induction args as [|a t IH]; intros H.
  - exists []. repeat split.
  - cbn [forallb] in H. apply andb_true_iff in H as [Ha Ht]. destruct (IH Ht) as (parts & A & W & I).
    destruct a as [n|s|l|u|sb]; try discriminate Ha.
    + exists (N_to_dec n :: parts). cbn [assemble_args assemble_arg imms_of_args imm_of_arg forallb map].
      rewrite A, I, W, dec_word, generic_dec. repeat split.
    + cbn [gen_arg] in Ha. apply andb_true_iff in Ha as [Hw Hn].
      exists (s :: parts). cbn [assemble_args assemble_arg imms_of_args forallb map].
      rewrite A, I, W, Hw, (imm_gen_str msel o s K). repeat split.
      unfold generic_imm. destruct (parse_uint s); [discriminate Hn|reflexivity].
Qed.

Definition nosemi (ts : list string) : bool := forallb (fun t => negb (String.eqb t ";")) ts.

Lemma wrap msel o args line ts imms :
  is_comment o = false -> imms_of_args msel o args = Some imms ->
  tokens_of_line line = ts -> nosemi ts = true -> parse_stmt msel ts = mkS o imms ->
  exists ss, stmt_of msel (COp (mkI o args)) = Some ss /\ line_stmts msel line = Some ss.
Proof.
  intros C I T S Pr. exists [SInstr (mkP o imms)]. split.
  - cbn [stmt_of i_op i_args]. rewrite C, I. reflexivity.
  - exact (line_one msel line ts _ T S Pr).
Qed.

Lemma two_words a b : concat_sep " " [a; b] = (a ++ " " ++ b)%string.
Proof. reflexivity. Qed.

Lemma no_nl_space : no_nl (list_ascii_of_string " ").
Proof. constructor; [|constructor]. intros E. discriminate E. Qed.

Lemma comment_parts_no_nl : forall args parts,
  forallb (fun a => match a with AStr s => no_nlb s | _ => false end) args = true ->
  assemble_args args = Some parts ->
  no_nl (list_ascii_of_string (concat_sep " " parts)).
Proof.
  induction args as [|a t IH]; intros parts H A.
  - injection A as <-. constructor.
  - cbn [forallb] in H. apply andb_true_iff in H as [Ha Ht].
    destruct a as [n|s|l|u|sb]; try discriminate Ha.
    cbn [assemble_args assemble_arg] in A. destruct (assemble_args t) as [r|] eqn:Er; [|discriminate A].
    injection A as <-. specialize (IH r Ht eq_refl).
    destruct r as [|y r']; [cbn [concat_sep]; apply no_nlb_spec; exact Ha|].
    change (concat_sep " " (s :: y :: r')) with (s ++ " " ++ concat_sep " " (y :: r'))%string.
    rewrite !los_app. apply no_nl_app; [apply no_nlb_spec; exact Ha|]. apply no_nl_app; [apply no_nl_space|exact IH].
Qed.

Lemma comment_args_assemble : forall args,
  forallb (fun a => match a with AStr s => no_nlb s | _ => false end) args = true ->
  exists parts, assemble_args args = Some parts.
Proof.
  induction args as [|a t IH]; intros H; [eexists; reflexivity|].
  cbn [forallb] in H. apply andb_true_iff in H as [Ha Ht]. destruct (IH Ht) as [r Er].
  destruct a as [n|s|l|u|sb]; try discriminate Ha. exists (s :: r). cbn [assemble_args assemble_arg]. now rewrite Er.
Qed.

Theorem instr_line msel i : printable_instr msel i = true ->
  exists line, assemble_instr i = Some line /\ no_nl (list_ascii_of_string line) /\
  exists ss, stmt_of msel (COp i) = Some ss /\ line_stmts msel line = Some ss.
Proof.
  destruct i as [o args]. unfold printable_instr, assemble_instr. cbn [i_op i_args].
  destruct (kind_of o) eqn:K; intros H.
  - (* comment *)
    assert (Eo : o = O_comment) by (destruct o; try discriminate K; reflexivity). subst o.
    destruct (comment_args_assemble args H) as [parts A]. rewrite A.
    eexists. split; [reflexivity|]. split.
    + change (opc_name O_comment) with "//".
      destruct parts as [|y r]; [cbn; repeat constructor; intros E; discriminate E|].
      change (concat_sep " " ("//" :: y :: r)) with ("//" ++ " " ++ concat_sep " " (y :: r))%string.
      rewrite !los_app. apply no_nl_app; [repeat constructor; intros E; discriminate E|].
      apply no_nl_app; [apply no_nl_space|]. exact (comment_parts_no_nl args (y :: r) H A).
    + exists []. split; [reflexivity|].
      assert (T : tokens_of_line (concat_sep " " (opc_name O_comment :: parts)) = []).
      { change (opc_name O_comment) with "//". destruct parts as [|y r]; [reflexivity|].
        change (concat_sep " " ("//" :: y :: r)) with ("//" ++ (" " ++ concat_sep " " (y :: r)))%string.
        apply tokens_comment_line. }
      unfold line_stmts. rewrite T. reflexivity.
  - (* int *)
    pose proof (kind_not_comment o ltac:(rewrite K; discriminate)) as C.
    pose proof (opc_name_word o C) as Wn.
    destruct args as [|[n|s|l|u|sb] [|a2 r]]; try discriminate H.
    + apply N.ltb_lt in H. cbn [assemble_args assemble_arg].
      assert (W : forallb word [opc_name o; N_to_dec n] = true) by (cbn [forallb]; now rewrite Wn, dec_word).
      eexists. split; [reflexivity|]. split; [apply words_no_nl; exact W|].
      apply (wrap msel o [AInt n] _ [opc_name o; N_to_dec n] [IInt n] C eq_refl).
      * apply tokens_words; [discriminate|exact W].
      * apply words_no_semi. exact W.
      * rewrite (parse_int msel o _ K), (parse_int_arg_dec n H). reflexivity.
    + apply andb_true_iff in H as [Hw Hp]. destruct (parse_int_arg s) as [n|] eqn:Pn; [|discriminate Hp].
      cbn [assemble_args assemble_arg].
      assert (W : forallb word [opc_name o; s] = true) by (cbn [forallb]; now rewrite Wn, Hw).
      eexists. split; [reflexivity|]. split; [apply words_no_nl; exact W|].
      apply (wrap msel o [AStr s] _ [opc_name o; s] [IInt n] C).
      * cbn [imms_of_args]. rewrite (imm_int_str msel o s K), Pn. reflexivity.
      * apply tokens_words; [discriminate|exact W].
      * apply words_no_semi. exact W.
      * rewrite (parse_int msel o _ K), Pn. reflexivity.
  - (* byte *)
    pose proof (kind_not_comment o ltac:(rewrite K; discriminate)) as C.
    pose proof (opc_name_word o C) as Wn.
    destruct args as [|[n|s|l|u|sb] [|a2 r]]; try discriminate H.
    apply andb_true_iff in H as [Hn Hp].
    destruct (parse_bytes_arg (tokens_of_line s)) as [[b rest]|] eqn:Pb; [|discriminate Hp].
    destruct rest; [|discriminate Hp].
    cbn [assemble_args assemble_arg]. rewrite two_words.
    eexists. split; [reflexivity|]. split.
    { rewrite !los_app. apply no_nl_app; [apply word_no_nl; exact Wn|].
      apply no_nl_app; [apply no_nl_space|apply no_nlb_spec; exact Hn]. }
    apply (wrap msel o [AStr s] _ (opc_name o :: tokens_of_line s) [IBytes b] C).
    + cbn [imms_of_args]. rewrite (imm_byte_str msel o s K), Pb. reflexivity.
    + apply tokens_cons. exact Wn.
    + unfold nosemi. cbn [forallb]. rewrite (word_not_semi _ Wn). exact (parse_bytes_arg_no_semi _ _ Pb).
    + rewrite (parse_byte msel o _ K), Pb. reflexivity.
  - (* addr *)
    pose proof (kind_not_comment o ltac:(rewrite K; discriminate)) as C.
    pose proof (opc_name_word o C) as Wn.
    destruct args as [|[n|s|l|u|sb] [|a2 r]]; try discriminate H.
    apply andb_true_iff in H as [H Hd]. apply andb_true_iff in H as [Hw Hl].
    destruct (decode_base32 s) as [b|] eqn:Db; [|discriminate Hd].
    cbn [assemble_args assemble_arg].
    assert (W : forallb word [opc_name o; s] = true) by (cbn [forallb]; now rewrite Wn, Hw).
    eexists. split; [reflexivity|]. split; [apply words_no_nl; exact W|].
    apply (wrap msel o [AStr s] _ [opc_name o; s] [IBytes (firstn 32 b)] C).
    + cbn [imms_of_args]. rewrite (imm_addr_str msel o s K), Db. reflexivity.
    + apply tokens_words; [discriminate|exact W].
    + apply words_no_semi. exact W.
    + rewrite (parse_addr msel o _ K), Hl, Db. reflexivity.
  - (* method *)
    pose proof (kind_not_comment o ltac:(rewrite K; discriminate)) as C.
    pose proof (opc_name_word o C) as Wn.
    destruct args as [|[n|s|l|u|sb] [|a2 r]]; try discriminate H.
    apply andb_true_iff in H as [H Hp]. apply andb_true_iff in H as [Hn Ht].
    apply strs_eqb_eq in Ht.
    destruct (parse_string_literal s) as [sig|] eqn:Ps; [|discriminate Hp].
    destruct (alookup String.eqb (string_of_bytes sig) msel) as [sel|] eqn:Al; [|discriminate Hp].
    cbn [assemble_args assemble_arg]. rewrite two_words.
    eexists. split; [reflexivity|]. split.
    { rewrite !los_app. apply no_nl_app; [apply word_no_nl; exact Wn|].
      apply no_nl_app; [apply no_nl_space|apply no_nlb_spec; exact Hn]. }
    apply (wrap msel o [AStr s] _ [opc_name o; s] [IBytes sel] C).
    + cbn [imms_of_args]. rewrite (imm_method_str msel o s K), Ps, Al. reflexivity.
    + rewrite tokens_cons by exact Wn. now rewrite Ht.
    + unfold nosemi. cbn [forallb]. rewrite (word_not_semi _ Wn).
      destruct (String.eqb s ";") eqn:Es; [|reflexivity].
      apply String.eqb_eq in Es. subst s. vm_compute in Ps. discriminate Ps.
    + rewrite (parse_method msel o _ K), Ps, Al. reflexivity.
  - (* branch *)
    pose proof (kind_not_comment o ltac:(rewrite K; discriminate)) as C.
    pose proof (opc_name_word o C) as Wn.
    destruct args as [|[n|s|l|u|sb] [|a2 r]]; try discriminate H.
    + cbn [assemble_args assemble_arg].
      assert (W : forallb word [opc_name o; s] = true) by (cbn [forallb]; now rewrite Wn, H).
      eexists. split; [reflexivity|]. split; [apply words_no_nl; exact W|].
      apply (wrap msel o [AStr s] _ [opc_name o; s] [IName s] C).
      * cbn [imms_of_args]. rewrite (imm_branch_str msel o s K). reflexivity.
      * apply tokens_words; [discriminate|exact W].
      * apply words_no_semi. exact W.
      * apply (parse_branch msel o _ K).
    + apply andb_true_iff in H as [H _]. cbn [assemble_args assemble_arg].
      assert (W : forallb word [opc_name o; l] = true) by (cbn [forallb]; now rewrite Wn, H).
      eexists. split; [reflexivity|]. split; [apply words_no_nl; exact W|].
      apply (wrap msel o [ALbl l] _ [opc_name o; l] [IName l] C eq_refl).
      * apply tokens_words; [discriminate|exact W].
      * apply words_no_semi. exact W.
      * apply (parse_branch msel o _ K).
  - discriminate H.
  - (* generic *)
    pose proof (kind_not_comment o ltac:(rewrite K; discriminate)) as C.
    pose proof (opc_name_word o C) as Wn.
    destruct (gen_args_ok msel o K args H) as (parts & A & Wp & I). rewrite A.
    assert (W : forallb word (opc_name o :: parts) = true) by (cbn [forallb]; now rewrite Wn, Wp).
    eexists. split; [reflexivity|]. split; [apply words_no_nl; exact W|].
    apply (wrap msel o args _ (opc_name o :: parts) (map generic_imm parts) C I).
    + apply tokens_words; [discriminate|exact W].
    + apply words_no_semi. exact W.
    + apply (parse_gen msel o _ K).
Qed.

(* ---------------------------------------------------------------------------------------------- *)
(* 5. components, programs                                                                          *)
(* ---------------------------------------------------------------------------------------------- *)
Lemma pragma_line v : ("#pragma version " ++ N_to_dec v)%string = concat_sep " " ["#pragma"; "version"; N_to_dec v].
Proof. reflexivity. Qed.

Definition lines_stmts (msel : list (string * bytes)) (lines : list string) : option (list stmt) :=
  parse_stmts msel (flat_map (fun ln => split_semis (tokens_of_line ln) []) lines).

Lemma lines_stmts_one msel ln : lines_stmts msel [ln] = line_stmts msel ln.
Proof. unfold lines_stmts, line_stmts. cbn [flat_map]. now rewrite app_nil_r. Qed.

Definition all_no_nl (ls : list string) : Prop := Forall (fun ln => no_nl (list_ascii_of_string ln)) ls.

(* what one component prints is one or several whole lines (a subroutine label carries its comment lines and
   an empty line in front); read as lines, they give the component's statements *)
Theorem comp_lines msel c : printable_comp msel c = true ->
  exists item ls, assemble_comp c = Some item /\ ls <> [] /\ item = join_nl ls /\ all_no_nl ls /\
  exists ss, stmt_of msel c = Some ss /\ lines_stmts msel ls = Some ss.
Proof.
  destruct c as [i|l cm|v]; cbn [printable_comp]; intros H.
  - destruct (instr_line msel i H) as (line & A & N & ss & S & P).
    exists line, [line]. cbn [assemble_comp]. split; [exact A|]. split; [discriminate|]. split; [reflexivity|].
    split; [constructor; [exact N|constructor]|]. exists ss. split; [exact S|]. rewrite lines_stmts_one. exact P.
  - apply andb_true_iff in H as [Hne Hc]. apply negb_true_iff in Hne.
    assert (Hl : l <> ""%string) by (intros ->; discriminate Hne).
    destruct (label_line_statement msel l Hl Hc) as [T Pr].
    assert (NL : no_nl (list_ascii_of_string (l ++ ":"))).
    { rewrite los_app. apply no_nl_app; [apply forallb_label_no_nl; exact Hc|].
      constructor; [|constructor]. intros E. discriminate E. }
    assert (Semi : forallb (fun t => negb (String.eqb t ";")) [(l ++ ":")%string] = true).
    { cbn [forallb]. destruct (String.eqb (l ++ ":") ";") eqn:E; [|reflexivity].
      apply String.eqb_eq in E. destruct l as [|a [|b l']]; [congruence|discriminate E|discriminate E]. }
    assert (PL : line_stmts msel (l ++ ":") = Some [SLabel l]).
    { exact (line_one msel _ _ (Some (SLabel l)) T Semi Pr). }
    destruct cm as [cm|].
    + (* subroutine header: empty line, comment lines, label *)
      set (L := (map (fun ln => "// " ++ ln)%string (header_lines cm) ++ [(l ++ ":")%string])%list).
      assert (LN : L <> []) by (unfold L; destruct (map (fun ln => "// " ++ ln)%string (header_lines cm)); discriminate).
      exists (header_text cm l), (""%string :: L). split; [reflexivity|]. split; [discriminate|]. split.
      { unfold header_text, label_comment. fold (header_lines cm). rewrite concat_comment_join. fold L.
        rewrite (join_cons "" L LN). reflexivity. }
      split.
      { constructor; [constructor|]. unfold L. apply Forall_app. split.
        - apply Forall_forall. intros x Hin. apply in_map_iff in Hin. destruct Hin as (ln & <- & Hln).
          pose proof (header_lines_no_nl cm) as F. rewrite Forall_forall in F. specialize (F ln Hln).
          rewrite los_app. apply no_nl_app; [|exact F].
          repeat (constructor; [intros X; discriminate X|]). constructor.
        - constructor; [exact NL|constructor]. }
      exists [SLabel l]. split; [reflexivity|].
      unfold lines_stmts. rewrite parse_stmts_drop_comments.
      assert (NC : is_comment_line (l ++ ":") = false).
      { destruct l as [|c l']; [congruence|]. cbn in Hc. apply andb_prop in Hc. destruct Hc as [Hc _].
        cbn [append is_comment_line]. destruct (l' ++ ":")%string; [reflexivity|]. rewrite (label_char_not_slash c Hc). reflexivity. }
      cbn [filter is_comment_line negb]. unfold L. rewrite filter_app, filter_comment_lines. cbn [app filter]. rewrite NC. cbn [negb].
      cbn [flat_map]. change (tokens_of_line "") with (@nil string). cbn [split_semis rev app parse_stmts].
      change (parse_stmt msel []) with (@Some (option stmt) None).
      unfold line_stmts in PL. rewrite app_nil_r, PL. reflexivity.
    + exists (l ++ ":")%string, [(l ++ ":")%string]. split; [reflexivity|]. split; [discriminate|]. split; [reflexivity|].
      split; [constructor; [exact NL|constructor]|]. exists [SLabel l]. split; [reflexivity|].
      rewrite lines_stmts_one. exact PL.
  - exists ("#pragma version " ++ N_to_dec v)%string, [("#pragma version " ++ N_to_dec v)%string].
    split; [reflexivity|]. split; [discriminate|]. split; [reflexivity|]. rewrite pragma_line.
    assert (W : forallb word ["#pragma"; "version"; N_to_dec v] = true).
    { cbn [forallb]. rewrite dec_word. reflexivity. }
    split; [constructor; [apply words_no_nl; exact W|constructor]|].
    exists [SPragma v]. split; [reflexivity|]. rewrite lines_stmts_one.
    apply (line_one msel _ ["#pragma"; "version"; N_to_dec v] (Some (SPragma v))).
    + apply tokens_words; [discriminate|exact W].
    + apply words_no_semi. exact W.
    + cbn -[N_of_dec N_to_dec]. rewrite N_of_dec_to_dec. reflexivity.
Qed.

Lemma parse_stmts_app msel : forall a b,
  parse_stmts msel (a ++ b) =
  match parse_stmts msel a, parse_stmts msel b with Some x, Some y => Some (x ++ y) | _, _ => None end.
Proof.
  induction a as [|ts a IH]; intros b.
  - cbn [app parse_stmts]. destruct (parse_stmts msel b); reflexivity.
  - cbn [app parse_stmts]. rewrite IH.
    destruct (parse_stmt msel ts) as [[s|]|]; destruct (parse_stmts msel a); destruct (parse_stmts msel b); reflexivity.
Qed.

Lemma lines_stmts_app msel a b :
  lines_stmts msel (a ++ b) =
  match lines_stmts msel a, lines_stmts msel b with Some x, Some y => Some (x ++ y) | _, _ => None end.
Proof. unfold lines_stmts. rewrite flat_map_app. apply parse_stmts_app. Qed.

(* joining: items that are themselves joined lines *)
Lemma join_nl_app : forall a b, a <> [] -> b <> [] -> join_nl (a ++ b) = (join_nl a ++ nl ++ join_nl b)%string.
Proof.
  induction a as [|x t IH]; intros b Ha Hb; [congruence|].
  destruct t as [|y t'].
  - cbn [app]. rewrite join_cons by exact Hb. reflexivity.
  - change ((x :: y :: t') ++ b) with (x :: ((y :: t') ++ b)).
    rewrite join_cons by discriminate. rewrite IH by (try discriminate; exact Hb).
    rewrite (join_cons x (y :: t')) by discriminate. now rewrite !app_str_assoc.
Qed.

Lemma join_nl_concat : forall lss, Forall (fun ls => ls <> []) lss ->
  join_nl (map join_nl lss) = join_nl (List.concat lss).
Proof.
  induction lss as [|ls rest IH]; intros H; [reflexivity|].
  inversion H as [|? ? Hls Hrest]; subst. cbn [map List.concat].
  destruct rest as [|ls2 rest'].
  - cbn [map List.concat join_nl]. now rewrite app_nil_r.
  - rewrite join_cons by discriminate. rewrite IH by exact Hrest.
    rewrite join_nl_app; [reflexivity|exact Hls|].
    inversion Hrest as [|? ? H2 _]; subst. cbn [List.concat]. destruct ls2; [congruence|discriminate].
Qed.

Theorem lines_roundtrip msel : forall code, printable msel code = true ->
  exists items lss ss,
    assemble_all code = Some items /\ items = map join_nl lss /\
    Forall (fun ls => ls <> []) lss /\ all_no_nl (List.concat lss) /\
    List.length items = List.length code /\
    stmts_of msel code = Some ss /\ lines_stmts msel (List.concat lss) = Some ss.
Proof.
  induction code as [|c t IH]; intros H.
  - exists [], [], []. repeat split; constructor.
  - unfold printable in H. cbn [forallb] in H. apply andb_true_iff in H as [Hc Ht].
    destruct (IH Ht) as (items & lss & ss & A & I & NE & N & L & S & P).
    destruct (comp_lines msel c Hc) as (item & ls & Ac & NEc & Ic & Nc & s1 & Sc & Pc).
    exists (item :: items), (ls :: lss), (s1 ++ ss). cbn [assemble_all stmts_of]. rewrite Ac, A, Sc, S.
    split; [reflexivity|]. split; [cbn [map]; now rewrite Ic, I|]. split; [constructor; assumption|].
    split; [cbn [List.concat]; apply Forall_app; split; assumption|].
    split; [cbn [List.length]; now rewrite L|]. split; [reflexivity|].
    cbn [List.concat]. rewrite lines_stmts_app, Pc, P. reflexivity.
Qed.

(* the program text: what PyTeal returns, the assembled components joined by line feeds *)
Definition program_text (items : list string) : string := join_nl items.

Theorem text_roundtrip msel code lines :
  printable msel code = true -> code <> [] -> assemble_all code = Some lines ->
  exists ss, stmts_of msel code = Some ss /\ statements_of_text msel (program_text lines) = Some ss.
Proof.
  intros H Hne A. destruct (lines_roundtrip msel code H) as (items & lss & ss & A' & I & NE & N & L & S & P).
  rewrite A in A'. injection A' as <-.
  exists ss. split; [exact S|].
  unfold statements_of_text, program_text. rewrite I, join_nl_concat by exact NE.
  rewrite split_lines_join; [exact P| |exact N].
  intros E. destruct lss as [|ls rest]; [subst lines; destruct code; [congruence|discriminate L]|].
  inversion NE as [|? ? Hls _]; subst. cbn [List.concat] in E. destruct ls; [congruence|discriminate E].
Qed.

(* the assembler's program for the text is the linked program of the list *)
Corollary text_links msel code lines :
  printable msel code = true -> code <> [] -> assemble_all code = Some lines ->
  parse_program msel (program_text lines) = link msel code.
Proof.
  intros H Hne A. destruct (text_roundtrip msel code lines H Hne A) as (ss & S & T).
  unfold parse_program, link. rewrite T, S. reflexivity.
Qed.

(* printable lists always assemble *)
Corollary printable_assembles msel code : printable msel code = true -> exists lines, assemble_all code = Some lines.
Proof. intros H. destruct (lines_roundtrip msel code H) as (items & lss & ss & A & _). exists items. exact A. Qed.
