(* Proofs/CallMachineFrame.v — property C02, the FRAME-POINTER calling convention on the reference machine.

   1. A frame rule for [AVM/Machine.v step] ([step_lift]): a step that the machine can make on an operand stack X
      with call stack [inner] is the same step on X ++ C with call stack [inner' ++ fs] for EVERY extension C below
      and EVERY outer call stack fs, where inner' is [inner] with the frame heights recorded by [proto] shifted by
      |C|; C and fs are untouched.  All instructions of the machine: every operation of [exec_op], b/bz/bnz,
      callsub, proto, retsub (with and without proto), frame_dig, frame_bury, the constant blocks and loads.
      ([dupn]/[popn] are operations of [exec_op].)
   2. Runs ([msteps_lift]).
   3. The call/return protocol ([fp_call_protocol]): [callsub l] to a callee that starts with [proto A R], whose
      body — run on the STRIPPED machine: operand stack = the A arguments only, call stack = the callee's frame
      only — reaches a [retsub] with R result cells at the frame pointer (anything above them: locals, temporaries),
      returns on the real machine to the instruction after the callsub with exactly [results ++ caller stack]:
      every caller cell and every outer frame untouched, the state/constant blocks those of the body's run.
      "The body respects the frame" is formalised as "its run exists on the stripped machine": there the caller's
      cells do not exist, so any attempt to pop, read or write below the argument area fails (and nothing is
      claimed).  Nested calls (with or without proto), loops and early exits inside the body are covered, because
      the frame rule is step-wise. *)
From Coq Require Import List Arith NArith String Bool Lia.
From PV Require Import Base.Bytes AVM.Syntax AVM.Ops AVM.Machine Proofs.CallComposeFrame Proofs.PrologueProof.
Import ListNotations.
Local Open Scope list_scope.

(* ---------------------------------------------------------------------------------------------- *)
(* 1. exec_op: frame property for ALL operations (state unchanged in the statement)                 *)
(* ---------------------------------------------------------------------------------------------- *)
Lemma with_sc_same st : with_sc (s_scratch st) st = st.
Proof. destruct st; reflexivity. Qed.

Lemma exec_pure_scratch o a stk : scratch_op o = true -> exec_pure o a stk = PNot.
Proof.
  destruct o; try discriminate; intros _;
    destruct stk as [|[x|x] [|[y|y] [|[z|z] [|[w|w] r]]]]; reflexivity.
Qed.

Lemma exec_op_frame_all cx o imms stk st s' st' rest :
  exec_op cx o imms stk st = OOk s' st' ->
  exec_op cx o imms (stk ++ rest) st = OOk (s' ++ rest) st'.
Proof.
  intros H. destruct (scratch_op o) eqn:Hs.
  - unfold exec_op in *. rewrite (exec_pure_scratch o _ stk Hs) in H. rewrite (exec_pure_scratch o _ (stk ++ rest) Hs).
    destruct o; try discriminate Hs; repeat stepH H; injection H as <- <-; reflexivity.
  - destruct (exec_op_frame cx o imms stk st s' st' Hs H) as [Esc F].
    specialize (F (s_scratch st) rest). rewrite with_sc_same in F. rewrite F. f_equal.
    rewrite <- Esc. apply with_sc_same.
Qed.

Lemma exec_op_not_any cx o imms stk st stk' :
  match o with
  | O_err | O_bnz | O_bz | O_b | O_return_ | O_callsub | O_retsub | O_proto | O_frame_dig | O_frame_bury
  | O_intcblock | O_intc | O_intc_0 | O_intc_1 | O_intc_2 | O_intc_3
  | O_bytecblock | O_bytec | O_bytec_0 | O_bytec_1 | O_bytec_2 | O_bytec_3 => True
  | _ => False
  end ->
  exec_op cx o imms stk st = ONot -> exec_op cx o imms stk' st = ONot.
Proof.
  intros Ho _. unfold exec_op.
  assert (E : forall a, exec_pure o a stk' = PNot).
  { intros a. destruct o; try contradiction;
      destruct stk' as [|[x|x] [|[y|y] [|[z|z] [|[w|w] r]]]]; reflexivity. }
  rewrite E. destruct o; try contradiction; reflexivity.
Qed.

(* ---------------------------------------------------------------------------------------------- *)
(* 2. list arithmetic for the frame instructions                                                    *)
(* ---------------------------------------------------------------------------------------------- *)
Lemma retsub_lift (X C : list value) h a r : a <= h ->
  rev (firstn (h + List.length C - a) (rev (X ++ C)) ++ firstn r (skipn (h + List.length C) (rev (X ++ C)))) =
  rev (firstn (h - a) (rev X) ++ firstn r (skipn h (rev X))) ++ C.
Proof.
  intros Ha. rewrite (rev_app_distr X C).
  rewrite firstn_app, skipn_app, rev_length.
  replace (h + List.length C - a - List.length C) with (h - a) by lia.
  replace (h + List.length C - List.length C) with h by lia.
  rewrite (firstn_all2 (rev C)) by (rewrite rev_length; lia).
  rewrite (skipn_all2 (rev C)) by (rewrite rev_length; lia).
  cbn [app]. rewrite <- app_assoc. rewrite (rev_app_distr (rev C)). rewrite rev_involutive. reflexivity.
Qed.

Lemma frame_index_lift h a k d : a <= h ->
  frame_index (h + d) a k = option_map (fun x => x + d) (frame_index h a k).
Proof.
  intros Ha. unfold frame_index. destruct (k <? 128)%N.
  - cbn [option_map]. f_equal. lia.
  - destruct (N.to_nat (256 - k) <=? a) eqn:E; [|reflexivity].
    apply Nat.leb_le in E. cbn [option_map]. f_equal. lia.
Qed.

Lemma from_bottom_lift (X C : list value) idx :
  from_bottom (X ++ C) (idx + List.length C) = from_bottom X idx.
Proof.
  unfold from_bottom. rewrite app_length.
  destruct (idx <? List.length X) eqn:E.
  - apply Nat.ltb_lt in E.
    assert (E' : (idx + List.length C <? List.length X + List.length C) = true) by (apply Nat.ltb_lt; lia).
    rewrite E'. f_equal. lia.
  - apply Nat.ltb_ge in E.
    assert (E' : (idx + List.length C <? List.length X + List.length C) = false) by (apply Nat.ltb_ge; lia).
    rewrite E'. reflexivity.
Qed.

Lemma from_bottom_lt (X : list value) idx pos : from_bottom X idx = Some pos -> pos < List.length X.
Proof.
  unfold from_bottom. destruct (idx <? List.length X) eqn:E; [|discriminate].
  apply Nat.ltb_lt in E. intros H. injection H as <-. lia.
Qed.

Lemma list_update_app {A} (x : A) : forall (l : list A) pos rest,
  pos < List.length l -> list_update (l ++ rest) pos x = list_update l pos x ++ rest.
Proof.
  induction l as [|h t IH]; intros pos rest Hp; [cbn in Hp; lia|].
  destruct pos as [|q]; [reflexivity|]. cbn [app list_update]. rewrite IH by (cbn in Hp; lia). reflexivity.
Qed.

(* ---------------------------------------------------------------------------------------------- *)
(* 3. the frame rule for one machine step                                                           *)
(* ---------------------------------------------------------------------------------------------- *)
Definition shift_frame (d : nat) (f : frame) : frame :=
  mkFrame (f_ret f) (match f_proto f with Some (h, a, r) => Some (h + d, a, r) | None => None end).

(* the machine m with C below its operand stack and fs below its call stack *)
Definition lift (C : list value) (fs : list frame) (m : mach) : mach :=
  mkM (m_pc m) (m_stack m ++ C) (map (shift_frame (List.length C)) (m_calls m) ++ fs)
      (m_from_callsub m) (m_intc m) (m_bytec m) (m_st m).

(* what [proto] guarantees of the frames it creates: the arguments lie within the stack *)
Definition frame_wf (f : frame) : Prop :=
  match f_proto f with Some (h, a, _) => a <= h | None => True end.
Definition calls_wf (l : list frame) : Prop := Forall frame_wf l.

Lemma height_lift C fs m : height (lift C fs m) = height m + List.length C.
Proof. unfold height, lift. cbn [m_stack]. apply app_length. Qed.

Ltac caseH H :=
  match type of H with
  | context [match ?x with _ => _ end] =>
      destruct x eqn:?; try discriminate H;
      cbn [app map shift_frame f_proto f_ret] in *
  end.

Lemma step_lift cx p C fs m m' :
  step cx p m = Running m' -> calls_wf (m_calls m) -> height m + List.length C <= STACK_MAX ->
  step cx p (lift C fs m) = Running (lift C fs m') /\ calls_wf (m_calls m').
Proof.
  intros H WF Hh.
  assert (H1 : (STACK_MAX <? height m) = false) by (apply Nat.ltb_ge; lia).
  assert (H2 : (STACK_MAX <? height (lift C fs m)) = false) by (rewrite height_lift; apply Nat.ltb_ge; lia).
  unfold step in H |- *. rewrite H2. rewrite H1 in H. clear H1 H2.
  destruct m as [pc stk calls fcs intc bytec st].
  cbn [lift m_pc m_stack m_calls m_from_callsub m_intc m_bytec m_st] in *.
  destruct (nth_error (pr_code p) pc) as [i|].
  2:{ destruct stk as [|[n|b] [|? ?]]; discriminate H. }
  destruct i as [o im]. cbn [p_op p_imms] in *.
  destruct (exec_op cx o im stk st) as [s1 st1| | |] eqn:Ex.
  - rewrite (exec_op_frame_all _ _ _ _ _ _ _ C Ex). injection H as <-. split; [reflexivity|exact WF].
  - discriminate H.
  - destruct o; cbn iota in H; try discriminate H.
    all: match type of Ex with exec_op _ ?o _ _ _ = _ => rewrite (exec_op_not_any cx o im stk st (stk ++ C) I Ex) end.
    all: repeat caseH H.
    all: try (injection H as <-; split; [reflexivity|]; cbn [m_calls];
              first [ exact WF
                    | constructor; [exact Logic.I|exact WF]
                    | exact (Forall_inv_tail WF) ]).
    + (* retsub under proto: the R cells at the frame pointer, on top of the caller's cells *)
      pose proof (Forall_inv WF) as Hf. pose proof (Forall_inv_tail WF) as Hl.
      match goal with E : f_proto _ = Some _ |- _ => unfold frame_wf in Hf; rewrite E in Hf end.
      match goal with E : (_ <=? _) = true |- _ => apply Nat.leb_le in E; unfold height in E; cbn [m_stack] in E;
        rewrite height_lift; unfold height; cbn [m_stack];
        match goal with |- (if ?c then _ else _) = _ /\ _ =>
          assert (Ec : c = true) by (apply Nat.leb_le; lia); rewrite Ec end end.
      rewrite retsub_lift by exact Hf. injection H as <-. split; [reflexivity|exact Hl].
    + (* frame_dig *)
      pose proof (Forall_inv WF) as Hf.
      match goal with E : f_proto _ = Some _ |- _ => unfold frame_wf in Hf; rewrite E in Hf end.
      rewrite (frame_index_lift _ _ _ _ Hf).
      match goal with E : frame_index _ _ _ = Some _ |- _ => rewrite E end. cbn [option_map].
      rewrite from_bottom_lift.
      match goal with E : from_bottom _ _ = Some _ |- _ =>
        rewrite E; rewrite nth_error_app1 by (exact (from_bottom_lt _ _ _ E)) end.
      match goal with E : nth_error _ _ = Some _ |- _ => rewrite E end.
      injection H as <-. split; [reflexivity|exact WF].
    + (* frame_bury *)
      pose proof (Forall_inv WF) as Hf.
      match goal with E : f_proto _ = Some _ |- _ => unfold frame_wf in Hf; rewrite E in Hf end.
      rewrite (frame_index_lift _ _ _ _ Hf).
      match goal with E : frame_index _ _ _ = Some _ |- _ => rewrite E end. cbn [option_map].
      rewrite from_bottom_lift.
      match goal with E : from_bottom _ _ = Some _ |- _ =>
        rewrite E; rewrite list_update_app by (exact (from_bottom_lt _ _ _ E)) end.
      injection H as <-. split; [reflexivity|exact WF].
    + (* proto: the frame height recorded is the lifted height *)
      rewrite height_lift.
      match goal with E : (_ <=? _) = true |- _ => apply Nat.leb_le in E;
        match goal with |- (if ?c then _ else _) = _ /\ _ =>
          assert (Ec : c = true) by (apply Nat.leb_le; lia); rewrite Ec end;
        injection H as <-; split; [reflexivity|];
        constructor; [exact E|exact (Forall_inv_tail WF)] end.
  - discriminate H.
Qed.

(* ---------------------------------------------------------------------------------------------- *)
(* 4. runs                                                                                          *)
(* ---------------------------------------------------------------------------------------------- *)
(* n machine steps, every state on the way leaving d cells of headroom under the stack limit *)
Inductive msteps (cx : ctx) (p : program) (d : nat) : nat -> mach -> mach -> Prop :=
| ms_refl m : msteps cx p d 0 m m
| ms_step n m m1 m2 :
    height m + d <= STACK_MAX -> step cx p m = Running m1 -> msteps cx p d n m1 m2 ->
    msteps cx p d (S n) m m2.

Lemma msteps_trans cx p d : forall n1 n2 a b c,
  msteps cx p d n1 a b -> msteps cx p d n2 b c -> msteps cx p d (n1 + n2) a c.
Proof.
  intros n1 n2 a b c H. revert c. induction H as [m|n m m1 m2 Hh S1 _ IH]; intros c H2; [exact H2|].
  cbn [Nat.add]. eapply ms_step; [exact Hh|exact S1|]. apply IH. exact H2.
Qed.

Lemma msteps_one cx p d m m1 : height m + d <= STACK_MAX -> step cx p m = Running m1 -> msteps cx p d 1 m m1.
Proof. intros Hh S1. eapply ms_step; [exact Hh|exact S1|apply ms_refl]. Qed.

(* a run of n steps is what [Machine.run] does first *)
Lemma msteps_run cx p d : forall n m m', msteps cx p d n m m' ->
  forall k, run (n + k) cx p m = run k cx p m'.
Proof.
  intros n m m' H. induction H as [m|n m m1 m2 _ S1 _ IH]; intros k; [reflexivity|].
  cbn [Nat.add run]. rewrite S1. apply IH.
Qed.

(* the frame rule for runs *)
Theorem msteps_lift cx p C fs : forall n m m',
  msteps cx p (List.length C) n m m' -> calls_wf (m_calls m) ->
  msteps cx p 0 n (lift C fs m) (lift C fs m') /\ calls_wf (m_calls m').
Proof.
  intros n m m' H. induction H as [m|n m m1 m2 Hh S1 _ IH]; intros WF.
  - split; [apply ms_refl|exact WF].
  - destruct (step_lift cx p C fs m m1 S1 WF Hh) as [S1' WF1].
    destruct (IH WF1) as [H' WF2]. split; [|exact WF2].
    eapply ms_step; [|exact S1'|exact H']. rewrite height_lift. lia.
Qed.

(* ---------------------------------------------------------------------------------------------- *)
(* 5. the call / return protocol of the frame-pointer convention                                    *)
(* ---------------------------------------------------------------------------------------------- *)
(* the callee's frame and the machine right after [callsub l; proto A R], STRIPPED of the caller's cells C and
   of the caller's frames: operand stack = the arguments (last argument on top), frame pointer = A *)
Definition callee_frame (ret : nat) (A R : N) : frame :=
  mkFrame ret (Some (N.to_nat A, N.to_nat A, N.to_nat R)).
Definition callee_start (M : mach) (t : nat) (A R : N) (args : list value) : mach :=
  mkM (S t) (rev args) [callee_frame (S (m_pc M)) A R] false (m_intc M) (m_bytec M) (m_st M).

Theorem fp_call_protocol cx p (M : mach) (l : string) (t : nat) (A R : N)
        (args C : list value) (n : nat) (mb' : mach) (above rs args' : list value) (imms : list imm) :
  (* the call site, the callee's entry, the arguments on top of the caller's cells *)
  nth_error (pr_code p) (m_pc M) = Some (mkP O_callsub [IName l]) ->
  label_pc p l = Some t ->
  nth_error (pr_code p) t = Some (mkP O_proto [IInt A; IInt R]) ->
  m_stack M = rev args ++ C -> List.length args = N.to_nat A ->
  height M <= STACK_MAX ->
  (* the body: n steps on the stripped machine, ending at a retsub in the callee's own frame with the R result
     cells at the frame pointer, above the (possibly overwritten) argument cells *)
  msteps cx p (List.length C) n (callee_start M t A R args) mb' ->
  m_calls mb' = [callee_frame (S (m_pc M)) A R] ->
  nth_error (pr_code p) (m_pc mb') = Some (mkP O_retsub imms) ->
  m_stack mb' = above ++ rs ++ rev args' -> List.length args' = N.to_nat A -> List.length rs = N.to_nat R ->
  height mb' + List.length C <= STACK_MAX ->
  (* the real machine: callsub, proto, the body, retsub *)
  msteps cx p 0 (2 + n + 1) M
    (mkM (S (m_pc M)) (rs ++ C) (m_calls M) false (m_intc mb') (m_bytec mb') (m_st mb')).
Proof.
  intros Hc Hl Hp Hst Hlen Hh Hbody Hcalls Hret Hst' Hlen' HR Hh'.
  assert (HM : height M = N.to_nat A + List.length C).
  { unfold height. rewrite Hst, app_length, rev_length, Hlen. reflexivity. }
  destruct (callsub_proto_steps cx p M l t A R Hc Hl Hp Hh ltac:(lia)) as [S1 S2].
  cbv zeta in S1, S2.
  (* after callsub + proto the machine is the lifted start of the body *)
  assert (E0 : mkM (S t) (m_stack M) (mkFrame (S (m_pc M)) (Some (height M, N.to_nat A, N.to_nat R)) :: m_calls M)
                   false (m_intc M) (m_bytec M) (m_st M)
               = lift C (m_calls M) (callee_start M t A R args)).
  { unfold lift, callee_start, callee_frame. cbn [m_pc m_stack m_calls m_from_callsub m_intc m_bytec m_st map app
      shift_frame f_ret f_proto]. rewrite Hst, HM. reflexivity. }
  rewrite E0 in S2.
  assert (WF0 : calls_wf (m_calls (callee_start M t A R args))).
  { constructor; [|constructor]. unfold frame_wf, callee_frame. cbn. lia. }
  destruct (msteps_lift cx p C (m_calls M) n _ _ Hbody WF0) as [Hbody' _].
  (* the final retsub on the lifted machine *)
  assert (S3 : step cx p (lift C (m_calls M) mb') =
               Running (mkM (S (m_pc M)) (rs ++ C) (m_calls M) false (m_intc mb') (m_bytec mb') (m_st mb'))).
  { apply (retsub_fp_general cx p (lift C (m_calls M) mb') (S (m_pc M)) (m_calls M) (N.to_nat A) (N.to_nat R)
             imms above rs args' C).
    - unfold lift. cbn [m_calls]. rewrite Hcalls. unfold callee_frame.
      cbn [map app shift_frame f_ret f_proto]. rewrite app_length, rev_length, Hlen'. reflexivity.
    - unfold lift. cbn [m_stack]. rewrite Hst', <- !app_assoc. reflexivity.
    - exact Hlen'.
    - exact HR.
    - rewrite height_lift. exact Hh'.
    - exact Hret. }
  eapply (msteps_trans cx p 0 (2 + n) 1); [|refine (msteps_one cx p 0 _ _ _ S3); rewrite height_lift; lia].
  eapply (msteps_trans cx p 0 2 n); [|exact Hbody'].
  eapply ms_step; [lia|exact S1|].
  eapply ms_step; [|exact S2|apply ms_refl]. unfold height in *. cbn [m_stack]. lia.
Qed.

(* the same, read off [Machine.run]: the rest of the program runs from the return point *)
Corollary fp_call_protocol_run cx p (M : mach) (l : string) (t : nat) (A R : N)
        (args C : list value) (n : nat) (mb' : mach) (above rs args' : list value) (imms : list imm) :
  nth_error (pr_code p) (m_pc M) = Some (mkP O_callsub [IName l]) ->
  label_pc p l = Some t ->
  nth_error (pr_code p) t = Some (mkP O_proto [IInt A; IInt R]) ->
  m_stack M = rev args ++ C -> List.length args = N.to_nat A ->
  height M <= STACK_MAX ->
  msteps cx p (List.length C) n (callee_start M t A R args) mb' ->
  m_calls mb' = [callee_frame (S (m_pc M)) A R] ->
  nth_error (pr_code p) (m_pc mb') = Some (mkP O_retsub imms) ->
  m_stack mb' = above ++ rs ++ rev args' -> List.length args' = N.to_nat A -> List.length rs = N.to_nat R ->
  height mb' + List.length C <= STACK_MAX ->
  forall k, run (2 + n + 1 + k) cx p M =
            run k cx p (mkM (S (m_pc M)) (rs ++ C) (m_calls M) false (m_intc mb') (m_bytec mb') (m_st mb')).
Proof.
  intros Hc Hl Hp Hst Hlen Hh Hbody Hcalls Hret Hst' Hlen' HR Hh' k.
  apply (msteps_run cx p 0).
  exact (fp_call_protocol cx p M l t A R args C n mb' above rs args' imms
           Hc Hl Hp Hst Hlen Hh Hbody Hcalls Hret Hst' Hlen' HR Hh').
Qed.

(* an executable form of [msteps], for examples *)
Fixpoint nsteps (cx : ctx) (p : program) (d : nat) (n : nat) (m : mach) : option mach :=
  match n with
  | O => Some m
  | S k =>
      if (height m + d <=? STACK_MAX) then
        match step cx p m with Running m1 => nsteps cx p d k m1 | Done _ _ => None end
      else None
  end.

Lemma nsteps_sound cx p d : forall n m m', nsteps cx p d n m = Some m' -> msteps cx p d n m m'.
Proof.
  induction n as [|k IH]; intros m m' H; cbn [nsteps] in H.
  - injection H as <-. apply ms_refl.
  - destruct (height m + d <=? STACK_MAX) eqn:Eh; [|discriminate H]. apply Nat.leb_le in Eh.
    destruct (step cx p m) as [m1|v m1] eqn:S1; [|discriminate H].
    eapply ms_step; [exact Eh|exact S1|exact (IH m1 m' H)].
Qed.
