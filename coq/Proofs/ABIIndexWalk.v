(* Proofs/ABIIndexWalk.v — the offset arithmetic of _index_tuple (walk_before / walk_after, with PyTeal's
   look-ahead over bool runs) computes the head positions of the ARC-4 encoding ([spos]). *)
From Coq Require Import List NArith Arith Ascii String Bool Lia.
From PV Require Import Base.Bytes Base.U64 ABI.Types ABI.Spec ABI.Index
  Proofs.ABISpecProof Proofs.ABIIndexBits Proofs.ABIIndexAsm Proofs.ABIIndexElems.
Import ListNotations.
Local Open Scope N_scope.

Lemma elem_rel_bool : forall t e, elem_rel t e -> is_bool t = true -> exists b, e = EB b.
Proof.
  intros t e H Hb. unfold elem_rel in H. destruct e as [b|bs|bs]; cbn in H.
  - exists b; reflexivity.
  - destruct H; congruence.
  - destruct H; congruence.
Qed.

Lemma elem_rel_dyn : forall t e, elem_rel t e -> is_bool t = false -> is_dynamic t = true -> exists bs, e = ED bs.
Proof.
  intros t e H Hb Hd. unfold elem_rel in H. destruct e as [b|bs|bs]; cbn in H.
  - congruence.
  - destruct H as (_ & H & _); congruence.
  - exists bs; reflexivity.
Qed.

Lemma elem_rel_static : forall t e, elem_rel t e -> is_bool t = false -> is_dynamic t = false ->
    exists bs, e = ES bs /\ blen bs = static_len t.
Proof.
  intros t e H Hb Hd. unfold elem_rel in H. destruct e as [b|bs|bs]; cbn in H.
  - congruence.
  - exists bs. destruct H as (_ & _ & H). auto.
  - destruct H; congruence.
Qed.

Lemma cb_cons_bool : forall t r, is_bool t = true -> consecutive_bools (t :: r) = 1 + consecutive_bools r.
Proof. intros t r H. cbn. rewrite H. reflexivity. Qed.

Lemma cb_cons_nonbool : forall t r, is_bool t = false -> consecutive_bools (t :: r) = 0.
Proof. intros t r H. cbn. rewrite H. reflexivity. Qed.

(* ---- first loop ---- *)
Definition winv (w : wstate) (pos np c : N) : Prop :=
  if np =? 0 then w_off w = pos /\ w_ign w = 0
  else w_lbs w = pos /\ w_lbl w = np + c /\ w_ign w = c /\ w_off w = pos + bool_seq_len (np + c).

Ltac arith := try lia; repeat (f_equal; try lia).

Lemma bsl0 : bool_seq_len 0 = 0.
Proof. reflexivity. Qed.

Lemma walk_before_inv : forall k ts es w pos np,
    Forall2 elem_rel ts es -> winv w pos np (consecutive_bools ts) -> (k <= List.length ts)%nat ->
    winv (walk_before ts k w)
         (fst (spos (firstn k es) np pos)) (snd (spos (firstn k es) np pos))
         (consecutive_bools (skipn k ts)).
Proof.
  induction k as [|k IH]; intros ts es w pos np F W Hk.
  - destruct ts; cbn; exact W.
  - destruct F as [|t e tr er He F]; [cbn in Hk; lia|].
    cbn [List.length] in Hk. cbn [walk_before firstn skipn].
    unfold winv in W. destruct (N.eqb_spec np 0) as [->|Hnp].
    + destruct W as [Wo Wi]. rewrite Wi. cbn [N.ltb N.compare].
      destruct (is_bool t) eqn:Hb.
      * destruct (elem_rel_bool _ _ He Hb) as [b ->]. cbn [spos].
        apply IH; [exact F| |lia].
        rewrite (cb_cons_bool _ _ Hb). unfold winv. cbn [w_off w_ign w_lbs w_lbl].
        assert (E : (0 + 1 =? 0) = false) by reflexivity. rewrite E.
        rewrite Wo. repeat split; arith.
      * destruct (is_dynamic t) eqn:Hd.
        -- destruct (elem_rel_dyn _ _ He Hb Hd) as [bs ->]. cbn [spos].
           apply IH; [exact F| |lia]. unfold winv. cbn [N.eqb w_off w_ign]. rewrite bsl0. split; arith.
        -- destruct (elem_rel_static _ _ He Hb Hd) as [bs [-> Hl]]. cbn [spos].
           apply IH; [exact F| |lia]. unfold winv. cbn [N.eqb w_off w_ign]. rewrite bsl0, Hl. split; arith.
    + destruct W as (Ws & Wl & Wi & Wo).
      destruct (is_bool t) eqn:Hb.
      * rewrite (cb_cons_bool _ _ Hb) in *.
        assert (E : (0 <? w_ign w) = true) by (apply N.ltb_lt; lia). rewrite E.
        destruct (elem_rel_bool _ _ He Hb) as [b ->]. cbn [spos].
        apply IH; [exact F| |lia]. unfold winv. cbn [w_off w_ign w_lbs w_lbl].
        assert (E1 : (np + 1 =? 0) = false) by (apply N.eqb_neq; lia). rewrite E1.
        repeat split; try lia. rewrite Wo. arith.
      * rewrite (cb_cons_nonbool _ _ Hb) in *.
        assert (E : (0 <? w_ign w) = false) by (apply N.ltb_ge; lia). rewrite E.
        rewrite N.add_0_r in Wo.
        destruct (is_dynamic t) eqn:Hd.
        -- destruct (elem_rel_dyn _ _ He Hb Hd) as [bs ->]. cbn [spos].
           apply IH; [exact F| |lia]. unfold winv. cbn [N.eqb w_off w_ign]. split; lia.
        -- destruct (elem_rel_static _ _ He Hb Hd) as [bs [-> Hl]]. cbn [spos].
           apply IH; [exact F| |lia]. unfold winv. cbn [N.eqb w_off w_ign]. split; lia.
Qed.

Lemma winv_init : forall c, winv (mkW 0 0 0 0) 0 0 c.
Proof. intro c. unfold winv. cbn. auto. Qed.

Lemma Forall2_split : forall {A B} (R : A -> B -> Prop) l1 l2 i x,
    Forall2 R l1 l2 -> nth_error l1 i = Some x ->
    exists y, nth_error l2 i = Some y /\ R x y /\
              l1 = firstn i l1 ++ x :: skipn (S i) l1 /\ l2 = firstn i l2 ++ y :: skipn (S i) l2 /\
              Forall2 R (skipn (S i) l1) (skipn (S i) l2) /\ (i < List.length l1)%nat.
Proof.
  intros A B R l1 l2 i x F. revert i. induction F as [|a b r1 r2 Hab F IH]; intros i Hn.
  - destruct i; discriminate.
  - destruct i as [|i]; cbn in Hn.
    + injection Hn as <-. exists b. cbn. repeat split; auto. lia.
    + destruct (IH _ Hn) as (y & Hy & Hr & E1 & E2 & F' & L). exists y. cbn [nth_error firstn skipn app List.length].
      repeat split; auto; try (f_equal; assumption). lia.
Qed.

(* the facts used at the indexed position *)
Lemma walk_before_at : forall ts es i t,
    Forall2 elem_rel ts es -> nth_error ts i = Some t ->
    let w := walk_before ts i (mkW 0 0 0 0) in
    let P := fst (spos (firstn i es) 0 0) in
    let np := snd (spos (firstn i es) 0 0) in
    (is_bool t = true ->
       (if 0 <? w_ign w then w_lbs w * 8 + (w_lbl w - w_ign w) else w_off w * 8) = 8 * P + np) /\
    (is_bool t = false -> w_off w = P + bool_seq_len np).
Proof.
  intros ts es i t F Hn w P np.
  destruct (Forall2_split _ _ _ _ _ F Hn) as (e & He & Hr & E1 & _ & _ & L).
  pose proof (walk_before_inv i ts es (mkW 0 0 0 0) 0 0 F (winv_init _) ltac:(lia)) as W.
  fold w P np in W.
  assert (Hs : skipn i ts = t :: skipn (S i) ts).
  { rewrite E1 at 1. rewrite skipn_app.
    assert (Hl : List.length (firstn i ts) = i) by (apply firstn_length_le; lia).
    rewrite <- Hl at 1. rewrite skipn_all. rewrite Hl, Nat.sub_diag. reflexivity. }
  rewrite Hs in W. unfold winv in W. split; intro Hb.
  - rewrite (cb_cons_bool _ _ Hb) in W.
    destruct (N.eqb_spec np 0) as [E|E].
    + destruct W as [Wo Wi]. rewrite Wi, E. cbn [N.ltb N.compare]. lia.
    + destruct W as (Ws & Wl & Wi & Wo).
      assert (E0 : (0 <? w_ign w) = true) by (apply N.ltb_lt; lia). rewrite E0. lia.
  - rewrite (cb_cons_nonbool _ _ Hb) in W.
    destruct (N.eqb_spec np 0) as [E|E].
    + destruct W as [Wo Wi]. rewrite Wo, E, bsl0. lia.
    + destruct W as (Ws & Wl & Wi & Wo). rewrite Wo, N.add_0_r. reflexivity.
Qed.

(* ---- second loop ---- *)
Definition ainv (ign nxt pos np c : N) : Prop :=
  if np =? 0 then nxt = pos /\ ign = 0 else ign = c /\ nxt = pos + bool_seq_len (np + c).

Lemma walk_after_none : forall ts es ign nxt pos np,
    Forall2 elem_rel ts es -> ainv ign nxt pos np (consecutive_bools ts) -> no_dyn es = true ->
    fst (walk_after ts ign nxt) = false.
Proof.
  intros ts es ign nxt pos np F. revert ign nxt pos np.
  induction F as [|t e tr er He F IH]; intros ign nxt pos np A Hn; [reflexivity|].
  change (no_dyn (e :: er)) with (negb (is_ED e) && no_dyn er)%bool in Hn.
  apply andb_true_iff in Hn as [Hne Hn].
  cbn [walk_after]. unfold ainv in A. destruct (N.eqb_spec np 0) as [Hnp0|Hnp].
  - destruct A as [An Ai]. rewrite Ai. cbn [N.ltb N.compare].
    destruct (is_bool t) eqn:Hb.
    + destruct (elem_rel_bool _ _ He Hb) as [b ->].
      apply (IH _ _ pos 1); [|exact Hn]. rewrite (cb_cons_bool _ _ Hb). unfold ainv.
      cbn [N.eqb]. split; [lia|]. rewrite An. arith.
    + destruct (is_dynamic t) eqn:Hd.
      * destruct (elem_rel_dyn _ _ He Hb Hd) as [bs ->]. discriminate.
      * apply (IH _ _ (nxt + static_len t) 0); [|exact Hn]. unfold ainv. cbn [N.eqb]. auto.
  - destruct A as [Ai An].
    destruct (is_bool t) eqn:Hb.
    + rewrite (cb_cons_bool _ _ Hb) in *.
      assert (E : (0 <? ign) = true) by (apply N.ltb_lt; lia). rewrite E.
      apply (IH _ _ pos (np + 1)); [|exact Hn]. unfold ainv.
      assert (E1 : (np + 1 =? 0) = false) by (apply N.eqb_neq; lia). rewrite E1.
      split; [lia|]. rewrite An. arith.
    + rewrite (cb_cons_nonbool _ _ Hb) in *.
      assert (E : (0 <? ign) = false) by (apply N.ltb_ge; lia). rewrite E.
      destruct (is_dynamic t) eqn:Hd.
      * destruct (elem_rel_dyn _ _ He Hb Hd) as [bs ->]. discriminate.
      * apply (IH _ _ (nxt + static_len t) 0); [|exact Hn]. unfold ainv. cbn [N.eqb]. auto.
Qed.

Lemma walk_after_some : forall m ts bs' l3 ign nxt pos np,
    Forall2 elem_rel ts (m ++ ED bs' :: l3) -> ainv ign nxt pos np (consecutive_bools ts) -> no_dyn m = true ->
    walk_after ts ign nxt = (true, fst (spos m np pos) + bool_seq_len (snd (spos m np pos))).
Proof.
  induction m as [|e er IH]; intros ts bs' l3 ign nxt pos np F A Hn.
  - cbn [app] in F. inversion F as [|t e tr er' He F']; subst. cbn [spos fst snd walk_after].
    unfold elem_rel in He. cbn in He. destruct He as [Hb Hd].
    rewrite (cb_cons_nonbool _ _ Hb) in A. unfold ainv in A.
    destruct (N.eqb_spec np 0) as [->|Hnp].
    + destruct A as [An Ai]. rewrite Ai. cbn [N.ltb N.compare]. rewrite Hb, Hd, bsl0. f_equal. lia.
    + destruct A as [Ai An]. rewrite Ai. cbn [N.ltb N.compare]. rewrite Hb, Hd. f_equal.
      rewrite An, N.add_0_r. reflexivity.
  - cbn [app] in F. inversion F as [|t e' tr er' He F']; subst.
    change (no_dyn (e :: er)) with (negb (is_ED e) && no_dyn er)%bool in Hn.
    apply andb_true_iff in Hn as [Hne Hn].
    cbn [walk_after]. unfold ainv in A. destruct (N.eqb_spec np 0) as [->|Hnp].
    + destruct A as [An Ai]. rewrite Ai. cbn [N.ltb N.compare].
      destruct (is_bool t) eqn:Hb.
      * destruct (elem_rel_bool _ _ He Hb) as [b ->]. cbn [spos].
        apply (IH _ bs' l3); [exact F'| |exact Hn]. rewrite (cb_cons_bool _ _ Hb). unfold ainv.
        change (0 + 1 =? 0) with false. cbv iota. split; [lia|]. rewrite An. arith.
      * destruct (is_dynamic t) eqn:Hd.
        -- destruct (elem_rel_dyn _ _ He Hb Hd) as [bs ->]. discriminate.
        -- destruct (elem_rel_static _ _ He Hb Hd) as [bs [-> Hl]]. cbn [spos].
           rewrite bsl0, N.add_0_r, Hl, An.
           apply (IH _ bs' l3); [exact F'| |exact Hn]. unfold ainv. cbn [N.eqb]. auto.
    + destruct A as [Ai An].
      destruct (is_bool t) eqn:Hb.
      * rewrite (cb_cons_bool _ _ Hb) in *.
        assert (E : (0 <? ign) = true) by (apply N.ltb_lt; lia). rewrite E.
        destruct (elem_rel_bool _ _ He Hb) as [b ->]. cbn [spos].
        apply (IH _ bs' l3); [exact F'| |exact Hn]. unfold ainv.
        assert (E1 : (np + 1 =? 0) = false) by (apply N.eqb_neq; lia). rewrite E1.
        split; [lia|]. rewrite An. arith.
      * rewrite (cb_cons_nonbool _ _ Hb) in *.
        assert (E : (0 <? ign) = false) by (apply N.ltb_ge; lia). rewrite E.
        destruct (is_dynamic t) eqn:Hd.
        -- destruct (elem_rel_dyn _ _ He Hb Hd) as [bs ->]. discriminate.
        -- destruct (elem_rel_static _ _ He Hb Hd) as [bs [-> Hl]]. cbn [spos].
           rewrite An, N.add_0_r, Hl.
           apply (IH _ bs' l3); [exact F'| |exact Hn]. unfold ainv. cbn [N.eqb]. auto.
Qed.

Lemma dyn_split : forall es,
    no_dyn es = true \/ exists m bs l3, es = m ++ ED bs :: l3 /\ no_dyn m = true.
Proof.
  induction es as [|e r IH]; [left; reflexivity|].
  destruct e as [b|bs|bs].
  - destruct IH as [H|(m & bs & l3 & -> & Hm)].
    + left. exact H.
    + right. exists (EB b :: m), bs, l3. auto.
  - destruct IH as [H|(m & bs' & l3 & -> & Hm)].
    + left. exact H.
    + right. exists (ES bs :: m), bs', l3. auto.
  - right. exists [], bs, r. auto.
Qed.
