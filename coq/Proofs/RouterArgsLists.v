(* Proofs/RouterArgsLists.v — list facts used by the C09 proofs (positions under firstn / skipn /
   append / indexed map / filter, pointwise characterisation of Forall2, association lists with
   distinct keys). *)
From Coq Require Import List Arith Bool Lia.
From PV Require Import Router.Args.
Import ListNotations.

Lemma nth_error_firstn_lt : forall {A} (l : list A) n j, j < n -> nth_error (firstn n l) j = nth_error l j.
Proof.
  intros A l. induction l as [| x r IH]; intros n j Hj.
  - rewrite firstn_nil. reflexivity.
  - destruct n as [| n]; [lia |]. destruct j as [| j]; cbn; [reflexivity |]. apply IH. lia.
Qed.

Lemma nth_error_skipn_add : forall {A} (l : list A) n j, nth_error (skipn n l) j = nth_error l (n + j).
Proof.
  intros A l. induction l as [| x r IH]; intros n j.
  - rewrite skipn_nil. destruct j, n; reflexivity.
  - destruct n as [| n]; cbn; [reflexivity |]. apply IH.
Qed.

Lemma mapi_from_length : forall {A B} (f : nat -> A -> B) l k, length (mapi_from k f l) = length l.
Proof. intros A B f l. induction l as [| x r IH]; intro k; cbn; [reflexivity |]. now rewrite IH. Qed.

Lemma nth_error_mapi_from : forall {A B} (f : nat -> A -> B) l k j,
  nth_error (mapi_from k f l) j = option_map (f (k + j)) (nth_error l j).
Proof.
  intros A B f l. induction l as [| x r IH]; intros k j.
  - destruct j; reflexivity.
  - destruct j as [| j]; cbn.
    + now rewrite Nat.add_0_r.
    + rewrite IH. now replace (S k + j) with (k + S j) by lia.
Qed.

Lemma Forall2_nth_l : forall {A B} (R : A -> B -> Prop) l1 l2 j a,
  Forall2 R l1 l2 -> nth_error l1 j = Some a -> exists b, nth_error l2 j = Some b /\ R a b.
Proof.
  intros A B R l1 l2 j a H. revert j. induction H as [| x y r1 r2 Hxy Hr IH]; intros j Hj.
  - destruct j; discriminate.
  - destruct j as [| j]; cbn in *.
    + inversion Hj; subst. eauto.
    + now apply IH.
Qed.

Lemma Forall2_of_nth : forall {A B} (R : A -> B -> Prop) l1 l2,
  length l1 = length l2 ->
  (forall j a b, nth_error l1 j = Some a -> nth_error l2 j = Some b -> R a b) ->
  Forall2 R l1 l2.
Proof.
  intros A B R l1. induction l1 as [| x r IH]; intros l2 Hlen H.
  - destruct l2; [constructor | discriminate].
  - destruct l2 as [| y r2]; [discriminate |]. constructor.
    + apply (H 0); reflexivity.
    + apply IH; [cbn in Hlen; lia |]. intros j a b Ha Hb. apply (H (S j)); assumption.
Qed.

Lemma Forall2_firstn : forall {A B} (R : A -> B -> Prop) l1 l2 n,
  Forall2 R l1 l2 -> Forall2 R (firstn n l1) (firstn n l2).
Proof.
  intros A B R l1 l2 n H. revert n. induction H as [| x y r1 r2 Hxy Hr IH]; intro n.
  - rewrite !firstn_nil. constructor.
  - destruct n; cbn; constructor; auto.
Qed.

Lemma Forall2_skipn : forall {A B} (R : A -> B -> Prop) l1 l2 n,
  Forall2 R l1 l2 -> Forall2 R (skipn n l1) (skipn n l2).
Proof.
  intros A B R l1 l2 n H. revert n. induction H as [| x y r1 r2 Hxy Hr IH]; intro n.
  - rewrite !skipn_nil. constructor.
  - destruct n; cbn; [constructor; auto | apply IH].
Qed.

Lemma Forall2_len : forall {A B} (R : A -> B -> Prop) l1 l2, Forall2 R l1 l2 -> length l1 = length l2.
Proof. intros A B R l1 l2 H. induction H; cbn; congruence. Qed.

Lemma filter_map_fst : forall {A B} (p : A -> bool) (l : list (A * B)),
  filter p (map fst l) = map fst (filter (fun x => p (fst x)) l).
Proof.
  intros A B p l. induction l as [| [a b] r IH]; cbn; [reflexivity |].
  destruct (p a); cbn; now rewrite IH.
Qed.

Lemma map_fst_combine : forall {A B} (l1 : list A) (l2 : list B),
  length l1 = length l2 -> map fst (combine l1 l2) = l1.
Proof.
  intros A B l1. induction l1 as [| x r IH]; intros l2 H; [reflexivity |].
  destruct l2 as [| y r2]; [discriminate |]. cbn. f_equal. apply IH. cbn in H. lia.
Qed.

Lemma map_snd_combine : forall {A B} (l1 : list A) (l2 : list B),
  length l1 = length l2 -> map snd (combine l1 l2) = l2.
Proof.
  intros A B l1. induction l1 as [| x r IH]; intros l2 H.
  - destruct l2; [reflexivity | discriminate].
  - destruct l2 as [| y r2]; [discriminate |]. cbn. f_equal. apply IH. cbn in H. lia.
Qed.

Lemma nth_error_map_some : forall {A B} (f : A -> B) l j a,
  nth_error l j = Some a -> nth_error (map f l) j = Some (f a).
Proof. intros A B f l j a H. now apply map_nth_error. Qed.

(* ---- association lists with distinct keys ---- *)
Lemma cell_get_in : forall (cs : cells) k v,
  NoDup (map fst cs) -> In (k, v) cs -> cell_get cs k = Some v.
Proof.
  intros cs. induction cs as [| [k' v'] r IH]; intros k v Hnd Hin; [contradiction |].
  cbn in *. inversion Hnd as [| ? ? Hnot Hnd']; subst.
  destruct Hin as [Heq | Hin].
  - inversion Heq; subst. now rewrite Nat.eqb_refl.
  - destruct (Nat.eqb_spec k k') as [-> | _].
    + exfalso. apply Hnot. change k' with (fst (k', v)). now apply in_map.
    + now apply IH.
Qed.

Lemma NoDup_app_intro : forall {A} (l1 l2 : list A),
  NoDup l1 -> NoDup l2 -> (forall x, In x l1 -> In x l2 -> False) -> NoDup (l1 ++ l2).
Proof.
  intros A l1. induction l1 as [| x r IH]; intros l2 H1 H2 Hd; [assumption |].
  inversion H1 as [| ? ? Hnot H1']; subst. cbn. constructor.
  - intro Hin. apply in_app_or in Hin. destruct Hin as [Hin | Hin]; [now apply Hnot |].
    apply (Hd x); [now left | assumption].
  - apply IH; [assumption | assumption |]. intros y Hy1 Hy2. apply (Hd y); [now right | assumption].
Qed.

Lemma mapi_from_ext : forall {A B} (f g : nat -> A -> B) l k,
  (forall j x, f j x = g j x) -> mapi_from k f l = mapi_from k g l.
Proof.
  intros A B f g l. induction l as [| x r IH]; intros k H; cbn; [reflexivity |]. rewrite H. f_equal. now apply IH.
Qed.

Lemma mapi_from_shift : forall {A B} (f : nat -> A -> B) l k,
  mapi_from (S k) f l = mapi_from k (fun j => f (S j)) l.
Proof.
  intros A B f l. induction l as [| x r IH]; intro k; cbn; [reflexivity |]. f_equal. apply IH.
Qed.
