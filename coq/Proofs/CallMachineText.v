(* Proofs/CallMachineText.v — property C02: linked code -> TEXT -> assembler -> [Machine.run].
   The component list compile_components returns for a program with subroutines is [#pragma version v :: L],
   L = flatten_subroutines ... (main code, then every subroutine behind its header [// name] + entry label).
   1. the pragma in front shifts every position — and every RETURN position on the call stack — by one
      ([pstep_pragma], the analogue of StageECompose.lstep_pragma for Comp/LinkedSem.v);
   2. the printed text of a printable list parses to [link msel (pragma :: L)] (StageEText.text_links: subroutine
      headers and [callsub <label>] are in the class [printable]);
   3. the whole-run machine bridge of Proofs/CallMachineSim.v on that program.
   Result [linked_text_runs]: a halting run [pstar] of L from pc 0 with an empty call stack gives the verdict of
   [Machine.run] on the parse of the printed text. *)
From Coq Require Import List Arith NArith Ascii String Bool Lia.
From PV Require Import Base.Bytes Base.Sexp AVM.Syntax AVM.Ops AVM.Machine AVM.Parse Src.Expr Src.Denote
  Comp.Blocks Comp.GraphSem Comp.LinearSem Comp.LinkedSem Comp.Assemble
  Proofs.StageELink Proofs.StageEText Proofs.StageECompose Proofs.CallMachineSim.
Import ListNotations.
Local Open Scope list_scope.

(* ---------------------------------------------------------------------------------------------- *)
(* 1. a pragma in front                                                                             *)
(* ---------------------------------------------------------------------------------------------- *)
Definition pshift (c : pconf) : pconf :=
  match c with PAt fr pc stk st => PAt (map S fr) (S pc) stk st | other => other end.

Lemma pstep_pragma env v code c :
  pstep env (CPragma v :: code) (pshift c) = option_map pshift (pstep env code c).
Proof.
  destruct c as [fr pc stk st| | | |]; try reflexivity.
  cbn [pshift pstep nth_error].
  destruct (nth_error code pc) as [[i|l cm|vv]|]; cbn [option_map pshift]; try reflexivity.
  f_equal. unfold pstep_op.
  destruct (is_return (i_op i)); [destruct stk; reflexivity|].
  destruct (is_retsub (i_op i)); [destruct fr; reflexivity|].
  destruct (call_label i) as [l|].
  { rewrite find_label_pragma. destruct (find_label l code); reflexivity. }
  destruct (jump_of i) as [[[| |] l]|].
  - unfold pgoto. rewrite find_label_pragma. destruct (find_label l code); reflexivity.
  - destruct stk as [|x s']; [reflexivity|]. destruct (truthy x) as [[|]|]; try reflexivity.
    unfold pgoto. rewrite find_label_pragma. destruct (find_label l code); reflexivity.
  - destruct stk as [|x s']; [reflexivity|]. destruct (truthy x) as [[|]|]; try reflexivity.
    unfold pgoto. rewrite find_label_pragma. destruct (find_label l code); reflexivity.
  - destruct (do_op env (i_op i) (i_args i) stk st); reflexivity.
Qed.

Lemma pstar_pragma env v code c c' :
  pstar env code c c' -> pstar env (CPragma v :: code) (pshift c) (pshift c').
Proof.
  induction 1 as [c|c c1 c2 S1 _ IH]; [apply pstar_refl|].
  eapply pstar_step; [|exact IH]. rewrite pstep_pragma, S1. reflexivity.
Qed.

Lemma pstar_pragma_inv env v code : forall d d', pstar env (CPragma v :: code) d d' ->
  forall c, d = pshift c -> exists c', d' = pshift c' /\ pstar env code c c'.
Proof.
  induction 1 as [d|d d1 d2 S1 _ IH]; intros c E.
  - exists c. split; [exact E|apply pstar_refl].
  - subst d. rewrite pstep_pragma in S1. destruct (pstep env code c) as [c1|] eqn:E1; [|discriminate S1].
    injection S1 as <-. destruct (IH c1 eq_refl) as (c' & E' & H'). exists c'. split; [exact E'|].
    eapply pstar_step; [exact E1|exact H'].
Qed.

(* the run of the list behind the pragma, from the pragma *)
Lemma pragma_run env v code stk st h :
  pfinal h = true -> pstar env code (PAt [] 0 stk st) h -> pstar env (CPragma v :: code) (PAt [] 0 stk st) h.
Proof.
  intros F H. eapply pstar_step; [reflexivity|].
  apply (pstar_pragma env v) in H. cbn [pshift map] in H.
  replace (pshift h) with h in H by (destruct h; try reflexivity; discriminate F). exact H.
Qed.

Lemma pragma_bounded env v code stk st :
  pstack_bounded env code (PAt [] 0 stk st) -> pstack_bounded env (CPragma v :: code) (PAt [] 0 stk st).
Proof.
  intros B fr pc stk' st' H.
  remember (PAt [] 0 stk st) as c0 eqn:E0. remember (PAt fr pc stk' st') as c1 eqn:E1.
  destruct H as [c|c cm c2 S1 H'].
  - subst c. injection E1 as E1a E1b E1c E1d. subst. apply (B [] 0 stk' st'). apply pstar_refl.
  - subst c c2. cbn in S1. injection S1 as <-.
    destruct (pstar_pragma_inv env v _ _ _ H' (PAt [] 0 stk st) eq_refl) as (c' & E & Hc).
    destruct c' as [fr2 pc2 stk2 st2| | | |]; try discriminate E. cbn [pshift] in E.
    injection E as E2a E2b E2c E2d. subst.
    exact (B fr2 pc2 stk2 st2 Hc).
Qed.

(* the whole-run bridge for the list behind its pragma: P = the assembler's program for [#pragma :: L] *)
Theorem machine_bridge_linked env version L P :
  link (e_msel env) (CPragma version :: L) = Some P -> targets_ok (CPragma version :: L) = true ->
  forall st h v,
    pstar env L (PAt [] 0 [] st) h -> pverdict_of h = Some v ->
    pstack_bounded env L (PAt [] 0 [] st) ->
    exists n m', (forall k, n <= k -> run k (e_ctx env) P (init_mach st) = (v, m')) /\ pfinal_ok h m'.
Proof.
  intros LK TG st h v H V B.
  assert (F : pfinal h = true) by (destruct h; try reflexivity; discriminate V).
  exact (pmachine_bridge_init env _ P LK TG st h v (pragma_run env version L [] st h F H) V
           (pragma_bounded env version L [] st B)).
Qed.

(* ---------------------------------------------------------------------------------------------- *)
(* 2. the program version                                                                           *)
(* ---------------------------------------------------------------------------------------------- *)
Lemma pragma_version msel version L P :
  no_pragma L = true -> link msel (CPragma version :: L) = Some P -> pr_version P = version.
Proof.
  intros N LK. unfold link in LK. cbn [stmts_of stmt_of] in LK.
  destruct (stmts_of msel L) as [ss|] eqn:HS; [|discriminate LK].
  cbn [app build_prog] in LK.
  exact (build_prog_version msel _ ss _ _ _ _ P HS N LK).
Qed.

(* ---------------------------------------------------------------------------------------------- *)
(* 3. list -> text -> machine, for any printable linked list                                        *)
(* ---------------------------------------------------------------------------------------------- *)
Theorem linked_text_runs msel version L :
  let comps := CPragma version :: L in
  NoDup (labels_of L) ->
  printable msel comps = true -> targets_ok comps = true ->
  exists lines P,
    assemble_all comps = Some lines /\
    parse_program msel (program_text lines) = Some P /\ link msel comps = Some P /\
    (no_pragma L = true -> pr_version P = version) /\
    forall env, e_msel env = msel ->
    forall st h v,
      pstar env L (PAt [] 0 [] st) h -> pverdict_of h = Some v ->
      pstack_bounded env L (PAt [] 0 [] st) ->
      exists n m', (forall k, n <= k -> run k (e_ctx env) P (init_mach st) = (v, m')) /\ pfinal_ok h m'.
Proof.
  intros comps ND PR TG.
  destruct (lines_roundtrip msel comps PR) as (lines & lss & ss & A & _ & _ & _ & _ & HS & _).
  assert (ND' : NoDup (labels_of comps)) by exact ND.
  destruct (link_total msel comps ss HS ND') as [P LK].
  exists lines, P. split; [exact A|].
  assert (TL : parse_program msel (program_text lines) = link msel comps).
  { apply text_links; [exact PR|discriminate|exact A]. }
  split; [rewrite TL; exact LK|]. split; [exact LK|].
  split; [intros NP; exact (pragma_version msel version L P NP LK)|].
  intros env Em st h v H V B.
  assert (F : pfinal h = true) by (destruct h; try reflexivity; discriminate V).
  subst msel.
  exact (pmachine_bridge_init env comps P LK TG st h v (pragma_run env version L [] st h F H) V
           (pragma_bounded env version L [] st B)).
Qed.
