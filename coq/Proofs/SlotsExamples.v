(* Proofs/SlotsExamples.v — C10: the hypotheses of the theorems are satisfiable and the model
   computes what one expects on concrete programs (closed computations only). *)
From Coq Require Import List NArith ZArith Bool Lia Permutation.
From PV Require Import Base.Bytes AVM.Syntax AVM.Machine Gen.SlotConfig Comp.Slots Proofs.SlotsProof Proofs.SlotsCells.
Import ListNotations.
Local Open Scope N_scope.

Lemma set_order_refl inp : set_order inp (all_slots inp).
Proof. apply Permutation_refl. Qed.

Definition auto (u : N) : slot := mkSlot u (256 + u) false.
Definition req (u i : N) : slot := mkSlot u i true.

(* main: x (automatic), y (requested 1), ScratchIndex of y, z (requested 0); sub: x again, w, v *)
Definition ex_inp : input :=
  [ [mkOp KStore [ASlot (auto 7)]; mkOp KStore [ASlot (req 8 1)]; mkOp KInt [ASlot (req 8 1)];
     mkOp KStore [ASlot (req 9 0)]; mkOp KLoad [ASlot (auto 7)]; mkOp KOther [ANum 5]];
    [mkOp KLoad [ASlot (auto 7)]; mkOp KStore [ASlot (auto 10)]; mkOp KStore [ASlot (auto 11)]; mkOp KLoad [ASlot (auto 10)]] ].

Example ex_assign :
  assign ex_inp true =
  Ok (mkAssignment
        [(req 9 0, 0); (req 8 1, 1); (auto 7, 2); (auto 10, 3); (auto 11, 4)]
        [ [mkOp KStore [ANum 2]; mkOp KStore [ANum 1]; mkOp KInt [ANum 1]; mkOp KStore [ANum 0]; mkOp KLoad [ANum 2]; mkOp KOther [ANum 5]];
          [mkOp KLoad [ANum 2]; mkOp KStore [ANum 3]; mkOp KStore [ANum 4]; mkOp KLoad [ANum 3]] ]
        [ [1; 0]; [4; 3] ]).
Proof. vm_compute. reflexivity. Qed.

(* the numbering loop skips requested ids, also when one equals the next automatic index after an
   earlier assignment: requested 0, 1, 3 and three automatic slots -> 2, 4, 5 *)
Definition ex_skip : input :=
  [ [mkOp KStore [ASlot (req 1 0)]; mkOp KStore [ASlot (req 2 1)]; mkOp KStore [ASlot (req 3 3)];
     mkOp KStore [ASlot (auto 4)]; mkOp KStore [ASlot (auto 5)]; mkOp KStore [ASlot (auto 6)]] ].
Example ex_skip_assign :
  match assign ex_skip true with
  | Ok a => map snd (r_map a) = [0; 1; 3; 2; 4; 5]
  | Err _ => False
  end.
Proof. vm_compute. reflexivity. Qed.

(* two different slot objects requesting id 5: rejected; the same object used twice: fine *)
Example ex_conflict : assign [[mkOp KStore [ASlot (req 1 5)]; mkOp KStore [ASlot (req 2 5)]]] true = Err (SlotIdAssignedTwice 5).
Proof. vm_compute. reflexivity. Qed.
Example ex_conflict_is_conflict : has_conflict [[mkOp KStore [ASlot (req 1 5)]; mkOp KStore [ASlot (req 2 5)]]].
Proof.
  exists 5, (req 1 5), (req 2 5). unfold referenced. cbn. repeat split; auto. discriminate.
Qed.
Example ex_same_object_twice :
  match assign [[mkOp KStore [ASlot (req 1 5)]; mkOp KLoad [ASlot (req 1 5)]]] true with Ok a => r_map a = [(req 1 5, 5)] | Err _ => False end.
Proof. vm_compute. reflexivity. Qed.

(* the limit: NUM_SLOTS automatic slots fit, one more is rejected *)
Definition many (k : nat) : input := [map (fun i => mkOp KStore [ASlot (auto (N.of_nat i))]) (seq 0 k)].
Example ex_limit_ok :
  match assign (many (N.to_nat NUM_SLOTS)) true with
  | Ok a => forallb (fun kv => snd kv <? NUM_SLOTS) (r_map a) = true /\ List.length (r_map a) = N.to_nat NUM_SLOTS
  | Err _ => False
  end.
Proof. vm_compute. split; reflexivity. Qed.
Example ex_limit_exceeded : assign (many (S (N.to_nat NUM_SLOTS))) true = Err (TooManySlots (NUM_SLOTS + 1)).
Proof. vm_compute. reflexivity. Qed.

(* hypotheses of the theorems hold for the example program *)
Example ex_valid : requested_ids_valid ex_inp.
Proof.
  intros s Hs R. unfold referenced in Hs. cbn in Hs.
  repeat (destruct Hs as [<-|Hs]; [first [discriminate R | vm_compute; reflexivity]|]). destruct Hs.
Qed.
Example ex_no_conflict : ~ has_conflict ex_inp.
Proof. apply (no_conflict_of_inr ex_inp (all_slots ex_inp) [0; 1] (set_order_refl _)). vm_compute. reflexivity. Qed.

(* constructor *)
Example ex_make_slots :
  make_slots [None; Some 3%Z; None; Some 255%Z] 0 256 =
  Some ([mkSlot 0 256 false; mkSlot 1 3 true; mkSlot 2 257 false; mkSlot 3 255 true], 258).
Proof. vm_compute. reflexivity. Qed.
Example ex_make_slots_invalid : make_slots [None; Some 256%Z] 0 256 = None /\ make_slots [Some (-1)%Z] 0 256 = None.
Proof. vm_compute. auto. Qed.

(* frame locals: from 126 locals, four allocations give indices 126, 127, then scratch *)
Example ex_alloc : alloc_many 4 (Some (MAX_FRAME_LOCAL_VARS - 2)) =
  ([FrameVarAt (MAX_FRAME_LOCAL_VARS - 2); FrameVarAt (MAX_FRAME_LOCAL_VARS - 1); ScratchVarNew; ScratchVarNew], Some MAX_FRAME_LOCAL_VARS).
Proof. vm_compute. reflexivity. Qed.

(* cells: x and y interleaved through store/stores/load/loads on the machine *)
Example ex_cells :
  let num := fun x : N => x + 10 in
  let cx := mkCtx true [] 0 [] [] 0 in
  match exec_actions cx num [Store 1 (VI 111); StoreDyn 2 (VI 222); Load 1; Store 2 (VI 333); LoadDyn 1; Load 2; Store 1 (VI 444); LoadDyn 2; Load 1]
                     [] (init_state [] [] []) with
  | OOk stk _ => stk = [VI 444; VI 333; VI 333; VI 111; VI 111]
  | _ => False
  end.
Proof. vm_compute. reflexivity. Qed.
