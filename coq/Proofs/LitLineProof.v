(* Proofs/LitLineProof.v — C13: how the assembler's tokeniser and statement parser read the
   lines  byte 0x..  /  byte base32(..)  /  byte base64(..)  /  int N  /  addr A  /  method "sig",
   for arbitrary payload text satisfying a character-class condition. *)
From Coq Require Import List Arith NArith Ascii String Bool Lia.
From PV Require Import Base.Bytes Base.Sexp AVM.Syntax AVM.Machine AVM.Parse Lit.Escape Lit.BaseN
  Proofs.LitEscapeProof.
Import ListNotations.
Local Open Scope string_scope.
Local Open Scope list_scope.

(* ---- strings ---- *)
Lemma sapp_assoc (a b c : string) : ((a ++ b) ++ c = a ++ (b ++ c))%string.
Proof. induction a as [|x a IH]; cbn; [reflexivity | now rewrite IH]. Qed.

Lemma slen_app (a b : string) : String.length (a ++ b)%string = String.length a + String.length b.
Proof. induction a as [|x a IH]; cbn; [reflexivity | now rewrite IH]. Qed.

Lemma prefix_app (a b : string) : String.prefix a (a ++ b)%string = true.
Proof.
  induction a as [|x a IH]; cbn; [destruct b; reflexivity|].
  destruct (Ascii.ascii_dec x x) as [_|N]; [exact IH | now elim N].
Qed.

Lemma substring_skip (a b : string) n : substring (String.length a) n (a ++ b)%string = substring 0 n b.
Proof. induction a as [|x a IH]; cbn; [reflexivity | exact IH]. Qed.

Lemma substring_take (a b : string) : substring 0 (String.length a) (a ++ b)%string = a.
Proof. induction a as [|x a IH]; cbn; [destruct b; reflexivity | now rewrite IH]. Qed.

Lemma slen_list s : String.length s = List.length (list_ascii_of_string s).
Proof. induction s as [|c s IH]; cbn; [reflexivity | now rewrite IH]. Qed.

(* base64(XXXX) -> XXXX, for any prefix word and any content *)
Lemma paren_body_ok (p v : string) : paren_body p (p ++ "(" ++ v ++ ")")%string = Some v.
Proof.
  unfold paren_body, starts_with.
  replace (p ++ "(" ++ v ++ ")")%string with ((p ++ "(") ++ (v ++ ")"))%string by now rewrite sapp_assoc.
  rewrite prefix_app. rewrite !slen_app. cbn [String.length andb].
  replace (Nat.leb (String.length p + 2) (String.length p + 1 + (String.length v + 1))) with true
    by (symmetry; apply Nat.leb_le; lia).
  set (q := (p ++ "(")%string).
  assert (Lq : String.length q = String.length p + 1) by (unfold q; rewrite slen_app; reflexivity).
  replace (String.length p + 1 + (String.length v + 1) - 1) with (String.length (q ++ v)%string)
    by (rewrite slen_app; lia).
  replace (String.length p + 1 + (String.length v + 1) - String.length p - 2) with (String.length v) by lia.
  rewrite <- Lq.
  replace (q ++ v ++ ")")%string with ((q ++ v) ++ ")")%string at 1 by now rewrite sapp_assoc.
  rewrite substring_skip. cbn [substring].
  change (String.eqb ")" ")") with true. cbn iota.
  rewrite substring_skip, substring_take. reflexivity.
Qed.

(* ---- runs of ordinary characters outside strings ---- *)
Definition plainc (c : ascii) : bool :=
  negb (is_space c) && negb (Ascii.eqb c """") && negb (Ascii.eqb c "/") && negb (Ascii.eqb c "(") &&
  negb (Ascii.eqb c ")") && negb (Ascii.eqb c ";").

Lemma tok_plain l : forall rest cur ib acc,
  forallb plainc l = true ->
  tok_line (l ++ rest) cur false false ib acc = tok_line rest (rev l ++ cur) false false ib acc.
Proof.
  induction l as [|c l IH]; intros rest cur ib acc H; [reflexivity|].
  cbn [forallb] in H. apply andb_true_iff in H as [Hc Hl].
  unfold plainc in Hc. repeat (apply andb_true_iff in Hc as [Hc ?]).
  repeat match goal with X : negb _ = true |- _ => apply negb_true_iff in X end.
  cbn [app tok_line].
  repeat match goal with X : _ = false |- _ => rewrite X end.
  rewrite IH by assumption. cbn [rev]. now rewrite <- app_assoc.
Qed.

(* inside base64( ... ): alphabet and pad characters, slashes included *)
Definition b64c (c : ascii) : bool := is_b64 c || is_pad c.

Lemma b64c_facts c : b64c c = true ->
  is_space c = false /\ Ascii.eqb c """" = false /\ Ascii.eqb c "(" = false /\
  Ascii.eqb c ")" = false /\ Ascii.eqb c ";" = false.
Proof.
  destruct c as [[|] [|] [|] [|] [|] [|] [|] [|]]; cbn; intros H; try discriminate H; repeat split; reflexivity.
Qed.

Lemma tok_b64run l : forall rest cur acc,
  forallb b64c l = true ->
  tok_line (l ++ rest) cur false false true acc = tok_line rest (rev l ++ cur) false false true acc.
Proof.
  induction l as [|c l IH]; intros rest cur acc H; [reflexivity|].
  cbn [forallb] in H. apply andb_true_iff in H as [Hc Hl].
  destruct (b64c_facts c Hc) as (F1 & F2 & F3 & F4 & F5).
  assert (E : tok_line (l ++ rest) (c :: cur) false false true acc =
              tok_line rest (rev (c :: l) ++ cur) false false true acc).
  { rewrite IH by assumption. cbn [rev]. now rewrite <- app_assoc. }
  cbn [app tok_line]. rewrite F1, F2, F3, F4, F5. cbn [negb].
  destruct (Ascii.eqb c "/"); [|exact E].
  destruct (l ++ rest) as [|c2 t']; [exact E|]. rewrite andb_false_r. exact E.
Qed.

Lemma plain_of_class (P : ascii -> bool) :
  (forall c, P c = true -> plainc c = true) ->
  forall l, forallb P l = true -> forallb plainc l = true.
Proof.
  intros H l. induction l as [|c l IH]; cbn; [reflexivity|].
  intros E. apply andb_true_iff in E as [E1 E2]. now rewrite (H c E1), IH.
Qed.

Lemma hex_plain c : is_hex c = true -> plainc c = true.
Proof. destruct c as [[|] [|] [|] [|] [|] [|] [|] [|]]; cbn; intros H; try discriminate H; reflexivity. Qed.
Lemma b32pad_plain c : is_b32 c || is_pad c = true -> plainc c = true.
Proof. destruct c as [[|] [|] [|] [|] [|] [|] [|] [|]]; cbn; intros H; try discriminate H; reflexivity. Qed.
Definition is_digit (c : ascii) : bool := in_range 48 57 c.
Lemma digit_plain c : is_digit c = true -> plainc c = true.
Proof. destruct c as [[|] [|] [|] [|] [|] [|] [|] [|]]; cbn; intros H; try discriminate H; reflexivity. Qed.

(* ---- token lists of the literal lines ---- *)
Lemma flush_one cur acc x : rev (match x :: cur with [] => acc | _ => str_of (x :: cur) :: acc end) = rev acc ++ [str_of (x :: cur)].
Proof. reflexivity. Qed.

(* <op> <word>: after a concrete prefix that leaves the tokeniser with pending characters
   [cur0] (reversed) and the finished token [acc0], a run of ordinary characters ends the line *)
Lemma tokens_word_after (pre : string) (w : string) acc0 cur0 :
  (forall rest acc, tok_line (list_ascii_of_string pre ++ rest) [] false false false acc =
                    tok_line rest cur0 false false false (acc0 :: acc)) ->
  (cur0 <> [] \/ w <> ""%string) ->
  forallb plainc (list_ascii_of_string w) = true ->
  tokens_of_line (pre ++ w)%string = [acc0; string_of_list_ascii (rev cur0 ++ list_ascii_of_string w)].
Proof.
  intros P NE H. unfold tokens_of_line. rewrite list_of_append, P.
  rewrite <- (app_nil_r (list_ascii_of_string w)) at 1. rewrite tok_plain by exact H.
  cbn [tok_line].
  destruct (rev (list_ascii_of_string w) ++ cur0) as [|x l] eqn:E.
  { exfalso. apply app_eq_nil in E as [E1 E2]. destruct NE as [NE|NE]; [now apply NE|].
    apply NE. destruct w; [reflexivity|]. cbn in E1. apply app_eq_nil in E1 as [_ E1]. discriminate E1. }
  rewrite <- E. cbn [rev app]. unfold str_of. now rewrite rev_app_distr, rev_involutive.
Qed.

(* byte 0x<h> *)
Lemma tokens_hex (h : string) :
  forallb is_hex (list_ascii_of_string h) = true ->
  tokens_of_line ("byte 0x" ++ h)%string = ["byte"; ("0x" ++ h)%string].
Proof.
  intros H.
  rewrite (tokens_word_after "byte 0x" h "byte" ["x"%char; "0"%char]).
  - cbn [rev app string_of_list_ascii]. now rewrite string_of_list_of.
  - reflexivity.
  - left. discriminate.
  - apply (plain_of_class is_hex hex_plain). exact H.
Qed.

Lemma tok_close_paren cur ib acc :
  tok_line [")"%char] cur false false ib acc = rev (str_of (")"%char :: cur) :: acc).
Proof. reflexivity. Qed.

Lemma str_of_paren (pre v : string) :
  str_of (")"%char :: rev (list_ascii_of_string v) ++ rev (list_ascii_of_string pre)) = (pre ++ v ++ ")")%string.
Proof.
  unfold str_of. cbn [rev]. rewrite rev_app_distr, !rev_involutive, <- app_assoc.
  change ([")"%char]) with (list_ascii_of_string ")").
  rewrite <- !list_of_append. apply string_of_list_of.
Qed.

(* byte base32(<v>) *)
Lemma tokens_base32 (v : string) :
  forallb (fun c => is_b32 c || is_pad c) (list_ascii_of_string v) = true ->
  tokens_of_line ("byte base32(" ++ v ++ ")")%string = ["byte"; ("base32(" ++ v ++ ")")%string].
Proof.
  intros H. unfold tokens_of_line. rewrite !list_of_append.
  change (list_ascii_of_string "byte base32(") with (list_ascii_of_string "byte " ++ list_ascii_of_string "base32(").
  rewrite <- app_assoc, tok_byte_prefix.
  assert (P : forall rest acc, tok_line (list_ascii_of_string "base32(" ++ rest) [] false false false acc =
                               tok_line rest (rev (list_ascii_of_string "base32(")) false false false acc) by reflexivity.
  rewrite P. rewrite tok_plain by (apply (plain_of_class _ b32pad_plain); exact H).
  change (list_ascii_of_string ")") with [")"%char].
  rewrite tok_close_paren, str_of_paren. reflexivity.
Qed.

(* byte base64(<v>) *)
Lemma tokens_base64 (v : string) :
  forallb b64c (list_ascii_of_string v) = true ->
  tokens_of_line ("byte base64(" ++ v ++ ")")%string = ["byte"; ("base64(" ++ v ++ ")")%string].
Proof.
  intros H. unfold tokens_of_line. rewrite !list_of_append.
  change (list_ascii_of_string "byte base64(") with (list_ascii_of_string "byte " ++ list_ascii_of_string "base64(").
  rewrite <- app_assoc, tok_byte_prefix.
  assert (P : forall rest acc, tok_line (list_ascii_of_string "base64(" ++ rest) [] false false false acc =
                               tok_line rest (rev (list_ascii_of_string "base64(")) false false true acc) by reflexivity.
  rewrite P. rewrite tok_b64run by exact H.
  change (list_ascii_of_string ")") with [")"%char].
  rewrite tok_close_paren, str_of_paren. reflexivity.
Qed.

Lemma tokens_int (w : string) :
  w <> ""%string -> forallb is_digit (list_ascii_of_string w) = true ->
  tokens_of_line ("int " ++ w)%string = ["int"; w].
Proof.
  intros NE H. rewrite (tokens_word_after "int " w "int" []).
  - cbn [rev app]. now rewrite string_of_list_of.
  - reflexivity.
  - now right.
  - apply (plain_of_class _ digit_plain). exact H.
Qed.

Lemma tokens_addr (w : string) :
  w <> ""%string -> forallb (fun c => is_b32 c || is_pad c) (list_ascii_of_string w) = true ->
  tokens_of_line ("addr " ++ w)%string = ["addr"; w].
Proof.
  intros NE H. rewrite (tokens_word_after "addr " w "addr" []).
  - cbn [rev app]. now rewrite string_of_list_of.
  - reflexivity.
  - now right.
  - apply (plain_of_class _ b32pad_plain). exact H.
Qed.

(* ---- the byte-constant argument parser on the three non-string spellings ---- *)
Lemma parse_bytes_arg_hex (h : string) rest :
  parse_bytes_arg (("0x" ++ h)%string :: rest) =
  option_map (fun b => (b, rest)) (bytes_of_hex_l (list_ascii_of_string h)).
Proof.
  unfold parse_bytes_arg. cbn [append].
  change (String.eqb (String "0" (String "x" h)) "base64") with false.
  change (String.eqb (String "0" (String "x" h)) "b64") with false.
  change (String.eqb (String "0" (String "x" h)) "base32") with false.
  change (String.eqb (String "0" (String "x" h)) "b32") with false.
  cbn [orb].
  assert (PB : forall p, paren_body (String "b" p) (String "0" (String "x" h)) = None) by reflexivity.
  rewrite !PB. unfold decode_hex0x. cbn [list_ascii_of_string].
  change (Ascii.eqb "0" "0" && (Ascii.eqb "x" "x" || Ascii.eqb "x" "X")) with true. cbn iota.
  destruct (bytes_of_hex_l (list_ascii_of_string h)); reflexivity.
Qed.

Lemma parse_bytes_arg_base32 (v : string) rest :
  parse_bytes_arg (("base32(" ++ v ++ ")")%string :: rest) =
  option_map (fun b => (b, rest)) (decode_base32 v).
Proof.
  unfold parse_bytes_arg.
  assert (E1 : String.eqb ("base32(" ++ v ++ ")")%string "base64" = false) by reflexivity.
  assert (E2 : String.eqb ("base32(" ++ v ++ ")")%string "b64" = false) by reflexivity.
  assert (E3 : String.eqb ("base32(" ++ v ++ ")")%string "base32" = false) by reflexivity.
  assert (E4 : String.eqb ("base32(" ++ v ++ ")")%string "b32" = false) by reflexivity.
  rewrite E1, E2, E3, E4. cbn [orb].
  assert (P1 : paren_body "base64" ("base32(" ++ v ++ ")")%string = None) by reflexivity.
  assert (P2 : paren_body "b64" ("base32(" ++ v ++ ")")%string = None) by reflexivity.
  rewrite P1, P2.
  change ("base32(" ++ v ++ ")")%string with ("base32" ++ "(" ++ v ++ ")")%string.
  rewrite (paren_body_ok "base32" v). reflexivity.
Qed.

Lemma parse_bytes_arg_base64 (v : string) rest :
  parse_bytes_arg (("base64(" ++ v ++ ")")%string :: rest) =
  option_map (fun b => (b, rest)) (decode_base64 v).
Proof.
  unfold parse_bytes_arg.
  assert (E1 : String.eqb ("base64(" ++ v ++ ")")%string "base64" = false) by reflexivity.
  assert (E2 : String.eqb ("base64(" ++ v ++ ")")%string "b64" = false) by reflexivity.
  assert (E3 : String.eqb ("base64(" ++ v ++ ")")%string "base32" = false) by reflexivity.
  assert (E4 : String.eqb ("base64(" ++ v ++ ")")%string "b32" = false) by reflexivity.
  rewrite E1, E2, E3, E4. cbn [orb].
  change ("base64(" ++ v ++ ")")%string with ("base64" ++ "(" ++ v ++ ")")%string.
  rewrite (paren_body_ok "base64" v). reflexivity.
Qed.

(* ---- statements ---- *)
Lemma parse_stmt_byte msel tk :
  parse_stmt msel ["byte"; tk] =
  match parse_bytes_arg [tk] with Some (b, []) => push_bytes b | _ => None end.
Proof.
  unfold parse_stmt. change (String.eqb "byte" "#pragma") with false. cbn iota.
  change (ends_with_colon "byte") with (@None string). cbn iota.
  rewrite parse_opc_byte. cbn iota. unfold push_bytes.
  destruct (parse_bytes_arg [tk]) as [[b [|x r]]|]; reflexivity.
Qed.

Definition push_int (n : N) : option (option stmt) := Some (Some (SInstr (mkP O_int [IInt n]))).
Definition push_addr (b : bytes) : option (option stmt) := Some (Some (SInstr (mkP O_addr [IBytes b]))).
Definition push_method (b : bytes) : option (option stmt) :=
  Some (Some (SInstr (mkP O_method_signature [IBytes b]))).

Lemma parse_opc_int : parse_opc "int" = Some O_int. Proof. vm_compute. reflexivity. Qed.
Lemma parse_opc_addr : parse_opc "addr" = Some O_addr. Proof. vm_compute. reflexivity. Qed.
Lemma parse_opc_method : parse_opc "method" = Some O_method_signature. Proof. vm_compute. reflexivity. Qed.

Lemma parse_stmt_int msel tk :
  parse_stmt msel ["int"; tk] = match parse_int_arg tk with Some n => push_int n | None => None end.
Proof.
  unfold parse_stmt. change (String.eqb "int" "#pragma") with false. cbn iota.
  change (ends_with_colon "int") with (@None string). cbn iota.
  rewrite parse_opc_int. cbn iota. unfold push_int. destruct (parse_int_arg tk); reflexivity.
Qed.

Lemma parse_stmt_addr msel tk :
  parse_stmt msel ["addr"; tk] =
  if (String.length tk =? 58)%nat
  then match decode_base32 tk with Some b => push_addr (firstn 32 b) | None => None end
  else None.
Proof.
  unfold parse_stmt. change (String.eqb "addr" "#pragma") with false. cbn iota.
  change (ends_with_colon "addr") with (@None string). cbn iota.
  rewrite parse_opc_addr. cbn iota. unfold push_addr.
  destruct (String.length tk =? 58)%nat; [|reflexivity]. destruct (decode_base32 tk); reflexivity.
Qed.

Lemma parse_stmt_method msel tk :
  parse_stmt msel ["method"; tk] =
  match parse_string_literal tk with
  | Some sig => match alookup String.eqb (string_of_bytes sig) msel with
                | Some sel => push_method sel | None => None end
  | None => None
  end.
Proof.
  unfold parse_stmt. change (String.eqb "method" "#pragma") with false. cbn iota.
  change (ends_with_colon "method") with (@None string). cbn iota.
  rewrite parse_opc_method. cbn iota. unfold push_method.
  destruct (parse_string_literal tk) as [sig|]; [|reflexivity].
  destruct (alookup String.eqb (string_of_bytes sig) msel); reflexivity.
Qed.
