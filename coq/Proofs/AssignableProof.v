(* Proofs/AssignableProof.v — C19: whatever type_spec_is_assignable_to admits has the same ARC-4 layout.
   All statements are about the model ABI/Assignable.v and hold for arbitrarily nested specs. *)
From Coq Require Import List NArith Ascii String Bool Lia.
From PV Require Import Base.Bytes Base.Sexp ABI.Types ABI.Spec ABI.Layout ABI.Descr ABI.Assignable
  Proofs.ABISpecProof Proofs.ABILayoutProof Proofs.ABIDescrProof.
Import ListNotations.

(* ------------------------------------------------------------------------------------------ *)
(* 1. the fixpoint is the literal transcription of the Python text                             *)
(* ------------------------------------------------------------------------------------------ *)
Definition tuple_elems (t : ty) : list ty := match t with TTuple _ ts => ts | _ => [] end.

Lemma all2_zip_fix : forall (f : ty -> ty -> bool) l1 l2,
    (fix go (l1 l2 : list ty) : bool :=
       match l1, l2 with
       | x :: r1, y :: r2 => f x y && go r1 r2
       | _, _ => true
       end) l1 l2 = all2_zip f l1 l2.
Proof. induction l1 as [|x r IH]; intros [|y r2]; simpl; try reflexivity. rewrite IH; reflexivity. Qed.

Theorem assignable_eqn : forall a b,
    assignable a b =
    if isinst a C_NamedTuple && isinst b C_NamedTuple then py_eq a b
    else if isinst a C_Tuple && isinst b C_Tuple then
      if negb (N.eqb (length_static a) (length_static b)) then false
      else all2_zip assignable (tuple_elems a) (tuple_elems b)
    else if isinst a C_Array && isinst b C_Array then
      match value_spec a, value_spec b with
      | Some ea, Some eb => if negb (assignable ea eb) then false else array_case a b
      | _, _ => false
      end
    else if isinst a C_Uint && isinst b C_Uint then N.eqb (uint_size a) (uint_size b)
    else isinst a (cls_of b) || String.eqb (py_str a) (py_str b).
Proof.
  intros a b.
  destruct a as [| | n | | | ea n | ea | [[ca nsa]|] tas | n | | ka | ka];
    destruct b as [| | m | | | eb m | eb | [[cb nsb]|] tbs | m | | kb | kb];
    try reflexivity;
    try (destruct ka; reflexivity); try (destruct kb; reflexivity);
    cbn [assignable isinst cls_of subclass subclass_fuel pyclass_eqb parent andb orb negb tuple_elems length_static];
    rewrite all2_zip_fix; reflexivity.
Qed.

(* ------------------------------------------------------------------------------------------ *)
(* 2. the fallback (isinstance / str equality) never relates specs of different kinds           *)
(* ------------------------------------------------------------------------------------------ *)
Inductive kind : Type := KTuple | KArray | KUint | KOther.

Definition kind_of (t : ty) : kind :=
  match t with
  | TTuple _ _ => KTuple
  | TAddress | TString | TStaticArray _ _ | TDynArray _ | TStaticBytes _ | TDynBytes => KArray
  | TByte | TUint _ => KUint
  | TBool | TTxn _ | TRef _ => KOther
  end.

Ltac kill_same_kind Hk :=
  try (destruct Hk as [Hk|Hk]; [exfalso; apply Hk; reflexivity | discriminate Hk]).

Lemma isinst_sound : forall a b,
    isinst a (cls_of b) = true -> kind_of a <> kind_of b \/ kind_of a = KOther -> canon a = canon b.
Proof.
  intros a b H Hk.
  destruct a as [| | n | | | ea n | ea | [[ca nsa]|] tas | n | | ka | ka];
    destruct b as [| | m | | | eb m | eb | [[cb nsb]|] tbs | m | | kb | kb];
    kill_same_kind Hk;
    try reflexivity;
    try (destruct ka); try (destruct kb);
    try reflexivity; try (vm_compute in H; discriminate H).
Qed.

Local Opaque N_to_dec.

Lemma str_eq_sound : forall a b,
    py_str a = py_str b -> kind_of a <> kind_of b \/ kind_of a = KOther -> canon a = canon b.
Proof.
  intros a b H Hk.
  assert (Hs : sck a = sck b) by (rewrite <- !sclass_py_str, H; reflexivity).
  destruct a as [| | n | | | ea n | ea | nma tas | n | | ka | ka];
    destruct b as [| | m | | | eb m | eb | nmb tbs | m | | kb | kb];
    try discriminate Hs;
    kill_same_kind Hk;
    try reflexivity;
    try (destruct ka); try (destruct kb);
    try reflexivity;
    cbn [py_str txn_kind_str ref_kind_str append] in H; discriminate H.
Qed.

Theorem fallback_sound : forall a b,
    fallback a b = true -> kind_of a <> kind_of b \/ kind_of a = KOther -> canon a = canon b.
Proof.
  intros a b H Hk. unfold fallback in H. apply orb_true_iff in H as [H|H].
  - apply isinst_sound; assumption.
  - apply String.eqb_eq in H. apply str_eq_sound; assumption.
Qed.

(* ------------------------------------------------------------------------------------------ *)
(* 3. leaves: bool, uint, transaction and reference specs                                      *)
(* ------------------------------------------------------------------------------------------ *)
Lemma assignable_flat_sound : forall a b,
    kind_of a = KUint \/ kind_of a = KOther -> assignable_flat a b = true -> canon a = canon b.
Proof.
  intros a b Ha H. unfold assignable_flat in H.
  destruct (isinst a C_Uint && isinst b C_Uint) eqn:E.
  - apply andb_true_iff in E as [E1 E2]. apply N.eqb_eq in H.
    destruct a; try (destruct Ha as [Ha|Ha]; discriminate Ha); try (vm_compute in E1; discriminate E1);
      try (destruct k; vm_compute in E1; discriminate E1);
      destruct b as [| | m | | | eb m | eb | [[cb nsb]|] tbs | m | | kb | kb];
      try (vm_compute in E2; discriminate E2); try (destruct kb; vm_compute in E2; discriminate E2);
      simpl in H; subst; reflexivity.
  - apply fallback_sound; [exact H|].
    destruct Ha as [Ha|Ha]; [|right; exact Ha].
    left. rewrite Ha. intro Hb.
    assert (E1 : isinst a C_Uint = true) by (destruct a; try discriminate Ha; reflexivity).
    assert (E2 : isinst b C_Uint = true)
      by (destruct b as [| | m | | | eb m | eb | nmb tbs | m | | kb | kb]; try discriminate Hb; reflexivity).
    rewrite E1, E2 in E. discriminate E.
Qed.

(* ------------------------------------------------------------------------------------------ *)
(* 4. arrays: the inner match                                                                  *)
(* ------------------------------------------------------------------------------------------ *)
Lemma array_case_sound : forall a b ea eb,
    value_spec a = Some ea -> value_spec b = Some eb -> canon ea = canon eb ->
    array_case a b = true -> canon a = canon b.
Proof.
  intros a b ea eb Ha Hb Hc H.
  destruct a as [| | n | | | xa n | xa | nma tas | n | | ka | ka]; simpl in Ha; try discriminate Ha;
    destruct b as [| | m | | | xb m | xb | nmb tbs | m | | kb | kb]; simpl in Hb; try discriminate Hb;
    injection Ha as <-; injection Hb as <-;
    unfold array_case, isinst in H;
    cbn [cls_of subclass subclass_fuel pyclass_eqb parent andb orb length_static] in H;
    try discriminate H;
    simpl in Hc; simpl;
    try (apply N.eqb_eq in H; subst);
    try rewrite Hc; try rewrite <- Hc; try reflexivity.
Qed.

Lemma value_spec_kind : forall t, value_spec t = None -> kind_of t <> KArray.
Proof. destruct t; simpl; intros H; try discriminate H; discriminate. Qed.

(* ------------------------------------------------------------------------------------------ *)
(* 5. main theorem                                                                             *)
(* ------------------------------------------------------------------------------------------ *)
Theorem assignable_same_layout : forall a b, assignable a b = true -> canon a = canon b.
Proof.
  induction a as [| | n | | | ea n IH | ea IH | nm tas IH | n | | k | k] using ty_ind'; intros b H.
  - apply assignable_flat_sound; [right; reflexivity | exact H].
  - apply assignable_flat_sound; [left; reflexivity | exact H].
  - apply assignable_flat_sound; [left; reflexivity | exact H].
  - (* address *)
    cbn [assignable] in H. destruct (value_spec b) as [eb|] eqn:Eb.
    + destruct (assignable_flat TByte eb) eqn:Ee; cbn [negb] in H; [|discriminate H].
      apply (assignable_flat_sound TByte eb (or_introl eq_refl)) in Ee.
      eapply array_case_sound; [reflexivity | exact Eb | exact Ee | exact H].
    + apply fallback_sound; [exact H|]. left. intro Hk. apply (value_spec_kind b Eb). rewrite <- Hk. reflexivity.
  - (* string *)
    cbn [assignable] in H. destruct (value_spec b) as [eb|] eqn:Eb.
    + destruct (assignable_flat TByte eb) eqn:Ee; cbn [negb] in H; [|discriminate H].
      apply (assignable_flat_sound TByte eb (or_introl eq_refl)) in Ee.
      eapply array_case_sound; [reflexivity | exact Eb | exact Ee | exact H].
    + apply fallback_sound; [exact H|]. left. intro Hk. apply (value_spec_kind b Eb). rewrite <- Hk. reflexivity.
  - (* T[n] *)
    cbn [assignable] in H. destruct (value_spec b) as [eb|] eqn:Eb.
    + destruct (assignable ea eb) eqn:Ee; cbn [negb] in H; [|discriminate H].
      apply IH in Ee.
      eapply array_case_sound; [reflexivity | exact Eb | exact Ee | exact H].
    + apply fallback_sound; [exact H|]. left. intro Hk. apply (value_spec_kind b Eb). rewrite <- Hk. reflexivity.
  - (* T[] *)
    cbn [assignable] in H. destruct (value_spec b) as [eb|] eqn:Eb.
    + destruct (assignable ea eb) eqn:Ee; cbn [negb] in H; [|discriminate H].
      apply IH in Ee.
      eapply array_case_sound; [reflexivity | exact Eb | exact Ee | exact H].
    + apply fallback_sound; [exact H|]. left. intro Hk. apply (value_spec_kind b Eb). rewrite <- Hk. reflexivity.
  - (* tuples *)
    destruct b as [| | m | | | eb m | eb | nmb tbs | m | | kb | kb];
      try (apply fallback_sound; [exact H | left; discriminate]).
    cbn [assignable] in H.
    assert (Hlist : (if negb (N.eqb (length_static (TTuple nm tas)) (length_static (TTuple nmb tbs))) then false
                     else all2_zip assignable tas tbs) = true -> canon (TTuple nm tas) = canon (TTuple nmb tbs)).
    { clear H. intro H. cbn [length_static] in H.
      destruct (N.eqb (N.of_nat (List.length tas)) (N.of_nat (List.length tbs))) eqn:El; cbn [negb] in H; [|discriminate H].
      apply N.eqb_eq in El. apply Nat2N.inj in El.
      simpl. f_equal. revert tbs El H.
      induction IH as [|x r Hx _ IHr]; intros [|y r2] El H; simpl in El; try discriminate El; [reflexivity|].
      simpl in H. apply andb_true_iff in H as [Ha Hb]. simpl.
      rewrite (Hx _ Ha), (IHr r2); [reflexivity | congruence | exact Hb]. }
    rewrite all2_zip_fix in H.
    destruct nm as [ia|]; destruct nmb as [ib|]; try (apply Hlist; exact H).
    apply py_eq_sound. exact H.
  - (* StaticBytes n *)
    cbn [assignable] in H. destruct (value_spec b) as [eb|] eqn:Eb.
    + destruct (assignable_flat TByte eb) eqn:Ee; cbn [negb] in H; [|discriminate H].
      apply (assignable_flat_sound TByte eb (or_introl eq_refl)) in Ee.
      eapply array_case_sound; [reflexivity | exact Eb | exact Ee | exact H].
    + apply fallback_sound; [exact H|]. left. intro Hk. apply (value_spec_kind b Eb). rewrite <- Hk. reflexivity.
  - (* DynamicBytes *)
    cbn [assignable] in H. destruct (value_spec b) as [eb|] eqn:Eb.
    + destruct (assignable_flat TByte eb) eqn:Ee; cbn [negb] in H; [|discriminate H].
      apply (assignable_flat_sound TByte eb (or_introl eq_refl)) in Ee.
      eapply array_case_sound; [reflexivity | exact Eb | exact Ee | exact H].
    + apply fallback_sound; [exact H|]. left. intro Hk. apply (value_spec_kind b Eb). rewrite <- Hk. reflexivity.
  - apply assignable_flat_sound; [right; reflexivity | exact H].
  - apply assignable_flat_sound; [right; reflexivity | exact H].
Qed.

(* ------------------------------------------------------------------------------------------ *)
(* 6. consequences                                                                             *)
(* ------------------------------------------------------------------------------------------ *)
(* the bytes of an admitted argument are an encoding of the expected type, of the same value *)
Theorem assignable_same_encoding : forall a b, assignable a b = true ->
    is_dynamic a = is_dynamic b /\ static_len a = static_len b /\
    forall v, val_has_type a v = val_has_type b v /\ arc4_encode a v = arc4_encode b v.
Proof.
  intros a b H. apply assignable_same_layout in H.
  destruct (same_layout_same_descr a b H) as [Hd Hl].
  split; [exact Hd|]. split; [exact Hl|]. intro v. split.
  - apply same_layout_same_values; exact H.
  - apply same_layout_same_encoding; exact H.
Qed.

Theorem same_layout_indistinguishable : forall a b : ty, canon a = canon b ->
    is_dynamic a = is_dynamic b /\ static_len a = static_len b /\
    forall v : val, val_has_type a v = val_has_type b v /\ arc4_encode a v = arc4_encode b v.
Proof.
  intros a b H. destruct (same_layout_same_descr a b H) as [Hd Hl].
  split; [exact Hd|]. split; [exact Hl|]. intro v.
  split; [apply same_layout_same_values | apply same_layout_same_encoding]; exact H.
Qed.

Theorem admitted_bytes_valid_for_target : forall (a b : ty) (v : val) (bs : bytes),
    assignable a b = true -> arc4_encode a v = Some bs ->
    arc4_encode b v = Some bs /\ val_has_type b v = true.
Proof.
  intros a b v bs H He. destruct (assignable_same_encoding a b H) as [_ [_ Hv]].
  destruct (Hv v) as [Ht Henc]. split.
  - rewrite <- Henc. exact He.
  - rewrite <- Ht. exact (encode_typed a v bs He).
Qed.

(* contrapositive: a call / assignment between differently laid out types is rejected *)
Theorem different_layout_rejected : forall a b, canon a <> canon b -> call_admits a b = false.
Proof.
  intros a b Hne. unfold call_admits. destruct (assignable a b) eqn:E; [|reflexivity].
  exfalso. apply Hne. apply assignable_same_layout. exact E.
Qed.

(* every spec is assignable to itself *)
Theorem assignable_refl : forall a, assignable a a = true.
Proof.
  assert (Hflat_byte : assignable_flat TByte TByte = true) by reflexivity.
  induction a as [| | n | | | ea n IH | ea IH | nm tas IH | n | | k | k] using ty_ind'.
  - reflexivity.
  - reflexivity.
  - cbn [assignable]. unfold assignable_flat, isinst. cbn [cls_of subclass subclass_fuel pyclass_eqb parent andb orb uint_size].
    apply N.eqb_refl.
  - reflexivity.
  - reflexivity.
  - cbn [assignable value_spec]. rewrite IH. cbn [negb]. unfold array_case, isinst.
    cbn [cls_of subclass subclass_fuel pyclass_eqb parent andb orb length_static]. apply N.eqb_refl.
  - cbn [assignable value_spec]. rewrite IH. reflexivity.
  - cbn [assignable]. destruct nm as [i|].
    + apply py_eq_refl.
    + rewrite N.eqb_refl. cbn [negb].
      induction IH as [|x r Hx _ IHr]; [reflexivity|]. rewrite Hx. exact IHr.
  - cbn [assignable value_spec]. rewrite Hflat_byte. cbn [negb]. unfold array_case, isinst.
    cbn [cls_of subclass subclass_fuel pyclass_eqb parent andb orb length_static]. apply N.eqb_refl.
  - reflexivity.
  - destruct k; reflexivity.
  - destruct k; reflexivity.
Qed.

(* ---- transaction and reference specs ---- *)
Lemma canon_txn_inv : forall t, canon t = LTxn -> exists k, t = TTxn k.
Proof. destruct t; simpl; intro H; try discriminate H. eexists; reflexivity. Qed.

Lemma canon_ref_inv : forall t k, canon t = LRef k -> t = TRef k.
Proof. destruct t; simpl; intros k' H; try discriminate H. congruence. Qed.

(* a transaction spec is accepted exactly where the same spec or the generic `txn` is expected *)
Theorem assignable_txn_iff : forall k1 b,
    assignable (TTxn k1) b = true <-> exists k2, b = TTxn k2 /\ (k2 = k1 \/ k2 = TxAny).
Proof.
  intros k1 b; split.
  - intro H. destruct (canon_txn_inv b (eq_sym (assignable_same_layout _ _ H))) as [k2 ->].
    exists k2; split; [reflexivity|].
    destruct k1, k2; vm_compute in H; try discriminate H; auto.
  - intros [k2 [-> [-> | ->]]]; [apply assignable_refl | destruct k1; reflexivity].
Qed.

Theorem assignable_to_txn : forall a k, assignable a (TTxn k) = true -> exists k1, a = TTxn k1.
Proof. intros a k H. apply canon_txn_inv. apply (assignable_same_layout _ _ H). Qed.

(* a reference spec is assignable to and from the identical spec only *)
Theorem assignable_ref_iff : forall k b, assignable (TRef k) b = true <-> b = TRef k.
Proof.
  intros k b; split.
  - intro H. apply canon_ref_inv. symmetry. apply (assignable_same_layout _ _ H).
  - intros ->. apply assignable_refl.
Qed.

Theorem assignable_to_ref : forall a k, assignable a (TRef k) = true -> a = TRef k.
Proof. intros a k H. apply canon_ref_inv. apply (assignable_same_layout _ _ H). Qed.

Theorem reference_specs : forall (k : ref_kind) (b : ty),
    (assignable (TRef k) b = true <-> b = TRef k) /\ (assignable b (TRef k) = true -> b = TRef k).
Proof. intros k b. split; [apply assignable_ref_iff | apply assignable_to_ref]. Qed.

(* the relation is directional (not symmetric): the documented asymmetries *)
Lemma assignable_not_symmetric :
  assignable TAddress (TStaticBytes 32) = true /\ assignable (TStaticBytes 32) TAddress = false /\
  assignable TString TDynBytes = true /\ assignable TDynBytes TString = false /\
  assignable (TTxn TxPay) (TTxn TxAny) = true /\ assignable (TTxn TxAny) (TTxn TxPay) = false.
Proof. vm_compute. repeat split; reflexivity. Qed.

(* ------------------------------------------------------------------------------------------ *)
(* 7. the direct-assignment gates (dst.set(value))                                             *)
(* ------------------------------------------------------------------------------------------ *)
Lemma py_eq_sound_sym : forall a b, py_eq a b = true -> canon b = canon a.
Proof. intros a b H. symmetry. apply py_eq_sound. exact H. Qed.

Theorem set_admits_same_layout : forall src dst,
    set_admits src dst = true -> canon src = canon (set_target dst).
Proof.
  intros src dst H.
  destruct dst as [| | n | | | e n | e | nm ts | n | | k | k]; cbn [set_admits set_target] in *;
    try discriminate H.
  - apply py_eq_sound; exact H.
  - apply andb_true_iff in H as [Hi Hs]. apply N.eqb_eq in Hs.
    destruct src as [| | m | | | e m | e | [i|] ts | m | | k | k]; try (vm_compute in Hi; discriminate Hi);
      try (destruct k; vm_compute in Hi; discriminate Hi); cbn [uint_size] in Hs; subst; reflexivity.
  - apply andb_true_iff in H as [Hi Hs]. apply N.eqb_eq in Hs.
    destruct src as [| | m | | | e m | e | [i|] ts | m | | k | k]; try (vm_compute in Hi; discriminate Hi);
      try (destruct k; vm_compute in Hi; discriminate Hi); cbn [uint_size] in Hs; subst; reflexivity.
  - apply orb_true_iff in H as [H|H]; apply py_eq_sound in H; exact H.
  - apply orb_true_iff in H as [H|H]; apply py_eq_sound in H; exact H.
  - apply py_eq_sound_sym; exact H.
  - apply py_eq_sound_sym; exact H.
  - destruct ts as [|x [|y r]]; try discriminate H.
    apply andb_true_iff in H as [H _]. apply py_eq_sound_sym; exact H.
  - apply py_eq_sound_sym; exact H.
  - apply py_eq_sound_sym; exact H.
Qed.

Theorem elem_admits_same_layout : forall src slot, elem_admits src slot = true -> canon src = canon slot.
Proof. intros src slot H. apply andb_true_iff in H as [H _]. apply py_eq_sound_sym. exact H. Qed.

Theorem computed_admits_same_layout : forall src dst,
    computed_admits src dst = true -> canon src = canon dst.
Proof.
  intros src dst H.
  destruct dst; cbn [computed_admits] in H; try discriminate H;
    try (apply py_eq_sound_sym; exact H).
  apply orb_true_iff in H as [H|H]; apply py_eq_sound in H; exact H.
Qed.

(* the three gates together, with the encoding consequence *)
Theorem set_gates_same_encoding : forall src dst,
    (set_admits src dst = true -> forall v, arc4_encode src v = arc4_encode (set_target dst) v) /\
    (elem_admits src dst = true -> forall v, arc4_encode src v = arc4_encode dst v) /\
    (computed_admits src dst = true -> forall v, arc4_encode src v = arc4_encode dst v).
Proof.
  intros src dst. repeat split; intros H v; apply same_layout_same_encoding.
  - apply set_admits_same_layout; exact H.
  - apply elem_admits_same_layout; exact H.
  - apply computed_admits_same_layout; exact H.
Qed.

Theorem store_into_admits_same_layout : forall src dst,
    store_into_admits src dst = true ->
    canon src = canon dst /\ forall v, arc4_encode src v = arc4_encode dst v.
Proof.
  intros src dst H. assert (Hc : canon src = canon dst) by (apply py_eq_sound_sym; exact H).
  split; [exact Hc|]. intro v. apply same_layout_same_encoding. exact Hc.
Qed.

(* ---- type_spec_from_algosdk reads a signature type as the spec of the SAME type, or refuses ---- *)
Theorem from_algosdk_same_type : forall t p, from_algosdk t = Some p -> p = t.
Proof. intros t p H. unfold from_algosdk in H. destruct (sdk_supported t); congruence. Qed.

Theorem method_arg_admits_same_layout : forall arg param,
    method_arg_admits arg param = true ->
    canon arg = canon param /\ forall v, arc4_encode arg v = arc4_encode param v.
Proof.
  intros arg param H. unfold method_arg_admits in H.
  destruct (from_algosdk param) as [p|] eqn:E; [|discriminate H].
  apply from_algosdk_same_type in E. subst p.
  assert (Hc : canon arg = canon param) by (apply assignable_same_layout; exact H).
  split; [exact Hc|]. intro v. apply same_layout_same_encoding. exact Hc.
Qed.
