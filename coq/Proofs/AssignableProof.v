(* Proofs/AssignableProof.v — C19: whatever type_spec_is_assignable_to admits has the same ARC-4 layout.
   All statements are about the model ABI/Assignable.v and hold for arbitrarily nested specs. *)
From Coq Require Import List NArith Ascii String Bool Lia.
From PV Require Import Base.Bytes Base.Sexp ABI.Types ABI.Spec ABI.Layout ABI.Descr ABI.Assignable
  Proofs.ABILayoutProof Proofs.ABIDescrProof.
Import ListNotations.

(* ------------------------------------------------------------------------------------------ *)
(* 1. the fixpoint is the literal transcription of the Python text                             *)
(* ------------------------------------------------------------------------------------------ *)
Definition tuple_elems (t : ty) : list ty := match t with TTuple _ ts => ts | _ => [] end.

Lemma all2_zip_fix : forall (f : ty -> ty -> bool) l1 l2,
    (fix go (l1 l2 : list ty) : bool :=
       match l1, l2 with
       | x :: r1, y :: r2 => f x y && go r1 r2
       | _, _ => true
       end) l1 l2 = all2_zip f l1 l2.
Proof. induction l1 as [|x r IH]; intros [|y r2]; simpl; try reflexivity. rewrite IH; reflexivity. Qed.

Theorem assignable_eqn : forall a b,
    assignable a b =
    if isinst a C_NamedTuple && isinst b C_NamedTuple then py_eq a b
    else if isinst a C_Tuple && isinst b C_Tuple then
      if negb (N.eqb (length_static a) (length_static b)) then false
      else all2_zip assignable (tuple_elems a) (tuple_elems b)
    else if isinst a C_Array && isinst b C_Array then
      match value_spec a, value_spec b with
      | Some ea, Some eb => if negb (assignable ea eb) then false else array_case a b
      | _, _ => false
      end
    else if isinst a C_Uint && isinst b C_Uint then N.eqb (uint_size a) (uint_size b)
    else isinst a (cls_of b) || String.eqb (py_str a) (py_str b).
Proof.
  intros a b.
  destruct a as [| | n | | | ea n | ea | [[ca nsa]|] tas | n | | ka | ka];
    destruct b as [| | m | | | eb m | eb | [[cb nsb]|] tbs | m | | kb | kb];
    try reflexivity;
    try (destruct ka; reflexivity); try (destruct kb; reflexivity);
    cbn [assignable isinst cls_of subclass subclass_fuel pyclass_eqb parent andb orb negb tuple_elems length_static];
    rewrite all2_zip_fix; reflexivity.
Qed.

(* ------------------------------------------------------------------------------------------ *)
(* 2. the fallback (isinstance / str equality) never relates specs of different kinds           *)
(* ------------------------------------------------------------------------------------------ *)
Inductive kind : Type := KTuple | KArray | KUint | KOther.

Definition kind_of (t : ty) : kind :=
  match t with
  | TTuple _ _ => KTuple
  | TAddress | TString | TStaticArray _ _ | TDynArray _ | TStaticBytes _ | TDynBytes => KArray
  | TByte | TUint _ => KUint
  | TBool | TTxn _ | TRef _ => KOther
  end.

Ltac kill_same_kind Hk :=
  try (destruct Hk as [Hk|Hk]; [exfalso; apply Hk; reflexivity | discriminate Hk]).

Lemma isinst_sound : forall a b,
    isinst a (cls_of b) = true -> kind_of a <> kind_of b \/ kind_of a = KOther -> canon a = canon b.
Proof.
  intros a b H Hk.
  destruct a as [| | n | | | ea n | ea | [[ca nsa]|] tas | n | | ka | ka];
    destruct b as [| | m | | | eb m | eb | [[cb nsb]|] tbs | m | | kb | kb];
    kill_same_kind Hk;
    try reflexivity;
    try (destruct ka); try (destruct kb);
    try reflexivity; try (vm_compute in H; discriminate H).
Qed.

Local Opaque N_to_dec.

Lemma str_eq_sound : forall a b,
    py_str a = py_str b -> kind_of a <> kind_of b \/ kind_of a = KOther -> canon a = canon b.
Proof.
  intros a b H Hk.
  assert (Hs : sck a = sck b) by (rewrite <- !sclass_py_str, H; reflexivity).
  destruct a as [| | n | | | ea n | ea | nma tas | n | | ka | ka];
    destruct b as [| | m | | | eb m | eb | nmb tbs | m | | kb | kb];
    try discriminate Hs;
    kill_same_kind Hk;
    try reflexivity;
    try (destruct ka); try (destruct kb);
    try reflexivity;
    cbn [py_str txn_kind_str ref_kind_str append] in H; discriminate H.
Qed.

Theorem fallback_sound : forall a b,
    fallback a b = true -> kind_of a <> kind_of b \/ kind_of a = KOther -> canon a = canon b.
Proof.
  intros a b H Hk. unfold fallback in H. apply orb_true_iff in H as [H|H].
  - apply isinst_sound; assumption.
  - apply String.eqb_eq in H. apply str_eq_sound; assumption.
Qed.

(* ------------------------------------------------------------------------------------------ *)
(* 3. leaves: bool, uint, transaction and reference specs                                      *)
(* ------------------------------------------------------------------------------------------ *)
Lemma assignable_flat_sound : forall a b,
    kind_of a = KUint \/ kind_of a = KOther -> assignable_flat a b = true -> canon a = canon b.
Proof.
  intros a b Ha H. unfold assignable_flat in H.
  destruct (isinst a C_Uint && isinst b C_Uint) eqn:E.
  - apply andb_true_iff in E as [E1 E2]. apply N.eqb_eq in H.
    destruct a; try (destruct Ha as [Ha|Ha]; discriminate Ha); try (vm_compute in E1; discriminate E1);
      try (destruct k; vm_compute in E1; discriminate E1);
      destruct b as [| | m | | | eb m | eb | [[cb nsb]|] tbs | m | | kb | kb];
      try (vm_compute in E2; discriminate E2); try (destruct kb; vm_compute in E2; discriminate E2);
      simpl in H; subst; reflexivity.
  - apply fallback_sound; [exact H|].
    destruct Ha as [Ha|Ha]; [|right; exact Ha].
    left. rewrite Ha. intro Hb.
    assert (E1 : isinst a C_Uint = true) by (destruct a; try discriminate Ha; reflexivity).
    assert (E2 : isinst b C_Uint = true)
      by (destruct b as [| | m | | | eb m | eb | nmb tbs | m | | kb | kb]; try discriminate Hb; reflexivity).
    rewrite E1, E2 in E. discriminate E.
Qed.

(* ------------------------------------------------------------------------------------------ *)
(* 4. arrays: the inner match                                                                  *)
(* ------------------------------------------------------------------------------------------ *)
Lemma array_case_sound : forall a b ea eb,
    value_spec a = Some ea -> value_spec b = Some eb -> canon ea = canon eb ->
    array_case a b = true -> canon a = canon b.
Proof.
  intros a b ea eb Ha Hb Hc H.
  destruct a as [| | n | | | xa n | xa | nma tas | n | | ka | ka]; simpl in Ha; try discriminate Ha;
    destruct b as [| | m | | | xb m | xb | nmb tbs | m | | kb | kb]; simpl in Hb; try discriminate Hb;
    injection Ha as <-; injection Hb as <-;
    unfold array_case, isinst in H;
    cbn [cls_of subclass subclass_fuel pyclass_eqb parent andb orb length_static] in H;
    try discriminate H;
    simpl in Hc; simpl;
    try (apply N.eqb_eq in H; subst);
    try rewrite Hc; try rewrite <- Hc; try reflexivity.
Qed.

Lemma value_spec_kind : forall t, value_spec t = None -> kind_of t <> KArray.
Proof. destruct t; simpl; intros H; try discriminate H; discriminate. Qed.

(* ------------------------------------------------------------------------------------------ *)
(* 5. main theorem                                                                             *)
(* ------------------------------------------------------------------------------------------ *)
Lemma array_branch_sound : forall a b (r : bool),
    (kind_of a = KArray) ->
    (forall eb, value_spec b = Some eb -> r = true ->
                exists ea, value_spec a = Some ea /\ canon ea = canon eb) ->
    match value_spec b with
    | Some eb => if negb r then false else array_case a b
    | None => fallback a b
    end = true -> True.
Proof. trivial. Qed.

Theorem assignable_same_layout : forall a b, assignable a b = true -> canon a = canon b.
Proof.
  induction a as [| | n | | | ea n IH | ea IH | nm tas IH | n | | k | k] using ty_ind'; intros b H.
  - apply assignable_flat_sound; [right; reflexivity | exact H].
  - apply assignable_flat_sound; [left; reflexivity | exact H].
  - apply assignable_flat_sound; [left; reflexivity | exact H].
  - (* address *)
    cbn [assignable] in H. destruct (value_spec b) as [eb|] eqn:Eb.
    + destruct (assignable_flat TByte eb) eqn:Ee; cbn [negb] in H; [|discriminate H].
      apply (assignable_flat_sound TByte eb (or_introl eq_refl)) in Ee.
      eapply array_case_sound; [reflexivity | exact Eb | exact Ee | exact H].
    + apply fallback_sound; [exact H|]. left. intro Hk. apply (value_spec_kind b Eb). rewrite <- Hk. reflexivity.
  - (* string *)
    cbn [assignable] in H. destruct (value_spec b) as [eb|] eqn:Eb.
    + destruct (assignable_flat TByte eb) eqn:Ee; cbn [negb] in H; [|discriminate H].
      apply (assignable_flat_sound TByte eb (or_introl eq_refl)) in Ee.
      eapply array_case_sound; [reflexivity | exact Eb | exact Ee | exact H].
    + apply fallback_sound; [exact H|]. left. intro Hk. apply (value_spec_kind b Eb). rewrite <- Hk. reflexivity.
  - (* T[n] *)
    cbn [assignable] in H. destruct (value_spec b) as [eb|] eqn:Eb.
    + destruct (assignable ea eb) eqn:Ee; cbn [negb] in H; [|discriminate H].
      apply IH in Ee.
      eapply array_case_sound; [reflexivity | exact Eb | exact Ee | exact H].
    + apply fallback_sound; [exact H|]. left. intro Hk. apply (value_spec_kind b Eb). rewrite <- Hk. reflexivity.
  - (* T[] *)
    cbn [assignable] in H. destruct (value_spec b) as [eb|] eqn:Eb.
    + destruct (assignable ea eb) eqn:Ee; cbn [negb] in H; [|discriminate H].
      apply IH in Ee.
      eapply array_case_sound; [reflexivity | exact Eb | exact Ee | exact H].
    + apply fallback_sound; [exact H|]. left. intro Hk. apply (value_spec_kind b Eb). rewrite <- Hk. reflexivity.
  - (* tuples *)
    destruct b as [| | m | | | eb m | eb | nmb tbs | m | | kb | kb];
      try (apply fallback_sound; [exact H | left; discriminate]).
    cbn [assignable] in H.
    assert (Hlist : (if negb (N.eqb (length_static (TTuple nm tas)) (length_static (TTuple nmb tbs))) then false
                     else all2_zip assignable tas tbs) = true -> canon (TTuple nm tas) = canon (TTuple nmb tbs)).
    { clear H. intro H. cbn [length_static] in H.
      destruct (N.eqb (N.of_nat (List.length tas)) (N.of_nat (List.length tbs))) eqn:El; cbn [negb] in H; [|discriminate H].
      apply N.eqb_eq in El. apply Nat2N.inj in El.
      simpl. f_equal. revert tbs El H.
      induction IH as [|x r Hx _ IHr]; intros [|y r2] El H; simpl in El; try discriminate El; [reflexivity|].
      simpl in H. apply andb_true_iff in H as [Ha Hb]. simpl.
      rewrite (Hx _ Ha), (IHr r2); [reflexivity | congruence | exact Hb]. }
    rewrite all2_zip_fix in H.
    destruct nm as [ia|]; destruct nmb as [ib|]; try (apply Hlist; exact H).
    apply py_eq_sound. exact H.
  - (* StaticBytes n *)
    cbn [assignable] in H. destruct (value_spec b) as [eb|] eqn:Eb.
    + destruct (assignable_flat TByte eb) eqn:Ee; cbn [negb] in H; [|discriminate H].
      apply (assignable_flat_sound TByte eb (or_introl eq_refl)) in Ee.
      eapply array_case_sound; [reflexivity | exact Eb | exact Ee | exact H].
    + apply fallback_sound; [exact H|]. left. intro Hk. apply (value_spec_kind b Eb). rewrite <- Hk. reflexivity.
  - (* DynamicBytes *)
    cbn [assignable] in H. destruct (value_spec b) as [eb|] eqn:Eb.
    + destruct (assignable_flat TByte eb) eqn:Ee; cbn [negb] in H; [|discriminate H].
      apply (assignable_flat_sound TByte eb (or_introl eq_refl)) in Ee.
      eapply array_case_sound; [reflexivity | exact Eb | exact Ee | exact H].
    + apply fallback_sound; [exact H|]. left. intro Hk. apply (value_spec_kind b Eb). rewrite <- Hk. reflexivity.
  - apply assignable_flat_sound; [right; reflexivity | exact H].
  - apply assignable_flat_sound; [right; reflexivity | exact H].
Qed.
