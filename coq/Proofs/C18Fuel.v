(* Proofs/C18Fuel.v — the source evaluator is monotone in its fuel: once [denote] returns an outcome
   other than "out of fuel", every larger fuel returns the same outcome. *)
From Coq Require Import List Arith NArith String Bool Lia.
From PV Require Import Base.Bytes AVM.Syntax AVM.Machine Src.Expr Src.Denote Comp.WideRatio.
Import ListNotations.

Definition den_t := expr -> list value -> mstate -> dout.

(* d2 agrees with d1 wherever d1 has an answer *)
Definition dle (d1 d2 : den_t) : Prop :=
  forall e stk st, d1 e stk st <> DFuel -> d2 e stk st = d1 e stk st.

Lemma bind_fuel r k : r = DFuel -> bind r k = DFuel.
Proof. intros ->. reflexivity. Qed.

Lemma bind_mono r1 r2 k1 k2 :
  bind r1 k1 <> DFuel ->
  (r1 <> DFuel -> r2 = r1) ->
  (forall s st, k1 s st <> DFuel -> k2 s st = k1 s st) ->
  bind r2 k2 = bind r1 k1.
Proof.
  intros H Hr Hk.
  assert (N : r1 <> DFuel) by (intros E; apply H; rewrite E; reflexivity).
  rewrite (Hr N). destruct r1; cbn [bind] in *; try reflexivity. apply Hk. exact H.
Qed.

Lemma branch_mono r1 r2 y1 y2 n1 n2 :
  branch r1 y1 n1 <> DFuel ->
  (r1 <> DFuel -> r2 = r1) ->
  (forall s st, y1 s st <> DFuel -> y2 s st = y1 s st) ->
  (forall s st, n1 s st <> DFuel -> n2 s st = n1 s st) ->
  branch r2 y2 n2 = branch r1 y1 n1.
Proof.
  intros H Hr Hy Hn.
  assert (N : r1 <> DFuel) by (intros E; apply H; rewrite E; reflexivity).
  rewrite (Hr N). destruct r1 as [stk st| | | | | | | |]; cbn [branch] in *; try reflexivity.
  destruct stk as [|v s1]; [reflexivity|].
  destruct (truthy v) as [[|]|]; [apply Hy|apply Hn|reflexivity]; exact H.
Qed.

Lemma after_body_mono r1 r2 a1 a2 :
  after_body r1 a1 <> DFuel ->
  (r1 <> DFuel -> r2 = r1) ->
  (forall s st, a1 s st <> DFuel -> a2 s st = a1 s st) ->
  after_body r2 a2 = after_body r1 a1.
Proof.
  intros H Hr Ha.
  assert (N : r1 <> DFuel) by (intros E; apply H; rewrite E; reflexivity).
  rewrite (Hr N). destruct r1; cbn [after_body] in *; try reflexivity; apply Ha; exact H.
Qed.

Lemma hdr_mono r1 r2 a1 a2 :
  hdr r1 a1 <> DFuel ->
  (r1 <> DFuel -> r2 = r1) ->
  (forall s st, a1 s st <> DFuel -> a2 s st = a1 s st) ->
  hdr r2 a2 = hdr r1 a1.
Proof.
  intros H Hr Ha.
  assert (N : r1 <> DFuel) by (intros E; apply H; rewrite E; reflexivity).
  rewrite (Hr N). destruct r1; cbn [hdr] in *; try reflexivity; apply Ha; exact H.
Qed.

Section Helpers.
  Variable env : denv.
  Variables d1 d2 : den_t.
  Hypothesis D : dle d1 d2.

  Lemma den_list_mono l : forall stk st,
    den_list d1 l stk st <> DFuel -> den_list d2 l stk st = den_list d1 l stk st.
  Proof.
    induction l as [|x t IH]; intros stk st H; cbn [den_list] in *; [reflexivity|].
    apply bind_mono; [exact H|apply D|intros s st'; apply IH].
  Qed.

  Lemma den_nary_rest_mono o l : forall stk st,
    den_nary_rest env d1 o l stk st <> DFuel -> den_nary_rest env d2 o l stk st = den_nary_rest env d1 o l stk st.
  Proof.
    induction l as [|x t IH]; intros stk st H; cbn [den_nary_rest] in *; [reflexivity|].
    apply bind_mono; [exact H|apply D|]. intros s2 st2 H2.
    apply bind_mono; [exact H2|reflexivity|intros s3 st3; apply IH].
  Qed.

  Lemma den_cond_mono l : forall stk st,
    den_cond d1 l stk st <> DFuel -> den_cond d2 l stk st = den_cond d1 l stk st.
  Proof.
    induction l as [|[c v] t IH]; intros stk st H; cbn [den_cond] in *; [reflexivity|].
    apply branch_mono; [exact H|apply D|intros s st'; apply D|intros s st'; apply IH].
  Qed.

  Lemma den_asserts_mono l : forall stk st,
    den_asserts d1 l stk st <> DFuel -> den_asserts d2 l stk st = den_asserts d1 l stk st.
  Proof.
    induction l as [|c t IH]; intros stk st H; cbn [den_asserts] in *; [reflexivity|].
    apply branch_mono; [exact H|apply D|intros s st'; apply IH|reflexivity].
  Qed.

  Lemma den_wide_rest_mono l : forall stk st,
    den_wide_rest env d1 l stk st <> DFuel -> den_wide_rest env d2 l stk st = den_wide_rest env d1 l stk st.
  Proof.
    induction l as [|x t IH]; intros stk st H; cbn [den_wide_rest] in *; [reflexivity|].
    apply bind_mono; [exact H|apply D|]. intros s2 st2 H2.
    apply bind_mono; [exact H2|reflexivity|intros s3 st3; apply IH].
  Qed.

  Lemma den_factors_mono l : forall stk st,
    den_factors env d1 l stk st <> DFuel -> den_factors env d2 l stk st = den_factors env d1 l stk st.
  Proof.
    intros stk st H. destruct l as [|f0 [|f1 rest]]; cbn [den_factors] in *; [reflexivity| |].
    - apply bind_mono; [exact H|reflexivity|intros s st'; apply D].
    - apply bind_mono; [exact H|apply D|]. intros s1 st1 H1.
      apply bind_mono; [exact H1|apply D|]. intros s2 st2 H2.
      apply bind_mono; [exact H2|reflexivity|intros s3 st3; apply den_wide_rest_mono].
  Qed.

  Lemma den_while_mono c body : forall n1 n2 stk st, n1 <= n2 ->
    den_while d1 n1 c body stk st <> DFuel -> den_while d2 n2 c body stk st = den_while d1 n1 c body stk st.
  Proof.
    induction n1 as [|k IH]; intros n2 stk st L H; cbn [den_while] in H; [congruence|].
    destruct n2 as [|k2]; [lia|]. cbn [den_while].
    assert (N : d1 c stk st <> DFuel).
    { intros E. rewrite E in H. apply H. reflexivity. }
    rewrite (D _ _ _ N).
    destruct (d1 c stk st) eqn:E; try reflexivity.
    apply branch_mono; [exact H|reflexivity| |reflexivity].
    intros s1 st1 H1. apply after_body_mono; [exact H1|apply D|].
    intros s2 st2. apply IH. lia.
  Qed.

  Lemma den_for_mono c stp body : forall n1 n2 stk st, n1 <= n2 ->
    den_for d1 n1 c stp body stk st <> DFuel -> den_for d2 n2 c stp body stk st = den_for d1 n1 c stp body stk st.
  Proof.
    induction n1 as [|k IH]; intros n2 stk st L H; cbn [den_for] in H; [congruence|].
    destruct n2 as [|k2]; [lia|]. cbn [den_for].
    assert (N : d1 c stk st <> DFuel).
    { intros E. rewrite E in H. apply H. reflexivity. }
    rewrite (D _ _ _ N).
    destruct (d1 c stk st) eqn:E; try reflexivity.
    apply branch_mono; [exact H|reflexivity| |reflexivity].
    intros s1 st1 H1. apply after_body_mono; [exact H1|apply D|].
    intros s2 st2 H2. apply hdr_mono; [exact H2|apply D|].
    intros s3 st3. apply IH. lia.
  Qed.
End Helpers.

Section Mono.
  Variable env : denv.

  Lemma denote_mono_S : forall f, dle (denote env f) (denote env (S f)).
  Proof.
    induction f as [|f IH]; intros e stk st H; [cbn in H; congruence|].
    destruct e; cbn [denote] in H |- *.
    - apply bind_mono; [exact H|intros _; apply den_list_mono; [exact IH|]|reflexivity].
      intros E. apply H. rewrite E. reflexivity.
    - destruct args as [|a1 rest]; [reflexivity|].
      apply bind_mono; [exact H|apply IH|intros s st'; apply den_nary_rest_mono; exact IH].
    - apply den_list_mono; assumption.
    - apply branch_mono; [exact H|apply IH|intros s st'; apply IH|].
      intros s st'. destruct el; [apply IH|reflexivity].
    - apply den_cond_mono; assumption.
    - apply den_while_mono; [exact IH|lia|exact H].
    - apply hdr_mono; [exact H|apply IH|]. intros s st'. apply den_for_mono; [exact IH|lia].
    - reflexivity.
    - reflexivity.
    - apply den_asserts_mono; assumption.
    - destruct v as [x|]; [|reflexivity].
      apply bind_mono; [exact H|apply IH|reflexivity].
    - apply bind_mono; [exact H|apply IH|reflexivity].
    - apply bind_mono; [exact H| |reflexivity].
      intros N. apply den_list_mono; [exact IH|exact N].
    - reflexivity.
    - apply bind_mono; [exact H|intros N; apply den_factors_mono; [exact IH|exact N]|].
      intros s1 st1 H1.
      apply bind_mono; [exact H1|intros N; apply den_factors_mono; [exact IH|exact N]|reflexivity].
    - reflexivity.
  Qed.

  Theorem denote_fuel_mono : forall f f' e stk st,
    f <= f' -> denote env f e stk st <> DFuel -> denote env f' e stk st = denote env f e stk st.
  Proof.
    intros f f' e stk st L. induction L as [|m L IH]; intros H; [reflexivity|].
    rewrite <- (IH H). apply denote_mono_S. rewrite (IH H). exact H.
  Qed.
End Mono.
