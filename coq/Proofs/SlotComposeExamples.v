(* Proofs/SlotComposeExamples.v — non-vacuity of the slot-composition theorems on a concrete routine
   (two variables, one with a requested slot id, a loop, a ScratchIndex-style [int <slot>] + [loads]),
   and the necessity of the two hypotheses about the numbers (range of directly accessed slots;
   validity of requested ids). *)
From Coq Require Import List Arith NArith String Bool Lia.
From PV Require Import Base.Bytes AVM.Syntax AVM.Machine Src.Expr Src.Denote
  Comp.Blocks Comp.Lower Comp.Passes Comp.GraphSem Comp.LinearSem Comp.SimCheck Comp.Compile Comp.Assemble
  Proofs.LowerFrame Proofs.LowerCorrect Proofs.LowerShape Proofs.NormalizeLowered
  Proofs.FlattenCorrect Proofs.SortCorrect
  Proofs.EndToEndExits Proofs.EndToEndGlue Proofs.EndToEnd Proofs.EndToEndExamples
  Proofs.SlotCompose Proofs.SlotComposeAssign Proofs.SlotComposeEnd Proofs.SlotComposeCover Proofs.SlotComposeFinal.
Import ListNotations.

(* variable [acc]: slot object 0, created as ScratchVar(TealType.uint64, 7) (requested id 7)
   variable [i]  : slot object 300, automatic *)
Definition v_acc : N := 0.
Definition v_i : N := 300.
Definition s_int (n : N) : expr := EOp O_int [AInt n] TUint [].
Definition s_ld (u : N) : expr := EOp O_load [ASlot u] TUint [].
Definition s_st (u : N) (e : expr) : expr := EOp O_store [ASlot u] TNone [e].

(* acc := 0; i := 0; while i < 3 { acc := acc + 2; i := i + 1 };
   return loads(int <slot of acc>)        -- ScratchVar.index() + DynamicScratchVar-style read *)
Definition sl_ast : expr :=
  ESeq [ s_st v_acc (s_int 0);
         s_st v_i (s_int 0);
         EWhile (EOp O_lt [] TUint [s_ld v_i; s_int 3])
                (ESeq [ s_st v_acc (ENary O_add TUint [s_ld v_acc; s_int 2]);
                        s_st v_i (ENary O_add TUint [s_ld v_i; s_int 1]) ]);
         EReturn (Some (EOp O_loads [] TUint [EOp O_int [ASlot v_acc] TUint []])) ].

Definition sl_prog : prog := mkProgram sl_ast [] [(v_acc, (7%N, true))].

Definition sl_cr : croutine := cr_of opts0 sl_ast.

Definition sl_res : list croutine * list (option N * list N) * list (N * N) :=
  match assign_slots sl_prog [sl_cr] with COk r => r | CErr _ => ([], [], []) end.
Definition sl_asg : list (N * N) := snd sl_res.
Notation sl_look := (look_of sl_asg).
Notation sl_cr' := (rw_routine (look_of sl_asg) sl_cr).
Definition sl_order : list id := order_of sl_cr'.
Definition sl_code : list comp := code_of sl_cr'.

(* an environment whose own variable numbering is unrelated to the assignment (uid |-> uid + 100) *)
Definition sl_env0 : denv := mkEnv ex_ctx (fun n => (n + 100)%N) [] [] false main_param.
Definition sl_final : mstate :=
  match denote (with_asg sl_env0 sl_look) 100 (root_ast sl_ast) [] ex_st with DExit _ st => st | _ => ex_st end.

Example sl_assignment : sl_look v_acc = 7%N /\ sl_look v_i = 0%N /\ routine_slots sl_cr = [v_acc; v_i].
Proof. vm_compute. repeat split; reflexivity. Qed.

Example sl_requested_valid : requested_valid sl_prog (all_slots [sl_cr]).
Proof.
  apply requested_valid_of_table. intros u i [E|[]]. injection E as _ <-. reflexivity.
Qed.

(* every hypothesis of [routine_end_to_end_assigned] holds; the run it predicts is the run the linear
   machine computes (in an environment whose e_asg is NOT the assignment); the code has no placeholder *)
Example routine_end_to_end_assigned_example :
  compile_one opts0 None sl_ast = COk sl_cr /\
  head_loop (root_ast sl_ast) = false /\
  assign_slots sl_prog [sl_cr] = COk sl_res /\
  In sl_cr' (fst (fst sl_res)) /\
  sort_blocks (cr_graph sl_cr') (cr_start sl_cr') (cr_end sl_cr') = Some sl_order /\
  flatten_blocks (cr_graph sl_cr') sl_order = Some sl_code /\
  code_slots sl_code = [] /\
  consistent sl_env0 (routine_ctx opts0 None) /\
  denote (with_asg sl_env0 sl_look) 100 (root_ast sl_ast) [] ex_st = DExit (VI 6) sl_final /\
  lstar sl_env0 sl_code (LAt 0 [] ex_st) (LExit (VI 6) sl_final) /\
  lrun 200 sl_env0 sl_code (LAt 0 [] ex_st) = LExit (VI 6) sl_final /\
  scratch_get (s_scratch sl_final) 7 = VI 6 /\ scratch_get (s_scratch sl_final) 0 = VI 3.
Proof.
  assert (E : compile_one opts0 None sl_ast = COk sl_cr) by (vm_compute; reflexivity).
  assert (HL : head_loop (root_ast sl_ast) = false) by reflexivity.
  assert (HA : assign_slots sl_prog [sl_cr] = COk (fst (fst sl_res), snd (fst sl_res), sl_asg)) by (vm_compute; reflexivity).
  assert (HS : sort_blocks (cr_graph sl_cr') (cr_start sl_cr') (cr_end sl_cr') = Some sl_order) by (vm_compute; reflexivity).
  assert (HF : flatten_blocks (cr_graph sl_cr') sl_order = Some sl_code) by (vm_compute; reflexivity).
  assert (Hc : consistent sl_env0 (routine_ctx opts0 None)) by (apply consistent_main; reflexivity).
  assert (Dn : denote (with_asg sl_env0 sl_look) 100 (root_ast sl_ast) [] ex_st = DExit (VI 6) sl_final)
    by (vm_compute; reflexivity).
  destruct (routine_end_to_end_assigned opts0 None sl_ast sl_cr sl_prog [sl_cr] _ _ sl_asg eq_refl E HL
              (or_introl eq_refl) HA sl_requested_valid) as [Hin T].
  destruct (T sl_order sl_code HS HF) as (_ & NS & T').
  split; [exact E|]. split; [exact HL|]. split; [vm_compute; reflexivity|]. split; [exact Hin|].
  split; [exact HS|]. split; [exact HF|]. split; [exact NS|]. split; [exact Hc|]. split; [exact Dn|].
  split; [|vm_compute; repeat split; reflexivity].
  apply (T' sl_env0 Hc 100 [] ex_st). rewrite Dn. reflexivity.
Qed.

(* the emitted code as TEAL text: what the real compiler prints for the same program (checked on /repo:
   compileTeal(..., version=6, optimize_scratch_slots off) gives these lines with labels main_l1/main_l3) *)
Example sl_code_text :
  assemble_all sl_code =
  Some [ "int 0"; "store 7"; "int 0"; "store 0"; "l1:"; "load 0"; "int 3"; "<"; "bz l3";
         "load 7"; "int 2"; "+"; "store 7"; "load 0"; "int 1"; "+"; "store 0"; "b l1"; "l3:";
         "int 7"; "loads"; "return" ]%string.
Proof. vm_compute. reflexivity. Qed.

(* the linear-level theorem on the same routine: the un-assigned code under the assignment as
   environment, and its rewrite, step in lock step; the rewrite IS the code the pipeline emits *)
Example rewrite_preserves_example :
  let code0 := code_of sl_cr in
  let env := with_asg sl_env0 sl_look in
  slots_ok env sl_look (code_slots code0) /\
  code_slots code0 <> [] /\
  rw_code sl_look code0 = sl_code /\
  (forall c, lstep env (rw_code sl_look code0) c = lstep env code0 c) /\
  lrun 200 env code0 (LAt 0 [] ex_st) = LExit (VI 6) sl_final.
Proof.
  intros code0 env.
  assert (Hok : slots_ok env sl_look (code_slots code0)).
  { intros u Hu. split; [reflexivity|].
    assert (Hs : forallb (fun u => N.ltb (sl_look u) 256) (code_slots code0) = true) by (vm_compute; reflexivity).
    rewrite forallb_forall in Hs. apply N.ltb_lt. exact (Hs u Hu). }
  split; [exact Hok|]. split; [vm_compute; discriminate|]. split; [vm_compute; reflexivity|].
  split; [exact (proj1 (rewrite_preserves env sl_look code0 Hok))|vm_compute; reflexivity].
Qed.

(* ---- necessity of the range hypothesis ----
   agreement alone is not enough: a variable numbered 300 can be read in the abstract semantics (a cell of
   its own, no range check) while [load 300] fails on the AVM.  (Not constructible in PyTeal: the
   ScratchSlot constructor rejects requested ids outside 0..255 and automatic numbers are below the
   number of slots, which is at most 256.) *)
Example rewrite_needs_range :
  exists (env : denv) (look : N -> N) (code : list comp) (c : lconf),
    agree_on env look (code_slots code) /\
    lstep env code c = Some (LAt 1 [VI 0] ex_st) /\
    lstep env (rw_code look code) c = Some LFail.
Proof.
  exists (with_asg sl_env0 (fun _ => 300%N)), (fun _ => 300%N), [COp (mkI O_load [ASlot 0])], (LAt 0 [] ex_st).
  split; [intros u _; reflexivity|]. split; vm_compute; reflexivity.
Qed.

(* the same at pipeline level: a program record claiming requested id 300 for [acc] passes assign_slots of
   the model; the emitted code fails where the source semantics exits with 6 *)
Definition bad_ast : expr := ESeq [ s_st v_acc (s_int 5); EReturn (Some (s_ld v_acc)) ].
Definition bad_prog : prog := mkProgram bad_ast [] [(v_acc, (300%N, true))].
Definition bad_cr : croutine := cr_of opts0 bad_ast.
Definition bad_asg : list (N * N) :=
  match assign_slots bad_prog [bad_cr] with COk r => snd r | CErr _ => [] end.
Definition bad_code : list comp := code_of (rw_routine (look_of bad_asg) bad_cr).

Example slots_needs_requested_valid :
  compile_one opts0 None bad_ast = COk bad_cr /\
  (exists crs' locals, assign_slots bad_prog [bad_cr] = COk (crs', locals, bad_asg)) /\
  ~ requested_valid bad_prog (all_slots [bad_cr]) /\
  (exists st', denote (with_asg sl_env0 (look_of bad_asg)) 100 (root_ast bad_ast) [] ex_st = DExit (VI 5) st') /\
  lrun 200 sl_env0 bad_code (LAt 0 [] ex_st) = LFail.
Proof.
  split; [vm_compute; reflexivity|].
  split; [eexists; eexists; vm_compute; reflexivity|].
  split.
  - intros H. assert (X : (sid bad_prog v_acc < 256)%N).
    { apply H; [vm_compute; left; reflexivity|reflexivity]. }
    vm_compute in X. discriminate X.
  - split; [eexists; vm_compute; reflexivity|vm_compute; reflexivity].
Qed.

(* ---- each variable a cell of its own, on the example ---- *)
Example sl_no_alias : sl_look v_acc <> sl_look v_i.
Proof.
  assert (HA : assign_slots sl_prog [sl_cr] = COk (fst (fst sl_res), snd (fst sl_res), sl_asg)) by (vm_compute; reflexivity).
  apply (assigned_cells_disjoint sl_prog [sl_cr] _ _ sl_asg HA); [vm_compute; tauto|vm_compute; tauto|discriminate].
Qed.
