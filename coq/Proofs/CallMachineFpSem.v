(* Proofs/CallMachineFpSem.v — property C02: the linked-program semantics EXTENDED with the frame-pointer
   instructions, and its whole-run bridge to the reference machine.

   [fstep] is Comp/LinkedSem.v [pstep] with
     - call-stack entries carrying what [proto] records (frame height, #args, #returns), and the machine's
       "the previous instruction was callsub" flag;
     - [proto A R]          as AVM/Machine.v: only directly after callsub, A <= height; the innermost frame
                            gets (height, A, R);
     - [frame_dig k], [frame_bury k]  (k the assembler's reading of the immediate: a decimal 0..127, or "-j" with
                            1 <= j <= 128 as the two's-complement byte 256-j — AVM/Parse.v);
     - [retsub] under proto: keep the cells below the arguments, then the R cells at the frame pointer;
   everything else ([dupn], [popn] and every other operation through the same [do_op]; b/bz/bnz; callsub; return)
   as [pstep].  [fstep_conservative]: on programs without these instructions it IS [pstep].
   [fsim_step]/[fmachine_bridge]: [Machine.step] on [link_fp msel code] (= the assembler's [build_prog] on the
   statements of the list, frame immediates read as the assembler reads them) simulates [fstep] step for step;
   halting runs give the verdict of [Machine.run].
   Not done here: the text round trip for [frame_dig -k] lines (they are outside StageEText.printable), and the
   recomposition of the C01 chain for frame variables (the source-level meaning of [frame_dig]/[frame_bury]). *)
From Coq Require Import List Arith NArith Ascii String Bool Lia.
From PV Require Import Base.Bytes Base.Sexp AVM.Syntax AVM.Ops AVM.Machine AVM.Parse Src.Expr Src.Denote
  Comp.Blocks Comp.GraphSem Comp.LinearSem Comp.LinkedSem Proofs.StageELink Proofs.CallMachineSim
  Proofs.CallMachineFrame.
Import ListNotations.
Local Open Scope list_scope.

(* ---------------------------------------------------------------------------------------------- *)
(* 1. the semantics                                                                                 *)
(* ---------------------------------------------------------------------------------------------- *)
Record fframe : Type := mkFF { ff_ret : nat; ff_proto : option (nat * nat * nat) }.

Inductive fconf : Type :=
| FAt (fr : list fframe) (fcs : bool) (pc : nat) (stk : list value) (st : mstate)
| FEnd (stk : list value) (st : mstate)
| FExit (v : value) (st : mstate)
| FFail
| FUnsup (o : opc).

(* the assembler's reading of a frame_dig / frame_bury immediate (AVM/Parse.v parse_stmt) *)
Definition int8_of_string (a : string) : option N :=
  match list_ascii_of_string a with
  | m :: rest =>
      if Ascii.eqb m "-" then
        match N_of_dec (string_of_list_ascii rest) with
        | Some k => if (1 <=? k)%N && (k <=? 128)%N then Some (256 - k)%N else None
        | None => None
        end
      else match N_of_dec a with
           | Some k => if (k <=? 127)%N then Some k else None
           | None => None
           end
  | [] => None
  end.

Definition frame_imm (a : arg) : option N :=
  match a with
  | AInt k => if (k <=? 127)%N then Some k else None
  | AStr s => int8_of_string s
  | _ => None
  end.

Inductive fop : Type := FProto (a r : N) | FDig (k : N) | FBury (k : N).

Definition frame_op (i : instr) : option fop :=
  match i_op i, i_args i with
  | O_proto, [AInt a; AInt r] => Some (FProto a r)
  | O_frame_dig, [a] => option_map FDig (frame_imm a)
  | O_frame_bury, [a] => option_map FBury (frame_imm a)
  | _, _ => None
  end.

Definition fgoto (code : list comp) (fr : list fframe) (l : string) (stk : list value) (st : mstate) : fconf :=
  match find_label l code with Some p => FAt fr false p stk st | None => FFail end.

Definition fstep_op (env : denv) (code : list comp) (fr : list fframe) (fcs : bool) (pc : nat) (i : instr)
           (stk : list value) (st : mstate) : fconf :=
  if is_return (i_op i) then match stk with v :: _ => FExit v st | [] => FFail end
  else if is_retsub (i_op i) then
    match fr with
    | f :: fr' =>
        match ff_proto f with
        | None => FAt fr' false (ff_ret f) stk st
        | Some (h, a, r) =>
            if (h + r <=? List.length stk)%nat
            then FAt fr' false (ff_ret f) (rev (firstn (h - a) (rev stk) ++ firstn r (skipn h (rev stk)))) st
            else FFail
        end
    | [] => FFail
    end
  else
    match call_label i with
    | Some l =>
        match find_label l code with
        | Some p => FAt (mkFF (S pc) None :: fr) true p stk st
        | None => FFail
        end
    | None =>
        match frame_op i with
        | Some (FProto a r) =>
            match fcs, fr with
            | true, f :: fr' =>
                if (N.to_nat a <=? List.length stk)%nat
                then FAt (mkFF (ff_ret f) (Some (List.length stk, N.to_nat a, N.to_nat r)) :: fr') false (S pc) stk st
                else FFail
            | _, _ => FFail
            end
        | Some (FDig k) =>
            match fr with
            | f :: _ =>
                match ff_proto f with
                | Some (h, a, _) =>
                    match frame_index h a k with
                    | Some idx =>
                        match from_bottom stk idx with
                        | Some pos =>
                            match nth_error stk pos with
                            | Some v => FAt fr false (S pc) (v :: stk) st
                            | None => FFail
                            end
                        | None => FFail
                        end
                    | None => FFail
                    end
                | None => FFail
                end
            | [] => FFail
            end
        | Some (FBury k) =>
            match stk with
            | v :: r =>
                match fr with
                | f :: _ =>
                    match ff_proto f with
                    | Some (h, a, _) =>
                        match frame_index h a k with
                        | Some idx =>
                            match from_bottom r idx with
                            | Some pos => FAt fr false (S pc) (list_update r pos v) st
                            | None => FFail
                            end
                        | None => FFail
                        end
                    | None => FFail
                    end
                | [] => FFail
                end
            | [] => FFail
            end
        | None =>
            match jump_of i with
            | Some (JB, l) => fgoto code fr l stk st
            | Some (JBz, l) =>
                match stk with
                | v :: s' =>
                    match truthy v with
                    | Some true => FAt fr false (S pc) s' st
                    | Some false => fgoto code fr l s' st
                    | None => FFail
                    end
                | [] => FFail
                end
            | Some (JBnz, l) =>
                match stk with
                | v :: s' =>
                    match truthy v with
                    | Some true => fgoto code fr l s' st
                    | Some false => FAt fr false (S pc) s' st
                    | None => FFail
                    end
                | [] => FFail
                end
            | None =>
                match do_op env (i_op i) (i_args i) stk st with
                | DNorm s' st' => FAt fr (if is_comment (i_op i) then fcs else false) (S pc) s' st'
                | DUnsup o => FUnsup o
                | _ => FFail
                end
            end
        end
    end.

Definition fstep (env : denv) (code : list comp) (c : fconf) : option fconf :=
  match c with
  | FAt fr fcs pc stk st =>
      match nth_error code pc with
      | None => Some (FEnd stk st)
      | Some (COp i) => Some (fstep_op env code fr fcs pc i stk st)
      | Some (CLabel _ _) => Some (FAt fr fcs (S pc) stk st)
      | Some (CPragma _) => Some (FAt fr fcs (S pc) stk st)
      end
  | _ => None
  end.

Inductive fstar (env : denv) (code : list comp) : fconf -> fconf -> Prop :=
| fstar_refl c : fstar env code c c
| fstar_step c c' c'' : fstep env code c = Some c' -> fstar env code c' c'' -> fstar env code c c''.

Fixpoint frun (fuel : nat) (env : denv) (code : list comp) (c : fconf) : fconf :=
  match fuel with
  | O => c
  | S f => match fstep env code c with Some c' => frun f env code c' | None => c end
  end.

Lemma frun_fstar env code : forall fuel c, fstar env code c (frun fuel env code c).
Proof.
  induction fuel as [|f IH]; intros c; cbn [frun]; [apply fstar_refl|].
  destruct (fstep env code c) as [c'|] eqn:E; [|apply fstar_refl].
  eapply fstar_step; [exact E|]. apply IH.
Qed.

Definition ffinal (c : fconf) : bool := match c with FAt _ _ _ _ _ => false | _ => true end.

Lemma fstar_from_final env code c c' : ffinal c = true -> fstar env code c c' -> c' = c.
Proof.
  intros F H. destruct H as [|c c1 c2 S1 _]; [reflexivity|].
  destruct c; try discriminate F; discriminate S1.
Qed.

(* ---------------------------------------------------------------------------------------------- *)
(* 2. it extends pstep                                                                              *)
(* ---------------------------------------------------------------------------------------------- *)
Definition embF (fcs : bool) (c : pconf) : fconf :=
  match c with
  | PAt fr pc stk st => FAt (map (fun r => mkFF r None) fr) fcs pc stk st
  | PEnd stk st => FEnd stk st
  | PExit v st => FExit v st
  | PFail => FFail
  | PUnsup o => FUnsup o
  end.

Lemma frame_op_inv i f : frame_op i = Some f ->
  match f with
  | FProto a r => i_op i = O_proto /\ i_args i = [AInt a; AInt r]
  | FDig k => i_op i = O_frame_dig /\ exists a, i_args i = [a] /\ frame_imm a = Some k
  | FBury k => i_op i = O_frame_bury /\ exists a, i_args i = [a] /\ frame_imm a = Some k
  end.
Proof.
  unfold frame_op. destruct i as [o args]. cbn [i_op i_args].
  destruct o; try discriminate.
  - destruct args as [|a [|? ?]]; try discriminate.
    destruct (frame_imm a) as [k|] eqn:E; [|discriminate]. cbn [option_map]. intros H. injection H as <-.
    split; [reflexivity|]. exists a. split; [reflexivity|exact E].
  - destruct args as [|a [|? ?]]; try discriminate.
    destruct (frame_imm a) as [k|] eqn:E; [|discriminate]. cbn [option_map]. intros H. injection H as <-.
    split; [reflexivity|]. exists a. split; [reflexivity|exact E].
  - destruct args as [|[a| | | |] [|[r| | | |] [|? ?]]]; try discriminate.
    intros H. injection H as <-. split; reflexivity.
Qed.

Definition is_frame_opc (o : opc) : bool :=
  match o with O_proto | O_frame_dig | O_frame_bury => true | _ => false end.

Lemma frame_op_opc i f : frame_op i = Some f -> is_frame_opc (i_op i) = true.
Proof.
  intros H. pose proof (frame_op_inv i f H) as K.
  destruct f; [destruct K as [E _]|destruct K as [E _]|destruct K as [E _]]; rewrite E; reflexivity.
Qed.

(* in Comp/LinkedSem.v a frame instruction is outside the modelled fragment *)
Lemma do_op_frame_unsup env o args stk st : is_frame_opc o = true -> exists o', do_op env o args stk st = DUnsup o'.
Proof.
  intros Ho. unfold do_op.
  assert (Sa : slot_access o args = None).
  { unfold slot_access. destruct args as [|[n|s|l|u|sb] [|? ?]]; try reflexivity. destruct o; try discriminate Ho; reflexivity. }
  rewrite Sa. destruct (args_to_imms env o args) as [im|]; [|eexists; reflexivity].
  assert (Ex : exec_op (e_ctx env) o im stk st = ONot).
  { unfold exec_op.
    assert (E : forall a, exec_pure o a stk = PNot).
    { intros a. destruct o; try discriminate Ho; destruct stk as [|[x|x] [|[y|y] [|[z|z] [|[w|w] r]]]]; reflexivity. }
    rewrite E. destruct o; try discriminate Ho; reflexivity. }
  rewrite Ex. destruct o; try discriminate Ho; eexists; reflexivity.
Qed.

Theorem fstep_conservative env code c c' :
  pstep env code c = Some c' -> (forall o, c' <> PUnsup o) ->
  forall fcs, exists fcs', fstep env code (embF fcs c) = Some (embF fcs' c').
Proof.
  intros H NU fcs. destruct c as [fr pc stk st| | | |]; try discriminate H.
  cbn [pstep] in H. cbn [embF fstep].
  destruct (nth_error code pc) as [[i|l cm|v]|]; injection H as <-.
  2,3: exists fcs; reflexivity.
  2: exists fcs; reflexivity.
  unfold pstep_op in *. unfold fstep_op.
  destruct (is_return (i_op i)); [exists fcs; destruct stk; reflexivity|].
  destruct (is_retsub (i_op i)).
  { destruct fr as [|ret fr']; [exists fcs; reflexivity|]. exists false. reflexivity. }
  destruct (call_label i) as [l|].
  { destruct (find_label l code) as [p|]; [exists true; reflexivity|exists fcs; reflexivity]. }
  destruct (frame_op i) as [f|] eqn:Ef.
  { exfalso. pose proof (frame_op_opc i f Ef) as Ho.
    assert (Ej : jump_of i = None).
    { unfold jump_of. destruct (i_op i); try discriminate Ho; reflexivity. }
    rewrite Ej in NU. destruct (do_op_frame_unsup env (i_op i) (i_args i) stk st Ho) as [o' E].
    rewrite E in NU. exact (NU o' eq_refl). }
  destruct (jump_of i) as [[[| |] l]|].
  - unfold pgoto, fgoto. destruct (find_label l code); [exists false|exists fcs]; reflexivity.
  - destruct stk as [|x s']; [exists fcs; reflexivity|]. destruct (truthy x) as [[|]|]; [exists false; reflexivity| |exists fcs; reflexivity].
    unfold pgoto, fgoto. destruct (find_label l code); [exists false|exists fcs]; reflexivity.
  - destruct stk as [|x s']; [exists fcs; reflexivity|]. destruct (truthy x) as [[|]|]; [|exists false; reflexivity|exists fcs; reflexivity].
    unfold pgoto, fgoto. destruct (find_label l code); [exists false|exists fcs]; reflexivity.
  - destruct (do_op env (i_op i) (i_args i) stk st); try (exists fcs; reflexivity).
    eexists. reflexivity.
Qed.

(* ---------------------------------------------------------------------------------------------- *)
(* 3. linking: frame immediates as the assembler reads them                                         *)
(* ---------------------------------------------------------------------------------------------- *)
Definition norm_instr (i : instr) : instr :=
  match frame_op i with
  | Some (FDig k) => mkI O_frame_dig [AInt k]
  | Some (FBury k) => mkI O_frame_bury [AInt k]
  | _ => i
  end.
Definition norm_comp (c : comp) : comp := match c with COp i => COp (norm_instr i) | other => other end.

(* the assembler's program for the list *)
Definition link_fp (msel : list (string * bytes)) (code : list comp) : option program :=
  link msel (map norm_comp code).

Lemma norm_op i : i_op (norm_instr i) = i_op i.
Proof.
  unfold norm_instr. destruct (frame_op i) as [[a r|k|k]|] eqn:E; try reflexivity;
    destruct (frame_op_inv i _ E) as [Eo _]; rewrite Eo; reflexivity.
Qed.

Lemma norm_none i : frame_op i = None -> norm_instr i = i.
Proof. unfold norm_instr. intros ->. reflexivity. Qed.

Lemma real_norm c : real (norm_comp c) = real c.
Proof. destruct c as [i|l cm|v]; try reflexivity. cbn [norm_comp real]. now rewrite norm_op. Qed.

Lemma mpc_norm : forall code pc, mpc (map norm_comp code) pc = mpc code pc.
Proof.
  induction code as [|c t IH]; intros pc; destruct pc as [|k]; try reflexivity.
  cbn [map mpc]. now rewrite real_norm, IH.
Qed.

Lemma find_label_norm l : forall code, find_label l (map norm_comp code) = find_label l code.
Proof.
  induction code as [|c t IH]; [reflexivity|].
  destruct c as [i|l' cm|v]; cbn [map norm_comp find_label]; now rewrite IH.
Qed.

(* a program without frame instructions is linked as before *)
Lemma link_fp_plain msel code :
  (forall i, In (COp i) code -> frame_op i = None) -> link_fp msel code = link msel code.
Proof.
  intros H. unfold link_fp. f_equal.
  induction code as [|c t IH]; [reflexivity|]. cbn [map]. rewrite IH by (intros i Hi; apply H; right; exact Hi).
  f_equal. destruct c as [i|l cm|v]; try reflexivity. cbn [norm_comp]. f_equal. apply norm_none. apply H. left. reflexivity.
Qed.

(* ---------------------------------------------------------------------------------------------- *)
(* 4. the simulation                                                                                *)
(* ---------------------------------------------------------------------------------------------- *)
Definition fframes (code : list comp) (fr : list fframe) : list frame :=
  map (fun f => mkFrame (mpc code (ff_ret f)) (ff_proto f)) fr.

Definition frel (code : list comp) (fr : list fframe) (fcs : bool) (pc : nat) (stk : list value) (st : mstate)
           (m : mach) : Prop :=
  m_pc m = mpc code pc /\ m_stack m = stk /\ m_st m = st /\ m_calls m = fframes code fr /\ m_from_callsub m = fcs.

Definition fverdict_of (h : fconf) : option verdict :=
  match h with
  | FExit v _ => Some (exit_verdict v)
  | FEnd stk _ => Some (end_verdict stk)
  | FFail => Some VFail
  | FUnsup _ => None
  | FAt _ _ _ _ _ => None
  end.

Definition ffinal_ok (h : fconf) (m : mach) : Prop :=
  match h with
  | FExit v st => m_st m = st /\ hd_error (m_stack m) = Some v
  | FEnd stk st => m_st m = st /\ m_stack m = stk
  | _ => True
  end.

Lemma exec_op_fr cx o im stk st : is_frame_opc o = true -> exec_op cx o im stk st = ONot.
Proof.
  intros Ho. unfold exec_op.
  assert (E : forall a, exec_pure o a stk = PNot).
  { intros a. destruct o; try discriminate Ho; destruct stk as [|[x|x] [|[y|y] [|[z|z] [|[w|w] r]]]]; reflexivity. }
  rewrite E. destruct o; try discriminate Ho; reflexivity.
Qed.

Lemma frame_op_comment i : is_comment (i_op i) = true -> frame_op i = None.
Proof. intros H. apply is_comment_eq in H. unfold frame_op. rewrite H. reflexivity. Qed.

Lemma frame_op_jump i f : frame_op i = Some f -> jump_of i = None /\ call_label i = None /\
  is_return (i_op i) = false /\ is_retsub (i_op i) = false /\ is_comment (i_op i) = false.
Proof.
  intros H. pose proof (frame_op_opc i f H) as Ho. unfold jump_of, call_label.
  destruct (i_op i); try discriminate Ho; repeat split; reflexivity.
Qed.

Section FSim.
  Variable env : denv.
  Variable code : list comp.
  Variable P : program.
  Hypothesis LK : link_fp (e_msel env) code = Some P.
  Hypothesis TG : targets_ok code = true.

  Let cx := e_ctx env.
  Let ncode := map norm_comp code.

  Lemma fsim_step fr fcs pc stk st m c' :
    frel code fr fcs pc stk st m -> List.length stk <= STACK_MAX ->
    fstep env code (FAt fr fcs pc stk st) = Some c' ->
    match c' with
    | FAt fr' fcs' pc' stk' st' =>
        (exists m', step cx P m = Running m' /\ frel code fr' fcs' pc' stk' st' m') \/
        (frel code fr' fcs' pc' stk' st' m /\ fr' = fr /\ exists c, nth_error code pc = Some c /\ real c = false)
    | FUnsup _ => True
    | h => exists v, fverdict_of h = Some v /\ step cx P m = Done v m /\ ffinal_ok h m
    end.
  Proof.
    intros (Rpc & Rstk & Rst & Rcalls & Rfcs) Hh Hstep.
    destruct (stmts_ok env ncode P LK) as [ss HS]. destruct (link_spec _ _ _ LK) as [PC PL0].
    assert (PL : forall l, label_pc P l = option_map (mpc code) (find_label l code)).
    { intros l. rewrite PL0. fold ncode. unfold ncode. rewrite find_label_norm.
      destruct (find_label l code); [|reflexivity]. cbn [option_map]. now rewrite mpc_norm. }
    pose proof (pinstrs_nth (e_msel env) ncode ss pc HS) as Hn.
    unfold ncode in Hn at 1. rewrite nth_error_map in Hn. unfold ncode in Hn. rewrite !mpc_norm in Hn. fold ncode in Hn.
    cbn [fstep] in Hstep.
    assert (Hheight : (STACK_MAX <? height m)%nat = false).
    { unfold height. rewrite Rstk. apply Nat.ltb_ge. exact Hh. }
    assert (Hlen : height m = List.length stk) by (unfold height; now rewrite Rstk).
    destruct (nth_error code pc) as [[i|lb cm|v]|] eqn:En; cbn [option_map norm_comp] in Hn.
    - (* an op *)
      injection Hstep as <-. rewrite norm_op in Hn.
      destruct (is_comment (i_op i)) eqn:Ec.
      + (* comment: no machine step, the callsub flag stays *)
        pose proof (call_label_comment i Ec) as Ecl. pose proof (frame_op_comment i Ec) as Efo.
        unfold fstep_op. rewrite Ecl, Efo, Ec.
        apply is_comment_eq in Ec. rewrite Ec. cbn [is_return is_retsub].
        assert (Ej : jump_of i = None) by (unfold jump_of; rewrite Ec; reflexivity).
        rewrite Ej. unfold do_op. rewrite slot_access_comment.
        destruct (args_to_imms env O_comment (i_args i)) as [im|]; [|exact I].
        rewrite exec_op_comment. right. split.
        { repeat split; try assumption. rewrite Hn. exact Rpc. }
        split; [reflexivity|].
        exists (COp i). split; [reflexivity|]. cbn [real]. rewrite Ec. reflexivity.
      + destruct Hn as (im & Ei & Enth & Empc).
        assert (Hm : nth_error (pr_code P) (m_pc m) = Some (mkP (i_op i) im)) by (rewrite PC, Rpc; exact Enth).
        unfold fstep_op.
        destruct (is_return (i_op i)) eqn:Er.
        { apply is_return_eq in Er.
          assert (St : step cx P m =
                       match stk with
                       | VI n :: _ => Done (if (n =? 0)%N then VReject else VApprove) m
                       | _ => Done VFail m
                       end).
          { unfold step. rewrite Hm, Hheight. cbn [p_op p_imms]. rewrite Er, exec_op_return, Rstk. reflexivity. }
          destruct stk as [|[n|b] r].
          - exists VFail. repeat split. exact St.
          - exists (if (n =? 0)%N then VReject else VApprove). split; [reflexivity|]. split; [exact St|].
            split; [exact Rst|]. rewrite Rstk. reflexivity.
          - exists VFail. split; [reflexivity|]. split; [exact St|]. split; [exact Rst|]. rewrite Rstk. reflexivity. }
        destruct (is_retsub (i_op i)) eqn:Es.
        { (* retsub *)
          apply is_retsub_eq in Es.
          destruct fr as [|f fr'].
          - exists VFail. split; [reflexivity|]. split; [|exact I].
            unfold step. rewrite Hm, Hheight. cbn [p_op p_imms]. rewrite Es, exec_op_retsub, Rcalls. reflexivity.
          - destruct (ff_proto f) as [[[h a] r]|] eqn:Ep.
            + (* under proto *)
              destruct (h + r <=? List.length stk)%nat eqn:Eg.
              * left. eexists. split.
                { unfold step. rewrite Hm, Hheight. cbn [p_op p_imms]. rewrite Es, exec_op_retsub, Rcalls.
                  unfold fframes. cbn [map f_proto f_ret]. rewrite Ep, Hlen, Eg, Rstk. reflexivity. }
                repeat split; cbn; assumption.
              * exists VFail. split; [reflexivity|]. split; [|exact I].
                unfold step. rewrite Hm, Hheight. cbn [p_op p_imms]. rewrite Es, exec_op_retsub, Rcalls.
                unfold fframes. cbn [map f_proto f_ret]. rewrite Ep, Hlen, Eg. reflexivity.
            + left. eexists. split.
              { unfold step. rewrite Hm, Hheight. cbn [p_op p_imms]. rewrite Es, exec_op_retsub, Rcalls.
                unfold fframes. cbn [map f_proto f_ret]. rewrite Ep. reflexivity. }
              repeat split; cbn; assumption. }
        destruct (call_label i) as [l|] eqn:Ecl.
        { (* callsub *)
          destruct (call_label_inv i l Ecl) as [Eo Ea].
          assert (Efo : frame_op i = None) by (unfold frame_op; rewrite Eo; reflexivity).
          rewrite (norm_none i Efo), Ea, Eo in Ei. cbn in Ei. injection Ei as <-.
          destruct (find_label l code) as [p|] eqn:Ep.
          - assert (Lp : label_pc P l = Some (mpc code p)) by (rewrite PL, Ep; reflexivity).
            left. eexists. split.
            + unfold step. rewrite Hm, Hheight. cbn [p_op p_imms]. rewrite Eo, exec_op_callsub, Lp. reflexivity.
            + repeat split; cbn; try assumption.
              rewrite Rcalls. unfold fframes. cbn [map ff_ret ff_proto]. rewrite Empc, Rpc. reflexivity.
          - assert (Lp : label_pc P l = None) by (rewrite PL, Ep; reflexivity).
            exists VFail. split; [reflexivity|]. split; [|exact I].
            unfold step. rewrite Hm, Hheight. cbn [p_op p_imms]. rewrite Eo, exec_op_callsub, Lp. reflexivity. }
        destruct (frame_op i) as [f|] eqn:Efo.
        { (* the frame instructions *)
          pose proof (frame_op_inv i f Efo) as Inv.
          destruct f as [a r|k|k].
          - (* proto *)
            destruct Inv as [Eo Ea].
            assert (En' : norm_instr i = i) by (unfold norm_instr; rewrite Efo; reflexivity).
            rewrite En', Ea, Eo in Ei. cbn in Ei. injection Ei as <-.
            assert (Ex : exec_op cx O_proto [IInt a; IInt r] (m_stack m) (m_st m) = ONot) by (apply exec_op_fr; reflexivity).
            destruct fcs.
            + destruct fr as [|f fr'].
              * exists VFail. split; [reflexivity|]. split; [|exact I].
                unfold step. rewrite Hm, Hheight. cbn [p_op p_imms]. rewrite Eo, Ex, Rfcs, Rcalls. reflexivity.
              * destruct (N.to_nat a <=? List.length stk)%nat eqn:Eg.
                { left. eexists. split.
                  - unfold step. rewrite Hm, Hheight. cbn [p_op p_imms]. rewrite Eo, Ex, Rfcs, Rcalls.
                    unfold fframes. cbn [map f_ret]. rewrite Hlen, Eg. reflexivity.
                  - repeat split; cbn; try assumption. rewrite Empc, Rpc. reflexivity. }
                exists VFail. split; [reflexivity|]. split; [|exact I].
                unfold step. rewrite Hm, Hheight. cbn [p_op p_imms]. rewrite Eo, Ex, Rfcs, Rcalls.
                unfold fframes. cbn [map f_ret]. rewrite Hlen, Eg. reflexivity.
            + exists VFail. split; [reflexivity|]. split; [|exact I].
              unfold step. rewrite Hm, Hheight. cbn [p_op p_imms]. rewrite Eo, Ex, Rfcs. reflexivity.
          - (* frame_dig *)
            destruct Inv as (Eo & a0 & Ea & Ek).
            assert (En' : norm_instr i = mkI O_frame_dig [AInt k]) by (unfold norm_instr; rewrite Efo; reflexivity).
            rewrite En', Eo in Ei. cbn in Ei. injection Ei as <-.
            assert (Ex : exec_op cx O_frame_dig [IInt k] (m_stack m) (m_st m) = ONot) by (apply exec_op_fr; reflexivity).
            assert (St : step cx P m =
                         match m_calls m with
                         | f :: _ =>
                             match f_proto f with
                             | Some (h, a, _) =>
                                 match frame_index h a k with
                                 | Some idx =>
                                     match from_bottom (m_stack m) idx with
                                     | Some pos =>
                                         match nth_error (m_stack m) pos with
                                         | Some v => Running (with_pc_stack m (S (m_pc m)) (v :: m_stack m))
                                         | None => Done VFail m
                                         end
                                     | None => Done VFail m
                                     end
                                 | None => Done VFail m
                                 end
                             | None => Done VFail m
                             end
                         | [] => Done VFail m
                         end).
            { unfold step. rewrite Hm, Hheight. cbn [p_op p_imms]. rewrite Eo, Ex. reflexivity. }
            rewrite Rcalls, Rstk in St.
            destruct fr as [|f fr']; cbn [fframes map] in St.
            { exists VFail. repeat split. exact St. }
            cbn [f_proto] in St.
            destruct (ff_proto f) as [[[h a] r]|]; [|exists VFail; repeat split; exact St].
            destruct (frame_index h a k) as [idx|]; [|exists VFail; repeat split; exact St].
            destruct (from_bottom stk idx) as [pos|]; [|exists VFail; repeat split; exact St].
            destruct (nth_error stk pos) as [v|]; [|exists VFail; repeat split; exact St].
            left. eexists. split; [exact St|]. repeat split; cbn; try assumption. rewrite Empc, Rpc. reflexivity.
          - (* frame_bury *)
            destruct Inv as (Eo & a0 & Ea & Ek).
            assert (En' : norm_instr i = mkI O_frame_bury [AInt k]) by (unfold norm_instr; rewrite Efo; reflexivity).
            rewrite En', Eo in Ei. cbn in Ei. injection Ei as <-.
            assert (Ex : exec_op cx O_frame_bury [IInt k] (m_stack m) (m_st m) = ONot) by (apply exec_op_fr; reflexivity).
            assert (St : step cx P m =
                         match m_stack m with
                         | v :: r =>
                             match m_calls m with
                             | f :: _ =>
                                 match f_proto f with
                                 | Some (h, a, _) =>
                                     match frame_index h a k with
                                     | Some idx =>
                                         match from_bottom r idx with
                                         | Some pos => Running (with_pc_stack m (S (m_pc m)) (list_update r pos v))
                                         | None => Done VFail m
                                         end
                                     | None => Done VFail m
                                     end
                                 | None => Done VFail m
                                 end
                             | [] => Done VFail m
                             end
                         | [] => Done VFail m
                         end).
            { unfold step. rewrite Hm, Hheight. cbn [p_op p_imms]. rewrite Eo, Ex.
              destruct (m_stack m); reflexivity. }
            rewrite Rcalls, Rstk in St.
            destruct stk as [|v r]; [exists VFail; repeat split; exact St|].
            destruct fr as [|f fr']; cbn [fframes map] in St.
            { exists VFail. repeat split. exact St. }
            cbn [f_proto] in St.
            destruct (ff_proto f) as [[[h a] r0]|]; [|exists VFail; repeat split; exact St].
            destruct (frame_index h a k) as [idx|]; [|exists VFail; repeat split; exact St].
            destruct (from_bottom r idx) as [pos|]; [|exists VFail; repeat split; exact St].
            left. eexists. split; [exact St|]. repeat split; cbn; try assumption. rewrite Empc, Rpc. reflexivity. }
        rewrite (norm_none i Efo) in Ei.
        destruct (jump_of i) as [[k l]|] eqn:Ej.
        { destruct (jump_of_inv i k l Ej) as [Eo Ea].
          destruct (target_defined code TG pc i k l En Ej) as [p Ep].
          assert (Lp : label_pc P l = Some (mpc code p)) by (rewrite PL, Ep; reflexivity).
          rewrite Ea in Ei. cbn in Ei. injection Ei as <-.
          unfold fgoto. rewrite Ep.
          destruct k; cbn [jop] in Eo.
          - (* b *)
            left. eexists. split.
            + unfold step. rewrite Hm, Hheight. cbn [p_op p_imms]. rewrite Eo, exec_op_b, Lp. reflexivity.
            + repeat split; cbn; assumption.
          - (* bz *)
            destruct stk as [|[n|b] r]; cbn [truthy].
            + exists VFail. repeat split.
              unfold step. rewrite Hm, Hheight. cbn [p_op p_imms]. rewrite Eo, exec_op_bz, Rstk. reflexivity.
            + assert (St : step cx P m = Running (with_pc_stack m (if (n =? 0)%N then mpc code p else S (m_pc m)) r)).
              { unfold step. rewrite Hm, Hheight. cbn [p_op p_imms]. rewrite Eo, exec_op_bz, Rstk, Lp. reflexivity. }
              destruct (n =? 0)%N; cbn [negb]; left; eexists; (split; [exact St|]); repeat split; cbn; try assumption.
              rewrite Empc, Rpc. reflexivity.
            + exists VFail. repeat split.
              unfold step. rewrite Hm, Hheight. cbn [p_op p_imms]. rewrite Eo, exec_op_bz, Rstk. reflexivity.
          - (* bnz *)
            destruct stk as [|[n|b] r]; cbn [truthy].
            + exists VFail. repeat split.
              unfold step. rewrite Hm, Hheight. cbn [p_op p_imms]. rewrite Eo, exec_op_bnz, Rstk. reflexivity.
            + assert (St : step cx P m = Running (with_pc_stack m (if (n =? 0)%N then S (m_pc m) else mpc code p) r)).
              { unfold step. rewrite Hm, Hheight. cbn [p_op p_imms]. rewrite Eo, exec_op_bnz, Rstk, Lp. reflexivity. }
              destruct (n =? 0)%N; cbn [negb]; left; eexists; (split; [exact St|]); repeat split; cbn; try assumption.
              rewrite Empc, Rpc. reflexivity.
            + exists VFail. repeat split.
              unfold step. rewrite Hm, Hheight. cbn [p_op p_imms]. rewrite Eo, exec_op_bnz, Rstk. reflexivity. }
        (* a plain operation: the same [exec_op] on both sides *)
        unfold do_op. rewrite Ec, (slot_access_none _ _ _ _ Ei), (imms_of_args_env env _ _ _ Ei).
        fold cx.
        destruct (exec_op cx (i_op i) im stk st) as [s' st'| | |] eqn:Ex.
        * left. eexists. split.
          { unfold step. rewrite Hm, Hheight. cbn [p_op p_imms]. rewrite Rstk, Rst, Ex. reflexivity. }
          repeat split; cbn; try assumption. rewrite Empc, Rpc. reflexivity.
        * exists VFail. repeat split.
          unfold step. rewrite Hm, Hheight. cbn [p_op p_imms]. rewrite Rstk, Rst, Ex. reflexivity.
        * destruct (is_err (i_op i)) eqn:Ee; [|exact I].
          apply is_err_eq in Ee. exists VFail. repeat split.
          unfold step. rewrite Hm, Hheight. cbn [p_op p_imms]. rewrite Rstk, Rst, Ex, Ee. reflexivity.
        * exact I.
    - injection Hstep as <-. right. split.
      { repeat split; try assumption. rewrite Hn. exact Rpc. }
      split; [reflexivity|]. eexists. split; reflexivity.
    - injection Hstep as <-. right. split.
      { repeat split; try assumption. rewrite Hn. exact Rpc. }
      split; [reflexivity|]. eexists. split; reflexivity.
    - (* off the end *)
      injection Hstep as <-. exists (end_verdict stk). split; [reflexivity|]. split; [|split; assumption].
      unfold ncode in Hn. unfold step. rewrite PC, Rpc, Hn, Rstk. unfold end_verdict.
      destruct stk as [|[n|b] [|? ?]]; reflexivity.
  Qed.
End FSim.

(* ---------------------------------------------------------------------------------------------- *)
(* 5. runs                                                                                          *)
(* ---------------------------------------------------------------------------------------------- *)
Definition fstack_bounded (env : denv) (code : list comp) (c0 : fconf) : Prop :=
  forall fr fcs pc stk st, fstar env code c0 (FAt fr fcs pc stk st) -> List.length stk <= STACK_MAX.

Lemma fstack_bounded_step env code c c' :
  fstep env code c = Some c' -> fstack_bounded env code c -> fstack_bounded env code c'.
Proof. intros S1 B fr fcs pc stk st H. apply (B fr fcs pc stk st). eapply fstar_step; [exact S1|exact H]. Qed.

Theorem fmachine_bridge env code P :
  link_fp (e_msel env) code = Some P -> targets_ok code = true ->
  forall c0 h, fstar env code c0 h ->
  forall fr fcs pc stk st m v, c0 = FAt fr fcs pc stk st -> frel code fr fcs pc stk st m ->
    fverdict_of h = Some v -> fstack_bounded env code c0 ->
    exists n m', (forall k, n <= k -> run k (e_ctx env) P m = (v, m')) /\ ffinal_ok h m'.
Proof.
  intros LK TG c0 h H.
  induction H as [c|c c' c'' S1 H' IH]; intros fr fcs pc stk st m v E R V B.
  - subst c. discriminate V.
  - subst c.
    assert (Hh : List.length stk <= STACK_MAX) by (apply (B fr fcs pc stk st); apply fstar_refl).
    pose proof (fsim_step env code P LK TG fr fcs pc stk st m c' R Hh S1) as Sim.
    pose proof (fstack_bounded_step env code _ _ S1 B) as B'.
    destruct c' as [fr' fcs' pc' stk' st'|stk' st'|v' st'| |o].
    + destruct Sim as [(m1 & St & R1)|(R1 & _)].
      * destruct (IH fr' fcs' pc' stk' st' m1 v eq_refl R1 V B') as (n & m' & Hrun & Hfin).
        exists (S n), m'. split; [|exact Hfin].
        intros k Hk. destruct k as [|k]; [lia|]. cbn [run]. rewrite St. apply Hrun. lia.
      * exact (IH fr' fcs' pc' stk' st' m v eq_refl R1 V B').
    + assert (Ec : c'' = FEnd stk' st') by (eapply fstar_from_final; [|exact H']; reflexivity). subst c''.
      destruct Sim as (v1 & V1 & St & Hfin). rewrite V1 in V. injection V as <-.
      exists 1, m. split; [|exact Hfin]. intros k Hk. destruct k as [|k]; [lia|]. cbn [run]. rewrite St. reflexivity.
    + assert (Ec : c'' = FExit v' st') by (eapply fstar_from_final; [|exact H']; reflexivity). subst c''.
      destruct Sim as (v1 & V1 & St & Hfin). rewrite V1 in V. injection V as <-.
      exists 1, m. split; [|exact Hfin]. intros k Hk. destruct k as [|k]; [lia|]. cbn [run]. rewrite St. reflexivity.
    + assert (Ec : c'' = FFail) by (eapply fstar_from_final; [|exact H']; reflexivity). subst c''.
      destruct Sim as (v1 & V1 & St & Hfin). rewrite V1 in V. injection V as <-.
      exists 1, m. split; [|exact Hfin]. intros k Hk. destruct k as [|k]; [lia|]. cbn [run]. rewrite St. reflexivity.
    + assert (Ec : c'' = FUnsup o) by (eapply fstar_from_final; [|exact H']; reflexivity). subst c''. discriminate V.
Qed.

Lemma frel_init code st : frel code [] false 0 [] st (init_mach st).
Proof. repeat split. cbn. now rewrite mpc_0. Qed.

Corollary fmachine_bridge_init env code P :
  link_fp (e_msel env) code = Some P -> targets_ok code = true ->
  forall st h v, fstar env code (FAt [] false 0 [] st) h -> fverdict_of h = Some v ->
    fstack_bounded env code (FAt [] false 0 [] st) ->
    exists n m', (forall k, n <= k -> run k (e_ctx env) P (init_mach st) = (v, m')) /\ ffinal_ok h m'.
Proof.
  intros LK TG st h v H V B.
  exact (fmachine_bridge env code P LK TG _ h H [] false 0 [] st (init_mach st) v eq_refl (frel_init code st) V B).
Qed.

Theorem machine_simulates_fp env code P :
  link_fp (e_msel env) code = Some P -> targets_ok code = true ->
  forall fr fcs pc stk st m c', frel code fr fcs pc stk st m -> List.length stk <= STACK_MAX ->
    fstep env code (FAt fr fcs pc stk st) = Some c' ->
    match c' with
    | FAt fr' fcs' pc' stk' st' =>
        (exists m', step (e_ctx env) P m = Running m' /\ frel code fr' fcs' pc' stk' st' m') \/
        (frel code fr' fcs' pc' stk' st' m /\ fr' = fr /\ exists c, nth_error code pc = Some c /\ real c = false)
    | FUnsup _ => True
    | h => exists v, fverdict_of h = Some v /\ step (e_ctx env) P m = Done v m /\ ffinal_ok h m
    end.
Proof. intros LK TG fr fcs pc stk st m c'. exact (fsim_step env code P LK TG fr fcs pc stk st m c'). Qed.

(* a checker for [fstack_bounded] on terminating runs (for examples) *)
Fixpoint fbounded_run (fuel : nat) (env : denv) (code : list comp) (c : fconf) : bool :=
  match c with
  | FAt _ _ _ stk _ =>
      (List.length stk <=? STACK_MAX)%nat &&
      match fuel with
      | O => false
      | S f => match fstep env code c with Some c' => fbounded_run f env code c' | None => true end
      end
  | _ => true
  end.

Lemma fbounded_run_sound env code : forall fuel c, fbounded_run fuel env code c = true -> fstack_bounded env code c.
Proof.
  induction fuel as [|f IH]; intros c H fr fcs pc stk st R.
  - destruct c as [fr0 fcs0 pc0 stk0 st0| | | |]; cbn [fbounded_run] in H;
      try (apply fstar_from_final in R; [discriminate R|reflexivity]).
    rewrite andb_false_r in H. discriminate H.
  - destruct c as [fr0 fcs0 pc0 stk0 st0| | | |];
      try (apply fstar_from_final in R; [discriminate R|reflexivity]).
    cbn [fbounded_run] in H. apply andb_true_iff in H as [Hh Hn]. apply Nat.leb_le in Hh.
    remember (FAt fr0 fcs0 pc0 stk0 st0) as c0 eqn:E0. remember (FAt fr fcs pc stk st) as c1 eqn:E1.
    destruct R as [c|c c' c'' S1 R'].
    + subst c. injection E1 as <- <- <- <- <-. exact Hh.
    + subst c c''. rewrite S1 in Hn. exact (IH c' Hn fr fcs pc stk st R').
Qed.
