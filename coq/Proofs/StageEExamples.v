(* Proofs/StageEExamples.v — non-vacuity of the stage-E theorems: a main routine with a loop and a byte literal
   whose spelling contains a quote, a semicolon, a double slash and an escaped line feed. *)
From Coq Require Import List Arith NArith Ascii String Bool Lia.
From PV Require Import Base.Bytes Base.Sexp AVM.Syntax AVM.Ops AVM.Machine AVM.Parse Src.Expr Src.Denote
  Comp.Blocks Comp.Lower Comp.Passes Comp.GraphSem Comp.LinearSem Comp.SimCheck Comp.Compile Comp.Assemble
  Proofs.LowerFrame Proofs.LowerCorrect Proofs.LowerShape Proofs.NormalizeLowered Proofs.FlattenCorrect Proofs.SortCorrect
  Proofs.EndToEndGlue Proofs.EndToEnd Proofs.EndToEndExamples
  Proofs.SlotCompose Proofs.SlotComposeAssign Proofs.SlotComposeEnd Proofs.SlotComposeCover Proofs.SlotComposeFinal
  Proofs.SlotComposeExamples
  Proofs.C18Text Proofs.StageELink Proofs.StageEText Proofs.StageECompose.
Import ListNotations.
Local Open Scope list_scope.
Local Open Scope string_scope.

(* the spelling PyTeal prints for Bytes('a;b // "q"\n'):  "a;b // \"q\"\n"  (13 + 2 characters, 11 bytes) *)
Definition tx_lit : string := """a;b // \""q\""\n""".

Definition tx_bytes : expr := EOp O_byte [AStr tx_lit] TBytes [].

(* acc := 0; i := 0; while i < 3 { acc := acc + len(<literal>); i := i + 1 }; return acc == 33 *)
Definition tx_ast : expr :=
  ESeq [ s_st v_acc (s_int 0);
         s_st v_i (s_int 0);
         EWhile (EOp O_lt [] TUint [s_ld v_i; s_int 3])
                (ESeq [ s_st v_acc (ENary O_add TUint [s_ld v_acc; EOp O_len [] TUint [tx_bytes]]);
                        s_st v_i (ENary O_add TUint [s_ld v_i; s_int 1]) ]);
         EReturn (Some (EOp O_eq [] TUint [s_ld v_acc; s_int 33])) ].

Definition tx_prog : prog := mkProgram tx_ast [] [(v_acc, (7%N, true))].
Definition tx_cr : croutine := cr_of opts0 tx_ast.
Definition tx_res : list croutine * list (option N * list N) * list (N * N) :=
  match assign_slots tx_prog [tx_cr] with COk r => r | CErr _ => ([], [], []) end.
Definition tx_asg : list (N * N) := snd tx_res.
Notation tx_cr' := (rw_routine (look_of tx_asg) tx_cr).
Definition tx_order : list id := order_of tx_cr'.
Definition tx_code : list comp := code_of tx_cr'.
Definition tx_comps : list comp := main_comps 6 tx_code.
Definition tx_lines : list string := match assemble_all tx_comps with Some l => l | None => [] end.
Definition tx_text : string := program_text tx_lines.
Definition tx_P : program := match parse_program [] tx_text with Some P => P | None => mkProg 0 [] [] end.
Definition tx_env : denv := mkEnv ex_ctx (fun n => (n + 100)%N) [] [] false main_param.

(* the text, line for line *)
Example tx_text_lines :
  tx_lines =
  [ "#pragma version 6"; "int 0"; "store 7"; "int 0"; "store 0"; "main_l1:"; "load 0"; "int 3"; "<"; "bz main_l3";
    "load 7"; "byte ""a;b // \""q\""\n"""; "len"; "+"; "store 7"; "load 0"; "int 1"; "+"; "store 0"; "b main_l1";
    "main_l3:"; "load 7"; "int 33"; "=="; "return" ].
Proof. vm_compute. reflexivity. Qed.

Example tx_requested_valid : requested_valid tx_prog (all_slots [tx_cr]).
Proof. apply requested_valid_of_table. intros u i [E|[]]. injection E as _ <-. reflexivity. Qed.

(* every hypothesis of [routine_text_end_to_end] holds, the source outcome is DExit 1, and the theorem's
   conclusion — Machine.run on the program parsed from the text approves — agrees with running the machine *)
Example routine_text_end_to_end_example :
  compile_one opts0 None tx_ast = COk tx_cr /\
  head_loop (root_ast tx_ast) = false /\
  printable [] tx_comps = true /\ targets_ok tx_comps = true /\
  parse_program [] tx_text = Some tx_P /\ pr_version tx_P = 6%N /\
  List.length (pr_code tx_P) = 22 /\
  nth_error (pr_code tx_P) 9 = Some (mkP O_byte [IBytes (list_ascii_of_string "a;b // ""q""" ++ [ascii_of_N 10])%list]) /\
  (exists st', denote (with_asg tx_env (look_of tx_asg)) 100 (root_ast tx_ast) [] ex_st = DExit (VI 1) st' /\
     exists n m', (forall k, n <= k -> run k ex_ctx tx_P (init_mach ex_st) = (VApprove, m')) /\ m_st m' = st') /\
  fst (run 1000 ex_ctx tx_P (init_mach ex_st)) = VApprove.
Proof.
  assert (E : compile_one opts0 None tx_ast = COk tx_cr) by (vm_compute; reflexivity).
  assert (HL : head_loop (root_ast tx_ast) = false) by reflexivity.
  assert (HA : assign_slots tx_prog [tx_cr] = COk (fst (fst tx_res), snd (fst tx_res), tx_asg)) by (vm_compute; reflexivity).
  assert (HS : sort_blocks (cr_graph tx_cr') (cr_start tx_cr') (cr_end tx_cr') = Some tx_order) by (vm_compute; reflexivity).
  assert (HF : flatten_blocks (cr_graph tx_cr') tx_order = Some tx_code) by (vm_compute; reflexivity).
  assert (PR : printable [] tx_comps = true) by (vm_compute; reflexivity).
  assert (TG : targets_ok tx_comps = true) by (vm_compute; reflexivity).
  assert (Hc : consistent tx_env (routine_ctx opts0 None)) by (apply consistent_main; reflexivity).
  destruct (routine_text_end_to_end opts0 tx_ast tx_cr tx_prog [tx_cr] _ _ tx_asg [] E HL (or_introl eq_refl) HA
              tx_requested_valid tx_order tx_code HS HF PR TG) as (lines & P & A & PP & PV & Run).
  assert (El : lines = tx_lines).
  { unfold tx_lines, tx_comps. change (o_version opts0) with 6%N in A. rewrite A. reflexivity. }
  subst lines.
  assert (EP : P = tx_P). { unfold tx_P, tx_text. rewrite PP. reflexivity. }
  subst P.
  split; [exact E|]. split; [exact HL|]. split; [exact PR|]. split; [exact TG|]. split; [exact PP|].
  split; [exact PV|]. split; [vm_compute; reflexivity|]. split; [vm_compute; reflexivity|].
  split; [|vm_compute; reflexivity].
  remember (denote (with_asg tx_env (look_of tx_asg)) 100 (root_ast tx_ast) [] ex_st) as r eqn:Er.
  assert (Dn : exists st', r = DExit (VI 1) st').
  { subst r. vm_compute. eexists. reflexivity. }
  destruct Dn as [st' Dn]. exists st'. split; [exact Dn|].
  assert (B : stack_bounded tx_env tx_code (LAt 0 [] ex_st)).
  { apply (bounded_run_sound tx_env tx_code 200). vm_compute. reflexivity. }
  destruct (Run tx_env Hc eq_refl 100 ex_st VApprove) as (n & m' & Hrun & Hst).
  - cbv zeta. rewrite <- Er, Dn. reflexivity.
  - exact B.
  - exists n, m'. split; [exact Hrun|]. cbv zeta in Hst. rewrite <- Er, Dn in Hst. exact (proj1 Hst).
Qed.

(* ---------------------------------------------------------------------------------------------- *)
(* the two side conditions of the machine bridge are necessary                                     *)
(* ---------------------------------------------------------------------------------------------- *)
Definition opi (o : opc) (n : N) : comp := COp (mkI o [AInt n]).
Definition op_ (o : opc) : comp := COp (mkI o []).
Definition opl (o : opc) (l : string) : comp := COp (mkI o [ALbl l]).

(* (1) an undefined branch target that is never taken: the list semantics runs on, the machine (like the real
   assembler, which rejects the text) does not *)
Definition nt_code : list comp := [opi O_int 1; opl O_bz "nowhere"; opi O_int 1; op_ O_return_].

Example bridge_needs_targets :
  exists P, link [] nt_code = Some P /\ targets_ok nt_code = false /\
    lstar tx_env nt_code (LAt 0 [] ex_st) (LExit (VI 1) ex_st) /\
    stack_bounded tx_env nt_code (LAt 0 [] ex_st) /\
    fst (run 100 ex_ctx P (init_mach ex_st)) = VFail.
Proof.
  eexists. split; [vm_compute; reflexivity|]. split; [vm_compute; reflexivity|].
  split; [|split; [apply (bounded_run_sound tx_env nt_code 20); vm_compute; reflexivity|vm_compute; reflexivity]].
  assert (E : lrun 10 tx_env nt_code (LAt 0 [] ex_st) = LExit (VI 1) ex_st) by (vm_compute; reflexivity).
  rewrite <- E. apply lrun_lstar.
Qed.

(* (2) the AVM's stack limit: a loop that leaves 1001 values on the stack and then returns 1 *)
Definition deep_code : list comp :=
  [ opi O_int 0; opi O_store 0;
    CLabel "l1" None;
    opi O_int 7; opi O_load 0; opi O_int 1; op_ O_add; opi O_store 0;
    opi O_load 0; opi O_int 1001; op_ O_lt; opl O_bnz "l1";
    opi O_int 1; op_ O_return_ ].

Example bridge_needs_stack_bound :
  exists P, link [] deep_code = Some P /\ targets_ok deep_code = true /\
    (exists st', lstar tx_env deep_code (LAt 0 [] ex_st) (LExit (VI 1) st')) /\
    fst (run (N.to_nat 20000) ex_ctx P (init_mach ex_st)) = VFail.
Proof.
  eexists. split; [vm_compute; reflexivity|]. split; [vm_compute; reflexivity|]. split; [|vm_compute; reflexivity].
  pose (h := lrun (N.to_nat 20000) tx_env deep_code (LAt 0 [] ex_st)).
  assert (E : match h with LExit (VI 1) _ => True | _ => False end) by (vm_compute; exact Logic.I).
  pose proof (lrun_lstar tx_env deep_code (N.to_nat 20000) (LAt 0 [] ex_st)) as R. fold h in R.
  destruct h as [| |[[|[[]|[]|]]|] st'| | |]; try contradiction. exists st'. exact R.
Qed.

(* ---------------------------------------------------------------------------------------------- *)
(* the line shapes of real PyTeal output are in the printable class                                *)
(* ---------------------------------------------------------------------------------------------- *)
(* [shapes_lines] is, verbatim, what compileTeal (version 8, /repo) prints for a program using a comment, txn /
   global / txna / gtxn fields, named integer constants, Addr, MethodSignature, Bytes in base64 / base16 / base32 /
   raw / string form, two-immediate ops, the op names containing a slash or a bar, itxn_field, asset_params_get,
   base64_decode, json_ref, gload and the largest uint64; [shapes_comps] is the component list with these lines.
   The list assembles to exactly these lines, is printable, and the text parses to the linked program. *)
Local Open Scope N_scope.
Definition shapes_comps : list comp :=
  [ CPragma 8;
    COp (mkI O_comment [AStr "hello // world; x"]);
    COp (mkI O_txn [AStr "Sender"]);
    COp (mkI O_pop []);
    COp (mkI O_global_ [AStr "GroupSize"]);
    COp (mkI O_pop []);
    COp (mkI O_txna [AStr "ApplicationArgs"; AInt 0]);
    COp (mkI O_pop []);
    COp (mkI O_gtxn [AInt 1; AStr "Amount"]);
    COp (mkI O_pop []);
    COp (mkI O_int [AStr "pay"]);
    COp (mkI O_pop []);
    COp (mkI O_int [AStr "NoOp"]);
    COp (mkI O_pop []);
    COp (mkI O_addr [AStr "AAAAAAAAAAAAAAAAAAAAAAAAAAAAAAAAAAAAAAAAAAAAAAAAAAAAY5HFKQ"]);
    COp (mkI O_pop []);
    COp (mkI O_method_signature [AStr """add(uint64,uint64)uint64"""]);
    COp (mkI O_pop []);
    COp (mkI O_byte [AStr "base64(YWJj)"]);
    COp (mkI O_pop []);
    COp (mkI O_byte [AStr "0x0011"]);
    COp (mkI O_pop []);
    COp (mkI O_byte [AStr "base32(MFRGG===)"]);
    COp (mkI O_pop []);
    COp (mkI O_byte [AStr "0x00ff"]);
    COp (mkI O_pop []);
    COp (mkI O_byte [AStr """abcdef"""]);
    COp (mkI O_extract [AInt 2; AInt 3]);
    COp (mkI O_pop []);
    COp (mkI O_byte [AStr """abcdef"""]);
    COp (mkI O_extract [AInt 2; AInt 0]);
    COp (mkI O_pop []);
    COp (mkI O_int [AInt 7]);
    COp (mkI O_int [AInt 2]);
    COp (mkI O_div []);
    COp (mkI O_pop []);
    COp (mkI O_byte [AStr """a"""]);
    COp (mkI O_byte [AStr """b"""]);
    COp (mkI O_b_div []);
    COp (mkI O_pop []);
    COp (mkI O_int [AInt 1]);
    COp (mkI O_int [AInt 2]);
    COp (mkI O_bitwise_or []);
    COp (mkI O_pop []);
    COp (mkI O_int [AInt 1]);
    COp (mkI O_int [AInt 2]);
    COp (mkI O_logic_and []);
    COp (mkI O_pop []);
    COp (mkI O_int [AInt 1]);
    COp (mkI O_int [AInt 2]);
    COp (mkI O_neq []);
    COp (mkI O_pop []);
    COp (mkI O_byte [AStr """a"""]);
    COp (mkI O_byte [AStr """b"""]);
    COp (mkI O_b_or []);
    COp (mkI O_pop []);
    COp (mkI O_itxn_begin []);
    COp (mkI O_int [AStr "pay"]);
    COp (mkI O_itxn_field [AStr "TypeEnum"]);
    COp (mkI O_int [AInt 0]);
    COp (mkI O_asset_params_get [AStr "AssetTotal"]);
    COp (mkI O_store [AInt 1]);
    COp (mkI O_store [AInt 0]);
    COp (mkI O_load [AInt 1]);
    COp (mkI O_pop []);
    COp (mkI O_byte [AStr """YQ"""]);
    COp (mkI O_base64_decode [AStr "URLEncoding"]);
    COp (mkI O_pop []);
    COp (mkI O_byte [AStr """{}"""]);
    COp (mkI O_byte [AStr """k"""]);
    COp (mkI O_json_ref [AStr "JSONString"]);
    COp (mkI O_pop []);
    COp (mkI O_gload [AInt 0; AInt 1]);
    COp (mkI O_pop []);
    COp (mkI O_int [AInt 18446744073709551615]);
    COp (mkI O_pop []);
    COp (mkI O_int [AInt 1]);
    COp (mkI O_return_ []) ].
Definition shapes_lines : list string :=
  [ "#pragma version 8";
    "// hello // world; x";
    "txn Sender";
    "pop";
    "global GroupSize";
    "pop";
    "txna ApplicationArgs 0";
    "pop";
    "gtxn 1 Amount";
    "pop";
    "int pay";
    "pop";
    "int NoOp";
    "pop";
    "addr AAAAAAAAAAAAAAAAAAAAAAAAAAAAAAAAAAAAAAAAAAAAAAAAAAAAY5HFKQ";
    "pop";
    "method ""add(uint64,uint64)uint64""";
    "pop";
    "byte base64(YWJj)";
    "pop";
    "byte 0x0011";
    "pop";
    "byte base32(MFRGG===)";
    "pop";
    "byte 0x00ff";
    "pop";
    "byte ""abcdef""";
    "extract 2 3";
    "pop";
    "byte ""abcdef""";
    "extract 2 0";
    "pop";
    "int 7";
    "int 2";
    "/";
    "pop";
    "byte ""a""";
    "byte ""b""";
    "b/";
    "pop";
    "int 1";
    "int 2";
    "|";
    "pop";
    "int 1";
    "int 2";
    "&&";
    "pop";
    "int 1";
    "int 2";
    "!=";
    "pop";
    "byte ""a""";
    "byte ""b""";
    "b|";
    "pop";
    "itxn_begin";
    "int pay";
    "itxn_field TypeEnum";
    "int 0";
    "asset_params_get AssetTotal";
    "store 1";
    "store 0";
    "load 1";
    "pop";
    "byte ""YQ""";
    "base64_decode URLEncoding";
    "pop";
    "byte ""{}""";
    "byte ""k""";
    "json_ref JSONString";
    "pop";
    "gload 0 1";
    "pop";
    "int 18446744073709551615";
    "pop";
    "int 1";
    "return" ]%string.
Local Close Scope N_scope.

Definition shapes_msel : list (string * bytes) :=
  [("add(uint64,uint64)uint64"%string, [ascii_of_N 254; ascii_of_N 107; ascii_of_N 104; ascii_of_N 100])].

Example real_line_shapes_printable :
  assemble_all shapes_comps = Some shapes_lines /\
  printable shapes_msel shapes_comps = true /\
  (exists P, parse_program shapes_msel (program_text shapes_lines) = Some P /\
             link shapes_msel shapes_comps = Some P /\ List.length (pr_code P) = 76).
Proof.
  assert (A : assemble_all shapes_comps = Some shapes_lines) by (vm_compute; reflexivity).
  assert (PR : printable shapes_msel shapes_comps = true) by (vm_compute; reflexivity).
  split; [exact A|]. split; [exact PR|].
  rewrite (text_links shapes_msel shapes_comps shapes_lines PR ltac:(discriminate) A).
  eexists. split; [vm_compute; reflexivity|]. split; reflexivity.
Qed.

(* a two-routine text, verbatim what compileTeal prints on /repo for Return(f(Int(5))) with a subroutine named
   "foo<LF>int 0" (body x * 2): the subroutine header (empty line, one comment line per line of the name, label) is
   in the printable class; the text parses to the linked program *)
Definition two_comps : list comp :=
  [ CPragma 6; opi O_int 5; COp (mkI O_callsub [AStr "fooint0_0"]); op_ O_return_;
    CLabel "fooint0_0" (Some ("foo" ++ nl ++ "int 0")%string);
    opi O_store 0; opi O_load 0; opi O_int 2; op_ O_mul; op_ O_retsub ].

Example subroutine_header_roundtrip :
  printable [] two_comps = true /\
  (exists lines, assemble_all two_comps = Some lines /\
     program_text lines =
       ("#pragma version 6" ++ nl ++ "int 5" ++ nl ++ "callsub fooint0_0" ++ nl ++ "return" ++ nl ++
        nl ++ "// foo" ++ nl ++ "// int 0" ++ nl ++ "fooint0_0:" ++ nl ++ "store 0" ++ nl ++ "load 0" ++ nl ++
        "int 2" ++ nl ++ "*" ++ nl ++ "retsub")%string /\
     parse_program [] (program_text lines) = link [] two_comps) /\
  (exists P, link [] two_comps = Some P /\ List.length (pr_code P) = 8 /\ label_pc P "fooint0_0" = Some 3 /\
             fst (run 100 ex_ctx P (init_mach ex_st)) = VApprove).
Proof.
  assert (PR : printable [] two_comps = true) by (vm_compute; reflexivity).
  split; [exact PR|]. split.
  - destruct (printable_assembles [] two_comps PR) as [lines A]. exists lines. split; [exact A|].
    split; [|apply text_links; [exact PR|discriminate|exact A]].
    vm_compute in A. injection A as <-. vm_compute. reflexivity.
  - eexists. split; [vm_compute; reflexivity|]. repeat split.
Qed.
