(* Proofs/AnnotProof.v — appending blanks and a // comment to a TEAL line that ends outside a
   string literal / base64 argument never changes what the assembler tokeniser reads. *)
From Coq Require Import List NArith Ascii String Bool Lia.
From PV Require Import AVM.Parse Lit.R3 Lit.Annot.
Import ListNotations.

Lemma space_not_slash : forall w, is_space w = true -> Ascii.eqb w slash = false.
Proof.
  intros w H. destruct (Ascii.eqb_spec w slash) as [->|]; [|reflexivity].
  vm_compute in H. discriminate.
Qed.

Lemma space_not_newline : forall w, is_space w = true -> w <> newline.
Proof. intros w H ->. vm_compute in H. discriminate. Qed.

Lemma tok_blanks_comment : forall ws text acc esc, forallb is_space ws = true ->
  tok_line (ws ++ slash :: slash :: text) [] false esc false acc = rev acc.
Proof.
  induction ws as [|w ws IH]; intros text acc esc H.
  - reflexivity.
  - cbn [forallb] in H. apply andb_prop in H. destruct H as [Hw Hws].
    cbn [app tok_line]. rewrite Hw. apply (IH text acc false Hws).
Qed.

Lemma tok_annot : forall L ws text cur in_str esc in_b64 acc,
  ws <> [] -> forallb is_space ws = true ->
  ends_clean_from L cur in_str esc in_b64 = true ->
  tok_line (L ++ ws ++ slash :: slash :: text) cur in_str esc in_b64 acc =
  tok_line L cur in_str esc in_b64 acc.
Proof.
  induction L as [|c t IH]; intros ws text cur in_str esc in_b64 acc Hne Hws H.
  - destruct ws as [|w ws]; [congruence|].
    cbn [forallb] in Hws. apply andb_prop in Hws. destruct Hws as [Hw Hws].
    cbn [ends_clean_from] in H. apply andb_prop in H. destruct H as [H1 H2].
    apply negb_true_iff in H1. subst in_str.
    cbn [app tok_line]. rewrite Hw.
    destruct cur as [|a cur].
    + apply negb_true_iff in H2. subst in_b64.
      apply (tok_blanks_comment ws text acc false Hws).
    + destruct in_b64.
      * apply (tok_blanks_comment ws text _ false Hws).
      * apply negb_true_iff in H2. rewrite H2.
        apply (tok_blanks_comment ws text _ false Hws).
  - revert H. cbn [app tok_line ends_clean_from].
    destruct in_str.
    { destruct esc; [intros H; apply IH; assumption|].
      destruct (Ascii.eqb c "\"); [intros H; apply IH; assumption|].
      destruct (Ascii.eqb c """"); intros H; apply IH; assumption. }
    destruct (is_space c).
    { destruct cur; intros H; apply IH; assumption. }
    destruct (Ascii.eqb c """").
    { destruct cur; intros H; apply IH; assumption. }
    destruct (Ascii.eqb c "/").
    { destruct t as [|c2 t'].
      - destruct ws as [|w ws']; [congruence|].
        cbn [app]. pose proof Hws as Hws'. cbn [forallb] in Hws'. apply andb_prop in Hws'.
        destruct Hws' as [Hw _]. apply space_not_slash in Hw. unfold slash in Hw. rewrite Hw.
        cbn [andb]. intros H. apply (IH (w :: ws')); assumption.
      - cbn [app]. destruct (Ascii.eqb c2 "/" && negb in_b64); [reflexivity|].
        intros H. apply IH; assumption. }
    destruct (Ascii.eqb c "(").
    { intros H. apply IH; assumption. }
    destruct (Ascii.eqb c ")").
    { intros H. apply IH; assumption. }
    destruct (Ascii.eqb c ";").
    { destruct in_b64; intros H; apply IH; assumption. }
    intros H. apply IH; assumption.
Qed.

Lemma list_ascii_app : forall a b : string,
  list_ascii_of_string (a ++ b) = list_ascii_of_string a ++ list_ascii_of_string b.
Proof. induction a as [|x a IH]; intros b; cbn; [reflexivity|rewrite IH; reflexivity]. Qed.

(* line level, on strings *)
Lemma annotation_strips_line : forall L ws text : string,
  line_ends_clean L = true ->
  blanks (list_ascii_of_string ws) ->
  tokens_of_line (annotate L ws text) = tokens_of_line L.
Proof.
  intros L ws text H [Hne Hws]. unfold tokens_of_line, annotate.
  rewrite !list_ascii_app. apply tok_annot; assumption.
Qed.

(* ---- program level: text = lines joined by newline ---- *)
Lemma split_lines_app_clean : forall p r cur, ~ In newline p ->
  split_lines (p ++ r) cur = split_lines r (rev p ++ cur).
Proof.
  induction p as [|x p IH]; intros r cur H; [reflexivity|].
  cbn [app split_lines].
  destruct (Ascii.eqb_spec x (chr 10)) as [->|Hne]; [exfalso; apply H; left; reflexivity|].
  rewrite IH by (intros Hin; apply H; right; exact Hin).
  cbn [rev]. rewrite <- app_assoc. reflexivity.
Qed.

Lemma split_lines_join : forall ls, ls <> [] -> Forall (fun p => ~ In newline p) ls ->
  split_lines (join_with newline ls) [] = map string_of_list_ascii ls.
Proof.
  induction ls as [|p ls IH]; intros Hne HF; [congruence|].
  inversion HF as [|? ? Hp Hl]; subst.
  destruct ls as [|q ls].
  - cbn [join_with map]. rewrite <- (app_nil_r p) at 1.
    rewrite split_lines_app_clean by exact Hp. cbn [split_lines]. unfold str_of.
    rewrite app_nil_r, rev_involutive. reflexivity.
  - change (join_with newline (p :: q :: ls)) with (p ++ newline :: join_with newline (q :: ls)).
    rewrite split_lines_app_clean by exact Hp. cbn [split_lines]. unfold newline at 1.
    rewrite Ascii.eqb_refl. unfold str_of. rewrite app_nil_r, rev_involutive.
    cbn [map]. f_equal. apply IH; [discriminate|exact Hl].
Qed.

Record aline : Type := mkALine { al_teal : list ascii; al_ws : list ascii; al_text : list ascii }.

Definition aline_ok (a : aline) : Prop :=
  ends_clean_from (al_teal a) [] false false false = true /\ blanks (al_ws a) /\
  ~ In newline (al_teal a) /\ ~ In newline (al_text a).

Definition aline_annotated (a : aline) : list ascii := annotate_chars (al_teal a) (al_ws a) (al_text a).

Lemma annotated_no_newline : forall a, aline_ok a -> ~ In newline (aline_annotated a).
Proof.
  intros a (_ & (_ & Hws) & H1 & H2) Hin. unfold aline_annotated, annotate_chars in Hin.
  apply in_app_or in Hin. destruct Hin as [Hin|Hin]; [exact (H1 Hin)|].
  apply in_app_or in Hin. destruct Hin as [Hin|Hin].
  - rewrite forallb_forall in Hws. exact (space_not_newline _ (Hws _ Hin) eq_refl).
  - destruct Hin as [E|[E|Hin]]; [discriminate E|discriminate E|exact (H2 Hin)].
Qed.

Lemma annotation_strips_program : forall prog : list aline, prog <> [] -> Forall aline_ok prog ->
  map tokens_of_line (split_lines (join_with newline (map aline_annotated prog)) []) =
  map tokens_of_line (split_lines (join_with newline (map al_teal prog)) []).
Proof.
  intros prog Hne HF.
  rewrite !split_lines_join.
  - rewrite !map_map. apply map_ext_in. intros a Ha.
    rewrite Forall_forall in HF. destruct (HF a Ha) as (Hc & [Hn Hs] & _ & _).
    unfold tokens_of_line. rewrite !list_ascii_of_string_of_list_ascii.
    unfold aline_annotated, annotate_chars. apply tok_annot; assumption.
  - destruct prog; [congruence|discriminate].
  - apply Forall_forall. intros p Hp. apply in_map_iff in Hp. destruct Hp as (a & <- & Ha).
    rewrite Forall_forall in HF. destruct (HF a Ha) as (_ & _ & H1 & _). exact H1.
  - destruct prog; [congruence|discriminate].
  - apply Forall_forall. intros p Hp. apply in_map_iff in Hp. destruct Hp as (a & <- & Ha).
    rewrite Forall_forall in HF. apply annotated_no_newline. apply HF. exact Ha.
Qed.
