(* Proofs/SlotComposePipeline.v — the link to the pipeline function [compile_components] (optimiser off):
   every routine it flattens is the slot rewrite of a [compile_one] result — of the main routine or of the
   declaration body of a subroutine of the program — under the assignment [assign_slots] computed for
   the whole program; so [routine_end_to_end_assigned] applies to each of them. *)
From Coq Require Import List Arith NArith String Bool Lia.
From PV Require Import Base.Bytes AVM.Syntax AVM.Machine Src.Expr Src.Denote
  Comp.Blocks Comp.Lower Comp.Passes Comp.GraphSem Comp.LinearSem Comp.SimCheck Comp.Compile
  Proofs.LowerFrame Proofs.LowerCorrect Proofs.LowerShape Proofs.NormalizeSem
  Proofs.NormalizeLowered Proofs.FlattenCorrect Proofs.SortCorrect
  Proofs.EndToEndExits Proofs.EndToEndGlue Proofs.EndToEnd
  Proofs.SlotCompose Proofs.SlotComposeAssign Proofs.SlotComposeEnd Proofs.SlotComposeCover Proofs.SlotComposeFinal.
Import ListNotations.

(* where a compiled routine comes from *)
Definition origin (o : copts) (p : prog) (cr : croutine) : Prop :=
  compile_one o None (p_main p) = COk cr \/
  exists r, In r (p_subs p) /\ compile_one o (Some r) (decl_body o r) = COk cr.

Lemma find_sub_in p s r : find_sub p s = Some r -> In r (p_subs p).
Proof. unfold find_sub. intros H. apply find_some in H. exact (proj1 H). Qed.

Section Rec.
  Variable o : copts.
  Variable p : prog.

  (* the routines compile_rec adds are compile_one results of [sub]/[ast] or of declaration bodies *)
  Definition from (sub : option routine) (ast : expr) (cr : croutine) : Prop :=
    compile_one o sub ast = COk cr \/
    exists r, In r (p_subs p) /\ compile_one o (Some r) (decl_body o r) = COk cr.

  Lemma fold_step_err {A} (F : cres (list croutine) -> A -> cres (list croutine)) :
    (forall e x, F (CErr e) x = CErr e) -> forall l e, fold_left F l (CErr e) = CErr e.
  Proof. intros HF. induction l as [|x t IH]; intros e; [reflexivity|]. cbn [fold_left]. rewrite HF. apply IH. Qed.

  Lemma compile_rec_sound : forall fuel sub ast acc res,
    compile_rec fuel o p sub ast acc = COk res ->
    forall cr, In cr res -> In cr acc \/ from sub ast cr.
  Proof.
    induction fuel as [|f IH]; intros sub ast acc res H cr Hcr; [discriminate H|].
    cbn [compile_rec] in H.
    destruct (compile_one o sub ast) as [cr0|e] eqn:E0; [|discriminate H].
    match type of H with
    | fold_left ?F ?news (COk ?acc1) = _ => set (FF := F) in H; set (nws := news) in H; set (a1 := acc1) in H
    end.
    assert (P1 : forall c, In c a1 -> In c acc \/ from sub ast c).
    { intros c Hc. unfold a1 in Hc. apply in_app_or in Hc. destruct Hc as [Hc|[<-|[]]]; [left; exact Hc|right; left; exact E0]. }
    clearbody a1. clearbody nws.
    revert a1 P1 H. induction nws as [|s t IHn]; intros a1 P1 H.
    - cbn [fold_left] in H. injection H as <-. exact (P1 cr Hcr).
    - cbn [fold_left] in H. unfold FF at 2 in H.
      destruct (existsb (fun c => match cr_key c with Some k => N.eqb k s | None => false end) a1).
      + exact (IHn a1 P1 H).
      + destruct (find_sub p s) as [r|] eqn:Fs.
        * destruct (compile_rec f o p (Some r) (decl_body o r) a1) as [a2|e] eqn:E2.
          -- apply (IHn a2); [|exact H]. intros c Hc.
             destruct (IH _ _ _ _ E2 c Hc) as [Hin|[Hd|Hd]]; [exact (P1 c Hin)| |right; right; exact Hd].
             right. right. exists r. split; [exact (find_sub_in p s r Fs)|exact Hd].
          -- rewrite fold_step_err in H; [discriminate H|]. intros e0 x. reflexivity.
        * rewrite fold_step_err in H; [discriminate H|]. intros e0 x. reflexivity.
  Qed.
End Rec.

Theorem compile_rec_origin o p crs :
  compile_rec (S (List.length (p_subs p))) o p None (p_main p) [] = COk crs ->
  forall cr, In cr crs -> origin o p cr.
Proof.
  intros H cr Hcr. destruct (compile_rec_sound o p _ _ _ _ _ H cr Hcr) as [[]|X]. exact X.
Qed.

(* compile_components, optimiser off: the two intermediate results *)
Lemma compile_components_inv o modes p comps :
  compile_components o modes p = COk comps -> o_opt_slots o = false ->
  exists crs crs' locals asg,
    compile_rec (S (List.length (p_subs p))) o p None (p_main p) [] = COk crs /\
    assign_slots p crs = COk (crs', locals, asg).
Proof.
  intros H Ho. unfold compile_components in H. rewrite Ho in H.
  destruct (negb _); [discriminate H|].
  destruct (compile_rec _ o p None (p_main p) []) as [crs|e] eqn:E1; [|discriminate H].
  destruct (assign_slots p crs) as [[[crs' locals] asg]|e] eqn:E2; [|discriminate H].
  exists crs, crs', locals, asg. split; [reflexivity|exact E2].
Qed.

(* the statement for every routine of a program *)
Theorem program_routines_end_to_end o modes p comps :
  compile_components o modes p = COk comps -> o_opt_slots o = false ->
  head_loop (root_ast (p_main p)) = false ->
  (forall r, In r (p_subs p) -> r_deferred r = None) ->
  exists crs crs' locals asg,
    compile_rec (S (List.length (p_subs p))) o p None (p_main p) [] = COk crs /\
    assign_slots p crs = COk (crs', locals, asg) /\
    (requested_valid p (all_slots crs) ->
     forall cr, In cr crs ->
       exists sub ast0,
         compile_one o sub ast0 = COk cr /\
         let cr' := rw_routine (look_of asg) cr in
         In cr' crs' /\
         forall order code,
           sort_blocks (cr_graph cr') (cr_start cr') (cr_end cr') = Some order ->
           flatten_blocks (cr_graph cr') order = Some code ->
           pos_of (cr_graph cr') order (cr_start cr') = 0 /\
           code_slots code = [] /\
           forall env, consistent env (routine_ctx o sub) ->
           forall fuel stk st h,
             halt_of (denote (with_asg env (look_of asg)) fuel (root_ast ast0) stk st) = Some h ->
             lstar env code (LAt 0 stk st) h /\
             forall c2, lstar env code (LAt 0 stk st) c2 -> lfinal c2 = true -> c2 = h).
Proof.
  intros H Ho HL HD.
  destruct (compile_components_inv o modes p comps H Ho) as (crs & crs' & locals & asg & HR & HA).
  exists crs, crs', locals, asg. split; [exact HR|]. split; [exact HA|].
  intros HV cr Hcr.
  destruct (compile_rec_origin o p crs HR cr Hcr) as [E|(r & Hr & E)].
  - exists None, (p_main p). split; [exact E|].
    exact (routine_end_to_end_assigned o None (p_main p) cr p crs crs' locals asg eq_refl E HL Hcr HA HV).
  - exists (Some r), (decl_body o r). split; [exact E|].
    exact (routine_end_to_end_assigned o (Some r) (decl_body o r) cr p crs crs' locals asg (HD r Hr) E
             (decl_body_root_head_loop o r) Hcr HA HV).
Qed.
