(* Proofs/CallComposeExamples.v — property C02, non-vacuity of the composed theorems
   (Proofs/CallComposeProgram.v [program_linked_correct]):
   ex_prog: main has a loop calling f; f calls g twice, the second call while the first result is on
   the stack (calls nested to depth 2, a call in operand position); g has an If with an early Return. *)
From Coq Require Import List Arith NArith String Bool Lia.
From PV Require Import Base.Bytes Base.Sexp AVM.Syntax AVM.Machine Src.Expr Src.Denote Src.DenoteCall
  Comp.Blocks Comp.Lower Comp.Passes Comp.GraphSem Comp.LinearSem Comp.LinkedSem Comp.Compile Comp.Assemble
  Proofs.LowerShape Proofs.NormalizeLowered Proofs.SlotComposeAssign Proofs.FlattenCorrect
  CallX.Denote CallX.EndToEnd
  Proofs.CallComposeLink Proofs.CallComposeMain Proofs.CallComposeLayout Proofs.CallComposeSpill
  Proofs.CallComposeSpillPass Proofs.CallComposeProgram.
Import ListNotations.
Local Open Scope string_scope.
Local Open Scope list_scope.

(* ---- a decidable NoDup for label lists ---- *)
Fixpoint nodup_b (l : list string) : bool :=
  match l with
  | [] => true
  | x :: t => negb (existsb (String.eqb x) t) && nodup_b t
  end.

Lemma nodup_b_sound l : nodup_b l = true -> NoDup l.
Proof.
  induction l as [|x t IH]; intros H; [constructor|]. cbn [nodup_b] in H. apply andb_prop in H. destruct H as [H1 H2].
  constructor; [|exact (IH H2)]. intros Hin. apply negb_true_iff in H1.
  assert (existsb (String.eqb x) t = true) by (apply existsb_exists; exists x; split; [exact Hin|apply String.eqb_refl]).
  congruence.
Qed.

Definition x_int (n : N) : expr := EOp O_int [AInt n] TUint [].
Definition x_ld (u : N) : expr := EOp O_load [ASlot u] TUint [].
Definition x_st (u : N) (e : expr) : expr := EOp O_store [ASlot u] TNone [e].

(* g(x): if x > 5 then return x - 5; return x + 1 *)
Definition ex_g : routine :=
  mkRoutine 2 "g" TUint [(false, 301%N)]
    (ESeq [ EIf (EOp O_gt [] TUint [EParam 0; x_int 5]) (EReturn (Some (EOp O_minus [] TUint [EParam 0; x_int 5]))) None;
            EReturn (Some (ENary O_add TUint [EParam 0; x_int 1])) ]) None.
(* f(x): return g(x) + g(x + 10) *)
Definition ex_f : routine :=
  mkRoutine 1 "f" TUint [(false, 300%N)]
    (EReturn (Some (ENary O_add TUint [ECall 2 TUint [EParam 0]; ECall 2 TUint [ENary O_add TUint [EParam 0; x_int 10]]]))) None.
(* acc := 0; i := 0; while i < 3 { acc := acc + f(i); i := i + 1 }; return acc *)
Definition ex_main : expr :=
  ESeq [ x_st 256 (x_int 0); x_st 257 (x_int 0);
         EWhile (EOp O_lt [] TUint [x_ld 257; x_int 3])
                (ESeq [ x_st 256 (ENary O_add TUint [x_ld 256; ECall 1 TUint [x_ld 257]]);
                        x_st 257 (ENary O_add TUint [x_ld 257; x_int 1]) ]);
         EReturn (Some (x_ld 256)) ].
Definition ex_prog : prog := mkProgram ex_main [ex_f; ex_g] [].
Definition ex_opts : copts := mkOpts 6 true false false (fun _ => 0%N) (fun _ _ => 0%N).
Definition ex_modes : opc -> bool * bool := fun _ => (true, true).

Definition ex_comps : list comp :=
  match compile_components ex_opts ex_modes ex_prog with COk c => c | CErr _ => [] end.
Definition ex_L : list comp := tl ex_comps.
Definition ex_asg : list (N * N) := match model_assignment ex_opts ex_prog with COk a => a | CErr _ => [] end.
Definition ex_st0 : mstate := init_state [] [] [].
Definition ex_lenv : Src.Denote.denv := lenv ex_ctx (look_of ex_asg) [] [ex_f; ex_g].
Definition ex_final : mstate :=
  match prun 400 ex_lenv ex_L (PAt [] 0 [] ex_st0) with PExit _ st => st | _ => ex_st0 end.

(* the text of the program, for the reader *)
Example ex_text : assemble_all ex_comps =
  Some ["#pragma version 6"; "int 0"; "store 0"; "int 0"; "store 1"; "main_l1:"; "load 1"; "int 3"; "<";
        "bz main_l3"; "load 0"; "load 1"; "callsub f_0"; "+"; "store 0"; "load 1"; "int 1"; "+"; "store 1";
        "b main_l1"; "main_l3:"; "load 0"; "return"; "
// f
f_0:"; "store 2"; "load 2"; "callsub g_1"; "load 2"; "int 10"; "+"; "callsub g_1"; "+"; "retsub"; "
// g
g_1:"; "store 3"; "load 3"; "int 5"; ">"; "bz g_1_l2"; "load 3"; "int 5"; "-"; "retsub"; "g_1_l2:"; "load 3";
        "int 1"; "+"; "retsub"].
Proof. vm_compute. reflexivity. Qed.

(* every hypothesis of [program_linked_correct] holds for ex_prog; its conclusion, instantiated, is a run of
   the linked program (call stack, no oracle) from pc 0 to [return] with 24 = sum over i<3 of g(i) + g(i+10);
   the fuelled runner computes the same outcome *)
Example program_linked_example :
  compile_components ex_opts ex_modes ex_prog = COk ex_comps /\
  ex_comps = CPragma 6 :: ex_L /\
  denote_k ex_opts ex_ctx (look_of ex_asg) [] [ex_f; ex_g] idW 100 None 100 (root_ast ex_main) [] ex_st0 = DExit (VI 24) ex_final /\
  pstar ex_lenv ex_L (PAt [] 0 [] ex_st0) (PExit (VI 24) ex_final) /\
  prun 400 ex_lenv ex_L (PAt [] 0 [] ex_st0) = PExit (VI 24) ex_final.
Proof.
  assert (EC : compile_components ex_opts ex_modes ex_prog = COk ex_comps) by (vm_compute; reflexivity).
  split; [exact EC|]. split; [vm_compute; reflexivity|].
  assert (ED : denote_k ex_opts ex_ctx (look_of ex_asg) [] [ex_f; ex_g] idW 100 None 100 (root_ast ex_main) [] ex_st0
               = DExit (VI 24) ex_final) by (vm_compute; reflexivity).
  split; [exact ED|]. split; [|vm_compute; reflexivity].
  destruct (program_linked_correct ex_opts ex_modes ex_prog ex_comps EC eq_refl eq_refl)
    as (crs & crs' & locals & asg & frs & frs2 & HR & HA & HF & HS & HC & T).
  { intros r [<-|[<-|[]]]; reflexivity. }
  vm_compute in HR. injection HR as <-.
  vm_compute in HA. injection HA as <- <- <-.
  vm_compute in HF. injection HF as <-.
  vm_compute in HS. injection HS as <-.
  match type of T with _ -> _ -> let L := ?l in _ => set (L0 := l) in T end.
  assert (EL : L0 = ex_L) by (vm_compute; reflexivity).
  cbv zeta in T.
  match type of T with ?A -> _ => assert (HV : A) end.
  { apply requested_valid_of_table. intros u i []. }
  specialize (T HV eq_refl).
  match type of T with ?A -> _ => assert (ND : A) end.
  { apply nodup_b_sound. vm_compute. reflexivity. }
  specialize (T ND).
  match type of T with ?A -> _ => assert (LK : A) end.
  { vm_compute. reflexivity. }
  destruct (T LK ex_ctx []) as [_ T2].
  specialize (T2 100 100 [] ex_st0 (LExit (VI 24) ex_final)).
  rewrite EL in T2.
  change (fs_subs _) with [ex_f; ex_g] in T2.
  match type of T2 with halt_of (denote_k _ _ ?lk _ _ _ _ _ _ _ _ _) = _ -> _ =>
    change lk with (look_of ex_asg) in T2 end.
  change (p_main ex_prog) with ex_main in T2.
  rewrite ED in T2. exact (T2 eq_refl Logic.I).
Qed.

(* what the call-aware source semantics of Src/DenoteCall.v says about the same program: the same result.
   (The scratch contents differ: [denote_c] binds parameters by value and restores the callee's local
   slots, the compiled code stores the arguments into the parameters' slots and leaves them there.) *)
Example program_denote_c_example :
  let ce := mkCEnv (Src.Denote.mkEnv ex_ctx (look_of ex_asg) [] [ex_f; ex_g] false main_param) (fun _ => []) in
  exists st', denote_c ce 100 None [] (with_implicit_return ex_main) [] ex_st0 = DExit (VI 24) st' /\
              s_trace st' = s_trace ex_final /\
              scratch_get (s_scratch st') 0 = scratch_get (s_scratch ex_final) 0 /\
              scratch_get (s_scratch st') 3 = VI 0 /\ scratch_get (s_scratch ex_final) 3 = VI 12.
Proof. eexists. split; [vm_compute; reflexivity|]. vm_compute. repeat split; reflexivity. Qed.

(* ---- recursion with a live local: fact(n) = if n == 0 then 1 else (x := n; fact(n - 1) * x) ----
   x and the parameter are local slots of fact; the recursive call is wrapped in spill code. *)
Definition ex_fact : routine :=
  mkRoutine 1 "fact" TUint [(false, 300%N)]
    (ESeq [ EIf (EOp O_eq [] TUint [EParam 0; x_int 0]) (EReturn (Some (x_int 1))) None;
            x_st 310 (EParam 0);
            EReturn (Some (ENary O_mul TUint [ECall 1 TUint [EOp O_minus [] TUint [EParam 0; x_int 1]]; x_ld 310])) ]) None.
Definition rec_main : expr := EReturn (Some (ENary O_add TUint [ECall 1 TUint [x_int 4]; x_int 1])).
Definition rec_prog : prog := mkProgram rec_main [ex_fact] [].
Definition rec_comps : list comp :=
  match compile_components ex_opts ex_modes rec_prog with COk c => c | CErr _ => [] end.
Definition rec_L : list comp := tl rec_comps.
Definition rec_asg : list (N * N) := match model_assignment ex_opts rec_prog with COk a => a | CErr _ => [] end.
Definition rec_lenv : Src.Denote.denv := lenv ex_ctx (look_of rec_asg) [] [ex_fact].
Definition rec_final : mstate :=
  match prun 600 rec_lenv rec_L (PAt [] 0 [] ex_st0) with PExit _ st => st | _ => ex_st0 end.

Example rec_text : assemble_all rec_comps =
  Some ["#pragma version 6"; "int 4"; "callsub fact_0"; "int 1"; "+"; "return"; "
// fact
fact_0:"; "store 0"; "load 0"; "int 0"; "=="; "bz fact_0_l2"; "int 1"; "retsub"; "fact_0_l2:"; "load 0"; "store 1";
        "load 0"; "int 1"; "-"; "load 0"; "load 1"; "uncover 2"; "callsub fact_0"; "cover 2"; "store 1"; "store 0";
        "load 1"; "*"; "retsub"].
Proof. vm_compute. reflexivity. Qed.

Definition rec_frs : list flat_routine :=
  match compile_rec 2 ex_opts rec_prog None rec_main [] with
  | COk crs => match assign_slots rec_prog crs with
               | COk (crs', _, _) => match fold_right flat_step (COk []) crs' with COk frs => frs | CErr _ => [] end
               | CErr _ => [] end
  | CErr _ => [] end.
Definition rec_locals : list (option N * list N) :=
  match model_assignment_locals ex_opts rec_prog with COk (_, l) => l | CErr _ => [] end.
Definition rec_W := W_spill ex_opts ex_ctx (look_of rec_asg) [] [ex_fact] 6 rec_prog rec_frs rec_locals.

(* the hypotheses of [program_linked_correct_spill] hold; its conclusion is a run of the linked program with
   the spill code to [return] with 25 = 4! + 1; the source-side semantics [denote_k] (a re-entrant call =
   the outcome of its spill segment) and the fuelled runner agree with it *)
Example program_linked_recursion_example :
  compile_components ex_opts ex_modes rec_prog = COk rec_comps /\
  rec_comps = CPragma 6 :: rec_L /\
  denote_k ex_opts ex_ctx (look_of rec_asg) [] [ex_fact] rec_W 100 None 100 (root_ast rec_main) [] ex_st0
    = DExit (VI 25) rec_final /\
  pstar rec_lenv rec_L (PAt [] 0 [] ex_st0) (PExit (VI 25) rec_final) /\
  prun 600 rec_lenv rec_L (PAt [] 0 [] ex_st0) = PExit (VI 25) rec_final.
Proof.
  assert (EC : compile_components ex_opts ex_modes rec_prog = COk rec_comps) by (vm_compute; reflexivity).
  split; [exact EC|]. split; [vm_compute; reflexivity|].
  assert (ED : denote_k ex_opts ex_ctx (look_of rec_asg) [] [ex_fact] rec_W 100 None 100 (root_ast rec_main) [] ex_st0
               = DExit (VI 25) rec_final) by (vm_compute; reflexivity).
  split; [exact ED|]. split; [|vm_compute; reflexivity].
  destruct (program_linked_correct_spill ex_opts ex_modes rec_prog rec_comps EC eq_refl eq_refl)
    as (crs & crs' & locals & asg & frs & frs2 & HR & HA & HF & HS & HC & T).
  { intros r [<-|[]]; reflexivity. }
  vm_compute in HR. injection HR as <-.
  vm_compute in HA. injection HA as <- <- <-.
  vm_compute in HF. injection HF as <-.
  vm_compute in HS. injection HS as <-.
  match type of T with _ -> let L := ?l in _ => set (L0 := l) in T end.
  assert (EL : L0 = rec_L) by (vm_compute; reflexivity).
  cbv zeta in T.
  match type of T with ?A -> _ => assert (HV : A) end.
  { apply requested_valid_of_table. intros u i []. }
  specialize (T HV).
  match type of T with ?A -> _ => assert (ND : A) end.
  { apply nodup_b_sound. vm_compute. reflexivity. }
  specialize (T ND).
  match type of T with ?A -> _ => assert (LK : A) end.
  { vm_compute. reflexivity. }
  destruct (T LK ex_ctx []) as [_ T2].
  specialize (T2 100 100 [] ex_st0 (LExit (VI 25) rec_final)).
  rewrite EL in T2.
  change (fs_subs _) with [ex_fact] in T2.
  change (p_main rec_prog) with rec_main in T2.
  match type of T2 with halt_of ?d = _ -> _ =>
    change d with (denote_k ex_opts ex_ctx (look_of rec_asg) [] [ex_fact] rec_W 100 None 100 (root_ast rec_main) [] ex_st0) in T2 end.
  rewrite ED in T2. exact (T2 eq_refl Logic.I).
Qed.
