(* Proofs/R3Proof.v — from_json (to_json m) = m for every well-formed non-empty table (Lit/R3.v). *)
From Coq Require Import ZArith List Bool Ascii String Lia.
From PV Require Import Lit.VLQ Lit.R3 Proofs.VLQProof.
Import ListNotations.
Local Open Scope Z_scope.

(* ---------------- split / join ---------------- *)
Lemma split_on_app_clean : forall c p r cur, ~ In c p ->
  split_on c (p ++ r) cur = split_on c r (rev p ++ cur).
Proof.
  intros c p. induction p as [|x p IH]; intros r cur H; [reflexivity|].
  cbn [app split_on].
  destruct (Ascii.eqb_spec x c) as [->|Hne]; [exfalso; apply H; left; reflexivity|].
  rewrite IH by (intros Hin; apply H; right; exact Hin).
  cbn [rev]. rewrite <- app_assoc. reflexivity.
Qed.

Lemma split_on_join : forall c l, l <> [] -> Forall (fun p => ~ In c p) l ->
  split_on c (join_with c l) [] = l.
Proof.
  intros c l. induction l as [|p l IH]; intros Hne HF; [congruence|].
  inversion HF as [|? ? Hp Hl]; subst.
  destruct l as [|q l].
  - cbn [join_with]. rewrite <- (app_nil_r p) at 1.
    rewrite split_on_app_clean by exact Hp. cbn [split_on]. rewrite app_nil_r, rev_involutive. reflexivity.
  - change (join_with c (p :: q :: l)) with (p ++ c :: join_with c (q :: l)).
    rewrite split_on_app_clean by exact Hp. cbn [split_on]. rewrite Ascii.eqb_refl.
    rewrite app_nil_r, rev_involutive. f_equal. apply IH; [discriminate|exact Hl].
Qed.

Lemma in_join_with : forall c x l, In x (join_with c l) -> x = c \/ exists p, In p l /\ In x p.
Proof.
  intros c x l. induction l as [|p l IH]; intros H; [destruct H|].
  destruct l as [|q l].
  - right. exists p. split; [left; reflexivity|exact H].
  - change (join_with c (p :: q :: l)) with (p ++ c :: join_with c (q :: l)) in H.
    apply in_app_or in H. destruct H as [H|[H|H]].
    + right. exists p. split; [left; reflexivity|exact H].
    + left. auto.
    + destruct (IH H) as [E|(p' & Hp' & Hx)]; [left; exact E|].
      right. exists p'. split; [right; exact Hp'|exact Hx].
Qed.

(* ---------------- text layer ---------------- *)
Lemma map_option_roundtrip : forall (A B : Type) (f : A -> option B) (g : B -> A) (l : list B),
  (forall x, In x l -> f (g x) = Some x) -> map_option f (map g l) = Some l.
Proof.
  intros A B f g l. induction l as [|x l IH]; intros H; [reflexivity|].
  cbn [map map_option]. rewrite H by (left; reflexivity).
  rewrite IH by (intros y Hy; apply H; right; exact Hy). reflexivity.
Qed.

Lemma render_line_no_semi : forall segs, ~ In ";"%char (render_line segs).
Proof.
  intros segs H. unfold render_line in H. apply in_join_with in H.
  destruct H as [H|(p & Hp & Hx)]; [discriminate|].
  apply in_map_iff in Hp. destruct Hp as (fs & <- & _).
  exact (vlq_encode_chars_no_sep fs ";"%char (or_intror eq_refl) Hx).
Qed.

Lemma parse_render_line : forall segs, Forall (fun fs => fs <> []) segs ->
  parse_line_text (render_line segs) = Some segs.
Proof.
  intros segs HF. destruct segs as [|fs segs]; [reflexivity|].
  unfold parse_line_text.
  assert (Hne : render_line (fs :: segs) <> []).
  { unfold render_line. cbn [map]. inversion HF as [|? ? Hfs _]; subst.
    pose proof (vlq_encode_chars_nonempty fs Hfs) as N.
    destruct (vlq_encode_chars fs) as [|a cs] eqn:E; [congruence|].
    destruct (map vlq_encode_chars segs); cbn [join_with app]; discriminate. }
  destruct (render_line (fs :: segs)) as [|a cs] eqn:E; [congruence|]. rewrite <- E.
  unfold render_line. rewrite split_on_join.
  - apply map_option_roundtrip. intros x _. apply vlq_chars_roundtrip.
  - discriminate.
  - apply Forall_forall. intros p Hp. apply in_map_iff in Hp. destruct Hp as (x & <- & _).
    apply vlq_encode_chars_no_sep. left. reflexivity.
Qed.

Lemma parse_render : forall ls, ls <> [] -> Forall (Forall (fun fs => fs <> [])) ls ->
  parse_text (render ls) = Some ls.
Proof.
  intros ls Hne HF. unfold parse_text, render.
  rewrite split_on_join.
  - apply map_option_roundtrip. intros x Hx. apply parse_render_line.
    rewrite Forall_forall in HF. apply HF. exact Hx.
  - destruct ls; [congruence|discriminate].
  - apply Forall_forall. intros p Hp. apply in_map_iff in Hp. destruct Hp as (x & <- & _).
    apply render_line_no_semi.
Qed.

(* ---------------- field layer ---------------- *)
Definition prefix (a b : list string) : Prop := exists t, b = a ++ t.

Lemma prefix_refl : forall a, prefix a a.
Proof. intros a. exists []. rewrite app_nil_r. reflexivity. Qed.

Lemma prefix_trans : forall a b c, prefix a b -> prefix b c -> prefix a c.
Proof. intros a b c [t ->] [u ->]. exists (t ++ u). rewrite app_assoc. reflexivity. Qed.

Lemma prefix_nth : forall a b i x, prefix a b -> nth_error a i = Some x -> nth_error b i = Some x.
Proof.
  intros a b i x [t ->] H. rewrite nth_error_app1; [exact H|].
  apply nth_error_Some. congruence.
Qed.

Lemma index_of_nth : forall k l i, index_of k l = Some i -> nth_error l i = Some k.
Proof.
  intros k l. induction l as [|x l IH]; intros i H; [discriminate|].
  cbn [index_of] in H. destruct (String.eqb_spec x k) as [->|Hne].
  - inversion H. reflexivity.
  - destruct (index_of k l) as [j|]; [|discriminate]. inversion H. cbn. apply IH. reflexivity.
Qed.

Lemma autoindex_spec : forall k tbl i tbl', autoindex k tbl = (i, tbl') ->
  prefix tbl tbl' /\ 0 <= i /\ nth_error tbl' (Z.to_nat i) = Some k.
Proof.
  intros k tbl i tbl' H. unfold autoindex in H.
  destruct (index_of k tbl) as [j|] eqn:E; inversion H; subst; clear H.
  - split; [apply prefix_refl|]. split; [lia|]. rewrite Nat2Z.id. apply index_of_nth. exact E.
  - split; [exists [k]; reflexivity|]. split; [lia|]. rewrite Nat2Z.id.
    rewrite nth_error_app2 by lia. rewrite Nat.sub_diag. reflexivity.
Qed.

Lemma print_seg_mono : forall w gcol s w1 ds, print_seg w gcol s = (w1, ds) ->
  prefix (ws_srcs w) (ws_srcs w1) /\ prefix (ws_names w) (ws_names w1).
Proof.
  intros w gcol s w1 ds H. unfold print_seg in H.
  destruct (g_ref s) as [[[src|] line col name]|].
  - destruct (autoindex src (ws_srcs w)) as [si srcs'] eqn:E1.
    destruct (autoindex_spec _ _ _ _ E1) as (P1 & _ & _).
    destruct name as [nm|].
    + destruct (autoindex nm (ws_names w)) as [ni names'] eqn:E2.
      destruct (autoindex_spec _ _ _ _ E2) as (P2 & _ & _).
      inversion H; subst; cbn. split; assumption.
    + inversion H; subst; cbn. split; [assumption|apply prefix_refl].
  - inversion H; subst. split; apply prefix_refl.
  - inversion H; subst. split; apply prefix_refl.
Qed.

Lemma print_segs_mono : forall l w gcol w2 fs, print_segs w gcol l = (w2, fs) ->
  prefix (ws_srcs w) (ws_srcs w2) /\ prefix (ws_names w) (ws_names w2).
Proof.
  induction l as [|s l IH]; intros w gcol w2 fs H; cbn [print_segs] in H.
  - inversion H; subst. split; apply prefix_refl.
  - destruct (print_seg w gcol s) as [w1 ds] eqn:E1.
    destruct (print_segs w1 (g_col s) l) as [w2' r] eqn:E2.
    inversion H; subst.
    destruct (print_seg_mono _ _ _ _ _ E1) as [A1 A2].
    destruct (IH _ _ _ _ E2) as [B1 B2].
    split; eapply prefix_trans; eassumption.
Qed.

Lemma print_lines_mono : forall m w w2 fs, print_lines w m = (w2, fs) ->
  prefix (ws_srcs w) (ws_srcs w2) /\ prefix (ws_names w) (ws_names w2).
Proof.
  induction m as [|ln m IH]; intros w w2 fs H; cbn [print_lines] in H.
  - inversion H; subst. split; apply prefix_refl.
  - destruct (print_segs w 0 ln) as [w1 f1] eqn:E1.
    destruct (print_lines w1 m) as [w2' r] eqn:E2.
    inversion H; subst.
    destruct (print_segs_mono _ _ _ _ _ E1) as [A1 A2].
    destruct (IH _ _ _ E2) as [B1 B2].
    split; eapply prefix_trans; eassumption.
Qed.

Lemma getitem_gen_nonneg : forall (A : Type) (t : list A) i, 0 <= i ->
  getitem_gen t i = nth_error t (Z.to_nat i).
Proof.
  intros A t i H. unfold getitem_gen. destruct (Z.ltb_spec i 0); [lia|].
  destruct (Z.ltb_spec i (Z.of_nat (List.length t))); [reflexivity|].
  symmetry. apply nth_error_None. lia.
Qed.

Lemma guarded_nth : forall (A : Type) (t : list A) i, 0 <= i ->
  (if i <? Z.of_nat (List.length t) then nth_error t (Z.to_nat i) else None) = nth_error t (Z.to_nat i).
Proof.
  intros A t i H. destruct (Z.ltb_spec i (Z.of_nat (List.length t))); [reflexivity|].
  symmetry. apply nth_error_None. lia.
Qed.

Lemma print_seg_fields : forall w gcol s w1 ds, print_seg w gcol s = (w1, ds) -> ds <> [].
Proof.
  intros w gcol s w1 ds H. unfold print_seg in H.
  destruct (g_ref s) as [[[src|] line col name]|].
  - destruct (autoindex src (ws_srcs w)) as [si srcs'].
    destruct name as [nm|].
    + destruct (autoindex nm (ws_names w)) as [ni names']. inversion H. discriminate.
    + inversion H. discriminate.
  - inversion H. discriminate.
  - inversion H. discriminate.
Qed.

Lemma seg_roundtrip : forall S N w gcol s w1 ds,
  print_seg w gcol s = (w1, ds) -> wf_seg s ->
  prefix (ws_srcs w1) S -> prefix (ws_names w1) N ->
  parse_seg S N (ws_ps w) gcol ds = Some (ws_ps w1, s).
Proof.
  intros S N w gcol s w1 ds H Hwf PS PN. unfold print_seg in H. unfold wf_seg in Hwf.
  destruct s as [c ref]. cbn [g_ref g_col] in *.
  destruct ref as [[[src|] line col name]|].
  - destruct (autoindex src (ws_srcs w)) as [si srcs'] eqn:E1.
    destruct (autoindex_spec _ _ _ _ E1) as (_ & Hsi & Hnth).
    destruct name as [nm|].
    + destruct (autoindex nm (ws_names w)) as [ni names'] eqn:E2.
      destruct (autoindex_spec _ _ _ _ E2) as (_ & Hni & Hnn).
      inversion H; subst; clear H. cbn [ws_srcs ws_names ws_ps] in *.
      cbn [app parse_seg].
      replace (ps_spos (ws_ps w) + (si - ps_spos (ws_ps w))) with si by lia.
      replace (ps_sline (ws_ps w) + (line - ps_sline (ws_ps w))) with line by lia.
      replace (ps_scol (ws_ps w) + (col - ps_scol (ws_ps w))) with col by lia.
      replace (ps_npos (ws_ps w) + (ni - ps_npos (ws_ps w))) with ni by lia.
      replace (gcol + (c - gcol)) with c by lia.
      destruct (Z.ltb_spec si 0); [lia|].
      pose proof (prefix_nth _ _ _ _ PN Hnn) as HN.
      destruct N as [|n0 N']; [destruct (Z.to_nat ni); discriminate|].
      rewrite getitem_gen_nonneg by exact Hni. rewrite HN.
      rewrite guarded_nth by exact Hsi.
      rewrite (prefix_nth _ _ _ _ PS Hnth). reflexivity.
    + inversion H; subst; clear H. cbn [ws_srcs ws_names ws_ps] in *.
      cbn [parse_seg].
      replace (ps_spos (ws_ps w) + (si - ps_spos (ws_ps w))) with si by lia.
      replace (ps_sline (ws_ps w) + (line - ps_sline (ws_ps w))) with line by lia.
      replace (ps_scol (ws_ps w) + (col - ps_scol (ws_ps w))) with col by lia.
      replace (gcol + (c - gcol)) with c by lia.
      destruct (Z.ltb_spec si 0); [lia|].
      rewrite guarded_nth by exact Hsi.
      rewrite (prefix_nth _ _ _ _ PS Hnth). reflexivity.
  - exfalso. apply Hwf. reflexivity.
  - inversion H; subst; clear H. cbn [parse_seg].
    replace (gcol + (c - gcol)) with c by lia. reflexivity.
Qed.

Lemma segs_roundtrip : forall l S N w gcol w2 fs,
  print_segs w gcol l = (w2, fs) -> Forall wf_seg l ->
  prefix (ws_srcs w2) S -> prefix (ws_names w2) N ->
  parse_segs S N (ws_ps w) gcol fs = Some (ws_ps w2, l).
Proof.
  induction l as [|s l IH]; intros S N w gcol w2 fs H Hwf PS PN; cbn [print_segs] in H.
  - inversion H; subst. reflexivity.
  - destruct (print_seg w gcol s) as [w1 ds] eqn:E1.
    destruct (print_segs w1 (g_col s) l) as [w2' r] eqn:E2.
    inversion H; subst; clear H. inversion Hwf as [|? ? Hs Hl]; subst.
    destruct (print_segs_mono _ _ _ _ _ E2) as [M1 M2].
    cbn [parse_segs].
    rewrite (seg_roundtrip S N w gcol s w1 ds E1 Hs (prefix_trans _ _ _ M1 PS) (prefix_trans _ _ _ M2 PN)).
    rewrite (IH S N w1 (g_col s) w2 r E2 Hl PS PN). reflexivity.
Qed.

Lemma lines_roundtrip : forall m S N w w2 fs,
  print_lines w m = (w2, fs) -> Forall (Forall wf_seg) m ->
  prefix (ws_srcs w2) S -> prefix (ws_names w2) N ->
  parse_lines S N (ws_ps w) fs = Some m.
Proof.
  induction m as [|ln m IH]; intros S N w w2 fs H Hwf PS PN; cbn [print_lines] in H.
  - inversion H; subst. reflexivity.
  - destruct (print_segs w 0 ln) as [w1 f1] eqn:E1.
    destruct (print_lines w1 m) as [w2' r] eqn:E2.
    inversion H; subst; clear H. inversion Hwf as [|? ? Hs Hl]; subst.
    destruct (print_lines_mono _ _ _ _ E2) as [M1 M2].
    cbn [parse_lines].
    rewrite (segs_roundtrip ln S N w 0 w1 f1 E1 Hs (prefix_trans _ _ _ M1 PS) (prefix_trans _ _ _ M2 PN)).
    rewrite (IH S N w1 w2 r E2 Hl PS PN). reflexivity.
Qed.

Lemma print_segs_fields : forall l w gcol w2 fs, print_segs w gcol l = (w2, fs) ->
  Forall (fun f => f <> []) fs.
Proof.
  induction l as [|s l IH]; intros w gcol w2 fs H; cbn [print_segs] in H.
  - inversion H. constructor.
  - destruct (print_seg w gcol s) as [w1 ds] eqn:E1.
    destruct (print_segs w1 (g_col s) l) as [w2' r] eqn:E2.
    inversion H; subst. constructor; [eapply print_seg_fields; eassumption|eapply IH; eassumption].
Qed.

Lemma print_lines_fields : forall m w w2 fs, print_lines w m = (w2, fs) ->
  Forall (Forall (fun f => f <> [])) fs /\ List.length fs = List.length m.
Proof.
  induction m as [|ln m IH]; intros w w2 fs H; cbn [print_lines] in H.
  - inversion H. split; [constructor|reflexivity].
  - destruct (print_segs w 0 ln) as [w1 f1] eqn:E1.
    destruct (print_lines w1 m) as [w2' r] eqn:E2.
    inversion H; subst. destruct (IH _ _ _ E2) as [A B]. split.
    + constructor; [eapply print_segs_fields; eassumption|exact A].
    + cbn. rewrite B. reflexivity.
Qed.

(* ---------------- dict view on ordered lines ---------------- *)
Lemma si_tail : forall x l, strictly_increasing (x :: l) = true -> strictly_increasing l = true.
Proof.
  intros x l H. destruct l as [|y l]; [reflexivity|].
  cbn [strictly_increasing] in H. apply andb_prop in H. destruct H as [_ H]. exact H.
Qed.

Lemma si_head_lt : forall l x, strictly_increasing (x :: l) = true -> Forall (fun y => x < y) l.
Proof.
  induction l as [|y l IH]; intros x H; [constructor|].
  pose proof H as H'. cbn [strictly_increasing] in H'. apply andb_prop in H'. destruct H' as [Hxy Hyl].
  apply Z.ltb_lt in Hxy. constructor; [exact Hxy|].
  specialize (IH y Hyl). eapply Forall_impl; [|exact IH]. cbn. intros a Ha. lia.
Qed.

Lemma dedup_increasing : forall l seen, strictly_increasing l = true ->
  (forall x y, In x l -> In y seen -> y < x) -> dedup_cols l seen = l.
Proof.
  induction l as [|x l IH]; intros seen H Hs; [reflexivity|].
  cbn [dedup_cols].
  destruct (existsb (Z.eqb x) seen) eqn:E.
  - apply existsb_exists in E. destruct E as (y & Hy & Exy). apply Z.eqb_eq in Exy. subst y.
    specialize (Hs x x (or_introl eq_refl) Hy). lia.
  - f_equal. apply IH; [eapply si_tail; exact H|].
    intros a b Ha Hb. destruct Hb as [<-|Hb].
    + pose proof (si_head_lt l x H) as F. rewrite Forall_forall in F. apply F. exact Ha.
    + apply Hs; [right; exact Ha|exact Hb].
Qed.

Lemma line_ordered_of_increasing : forall segs,
  strictly_increasing (map g_col segs) = true -> line_ordered segs = true.
Proof.
  intros segs H. unfold line_ordered. rewrite dedup_increasing; [exact H|exact H|].
  intros x y _ [].
Qed.

Lemma last_with_col_unique : forall c l s,
  (forall s', In s' l -> g_col s' = c -> s' = s) -> last_with_col c l s = s.
Proof.
  intros c l s. unfold last_with_col. induction l as [|a l IH]; intros H; [reflexivity|].
  cbn [fold_left]. destruct (Z.eqb_spec (g_col a) c) as [E|E].
  - rewrite (H a (or_introl eq_refl) E). apply IH. intros s' Hs'. apply H. right. exact Hs'.
  - apply IH. intros s' Hs'. apply H. right. exact Hs'.
Qed.

Lemma increasing_cols_inj : forall l a b, strictly_increasing (map g_col l) = true ->
  In a l -> In b l -> g_col a = g_col b -> a = b.
Proof.
  induction l as [|x l IH]; intros a b H Ha Hb E; [destruct Ha|].
  cbn [map] in H. pose proof (si_head_lt _ _ H) as F. rewrite Forall_forall in F.
  destruct Ha as [<-|Ha], Hb as [<-|Hb].
  - reflexivity.
  - specialize (F (g_col b) (in_map g_col l b Hb)). lia.
  - specialize (F (g_col a) (in_map g_col l a Ha)). lia.
  - apply IH; [eapply si_tail; exact H|exact Ha|exact Hb|exact E].
Qed.

Lemma view_line_of_increasing : forall segs,
  strictly_increasing (map g_col segs) = true -> view_line segs = segs.
Proof.
  intros segs H. unfold view_line.
  transitivity (map (fun s : seg => s) segs); [|apply map_id].
  apply map_ext_in. intros s Hs.
  apply last_with_col_unique. intros s' Hs' E.
  apply (increasing_cols_inj segs); assumption.
Qed.

(* ---------------- the round trip ---------------- *)
Lemma r3_roundtrip : forall m : r3table, m <> [] -> wf_table m ->
  let '(srcs, names, mappings) := r3_to_json m in
  r3_from_json srcs names mappings = Some m.
Proof.
  intros m Hne Hwf. unfold r3_to_json.
  destruct (print_lines ws0 m) as [w fs] eqn:E.
  unfold r3_from_json. rewrite list_ascii_of_string_of_list_ascii.
  destruct (print_lines_fields _ _ _ _ E) as [HF HL].
  rewrite parse_render; [|destruct m; [congruence|destruct fs; [discriminate|discriminate]]|exact HF].
  assert (W1 : Forall (Forall wf_seg) m).
  { unfold wf_table in Hwf. eapply Forall_impl; [|exact Hwf]. intros l [A _]. exact A. }
  assert (PS : prefix (ws_srcs w) (match ws_srcs w with [] => ["unknown"%string] | _ => ws_srcs w end)).
  { destruct (ws_srcs w); [exists ["unknown"%string]; reflexivity|apply prefix_refl]. }
  change ps0 with (ws_ps ws0).
  rewrite (lines_roundtrip m _ (ws_names w) ws0 w fs E W1 PS (prefix_refl _)).
  assert (O : r3_ordered m = true).
  { unfold r3_ordered. apply forallb_forall. intros l Hl.
    unfold wf_table in Hwf. rewrite Forall_forall in Hwf. destruct (Hwf l Hl) as [_ B].
    apply line_ordered_of_increasing. exact B. }
  rewrite O. cbv iota. apply f_equal.
  transitivity (map (fun l : list seg => l) m); [|apply map_id].
  apply map_ext_in. intros l Hl.
  unfold wf_table in Hwf. rewrite Forall_forall in Hwf. destruct (Hwf l Hl) as [_ B].
  apply view_line_of_increasing. exact B.
Qed.
