(* Proofs/ABIIndexAsm.v — where things are inside an ARC-4 head/tail encoding ([Spec.assemble]):
   position of a static member, of a bool's bit, of a dynamic member's head cell and tail; total length of a
   static encoding ([encode_static_len]). *)
From Coq Require Import List NArith Arith Ascii String Bool Lia.
From PV Require Import Base.Bytes Base.U64 AVM.Syntax AVM.Ops ABI.Types ABI.Spec
  Proofs.ABISpecProof Proofs.ABIIndexBits.
Import ListNotations.
Local Open Scope N_scope.

Definition nlen {A} (l : list A) : N := N.of_nat (List.length l).

(* ---------------------------------------------------------------------------------------- *)
(* a prefix pass of [asm]                                                                     *)
(* ---------------------------------------------------------------------------------------- *)
(* head bytes emitted, bools still pending, tail bytes, next tail offset *)
Fixpoint asm_pre (l : list eenc) (pend : list bool) (off : N) : option (bytes * list bool * bytes * N) :=
  match l with
  | [] => Some ([], pend, [], off)
  | EB b :: r => asm_pre r (b :: pend) off
  | ES bs :: r =>
      obind (asm_pre r [] off) (fun x =>
        match x with (h, p, t, o) => Some (pack_bools (rev' pend) ++ bs ++ h, p, t, o) end)
  | ED bs :: r =>
      obind (u16 off) (fun o16 =>
      obind (asm_pre r [] (off + blen bs)) (fun x =>
        match x with (h, p, t, o) => Some (pack_bools (rev' pend) ++ o16 ++ h, p, bs ++ t, o) end))
  end.

Lemma asm_app : forall l1 l2 pend off,
    asm (l1 ++ l2) pend off =
    obind (asm_pre l1 pend off) (fun x =>
      match x with (h1, p, t1, o) =>
        obind (asm l2 p o) (fun ht => Some (h1 ++ fst ht, t1 ++ snd ht)) end).
Proof.
  induction l1 as [|e r IH]; intros l2 pend off.
  - cbn. destruct (asm l2 pend off) as [[h t]|]; reflexivity.
  - destruct e as [b|bs|bs]; cbn [app asm asm_pre].
    + apply IH.
    + rewrite IH. destruct (asm_pre r [] off) as [[[[h p] t] o]|]; cbn [obind]; [|reflexivity].
      destruct (asm l2 p o) as [[h2 t2]|]; cbn [obind fst snd]; [|reflexivity].
      rewrite <- !app_assoc. reflexivity.
    + destruct (u16 off) as [o16|]; cbn [obind]; [|reflexivity].
      rewrite IH. destruct (asm_pre r [] (off + blen bs)) as [[[[h p] t] o]|]; cbn [obind]; [|reflexivity].
      destruct (asm l2 p o) as [[h2 t2]|]; cbn [obind fst snd]; [|reflexivity].
      rewrite <- !app_assoc. reflexivity.
Qed.

(* position bookkeeping on the element list: (bytes emitted before the pending run, pending bools) *)
Fixpoint spos (l : list eenc) (np pos : N) : N * N :=
  match l with
  | [] => (pos, np)
  | EB _ :: r => spos r (np + 1) pos
  | ES bs :: r => spos r 0 (pos + bool_seq_len np + blen bs)
  | ED _ :: r => spos r 0 (pos + bool_seq_len np + 2)
  end.

Fixpoint tails_of (l : list eenc) : bytes :=
  match l with
  | [] => []
  | ED bs :: r => bs ++ tails_of r
  | _ :: r => tails_of r
  end.

Definition is_ED (e : eenc) : bool := match e with ED _ => true | _ => false end.
Definition no_dyn (l : list eenc) : bool := forallb (fun e => negb (is_ED e)) l.

Lemma spos_app : forall l1 l2 np pos,
    spos (l1 ++ l2) np pos = spos l2 (snd (spos l1 np pos)) (fst (spos l1 np pos)).
Proof.
  induction l1 as [|e r IH]; intros l2 np pos; [reflexivity|].
  destruct e; cbn [app spos]; apply IH.
Qed.

Lemma spos_shift : forall l np pos, spos l np pos = (pos + fst (spos l np 0), snd (spos l np 0)).
Proof.
  induction l as [|e r IH]; intros np pos.
  - cbn. f_equal. lia.
  - destruct e; cbn [spos].
    + apply IH.
    + rewrite IH. rewrite (IH 0 (0 + bool_seq_len np + blen bs)). cbn [fst snd]. f_equal. lia.
    + rewrite IH. rewrite (IH 0 (0 + bool_seq_len np + 2)). cbn [fst snd]. f_equal. lia.
Qed.

Lemma tails_of_app : forall l1 l2, tails_of (l1 ++ l2) = tails_of l1 ++ tails_of l2.
Proof.
  induction l1 as [|e r IH]; intro l2; [reflexivity|].
  destruct e; cbn [app tails_of]; rewrite IH; [reflexivity|reflexivity|apply app_assoc].
Qed.

Lemma tails_of_no_dyn : forall l, no_dyn l = true -> tails_of l = [].
Proof.
  induction l as [|e r IH]; intro H; [reflexivity|].
  cbn in H. apply andb_true_iff in H as [He Hr]. destruct e; cbn in *; try discriminate; auto.
Qed.

Lemma nlen_cons : forall {A} (x : A) l, nlen (x :: l) = nlen l + 1.
Proof. intros. unfold nlen. cbn [List.length]. lia. Qed.

Lemma pack_rev'_len : forall p, blen (pack_bools (rev' p)) = bool_seq_len (nlen p).
Proof. intro p. rewrite pack_bools_len, rev'_rev, rev_length. reflexivity. Qed.

Lemma u16_len : forall n b, u16 n = Some b -> blen b = 2 /\ b = be_encode 2 n /\ n < 65536.
Proof.
  intros n b H. unfold u16 in H. destruct (N.ltb_spec n 65536); [|discriminate].
  assert (Hb : b = be_encode 2 n) by congruence. subst b. rewrite be_encode_len. auto.
Qed.

Lemma asm_pre_spec : forall l pend off h p t o,
    asm_pre l pend off = Some (h, p, t, o) ->
    blen h = fst (spos l (nlen pend) 0) /\ nlen p = snd (spos l (nlen pend) 0) /\
    t = tails_of l /\ o = off + blen t.
Proof.
  induction l as [|e r IH]; intros pend off h p t o H.
  - cbn in H. injection H as <- <- <- <-. cbn. repeat split; lia.
  - destruct e as [b|bs|bs]; cbn [asm_pre] in H.
    + apply IH in H. cbn [spos tails_of]. rewrite nlen_cons in H. exact H.
    + apply obind_some in H as [[[[h' p'] t'] o'] [H1 H2]]. injection H2 as <- <- <- <-.
      apply IH in H1 as (A & B & C & D). cbn [spos tails_of].
      rewrite spos_shift. cbn [fst snd]. change (nlen []) with 0 in A, B.
      rewrite !blen_app, pack_rev'_len, A. repeat split; try assumption. lia.
    + apply obind_some in H as [o16 [Ho H]]. apply obind_some in H as [[[[h' p'] t'] o'] [H1 H2]].
      injection H2 as <- <- <- <-. apply u16_len in Ho as (Ho & _ & _).
      apply IH in H1 as (A & B & C & D). cbn [spos tails_of].
      rewrite spos_shift. cbn [fst snd]. change (nlen []) with 0 in A, B.
      rewrite !blen_app, pack_rev'_len, A, Ho. subst t'.
      repeat split; try assumption; try reflexivity; lia.
Qed.

Lemma asm_spec : forall l pend off h t,
    asm l pend off = Some (h, t) -> blen h = head_len l (nlen pend) /\ t = tails_of l.
Proof.
  induction l as [|e r IH]; intros pend off h t H.
  - cbn in H. injection H as <- <-. cbn. split; [apply pack_rev'_len | reflexivity].
  - destruct e as [b|bs|bs]; cbn [asm] in H.
    + apply IH in H. cbn [head_len tails_of]. rewrite nlen_cons in H. exact H.
    + apply obind_some in H as [[h' t'] [H1 H2]]. injection H2 as <- <-. cbn [fst snd].
      apply IH in H1 as [A B]. cbn [head_len tails_of]. change (nlen []) with 0 in A.
      rewrite !blen_app, pack_rev'_len, A. split; [lia | exact B].
    + apply obind_some in H as [o16 [Ho H]]. apply obind_some in H as [[h' t'] [H1 H2]].
      injection H2 as <- <-. cbn [fst snd]. apply u16_len in Ho as (Ho & _ & _).
      apply IH in H1 as [A B]. cbn [head_len tails_of]. change (nlen []) with 0 in A.
      rewrite !blen_app, pack_rev'_len, A, Ho. split; [lia | f_equal; exact B].
Qed.

(* whatever follows, the pending bools are flushed in one packed group that starts with them *)
Lemma asm_flush : forall l pend off h t,
    asm l pend off = Some (h, t) -> exists more h3, h = pack_bools (rev pend ++ more) ++ h3.
Proof.
  induction l as [|e r IH]; intros pend off h t H.
  - cbn in H. injection H as <- <-. exists [], []. rewrite rev'_rev, !app_nil_r. reflexivity.
  - destruct e as [b|bs|bs]; cbn [asm] in H.
    + apply IH in H as (more & h3 & ->). exists (b :: more), h3. cbn [rev]. rewrite <- app_assoc. reflexivity.
    + apply obind_some in H as [[h' t'] [_ H2]]. injection H2 as <- <-.
      exists [], (bs ++ h'). rewrite rev'_rev, app_nil_r. reflexivity.
    + apply obind_some in H as [o16 [_ H]]. apply obind_some in H as [[h' t'] [_ H2]]. injection H2 as <- <-.
      exists [], (o16 ++ h'). rewrite rev'_rev, app_nil_r. reflexivity.
Qed.

(* ---------------------------------------------------------------------------------------- *)
(* the three access lemmas                                                                    *)
(* ---------------------------------------------------------------------------------------- *)
Lemma assemble_split : forall es enc l1 e l2,
    assemble es = Some enc -> es = l1 ++ e :: l2 ->
    exists h1 p t1 h2 t2,
      asm_pre l1 [] (head_len es 0) = Some (h1, p, t1, head_len es 0 + blen t1) /\
      asm (e :: l2) p (head_len es 0 + blen t1) = Some (h2, t2) /\
      enc = (h1 ++ h2) ++ (t1 ++ t2) /\
      blen h1 = fst (spos l1 0 0) /\ nlen p = snd (spos l1 0 0) /\ t1 = tails_of l1 /\
      blen (h1 ++ h2) = head_len es 0.
Proof.
  intros es enc l1 e l2 H ->. unfold assemble in H.
  apply obind_some in H as [[h t] [H1 H2]]. injection H2 as <-. cbn [fst snd].
  pose proof (asm_spec _ _ _ _ _ H1) as [Hh _]. change (nlen []) with 0 in Hh.
  rewrite asm_app in H1.
  apply obind_some in H1 as [[[[h1 p] t1] o] [Hp H1]].
  apply obind_some in H1 as [[h2 t2] [Ha H1]]. injection H1 as <- <-. cbn [fst snd] in *.
  pose proof (asm_pre_spec _ _ _ _ _ _ _ Hp) as (A & B & C & D). change (nlen []) with 0 in A, B.
  subst o. exists h1, p, t1, h2, t2. repeat split; assumption.
Qed.

(* a static member sits at its head position *)
Lemma access_static : forall es enc l1 bs l2,
    assemble es = Some enc -> es = l1 ++ ES bs :: l2 ->
    exists a c, enc = a ++ bs ++ c /\
                blen a = fst (spos l1 0 0) + bool_seq_len (snd (spos l1 0 0)).
Proof.
  intros es enc l1 bs l2 H E.
  destruct (assemble_split _ _ _ _ _ H E) as (h1 & p & t1 & h2 & t2 & _ & Ha & -> & A & B & _ & _).
  cbn [asm] in Ha. apply obind_some in Ha as [[h' t'] [_ H2]]. injection H2 as <- <-.
  exists (h1 ++ pack_bools (rev' p)), (h' ++ t1 ++ t').
  split; [rewrite <- !app_assoc; reflexivity|].
  rewrite blen_app, pack_rev'_len, A, B. reflexivity.
Qed.

(* a bool member is bit (8 * run start + position in run) *)
Lemma access_bool : forall es enc l1 b l2,
    assemble es = Some enc -> es = l1 ++ EB b :: l2 ->
    get_bit_bytes enc (8 * fst (spos l1 0 0) + snd (spos l1 0 0)) = Some (b2N b).
Proof.
  intros es enc l1 b l2 H E.
  destruct (assemble_split _ _ _ _ _ H E) as (h1 & p & t1 & h2 & t2 & _ & Ha & -> & A & B & _ & _).
  cbn [asm] in Ha. apply asm_flush in Ha as (more & h3 & ->).
  rewrite <- A, <- B. unfold blen, nlen.
  replace (8 * N.of_nat (List.length h1) + N.of_nat (List.length p))
    with (N.of_nat (8 * List.length h1 + List.length p)) by lia.
  rewrite get_bit_bytes_bit_at. rewrite <- !app_assoc. rewrite bit_at_app.
  assert (Hl : (List.length p < List.length (rev (b :: p) ++ more))%nat).
  { rewrite app_length, rev_length. cbn [List.length]. lia. }
  rewrite bit_at_app_l.
  2:{ pose proof (pack_bools_len (rev (b :: p) ++ more)) as L. unfold blen, bool_seq_len in L.
      assert (8 * ((N.of_nat (List.length (rev (b :: p) ++ more)) + 7) / 8) > N.of_nat (List.length (rev (b :: p) ++ more)) + 7 - 8).
      { pose proof (N.div_mod (N.of_nat (List.length (rev (b :: p) ++ more)) + 7) 8 ltac:(lia)) as D.
        pose proof (N.mod_lt (N.of_nat (List.length (rev (b :: p) ++ more)) + 7) 8 ltac:(lia)). lia. }
      lia. }
  rewrite pack_bools_bit by exact Hl. cbn [option_map]. do 2 f_equal.
  cbn [rev]. rewrite <- app_assoc. rewrite app_nth2 by (rewrite rev_length; lia).
  rewrite rev_length, Nat.sub_diag. reflexivity.
Qed.

(* a dynamic member: its head cell holds the offset of its tail; the tail is followed by the tails of
   the later dynamic members *)
Lemma access_dyn : forall es enc l1 bs l2,
    assemble es = Some enc -> es = l1 ++ ED bs :: l2 ->
    let o := head_len es 0 + blen (tails_of l1) in
    o < 65536 /\
    slice enc (fst (spos l1 0 0) + bool_seq_len (snd (spos l1 0 0))) 2 = Some (be_encode 2 o) /\
    exists a, enc = a ++ bs ++ tails_of l2 /\ blen a = o.
Proof.
  intros es enc l1 bs l2 H E o.
  destruct (assemble_split _ _ _ _ _ H E) as (h1 & p & t1 & h2 & t2 & _ & Ha & -> & A & B & C & Hh).
  cbn [asm] in Ha. apply obind_some in Ha as [o16 [Ho Ha]].
  apply obind_some in Ha as [[h' t'] [Hr H2]]. injection H2 as <- <-.
  apply u16_len in Ho as (Ho2 & -> & Hlt). subst t1. fold o in Hlt, Hr.
  split; [exact Hlt|]. split.
  - unfold slice. eapply bsub_mid' with (a := h1 ++ pack_bools (rev' p)) (c := h' ++ tails_of l1 ++ bs ++ t').
    + rewrite <- !app_assoc. reflexivity.
    + rewrite blen_app, pack_rev'_len, A, B. reflexivity.
    + rewrite be_encode_len. reflexivity.
  - apply asm_spec in Hr as [_ ->].
    exists ((h1 ++ pack_bools (rev' p) ++ be_encode 2 o ++ h') ++ tails_of l1). split.
    + rewrite <- !app_assoc. reflexivity.
    + rewrite blen_app. unfold o. rewrite Hh. reflexivity.
Qed.

(* total length *)
Lemma assemble_len : forall es enc, assemble es = Some enc -> blen enc = head_len es 0 + blen (tails_of es).
Proof.
  intros es enc H. unfold assemble in H. apply obind_some in H as [[h t] [H1 H2]]. injection H2 as <-.
  apply asm_spec in H1 as [A ->]. cbn [fst snd]. rewrite blen_app, A. reflexivity.
Qed.

Lemma head_len_spos : forall l np, head_len l np = fst (spos l np 0) + bool_seq_len (snd (spos l np 0)).
Proof.
  induction l as [|e r IH]; intro np.
  - cbn. lia.
  - destruct e; cbn [head_len spos].
    + apply IH.
    + rewrite spos_shift. cbn [fst snd]. rewrite IH. lia.
    + rewrite spos_shift. cbn [fst snd]. rewrite IH. lia.
Qed.

(* the last member, when static, is followed by the tails only *)
Lemma access_static_last : forall es enc l1 bs,
    assemble es = Some enc -> es = l1 ++ [ES bs] ->
    exists a, enc = a ++ bs ++ tails_of l1 /\
              blen a = fst (spos l1 0 0) + bool_seq_len (snd (spos l1 0 0)).
Proof.
  intros es enc l1 bs H E.
  destruct (assemble_split _ _ _ _ _ H E) as (h1 & p & t1 & h2 & t2 & _ & Ha & -> & A & B & C & _).
  cbn in Ha. injection Ha as <- <-. subst t1.
  exists (h1 ++ pack_bools (rev' p)).
  split; [rewrite <- !app_assoc, !app_nil_r; reflexivity|].
  rewrite blen_app, pack_rev'_len, A, B. reflexivity.
Qed.

Lemma spos_fst_ge : forall l np pos, pos <= fst (spos l np pos).
Proof. intros. rewrite spos_shift. cbn. lia. Qed.

(* nothing dynamic fits in zero head bytes *)
Lemma spos_zero_no_dyn : forall l np,
    fst (spos l np 0) + bool_seq_len (snd (spos l np 0)) = 0 -> no_dyn l = true.
Proof.
  induction l as [|e r IH]; intros np H; [reflexivity|].
  change (no_dyn (e :: r)) with (negb (is_ED e) && no_dyn r)%bool.
  destruct e as [b|bs|bs]; cbn [spos is_ED negb andb] in *.
  - eapply IH; exact H.
  - rewrite spos_shift in H. cbn [fst snd] in H. eapply (IH 0). lia.
  - pose proof (spos_fst_ge r 0 (0 + bool_seq_len np + 2)). lia.
Qed.
