(* Proofs/ABIEncodeOps.v — the primitive operations of ABI/Encode.v ARE the AVM opcodes
   (AVM/Ops.v exec_pure), and elementary facts about them. *)
From Coq Require Import List NArith ZArith Ascii String Bool Lia.
From PV Require Import Base.Bytes Base.U64 AVM.Syntax AVM.Ops ABI.Types ABI.Spec ABI.Encode.
Import ListNotations.
Local Open Scope N_scope.

(* ---- each x_* function is the opcode ---- *)
Lemma itob_is_avm : forall n r, exec_pure O_itob [] (VI n :: r) = POk (VB (x_itob n) :: r).
Proof. reflexivity. Qed.

(* Suffix(b, Int(s)) is compiled to `extract s 0` (s <= 255, version >= 5) *)
Lemma suffix_is_avm_extract : forall b s r,
    exec_pure O_extract [AInt s; AInt 0] (VB b :: r) =
    match x_suffix b s with Some x => POk (VB x :: r) | None => PFail end.
Proof. reflexivity. Qed.

Lemma setbit_is_avm : forall b i v r,
    exec_pure O_setbit [] (VI v :: VI i :: VB b :: r) =
    match x_setbit b i v with Some x => POk (VB x :: r) | None => PFail end.
Proof. intros. unfold x_setbit. simpl. destruct (v <=? 1); [destruct (set_bit_bytes b i v)|]; reflexivity. Qed.

Lemma setbyte_is_avm : forall b i v r,
    exec_pure O_setbyte [] (VI v :: VI i :: VB b :: r) =
    match x_setbyte b i v with Some x => POk (VB x :: r) | None => PFail end.
Proof. intros. unfold x_setbyte. simpl. destruct ((v <=? 255) && (i <? blen b)); reflexivity. Qed.

Lemma not_is_avm : forall n r, exec_pure O_logic_not [] (VI n :: r) = POk (VI (x_not n) :: r).
Proof. reflexivity. Qed.

Lemma concat_is_avm : forall a b r,
    exec_pure O_concat [] (VB b :: VB a :: r) =
    match x_concat (Some MAX_BYTES) a b with Some x => POk (VB x :: r) | None => PFail end.
Proof. intros. unfold x_concat. simpl. unfold okb. destruct (blen (a ++ b) <=? MAX_BYTES); reflexivity. Qed.

Lemma len_is_avm : forall b r, exec_pure O_len [] (VB b :: r) = POk (VI (blen b) :: r).
Proof. reflexivity. Qed.

(* the range assert of uint_set: `load; int 2^size; <; assert` *)
Lemma uint_set_expr_is_avm : forall size n r,
    size <> 64 ->
    match exec_pure O_lt [] (VI (2 ^ size) :: VI n :: r) with
    | POk s => exec_pure O_assert_ [] s
    | x => x
    end = match uint_set_expr size n with Some _ => POk r | None => PFail end.
Proof.
  intros size n r H. unfold uint_set_expr. apply N.eqb_neq in H. rewrite H. simpl.
  unfold okbool. destruct (n <? 2 ^ size); reflexivity.
Qed.

(* the length assert of StaticBytes.set(Expr): `int n; load; len; ==; assert` *)
Lemma static_bytes_assert_is_avm : forall n v r,
    match exec_pure O_eq [] (VI (blen v) :: VI n :: r) with
    | POk s => exec_pure O_assert_ [] s
    | x => x
    end = match static_bytes_set_expr n v with Some _ => POk r | None => PFail end.
Proof. intros. unfold static_bytes_set_expr. simpl. unfold okbool. destruct (n =? blen v); reflexivity. Qed.

(* ---- be_encode ---- *)
Lemma be_encode_length : forall k n, List.length (be_encode k n) = k.
Proof.
  induction k as [|k IH]; intro n; simpl; [reflexivity|]. rewrite app_length, IH. simpl. lia.
Qed.

Lemma blen_app : forall a b, blen (a ++ b) = blen a + blen b.
Proof. intros. unfold blen. rewrite app_length. lia. Qed.

Lemma blen_be_encode : forall k n, blen (be_encode k n) = N.of_nat k.
Proof. intros. unfold blen. rewrite be_encode_length. reflexivity. Qed.

(* be_encode (k + m) n = be_encode k (n / 256^m) ++ be_encode m n *)
Lemma be_encode_split : forall m k n,
    be_encode (k + m) n = be_encode k (n / 256 ^ N.of_nat m) ++ be_encode m n.
Proof.
  induction m as [|m IH]; intros k n.
  - rewrite Nat.add_0_r. simpl. rewrite N.div_1_r, app_nil_r. reflexivity.
  - replace (k + S m)%nat with (S (k + m)) by lia. cbn [be_encode]. rewrite IH.
    rewrite app_assoc. f_equal. f_equal.
    rewrite Nat2N.inj_succ, N.pow_succ_r'. rewrite N.div_div by (try apply N.pow_nonzero; discriminate).
    reflexivity.
Qed.

Lemma bsub_suffix : forall (a b : bytes), bsub (a ++ b) (blen a) (blen (a ++ b)) = Some b.
Proof.
  intros a b. unfold bsub. rewrite blen_app.
  assert (H1 : (blen a <=? blen a + blen b) = true) by (apply N.leb_le; lia).
  rewrite H1, N.leb_refl. simpl.
  replace (blen a + blen b - blen a) with (blen b) by lia.
  unfold blen. rewrite !Nat2N.id. rewrite skipn_app, skipn_all, Nat.sub_diag. simpl.
  rewrite firstn_all. reflexivity.
Qed.

(* Suffix(Itob(n), Int(8 - k)) = the k low-order bytes, big-endian *)
Lemma suffix_itob : forall k n, (k <= 8)%nat ->
    x_suffix (x_itob n) (N.of_nat (8 - k)) = Some (be_encode k n).
Proof.
  intros k n H. unfold x_suffix, x_itob.
  replace 8%nat with ((8 - k) + k)%nat at 1 3 by lia.
  rewrite be_encode_split.
  rewrite <- (blen_be_encode (8 - k) (n / 256 ^ N.of_nat k)) at 1.
  apply bsub_suffix.
Qed.

Lemma uint_encode_16 : forall n, uint_encode 16 n = Some (be_encode 2 n).
Proof. intro n. unfold uint_encode. simpl. exact (suffix_itob 2 n ltac:(lia)). Qed.

Lemma uint_encode_32 : forall n, uint_encode 32 n = Some (be_encode 4 n).
Proof. intro n. unfold uint_encode. simpl. exact (suffix_itob 4 n ltac:(lia)). Qed.

Lemma uint_encode_64 : forall n, uint_encode 64 n = Some (be_encode 8 n).
Proof. reflexivity. Qed.

Lemma uint_encode_8 : forall n, n < 256 -> uint_encode 8 n = Some (be_encode 1 n).
Proof.
  intros n H. unfold uint_encode, x_setbyte. simpl.
  assert (Hle : (n <=? 255) = true) by (apply N.leb_le; lia). rewrite Hle. reflexivity.
Qed.

Lemma uint_encode_8_fails : forall n, 256 <= n -> uint_encode 8 n = None.
Proof.
  intros n H. unfold uint_encode, x_setbyte. simpl.
  assert (Hle : (n <=? 255) = false) by (apply N.leb_gt; lia). rewrite Hle. reflexivity.
Qed.

(* ---- concat ---- *)
Lemma x_concat_none : forall a b, x_concat None a b = Some (a ++ b).
Proof. reflexivity. Qed.

Lemma concat_all_none : forall parts, concat_all None parts = Some (List.concat parts).
Proof.
  intros [|p r]; [reflexivity|]. simpl.
  revert p. induction r as [|x r IH]; intro p; simpl; [rewrite app_nil_r; reflexivity|].
  rewrite IH. rewrite app_assoc. reflexivity.
Qed.

(* with a cap, an answer is the uncapped answer *)
Lemma x_concat_mono : forall l a b c, x_concat (Some l) a b = Some c -> x_concat None a b = Some c.
Proof. intros l a b c H. unfold x_concat in *. destruct (blen (a ++ b) <=? l); [exact H | discriminate]. Qed.

Lemma x_concat_within : forall l a b, blen (a ++ b) <= l -> x_concat (Some l) a b = Some (a ++ b).
Proof. intros l a b H. unfold x_concat. apply N.leb_le in H. rewrite H. reflexivity. Qed.
