(* Proofs/RouterArgsGlue.v — C09: the MethodReturn sequence, the contract description, and the storage
   view of the two glue flavours (scratch slots / frame cells of the caster subroutine). *)
From Coq Require Import List Arith NArith Ascii String Bool Lia.
From PV Require Import Base.Bytes Base.Sexp ABI.Types ABI.Spec ABI.Descr Gen.Tables Router.Args
  Proofs.ABISpecProof Proofs.ABIDescrProof Proofs.RouterArgsLists Proofs.RouterArgsProof.
Import ListNotations.

(* ------------------------------------------------------------------------------------------ *)
(* return logging                                                                              *)
(* ------------------------------------------------------------------------------------------ *)
(* RETURN_HASH_PREFIX as read from pyteal/config.py on this run is the ARC-4 constant 151f7c75 *)
Lemma return_prefix_value :
  return_prefix = [ascii_of_N 21; ascii_of_N 31; ascii_of_N 124; ascii_of_N 117].
Proof. reflexivity. Qed.

Section Return.
  Variable member : list ty -> nat -> bytes -> option bytes.

  (* the arguments the handler is called with, when the decoding steps get through *)
  Definition glue_bounds (fl : flavour) (s : msig) (args : list bytes) (group : list gtx) (gi : nat) : option (list bound) :=
    let has_out := match s_ret s with Some _ => true | None => false end in
    match exec_gsteps member args group gi [] (decode_steps fl has_out (s_params s)) with
    | Some cs => read_args cs (map (arg_cell fl has_out) (seq 0 (List.length (s_params s))))
    | None => None
    end.

  (* A non-void method that is approved: the handler ran exactly once on the decoded arguments, and the
     log of the call is the handler's own log followed by exactly ONE more entry — the return prefix
     followed by the ARC-4 encoding of the value the handler produced; nothing is logged after it. *)
  Theorem return_logged_once_main : forall fl s h args group gi t logs,
    s_ret s = Some t ->
    run_glue member fl s h args group gi = Approved logs ->
    exists bounds hl r e,
      glue_bounds fl s args group gi = Some bounds /\
      h bounds = Some (hl, Some r) /\
      arc4_encode t r = Some e /\
      logs = hl ++ [return_prefix ++ e].
  Proof.
    intros fl s h args group gi t logs Hret H. unfold run_glue in H. unfold glue_bounds. rewrite Hret in *.
    destruct (exec_gsteps member args group gi [] (decode_steps fl true (s_params s))) as [cs |]; [| discriminate H].
    destruct (read_args cs (map (arg_cell fl true) (seq 0 (List.length (s_params s))))) as [bounds |]; [| discriminate H].
    destruct (h bounds) as [[hl res] |] eqn:Eh; [| discriminate H].
    destruct res as [r |]; [| discriminate H]. unfold method_return in H.
    destruct (arc4_encode t r) as [e |] eqn:Ee; [| discriminate H]. cbn [option_map] in H. inversion H; subst.
    exists bounds, hl, r, e. repeat split; auto.
  Qed.

  (* conversely: whenever decoding gets through, the handler succeeds with a value of the declared
     type, the call is approved with that log *)
  Theorem return_logged_complete_main : forall fl s h args group gi t bounds hl r e,
    s_ret s = Some t ->
    glue_bounds fl s args group gi = Some bounds ->
    h bounds = Some (hl, Some r) -> arc4_encode t r = Some e ->
    run_glue member fl s h args group gi = Approved (hl ++ [return_prefix ++ e]).
  Proof.
    intros fl s h args group gi t bounds hl r e Hret Hb Hh He. unfold run_glue. unfold glue_bounds in Hb.
    rewrite Hret in *.
    destruct (exec_gsteps member args group gi [] (decode_steps fl true (s_params s))) as [cs |]; [| discriminate Hb].
    rewrite Hb, Hh. unfold method_return. rewrite He. reflexivity.
  Qed.

  (* a void method logs nothing of its own *)
  Theorem void_logs_nothing_main : forall fl s h args group gi logs,
    s_ret s = None ->
    run_glue member fl s h args group gi = Approved logs ->
    exists bounds res, glue_bounds fl s args group gi = Some bounds /\ h bounds = Some (logs, res).
  Proof.
    intros fl s h args group gi logs Hret H. unfold run_glue in H. unfold glue_bounds. rewrite Hret in *.
    destruct (exec_gsteps member args group gi [] (decode_steps fl false (s_params s))) as [cs |]; [| discriminate H].
    destruct (read_args cs (map (arg_cell fl false) (seq 0 (List.length (s_params s))))) as [bounds |]; [| discriminate H].
    destruct (h bounds) as [[hl res] |] eqn:Eh; [| discriminate H]. inversion H; subst. eauto.
  Qed.
End Return.

(* ------------------------------------------------------------------------------------------ *)
(* contract description vs dispatched selectors                                                 *)
(* ------------------------------------------------------------------------------------------ *)
Lemma map_ext_in' : forall {A B} (f g : A -> B) l, (forall x, f x = g x) -> map f l = map g l.
Proof. intros A B f g l H. induction l as [| x r IH]; cbn; [reflexivity |]. now rewrite H, IH. Qed.

(* PyTeal's signature string is the ARC-4 one *)
Lemma pyteal_sig_is_arc4 : forall s, pyteal_sig_str s = arc4_sig_str s.
Proof.
  intro s. unfold pyteal_sig_str, arc4_sig_str, sig_str_with.
  rewrite (map_ext_in' py_str type_str _ py_str_type_str).
  destruct (s_ret s) as [t |]; cbn [ret_str]; [now rewrite py_str_type_str | reflexivity].
Qed.

(* the signature a client derives from the contract's method entry is the one the program dispatches on *)
Lemma spec_sig_is_method_sig : forall r, spec_sig_str (spec_of r) = dispatched_sig_str r.
Proof. intros [[n ps rt] doc [m |] d]; reflexivity. Qed.

Lemma spec_of_name : forall r, ms_name (spec_of r) = reg_name r.
Proof. intros [[n ps rt] doc [m |] d]; reflexivity. Qed.
Lemma spec_of_args : forall r, ms_args (spec_of r) = map py_str (s_params (r_sig r)).
Proof. intros [[n ps rt] doc [m |] d]; reflexivity. Qed.
Lemma spec_of_returns : forall r, ms_returns (spec_of r) = ret_str py_str (s_ret (r_sig r)).
Proof. intros [[n ps rt] doc [m |] d]; reflexivity. Qed.
Lemma spec_of_desc : forall r, ms_desc (spec_of r) = reg_desc r.
Proof. intros [[n ps rt] doc [m |] [d |]]; reflexivity. Qed.

Section Contract.
  Variable hash : string -> bytes.

  (* FULL: every registration, with or without an overriding name *)
  Theorem contract_selectors_agree_main : forall registered,
    (* the contract lists exactly the registered methods, in order, under their registered names, with their types *)
    map ms_name (contract_methods registered) = map reg_name registered /\
    map ms_args (contract_methods registered) = map (fun r => map type_str (s_params (r_sig r))) registered /\
    map ms_returns (contract_methods registered) = map (fun r => ret_str type_str (s_ret (r_sig r))) registered /\
    map ms_desc (contract_methods registered) = map reg_desc registered /\
    (* and the selector a client computes from each entry is the one the program dispatches on,
       which is the ARC-4 selector of name(argtypes)rettype *)
    contract_selectors hash registered = dispatched_selectors hash registered /\
    dispatched_selectors hash registered = map (fun r => firstn 4 (hash (arc4_sig_str (registered_sig r)))) registered.
  Proof.
    intro registered. unfold contract_methods, contract_selectors, dispatched_selectors, contract_methods.
    rewrite !map_map.
    split.
    { apply map_ext_in'. apply spec_of_name. }
    split.
    { apply map_ext_in'. intro r. rewrite spec_of_args. apply map_ext_in'. apply py_str_type_str. }
    split.
    { apply map_ext_in'. intro r. rewrite spec_of_returns. destruct (s_ret (r_sig r)); cbn [ret_str]; [apply py_str_type_str | reflexivity]. }
    split.
    { apply map_ext_in'. apply spec_of_desc. }
    split.
    { apply map_ext_in'. intro r. unfold selector_of_str. now rewrite spec_sig_is_method_sig. }
    apply map_ext_in'. intro r. unfold selector_of_str, dispatched_sig_str. now rewrite pyteal_sig_is_arc4.
  Qed.
End Contract.

(* the dispatched signature is always the ARC-4 signature under the REGISTERED name *)
Theorem dispatched_is_registered_main : forall r, dispatched_sig_str r = arc4_sig_str (registered_sig r).
Proof. intro r. apply pyteal_sig_is_arc4. Qed.

(* the case that used to be refuted (before /repo 330bd50): add_method_handler(add, overriding_name="foo") *)
Definition ex_override : registration := mkReg (mkSig "add" [TUint 64] (Some (TUint 64))) None (Some "foo"%string) None.
Example override_contract_follows_registered_name :
  spec_sig_str (spec_of ex_override) = "foo(uint64)uint64"%string /\
  dispatched_sig_str ex_override = "foo(uint64)uint64"%string.
Proof. vm_compute. split; reflexivity. Qed.

(* ------------------------------------------------------------------------------------------ *)
(* rejected registration attempts leave no trace; every dispatched signature is listed once      *)
(* ------------------------------------------------------------------------------------------ *)
Section AttemptsProofs.
  Variable hash : string -> bytes.

  Theorem rejected_attempt_leaves_contract_main : forall st a,
    accepts hash st a = None ->
    attempt_step hash st a = st /\ contract_methods (attempt_step hash st a) = contract_methods st.
  Proof. intros st a H. unfold attempt_step. rewrite H. split; reflexivity. Qed.

  Theorem accepted_attempt_appends_main : forall st a r,
    accepts hash st a = Some r ->
    contract_methods (attempt_step hash st a) = contract_methods st ++ [spec_of r].
  Proof.
    intros st a r H. unfold attempt_step, contract_methods. rewrite H. rewrite map_app. reflexivity.
  Qed.

  Lemma accepts_fresh : forall st a r,
    accepts hash st a = Some r -> ~ In (dispatched_sig_str r) (map dispatched_sig_str st).
  Proof.
    intros st a r H. destruct a as [r0 never |]; [| discriminate H]. cbn [accepts] in H.
    destruct never; [discriminate H |].
    destruct (existsb (fun r' => String.eqb (dispatched_sig_str r') (dispatched_sig_str r0)) st) eqn:E; [discriminate H |].
    destruct (existsb (fun r' => bytes_eqb (reg_selector hash r') (reg_selector hash r0)) st); [discriminate H |].
    inversion H; subst r0. intro Hin. apply in_map_iff in Hin. destruct Hin as [r' [Heq Hin]].
    assert (existsb (fun r'0 => String.eqb (dispatched_sig_str r'0) (dispatched_sig_str r)) st = true).
    { apply existsb_exists. exists r'. split; [exact Hin | apply String.eqb_eq; exact Heq]. }
    congruence.
  Qed.

  Lemma NoDup_snoc : forall {A} (l : list A) x, NoDup l -> ~ In x l -> NoDup (l ++ [x]).
  Proof.
    intros A l x Hl Hx. apply NoDup_app_intro; [exact Hl | constructor; [intros [] | constructor] |].
    intros y Hy [-> | []]. exact (Hx Hy).
  Qed.

  (* whatever sequence of attempts (accepted or rejected) a router has seen, its contract lists every
     dispatched signature exactly once *)
  Theorem contract_lists_each_once_main : forall l st,
    NoDup (map dispatched_sig_str st) ->
    NoDup (map (fun m => spec_sig_str m) (contract_methods (run_attempts hash st l))).
  Proof.
    intro l. induction l as [| a l IH]; intros st Hst; cbn [run_attempts fold_left].
    - unfold contract_methods. rewrite map_map.
      erewrite map_ext; [exact Hst |]. intro r. apply spec_sig_is_method_sig.
    - apply IH. unfold attempt_step. destruct (accepts hash st a) as [r |] eqn:E; [| exact Hst].
      rewrite map_app. cbn [map]. apply NoDup_snoc; [exact Hst | eapply accepts_fresh; eauto].
  Qed.
End AttemptsProofs.
