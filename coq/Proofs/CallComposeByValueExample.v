(* Proofs/CallComposeByValueExample.v — property C02: non-vacuity of [call_correct_nonrecursive_by_value]:
   main = a loop calling g (an If with an early Return); every hypothesis holds, including the semantic one
   ([disciplined]: g returns exactly one value, for every fuel, argument list and state — by case analysis
   over the evaluation), and the conclusion is the run of the linked program to the value [denote_c]
   computes. *)
From Coq Require Import List Arith NArith String Bool Lia.
From PV Require Import Base.Bytes Base.U64 Base.Sexp AVM.Syntax AVM.Ops AVM.Machine Src.Expr Src.Denote Src.DenoteCall
  Comp.Blocks Comp.Lower Comp.Passes Comp.GraphSem Comp.LinearSem Comp.LinkedSem Comp.Compile Comp.Assemble
  Proofs.LowerShape Proofs.NormalizeLowered Proofs.SlotComposeAssign Proofs.FlattenCorrect
  CallX.Denote CallX.EndToEnd
  Proofs.CallComposeLink Proofs.CallComposeMain Proofs.CallComposeLayout Proofs.CallComposeSpill
  Proofs.CallComposeSpillPass Proofs.CallComposeProgram Proofs.CallComposeAcyclic Proofs.CallComposeExamples
  Proofs.CallComposeByValue Proofs.CallComposeByValueFinal.
Import ListNotations.
Local Open Scope list_scope.

(* acc := 0; i := 0; while i < 8 { acc := acc + g(i); i := i + 1 }; return acc *)
Definition bv_main : expr :=
  ESeq [ x_st 256 (x_int 0); x_st 257 (x_int 0);
         EWhile (EOp O_lt [] TUint [x_ld 257; x_int 8])
                (ESeq [ x_st 256 (ENary O_add TUint [x_ld 256; ECall 2 TUint [x_ld 257]]);
                        x_st 257 (ENary O_add TUint [x_ld 257; x_int 1]) ]);
         EReturn (Some (x_ld 256)) ].
Definition bv_prog : prog := mkProgram bv_main [ex_g] [].
Definition bv_comps : list comp :=
  match compile_components ex_opts ex_modes bv_prog with COk c => c | CErr _ => [] end.
Definition bv_L : list comp := tl bv_comps.
Definition bv_asg : list (N * N) := match model_assignment ex_opts bv_prog with COk a => a | CErr _ => [] end.
Definition bv_look := look_of bv_asg.
Definition bv_rank (i : N) : nat := if N.eqb i 2 then 1 else 0.
Definition bv_PL : list N := [301%N].

Ltac rdx H := repeat (progress (unfold exec_op, oki, okbool in H; cbn -[N.ltb N.leb N.add N.sub N.mul fits64 nth_N] in H;
  repeat match goal with E : nth_N _ _ = _ |- _ => rewrite E in H end)).
Ltac crunch H :=
  rdx H;
  repeat (match type of H with
          | context [if ?c then _ else _] => destruct c eqn:?
          | context [match ?x with _ => _ end] => is_var x; destruct x
          end; rdx H);
  try discriminate H; try (injection H as <- <-; eexists; reflexivity).

(* g leaves exactly its result, whatever the fuel, the arguments and the state *)
Lemma g_disciplined cx look msel : disciplined cx look msel [ex_g].
Proof.
  intros r f argv st s' st' [<-|[]] H. cbn [r_ret ex_g].
  change (body_with_return ex_g) with (r_body ex_g) in H.
  destruct (nth_N argv 0) as [[a|b]|] eqn:En.
  all: destruct f as [|f]; [crunch H|].
  all: destruct f as [|f]; [crunch H|].
  all: destruct f as [|f]; [crunch H|].
  all: destruct f as [|f]; [crunch H|].
  all: destruct f as [|f]; [crunch H|].
  all: destruct f as [|f]; [crunch H|].
  all: crunch H.
Qed.

Lemma bv_params_ok : params_ok bv_look [ex_g] bv_rank bv_PL.
Proof.
  split; [|split].
  - intros r b s [<-|[]] [E|[]]. injection E as <- <-. split; [reflexivity|left; reflexivity].
  - intros r [<-|[]]. cbn. repeat constructor. intros [].
  - intros r r' p p' [<-|[]] [<-|[]] _ _ _. reflexivity.
Qed.

Lemma bv_bodies_ok : bodies_ok bv_look [ex_g] bv_rank bv_PL.
Proof. intros r [<-|[]]. vm_compute. reflexivity. Qed.

Definition bv_st0 : mstate := init_state [] [] [].
Definition bv_ce : cenv := ceC ex_ctx bv_look [] [ex_g].
Definition bv_stC : mstate :=
  match denote_c bv_ce 100 None [] (root_ast bv_main) [] bv_st0 with DExit _ st => st | _ => bv_st0 end.

(* sum over i < 8 of g(i): 1+2+3+4+5+6 + 1 + 2 = 24 *)
Example by_value_example :
  compile_components ex_opts ex_modes bv_prog = COk bv_comps /\
  bv_comps = CPragma 6 :: bv_L /\
  denote_c bv_ce 100 None [] (root_ast bv_main) [] bv_st0 = DExit (VI 24) bv_stC /\
  exists stK, pstar (lenv ex_ctx bv_look [] [ex_g]) bv_L (PAt [] 0 [] bv_st0) (PExit (VI 24) stK) /\
              Rel bv_look bv_PL stK bv_stC /\
              s_trace stK = s_trace bv_stC /\
              (* acc and i are the same cells in both; the parameter slot of g differs *)
              scratch_get (s_scratch stK) 0 = scratch_get (s_scratch bv_stC) 0 /\
              scratch_get (s_scratch stK) 1 = scratch_get (s_scratch bv_stC) 1.
Proof.
  assert (EC : compile_components ex_opts ex_modes bv_prog = COk bv_comps) by (vm_compute; reflexivity).
  split; [exact EC|]. split; [vm_compute; reflexivity|].
  assert (ED : denote_c bv_ce 100 None [] (root_ast bv_main) [] bv_st0 = DExit (VI 24) bv_stC) by (vm_compute; reflexivity).
  split; [exact ED|].
  destruct (call_correct_nonrecursive_by_value ex_opts ex_modes bv_prog bv_comps bv_rank bv_PL EC eq_refl eq_refl eq_refl)
    as (crs & crs' & locals & asg & frs & HR & HA & HF & T).
  { intros r [<-|[]]; reflexivity. }
  { intros u i []. }
  vm_compute in HR. injection HR as <-.
  vm_compute in HA. injection HA as <- <- <-.
  vm_compute in HF. injection HF as <-.
  match type of T with acyclic _ ?f -> _ => set (frs0 := f) in T end.
  assert (Ha : acyclic bv_rank frs0).
  { intros fr r Hin Es c Hc. unfold frs0 in Hin. destruct Hin as [<-|[<-|[]]]; cbn [fr_sub] in Es; [discriminate Es|].
    injection Es as <-. vm_compute in Hc. destruct Hc. }
  destruct (T Ha) as [_ T2]. clear T.
  match type of T2 with NoDup (labels_of ?l) -> _ => assert (EL : l = bv_L) by (vm_compute; reflexivity) end.
  rewrite EL in T2.
  assert (ND : NoDup (labels_of bv_L)) by (apply nodup_b_sound; vm_compute; reflexivity).
  assert (LK : forallb (fun fr => linkable (fr_ops fr)) frs0 = true) by (vm_compute; reflexivity).
  specialize (T2 ND LK ex_ctx []).
  change (fs_subs frs0) with [ex_g] in T2.
  match type of T2 with params_ok ?lk _ _ _ -> _ => change lk with bv_look in T2 end.
  specialize (T2 bv_params_ok bv_bodies_ok (g_disciplined ex_ctx bv_look []) 2%nat).
  assert (Ok : okb bv_look [ex_g] bv_rank bv_PL 2 (root_ast (p_main bv_prog)) = true) by (vm_compute; reflexivity).
  destruct (T2 Ok 100%nat bv_st0 (VI 24) bv_stC ED) as (stK & Run & RK).
  exists stK. split; [exact Run|]. split; [exact RK|].
  destruct RK as [(_ & _ & _ & _ & _ & Etr) SC].
  split; [symmetry; exact Etr|].
  split; apply SC; unfold Pn; vm_compute; intros [E|[]]; discriminate E.
Qed.
