(* Proofs/HistorySession.v — the session machine (Hist/Session.v): every step is a run of an event
   tree, so the event lemmas transfer; witnesses of the refuted statements (property C11). *)
From Coq Require Import NArith List Bool Lia Permutation.
From PV Require Import Hist.Events Hist.Assign Hist.Session Proofs.HistoryEvents Proofs.HistoryAssign Proofs.HistoryCompose.
Import ListNotations.
Local Open Scope N_scope.

Lemma step_is_run m st o :
  exists es t', op_events st o = (es, t') /\
    s_g (fst (step m st o)) =
      match o with
      | OResetMarker => set_marker (r_st (run_evs m es (s_g st))) None
      | OOpaque ds du dl => let g := r_st (run_evs m es (s_g st)) in
          mkG (g_slot g + ds) (g_sub g + du) (match g_marker g with Some (tg, n) => Some (tg, n + dl) | None => None end)
      | _ => r_st (run_evs m es (s_g st))
      end.
Proof.
  unfold step. destruct (op_events st o) as [es t'] eqn:E. exists es, t'. split; [reflexivity|].
  destruct o; reflexivity.
Qed.

(* counters never go down, whatever the call and however it ends *)
Lemma step_monotone m st o :
  g_slot (s_g st) <= g_slot (s_g (fst (step m st o))) /\ g_sub (s_g st) <= g_sub (s_g (fst (step m st o))).
Proof.
  destruct (step_is_run m st o) as [es [t' [_ H]]]. rewrite H.
  pose proof (run_evs_monotone m es (s_g st)) as [H1 H2].
  destruct o; cbn [g_slot g_sub set_marker]; lia.
Qed.

(* with try/finally in _frame_pointer_context the marker is clear after every call *)
Lemma step_marker_fixed st o :
  g_marker (s_g st) = None -> g_marker (s_g (fst (step Fixed st o))) = None.
Proof.
  intros Hm. destruct (step_is_run Fixed st o) as [es [t' [_ H]]]. rewrite H.
  pose proof (marker_fixed_none es (s_g st) Hm) as Hk.
  destruct o; cbn [g_marker set_marker]; try exact Hk; try rewrite Hk; reflexivity.
Qed.

Lemma session_marker_fixed ops : forall st,
  g_marker (s_g st) = None ->
  Forall (fun x => g_marker (fst x) = None) (run_session Fixed st ops).
Proof.
  induction ops as [|o rest IH]; intros st Hm; cbn [run_session]; [constructor|].
  pose proof (step_marker_fixed st o Hm) as H1.
  destruct (step Fixed st o) as [st' raised] eqn:E. cbn [fst] in H1.
  constructor; [exact H1 | apply IH; exact H1].
Qed.

Lemma session_marker_fixed_init ops :
  Forall (fun x => g_marker (fst x) = None) (run_session Fixed init_sstate ops).
Proof. apply session_marker_fixed. reflexivity. Qed.

(* ---------------- witnesses ---------------- *)
(* a subroutine with one argument whose body raises after one ScratchVar *)
Definition bad_spec : subspec := mkSpec [AVal] false [DVar; DRaise] false [].
(* define it; compile a program calling it at a frame-pointer version; then build abi.Uint64() in an
   unrelated main routine *)
Definition witness_ops : list op :=
  [ODefSub 1 bad_spec; OCompile [1] true false []; OBuild [DAbi]].

Lemma witness_session :
  map (fun x => (g_slot (fst x), g_marker (fst x), snd x)) (run_session Faithful init_sstate witness_ops) =
  [(256, None, false); (257, Some (1, 0), true); (257, Some (1, 1), false)].
Proof. vm_compute. reflexivity. Qed.

Lemma witness_session_fixed :
  map (fun x => (g_slot (fst x), g_marker (fst x), snd x)) (run_session Fixed init_sstate witness_ops) =
  [(256, None, false); (257, None, true); (258, None, false)].
Proof. vm_compute. reflexivity. Qed.

Lemma marker_restored_refuted_proof :
  exists (ops : list op) (g : gst) (raised : bool),
    last (run_session Faithful init_sstate ops) (init_gst, false) = (g, raised) /\ g_marker g <> None.
Proof.
  exists [ODefSub 1 bad_spec; OCompile [1] true false []]. eexists. eexists.
  split; [vm_compute; reflexivity | discriminate].
Qed.

(* the same at the level of programs: after that history the unrelated program [abi.Uint64()] has no
   scratch slot at all (it got a frame variable), in a fresh process it has one *)
Definition witness_history : list evs := [one (ECtx (Some (1, 0)) (one ERaise))].
Definition witness_program : program := mkP (one EAbi) [0%nat] [] 0 (fun _ => []) 0.

Lemma compile_history_independent_refuted_proof :
  exists (h : list evs) (p : program),
    calls_are_subs p (r_tr (run_evs Faithful (p_events p) init_gst)) /\
    ~ same_view (compile_view Faithful p (run_history Faithful h init_gst)) (compile_view Faithful p init_gst).
Proof.
  exists witness_history, witness_program. split.
  - intros n c H. destruct H.
  - intros [_ [H _]]. specialize (H 0 0). destruct H as [_ H].
    assert (Hx : exists o, so_oid o = 0 /\ assigned (v_slots (compile_view Faithful witness_program init_gst)) o 0).
    { exists (mkSlot 0 256 false). split; [reflexivity|]. vm_compute. left; reflexivity. }
    destruct (H Hx) as [o [_ Ho]]. vm_compute in Ho. exact Ho.
Qed.

(* two distinct slot objects with the same id: which one gets which number is decided by the
   iteration order of the set *)
Lemma assign_tie_order_dependent_proof :
  exists (all all' : list slotobj) (o : slotobj) (k : N),
    Permutation all all' /\ assigned (assign_slots all) o k /\ ~ assigned (assign_slots all') o k.
Proof.
  exists [mkSlot 0 256 false; mkSlot 1 256 false], [mkSlot 1 256 false; mkSlot 0 256 false], (mkSlot 0 256 false), 0.
  split; [apply perm_swap|]. split.
  - vm_compute. left; reflexivity.
  - vm_compute. intros [H|[H|[]]]; discriminate.
Qed.

(* Router.compile_program twice, scratch convention, methods echo(a, *, output) and add(a, b, *, output).
   First call: ids 256 257 for echo's decoded argument and output_temp, 258 259 for echo's declaration
   (evaluated by store_into while the AST is built, and cached), 260 261 262 for add's, 263 264 265 for
   add's declaration; the cleaning context rewinds to 256.  Second call: both declarations are cached,
   the build hands out 256..260 — 258 and 259 now name echo's cached declaration slots AND add's decoded
   arguments: live objects with equal ids (then C11_assign_tie_order_dependent applies). *)
Definition echo_spec : subspec := mkSpec [AAbi] true [] false [].
Definition add_spec : subspec := mkSpec [AAbi; AAbi] true [] false [].
Definition router_ops : list op :=
  [ODefSub 1 echo_spec; ODefSub 2 add_spec;
   ORouter [mkM 1 1 true; mkM 2 2 true] [] false []; ORouter [mkM 1 1 true; mkM 2 2 true] [] false []].

Lemma router_recompile_traces m :
  run_session_tr m init_sstate router_ops =
  [[TSub 0]; [TSub 1];
   [TSlot 256; TSlot 257; TSlot 258; TSlot 259; TSlot 260; TSlot 261; TSlot 262; TSlot 263; TSlot 264; TSlot 265];
   [TSlot 256; TSlot 257; TSlot 258; TSlot 259; TSlot 260]].
Proof. destruct m; vm_compute; reflexivity. Qed.

Lemma router_recompile_reuses_cached_ids_proof :
  exists (ops : list op) (first second : list titem) (i : N),
    nth_error (run_session_tr Faithful init_sstate ops) 2 = Some first /\
    nth_error (run_session_tr Faithful init_sstate ops) 3 = Some second /\
    (* position 2 of the first build is echo's cached declaration; position 2 of the second is add's new argument *)
    nth_error first 2 = Some (TSlot i) /\ nth_error second 2 = Some (TSlot i).
Proof.
  exists router_ops. rewrite router_recompile_traces. do 2 eexists. exists 258.
  repeat split; reflexivity.
Qed.

(* ---------------- non-vacuity ---------------- *)
Example shift_example :
  let h := [evs_of_list [EAlloc; EAlloc; EDefSub]; one (EProbe (evs_of_list [EAlloc; EAlloc]))] in
  let p := evs_of_list [EAlloc; EDefSub; EClean (one EAlloc); EAlloc] in
  g_marker (run_history Faithful h init_gst) = None /\
  r_tr (run_evs Faithful p init_gst) = [TSlot 256; TSub 0; TSlot 257; TSlot 257] /\
  r_tr (run_evs Faithful p (run_history Faithful h init_gst)) = [TSlot 258; TSub 1; TSlot 259; TSlot 259].
Proof. vm_compute. repeat split. Qed.

Example rename_example :
  let all := [mkSlot 0 300 false; mkSlot 1 7 true; mkSlot 2 256 false; mkSlot 3 0 true] in
  assign_slots all = AssignOk [(mkSlot 3 0 true, 0); (mkSlot 1 7 true, 7); (mkSlot 2 256 false, 1); (mkSlot 0 300 false, 2)] /\
  assign_slots (map (rename_slot (fun i => 3 * i + 1000)) all) =
    AssignOk [(mkSlot 3 0 true, 0); (mkSlot 1 7 true, 7); (mkSlot 2 1768 false, 1); (mkSlot 0 1900 false, 2)].
Proof. vm_compute. split; reflexivity. Qed.

Example order_example :
  (* main(9) calls 3 and 1; 1 calls 2; 3 calls 2; ids: 1->10, 2->5, 3->7 *)
  let key := fun o => match o with 1 => 10 | 2 => 5 | 3 => 7 | _ => 0 end in
  let calls := fun o => match o with 9 => [3; 1] | 1 => [2] | 3 => [2] | _ => [] end in
  corder 20 key calls 9 [] = [9; 3; 2; 1].
Proof. vm_compute. reflexivity. Qed.
