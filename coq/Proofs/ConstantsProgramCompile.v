(* Proofs/ConstantsProgramCompile.v — C12, whole-program part 5: the texts the COMPILER MODEL prints.
   Comp/Compile.v has no assembleConstants option (copts has no such field; compile_model is the option-off
   pipeline).  [compile_model_constants] below is compileTeal's option-on path written over the same
   [compile_components]: version check (compiler.py: assembleConstants requires version >= 3), then
   createConstantBlocks on the flattened, verified component list (the list WITHOUT the pragma, which compileTeal
   prints itself in front), then assembly of every component.  Nothing existing is edited. *)
From Coq Require Import List Arith NArith Ascii String Bool Lia.
From PV Require Import Base.Bytes Base.Sexp AVM.Syntax AVM.Machine AVM.Parse
  Src.Expr Comp.Lower Comp.Compile Comp.Assemble Comp.Constants Comp.ConstantsSpec
  Proofs.C18Text Proofs.StageEText Proofs.ConstantsProof Proofs.ConstantsSim
  Proofs.ConstantsProgramMach Proofs.ConstantsProgramLink Proofs.ConstantsProgram Proofs.ConstantsProgramText.
Import ListNotations.
Local Open Scope string_scope.

Definition compile_model_constants (addr_hash : bytes -> bytes) (sig_hash : string -> bytes)
           (o : copts) (modes : opc -> bool * bool) (p : prog) : cres (list string) :=
  match compile_components o modes p with
  | CErr e => CErr e
  | COk (CPragma v :: comps) =>
      if (o_version o <? assemble_constants_min_version)%N then CErr ErrInput else
      match create_constant_blocks addr_hash sig_hash comps with
      | Some out =>
          match assemble_all (CPragma v :: out) with
          | Some lines => COk lines
          | None => CErr ErrInternal
          end
      | None => CErr ErrInternal           (* some extract*Value raised *)
      end
  | COk _ => CErr ErrInternal
  end.

(* compile_components always puts the pragma in front *)
Lemma compile_components_pragma o modes p cs :
  compile_components o modes p = COk cs -> exists comps, cs = CPragma (o_version o) :: comps.
Proof.
  unfold compile_components. intros H.
  repeat match type of H with
         | (if ?x then _ else _) = _ => destruct x; try discriminate H
         | match ?x with _ => _ end = _ => destruct x; try discriminate H
         end.
  injection H as <-. eexists. reflexivity.
Qed.

Section Compiled.
Variable addr_hash : bytes -> bytes.
Variable sig_hash : string -> bytes.
Variable msel : list (string * bytes).
Hypothesis Hmsel : msel_consistent sig_hash msel.

(* the two texts compile_model / compile_model_constants print for one program *)
Theorem constants_compiled_text_equiv o modes p lines comps out P :
  compile_model o modes p = COk lines ->
  compile_components o modes p = COk (CPragma (o_version o) :: comps) ->
  (assemble_constants_min_version <= o_version o)%N ->
  create_constant_blocks addr_hash sig_hash comps = Some out ->
  printable msel comps = true -> single_tok comps = true ->
  input_ok id_sigma msel comps -> no_block_ops comps = true -> indexes_encodable out = true ->
  parse_program msel (program_text lines) = Some P ->
  exists lines' P',
    compile_model_constants addr_hash sig_hash o modes p = COk lines' /\
    parse_program msel (program_text lines') = Some P' /\
    exists pro body ib bb,
      out = (pro ++ body)%list /\
      blocks_after id_sigma msel pro [] [] = Some (ib, bb) /\
      Forall2 (site_ok id_sigma msel ib bb) comps body /\
      pr_version P' = pr_version P /\
      (forall cx st k,
         run (k + List.length pro) cx P' (init_mach st) =
         run k cx P' (mkM (List.length pro) [] [] false ib bb st)) /\
      (forall cx m m', lockrel (List.length pro) ib bb m m' ->
         match step cx P m, step cx P' m' with
         | Running a, Running a' => lockrel (List.length pro) ib bb a a'
         | Done v a, Done v' a' => v' = v /\ lockrel (List.length pro) ib bb a a'
         | _, _ => False
         end) /\
      (forall cx st k,
         run_sim (List.length pro) ib bb (run k cx P (init_mach st)) (run (k + List.length pro) cx P' (init_mach st))).
Proof.
  intros Hm Hcc Hv Hc Hp Hs Hok Hnb Hie HP.
  unfold compile_model in Hm. rewrite Hcc in Hm.
  destruct (assemble_all (CPragma (o_version o) :: comps)) as [l0|] eqn:A; [|discriminate Hm]. injection Hm as ->.
  destruct (constants_text_equiv addr_hash sig_hash msel Hmsel (o_version o) comps out lines P Hc Hp Hs Hok Hnb Hie A HP)
    as (lines' & P' & A' & HP' & pro & body & ib & bb & E & Hb & Hf & Hver & Hpre & _ & Hstep & Hrun).
  exists lines', P'. split.
  - unfold compile_model_constants. rewrite Hcc.
    destruct (N.ltb_spec (o_version o) assemble_constants_min_version) as [Hlt|_]; [lia|].
    rewrite Hc, A'. reflexivity.
  - split; [exact HP'|]. exists pro, body, ib, bb. repeat (split; [assumption|]). exact Hrun.
Qed.
End Compiled.
