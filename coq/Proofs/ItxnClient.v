(* Proofs/ItxnClient.v — C14: the two readings of the ARC-4 client convention agree.
   [client_encode] (Router/Args.v) is the C09 specification: one particular client (it reuses foreign-array
   entries and passes the sender / the called application as index 0), validated on every C09 run against
   algosdk's AtomicTransactionComposer.  [valid_call] (Router/Itxn.v) is the relation C14 is stated with.
   Whatever [client_encode] produces is a [valid_call]: the relation admits the reference client. *)
From Coq Require Import List Arith NArith Ascii String Bool Lia.
From PV Require Import Base.Bytes Base.Sexp AVM.Syntax ABI.Types ABI.Spec ABI.Descr
  Router.Args Proofs.RouterArgsProof Router.Itxn Proofs.ItxnWalk.
Import ListNotations.
Local Open Scope string_scope.
Local Open Scope list_scope.

(* a group transaction of the C09 specification (TypeEnum + opaque body) as a field list *)
Definition itx_of_gtx (x : gtx) : itx := [("TypeEnum", VI (g_type x)); ("Body", VB (g_body x))].

Definition karg_of (a : carg) : karg :=
  match a with
  | CVal v => KVal v
  | CTxn x => KTxn (itx_of_gtx x)
  | CAccount a => KAccount a
  | CAsset n => KAsset n
  | CApp n => KApp n
  end.

Definition icall_of (c : call) : icall :=
  mkICall (c_args c) (c_accounts c) (c_assets c) (c_apps c) (map itx_of_gtx (c_txns c)).

Definition tr (pa : ty * carg) : ty * karg := (fst pa, karg_of (snd pa)).

Lemma ktxn_type_ok_gtx : forall k x, ktxn_type_ok k (itx_of_gtx x) = txn_type_ok k x.
Proof. intros k x. unfold ktxn_type_ok, txn_type_ok. destruct (kind_enum k); reflexivity. Qed.

Lemma plain_not_ref : forall t, is_plain_ty t = true -> is_ref_ty t = false.
Proof. intros t H. destruct t; cbn in *; try reflexivity; discriminate. Qed.

Lemma rels_valid : forall sender app fs' (c : icall) ps w xs,
  ic_accounts c = f_accounts fs' -> ic_assets c = f_assets fs' -> ic_apps c = f_apps fs' ->
  Forall2 (wire_rel sender app fs') (filter (fun pa => not_txn_ty (fst pa)) ps) w ->
  Forall2 txn_rel (filter (fun pa => is_txn_ty (fst pa)) ps) xs ->
  exists idxs, wire (map tr ps) idxs = Some w /\
               refs_resolve sender app c (map tr ps) idxs /\
               ktxns (map tr ps) = map itx_of_gtx xs.
Proof.
  intros sender app fs' c ps. induction ps as [|[t a] r IH]; intros w xs Ea Es Ep Hw Hx.
  - cbn in Hw, Hx. inversion Hw. inversion Hx. exists []. cbn. auto.
  - cbn [filter fst] in Hw, Hx. unfold not_txn_ty in Hw at 1.
    destruct (is_txn_ty t) eqn:Et; cbn [negb] in Hw.
    + (* a transaction argument *)
      inversion Hx as [|pa x r' xs' Hrel Hx' E1 E2]. subst.
      destruct Hrel as [k [Heq Hok]]. inversion Heq. subst t a.
      destruct (IH w xs' Ea Es Ep Hw Hx') as [idxs [I1 [I2 I3]]].
      exists idxs. cbn [map]. change (tr (TTxn k, CTxn x)) with (TTxn k, KTxn (itx_of_gtx x)).
      cbn [wire kind_fits refs_resolve ktxns].
      rewrite ktxn_type_ok_gtx, Hok. cbn [negb]. rewrite I3. auto.
    + inversion Hw as [|pa tv r' w' Hrel Hw' E1 E2]. subst.
      destruct (IH w' xs Ea Es Ep Hw' Hx) as [idxs [I1 [I2 I3]]].
      inversion Hrel as [t0 v Hp E1 E2 | addr i Hr E1 E2 | id i Hr E1 E2 | id i Hr E1 E2]; subst.
      * exists idxs. cbn [map]. change (tr (t, CVal v)) with (t, KVal v).
        rewrite wire_plain by (auto using plain_not_ref). rewrite I1. cbn [option_map].
        split; [reflexivity|]. split; [|exact I3].
        destruct t; try exact I2; cbn in Hp; discriminate.
      * exists (i :: idxs). cbn [map]. change (tr (TRef RAccount, CAccount addr)) with (TRef RAccount, KAccount addr).
        cbn [wire kind_fits negb refs_resolve ktxns].
        rewrite I1. cbn [option_map]. rewrite Ea. auto.
      * exists (i :: idxs). cbn [map]. change (tr (TRef RAsset, CAsset id)) with (TRef RAsset, KAsset id).
        cbn [wire kind_fits negb refs_resolve ktxns].
        rewrite I1. cbn [option_map]. rewrite Es. auto.
      * exists (i :: idxs). cbn [map]. change (tr (TRef RApplication, CApp id)) with (TRef RApplication, KApp id).
        cbn [wire kind_fits negb refs_resolve ktxns].
        rewrite I1. cbn [option_map]. rewrite Ep. auto.
Qed.

Lemma map_tr_combine : forall ps (args : list carg),
  map tr (combine ps args) = combine ps (map karg_of args).
Proof.
  induction ps as [|p r IH]; intros [|a ar]; cbn; try reflexivity. f_equal. apply IH.
Qed.

Theorem client_encode_is_valid_call :
  forall sel sender app s args c,
    client_encode sel sender app s args = Some c ->
    valid_call sel sender app s (map karg_of args) (icall_of c).
Proof.
  intros sel sender app s args c H. unfold client_encode in H.
  destruct (Nat.eqb_spec (List.length (s_params s)) (List.length args)) as [Hl|]; [|discriminate].
  destruct (place sender app (combine (s_params s) args) (mkForeign [] [] [])) as [[[w xs] fs']|] eqn:P; [|discriminate].
  destruct (pack w) as [bs|] eqn:Pk; [|discriminate]. inversion H. subst c. clear H.
  apply place_spec in P. destruct P as [_ [Hw Hx]].
  split; [rewrite map_length; exact Hl|].
  destruct (rels_valid sender app fs'
              (icall_of (mkCall (sel :: bs) (f_accounts fs') (f_assets fs') (f_apps fs') xs))
              _ _ _ eq_refl eq_refl eq_refl Hw Hx) as [idxs [I1 [I2 I3]]].
  rewrite map_tr_combine in I1, I2, I3.
  exists idxs, w, bs. repeat split; try assumption.
  cbn. symmetry. exact I3.
Qed.
