(* Proofs/CallComposeByValueFinal.v — property C02: the linked program against the BY-VALUE source semantics
   [denote_c] of Src/DenoteCall.v (acyclic call graph, scratch-slot convention):
   [call_correct_nonrecursive] (linked code = [denote_k]) composed with [by_value_main]
   ([denote_c] -> [denote_k] for non-failing runs). *)
From Coq Require Import List Arith NArith String Bool Lia.
From PV Require Import Base.Bytes Base.Sexp AVM.Syntax AVM.Machine Src.Expr Src.Denote Src.DenoteCall
  Comp.Blocks Comp.Lower Comp.Passes Comp.GraphSem Comp.LinearSem Comp.LinkedSem Comp.Compile
  Proofs.LowerShape Proofs.NormalizeLowered Proofs.SlotComposeAssign
  CallX.Denote CallX.EndToEnd
  Proofs.CallComposeLink Proofs.CallComposeMain Proofs.CallComposeLayout
  Proofs.CallComposeSpill Proofs.CallComposeSpillPass Proofs.CallComposeProgram Proofs.CallComposeAcyclic
  Proofs.CallComposeFinal Proofs.CallComposeByValue.
Import ListNotations.
Local Open Scope list_scope.

Theorem call_correct_nonrecursive_by_value o modes p comps (rank : N -> nat) (PL : list N) :
  compile_components o modes p = COk comps -> o_opt_slots o = false -> o_use_fp o = false ->
  head_loop (root_ast (p_main p)) = false ->
  (forall r, In r (p_subs p) -> r_deferred r = None) ->
  (forall u i, In (u, (i, true)) (p_slots p) -> (i < 256)%N) ->
  exists crs crs' locals asg frs,
    compile_rec (S (List.length (p_subs p))) o p None (p_main p) [] = COk crs /\
    assign_slots p crs = COk (crs', locals, asg) /\
    fold_right flat_step (COk []) crs' = COk frs /\
    (acyclic rank frs ->
     let L := flatten_subroutines frs in
     let subs := fs_subs frs in
     let look := look_of asg in
     comps = CPragma (o_version o) :: L /\
     (NoDup (labels_of L) ->
      forallb (fun fr => linkable (fr_ops fr)) frs = true ->
      forall cx msel,
        params_ok look subs rank PL -> bodies_ok look subs rank PL -> disciplined cx look msel subs ->
        forall k, okb look subs rank PL k (root_ast (p_main p)) = true ->
        forall f st v stC,
          denote_c (ceC cx look msel subs) f None [] (root_ast (p_main p)) [] st = DExit v stC ->
          exists stK, pstar (lenv cx look msel subs) L (PAt [] 0 [] st) (PExit v stK) /\ Rel look PL stK stC)).
Proof.
  intros H Ho Hfp HL HD HT.
  destruct (call_correct_nonrecursive o modes p comps rank H Ho HL HD HT)
    as (crs & crs' & locals & asg & frs & HR & HA & HF & T).
  exists crs, crs', locals, asg, frs. split; [exact HR|]. split; [exact HA|]. split; [exact HF|].
  intros Ha L subs look. destruct (T Ha) as [HC T2]. split; [exact HC|].
  intros ND LK cx msel HPo HBo HDo k Ok f st v stC HCe.
  destruct (T2 ND LK cx msel) as [_ T3].
  destruct (by_value_main o Hfp cx look msel subs rank PL HPo HBo HDo k _ Ok f st v stC HCe (f + 3) f (le_n _) (le_n _))
    as (stK & EK & RK).
  exists stK. split; [|exact RK].
  specialize (T3 (f + 3)%nat f [] st (LExit v stK)). unfold subs, look in EK. rewrite EK in T3.
  exact (T3 eq_refl Logic.I).
Qed.
