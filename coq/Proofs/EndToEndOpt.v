(* Proofs/EndToEndOpt.v — the end-to-end theorem with the scratch-slot optimiser switched ON, as far as
   C03's theorem about the optimiser goes (Proofs/OptimizeCorrect.v, [optimize_routine_sound_partial]):
   the optimiser only deletes load/store operations, so it keeps the shape facts the sort and flatten
   stages need (well-formedness, the single exit); its behavioural theorem is conditional and relates
   the final states only up to the scratch cells of the removed slots, and so is this composition. *)
From Coq Require Import List Arith NArith String Bool Lia.
From PV Require Import Base.Bytes AVM.Syntax AVM.Machine Src.Expr Src.Denote
  Comp.Blocks Comp.Lower Comp.Passes Comp.GraphSem Comp.LinearSem Comp.SimCheck Comp.Compile
  Proofs.LowerFrame Proofs.LowerCorrect Proofs.LowerShape Proofs.NormalizeSem
  Proofs.NormalizeLowered Proofs.FlattenCorrect Proofs.SortCorrect
  Proofs.OptimizeSem Proofs.OptimizeCorrect
  Proofs.EndToEndExits Proofs.EndToEndGlue Proofs.EndToEnd.
Import ListNotations.

Lemma term_kept l i : is_term_op i = true -> keep_op l i = true.
Proof.
  unfold is_term_op, keep_op, is_op. destruct (i_op i); intros H; try discriminate H; reflexivity.
Qed.

Lemma existsb_filter_term l ops :
  existsb is_term_op (filter (keep_op l) ops) = existsb is_term_op ops.
Proof.
  induction ops as [|a t IH]; [reflexivity|]. cbn [filter existsb].
  destruct (keep_op l a) eqn:K; cbn [existsb]; rewrite IH; [reflexivity|].
  destruct (is_term_op a) eqn:T; [|reflexivity]. rewrite (term_kept l a T) in K. discriminate K.
Qed.

Lemma filter_block_bpres l b : bpres b (filter_block l b).
Proof.
  unfold filter_block. split.
  - intros [T O]. rewrite b_ops_set_ops, existsb_filter_term in T. rewrite outgoing_set_ops in O.
    split; assumption.
  - intros o E. subst b. cbn. eauto.
Qed.

Lemma rsa_gpres g start l : gpres g (remove_slot_access g start l).
Proof.
  intros i. rewrite rsa_blk. destruct (mem_id i (iterate g start)); destruct (g_blk g i) as [b|]; cbn [option_map];
    try reflexivity; eexists; (split; [reflexivity|]); [apply filter_block_bpres|apply bpres_refl].
Qed.

Lemma rsteps_keeps start g g' Ls en :
  rsteps start g g' Ls -> wf g -> exits_at g en -> wf g' /\ exits_at g' en.
Proof.
  induction 1 as [g|g g' cur L Ls Hc Hok S IH]; intros W X; [auto|].
  apply IH.
  - intros i Li. rewrite rsa_next in Li. rewrite rsa_blk, (W i Li). destruct (mem_id i (iterate g start)); reflexivity.
  - exact (exits_gpres _ _ _ (rsa_gpres g start L) X).
Qed.

Theorem optimize_keeps_shape g start skip g' en :
  optimize_routine g start skip = Some g' -> wf g -> exits_at g en -> wf g' /\ exits_at g' en.
Proof.
  intros H. destruct (optimize_routine_steps _ _ _ _ H) as [Ls S]. exact (rsteps_keeps _ _ _ _ _ S).
Qed.

Lemma conf_eqx_final C c c' :
  conf_eqx C c c' -> gfinal c = true -> ok_out c -> gfinal c' = true /\ ok_out c'.
Proof.
  destruct c, c'; cbn; intros E F O; try contradiction; try discriminate F; auto.
  subst. auto.
Qed.

(* PARTIAL: the hypotheses ids_bounded / slot_ops_wf / no_orphan_store / inj_on / safe_from are those of
   C03's optimiser theorem; no_orphan_store is not established by the code (C03_optimizer_refuted), and
   the conclusion is "same outcome up to the scratch cells of the removed slots". *)
Theorem routine_end_to_end_optimized_partial o sub ast0 cr skip g' order code :
  (match sub with Some r => r_deferred r | None => None end) = None ->
  compile_one o sub ast0 = COk cr ->
  head_loop (root_ast ast0) = false ->
  optimize_routine (cr_graph cr) (cr_start cr) skip = Some g' ->
  sort_blocks g' (cr_start cr) (cr_end cr) = Some order ->
  flatten_blocks g' order = Some code ->
  ids_bounded (cr_graph cr) (cr_start cr) ->
  slot_ops_wf (cr_graph cr) (iterate (cr_graph cr) (cr_start cr)) ->
  no_orphan_store (cr_graph cr) g' (cr_start cr) ->
  pos_of g' order (cr_start cr) = 0 /\
  forall env, consistent env (routine_ctx o sub) ->
  inj_on env (removed_slot (cr_graph cr) g' (cr_start cr)) ->
  forall fuel stk st gh, ghalt_of (denote env fuel (root_ast ast0) stk st) = Some gh ->
    safe_from (PL env (removed_slot (cr_graph cr) g' (cr_start cr))) env (g_blk (cr_graph cr)) (GAt (cr_start cr) stk st) ->
    exists gh',
      conf_eqx (cellsL env (removed_slot (cr_graph cr) g' (cr_start cr))) gh gh' /\
      lstar env code (LAt 0 stk st) (img (pos_of g' order) gh') /\
      forall c2, lstar env code (LAt 0 stk st) c2 -> lfinal c2 = true -> c2 = img (pos_of g' order) gh'.
Proof.
  intros D E HL HO HS HF Hb Hw Hno.
  destruct (compiled_routine_facts o sub ast0 cr D E) as (s & g0 & EL & W0 & EQ & W3 & X3).
  destruct (optimize_keeps_shape _ _ _ _ _ HO W3 X3) as [W4 X4].
  pose proof (exits_single_exit _ (cr_start cr) _ X4) as SE.
  pose proof (exits_start_first _ (cr_start cr) _ X4) as H1.
  split.
  - destruct (sort_start_first _ _ _ _ W4 HS H1) as (t & Eo). rewrite Eo. apply pos_of_head.
  - intros env Hc Hinj fuel stk st gh Eg Hs.
    pose proof (routine_graph_correct o sub ast0 cr D E HL env Hc fuel stk st gh Eg) as S3.
    destruct (ghalt_props _ _ Eg) as (Hal & Fin & Ok).
    destruct (optimize_routine_sound_partial env _ _ _ _ HO Hb Hw Hno Hinj stk st Hs gh Hal) as [Fw _].
    destruct (Fw S3) as (gh' & S4 & Q).
    destruct (conf_eqx_final _ _ _ Q Fin Ok) as [Fin' Ok'].
    exists gh'. split; [exact Q|]. split.
    + exact (flatten_sort_correct env _ _ _ _ _ W4 HS HF SE H1 stk st gh' S4 Ok').
    + exact (proj2 (flatten_sort_correct_final env _ _ _ _ _ W4 HS HF SE H1 stk st gh' S4 Fin' Ok')).
Qed.

(* ---- when the optimiser removes no slot, the behavioural side conditions hold trivially ---- *)
Lemma ops_safe_all (P : instr -> list value -> Prop) env :
  (forall i stk, P i stk) -> forall ops stk st, ops_safe P env ops stk st.
Proof.
  intros HP. induction ops as [|i t IH]; intros stk st; cbn [ops_safe]; [exact Logic.I|].
  destruct (is_return (i_op i)); [exact Logic.I|]. destruct (is_retsub (i_op i)); [exact Logic.I|].
  split; [apply HP|]. destruct (do_op env (i_op i) (i_args i) stk st); try exact Logic.I. apply IH.
Qed.

Lemma safe_from_none env (L : N -> Prop) G c : (forall u, ~ L u) -> safe_from (PL env L) env G c.
Proof.
  intros HL b stk st blk _ _. apply ops_safe_all. intros i s. split.
  - intros u Hu. destruct (HL u Hu).
  - intros cell _ [u [Hu _]]. destruct (HL u Hu).
Qed.

Lemma inj_on_none env (L : N -> Prop) : (forall u, ~ L u) -> inj_on env L.
Proof. intros HL u v Hu. destruct (HL u Hu). Qed.

Lemma no_removed_of_loaded g g' start :
  incl (loaded_slots g (iterate g start)) (loaded_slots g' (iterate g start)) ->
  forall u, ~ removed_slot g g' start u.
Proof.
  intros H u [H1 H2]. apply H2. apply has_load_iff. apply H. apply has_load_iff. exact H1.
Qed.
