(* Proofs/ABIEncodeLen.v — facts about the ARC-4 spec (ABI/Spec.v) needed by C06: the encoding of a value of a
   STATIC type has exactly [static_len] bytes (so PyTeal's head_length_static, computed from the types, is the
   length of the head the spec builds from the values). *)
From Coq Require Import List Arith NArith Ascii String Bool Lia.
From PV Require Import Base.Bytes ABI.Types ABI.Spec Proofs.ABISpecProof Proofs.ABIEncodeOps.
Import ListNotations.
Local Open Scope N_scope.

(* ---- length of a packed run of bools ---- *)
Lemma pack_bits_length : forall bs acc cnt, (cnt <= 7)%nat ->
    List.length (pack_bits bs acc cnt) = ((cnt + List.length bs + 7) / 8)%nat.
Proof.
  induction bs as [|b r IH]; intros acc cnt Hc.
  - cbn [pack_bits List.length]. rewrite Nat.add_0_r.
    destruct cnt as [|c]; [reflexivity|]. cbn [Nat.eqb List.length].
    apply Nat.div_unique with (r := c); lia.
  - cbn [pack_bits List.length]. destruct (Nat.eqb_spec cnt 7) as [->|Hne].
    + cbn [List.length]. rewrite IH by lia.
      replace (7 + S (List.length r) + 7)%nat with ((0 + List.length r + 7) + 1 * 8)%nat by lia.
      rewrite Nat.div_add by discriminate. lia.
    + rewrite IH by lia. f_equal. lia.
Qed.

Lemma blen_pack_bools : forall bs, blen (pack_bools bs) = bool_seq_len (N.of_nat (List.length bs)).
Proof.
  intro bs. unfold blen, pack_bools, bool_seq_len. rewrite pack_bits_length by lia. cbn [Nat.add].
  rewrite Nat2N.inj_div, Nat2N.inj_add. reflexivity.
Qed.

(* ---- the head built by asm has head_len bytes ---- *)
Lemma rev'_length : forall {A} (l : list A), List.length (rev' l) = List.length l.
Proof. intros. unfold rev'. rewrite <- rev_alt. apply rev_length. Qed.

Lemma u16_length : forall n o, u16 n = Some o -> blen o = 2.
Proof.
  intros n o H. unfold u16 in H. destruct (n <? 65536); [|discriminate]. injection H as <-.
  apply (blen_be_encode 2).
Qed.

Lemma asm_head_length : forall es pend off ht, asm es pend off = Some ht ->
    blen (fst ht) = head_len es (N.of_nat (List.length pend)).
Proof.
  induction es as [|e r IH]; intros pend off ht H.
  - cbn [asm] in H. injection H as <-. cbn [fst head_len]. rewrite blen_pack_bools, rev'_length. reflexivity.
  - destruct e as [b|bs|bs]; cbn [asm head_len] in *.
    + rewrite (IH _ _ _ H). cbn [List.length]. f_equal. lia.
    + apply obind_some in H as [ht' [H1 H2]]. injection H2 as <-. cbn [fst].
      rewrite !blen_app, blen_pack_bools, rev'_length, (IH _ _ _ H1). cbn [List.length]. change (N.of_nat 0) with 0. lia.
    + apply obind_some in H as [o [Ho H]]. apply obind_some in H as [ht' [H1 H2]]. injection H2 as <-. cbn [fst].
      rewrite !blen_app, blen_pack_bools, rev'_length, (IH _ _ _ H1), (u16_length _ _ Ho). cbn [List.length]. change (N.of_nat 0) with 0. lia.
Qed.

Definition is_ED' (e : eenc) : bool := match e with ED _ => true | _ => false end.

Lemma asm_static_tail : forall es pend off ht, existsb is_ED' es = false -> asm es pend off = Some ht -> snd ht = [].
Proof.
  induction es as [|e r IH]; intros pend off ht Hd H.
  - cbn [asm] in H. injection H as <-. reflexivity.
  - destruct e as [b|bs|bs]; cbn [asm existsb is_ED' orb] in *.
    + eapply IH; eauto.
    + apply obind_some in H as [ht' [H1 H2]]. injection H2 as <-. cbn [snd]. eapply IH; eauto.
    + discriminate.
Qed.

Lemma assemble_static_length : forall es bs, existsb is_ED' es = false -> assemble es = Some bs ->
    blen bs = head_len es 0.
Proof.
  intros es bs Hd H. unfold assemble in H. apply obind_some in H as [ht [H1 H2]]. injection H2 as <-.
  rewrite (asm_static_tail _ _ _ _ Hd H1), app_nil_r. exact (asm_head_length _ _ _ _ H1).
Qed.

(* ---- member lists of a static type ---- *)
(* e is the spec's encoding of a member of type t (t static) with the right length *)
Definition srep (t : ty) (e : eenc) : Prop :=
  match e with
  | EB _ => is_bool t = true
  | ES bs => is_bool t = false /\ blen bs = static_len t
  | ED _ => False
  end.

Lemma head_len_srep : forall ts es, Forall2 srep ts es -> forall run,
    head_len es run = seq_static_len (map (fun x => (is_bool x, static_len x)) ts) run.
Proof.
  intros ts es H. induction H as [|t e r er Ht _ IH]; intro run; [reflexivity|].
  destruct e as [b|bs|bs]; cbn [srep] in Ht.
  - cbn [map head_len seq_static_len]. rewrite Ht. apply IH.
  - destruct Ht as [Hb Hl]. cbn [map head_len seq_static_len]. rewrite Hb, Hl, IH. reflexivity.
  - contradiction.
Qed.

Lemma srep_no_dyn : forall ts es, Forall2 srep ts es -> existsb is_ED' es = false.
Proof.
  intros ts es H. induction H as [|t e r er Ht _ IH]; [reflexivity|].
  destruct e; cbn [srep existsb is_ED' orb] in *; try assumption. contradiction.
Qed.

Lemma is_bool_spec : forall t, is_bool t = true -> t = TBool.
Proof. destruct t; simpl; congruence. Qed.

(* one member *)
Lemma enc_elem_srep : forall t v e,
    is_dynamic t = false ->
    (forall bs, arc4_encode t v = Some bs -> blen bs = static_len t) ->
    enc_elem (is_bool t) (is_dynamic t) (arc4_encode t) v = Some e -> srep t e.
Proof.
  intros t v e Hd Hlen H. unfold enc_elem in H. destruct (is_bool t) eqn:Hb.
  - destruct v; try discriminate. injection H as <-. exact Hb.
  - rewrite Hd in H. apply option_map_some in H as [bs [H ->]]. split; [exact Hb | exact (Hlen bs H)].
Qed.

(* n copies of the same member type *)
Lemma enc_all_srep : forall t vs es,
    is_dynamic t = false ->
    (forall v bs, arc4_encode t v = Some bs -> blen bs = static_len t) ->
    enc_all (enc_elem (is_bool t) (is_dynamic t) (arc4_encode t)) vs = Some es ->
    Forall2 srep (repeat t (List.length vs)) es.
Proof.
  intros t vs. induction vs as [|v r IH]; intros es Hd Hlen H.
  - cbn [enc_all] in H. injection H as <-. constructor.
  - cbn [enc_all] in H. apply obind_some in H as [e [He H]]. apply option_map_some in H as [es' [H ->]].
    cbn [List.length repeat]. constructor; [|apply IH; assumption].
    eapply enc_elem_srep; eauto.
Qed.

Lemma seq_static_len_repeat_bool : forall n (x : N) run,
    seq_static_len (repeat (true, x) n) run = bool_seq_len (run + N.of_nat n).
Proof.
  induction n as [|n IH]; intros x run; cbn [repeat seq_static_len].
  - rewrite N.add_0_r. reflexivity.
  - rewrite IH. f_equal. lia.
Qed.

Lemma seq_static_len_repeat_static : forall n (x : N),
    seq_static_len (repeat (false, x) n) 0 = N.of_nat n * x.
Proof.
  induction n as [|n IH]; intro x; cbn [repeat seq_static_len]; [reflexivity|].
  rewrite IH. change (bool_seq_len 0) with 0. lia.
Qed.

Lemma map_repeat : forall {A B} (f : A -> B) x n, map f (repeat x n) = repeat (f x) n.
Proof. induction n as [|n IH]; [reflexivity|]. simpl. rewrite IH. reflexivity. Qed.

(* T[n] with T static *)
Lemma static_array_enc_length : forall t n v bs,
    is_dynamic t = false ->
    (forall x b, arc4_encode t x = Some b -> blen b = static_len t) ->
    static_array_enc (is_bool t) (is_dynamic t) (arc4_encode t) n v = Some bs ->
    blen bs = if is_bool t then bool_seq_len n else n * static_len t.
Proof.
  intros t n v bs Hd Hlen H. unfold static_array_enc in H.
  apply obind_some in H as [vs [_ H]].
  destruct (N.eqb_spec (N.of_nat (List.length vs)) n) as [Hn|]; [|discriminate].
  apply obind_some in H as [es [Hes H]].
  pose proof (enc_all_srep t vs es Hd Hlen Hes) as Hrep.
  rewrite (assemble_static_length es bs (srep_no_dyn _ _ Hrep) H).
  rewrite (head_len_srep _ _ Hrep), map_repeat. subst n.
  destruct (is_bool t).
  - rewrite seq_static_len_repeat_bool. reflexivity.
  - apply seq_static_len_repeat_static.
Qed.

(* tuples *)
Lemma enc_seq_srep : forall ts, Forall (fun t => forall v bs, is_dynamic t = false -> arc4_encode t v = Some bs -> blen bs = static_len t) ts ->
    forall vs es, existsb is_dynamic ts = false ->
    enc_seq (map (fun x => enc_elem (is_bool x) (is_dynamic x) (arc4_encode x)) ts) vs = Some es ->
    Forall2 srep ts es.
Proof.
  intros ts HF. induction HF as [|t r Ht _ IH]; intros vs es Hd H.
  - destruct vs; cbn [map enc_seq] in H; [|discriminate]. injection H as <-. constructor.
  - destruct vs as [|v vr]; cbn [map enc_seq] in H; [discriminate|].
    cbn [existsb] in Hd. apply orb_false_iff in Hd as [Hd1 Hd2].
    apply obind_some in H as [e [He H]]. apply option_map_some in H as [es' [H ->]].
    constructor; [|eapply IH; eauto].
    eapply enc_elem_srep; eauto.
Qed.

Lemma uint_enc_length : forall bits v bs, uint_enc bits v = Some bs -> blen bs = bits / 8.
Proof.
  intros bits v bs H. destruct v; cbn [uint_enc] in H; try discriminate.
  destruct (valid_uint_bits bits && (n <? 2 ^ bits)); [|discriminate]. injection H as <-.
  rewrite blen_be_encode. lia.
Qed.

(* byte[n], address: n one-byte members *)
Lemma byte_array_enc_length : forall n v bs,
    static_array_enc false false (uint_enc 8) n v = Some bs -> blen bs = n.
Proof.
  intros n v bs H.
  pose proof (static_array_enc_length TByte n v bs eq_refl) as L.
  cbn [is_bool is_dynamic static_len] in L. rewrite N.mul_1_r in L. apply L; [|exact H].
  intros x b Hx. exact (uint_enc_length 8 x b Hx).
Qed.

Theorem encode_static_len : forall t v bs,
    is_dynamic t = false -> arc4_encode t v = Some bs -> blen bs = static_len t.
Proof.
  induction t as [| | n | | | e n IH | e IH | nm ts IH | n | | k | k] using ty_ind'; intros v bs Hd H;
    cbn [is_dynamic] in Hd; try discriminate.
  - destruct v; cbn [arc4_encode bool_enc] in H; try discriminate. injection H as <-. reflexivity.
  - exact (uint_enc_length 8 v bs H).
  - exact (uint_enc_length n v bs H).
  - exact (byte_array_enc_length 32 v bs H).
  - cbn [arc4_encode] in H. cbn [static_len].
    apply (static_array_enc_length e n v bs Hd); [|exact H]. intros x b Hx. exact (IH x b Hd Hx).
  - cbn [arc4_encode tuple_enc] in H. destruct v as [b|u|r|vs]; try discriminate.
    apply obind_some in H as [es [Hes H]]. cbn [static_len].
    assert (Hrep : Forall2 srep ts es).
    { eapply enc_seq_srep; [|exact Hd|exact Hes].
      apply Forall_forall. intros t Hin x b Hdt Hx. rewrite Forall_forall in IH. exact (IH t Hin x b Hdt Hx). }
    rewrite (assemble_static_length es bs (srep_no_dyn _ _ Hrep) H). apply head_len_srep. exact Hrep.
  - exact (byte_array_enc_length n v bs H).
Qed.
