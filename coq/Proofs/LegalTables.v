(* Proofs/LegalTables.v — C04: PyTeal's own op and field tables (regenerated from the source on every
   run: Gen/Tables.v by harness/translate.py, Gen/FieldTables.v by harness/c04_translate.py) are
   CONSERVATIVE with respect to the independent langspec (AVM/Langspec.v): PyTeal never dates an
   op or a field earlier than the langspec, never allows an op in a mode the langspec lacks, and
   knows no op / field the langspec lacks.  Finite domain: every row of the generated tables
   (about 200 ops, 150 fields), decided by [vm_compute] and lifted with [forallb_forall].

   One row of PyTeal's field tables is NOT conservative (known finding, see known_findings.d/C04.json):
   [vrf_verify VrfChainlink] (not an AVM field).  ([asset_params_get AssetCreator] used to be a second
   one — PyTeal: any version, AVM: 5 — until /repo d5f70dd; the translator now reads version 5 for it.)  The theorem for the further field tables is stated
   with that explicit exception list, so it holds on the pinned tree and after a repair alike; the
   exceptions themselves are confirmed on the real compiler by the check at run time.  Field MODES are
   not in PyTeal's tables at all (no mode column): see [app_only_fields], used by the check. *)
From Coq Require Import List NArith Ascii String Bool.
From PV Require Import AVM.Syntax AVM.Langspec Gen.Tables Gen.FieldTables.
Import ListNotations.
Local Open Scope string_scope.
Local Open Scope N_scope.

(* ---- ops ---- *)
Definition op_row_conservative (r : string * N * bool * bool) : bool :=
  let '(name, minv, sg, ap) := r in
  if String.eqb name "//" then true            (* the comment pseudo-op: not an opcode *)
  else match parse_opc name with
       | None => false
       | Some o =>
           match ls_op o with
           | Unknown => true                    (* uncovered, listed in the evidence *)
           | Known sp => (os_minv sp <=? minv) && implb sg (os_sig sp) && implb ap (os_app sp)
           end
       end.

Lemma optable_conservative_lemma : forall r, In r gen_optable -> op_row_conservative r = true.
Proof. apply forallb_forall. vm_compute. reflexivity. Qed.

(* every row is covered: no op of PyTeal's table is Unknown to the langspec *)
Definition op_row_covered (r : string * N * bool * bool) : bool :=
  let '(name, _, _, _) := r in
  String.eqb name "//" ||
  match parse_opc name with
  | Some o => match ls_op o with Known _ => true | Unknown => false end
  | None => false
  end.

Lemma optable_covered_lemma : forall r, In r gen_optable -> op_row_covered r = true.
Proof. apply forallb_forall. vm_compute. reflexivity. Qed.

(* the hand-maintained table of AVM/Syntax.v (used by the compile model) is conservative too *)
Definition syntax_row_conservative (o : opc) : bool :=
  match ls_op o with
  | Unknown => true
  | Known sp => (os_minv sp <=? opc_minv o) && implb (fst (opc_modes o)) (os_sig sp) && implb (snd (opc_modes o)) (os_app sp)
  end.

Lemma syntax_table_conservative_lemma : forall o, In o all_opcs -> syntax_row_conservative o = true.
Proof. apply forallb_forall. vm_compute. reflexivity. Qed.

(* ---- fields ---- *)
Definition field_conservative (fam name : string) (minv : N) : bool :=
  match group_of_family fam with
  | None => false
  | Some g =>
      match find_gfield (ls_group_fields g) name with
      | None => false
      | Some f => gf_minv f <=? minv
      end
  end.

Definition field_row_conservative (r : string * string * N * N) : bool :=
  let '(fam, name, minv, _) := r in field_conservative fam name minv.

Lemma fields_conservative_lemma : forall r, In r gen_fields -> field_row_conservative r = true.
Proof. apply forallb_forall. vm_compute. reflexivity. Qed.

(* further field tables, with the explicit exception list *)
Definition field_exceptions : list (string * string) :=
  [ ("vrf_verify", "VrfChainlink") ].

Definition is_exception (fam name : string) : bool :=
  existsb (fun e => String.eqb (fst e) fam && String.eqb (snd e) name) field_exceptions.

Definition field2_row_conservative (r : string * string * N) : bool :=
  let '(fam, name, minv) := r in field_conservative fam name minv || is_exception fam name.

Lemma fields2_conservative_lemma : forall r, In r gen_fields2 -> field2_row_conservative r = true.
Proof. apply forallb_forall. vm_compute. reflexivity. Qed.

(* array-ness of transaction fields agrees *)
Definition txn_array_row_agrees (r : string * bool) : bool :=
  match find_tfield ls_txn_fields (fst r) with
  | Some f => Bool.eqb (tf_array f) (snd r)
  | None => false
  end.

Lemma txn_arrays_agree_lemma : forall r, In r gen_txn_arrays -> txn_array_row_agrees r = true.
Proof. apply forallb_forall. vm_compute. reflexivity. Qed.

(* fields of PyTeal's txn/global tables that the langspec allows in Application mode only;
   PyTeal has no mode column for fields, so these are accepted in Signature mode too (known finding) *)
Definition app_only_fields : list (string * string) :=
  flat_map (fun r : string * string * N * N =>
    let '(fam, name, _, _) := r in
    match group_of_family fam with
    | Some g => match find_gfield (ls_group_fields g) name with
                | Some f => if gf_app_only f then [(fam, name)] else []
                | None => []
                end
    | None => []
    end) gen_fields.
