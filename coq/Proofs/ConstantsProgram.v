(* Proofs/ConstantsProgram.v — C12, whole-program part 3: the program compiled with assembleConstants and
   the pseudo-op program run in lock step on AVM/Machine.v (after the block lines), for every context,
   every initial state and every fuel. *)
From Coq Require Import List Arith NArith Ascii String Bool Lia.
From PV Require Import Base.Bytes Base.U64 Base.Sexp AVM.Syntax AVM.Ops AVM.Machine AVM.Parse
  Comp.Constants Comp.ConstantsSpec Proofs.ConstantsProof Proofs.ConstantsSim
  Proofs.ConstantsProgramMach Proofs.ConstantsProgramLink.
Import ListNotations.
Local Open Scope string_scope.

Section Program.
Variable addr_hash : bytes -> bytes.
Variable sig_hash : string -> bytes.
Variable sigma : string -> string.
Variable msel : list (string * bytes).
Hypothesis Hmsel : msel_consistent sig_hash msel.

(* what linking the two lists gives *)
Lemma constants_link_rel ops out ver P :
  create_constant_blocks addr_hash sig_hash ops = Some out ->
  input_ok sigma msel ops -> no_block_ops ops = true ->
  clink sigma msel ver ops = Some P ->
  exists pro body ib bb proI,
    out = (pro ++ body)%list /\
    Forall (fun c => exists i, c = COp i /\ (i_op i = O_intcblock \/ i_op i = O_bytecblock)) pro /\
    blocks_after sigma msel pro [] [] = Some (ib, bb) /\
    Forall2 (site_ok sigma msel ib bb) ops body /\
    List.length proI = List.length pro /\ blocks_of proI [] [] = Some (ib, bb) /\
    (exists P', clink sigma msel ver out = Some P') /\
    forall P', clink sigma msel ver out = Some P' ->
      exists c', pr_code P' = (proI ++ c')%list /\ Forall2 (irel ib bb) (pr_code P) c' /\
                 labels_shift (List.length pro) P P' /\ pr_version P' = pr_version P.
Proof.
  intros Hc Hok Hnb HP.
  destruct (constants_sites_preserved addr_hash sig_hash sigma msel Hmsel ops out Hc Hok)
    as (pro & body & ib & bb & -> & Hpro & Hb & Hf).
  destruct (pro_stmts sigma msel pro Hpro [] [] _ Hb) as (proI & Sp & Bp & Lp).
  unfold clink in HP. destruct (cstmts_of sigma msel ops) as [ss|] eqn:Ss; [|discriminate HP].
  destruct (cstmts_rel sigma msel ib bb ops body Hf Hok Hnb ss Ss) as (sb & Sb & Fs).
  exists pro, body, ib, bb, proI. split; [reflexivity|]. do 5 (split; [assumption|]).
  assert (So : cstmts_of sigma msel (pro ++ body) = Some (map SInstr proI ++ sb)%list)
    by (apply cstmts_of_app_some; assumption).
  assert (Bo : build_prog (map SInstr proI ++ sb) 0 ver [] [] =
               build_prog sb (0 + List.length proI) ver (rev proI) (shift_labels (List.length proI) [])).
  { rewrite build_prefix, app_nil_r. reflexivity. }
  split.
  - unfold clink. rewrite So, Bo. exact (build_rel_total ib bb ss sb Fs 0 ver [] [] _ _ P HP).
  - intros P' HP'. unfold clink in HP'. rewrite So, Bo in HP'.
    destruct (build_rel ib bb ss sb Fs 0 ver [] [] _ _ P P' HP HP') as (c & c' & C & C' & F & L & V).
    cbn [rev app] in C. rewrite rev_involutive in C'.
    exists c'. split; [exact C'|]. split; [rewrite C; exact F|]. split; [|exact V].
    intros l. unfold label_pc. rewrite L, alookup_shift, Lp. reflexivity.
Qed.

(* result of a run of P against a run of P': same verdict (out of fuel included), machines equal up to the
   pc / return-address shift, the second holding the emitted blocks *)
Definition run_sim (n : nat) (ib : list N) (bb : list bytes) (r r' : verdict * mach) : Prop :=
  fst r' = fst r /\ lockrel n ib bb (snd r) (snd r').

Theorem constants_program_equiv ops out ver P P' :
  create_constant_blocks addr_hash sig_hash ops = Some out ->
  input_ok sigma msel ops ->
  no_block_ops ops = true ->
  indexes_encodable out = true ->
  clink sigma msel ver ops = Some P ->
  clink sigma msel ver out = Some P' ->
  exists pro body ib bb,
    out = (pro ++ body)%list /\
    blocks_after sigma msel pro [] [] = Some (ib, bb) /\
    Forall2 (site_ok sigma msel ib bb) ops body /\
    pr_version P' = pr_version P /\
    (* the block lines execute first *)
    (forall cx st k,
       run (k + List.length pro) cx P' (init_mach st) =
       run k cx P' (mkM (List.length pro) [] [] false ib bb st)) /\
    (forall st, lockrel (List.length pro) ib bb (init_mach st) (mkM (List.length pro) [] [] false ib bb st)) /\
    (* from then on: lock step *)
    (forall cx m m', lockrel (List.length pro) ib bb m m' ->
       match step cx P m, step cx P' m' with
       | Running a, Running a' => lockrel (List.length pro) ib bb a a'
       | Done v a, Done v' a' => v' = v /\ lockrel (List.length pro) ib bb a a'
       | _, _ => False
       end) /\
    (* hence the runs agree for every fuel *)
    (forall cx st k,
       run_sim (List.length pro) ib bb (run k cx P (init_mach st)) (run (k + List.length pro) cx P' (init_mach st))).
Proof.
  intros Hc Hok Hnb _ HP HP'.
  destruct (constants_link_rel ops out ver P Hc Hok Hnb HP)
    as (pro & body & ib & bb & proI & -> & Hpro & Hb & Hf & Lp & Bp & _ & Hrel).
  destruct (Hrel P' HP') as (c' & C' & F & L & V).
  exists pro, body, ib, bb. split; [reflexivity|]. do 3 (split; [assumption|]).
  assert (Hpre : forall cx st k,
            run (k + List.length pro) cx P' (init_mach st) =
            run k cx P' (mkM (List.length pro) [] [] false ib bb st)).
  { intros cx st k. rewrite Nat.add_comm, <- Lp.
    exact (run_blocks cx P' proI [] c' [] [] ib bb Bp C' k st). }
  assert (Hinit : forall st, lockrel (List.length pro) ib bb (init_mach st) (mkM (List.length pro) [] [] false ib bb st)).
  { intros st. split; [|split; reflexivity]. constructor; reflexivity. }
  rewrite <- Lp in L.
  split; [exact Hpre|]. split; [exact Hinit|]. split.
  - intros cx m m' Hl. rewrite <- Lp in Hl |- *.
    exact (lock_step_inv cx P P' proI (pr_code P) c' ib bb eq_refl C' F L m m' Hl).
  - intros cx st k. rewrite Hpre. unfold run_sim. rewrite <- Lp.
    apply (run_lock cx P P' proI (pr_code P) c' ib bb eq_refl C' F L k). rewrite Lp. apply Hinit.
Qed.

(* the second program links whenever the first does *)
Theorem constants_link_total ops out ver P :
  create_constant_blocks addr_hash sig_hash ops = Some out ->
  input_ok sigma msel ops -> no_block_ops ops = true ->
  clink sigma msel ver ops = Some P ->
  exists P', clink sigma msel ver out = Some P'.
Proof.
  intros Hc Hok Hnb HP.
  destruct (constants_link_rel ops out ver P Hc Hok Hnb HP) as (? & ? & ? & ? & ? & _ & _ & _ & _ & _ & _ & H & _).
  exact H.
Qed.
End Program.
