(* Proofs/C18Commute.v — C18, partial stream invariance: on a routine's block graph, comment ops are
   inert for NormalizeBlocks, sortBlocks and flattenBlocks — deleting every comment op BEFORE these passes
   gives exactly the comment-stripped output — provided that NormalizeBlocks' second (eliding) pass never
   visits a block that consists of comment ops only ([normalize_clean], an executable check).  That side
   condition is what witness (A) of Proofs/C18Stream.v violates.  Graphs are compared through a relation, not by equality: [srel g g'] says g' is g with the
   comment ops removed from every block. *)
From Coq Require Import List Arith NArith Ascii String Bool Lia.
From PV Require Import Base.Bytes Base.Sexp AVM.Syntax Src.Expr Comp.Blocks Comp.Lower Comp.Passes Comp.Assemble Comp.Compile Comp.Annotate.
Import ListNotations.

Definition keep_op (i : instr) : bool := negb (is_comment_op i).
Definition strip_ops (l : list instr) : list instr := filter keep_op l.
Definition strip_block (b : block) : block := set_ops b (strip_ops (b_ops b)).

Definition strip_graph (g : graph) : graph :=
  mkG (fun i => option_map strip_block (g_blk g i)) (g_inc g) (g_next g).

Record srel (g g' : graph) : Prop := mkSrel {
  sr_next : g_next g' = g_next g;
  sr_inc : forall i, g_inc g' i = g_inc g i;
  sr_blk : forall i, g_blk g' i = option_map strip_block (g_blk g i)
}.

Lemma srel_strip_graph g : srel g (strip_graph g).
Proof. constructor; reflexivity. Qed.

(* block w is non-empty and consists of comment ops only *)
Definition co_block (g : graph) (w : id) : bool :=
  match get_ops g w with
  | [] => false
  | ops => match strip_ops ops with [] => true | _ => false end
  end.

(* ---- blocks ---- *)
Lemma outgoing_strip b : outgoing (strip_block b) = outgoing b.
Proof. destruct b; reflexivity. Qed.

Lemma b_ops_strip b : b_ops (strip_block b) = strip_ops (b_ops b).
Proof. destruct b; reflexivity. Qed.

Lemma term_not_comment i : is_term_op i = true -> keep_op i = true.
Proof.
  unfold is_term_op, keep_op, is_comment_op. destruct (i_op i); intros H; try discriminate H; reflexivity.
Qed.

Lemma existsb_term_strip l : existsb is_term_op (strip_ops l) = existsb is_term_op l.
Proof.
  induction l as [|i t IH]; [reflexivity|]. cbn [strip_ops filter existsb].
  destruct (keep_op i) eqn:K; cbn [existsb]; fold (strip_ops t); rewrite IH; [reflexivity|].
  destruct (is_term_op i) eqn:T; [|reflexivity].
  apply term_not_comment in T. congruence.
Qed.

Lemma is_terminal_strip b : is_terminal (strip_block b) = is_terminal b.
Proof. unfold is_terminal. rewrite outgoing_strip, b_ops_strip, existsb_term_strip. reflexivity. Qed.

Lemma replace_outgoing_strip b old new :
  replace_outgoing (strip_block b) old new = strip_block (replace_outgoing b old new).
Proof.
  destruct b as [ops n|ops t f]; cbn [strip_block set_ops b_ops replace_outgoing].
  - destruct (opt_id_is n old); reflexivity.
  - reflexivity.
Qed.

Lemma strip_ops_app a b : strip_ops (a ++ b) = strip_ops a ++ strip_ops b.
Proof. apply filter_app. Qed.

Lemma strip_set_ops b ops : strip_block (set_ops b ops) = set_ops (strip_block b) (strip_ops ops).
Proof. destruct b; reflexivity. Qed.

(* ---- graph accessors under srel ---- *)
Section Rel.
  Variables g g' : graph.
  Hypothesis R : srel g g'.

  Lemma out_of_srel i : out_of g' i = out_of g i.
  Proof. unfold out_of. rewrite (sr_blk _ _ R). destruct (g_blk g i); [apply outgoing_strip|reflexivity]. Qed.

  Lemma get_ops_srel i : get_ops g' i = strip_ops (get_ops g i).
  Proof. unfold get_ops. rewrite (sr_blk _ _ R). destruct (g_blk g i); [apply b_ops_strip|reflexivity]. Qed.
End Rel.

Lemma srel_set_blk g g' i b : srel g g' -> srel (set_blk g i b) (set_blk g' i (strip_block b)).
Proof.
  intros R. constructor; cbn.
  - apply (sr_next _ _ R).
  - apply (sr_inc _ _ R).
  - intros j. unfold upd. destruct (Nat.eqb j i); [reflexivity|apply (sr_blk _ _ R)].
Qed.

Lemma srel_set_inc g g' i l : srel g g' -> srel (set_inc g i l) (set_inc g' i l).
Proof.
  intros R. constructor; cbn.
  - apply (sr_next _ _ R).
  - intros j. unfold upd. destruct (Nat.eqb j i); [reflexivity|apply (sr_inc _ _ R)].
  - apply (sr_blk _ _ R).
Qed.

(* the edge-rewriting folds of both normalisation passes *)
Lemma srel_fold_replace l old new : forall g g', srel g g' ->
  srel (fold_left (fun g i => match g_blk g i with
                              | Some ib => set_blk g i (replace_outgoing ib old new)
                              | None => g end) l g)
       (fold_left (fun g i => match g_blk g i with
                              | Some ib => set_blk g i (replace_outgoing ib old new)
                              | None => g end) l g').
Proof.
  induction l as [|i t IH]; intros g g' R; [exact R|]. cbn [fold_left]. apply IH.
  rewrite (sr_blk _ _ R). destruct (g_blk g i) as [ib|]; cbn [option_map]; [|exact R].
  rewrite replace_outgoing_strip. apply srel_set_blk. exact R.
Qed.

Lemma srel_body1 g g' start block : srel g g' ->
  srel (fst (norm_body1 g start block)) (fst (norm_body1 g' start block)) /\
  snd (norm_body1 g' start block) = snd (norm_body1 g start block).
Proof.
  intros R. unfold norm_body1. rewrite (sr_inc _ _ R).
  destruct (g_inc g block) as [|prev [|p2 rest]]; try (split; [exact R|reflexivity]).
  rewrite (out_of_srel _ _ R).
  destruct (out_of g prev) as [|x [|x2 xs]]; try (split; [exact R|reflexivity]).
  destruct (Nat.eqb x block); [|split; [exact R|reflexivity]].
  rewrite (sr_blk _ _ R). destruct (g_blk g block) as [bb|]; cbn [option_map]; [|split; [exact R|reflexivity]].
  rewrite (sr_inc _ _ R). cbn [fst snd]. split; [|reflexivity].
  apply srel_fold_replace. apply srel_set_inc.
  rewrite (get_ops_srel _ _ R), b_ops_strip, <- strip_ops_app.
  rewrite <- strip_set_ops. apply srel_set_blk. exact R.
Qed.

Lemma srel_fold_body2 block ob l : forall g g', srel g g' ->
  srel (fold_left (fun g prev =>
                     let g' := match g_blk g prev with
                               | Some pb => set_blk g prev (replace_outgoing pb block ob)
                               | None => g end in
                     if mem_id prev (g_inc g' ob) then g' else set_inc g' ob (g_inc g' ob ++ [prev])) l g)
       (fold_left (fun g prev =>
                     let g' := match g_blk g prev with
                               | Some pb => set_blk g prev (replace_outgoing pb block ob)
                               | None => g end in
                     if mem_id prev (g_inc g' ob) then g' else set_inc g' ob (g_inc g' ob ++ [prev])) l g').
Proof.
  induction l as [|prev t IH]; intros g g' R; [exact R|]. cbn [fold_left]. apply IH.
  assert (R1 : srel (match g_blk g prev with Some pb => set_blk g prev (replace_outgoing pb block ob) | None => g end)
                    (match g_blk g' prev with Some pb => set_blk g' prev (replace_outgoing pb block ob) | None => g' end)).
  { rewrite (sr_blk _ _ R). destruct (g_blk g prev) as [pb|]; cbn [option_map]; [|exact R].
    rewrite replace_outgoing_strip. apply srel_set_blk. exact R. }
  cbv zeta. rewrite (sr_inc _ _ R1).
  destruct (mem_id prev _); [exact R1|]. apply srel_set_inc. exact R1.
Qed.

Lemma srel_body2 g g' start block : srel g g' -> co_block g block = false ->
  srel (fst (norm_body2 g start block)) (fst (norm_body2 g' start block)) /\
  snd (norm_body2 g' start block) = snd (norm_body2 g start block).
Proof.
  intros R N. unfold norm_body2. rewrite (get_ops_srel _ _ R). unfold co_block in N.
  destruct (get_ops g block) as [|i ops] eqn:E.
  - cbn [strip_ops filter]. rewrite (out_of_srel _ _ R).
    destruct (out_of g block) as [|ob [|o2 os]]; try (split; [exact R|reflexivity]).
    destruct (Nat.eqb ob block); [split; [exact R|reflexivity]|].
    cbn [fst snd]. split; [|reflexivity].
    rewrite !(sr_inc _ _ R).
    assert (R1 : srel (set_inc g ob (remove_first block (g_inc g ob))) (set_inc g' ob (remove_first block (g_inc g ob))))
      by (apply srel_set_inc; exact R).
    rewrite (sr_inc _ _ R1). apply srel_fold_body2. exact R1.
  - destruct (strip_ops (i :: ops)) eqn:S; [discriminate N|split; [exact R|reflexivity]].
Qed.

(* ---- the BFS drivers ---- *)
Lemma norm_iter1_srel fuel : forall g g' start q v, srel g g' ->
  srel (fst (norm_iter norm_body1 fuel g start q v)) (fst (norm_iter norm_body1 fuel g' start q v)) /\
  snd (norm_iter norm_body1 fuel g' start q v) = snd (norm_iter norm_body1 fuel g start q v).
Proof.
  induction fuel as [|f IH]; intros g g' start q v R; cbn [norm_iter]; [split; [exact R|reflexivity]|].
  destruct q as [|w q']; [split; [exact R|reflexivity]|].
  rewrite (out_of_srel _ _ R).
  destruct (srel_body1 g g' start w R) as [R1 S1].
  destruct (norm_body1 g start w) as [g1 s1]. destruct (norm_body1 g' start w) as [g1' s1']. cbn [fst snd] in *. subst s1'.
  destruct (enqueue (out_of g w) q' v) as [q1 v1]. apply IH. exact R1.
Qed.

(* the executable side condition: the second pass never visits a block made of comment ops only *)
Fixpoint norm_iter2_clean (fuel : nat) (g : graph) (start : id) (queue visited : list id) : bool :=
  match fuel with
  | O => true
  | S f =>
      match queue with
      | [] => true
      | w :: q =>
          negb (co_block g w) &&
          let nexts := out_of g w in
          let '(g1, start1) := norm_body2 g start w in
          let '(q1, v1) := enqueue nexts q visited in
          norm_iter2_clean f g1 start1 q1 v1
      end
  end.

Lemma norm_iter2_srel fuel : forall g g' start q v, srel g g' -> norm_iter2_clean fuel g start q v = true ->
  srel (fst (norm_iter norm_body2 fuel g start q v)) (fst (norm_iter norm_body2 fuel g' start q v)) /\
  snd (norm_iter norm_body2 fuel g' start q v) = snd (norm_iter norm_body2 fuel g start q v).
Proof.
  induction fuel as [|f IH]; intros g g' start q v R N; cbn [norm_iter]; [split; [exact R|reflexivity]|].
  destruct q as [|w q']; [split; [exact R|reflexivity]|].
  cbn [norm_iter2_clean] in N. apply andb_prop in N. destruct N as [Nw N]. apply negb_true_iff in Nw.
  rewrite (out_of_srel _ _ R).
  destruct (srel_body2 g g' start w R Nw) as [R1 S1].
  destruct (norm_body2 g start w) as [g1 s1]. destruct (norm_body2 g' start w) as [g1' s1']. cbn [fst snd] in *. subst s1'.
  destruct (enqueue (out_of g w) q' v) as [q1 v1]. apply IH; assumption.
Qed.

(* the side condition for a whole routine graph *)
Definition normalize_clean (g : graph) (start : id) : bool :=
  let fuel := S (g_next g) in
  let '(g1, s1) := norm_iter norm_body1 fuel g start [start] [start] in
  norm_iter2_clean fuel g1 s1 [s1] [s1].

Theorem normalize_srel g g' start : srel g g' -> normalize_clean g start = true ->
  srel (fst (normalize g start)) (fst (normalize g' start)) /\
  snd (normalize g' start) = snd (normalize g start).
Proof.
  intros R N. unfold normalize, normalize_clean in *. rewrite (sr_next _ _ R).
  destruct (norm_iter1_srel (S (g_next g)) g g' start [start] [start] R) as [R1 S1].
  destruct (norm_iter norm_body1 (S (g_next g)) g start [start] [start]) as [g1 s1].
  destruct (norm_iter norm_body1 (S (g_next g)) g' start [start] [start]) as [g1' s1']. cbn [fst snd] in *. subst s1'.
  apply norm_iter2_srel; assumption.
Qed.

(* ---- sortBlocks ---- *)
Lemma sort_loop_srel g g' (R : srel g g') fuel : forall stack vis order,
  sort_loop fuel g' stack vis order = sort_loop fuel g stack vis order.
Proof.
  induction fuel as [|f IH]; intros stack vis order; cbn [sort_loop]; [reflexivity|].
  destruct (rev stack) as [|n rest]; [reflexivity|].
  destruct (mem_id n vis); [apply IH|]. rewrite (out_of_srel _ _ R). apply IH.
Qed.

Theorem sort_blocks_srel g g' start e : srel g g' -> sort_blocks g' start e = sort_blocks g start e.
Proof. intros R. unfold sort_blocks. rewrite (sr_next _ _ R), (sort_loop_srel _ _ R). reflexivity. Qed.

(* ---- flattenBlocks ---- *)
Definition strip_code (x : list instr * list nat) : list instr * list nat := (strip_ops (fst x), snd x).

Lemma strip_ops_snoc1 code i : keep_op i = true -> strip_ops (code ++ [i]) = strip_ops code ++ [i].
Proof. intros K. rewrite strip_ops_app. cbn. rewrite K. reflexivity. Qed.

Lemma strip_ops_snoc2 code i j : keep_op i = true -> keep_op j = true -> strip_ops (code ++ [i; j]) = strip_ops code ++ [i; j].
Proof. intros K1 K2. rewrite strip_ops_app. cbn. rewrite K1, K2. reflexivity. Qed.

Lemma flatten_one_srel g g' blocks i b : srel g g' ->
  flatten_one g' blocks i b = option_map strip_code (flatten_one g blocks i b).
Proof.
  intros R. unfold flatten_one. rewrite (sr_blk _ _ R).
  destruct (g_blk g b) as [bb|]; cbn [option_map]; [|reflexivity].
  rewrite is_terminal_strip, b_ops_strip.
  destruct (is_terminal bb); [reflexivity|].
  destruct bb as [ops n|ops t f]; cbn [strip_block set_ops b_ops].
  - destruct n as [nx|]; [|reflexivity].
    destruct (index_of nx blocks 0) as [ni|]; [|reflexivity].
    destruct (Nat.eqb ni (S i)); [reflexivity|]. cbn [option_map]. unfold strip_code. cbn [fst snd].
    rewrite strip_ops_snoc1 by reflexivity. reflexivity.
  - destruct t as [t|]; [|reflexivity]. destruct f as [f|]; [|reflexivity].
    destruct (index_of t blocks 0) as [ti|]; [|reflexivity].
    destruct (index_of f blocks 0) as [fi|]; [|reflexivity].
    destruct (Nat.eqb fi (S i)); [cbn [option_map]; unfold strip_code; cbn [fst snd]; rewrite strip_ops_snoc1 by reflexivity; reflexivity|].
    destruct (Nat.eqb ti (S i)); cbn [option_map]; unfold strip_code; cbn [fst snd].
    + rewrite strip_ops_snoc1 by reflexivity. reflexivity.
    + rewrite strip_ops_snoc2 by reflexivity. reflexivity.
Qed.

Lemma flatten_collect_srel g g' blocks (R : srel g g') rest : forall i,
  flatten_collect g' blocks i rest =
  option_map (fun x => (map strip_ops (fst x), snd x)) (flatten_collect g blocks i rest).
Proof.
  induction rest as [|b t IH]; intros i; cbn [flatten_collect]; [reflexivity|].
  rewrite (flatten_one_srel _ _ _ _ _ R), IH.
  destruct (flatten_one g blocks i b) as [[code refs]|]; cbn [option_map strip_code fst snd]; [|reflexivity].
  destruct (flatten_collect g blocks (S i) t) as [[codes refs']|]; reflexivity.
Qed.

Lemma strip_comps_app a b : strip_comps (a ++ b) = strip_comps a ++ strip_comps b.
Proof. unfold strip_comps. apply flat_map_app. Qed.

Lemma strip_comps_ops code : strip_comps (map COp code) = map COp (strip_ops code).
Proof.
  induction code as [|i t IH]; [reflexivity|]. cbn [map strip_comps flat_map strip_comp strip_ops filter].
  unfold keep_op. destruct (is_comment_op i); cbn [negb app]; fold (strip_comps (map COp t)); rewrite IH; reflexivity.
Qed.

Lemma flatten_emit_strip refs codes : forall i,
  flatten_emit (map strip_ops codes) refs i = strip_comps (flatten_emit codes refs i).
Proof.
  induction codes as [|code t IH]; intros i; [reflexivity|]. cbn [map flatten_emit].
  rewrite !strip_comps_app, strip_comps_ops, IH.
  destruct (mem_nat i refs); reflexivity.
Qed.

Theorem flatten_blocks_srel g g' blocks : srel g g' ->
  flatten_blocks g' blocks = option_map strip_comps (flatten_blocks g blocks).
Proof.
  intros R. unfold flatten_blocks. rewrite (flatten_collect_srel _ _ _ R).
  destruct (flatten_collect g blocks 0 blocks) as [[codes refs]|]; cbn [option_map fst snd]; [|reflexivity].
  rewrite flatten_emit_strip. reflexivity.
Qed.

(* ---- the three passes together: one routine, optimiser off ---- *)
Definition routine_code (g : graph) (start end_ : id) : option (list comp) :=
  let '(gn, sn) := normalize g start in
  match sort_blocks gn sn end_ with
  | Some order => flatten_blocks gn order
  | None => None
  end.

Theorem routine_code_strip_commute : forall g start end_,
  normalize_clean g start = true ->
  routine_code (strip_graph g) start end_ = option_map strip_comps (routine_code g start end_).
Proof.
  intros g start end_ N. unfold routine_code.
  destruct (normalize_srel g (strip_graph g) start (srel_strip_graph g) N) as [R S].
  destruct (normalize g start) as [gn sn]. destruct (normalize (strip_graph g) start) as [gn' sn'].
  cbn [fst snd] in *. subst sn'.
  rewrite (sort_blocks_srel _ _ sn end_ R).
  destruct (sort_blocks gn sn end_) as [order|]; [|reflexivity].
  apply flatten_blocks_srel. exact R.
Qed.
