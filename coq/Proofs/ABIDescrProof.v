(* Proofs/ABIDescrProof.v — facts about the model of the TypeSpec classes (ABI/Descr.v):
   PyTeal's __str__ is the ARC-4 type string; a classification of type strings by their last
   character (used to show that the str(a) == str(b) fallback never identifies specs of different
   kinds); soundness and reflexivity of the modelled `==`. *)
From Coq Require Import List NArith Ascii String Bool Lia.
From PV Require Import Base.Sexp ABI.Types ABI.Spec ABI.Layout ABI.Descr.
Import ListNotations.
Local Open Scope string_scope.

(* ---- __str__ = ARC-4 type string ---- *)
Theorem py_str_type_str : forall t, py_str t = type_str t.
Proof.
  (* the two fixpoints have the same body up to the folding of string constants, which Coq's
     conversion sees through; the induction is kept so that a divergence shows up case by case *)
  induction t as [| | n | | | e n IH | e IH | nm ts IH | n | | k | k] using ty_ind'; simpl;
    reflexivity.
Qed.

(* ---- last character of a string ---- *)
Fixpoint slast (s : string) (d : ascii) : ascii :=
  match s with EmptyString => d | String c r => slast r c end.

Fixpoint llast (l : list ascii) (d : ascii) : ascii :=
  match l with [] => d | c :: r => llast r c end.

Lemma slast_app : forall s t d, slast (s ++ t) d = slast t (slast s d).
Proof. induction s as [|c r IH]; intros t d; simpl; [reflexivity | apply IH]. Qed.

Lemma slast_of_list : forall l d, slast (string_of_list_ascii l) d = llast l d.
Proof. induction l as [|c r IH]; intro d; simpl; [reflexivity | apply IH]. Qed.

Lemma llast_nonempty : forall l d d', l <> [] -> llast l d = llast l d'.
Proof. intros [|c r] d d' H; [congruence | reflexivity]. Qed.

Lemma dec_digits_llast : forall fuel n acc d0,
    acc <> [] -> llast (dec_digits fuel n acc) d0 = llast acc d0.
Proof.
  induction fuel as [|f IH]; intros n acc d0 Hacc; simpl; [reflexivity|].
  destruct (N.ltb n 10).
  - simpl. apply llast_nonempty; exact Hacc.
  - rewrite IH by discriminate. simpl. apply llast_nonempty; exact Hacc.
Qed.

Lemma N_to_dec_last : forall n d, slast (N_to_dec n) d = ascii_of_N (48 + n mod 10).
Proof.
  intros n d. unfold N_to_dec. rewrite slast_of_list.
  cbn [dec_digits]. destruct (N.ltb n 10); [reflexivity|].
  rewrite dec_digits_llast by discriminate. reflexivity.
Qed.

(* classification of the last character: 0 = ")", 1 = "]", 2 = anything else *)
Definition close_class (c : ascii) : N :=
  if Ascii.eqb c ")" then 0%N else if Ascii.eqb c "]" then 1%N else 2%N.
Definition sclass (s : string) : N := close_class (slast s "x").

Lemma close_class_digit : forall n, close_class (ascii_of_N (48 + n mod 10)) = 2%N.
Proof.
  intro n. unfold close_class.
  assert (Hlt : (n mod 10 < 10)%N) by (apply N.mod_lt; discriminate).
  remember (n mod 10)%N as r eqn:Hr. clear Hr.
  assert (Hemb : N_of_ascii (ascii_of_N (48 + r)) = (48 + r)%N) by (apply N_ascii_embedding; lia).
  destruct (Ascii.eqb (ascii_of_N (48 + r)) ")") eqn:E1.
  - apply Ascii.eqb_eq in E1. rewrite E1 in Hemb. change (N_of_ascii ")") with 41%N in Hemb. lia.
  - destruct (Ascii.eqb (ascii_of_N (48 + r)) "]") eqn:E2; [|reflexivity].
    apply Ascii.eqb_eq in E2. rewrite E2 in Hemb. change (N_of_ascii "]") with 93%N in Hemb. lia.
Qed.

(* the class of a spec's string: tuples end in ")", proper arrays in "]" *)
Definition sck (t : ty) : N :=
  match t with
  | TTuple _ _ => 0%N
  | TStaticArray _ _ | TDynArray _ | TStaticBytes _ | TDynBytes => 1%N
  | _ => 2%N
  end.

Theorem sclass_py_str : forall t, sclass (py_str t) = sck t.
Proof.
  intro t. unfold sclass. destruct t as [| | n | | | e n | e | nm ts | n | | k | k]; cbn [py_str sck];
    try reflexivity.
  - (* uint *) rewrite slast_app, N_to_dec_last. apply close_class_digit.
  - (* T[n] *) rewrite !slast_app. reflexivity.
  - (* T[] *) rewrite slast_app. reflexivity.
  - (* tuple *) rewrite !slast_app. reflexivity.
  - (* byte[n] *) rewrite !slast_app. reflexivity.
  - destruct k; reflexivity.
  - destruct k; reflexivity.
Qed.

(* ---- subclass table: reflexive; a spec is an instance of its own class ---- *)
Lemma pyclass_eqb_refl : forall c, pyclass_eqb c c = true.
Proof. destruct c; simpl; try reflexivity; try apply N.eqb_refl; destruct k; reflexivity. Qed.

Lemma subclass_refl : forall c, subclass c c = true.
Proof. intro c. unfold subclass. simpl. rewrite pyclass_eqb_refl. reflexivity. Qed.

Lemma isinst_self : forall t, isinst t (cls_of t) = true.
Proof. intro t. apply subclass_refl. Qed.

(* ---- the modelled `==` ---- *)
Lemma py_eq_flat_sound : forall a b, py_eq_flat a b = true -> canon a = canon b.
Proof.
  intros a b H. destruct a, b; simpl in H; try discriminate; try reflexivity.
  - apply N.eqb_eq in H; subst; reflexivity.
  - destruct k, k0; simpl in H; try discriminate; reflexivity.
Qed.

Lemma py_eq_flat_byte : forall e, py_eq_flat TByte e = true -> e = TByte.
Proof. destruct e; simpl; congruence. Qed.

(* specs that compare equal have the same layout *)
Theorem py_eq_sound : forall a b, py_eq a b = true -> canon a = canon b.
Proof.
  induction a as [| | n | | | e n IH | e IH | nm ts IH | n | | k | k] using ty_ind'; intros b H;
    try (apply py_eq_flat_sound; exact H).
  - destruct b; simpl in H; try discriminate; reflexivity.
  - destruct b; simpl in H; try discriminate; reflexivity.
  - destruct b as [| | | | | eb m | | | m | | |]; simpl in H; try discriminate.
    + apply andb_true_iff in H as [H1 H2]. apply IH in H1. apply N.eqb_eq in H2. simpl. congruence.
    + apply andb_true_iff in H as [H1 H2]. apply py_eq_flat_byte in H1. apply N.eqb_eq in H2. subst. reflexivity.
  - destruct b; simpl in H; try discriminate. apply IH in H. simpl. congruence.
  - destruct b as [| | | | | | | nb tbs | | | |]; simpl in H; try discriminate.
    apply andb_true_iff in H as [_ H]. simpl. f_equal.
    revert tbs H. induction IH as [|x r Hx _ IHr]; intros [|y r2] H; try discriminate; try reflexivity.
    apply andb_true_iff in H as [Ha Hb]. simpl. rewrite (Hx _ Ha), (IHr _ Hb). reflexivity.
  - destruct b as [| | | | | eb m | | | m | | |]; simpl in H; try discriminate.
    + apply N.eqb_eq in H; subst; reflexivity.
    + apply andb_true_iff in H as [H1 H2]. apply py_eq_flat_byte in H1. apply N.eqb_eq in H2. subst. reflexivity.
    + apply N.eqb_eq in H; subst; reflexivity.
  - destruct b; simpl in H; try discriminate; reflexivity.
Qed.

Theorem py_eq_refl : forall a, py_eq a a = true.
Proof.
  induction a as [| | n | | | e n IH | e IH | nm ts IH | n | | k | k] using ty_ind'; simpl;
    try reflexivity; try apply N.eqb_refl.
  - rewrite IH, N.eqb_refl; reflexivity.
  - exact IH.
  - apply andb_true_iff; split.
    + destruct nm as [[c ns]|]; [apply N.eqb_refl | reflexivity].
    + induction IH as [|x r Hx _ IHr]; [reflexivity|]. rewrite Hx; exact IHr.
  - destruct k; reflexivity.
  - destruct k; reflexivity.
Qed.
