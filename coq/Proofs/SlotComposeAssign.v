(* Proofs/SlotComposeAssign.v — what a successful [assign_slots] (Comp/Compile.v, the slot assignment of
   the compile pipeline itself) has computed: every routine is rewritten with ONE function
   [look_of asg], and that function is injective on the slots of the program and (when requested ids are
   valid scratch numbers, which the ScratchSlot constructor guarantees) below 256.

   Property C10 proves the same facts (C10_assign_injective, C10_assign_in_range) for its own, more
   detailed model of scratchslots.py (Comp/Slots.v: slot OBJECTS, Python set order as a parameter).  The
   pipeline model [Compile.assign_slots] is a different Gallina function (slots are uids, requested ids
   come from [p_slots], [sorted] is an insertion sort by id, the "next free" loop has fuel 600), and no
   refinement theorem links the two; so the facts are proved here directly for the function the
   pipeline uses. *)
From Coq Require Import List Arith NArith String Bool Lia Permutation Sorted.
From PV Require Import Base.Bytes AVM.Syntax Src.Expr Comp.Blocks Comp.Lower Comp.Passes Comp.Compile
  Proofs.SlotCompose.
Import ListNotations.

(* ================================================================================================ *)
(* 1. sort_dedup, insert_by_id                                                                       *)
(* ================================================================================================ *)
Lemma mem_N_iff x l : mem_N x l = true <-> In x l.
Proof.
  induction l as [|y t IH]; cbn [mem_N In]; [split; [discriminate|tauto]|].
  rewrite orb_true_iff, IH, N.eqb_eq. split; intros [H|H]; auto.
Qed.

Lemma insert_sorted_ss x l : StronglySorted N.lt l -> StronglySorted N.lt (insert_sorted x l).
Proof.
  induction l as [|y t IH]; intros S; cbn [insert_sorted].
  - constructor; constructor.
  - inversion S as [|? ? St Ft]; subst.
    destruct (N.eqb_spec x y) as [E|E]; [exact S|].
    destruct (N.ltb_spec x y) as [L|L].
    + constructor; [exact S|]. constructor; [exact L|].
      rewrite Forall_forall in *. intros z Hz. specialize (Ft z Hz). lia.
    + constructor; [apply IH; exact St|].
      rewrite Forall_forall in *. intros z Hz. apply in_insert_sorted' in Hz.
      destruct Hz as [->|Hz]; [lia|apply Ft; exact Hz].
Qed.

Lemma sort_dedup_ss l : StronglySorted N.lt (sort_dedup l).
Proof. unfold sort_dedup. induction l as [|x t IH]; cbn [fold_right]; [constructor|apply insert_sorted_ss; exact IH]. Qed.

Lemma ss_lt_nodup l : StronglySorted N.lt l -> NoDup l.
Proof.
  induction 1 as [|x t St IH Ft]; constructor; [|exact IH].
  intros Hx. rewrite Forall_forall in Ft. specialize (Ft x Hx). lia.
Qed.

Lemma sort_dedup_nodup l : NoDup (sort_dedup l).
Proof. apply ss_lt_nodup, sort_dedup_ss. Qed.

Lemma insert_sorted_in x l : StronglySorted N.lt l -> In x l -> insert_sorted x l = l.
Proof.
  induction l as [|y t IH]; intros S H; [destruct H|]. cbn [insert_sorted].
  inversion S as [|? ? St Ft]; subst.
  destruct (N.eqb_spec x y) as [E|E]; [reflexivity|].
  destruct H as [H|H]; [congruence|].
  rewrite Forall_forall in Ft. specialize (Ft x H).
  destruct (N.ltb_spec x y) as [L|L]; [lia|]. rewrite (IH St H). reflexivity.
Qed.

Lemma insert_sorted_len x l : (List.length (insert_sorted x l) <= S (List.length l))%nat.
Proof.
  induction l as [|y t IH]; cbn [insert_sorted List.length]; [lia|].
  destruct (N.eqb x y); [cbn [List.length]; lia|]. destruct (N.ltb x y); cbn [List.length]; lia.
Qed.

Lemma sort_dedup_len l : (List.length (sort_dedup l) <= List.length l)%nat.
Proof.
  unfold sort_dedup. induction l as [|x t IH]; cbn [fold_right List.length]; [lia|].
  pose proof (insert_sorted_len x (fold_right insert_sorted [] t)). lia.
Qed.

(* the check "len(set(ids)) == len(ids)" of the model *)
Lemma dedup_len_nodup l : List.length (sort_dedup l) = List.length l -> NoDup l.
Proof.
  induction l as [|x t IH]; intros H; [constructor|].
  change (sort_dedup (x :: t)) with (insert_sorted x (sort_dedup t)) in H. cbn [List.length] in H.
  pose proof (insert_sorted_len x (sort_dedup t)) as L1. pose proof (sort_dedup_len t) as L2.
  constructor.
  - intros Hx. apply in_sort_dedup' in Hx.
    rewrite (insert_sorted_in x (sort_dedup t) (sort_dedup_ss t) Hx) in H. lia.
  - apply IH. lia.
Qed.

Lemma insert_by_id_perm p x l : Permutation (x :: l) (insert_by_id p x l).
Proof.
  induction l as [|y t IH]; cbn [insert_by_id]; [apply Permutation_refl|].
  destruct (N.ltb (fst (slot_info p x)) (fst (slot_info p y))); [apply Permutation_refl|].
  eapply perm_trans; [apply perm_swap|]. apply perm_skip. exact IH.
Qed.

Definition sorted_slots (p : prog) (all : list N) : list N := fold_right (insert_by_id p) [] all.

Lemma sorted_slots_perm p all : Permutation all (sorted_slots p all).
Proof.
  unfold sorted_slots. induction all as [|x t IH]; cbn [fold_right]; [constructor|].
  eapply perm_trans; [apply perm_skip; exact IH|]. apply insert_by_id_perm.
Qed.

Lemma perm_filter {A} (f : A -> bool) l l' : Permutation l l' -> Permutation (filter f l) (filter f l').
Proof.
  induction 1 as [|x l l' _ IH|x y l|l l' l'' _ IH1 _ IH2]; cbn [filter].
  - constructor.
  - destruct (f x); [apply perm_skip|]; exact IH.
  - destruct (f x), (f y); try apply Permutation_refl. apply perm_swap.
  - eapply perm_trans; eassumption.
Qed.

Lemma filter_split_len {A} (f : A -> bool) l :
  (List.length (filter f l) + List.length (filter (fun x => negb (f x)) l))%nat = List.length l.
Proof. induction l as [|x t IH]; [reflexivity|]. cbn [filter]. destruct (f x); cbn [negb List.length]; lia. Qed.

(* ================================================================================================ *)
(* 2. the numbering loop                                                                             *)
(* ================================================================================================ *)
Definition res (p : prog) (s : N) : bool := snd (slot_info p s).
Definition sid (p : prog) (s : N) : N := fst (slot_info p s).

(* "while nextSlotIndex in slotIds: nextSlotIndex += 1", with the fuel of the model *)
Definition bump (used : list N) : nat -> N -> N :=
  fix bump (fuel : nat) (n : N) : N :=
    match fuel with O => n | S f => if mem_N n used then bump f (n + 1)%N else n end.

Lemma assign_loop_cons p s t next used acc :
  assign_loop p (s :: t) next used acc =
  if res p s then assign_loop p t (bump used 600 next) used ((s, sid p s) :: acc)
  else assign_loop p t (bump used 600 next) (bump used 600 next :: used) ((s, bump used 600 next) :: acc).
Proof.
  transitivity (let next' := bump used 600 next in
                let '(i, r) := slot_info p s in
                if r then assign_loop p t next' used ((s, i) :: acc)
                else assign_loop p t next' (next' :: used) ((s, next') :: acc)).
  - reflexivity.
  - unfold res, sid. destruct (slot_info p s) as [i r]. reflexivity.
Qed.

Lemma bump_spec used : forall fuel n,
  (n <= bump used fuel n)%N /\
  (forall m, (n <= m)%N -> (m < bump used fuel n)%N -> In m used) /\
  (In (bump used fuel n) used -> bump used fuel n = (n + N.of_nat fuel)%N).
Proof.
  induction fuel as [|f IH]; intros n.
  - cbn [bump]. split; [lia|]. split; [intros m A B; lia|intros _; lia].
  - cbn [bump]. destruct (mem_N n used) eqn:M.
    + destruct (IH (n + 1)%N) as (A & B & C). split; [lia|]. split.
      * intros m Hm1 Hm2. destruct (N.eq_dec m n) as [->|Ne]; [apply mem_N_iff; exact M|]. apply B; lia.
      * intros H. rewrite (C H). lia.
    + split; [lia|]. split; [intros m A B; lia|].
      intros H. apply mem_N_iff in H. congruence.
Qed.

(* k consecutive numbers inside a list: the list has at least k elements *)
Lemma range_incl_length (used : list N) (n : N) (k : nat) :
  (forall m, (n <= m)%N -> (m < n + N.of_nat k)%N -> In m used) -> (k <= List.length used)%nat.
Proof.
  intros H. pose (l := map (fun i => (n + N.of_nat i)%N) (seq 0 k)).
  assert (Ll : List.length l = k) by (unfold l; rewrite map_length, seq_length; reflexivity).
  rewrite <- Ll. apply NoDup_incl_length.
  - unfold l. apply FinFun.Injective_map_NoDup; [|apply seq_NoDup]. intros a b E. lia.
  - intros m Hm. unfold l in Hm. apply in_map_iff in Hm. destruct Hm as (i & <- & Hi). apply in_seq in Hi.
    apply H; lia.
Qed.

Section Loop.
  Variable p : prog.
  Variable K : nat.                     (* number of distinct slots of the program *)
  Hypothesis K256 : (K <= 256)%nat.

  Record linv (slots : list N) (next : N) (used : list N) (acc : list (N * N)) : Prop := mkLinv {
    li_below : forall m, (m < next)%N -> In m used;
    li_nodup : NoDup used;
    li_count : (List.length used + List.length (filter (fun s => negb (res p s)) slots))%nat = K;
    li_vals : NoDup (map snd acc ++ map (sid p) (filter (res p) slots));
    li_vals_used : forall n, In n (map snd acc ++ map (sid p) (filter (res p) slots)) -> In n used;
    li_range : forall s n, In (s, n) acc -> (n < 256)%N \/ (res p s = true /\ n = sid p s)
  }.

  Lemma assign_loop_inv : forall slots next used acc,
    linv slots next used acc ->
    (exists next' used', linv [] next' used' (assign_loop p slots next used acc)) /\
    map fst (assign_loop p slots next used acc) = rev slots ++ map fst acc.
  Proof.
    induction slots as [|s t IH]; intros next used acc I.
    - cbn [assign_loop rev app]. split; [eauto|reflexivity].
    - rewrite assign_loop_cons.
      destruct (bump_spec used 600 next) as (B1 & B2 & B3).
      set (next' := bump used 600 next) in *.
      assert (Below : forall m, (m < next')%N -> In m used).
      { intros m Hm. destruct (N.lt_ge_cases m next) as [L|L]; [exact (li_below _ _ _ _ I m L)|exact (B2 m L Hm)]. }
      assert (Len : (N.to_nat next' <= List.length used)%nat).
      { apply (range_incl_length used 0%N). intros m _ Hm. apply Below. lia. }
      assert (LK : (List.length used <= K)%nat) by (pose proof (li_count _ _ _ _ I); lia).
      assert (Fresh : ~ In next' used).
      { intros Hin. specialize (B3 Hin). change (N.of_nat 600) with 600%N in B3. lia. }
      destruct (res p s) eqn:R.
      + assert (I' : linv t next' used ((s, sid p s) :: acc)).
        { destruct I as [I1 I2 I3 I4 I5 I6]. cbn [filter] in I3, I4, I5. rewrite R in I3, I4, I5. cbn [negb map] in I3, I4, I5.
          constructor.
          - exact Below.
          - exact I2.
          - exact I3.
          - cbn [map snd app]. eapply Permutation_NoDup; [|exact I4]. apply Permutation_sym, Permutation_middle.
          - intros n Hn. apply I5. cbn [map snd app] in Hn.
            eapply Permutation_in; [|exact Hn]. apply Permutation_middle.
          - intros s0 n [E|Hin]; [injection E as <- <-; right; split; [exact R|reflexivity]|exact (I6 s0 n Hin)]. }
        destruct (IH next' used _ I') as [X Y]. split; [exact X|].
        rewrite Y. cbn [map fst rev]. rewrite <- app_assoc. reflexivity.
      + assert (I' : linv t next' (next' :: used) ((s, next') :: acc)).
        { destruct I as [I1 I2 I3 I4 I5 I6]. cbn [filter] in I3, I4, I5. rewrite R in I3, I4, I5. cbn [negb List.length] in I3, I4, I5.
          constructor.
          - intros m Hm. right. exact (Below m Hm).
          - constructor; assumption.
          - cbn [List.length]. lia.
          - cbn [map snd app]. constructor; [|exact I4]. intros Hin. apply Fresh, I5. exact Hin.
          - intros n Hn. cbn [map snd app] in Hn. destruct Hn as [<-|Hn]; [left; reflexivity|right; exact (I5 n Hn)].
          - intros s0 n [E|Hin]; [|exact (I6 s0 n Hin)]. injection E as <- <-. left. lia. }
        destruct (IH next' (next' :: used) _ I') as [X Y]. split; [exact X|].
        rewrite Y. cbn [map fst rev]. rewrite <- app_assoc. reflexivity.
  Qed.
End Loop.

(* ================================================================================================ *)
(* 3. assign_slots, inverted                                                                         *)
(* ================================================================================================ *)
Definition look_of (asg : list (N * N)) (s : N) : N :=
  match find (fun x => N.eqb (fst x) s) asg with Some (_, n) => n | None => s end.

Definition all_slots (crs : list croutine) : list N := sort_dedup (List.concat (map routine_slots crs)).

Definition reserved_ids (p : prog) (all : list N) : list N := map (sid p) (filter (res p) all).

Lemma assign_slots_inv p crs crs' locals asg :
  assign_slots p crs = COk (crs', locals, asg) ->
  NoDup (reserved_ids p (all_slots crs)) /\
  (List.length (all_slots crs) <= 256)%nat /\
  asg = assign_loop p (sorted_slots p (all_slots crs)) 0%N (sort_dedup (reserved_ids p (all_slots crs))) [] /\
  crs' = map (rw_routine (look_of asg)) crs.
Proof.
  intros H. unfold assign_slots in H. cbv zeta in H.
  fold (all_slots crs) in H.
  change (map (fun s => fst (slot_info p s)) (filter (fun s' => snd (slot_info p s')) (all_slots crs)))
    with (reserved_ids p (all_slots crs)) in H.
  destruct (Nat.eqb (List.length (sort_dedup (reserved_ids p (all_slots crs))))
                    (List.length (reserved_ids p (all_slots crs)))) eqn:E1; cbn [negb] in H; [|discriminate H].
  destruct (Nat.ltb 256 (List.length (all_slots crs))) eqn:E2; [discriminate H|].
  match type of H with
  | match ?X with _ => _ end = _ => destruct X as [[|]|]; try discriminate H
  end.
  injection H as H1 H2 H3.
  apply Nat.eqb_eq in E1. apply Nat.ltb_ge in E2.
  split; [apply dedup_len_nodup; exact E1|]. split; [exact E2|].
  split; [symmetry; exact H3|]. rewrite <- H1, H3. reflexivity.
Qed.

Lemma routine_slots_in_all crs cr u : In cr crs -> In u (routine_slots cr) -> In u (all_slots crs).
Proof.
  intros Hc Hu. unfold all_slots. apply in_sort_dedup', in_concat.
  exists (routine_slots cr). split; [apply in_map; exact Hc|exact Hu].
Qed.

Lemma all_slots_nodup crs : NoDup (all_slots crs).
Proof. apply sort_dedup_nodup. Qed.

(* lookups in an association list with distinct keys *)
Lemma look_of_in asg s n : NoDup (map fst asg) -> In (s, n) asg -> look_of asg s = n.
Proof.
  unfold look_of. induction asg as [|[k v] t IH]; intros ND Hin; [destruct Hin|].
  cbn [find fst]. cbn [map fst] in ND. inversion ND as [|? ? Hk Ht]; subst.
  destruct (N.eqb_spec k s) as [E|E].
  - subst k. destruct Hin as [Hin|Hin]; [congruence|].
    exfalso. apply Hk. apply in_map_iff. exists (s, n). split; [reflexivity|exact Hin].
  - destruct Hin as [Hin|Hin]; [congruence|]. apply IH; assumption.
Qed.

Lemma in_map_fst_ex {A B} (l : list (A * B)) a : In a (map fst l) -> exists b, In (a, b) l.
Proof. intros H. apply in_map_iff in H. destruct H as ([a' b] & E & H). cbn in E. subst. eauto. Qed.

Lemma nodup_snd_inj {A B} (l : list (A * B)) a a' b :
  NoDup (map snd l) -> In (a, b) l -> In (a', b) l -> a = a'.
Proof.
  induction l as [|[x y] t IH]; intros ND H1 H2; [destruct H1|].
  cbn [map snd] in ND. inversion ND as [|? ? Hy Ht]; subst.
  destruct H1 as [H1|H1], H2 as [H2|H2].
  - congruence.
  - injection H1 as -> ->. exfalso. apply Hy. apply in_map_iff. exists (a', b). split; [reflexivity|exact H2].
  - injection H2 as -> ->. exfalso. apply Hy. apply in_map_iff. exists (a, b). split; [reflexivity|exact H1].
  - apply IH; assumption.
Qed.

(* everything the loop invariant says about the final assignment *)
Lemma assign_slots_facts p crs crs' locals asg :
  assign_slots p crs = COk (crs', locals, asg) ->
  crs' = map (rw_routine (look_of asg)) crs /\
  NoDup (map fst asg) /\ NoDup (map snd asg) /\
  (forall s, In s (all_slots crs) <-> In s (map fst asg)) /\
  (forall s n, In (s, n) asg -> (n < 256)%N \/ (res p s = true /\ n = sid p s)).
Proof.
  intros H. destruct (assign_slots_inv p crs crs' locals asg H) as (ND & L & Ea & Ec).
  set (all := all_slots crs) in *.
  pose proof (sorted_slots_perm p all) as P.
  assert (I0 : linv p (List.length all) (sorted_slots p all) 0%N (sort_dedup (reserved_ids p all)) []).
  { constructor.
    - intros m Hm. lia.
    - apply sort_dedup_nodup.
    - pose proof (dedup_len_nodup (reserved_ids p all)) as _.
      assert (E1 : List.length (sort_dedup (reserved_ids p all)) = List.length (filter (res p) all)).
      { assert (Q : List.length (sort_dedup (reserved_ids p all)) = List.length (reserved_ids p all)).
        { apply Nat.le_antisymm; [apply sort_dedup_len|].
          apply NoDup_incl_length; [exact ND|]. intros x Hx. apply in_sort_dedup'. exact Hx. }
        rewrite Q. unfold reserved_ids. apply map_length. }
      rewrite E1.
      rewrite <- (Permutation_length (perm_filter (fun s => negb (res p s)) _ _ P)).
      apply filter_split_len.
    - cbn [map app]. eapply Permutation_NoDup; [|exact ND]. unfold reserved_ids.
      apply Permutation_map, perm_filter. exact P.
    - cbn [map app]. intros n Hn. apply in_sort_dedup'. unfold reserved_ids.
      eapply Permutation_in; [|exact Hn]. apply Permutation_map, perm_filter, Permutation_sym. exact P.
    - intros s n []. }
  destruct (assign_loop_inv p (List.length all) L _ _ _ _ I0) as [(next' & used' & I) Ef].
  rewrite <- Ea in I, Ef. cbn [map app] in Ef. rewrite app_nil_r in Ef.
  split; [exact Ec|]. split; [|split; [|split]].
  - rewrite Ef. apply NoDup_rev. eapply Permutation_NoDup; [exact P|apply all_slots_nodup].
  - pose proof (li_vals _ _ _ _ _ _ I) as V. cbn [filter map] in V. rewrite app_nil_r in V. exact V.
  - intros s. rewrite Ef, <- in_rev. split; intros Hs; eapply Permutation_in; try exact Hs; [exact P|apply Permutation_sym; exact P].
  - exact (li_range _ _ _ _ _ _ I).
Qed.

(* ================================================================================================ *)
(* 4. the two facts the composition needs                                                            *)
(* ================================================================================================ *)
(* requested ids are scratch numbers (ScratchSlot.__init__ rejects anything else; C10_constructor_rejects) *)
Definition requested_valid (p : prog) (l : list N) : Prop :=
  forall s, In s l -> res p s = true -> (sid p s < 256)%N.

(* a sufficient condition on the program record alone *)
Lemma requested_valid_of_table p l :
  (forall u i, In (u, (i, true)) (p_slots p) -> (i < 256)%N) -> requested_valid p l.
Proof.
  intros H s _. unfold res, sid, slot_info.
  destruct (find (fun x => N.eqb (fst x) s) (p_slots p)) as [[u [i r]]|] eqn:F.
  - cbn [fst snd]. intros ->. apply find_some in F. exact (H u i (proj1 F)).
  - cbn [fst snd]. intros L. apply N.ltb_lt. exact L.
Qed.

Theorem assign_look_injective p crs crs' locals asg :
  assign_slots p crs = COk (crs', locals, asg) ->
  forall s1 s2, In s1 (all_slots crs) -> In s2 (all_slots crs) ->
    look_of asg s1 = look_of asg s2 -> s1 = s2.
Proof.
  intros H s1 s2 H1 H2 E.
  destruct (assign_slots_facts p crs crs' locals asg H) as (_ & NF & NS & Dom & _).
  destruct (in_map_fst_ex asg s1 (proj1 (Dom s1) H1)) as (n1 & I1).
  destruct (in_map_fst_ex asg s2 (proj1 (Dom s2) H2)) as (n2 & I2).
  rewrite (look_of_in asg s1 n1 NF I1), (look_of_in asg s2 n2 NF I2) in E. subst n2.
  exact (nodup_snd_inj asg s1 s2 n1 NS I1 I2).
Qed.

Theorem assign_look_in_range p crs crs' locals asg :
  assign_slots p crs = COk (crs', locals, asg) ->
  requested_valid p (all_slots crs) ->
  forall s, In s (all_slots crs) -> (look_of asg s < 256)%N.
Proof.
  intros H V s Hs.
  destruct (assign_slots_facts p crs crs' locals asg H) as (_ & NF & _ & Dom & R).
  destruct (in_map_fst_ex asg s (proj1 (Dom s) Hs)) as (n & I).
  rewrite (look_of_in asg s n NF I). destruct (R s n I) as [L|[Rs ->]]; [exact L|exact (V s Hs Rs)].
Qed.

(* a requested id is respected *)
Theorem assign_look_requested p crs crs' locals asg :
  assign_slots p crs = COk (crs', locals, asg) ->
  forall s, In s (all_slots crs) -> res p s = true -> look_of asg s = sid p s.
Proof.
  intros H s Hs Rs.
  destruct (assign_slots_inv p crs crs' locals asg H) as (ND & L & Ea & _).
  destruct (assign_slots_facts p crs crs' locals asg H) as (_ & NF & _ & Dom & _).
  destruct (in_map_fst_ex asg s (proj1 (Dom s) Hs)) as (n & I).
  rewrite (look_of_in asg s n NF I).
  (* every pair of a reserved slot carries its id: a second, simpler invariant of the loop *)
  assert (G : forall slots next used acc,
             (forall s n, In (s, n) acc -> res p s = true -> n = sid p s) ->
             forall s n, In (s, n) (assign_loop p slots next used acc) -> res p s = true -> n = sid p s).
  { induction slots as [|s0 t IH]; intros next used acc Hacc s1 n1 Hin R1; [exact (Hacc s1 n1 Hin R1)|].
    rewrite assign_loop_cons in Hin. generalize dependent (bump used 600 next). intros nx Hin. destruct (res p s0) eqn:R0.
    - refine (IH _ _ _ _ s1 n1 Hin R1). intros s2 n2 [E|Hi] R2; [injection E as <- <-; reflexivity|exact (Hacc s2 n2 Hi R2)].
    - refine (IH _ _ _ _ s1 n1 Hin R1). intros s2 n2 [E|Hi] R2; [injection E as <- <-; rewrite R0 in R2; discriminate R2|exact (Hacc s2 n2 Hi R2)]. }
  rewrite Ea in I. exact (G _ _ _ [] (fun _ _ F => match F with end) s n I Rs).
Qed.

(* every routine of the result is the rewrite of the routine at the same position *)
Lemma assign_slots_routines p crs crs' locals asg :
  assign_slots p crs = COk (crs', locals, asg) ->
  forall cr, In cr crs -> In (rw_routine (look_of asg) cr) crs'.
Proof.
  intros H cr Hc. destruct (assign_slots_inv p crs crs' locals asg H) as (_ & _ & _ & ->).
  apply in_map. exact Hc.
Qed.

(* "each variable a cell of its own": the assigned numbers of two different variables of the program are
   different scratch cells, so writing one leaves the other alone *)
Theorem assigned_cells_disjoint p crs crs' locals asg :
  assign_slots p crs = COk (crs', locals, asg) ->
  forall u1 u2, In u1 (all_slots crs) -> In u2 (all_slots crs) -> u1 <> u2 ->
    look_of asg u1 <> look_of asg u2.
Proof. intros H u1 u2 H1 H2 Ne E. exact (Ne (assign_look_injective p crs crs' locals asg H u1 u2 H1 H2 E)). Qed.
