(* Proofs/C18Text.v — C18, text level: what the assembler's tokeniser reads of comment lines, of
   subroutine labels and of the subroutine header "\n// name\nlabel:"; str.splitlines() never leaves a
   line break inside a line. *)
From Coq Require Import List Arith NArith Ascii String Bool Lia.
From PV Require Import Base.Bytes Base.Sexp AVM.Syntax AVM.Machine AVM.Parse Src.Expr Comp.Assemble Comp.Compile Comp.Annotate.
Import ListNotations.
Local Open Scope string_scope.

(* ---- strings as lists ---- *)
Lemma los_app a b : list_ascii_of_string (a ++ b) = (list_ascii_of_string a ++ list_ascii_of_string b)%list.
Proof. induction a as [|c a IH]; cbn; [reflexivity|]. now rewrite IH. Qed.

Lemma los_sol l : list_ascii_of_string (string_of_list_ascii l) = l.
Proof. apply list_ascii_of_string_of_list_ascii. Qed.

Lemma sol_los s : string_of_list_ascii (list_ascii_of_string s) = s.
Proof. apply string_of_list_ascii_of_string. Qed.

Lemma sol_app a b : string_of_list_ascii (a ++ b)%list = string_of_list_ascii a ++ string_of_list_ascii b.
Proof. induction a as [|c a IH]; cbn; [reflexivity|]. now rewrite IH. Qed.

(* ---- splitlines: no line of the result contains a line-break character ---- *)
Definition no_break (l : list ascii) : Prop := Forall (fun c => is_linebreak c = false) l.

Lemma splitlines_l_no_break_n : forall n s cur,
  List.length s <= n -> no_break cur ->
  Forall (fun ln => no_break (list_ascii_of_string ln)) (splitlines_l s cur).
Proof.
  induction n as [|n IH]; intros s cur Hn Hc; destruct s as [|c t]; cbn [splitlines_l]; cbn [List.length] in Hn; try lia.
  - destruct cur as [|a cur']; [constructor|].
    constructor; [|constructor]. unfold line_of. rewrite los_sol. apply Forall_rev. exact Hc.
  - destruct cur as [|a cur']; [constructor|].
    constructor; [|constructor]. unfold line_of. rewrite los_sol. apply Forall_rev. exact Hc.
  - destruct (is_linebreak c) eqn:Eb.
    + constructor.
      * unfold line_of. rewrite los_sol. apply Forall_rev. exact Hc.
      * destruct t as [|c2 t2]; [apply IH; [cbn; lia|constructor]|].
        cbn [List.length] in Hn.
        destruct (Ascii.eqb c (ascii_of_N 13) && Ascii.eqb c2 (ascii_of_N 10)); apply IH; try constructor; cbn [List.length]; lia.
    + apply IH; [lia|]. constructor; assumption.
Qed.

Lemma splitlines_l_no_break : forall s cur,
  no_break cur ->
  Forall (fun ln => no_break (list_ascii_of_string ln)) (splitlines_l s cur).
Proof. intros s cur. apply (splitlines_l_no_break_n (List.length s)). lia. Qed.

Theorem splitlines_no_break : forall text ln,
  In ln (splitlines text) -> no_break (list_ascii_of_string ln).
Proof.
  intros text ln H. unfold splitlines in H.
  pose proof (splitlines_l_no_break (list_ascii_of_string text) [] (Forall_nil _)) as F.
  rewrite Forall_forall in F. apply F. exact H.
Qed.

Definition newline : ascii := chr 10.
Definition no_nl (l : list ascii) : Prop := Forall (fun c => c <> newline) l.

Lemma linebreak_nl : is_linebreak newline = true.
Proof. reflexivity. Qed.

Lemma no_break_no_nl l : no_break l -> no_nl l.
Proof.
  intros H. induction H as [|c l Hc _ IH]; constructor; [|exact IH].
  intros ->. rewrite linebreak_nl in Hc. discriminate.
Qed.

(* CommentExpr's constructor check (no \n, no \r) always passes on the lines Comment() produces *)
Theorem comment_lines_accepted : forall text ln,
  In ln (splitlines text) ->
  Forall (fun c => c <> chr 10 /\ c <> chr 13) (list_ascii_of_string ln).
Proof.
  intros text ln H. pose proof (splitlines_no_break text ln H) as F.
  induction F as [|c l Hc _ IH]; constructor; [|exact IH].
  split; intros ->; vm_compute in Hc; discriminate.
Qed.

(* ---- the tokeniser on one line ---- *)
(* a line that starts with // yields no token, whatever follows *)
Lemma tokens_comment_line : forall rest, tokens_of_line ("//" ++ rest) = [].
Proof. intros rest. reflexivity. Qed.

Lemma assemble_comment_op : forall ln, assemble_instr (mkI O_comment [AStr ln]) = Some ("// " ++ ln).
Proof. intros ln. reflexivity. Qed.

(* characters that simply extend the current token outside strings *)
Definition plain (c : ascii) : bool :=
  negb (is_space c) && negb (Ascii.eqb c """") && negb (Ascii.eqb c "/") &&
  negb (Ascii.eqb c "(") && negb (Ascii.eqb c ")") && negb (Ascii.eqb c ";").

Lemma tok_plain : forall s cur acc b64,
  forallb plain s = true ->
  tok_line s cur false false b64 acc =
  rev (match (rev s ++ cur)%list with [] => acc | x => str_of x :: acc end).
Proof.
  induction s as [|c t IH]; intros cur acc b64 H.
  - cbn. destruct cur; reflexivity.
  - cbn [forallb] in H. apply andb_prop in H. destruct H as [Hc Ht].
    unfold plain in Hc.
    repeat (apply andb_prop in Hc; let X := fresh "X" in destruct Hc as [Hc X]; apply negb_true_iff in X).
    apply negb_true_iff in Hc.
    cbn [tok_line]. rewrite Hc, X3, X2, X1, X0, X.
    rewrite IH by exact Ht. cbn [rev]. rewrite <- app_assoc. reflexivity.
Qed.

Lemma tokens_plain : forall s, s <> [] -> forallb plain s = true ->
  tokens_of_line (string_of_list_ascii s) = [string_of_list_ascii s].
Proof.
  intros s Hne H. unfold tokens_of_line. rewrite los_sol, tok_plain by exact H.
  rewrite app_nil_r. destruct (rev s) eqn:E.
  - apply (f_equal (@rev ascii)) in E. rewrite rev_involutive in E. cbn in E. congruence.
  - rewrite <- E. unfold str_of. rewrite rev_involutive. reflexivity.
Qed.

(* ---- label characters ---- *)
Definition label_char (c : ascii) : bool := is_alnum c || Ascii.eqb c "_".

Lemma label_char_plain : forall c, label_char c = true -> plain c = true.
Proof. intros c. destruct c as [[] [] [] [] [] [] [] []]; vm_compute; intros H; congruence. Qed.

Lemma colon_plain : plain ":" = true.
Proof. reflexivity. Qed.

Lemma label_char_not_hash : forall c, label_char c = true -> Ascii.eqb c "#" = false.
Proof. intros c. destruct c as [[] [] [] [] [] [] [] []]; vm_compute; intros H; congruence. Qed.

Lemma label_char_not_nl : forall c, label_char c = true -> c <> newline.
Proof. intros c H ->. vm_compute in H. discriminate. Qed.

Lemma sanitize_chars : forall name, forallb label_char (list_ascii_of_string (sanitize name)) = true.
Proof.
  intros name. unfold sanitize. rewrite los_sol.
  induction (list_ascii_of_string name) as [|c l IH]; [reflexivity|].
  cbn [filter]. destruct (is_alnum c) eqn:E; [|exact IH].
  cbn [forallb]. unfold label_char at 1. rewrite E. exact IH.
Qed.

Lemma digit_label_char : forall n, (n < 10)%N -> label_char (ascii_of_N (48 + n)) = true.
Proof.
  intros n H.
  assert (D : (n = 0 \/ n = 1 \/ n = 2 \/ n = 3 \/ n = 4 \/ n = 5 \/ n = 6 \/ n = 7 \/ n = 8 \/ n = 9)%N) by lia.
  repeat (destruct D as [-> | D]; [reflexivity|]). subst; reflexivity.
Qed.

Lemma dec_digits_chars : forall fuel n acc,
  forallb label_char acc = true -> forallb label_char (dec_digits fuel n acc) = true.
Proof.
  induction fuel as [|f IH]; intros n acc H; [exact H|].
  cbn [dec_digits].
  assert (Hd : label_char (ascii_of_N (48 + n mod 10)) = true).
  { apply digit_label_char. apply N.mod_lt. discriminate. }
  destruct (N.ltb n 10).
  - cbn [forallb]. now rewrite Hd.
  - apply IH. cbn [forallb]. now rewrite Hd.
Qed.

Lemma N_to_dec_chars : forall n, forallb label_char (list_ascii_of_string (N_to_dec n)) = true.
Proof. intros n. unfold N_to_dec. rewrite los_sol. apply dec_digits_chars. reflexivity. Qed.

(* every subroutine label consists of [A-Za-z0-9_] only, whatever the name *)
Theorem sub_label_chars : forall name i,
  forallb label_char (list_ascii_of_string (sub_label name i)) = true.
Proof.
  intros name i. unfold sub_label. rewrite !los_app, !forallb_app.
  rewrite sanitize_chars, N_to_dec_chars. reflexivity.
Qed.

Lemma sub_label_nonempty : forall name i, list_ascii_of_string (sub_label name i) <> [].
Proof.
  intros name i. unfold sub_label. rewrite !los_app. cbn.
  destruct (list_ascii_of_string (sanitize name)); discriminate.
Qed.

(* ---- ends_with_colon on  l ++ ":" ---- *)
Lemma length_app_str a b : String.length (a ++ b) = (String.length a + String.length b)%nat.
Proof. induction a as [|c a IH]; cbn; [reflexivity|]. now rewrite IH. Qed.

Lemma substring_all : forall s, substring 0 (String.length s) s = s.
Proof. induction s as [|c s IH]; cbn; [reflexivity|]. now rewrite IH. Qed.

Lemma substring_prefix : forall a b, substring 0 (String.length a) (a ++ b) = a.
Proof.
  induction a as [|c a IH]; intros b; cbn.
  - destruct b; reflexivity.
  - now rewrite IH.
Qed.

Lemma substring_skip : forall a b n, substring (String.length a) n (a ++ b) = substring 0 n b.
Proof. induction a as [|c a IH]; intros b n; cbn; [reflexivity|]. apply IH. Qed.

Lemma ends_with_colon_app : forall l, l <> "" -> ends_with_colon (l ++ ":") = Some l.
Proof.
  intros l Hne. unfold ends_with_colon. rewrite length_app_str. cbn [String.length].
  replace (String.length l + 1 - 1)%nat with (String.length l) by lia.
  assert (L : (1 <? String.length l + 1)%nat = true).
  { apply Nat.ltb_lt. destruct l; [congruence|cbn; lia]. }
  rewrite L, substring_skip. cbn. rewrite substring_prefix. reflexivity.
Qed.

(* ---- a label line is exactly one label statement ---- *)
Lemma eqb_pragma_false : forall c s, Ascii.eqb c "#" = false -> String.eqb (String c s) "#pragma" = false.
Proof. intros c s H. cbn. now rewrite H. Qed.

Theorem label_line_statement : forall msel l,
  l <> "" -> forallb label_char (list_ascii_of_string l) = true ->
  tokens_of_line (l ++ ":") = [l ++ ":"] /\
  parse_stmt msel [l ++ ":"] = Some (Some (SLabel l)).
Proof.
  intros msel l Hne Hc. split.
  - rewrite <- (sol_los (l ++ ":")). apply tokens_plain.
    + rewrite los_app. destruct (list_ascii_of_string l); discriminate.
    + rewrite los_app, forallb_app. cbn. rewrite andb_true_r.
      apply forallb_forall. intros c Hin. apply label_char_plain.
      rewrite forallb_forall in Hc. apply Hc. exact Hin.
  - unfold parse_stmt.
    destruct l as [|c l']; [congruence|].
    cbn [append]. rewrite eqb_pragma_false.
    2:{ apply label_char_not_hash. cbn in Hc. apply andb_prop in Hc. apply Hc. }
    change (String c (l' ++ ":")) with (String c l' ++ ":").
    rewrite ends_with_colon_app by discriminate. reflexivity.
Qed.

(* ---- whole texts: lines ---- *)
Lemma split_lines_no_nl : forall s cur, no_nl s -> split_lines s cur = [str_of (rev s ++ cur)%list].
Proof.
  induction s as [|c t IH]; intros cur H; [reflexivity|].
  inversion H as [|? ? Hc Ht]; subst. cbn [split_lines].
  destruct (Ascii.eqb_spec c (chr 10)) as [E|E]; [exfalso; apply Hc; exact E|].
  rewrite IH by exact Ht. cbn [rev]. rewrite <- app_assoc. reflexivity.
Qed.

Lemma split_lines_app_nl : forall a b cur, no_nl a ->
  split_lines (a ++ newline :: b)%list cur = str_of (rev a ++ cur)%list :: split_lines b [].
Proof.
  induction a as [|c t IH]; intros b cur H.
  - cbn. reflexivity.
  - inversion H as [|? ? Hc Ht]; subst. cbn [app split_lines].
    destruct (Ascii.eqb_spec c (chr 10)) as [E|E]; [exfalso; apply Hc; exact E|].
    rewrite IH by exact Ht. cbn [rev]. rewrite <- app_assoc. reflexivity.
Qed.

Lemma str_of_rev l : str_of (rev l ++ [])%list = string_of_list_ascii l.
Proof. unfold str_of. rewrite app_nil_r, rev_involutive. reflexivity. Qed.

Lemma forallb_label_no_nl l : forallb label_char l = true -> no_nl l.
Proof.
  intros H. rewrite forallb_forall in H. apply Forall_forall. intros c Hin.
  apply label_char_not_nl. apply H. exact Hin.
Qed.

(* ---- comment lines are invisible to the assembler ---- *)
Fixpoint join_nl (ls : list string) : string :=
  match ls with
  | [] => ""
  | [x] => x
  | x :: t => x ++ nl ++ join_nl t
  end.

Definition is_comment_line (ln : string) : bool :=
  match ln with String a (String b _) => Ascii.eqb a "/" && Ascii.eqb b "/" | _ => false end.

Lemma split_lines_join : forall ls, ls <> [] ->
  Forall (fun ln => no_nl (list_ascii_of_string ln)) ls ->
  split_lines (list_ascii_of_string (join_nl ls)) [] = ls.
Proof.
  induction ls as [|x t IH]; intros Hne H; [congruence|].
  inversion H as [|? ? Hx Ht]; subst.
  destruct t as [|y t'].
  - cbn [join_nl]. rewrite split_lines_no_nl by exact Hx. rewrite str_of_rev, sol_los. reflexivity.
  - change (join_nl (x :: y :: t')) with (x ++ nl ++ join_nl (y :: t')).
    rewrite !los_app. change (list_ascii_of_string nl) with [newline]. cbn [app].
    rewrite split_lines_app_nl by exact Hx. rewrite str_of_rev, sol_los.
    rewrite IH; [reflexivity|discriminate|exact Ht].
Qed.

Lemma comment_line_tokens : forall ln, is_comment_line ln = true -> tokens_of_line ln = [].
Proof.
  intros ln H. unfold is_comment_line in H.
  destruct ln as [|a [|b r]]; try discriminate.
  apply andb_prop in H. destruct H as [Ha Hb].
  apply Ascii.eqb_eq in Ha. apply Ascii.eqb_eq in Hb. subst. reflexivity.
Qed.

Lemma parse_stmts_drop_comments : forall msel ls,
  parse_stmts msel (flat_map (fun ln => split_semis (tokens_of_line ln) []) ls) =
  parse_stmts msel (flat_map (fun ln => split_semis (tokens_of_line ln) [])
                             (filter (fun ln => negb (is_comment_line ln)) ls)).
Proof.
  intros msel ls. induction ls as [|x t IH]; [reflexivity|].
  cbn [flat_map filter]. destruct (is_comment_line x) eqn:E; cbn [negb].
  - rewrite (comment_line_tokens x E). cbn [split_semis rev app parse_stmts].
    change (parse_stmt msel []) with (@Some (option stmt) None). rewrite IH.
    match goal with |- match ?p with _ => _ end = _ => destruct p; reflexivity end.
  - cbn [flat_map].
    generalize (split_semis (tokens_of_line x) []) as ss. intros ss.
    induction ss as [|s ss IHs]; [exact IH|].
    cbn [app parse_stmts]. rewrite IHs. reflexivity.
Qed.

(* a program text read line by line: deleting every line that starts with // (what comment ops, and
   the // name line of a subroutine header, assemble to) does not change the statements *)
Theorem comment_lines_invisible : forall msel ls,
  ls <> [] -> Forall (fun ln => no_nl (list_ascii_of_string ln)) ls ->
  let kept := filter (fun ln => negb (is_comment_line ln)) ls in
  statements_of_text msel (join_nl ls) = statements_of_text msel (join_nl kept).
Proof.
  intros msel ls Hne H kept. unfold statements_of_text.
  rewrite split_lines_join by assumption.
  rewrite parse_stmts_drop_comments. fold kept.
  destruct kept as [|k kt] eqn:Ek.
  - reflexivity.
  - rewrite split_lines_join; [reflexivity|discriminate|].
    rewrite <- Ek. unfold kept. apply Forall_forall. intros x Hin.
    apply filter_In in Hin. rewrite Forall_forall in H. apply H. apply Hin.
Qed.

(* every line Comment(text) produces assembles to such a line *)
Theorem comment_op_line : forall text ln, In ln (splitlines text) ->
  exists s, assemble_instr (mkI O_comment [AStr ln]) = Some s /\
            is_comment_line s = true /\ no_nl (list_ascii_of_string s).
Proof.
  intros text ln H. exists ("// " ++ ln). split; [reflexivity|]. split; [reflexivity|].
  rewrite los_app. apply Forall_app. split.
  - repeat (constructor; [intros X; vm_compute in X; discriminate|]). constructor.
  - apply no_break_no_nl. exact (splitlines_no_break text ln H).
Qed.

(* ---- the subroutine header (TealLabel.assemble since /repo 3627216):
        "\n" ++ one "// line\n" per line of name.splitlines() (or one empty line) ++ "label:" ---- *)
Definition header_lines (name : string) : list string :=
  match splitlines name with [] => [""] | ls => ls end.

Definition header_text (name lbl : string) : string := nl ++ label_comment name ++ lbl ++ ":".

Lemma assemble_sub_header : forall name i,
  assemble_comp (sub_header name i) = Some (header_text name (sub_label name i)).
Proof. reflexivity. Qed.

Lemma app_str_nil_r s : s ++ "" = s.
Proof. induction s as [|c s IH]; cbn; [reflexivity|]. now rewrite IH. Qed.

Lemma app_str_assoc a b c : (a ++ b) ++ c = a ++ b ++ c.
Proof. induction a as [|x a IH]; cbn; [reflexivity|]. now rewrite IH. Qed.

Lemma concat_cons a l : String.concat "" (a :: l) = a ++ String.concat "" l.
Proof. destruct l; cbn [String.concat]; [now rewrite app_str_nil_r|reflexivity]. Qed.

Lemma join_cons x l : l <> [] -> join_nl (x :: l) = x ++ nl ++ join_nl l.
Proof. destruct l; [congruence|reflexivity]. Qed.

Lemma concat_comment_join ls last :
  String.concat "" (map (fun ln => "// " ++ ln ++ nl) ls) ++ last =
  join_nl (map (fun ln => "// " ++ ln) ls ++ [last]).
Proof.
  induction ls as [|x t IH]; [reflexivity|].
  cbn [map]. rewrite concat_cons, app_str_assoc, IH.
  cbn [app]. rewrite join_cons.
  - cbn [append]. rewrite app_str_assoc. reflexivity.
  - destruct (map (fun ln => "// " ++ ln) t); discriminate.
Qed.

Lemma header_lines_no_nl name : Forall (fun ln => no_nl (list_ascii_of_string ln)) (header_lines name).
Proof.
  unfold header_lines. destruct (splitlines name) as [|l ls] eqn:E.
  - constructor; [constructor|constructor].
  - apply Forall_forall. intros ln Hin. apply no_break_no_nl. apply (splitlines_no_break name). rewrite E. exact Hin.
Qed.

Lemma filter_comment_lines ls :
  filter (fun ln => negb (is_comment_line ln)) (map (fun ln => "// " ++ ln) ls) = [].
Proof. induction ls as [|x t IH]; [reflexivity|]. cbn [map filter]. exact IH. Qed.

Lemma label_char_not_slash : forall c, label_char c = true -> Ascii.eqb c "/" = false.
Proof. intros c. destruct c as [[] [] [] [] [] [] [] []]; vm_compute; intros H; congruence. Qed.

(* for EVERY name: the header reads as exactly one statement, the label *)
Theorem header_single_statement : forall msel name lbl,
  lbl <> "" -> forallb label_char (list_ascii_of_string lbl) = true ->
  statements_of_text msel (header_text name lbl) = Some [SLabel lbl].
Proof.
  intros msel name lbl Hne Hl.
  unfold header_text, label_comment. fold (header_lines name).
  rewrite concat_comment_join.
  set (L := List.app (map (fun ln => "// " ++ ln) (header_lines name)) [lbl ++ ":"]).
  assert (LN : L <> []) by (unfold L; destruct (map (fun ln => "// " ++ ln) (header_lines name)); discriminate).
  change (nl ++ join_nl L) with ("" ++ nl ++ join_nl L). rewrite <- (join_cons "" L LN).
  assert (NL : no_nl (list_ascii_of_string (lbl ++ ":"))).
  { rewrite los_app. apply Forall_app. split; [apply forallb_label_no_nl; exact Hl|].
    constructor; [intros X; vm_compute in X; discriminate|constructor]. }
  rewrite comment_lines_invisible; [|discriminate|].
  2:{ constructor; [constructor|]. unfold L. apply Forall_app. split.
      - apply Forall_forall. intros x Hin. apply in_map_iff in Hin. destruct Hin as (ln & <- & Hln).
        pose proof (header_lines_no_nl name) as F. rewrite Forall_forall in F. specialize (F ln Hln).
        change (list_ascii_of_string ("// " ++ ln)) with ("/"%char :: "/"%char :: " "%char :: list_ascii_of_string ln).
        repeat (constructor; [intros X; vm_compute in X; discriminate|]). exact F.
      - constructor; [exact NL|constructor]. }
  assert (NC : is_comment_line (lbl ++ ":") = false).
  { destruct lbl as [|c l']; [congruence|]. cbn in Hl. apply andb_prop in Hl. destruct Hl as [Hc _].
    cbn [append is_comment_line]. destruct (l' ++ ":"); [reflexivity|]. rewrite (label_char_not_slash c Hc). reflexivity. }
  cbn [filter is_comment_line negb]. unfold L. rewrite filter_app, filter_comment_lines. cbn [app filter]. rewrite NC. cbn [negb].
  unfold statements_of_text. rewrite split_lines_join.
  2: discriminate.
  2:{ constructor; [constructor|]. constructor; [exact NL|constructor]. }
  cbn [flat_map]. change (tokens_of_line "") with (@nil string).
  destruct (label_line_statement msel lbl Hne Hl) as [T P].
  rewrite T.
  assert (Hsemi : String.eqb (lbl ++ ":") ";" = false).
  { destruct lbl as [|c l']; [congruence|]. cbn.
    cbn in Hl. apply andb_prop in Hl. destruct Hl as [Hc _].
    destruct (Ascii.eqb_spec c ";") as [->|]; [vm_compute in Hc; discriminate|reflexivity]. }
  cbn [split_semis app rev]. rewrite Hsemi. cbn [split_semis rev app parse_stmts].
  change (parse_stmt msel []) with (@Some (option stmt) None).
  rewrite P. reflexivity.
Qed.

Theorem sub_header_single_statement : forall msel name i,
  statements_of_text msel (header_text name (sub_label name i)) = Some [SLabel (sub_label name i)].
Proof.
  intros msel name i. apply header_single_statement; [|apply sub_label_chars].
  intros E. apply (sub_label_nonempty name i). rewrite E. reflexivity.
Qed.

(* the name that used to inject `int 0; return` (before /repo 3627216) now reads as comments only *)
Definition evil_name : string := "foo" ++ nl ++ "int 0" ++ nl ++ "return".

Example evil_name_header :
  header_text evil_name (sub_label evil_name 0) =
    nl ++ "// foo" ++ nl ++ "// int 0" ++ nl ++ "// return" ++ nl ++ "fooint0return_0:" /\
  statements_of_text [] (header_text evil_name (sub_label evil_name 0)) = Some [SLabel "fooint0return_0"].
Proof. split; vm_compute; reflexivity. Qed.
