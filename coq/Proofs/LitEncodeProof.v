(* Proofs/LitEncodeProof.v — C13: the canonical RFC 4648 spelling of ANY byte string is accepted
   by PyTeal's validators and decodes (specification and assembler) to that byte string. *)
From Coq Require Import List Arith NArith Ascii String Bool Lia.
From PV Require Import Base.Bytes Base.Sexp AVM.Parse Lit.Escape Lit.BaseN Lit.RFC4648
  Proofs.LitArith Proofs.LitBaseNProof.
Import ListNotations.
Local Open Scope N_scope.

Lemma below_cases (P : N -> Prop) (n : nat) :
  (forall k, (k < n)%nat -> P (N.of_nat k)) -> forall v, v < N.of_nat n -> P v.
Proof. intros H v Hv. rewrite <- (N2Nat.id v). apply H. lia. Qed.

Lemma v64_c64 v : v < 64 -> v64 (c64 v) = Some v.
Proof.
  revert v. apply (below_cases _ 64). intros k Hk.
  do 64 (destruct k as [|k]; [reflexivity|]). lia.
Qed.

Lemma v32_c32 v : v < 32 -> v32 (c32 v) = Some v.
Proof.
  revert v. apply (below_cases _ 32). intros k Hk.
  do 32 (destruct k as [|k]; [reflexivity|]). lia.
Qed.

Lemma byte_of_ascii c : byte_of (N_of_ascii c) = c.
Proof. apply ascii_N_embedding. Qed.
Lemma ascii_lt c : N_of_ascii c < 256.
Proof. apply N_ascii_bounded. Qed.

Lemma triple_ind {A} (P : list A -> Prop) :
  P [] -> (forall a, P [a]) -> (forall a b, P [a; b]) ->
  (forall a b c l, P l -> P (a :: b :: c :: l)) -> forall l, P l.
Proof.
  intros H0 H1 H2 H3. fix IH 1. intros [|a [|b [|c l]]]; [exact H0 | apply H1 | apply H2 | apply H3, IH].
Qed.

Lemma five_ind {A} (P : list A -> Prop) :
  P [] -> (forall a, P [a]) -> (forall a b, P [a; b]) -> (forall a b c, P [a; b; c]) ->
  (forall a b c d, P [a; b; c; d]) ->
  (forall a b c d e l, P l -> P (a :: b :: c :: d :: e :: l)) -> forall l, P l.
Proof.
  intros H0 H1 H2 H3 H4 H5. fix IH 1. intros [|a [|b [|c [|d [|e l]]]]];
    [exact H0 | apply H1 | apply H2 | apply H3 | apply H4 | apply H5, IH].
Qed.

Lemma be_encode_bytes3 x y z : x < 256 -> y < 256 -> z < 256 ->
  be_encode 3 ((x * 256 + y) * 256 + z) = [byte_of x; byte_of y; byte_of z].
Proof. intros. rewrite !be_encode_snoc, be_encode_1 by assumption. reflexivity. Qed.

(* ============================================================================================ *)
(* base64                                                                                        *)
(* ============================================================================================ *)

Lemma enc64_group x y z : x < 256 -> y < 256 -> z < 256 ->
  exists a b c d, map v64 (e64_3 x y z) = [Some a; Some b; Some c; Some d] /\
                  q64 a b c d = [byte_of x; byte_of y; byte_of z].
Proof.
  intros Hx Hy Hz. unfold e64_3. divmod x 4. divmod y 16. divmod z 64.
  exists q, (r * 16 + q0), (r0 * 4 + q1), r1. split.
  - cbn [map]. rewrite !v64_c64 by lia. reflexivity.
  - rewrite <- q64_ok by lia. unfold foldw. cbn [fold_left]. change (2 ^ 6) with 64.
    replace ((((0 * 64 + q) * 64 + (r * 16 + q0)) * 64 + (r0 * 4 + q1)) * 64 + r1)
      with ((x * 256 + y) * 256 + z) by lia.
    now apply be_encode_bytes3.
Qed.

Lemma enc64_tail1 x : x < 256 ->
  exists a b, v64 (c64 (x / 4)) = Some a /\ v64 (c64 ((x mod 4) * 16)) = Some b /\ q64_2 a b = [byte_of x].
Proof.
  intros Hx. divmod x 4. exists q, (r * 16). rewrite !v64_c64 by lia. repeat split.
  rewrite <- q64_2_ok by lia. rewrite decode_bits_unfold. unfold foldw. cbn [fold_left List.length].
  change (N.to_nat (6 * N.of_nat 2 / 8)) with 1%nat. change (6 * N.of_nat 2 mod 8) with 4. change (2 ^ 6) with 64.
  rewrite (shiftr_eq _ 4 x 0) by (change (2 ^ 4) with 16; lia). now apply be_encode_1.
Qed.

Lemma enc64_tail2 x y : x < 256 -> y < 256 ->
  exists a b c, v64 (c64 (x / 4)) = Some a /\ v64 (c64 ((x mod 4) * 16 + y / 16)) = Some b /\
                v64 (c64 ((y mod 16) * 4)) = Some c /\ q64_3 a b c = [byte_of x; byte_of y].
Proof.
  intros Hx Hy. divmod x 4. divmod y 16. exists q, (r * 16 + q0), (r0 * 4). rewrite !v64_c64 by lia. repeat split.
  rewrite <- q64_3_ok by lia. rewrite decode_bits_unfold. unfold foldw. cbn [fold_left List.length].
  change (N.to_nat (6 * N.of_nat 3 / 8)) with 2%nat. change (6 * N.of_nat 3 mod 8) with 2. change (2 ^ 6) with 64.
  rewrite (shiftr_eq _ 2 (x * 256 + y) 0) by (change (2 ^ 2) with 4; lia).
  rewrite be_encode_snoc, be_encode_1 by assumption. reflexivity.
Qed.

Lemma v64_pad : v64 pad = None. Proof. reflexivity. Qed.

Lemma b64_decode_encode b : b64_decode (b64_encode b) = Some b.
Proof.
  induction b as [| x | x y | x y z l IH] using triple_ind.
  - reflexivity.
  - cbn [b64_encode]. destruct (enc64_tail1 (N_of_ascii x) (ascii_lt x)) as (a & b & Ea & Eb & Q).
    cbn [b64_decode]. rewrite Ea, Eb, v64_pad. cbn. now rewrite Q, byte_of_ascii.
  - cbn [b64_encode].
    destruct (enc64_tail2 (N_of_ascii x) (N_of_ascii y) (ascii_lt x) (ascii_lt y)) as (a & b & c & Ea & Eb & Ec & Q).
    cbn [b64_decode]. rewrite Ea, Eb, Ec, v64_pad. cbn. now rewrite Q, !byte_of_ascii.
  - cbn [b64_encode].
    destruct (enc64_group (N_of_ascii x) (N_of_ascii y) (N_of_ascii z) (ascii_lt x) (ascii_lt y) (ascii_lt z))
      as (a & b & c & d & M & Q).
    unfold e64_3 in *. cbn [map] in M. injection M as Ea Eb Ec Ed.
    cbn [app b64_decode]. rewrite Ea, Eb, Ec, Ed, IH, Q, !byte_of_ascii. reflexivity.
Qed.

(* every byte string has a spelling PyTeal accepts and the assembler reads back *)
Lemma base64_encode_accepted b :
  valid_base64_l (b64_encode b) = true /\ decode_base64 (string_of_list_ascii (b64_encode b)) = Some b.
Proof.
  split.
  - now rewrite valid64_spec, b64_decode_encode.
  - apply b64_asm_spec, b64_decode_encode.
Qed.

(* ============================================================================================ *)
(* base32                                                                                        *)
(* ============================================================================================ *)

Lemma div_div_2_32 x : x / 64 = x / 2 / 32.
Proof. rewrite N.div_div by discriminate. reflexivity. Qed.
Lemma div_div_4_32 x : x / 128 = x / 4 / 32.
Proof. rewrite N.div_div by discriminate. reflexivity. Qed.

Ltac name5 x1 x2 x3 x4 x5 :=
  rewrite ?(div_div_2_32 x2), ?(div_div_4_32 x4);
  divmod x1 8; divmod x2 2;
  match goal with Q : _ = x2 / 2 |- _ => rewrite <- Q in *; let q := type of Q in idtac end.

Lemma be_encode_bytes5 x1 x2 x3 x4 x5 : x1 < 256 -> x2 < 256 -> x3 < 256 -> x4 < 256 -> x5 < 256 ->
  be_encode 5 ((((x1 * 256 + x2) * 256 + x3) * 256 + x4) * 256 + x5) =
  [byte_of x1; byte_of x2; byte_of x3; byte_of x4; byte_of x5].
Proof. intros. rewrite !be_encode_snoc, be_encode_1 by assumption. reflexivity. Qed.

(* the eight 5-bit digits of five bytes, as values *)
Definition d32_5 (x1 x2 x3 x4 x5 : N) : list N :=
  [x1 / 8; (x1 mod 8) * 4 + x2 / 64; (x2 / 2) mod 32; (x2 mod 2) * 16 + x3 / 16;
   (x3 mod 16) * 2 + x4 / 128; (x4 / 4) mod 32; (x4 mod 4) * 8 + x5 / 32; x5 mod 32].

Lemma e32_is_map x1 x2 x3 x4 x5 : e32_5 x1 x2 x3 x4 x5 = map c32 (d32_5 x1 x2 x3 x4 x5).
Proof. reflexivity. Qed.

(* digits are below 32 and put together they spell the 40-bit number *)
Lemma d32_5_facts x1 x2 x3 x4 x5 : x1 < 256 -> x2 < 256 -> x3 < 256 -> x4 < 256 -> x5 < 256 ->
  Forall (fun v => v < 32) (d32_5 x1 x2 x3 x4 x5) /\
  foldw 5 (d32_5 x1 x2 x3 x4 x5) 0 = (((x1 * 256 + x2) * 256 + x3) * 256 + x4) * 256 + x5.
Proof.
  intros H1 H2 H3 H4 H5. unfold d32_5, foldw. cbn [fold_left]. change (2 ^ 5) with 32.
  rewrite (div_div_2_32 x2), (div_div_4_32 x4).
  divmod x1 8. divmod x2 2. divmod q0 32. divmod x3 16. divmod x4 4. divmod q3 32. divmod x5 32.
  split; [repeat constructor; lia | lia].
Qed.

Lemma vals32_map_c32 l : Forall (fun v => v < 32) l -> map v32 (map c32 l) = map Some l.
Proof.
  induction 1 as [|v l Hv Hl IH]; [reflexivity|]. cbn [map]. now rewrite v32_c32, IH.
Qed.

Lemma enc32_group x1 x2 x3 x4 x5 : x1 < 256 -> x2 < 256 -> x3 < 256 -> x4 < 256 -> x5 < 256 ->
  exists a b c d e f g h,
    map v32 (e32_5 x1 x2 x3 x4 x5) = [Some a; Some b; Some c; Some d; Some e; Some f; Some g; Some h] /\
    q32 a b c d e f g h = [byte_of x1; byte_of x2; byte_of x3; byte_of x4; byte_of x5].
Proof.
  intros H1 H2 H3 H4 H5. destruct (d32_5_facts x1 x2 x3 x4 x5 H1 H2 H3 H4 H5) as [B F].
  rewrite e32_is_map, vals32_map_c32 by exact B.
  unfold d32_5 in *. do 8 eexists. split; [reflexivity|].
  repeat match goal with X : Forall _ (_ :: _) |- _ => inversion X; clear X; subst end.
  rewrite <- q32_ok by assumption. rewrite F. now apply be_encode_bytes5.
Qed.

(* short final groups: the digits that are kept, and what they decode to *)
Lemma enc32_tail1 x1 : x1 < 256 ->
  exists a b, map v32 (firstn 2 (e32_5 x1 0 0 0 0)) = [Some a; Some b] /\ q32_1 a b = [byte_of x1].
Proof.
  intros H1. destruct (d32_5_facts x1 0 0 0 0) as [B F]; try lia.
  unfold d32_5 in *.
  repeat match goal with X : Forall _ (_ :: _) |- _ => inversion X; clear X; subst end.
  unfold e32_5. cbn [firstn map]. rewrite !v32_c32 by assumption. do 2 eexists. split; [reflexivity|].
  rewrite <- q32_1_ok by assumption. rewrite decode_bits_unfold. cbn [List.length].
  change (N.to_nat (5 * N.of_nat 2 / 8)) with 1%nat. change (5 * N.of_nat 2 mod 8) with 2.
  unfold foldw in *. cbn [fold_left] in *. change (2 ^ 5) with 32 in *.
  change (0 / 64) with 0 in *. divmod x1 8.
  rewrite (shiftr_eq _ 2 x1 0) by (change (2 ^ 2) with 4; lia). now apply be_encode_1.
Qed.

Lemma enc32_tail2 x1 x2 : x1 < 256 -> x2 < 256 ->
  exists a b c d, map v32 (firstn 4 (e32_5 x1 x2 0 0 0)) = [Some a; Some b; Some c; Some d] /\
                  q32_2 a b c d = [byte_of x1; byte_of x2].
Proof.
  intros H1 H2. destruct (d32_5_facts x1 x2 0 0 0) as [B F]; try lia.
  unfold d32_5 in *.
  repeat match goal with X : Forall _ (_ :: _) |- _ => inversion X; clear X; subst end.
  unfold e32_5. cbn [firstn map]. rewrite !v32_c32 by assumption. do 4 eexists. split; [reflexivity|].
  rewrite <- q32_2_ok by assumption. rewrite decode_bits_unfold. cbn [List.length].
  change (N.to_nat (5 * N.of_nat 4 / 8)) with 2%nat. change (5 * N.of_nat 4 mod 8) with 4.
  unfold foldw in *. cbn [fold_left] in *. change (2 ^ 5) with 32 in *.
  change (0 / 16) with 0 in *. rewrite (div_div_2_32 x2) in *. divmod x1 8. divmod x2 2. divmod q0 32.
  rewrite (shiftr_eq _ 4 (x1 * 256 + x2) 0) by (change (2 ^ 4) with 16; lia).
  rewrite be_encode_snoc, be_encode_1 by assumption. reflexivity.
Qed.

Lemma enc32_tail3 x1 x2 x3 : x1 < 256 -> x2 < 256 -> x3 < 256 ->
  exists a b c d e, map v32 (firstn 5 (e32_5 x1 x2 x3 0 0)) = [Some a; Some b; Some c; Some d; Some e] /\
                    q32_3 a b c d e = [byte_of x1; byte_of x2; byte_of x3].
Proof.
  intros H1 H2 H3. destruct (d32_5_facts x1 x2 x3 0 0) as [B F]; try lia.
  unfold d32_5 in *.
  repeat match goal with X : Forall _ (_ :: _) |- _ => inversion X; clear X; subst end.
  unfold e32_5. cbn [firstn map]. rewrite !v32_c32 by assumption. do 5 eexists. split; [reflexivity|].
  rewrite <- q32_3_ok by assumption. rewrite decode_bits_unfold. cbn [List.length].
  change (N.to_nat (5 * N.of_nat 5 / 8)) with 3%nat. change (5 * N.of_nat 5 mod 8) with 1.
  unfold foldw in *. cbn [fold_left] in *. change (2 ^ 5) with 32 in *.
  change (0 / 128) with 0 in *. rewrite (div_div_2_32 x2) in *. divmod x1 8. divmod x2 2. divmod q0 32. divmod x3 16.
  rewrite (shiftr_eq _ 1 ((x1 * 256 + x2) * 256 + x3) 0) by (change (2 ^ 1) with 2; lia).
  rewrite !be_encode_snoc, be_encode_1 by assumption. reflexivity.
Qed.

Lemma enc32_tail4 x1 x2 x3 x4 : x1 < 256 -> x2 < 256 -> x3 < 256 -> x4 < 256 ->
  exists a b c d e f g,
    map v32 (firstn 7 (e32_5 x1 x2 x3 x4 0)) = [Some a; Some b; Some c; Some d; Some e; Some f; Some g] /\
    q32_4 a b c d e f g = [byte_of x1; byte_of x2; byte_of x3; byte_of x4].
Proof.
  intros H1 H2 H3 H4. destruct (d32_5_facts x1 x2 x3 x4 0) as [B F]; try lia.
  unfold d32_5 in *.
  repeat match goal with X : Forall _ (_ :: _) |- _ => inversion X; clear X; subst end.
  unfold e32_5. cbn [firstn map]. rewrite !v32_c32 by assumption. do 7 eexists. split; [reflexivity|].
  rewrite <- q32_4_ok by assumption. rewrite decode_bits_unfold. cbn [List.length].
  change (N.to_nat (5 * N.of_nat 7 / 8)) with 4%nat. change (5 * N.of_nat 7 mod 8) with 3.
  unfold foldw in *. cbn [fold_left] in *. change (2 ^ 5) with 32 in *.
  change (0 / 32) with 0 in *. rewrite (div_div_2_32 x2), (div_div_4_32 x4) in *.
  divmod x1 8. divmod x2 2. divmod q0 32. divmod x3 16. divmod x4 4. divmod q3 32.
  rewrite (shiftr_eq _ 3 (((x1 * 256 + x2) * 256 + x3) * 256 + x4) 0) by (change (2 ^ 3) with 8; lia).
  rewrite !be_encode_snoc, be_encode_1 by assumption. reflexivity.
Qed.

Lemma v32_pad : v32 pad = None. Proof. reflexivity. Qed.
Lemma is_padc_pad : is_padc pad = true. Proof. reflexivity. Qed.

Ltac rw_v32 := repeat match goal with X : v32 _ = Some _ |- _ => rewrite X end.
Ltac use_tail M :=
  unfold e32_5 in M; cbn [firstn map] in M; injection M; intros;
  unfold e32_5; cbn [firstn app repeat Nat.sub b32_decode];
  rw_v32; rewrite ?v32_pad;
  unfold b32_tail, all_pad, g32_2, g32_4, g32_5, g32_7; cbn [forallb];
  repeat match goal with X : v32 ?t = Some _ |- context [is_padc ?t] =>
           rewrite (proj2 (v32_some _ _ X)) end;
  rewrite ?is_padc_pad; cbn [andb]; rw_v32.

Lemma b32_decode_encode p b : b32_decode (b32_encode p b) = Some b.
Proof.
  induction b as [| x1 | x1 x2 | x1 x2 x3 | x1 x2 x3 x4 | x1 x2 x3 x4 x5 l IH] using five_ind.
  - reflexivity.
  - cbn [b32_encode].
    destruct (enc32_tail1 (N_of_ascii x1) (ascii_lt x1)) as (a & b & M & Q).
    rewrite <- (byte_of_ascii x1) at 2. rewrite <- Q.
    destruct p; use_tail M; reflexivity.
  - cbn [b32_encode].
    destruct (enc32_tail2 (N_of_ascii x1) (N_of_ascii x2) (ascii_lt x1) (ascii_lt x2)) as (a & b & c & d & M & Q).
    rewrite <- (byte_of_ascii x1), <- (byte_of_ascii x2) at 2. 
    replace [x1; x2] with [byte_of (N_of_ascii x1); byte_of (N_of_ascii x2)] by now rewrite !byte_of_ascii.
    rewrite <- Q. destruct p; use_tail M; reflexivity.
  - cbn [b32_encode].
    destruct (enc32_tail3 (N_of_ascii x1) (N_of_ascii x2) (N_of_ascii x3) (ascii_lt x1) (ascii_lt x2) (ascii_lt x3))
      as (a & b & c & d & e & M & Q).
    replace [x1; x2; x3] with [byte_of (N_of_ascii x1); byte_of (N_of_ascii x2); byte_of (N_of_ascii x3)]
      by now rewrite !byte_of_ascii.
    rewrite <- Q. destruct p; use_tail M; reflexivity.
  - cbn [b32_encode].
    destruct (enc32_tail4 (N_of_ascii x1) (N_of_ascii x2) (N_of_ascii x3) (N_of_ascii x4)
                (ascii_lt x1) (ascii_lt x2) (ascii_lt x3) (ascii_lt x4)) as (a & b & c & d & e & f & g & M & Q).
    replace [x1; x2; x3; x4]
      with [byte_of (N_of_ascii x1); byte_of (N_of_ascii x2); byte_of (N_of_ascii x3); byte_of (N_of_ascii x4)]
      by now rewrite !byte_of_ascii.
    rewrite <- Q. destruct p; use_tail M; reflexivity.
  - cbn [b32_encode].
    destruct (enc32_group (N_of_ascii x1) (N_of_ascii x2) (N_of_ascii x3) (N_of_ascii x4) (N_of_ascii x5)
                (ascii_lt x1) (ascii_lt x2) (ascii_lt x3) (ascii_lt x4) (ascii_lt x5))
      as (a & b & c & d & e & f & g & h & M & Q).
    unfold e32_5 in *. cbn [map] in M. injection M; intros.
    cbn [app b32_decode].
    repeat match goal with X : v32 _ = Some _ |- _ => rewrite X; clear X end.
    rewrite IH, Q, !byte_of_ascii. reflexivity.
Qed.

Lemma base32_encode_accepted p b :
  valid_base32_l (b32_encode p b) = true /\ decode_base32 (string_of_list_ascii (b32_encode p b)) = Some b.
Proof.
  split.
  - now rewrite valid32_spec, b32_decode_encode.
  - apply b32_asm_spec, b32_decode_encode.
Qed.
