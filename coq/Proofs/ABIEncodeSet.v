(* Proofs/ABIEncodeSet.v — end to end: a value assembled with set(...) from its parts (ABI/Encode.v: set_ok,
   run_set, over every documented argument form, nested arbitrarily) is stored and encoded exactly as the ARC-4
   spec (ABI/Spec.v arc4_encode) encodes the denoted value; and it is rejected at construction or fails at run
   time exactly when the spec has no encoding for that value. *)
From Coq Require Import List Arith NArith ZArith Ascii String Bool Lia.
From PV Require Import Base.Bytes Base.U64 AVM.Ops ABI.Types ABI.Spec ABI.Encode
  Proofs.ABISpecProof Proofs.ABIEncodeOps Proofs.ABIEncodeDescr Proofs.ABIEncodeBool Proofs.ABIEncodeTuple
  Proofs.ABIEncodeLen.
Import ListNotations.
Local Open Scope N_scope.

(* ------------------------------------------------------------------------------------------ *)
(* 1. scalars                                                                                  *)
(* ------------------------------------------------------------------------------------------ *)
Lemma uint_set_const_spec : forall size z,
    uint_set_const size z =
    if ((0 <=? z)%Z && (Z.to_N z <? 2 ^ size)) then Some (Z.to_N z) else None.
Proof.
  intros size z. unfold uint_set_const.
  assert (Hpow : Z.of_N (2 ^ size) = (2 ^ Z.of_N size)%Z) by (rewrite N2Z.inj_pow; reflexivity).
  destruct (Z.leb_spec 0 z) as [Hz|Hz].
  - assert (Hneg : (z <? 0)%Z = false) by (apply Z.ltb_ge; exact Hz).
    cbn [andb]. destruct (N.ltb_spec (Z.to_N z) (2 ^ size)) as [Hlt|Hge].
    + assert (Hc : (2 ^ Z.of_N size <=? z)%Z = false).
      { apply Z.leb_gt. rewrite <- Hpow. lia. }
      rewrite Hc, Hneg. reflexivity.
    + assert (Hc : (2 ^ Z.of_N size <=? z)%Z = true).
      { apply Z.leb_le. rewrite <- Hpow. lia. }
      rewrite Hc. reflexivity.
  - cbn [andb].
    assert (Hc : (2 ^ Z.of_N size <=? z)%Z = false).
    { apply Z.leb_gt. rewrite <- Hpow. lia. }
    assert (Hneg : (z <? 0)%Z = true) by (apply Z.ltb_lt; exact Hz).
    rewrite Hc, Hneg. reflexivity.
Qed.

(* Python ints: rejected at construction iff negative or >= 2^N *)
Theorem uint_set_const_rejects_iff : forall size z,
    uint_set_const size z = None <-> (z < 0 \/ 2 ^ Z.of_N size <= z)%Z.
Proof.
  intros size z. rewrite uint_set_const_spec.
  assert (Hpow : Z.of_N (2 ^ size) = (2 ^ Z.of_N size)%Z) by (rewrite N2Z.inj_pow; reflexivity).
  destruct (Z.leb_spec 0 z) as [Hz|Hz]; cbn [andb].
  - destruct (N.ltb_spec (Z.to_N z) (2 ^ size)) as [Hlt|Hge]; split; intro H; try discriminate; try reflexivity.
    + exfalso. rewrite <- Hpow in H. lia.
    + right. rewrite <- Hpow. lia.
  - split; intro H; [left; lia | reflexivity].
Qed.

(* expressions: the program fails iff the run-time value is >= 2^N; uint64 needs no check *)
Theorem uint_set_expr_fails_iff : forall size n, n < U64 ->
    (uint_set_expr size n = None <-> 2 ^ size <= n) /\
    (forall m, uint_set_expr size n = Some m -> m = n).
Proof.
  intros size n Hn. unfold uint_set_expr. destruct (N.eqb_spec size 64) as [->|Hs].
  - split; [|intros m H; congruence]. split; [discriminate|]. intro H. exfalso.
    change (2 ^ 64) with U64 in H. lia.
  - destruct (N.ltb_spec n (2 ^ size)); split; try (intros m H'; congruence); split; intro H'; try discriminate; try reflexivity; lia.
Qed.

Lemma uint_set_expr_in : forall size n, n < 2 ^ size -> uint_set_expr size n = Some n.
Proof.
  intros size n H. unfold uint_set_expr. destruct (size =? 64); [reflexivity|].
  apply N.ltb_lt in H. rewrite H. reflexivity.
Qed.

Lemma uint_set_expr_out : forall size n, n < U64 -> 2 ^ size <= n -> uint_set_expr size n = None.
Proof. intros size n Hn H. apply (proj1 (uint_set_expr_fails_iff size n Hn)). exact H. Qed.

Lemma pyteal_bits_cases : forall bits, pyteal_uint_bits bits = true -> bits = 8 \/ bits = 16 \/ bits = 32 \/ bits = 64.
Proof.
  intros bits H. unfold pyteal_uint_bits in H.
  repeat (apply orb_true_iff in H as [H|H]); apply N.eqb_eq in H; auto.
Qed.

Lemma pyteal_bits_valid : forall bits, pyteal_uint_bits bits = true -> valid_uint_bits bits = true.
Proof. intros bits H. destruct (pyteal_bits_cases bits H) as [-> | [-> | [-> | ->]]]; reflexivity. Qed.

(* uint_encode of an in-range value: its N/8-byte big-endian form *)
Theorem uint_encode_correct : forall bits n, pyteal_uint_bits bits = true -> n < 2 ^ bits ->
    uint_encode bits n = Some (be_encode (N.to_nat (bits / 8)) n).
Proof.
  intros bits n Hb Hn. destruct (pyteal_bits_cases bits Hb) as [-> | [-> | [-> | ->]]].
  - apply uint_encode_8. exact Hn.
  - apply uint_encode_16.
  - apply uint_encode_32.
  - apply uint_encode_64.
Qed.

Definition uint_cell (v : val) (c : sval) : Prop := exists n, v = VUint n /\ c = SI n.

Lemma uint_src_correct : forall bits s0 v,
    pyteal_uint_bits bits = true -> src_wf s0 = true -> uint_src_val s0 = Some v ->
    (forall bs, uint_enc bits v = Some bs ->
       uint_src_ok bits s0 = true /\ exists c, uint_src_run bits s0 = Some c /\ uint_cell v c) /\
    (uint_enc bits v = None -> uint_src_ok bits s0 = false \/ uint_src_run bits s0 = None).
Proof.
  intros bits s0 v Hb Hwf Hv. pose proof (pyteal_bits_valid bits Hb) as Hvalid.
  destruct s0 as [z|b|n|bs|bs|s'|l]; cbn [uint_src_val] in Hv; try discriminate.
  - (* a Python int *)
    destruct (Z.ltb_spec z 0) as [Hneg|Hpos]; [discriminate|]. injection Hv as <-.
    cbn [uint_enc uint_src_ok uint_src_run]. rewrite Hvalid, uint_set_const_spec. cbn [andb].
    assert (Hz : (0 <=? z)%Z = true) by (apply Z.leb_le; exact Hpos). rewrite Hz. cbn [andb].
    destruct (Z.to_N z <? 2 ^ bits); split; intros; try discriminate.
    + split; [reflexivity|]. eexists. split; [reflexivity|]. eexists. split; reflexivity.
    + left. reflexivity.
  - (* an expression *)
    injection Hv as <-. cbn [src_wf] in Hwf. apply N.ltb_lt in Hwf.
    cbn [uint_enc uint_src_ok uint_src_run]. rewrite Hvalid. cbn [andb].
    destruct (N.ltb_spec n (2 ^ bits)) as [Hlt|Hge]; split; intros; try discriminate.
    + split; [reflexivity|]. rewrite (uint_set_expr_in bits n Hlt).
      eexists. split; [reflexivity|]. eexists. split; reflexivity.
    + right. rewrite (uint_set_expr_out bits n Hwf Hge). reflexivity.
Qed.

(* ------------------------------------------------------------------------------------------ *)
(* 2. what a cell holds                                                                        *)
(* ------------------------------------------------------------------------------------------ *)
Definition cell_ok (t : ty) (v : val) (bs : bytes) (c : sval) : Prop :=
  match t with
  | TBool => exists b, v = VBool b /\ c = sb b
  | TByte | TUint _ => uint_cell v c
  | _ => c = SB bs
  end.

Lemma uint_enc_inv : forall bits n bs, uint_enc bits (VUint n) = Some bs ->
    n < 2 ^ bits /\ bs = be_encode (N.to_nat (bits / 8)) n.
Proof.
  intros bits n bs H. cbn [uint_enc] in H. destruct (valid_uint_bits bits); [|discriminate]. cbn [andb] in H.
  destruct (N.ltb_spec n (2 ^ bits)); [|discriminate]. injection H as <-. split; [assumption | reflexivity].
Qed.

(* x.encode() of a correctly filled cell is the spec encoding *)
Lemma cell_encode : forall t v bs c, pyteal_ty t = true -> arc4_encode t v = Some bs ->
    cell_ok t v bs c -> elem_encode t c = Some bs.
Proof.
  intros t v bs c Ht He Hc. destruct t; cbn [cell_ok] in Hc; cbn [pyteal_ty] in Ht; try discriminate;
    try (subst c; reflexivity).
  - destruct Hc as [b [-> ->]]. cbn [arc4_encode bool_enc] in He. injection He as <-.
    cbn [elem_encode sb sv_int obind]. apply bool_encode_correct.
  - destruct Hc as [n [-> ->]]. cbn [arc4_encode] in He. apply uint_enc_inv in He as [Hn ->].
    cbn [elem_encode sv_int obind]. apply (uint_encode_correct 8 n eq_refl Hn).
  - destruct Hc as [n [-> ->]]. cbn [arc4_encode] in He. apply uint_enc_inv in He as [Hn ->].
    cbn [elem_encode sv_int obind]. apply (uint_encode_correct bits n Ht Hn).
Qed.

Lemma pyteal_no_txn : forall t, pyteal_ty t = true -> has_txn t = false.
Proof. intros t H. apply encodable_no_txn, pyteal_ty_encodable, H. Qed.

(* the spec's member encoding exists iff the member's own encoding exists *)
Lemma enc_elem_none_iff : forall t v,
    enc_elem (is_bool t) (is_dynamic t) (arc4_encode t) v = None <-> arc4_encode t v = None.
Proof.
  intros t v. unfold enc_elem. destruct (is_bool t) eqn:Hb.
  - apply is_bool_spec in Hb. subst t. cbn [arc4_encode bool_enc]. destruct v; split; intro H; try discriminate; reflexivity.
  - destruct (arc4_encode t v); cbn [option_map]; split; intro H; try discriminate; reflexivity.
Qed.

(* a correctly filled cell represents the spec's member encoding *)
Lemma cell_rep : forall t v bs c el, pyteal_ty t = true -> arc4_encode t v = Some bs -> cell_ok t v bs c ->
    enc_elem (is_bool t) (is_dynamic t) (arc4_encode t) v = Some el -> rep (t, c) el.
Proof.
  intros t v bs c el Ht He Hc Hel. unfold enc_elem in Hel. destruct (is_bool t) eqn:Hb.
  - apply is_bool_spec in Hb. subst t. cbn [cell_ok] in Hc. destruct Hc as [b [-> ->]].
    injection Hel as <-. constructor.
  - rewrite He in Hel. cbn [option_map] in Hel. destruct (is_dynamic t) eqn:Hd; injection Hel as <-.
    + assert (Hcb : c = SB bs).
      { destruct t; cbn [cell_ok] in Hc; cbn [is_dynamic] in Hd; try discriminate; exact Hc. }
      subst c. constructor. rewrite py_is_dynamic_agrees. exact Hd.
    + constructor.
      * exact Hb.
      * rewrite py_is_dynamic_agrees. exact Hd.
      * exact (cell_encode t v bs c Ht He Hc).
      * rewrite (bls_static t Hd (pyteal_no_txn t Ht)). symmetry. exact (encode_static_len t v bs Hd He).
Qed.

(* ------------------------------------------------------------------------------------------ *)
(* 3. the statement for one type                                                               *)
(* ------------------------------------------------------------------------------------------ *)
Definition set_correct (t : ty) : Prop :=
  forall s v, src_wf s = true -> denote t s = Some v ->
    (forall bs, arc4_encode t v = Some bs ->
       set_ok t s = true /\ exists c, run_set None t s = Some c /\ cell_ok t v bs c) /\
    (arc4_encode t v = None -> set_ok t s = false \/ run_set None t s = None).

Lemma src_wf_uncopy : forall s, src_wf s = true -> src_wf (uncopy s) = true.
Proof. induction s; intro H; cbn [uncopy src_wf] in *; auto. Qed.

Lemma guard_true : forall (b : bool), negb b || true = true.
Proof. destruct b; reflexivity. Qed.

Lemma set_correct_bool : set_correct TBool.
Proof.
  intros s v Hwf Hv. cbn [denote copyable] in Hv. rewrite guard_true in Hv.
  cbn [set_ok run_set copyable arc4_encode]. rewrite guard_true. cbn [andb].
  destruct (uncopy s) as [z|b|n|bs0|bs0|s'|l]; try discriminate; injection Hv as <-; cbn [bool_enc].
  - split; [|discriminate]. intros bs _. split; [reflexivity|]. eexists. split; [reflexivity|].
    exists b. split; [reflexivity|]. destruct b; reflexivity.
  - split; [|discriminate]. intros bs _. split; [reflexivity|]. eexists. split; [reflexivity|].
    exists (negb (n =? 0)). split; [reflexivity|]. unfold sb. rewrite bool_set_expr_correct. reflexivity.
Qed.

Lemma set_correct_uint : forall bits, pyteal_uint_bits bits = true -> set_correct (TUint bits).
Proof.
  intros bits Hb s v Hwf Hv. cbn [denote copyable] in Hv. rewrite guard_true in Hv.
  cbn [set_ok run_set copyable arc4_encode cell_ok]. rewrite guard_true. cbn [andb].
  exact (uint_src_correct bits (uncopy s) v Hb (src_wf_uncopy s Hwf) Hv).
Qed.

Lemma set_correct_byte : set_correct TByte.
Proof.
  intros s v Hwf Hv. cbn [denote copyable] in Hv. rewrite guard_true in Hv.
  cbn [set_ok run_set copyable arc4_encode cell_ok]. rewrite guard_true. cbn [andb].
  exact (uint_src_correct 8 (uncopy s) v eq_refl (src_wf_uncopy s Hwf) Hv).
Qed.

(* ------------------------------------------------------------------------------------------ *)
(* 4. the construction-time check of _encode_tuple depends on the member types only           *)
(* ------------------------------------------------------------------------------------------ *)
Lemma map_mem_is_bool : forall vals, map mem_is_bool vals = map is_bool (map fst vals).
Proof. intro vals. rewrite map_map. reflexivity. Qed.

Lemma existsb_mem_is_dyn : forall vals, existsb mem_is_dyn vals = existsb py_is_dynamic (map fst vals).
Proof. induction vals as [|m r IH]; [reflexivity|]. cbn [existsb map]. rewrite IH. reflexivity. Qed.

Lemma plan_snd_types : forall vals vals', map fst vals = map fst vals' ->
    forall k, snd (plan vals k) = snd (plan vals' k).
Proof.
  induction vals as [|m r IH]; intros [|m' r'] H k; try discriminate; [reflexivity|].
  cbn [map] in H. injection H as Hm Hr.
  assert (Hb : mem_is_bool m = mem_is_bool m') by (unfold mem_is_bool; rewrite Hm; reflexivity).
  assert (Hd : mem_is_dyn m = mem_is_dyn m') by (unfold mem_is_dyn; rewrite Hm; reflexivity).
  cbn [plan]. destruct k as [|k]; [|apply IH; exact Hr].
  rewrite <- Hb, <- Hd.
  assert (Hct : consecutive_true (map mem_is_bool (m :: r)) = consecutive_true (map mem_is_bool (m' :: r'))).
  { rewrite !map_mem_is_bool. cbn [map]. rewrite Hm, Hr. reflexivity. }
  rewrite <- Hct.
  destruct (mem_is_bool m); [|destruct (mem_is_dyn m)]; cbn [snd];
    rewrite (IH r' Hr); try rewrite Hm; reflexivity.
Qed.

Lemma encode_tuple_ok_types : forall vals vals', map fst vals = map fst vals' ->
    encode_tuple_ok vals = encode_tuple_ok vals'.
Proof.
  intros vals vals' H. unfold encode_tuple_ok.
  rewrite !existsb_mem_is_dyn, H, (plan_snd_types vals vals' H). reflexivity.
Qed.

Lemma map_all_length : forall {A C} (f : A -> option C) l cs, map_all f l = Some cs -> List.length cs = List.length l.
Proof.
  intros A C f l. induction l as [|a r IH]; intros cs H; cbn [map_all] in H.
  - injection H as <-. reflexivity.
  - apply obind_some in H as [c [_ H]]. apply option_map_some in H as [cs' [H ->]].
    cbn [List.length]. rewrite (IH _ H). reflexivity.
Qed.

Lemma types_ok_array : forall e (l : list src) cs, List.length cs = List.length l ->
    types_ok (map (fun _ => e) l) = encode_tuple_ok (map (fun c => (e, c)) cs).
Proof.
  intros e l cs Hlen. unfold types_ok. apply encode_tuple_ok_types.
  rewrite !map_map. cbn [fst]. revert cs Hlen.
  induction l as [|a r IH]; intros [|c cr] Hlen; try discriminate; [reflexivity|].
  cbn [map]. f_equal. apply IH. injection Hlen as Hlen. exact Hlen.
Qed.

(* ------------------------------------------------------------------------------------------ *)
(* 5. members of an array                                                                      *)
(* ------------------------------------------------------------------------------------------ *)
Lemma members_array : forall e, set_correct e -> pyteal_ty e = true -> forall l vs,
    forallb src_wf l = true -> map_all (denote e) l = Some vs ->
    (forall es, enc_all (enc_elem (is_bool e) (is_dynamic e) (arc4_encode e)) vs = Some es ->
       forallb (set_ok e) l = true /\
       exists cs, map_all (run_set None e) l = Some cs /\ Forall2 rep (map (fun c => (e, c)) cs) es) /\
    (enc_all (enc_elem (is_bool e) (is_dynamic e) (arc4_encode e)) vs = None ->
       forallb (set_ok e) l = false \/ map_all (run_set None e) l = None).
Proof.
  intros e He Hty. induction l as [|s r IH]; intros vs Hwf Hvs; cbn [map_all] in Hvs.
  - injection Hvs as <-. cbn [enc_all]. split; [|discriminate].
    intros es H. injection H as <-. split; [reflexivity|]. exists []. split; [reflexivity | constructor].
  - apply obind_some in Hvs as [v [Hv Hvs]]. apply option_map_some in Hvs as [vr [Hvr ->]].
    cbn [forallb] in Hwf. apply andb_true_iff in Hwf as [Hwf1 Hwf2].
    destruct (He s v Hwf1 Hv) as [HeS HeN]. destruct (IH vr Hwf2 Hvr) as [IHS IHN]. clear IH.
    cbn [enc_all forallb map_all].
    destruct (arc4_encode e v) as [bs|] eqn:Henc.
    + destruct (HeS bs eq_refl) as [Hok [c [Hrun Hcell]]].
      destruct (enc_elem (is_bool e) (is_dynamic e) (arc4_encode e) v) as [el|] eqn:Hel.
      2:{ apply enc_elem_none_iff in Hel. congruence. }
      pose proof (cell_rep e v bs c el Hty Henc Hcell Hel) as Hrep.
      cbn [obind]. rewrite Hok, Hrun. cbn [andb obind].
      destruct (enc_all (enc_elem (is_bool e) (is_dynamic e) (arc4_encode e)) vr) as [es'|].
      * split; [|discriminate]. intros es H. cbn [option_map] in H. injection H as <-.
        destruct (IHS es' eq_refl) as [Hokr [cs [Hrunr Hrepr]]]. split; [exact Hokr|].
        exists (c :: cs). rewrite Hrunr. split; [reflexivity|]. cbn [map]. constructor; assumption.
      * split; [discriminate|]. intros _. destruct (IHN eq_refl) as [H|H]; [left; exact H | right; rewrite H; reflexivity].
    + assert (Hel : enc_elem (is_bool e) (is_dynamic e) (arc4_encode e) v = None) by (apply enc_elem_none_iff; exact Henc).
      rewrite Hel. cbn [obind]. split; [discriminate|]. intros _.
      destruct (HeN eq_refl) as [H|H]; [left; rewrite H; reflexivity | right; rewrite H; reflexivity].
Qed.

(* the common core of Array.set: members, then _encode_tuple *)
Lemma seq_core : forall e, set_correct e -> pyteal_ty e = true -> forall l vs,
    forallb src_wf l = true -> map_all (denote e) l = Some vs ->
    let body := obind (enc_all (enc_elem (is_bool e) (is_dynamic e) (arc4_encode e)) vs) assemble in
    (forall bs, body = Some bs ->
       forallb (set_ok e) l = true /\ types_ok (map (fun _ => e) l) = true /\
       exists cs, map_all (run_set None e) l = Some cs /\ List.length cs = List.length l /\
                  encode_tuple_run None (map (fun c => (e, c)) cs) = Some bs) /\
    (body = None ->
       forallb (set_ok e) l = false \/ types_ok (map (fun _ => e) l) = false \/
       map_all (run_set None e) l = None \/
       exists cs, map_all (run_set None e) l = Some cs /\ encode_tuple_run None (map (fun c => (e, c)) cs) = None).
Proof.
  intros e He Hty l vs Hwf Hvs body. subst body.
  destruct (members_array e He Hty l vs Hwf Hvs) as [HS HN].
  destruct (enc_all (enc_elem (is_bool e) (is_dynamic e) (arc4_encode e)) vs) as [es|]; cbn [obind].
  - destruct (HS es eq_refl) as [Hok [cs [Hrun Hrep]]].
    pose proof (map_all_length _ _ _ Hrun) as Hlen.
    destruct (encode_tuple_correct _ _ Hrep) as [Tok Tbad].
    rewrite (types_ok_array e l cs Hlen).
    destruct (encode_tuple_ok (map (fun c => (e, c)) cs)) eqn:Hto.
    + rewrite <- (Tok eq_refl). split.
      * intros bs Hbs. split; [exact Hok|]. split; [reflexivity|]. exists cs. repeat split; assumption.
      * intro Hnone. right. right. right. exists cs. split; assumption.
    + rewrite (Tbad eq_refl). split; [discriminate|]. intros _. right. left. reflexivity.
  - split; [discriminate|]. intros _. destruct (HN eq_refl) as [H|H]; [left; exact H | right; right; left; exact H].
Qed.

Lemma seq_static_correct : forall e n, set_correct e -> pyteal_ty e = true -> forall l vs,
    forallb src_wf l = true -> map_all (denote e) l = Some vs ->
    let spec := static_array_enc (is_bool e) (is_dynamic e) (arc4_encode e) n (VList vs) in
    (forall bs, spec = Some bs ->
       (N.of_nat (List.length l) =? n) && seq_ok false e (set_ok e) l = true /\
       seq_run None false e (run_set None e) l = Some (SB bs)) /\
    (spec = None ->
       (N.of_nat (List.length l) =? n) && seq_ok false e (set_ok e) l = false \/
       seq_run None false e (run_set None e) l = None).
Proof.
  intros e n He Hty l vs Hwf Hvs spec. subst spec.
  pose proof (map_all_length _ _ _ Hvs) as Hlen.
  destruct (seq_core e He Hty l vs Hwf Hvs) as [CS CN].
  unfold static_array_enc, seq_ok, seq_run, array_set_run. cbn [elems_of obind]. rewrite Hlen.
  destruct (N.of_nat (List.length l) =? n); cbn [andb].
  2:{ split; [discriminate|]. intros _. left. reflexivity. }
  split.
  - intros bs Hbs. destruct (CS bs Hbs) as [Hok [Hty' [cs [Hrun [_ Henc]]]]].
    rewrite Hok, Hty', Hrun. cbn [andb obind]. rewrite Henc. split; reflexivity.
  - intro Hnone. destruct (CN Hnone) as [H|[H|[H|[cs [H1 H2]]]]].
    + left. rewrite H. reflexivity.
    + left. rewrite H. destruct (forallb (set_ok e) l); reflexivity.
    + right. rewrite H. reflexivity.
    + right. rewrite H1. cbn [obind]. rewrite H2. reflexivity.
Qed.

Lemma seq_dyn_correct : forall e, set_correct e -> pyteal_ty e = true -> forall l vs,
    forallb src_wf l = true -> map_all (denote e) l = Some vs ->
    let spec := dyn_array_enc (is_bool e) (is_dynamic e) (arc4_encode e) (VList vs) in
    (forall bs, spec = Some bs ->
       seq_ok true e (set_ok e) l = true /\ seq_run None true e (run_set None e) l = Some (SB bs)) /\
    (spec = None ->
       seq_ok true e (set_ok e) l = false \/ seq_run None true e (run_set None e) l = None).
Proof.
  intros e He Hty l vs Hwf Hvs spec. subst spec.
  pose proof (map_all_length _ _ _ Hvs) as Hlen.
  destruct (seq_core e He Hty l vs Hwf Hvs) as [CS CN].
  unfold dyn_array_enc, seq_ok, seq_run, array_set_run, u16. cbn [elems_of obind]. rewrite Hlen.
  destruct (N.of_nat (List.length l) <? 65536) eqn:Hn; cbn [obind].
  2:{ split; [discriminate|]. intros _. left. rewrite !andb_false_r. reflexivity. }
  rewrite andb_true_r.
  destruct (obind (enc_all (enc_elem (is_bool e) (is_dynamic e) (arc4_encode e)) vs) assemble) as [body|] eqn:Hbody;
    cbn [obind].
  - split; [|discriminate]. intros bs Hbs. injection Hbs as <-.
    destruct (CS body eq_refl) as [Hok [Hty' [cs [Hrun [Hl Henc]]]]].
    rewrite Hok, Hty', Hrun. cbn [andb obind]. rewrite map_length, Hl, uint_encode_16. cbn [obind].
    rewrite Henc. cbn [obind x_concat option_map]. split; reflexivity.
  - split; [discriminate|]. intros _. destruct (CN eq_refl) as [H|[H|[H|[cs [H1 H2]]]]].
    + left. rewrite H. reflexivity.
    + left. rewrite H. destruct (forallb (set_ok e) l); reflexivity.
    + right. rewrite H. reflexivity.
    + right. rewrite H1. cbn [obind]. rewrite uint_encode_16. cbn [obind]. rewrite H2. reflexivity.
Qed.

(* ------------------------------------------------------------------------------------------ *)
(* 6. byte strings                                                                             *)
(* ------------------------------------------------------------------------------------------ *)
Lemma static_bytes_enc_spec : forall n bs,
    static_array_enc false false (uint_enc 8) n (VBytes bs) = if blen bs =? n then Some bs else None.
Proof.
  intros n bs. unfold static_array_enc. cbn [elems_of obind]. rewrite map_length. fold (blen bs).
  destruct (blen bs =? n); [|reflexivity]. rewrite enc_all_bytes. cbn [obind]. apply assemble_bytes.
Qed.

Lemma dyn_bytes_enc_spec : forall bs,
    dyn_array_enc false false (uint_enc 8) (VBytes bs) =
    if blen bs <? 65536 then Some (be_encode 2 (blen bs) ++ bs) else None.
Proof.
  intro bs. unfold dyn_array_enc, u16. cbn [elems_of obind]. rewrite map_length. fold (blen bs).
  destruct (blen bs <? 65536); [|reflexivity]. cbn [obind]. rewrite enc_all_bytes. cbn [obind].
  rewrite assemble_bytes. reflexivity.
Qed.

Lemma store_expr_bytes_none : forall bs,
    store_encoded_expr_byte_string None bs = Some (be_encode 2 (blen bs) ++ bs).
Proof.
  intro bs. unfold store_encoded_expr_byte_string.
  pose proof (suffix_itob 2 (blen bs) ltac:(lia)) as H. change (N.of_nat (8 - 2)) with 6 in H. rewrite H. reflexivity.
Qed.

Lemma bytes_static_case : forall n s0 v, src_wf s0 = true -> bytes_src_val byte_src_val s0 = Some v ->
    let spec := static_array_enc false false (uint_enc 8) n v in
    let ok := match s0 with
              | SBytesLit bs => blen bs =? n
              | SBytesExpr _ => true
              | SMembers l => (N.of_nat (List.length l) =? n) && seq_ok false TByte byte_src_ok l
              | _ => false
              end in
    let run := match s0 with
               | SBytesLit bs => Some (SB bs)
               | SBytesExpr bs => option_map SB (static_bytes_set_expr n bs)
               | SMembers l => seq_run None false TByte (fun m => uint_src_run 8 (uncopy m)) l
               | _ => None
               end in
    (forall bs, spec = Some bs -> ok = true /\ run = Some (SB bs)) /\ (spec = None -> ok = false \/ run = None).
Proof.
  intros n s0 v Hwf Hv. destruct s0 as [z|b|k|bs0|bs0|s'|l]; cbn [bytes_src_val] in Hv; try discriminate.
  - injection Hv as <-. cbn zeta. rewrite static_bytes_enc_spec.
    destruct (blen bs0 =? n); split; intros; try discriminate.
    + split; [reflexivity|]. congruence.
    + left. reflexivity.
  - injection Hv as <-. cbn zeta. rewrite static_bytes_enc_spec. unfold static_bytes_set_expr.
    rewrite (N.eqb_sym n (blen bs0)).
    destruct (blen bs0 =? n); split; intros; try discriminate.
    + split; [reflexivity|]. cbn [option_map]. congruence.
    + right. reflexivity.
  - apply option_map_some in Hv as [vs [Hvs ->]]. cbn [src_wf] in Hwf.
    exact (seq_static_correct TByte n set_correct_byte eq_refl l vs Hwf Hvs).
Qed.

Lemma bytes_dyn_case : forall s0 v, src_wf s0 = true -> bytes_src_val byte_src_val s0 = Some v ->
    let spec := dyn_array_enc false false (uint_enc 8) v in
    let ok := match s0 with
              | SBytesLit bs => match encoded_byte_string bs with Some _ => true | None => false end
              | SBytesExpr _ => true
              | SMembers l => seq_ok true TByte byte_src_ok l
              | _ => false
              end in
    let run := match s0 with
               | SBytesLit bs => option_map SB (encoded_byte_string bs)
               | SBytesExpr bs => option_map SB (store_encoded_expr_byte_string None bs)
               | SMembers l => seq_run None true TByte (fun m => uint_src_run 8 (uncopy m)) l
               | _ => None
               end in
    (forall bs, spec = Some bs -> ok = true /\ run = Some (SB bs)) /\ (spec = None -> ok = false \/ run = None).
Proof.
  intros s0 v Hwf Hv. destruct s0 as [z|b|k|bs0|bs0|s'|l]; cbn [bytes_src_val] in Hv; try discriminate.
  - injection Hv as <-. cbn zeta. rewrite dyn_bytes_enc_spec. unfold encoded_byte_string.
    destruct (blen bs0 <? 65536); split; intros; try discriminate.
    + split; [reflexivity|]. cbn [option_map]. congruence.
    + left. reflexivity.
  - injection Hv as <-. cbn zeta. rewrite dyn_bytes_enc_spec, store_expr_bytes_none.
    cbn [src_wf] in Hwf. apply N.leb_le in Hwf. unfold MAX_BYTES in Hwf.
    assert (Hlt : (blen bs0 <? 65536) = true) by (apply N.ltb_lt; lia). rewrite Hlt.
    split; [|discriminate]. intros bs H. split; [reflexivity|]. cbn [option_map]. congruence.
  - apply option_map_some in Hv as [vs [Hvs ->]]. cbn [src_wf] in Hwf.
    exact (seq_dyn_correct TByte set_correct_byte eq_refl l vs Hwf Hvs).
Qed.

Lemma adapt_bytes : forall (spec : option bytes) (ok : bool) (run : option sval),
    ((forall bs, spec = Some bs -> ok = true /\ run = Some (SB bs)) /\ (spec = None -> ok = false \/ run = None)) ->
    (forall bs, spec = Some bs -> ok = true /\ exists c, run = Some c /\ c = SB bs) /\
    (spec = None -> ok = false \/ run = None).
Proof.
  intros spec ok run [HS HN]. split; [|exact HN].
  intros bs H. destruct (HS bs H) as [H1 H2]. split; [exact H1|]. exists (SB bs). split; [exact H2 | reflexivity].
Qed.

Lemma set_correct_address : set_correct TAddress.
Proof.
  intros s v Hwf Hv. cbn [denote copyable] in Hv. rewrite guard_true in Hv.
  cbn [set_ok run_set copyable cell_ok]. rewrite guard_true. cbn [andb].
  apply adapt_bytes. exact (bytes_static_case 32 (uncopy s) v (src_wf_uncopy s Hwf) Hv).
Qed.

Lemma set_correct_static_bytes : forall n, set_correct (TStaticBytes n).
Proof.
  intros n s v Hwf Hv. cbn [denote copyable] in Hv. rewrite guard_true in Hv.
  cbn [set_ok run_set copyable cell_ok]. rewrite guard_true. cbn [andb].
  apply adapt_bytes. exact (bytes_static_case n (uncopy s) v (src_wf_uncopy s Hwf) Hv).
Qed.

Lemma set_correct_string : set_correct TString.
Proof.
  intros s v Hwf Hv. cbn [denote copyable] in Hv. rewrite guard_true in Hv.
  cbn [set_ok run_set copyable cell_ok]. rewrite guard_true. cbn [andb].
  apply adapt_bytes. exact (bytes_dyn_case (uncopy s) v (src_wf_uncopy s Hwf) Hv).
Qed.

Lemma set_correct_dyn_bytes : set_correct TDynBytes.
Proof.
  intros s v Hwf Hv. cbn [denote copyable] in Hv. rewrite guard_true in Hv.
  cbn [set_ok run_set copyable cell_ok]. rewrite guard_true. cbn [andb].
  apply adapt_bytes. exact (bytes_dyn_case (uncopy s) v (src_wf_uncopy s Hwf) Hv).
Qed.

(* ------------------------------------------------------------------------------------------ *)
(* 7. arrays                                                                                   *)
(* ------------------------------------------------------------------------------------------ *)
Lemma set_correct_static_array : forall e n, set_correct e -> pyteal_ty e = true -> set_correct (TStaticArray e n).
Proof.
  intros e n He Hty s v Hwf Hv. cbn [denote copyable] in Hv. rewrite guard_true in Hv.
  cbn [set_ok run_set copyable cell_ok arc4_encode]. rewrite guard_true. cbn [andb].
  pose proof (src_wf_uncopy s Hwf) as Hwf'.
  destruct (uncopy s) as [z|b|k|bs0|bs0|s'|l]; try discriminate.
  apply option_map_some in Hv as [vs [Hvs ->]]. cbn [src_wf] in Hwf'.
  destruct (seq_static_correct e n He Hty l vs Hwf' Hvs) as [HS HN]. split.
  - intros bs Hbs. destruct (HS bs Hbs) as [H1 H2]. split; [exact H1|]. exists (SB bs). split; [exact H2 | reflexivity].
  - exact HN.
Qed.

Lemma set_correct_dyn_array : forall e, set_correct e -> pyteal_ty e = true -> set_correct (TDynArray e).
Proof.
  intros e He Hty s v Hwf Hv. cbn [denote copyable] in Hv. rewrite guard_true in Hv.
  cbn [set_ok run_set copyable cell_ok arc4_encode]. rewrite guard_true. cbn [andb].
  pose proof (src_wf_uncopy s Hwf) as Hwf'.
  destruct (uncopy s) as [z|b|k|bs0|bs0|s'|l]; try discriminate.
  apply option_map_some in Hv as [vs [Hvs ->]]. cbn [src_wf] in Hwf'.
  destruct (seq_dyn_correct e He Hty l vs Hwf' Hvs) as [HS HN]. split.
  - intros bs Hbs. destruct (HS bs Hbs) as [H1 H2]. split; [exact H1|]. exists (SB bs). split; [exact H2 | reflexivity].
  - exact HN.
Qed.

(* ------------------------------------------------------------------------------------------ *)
(* 8. tuples                                                                                   *)
(* ------------------------------------------------------------------------------------------ *)
Lemma zip_all_length : forall {A C} (fs : list (A -> option C)) l cs, zip_all fs l = Some cs ->
    List.length cs = List.length fs /\ List.length l = List.length fs.
Proof.
  intros A C fs. induction fs as [|f fr IH]; intros [|a r] cs H; cbn [zip_all] in H; try discriminate.
  - injection H as <-. split; reflexivity.
  - apply obind_some in H as [c [_ H]]. apply option_map_some in H as [cs' [H ->]].
    destruct (IH _ _ H) as [H1 H2]. cbn [List.length]. split; congruence.
Qed.

Lemma members_tuple : forall ts, Forall set_correct ts -> forallb pyteal_ty ts = true -> forall l vs,
    forallb src_wf l = true -> zip_all (map (fun x => denote x) ts) l = Some vs ->
    (forall es, enc_seq (map (fun x => enc_elem (is_bool x) (is_dynamic x) (arc4_encode x)) ts) vs = Some es ->
       zip_forall (map (fun x => set_ok x) ts) l = true /\
       exists cs, zip_all (map (fun x => run_set None x) ts) l = Some cs /\ Forall2 rep (combine ts cs) es) /\
    (enc_seq (map (fun x => enc_elem (is_bool x) (is_dynamic x) (arc4_encode x)) ts) vs = None ->
       zip_forall (map (fun x => set_ok x) ts) l = false \/ zip_all (map (fun x => run_set None x) ts) l = None).
Proof.
  intros ts HF. induction HF as [|t tr He _ IH]; intros Hty l vs Hwf Hvs.
  - destruct l as [|s r]; cbn [map zip_all] in Hvs; [|discriminate]. injection Hvs as <-.
    cbn [map enc_seq]. split; [|discriminate]. intros es H. injection H as <-.
    split; [reflexivity|]. exists []. split; [reflexivity | constructor].
  - destruct l as [|s r]; cbn [map zip_all] in Hvs; [discriminate|].
    apply obind_some in Hvs as [v [Hv Hvs]]. apply option_map_some in Hvs as [vr [Hvr ->]].
    cbn [forallb] in Hwf, Hty. apply andb_true_iff in Hwf as [Hwf1 Hwf2]. apply andb_true_iff in Hty as [Hty1 Hty2].
    destruct (He s v Hwf1 Hv) as [HeS HeN]. destruct (IH Hty2 r vr Hwf2 Hvr) as [IHS IHN]. clear IH.
    cbn [map enc_seq zip_forall zip_all].
    destruct (arc4_encode t v) as [bs|] eqn:Henc.
    + destruct (HeS bs eq_refl) as [Hok [c [Hrun Hcell]]].
      destruct (enc_elem (is_bool t) (is_dynamic t) (arc4_encode t) v) as [el|] eqn:Hel.
      2:{ apply enc_elem_none_iff in Hel. congruence. }
      pose proof (cell_rep t v bs c el Hty1 Henc Hcell Hel) as Hrep.
      cbn [obind]. rewrite Hok, Hrun. cbn [andb obind].
      destruct (enc_seq (map (fun x => enc_elem (is_bool x) (is_dynamic x) (arc4_encode x)) tr) vr) as [es'|].
      * split; [|discriminate]. intros es H. cbn [option_map] in H. injection H as <-.
        destruct (IHS es' eq_refl) as [Hokr [cs [Hrunr Hrepr]]]. split; [exact Hokr|].
        exists (c :: cs). rewrite Hrunr. split; [reflexivity|]. cbn [combine]. constructor; assumption.
      * split; [discriminate|]. intros _. destruct (IHN eq_refl) as [H|H]; [left; exact H | right; rewrite H; reflexivity].
    + assert (Hel : enc_elem (is_bool t) (is_dynamic t) (arc4_encode t) v = None) by (apply enc_elem_none_iff; exact Henc).
      rewrite Hel. cbn [obind]. split; [discriminate|]. intros _.
      destruct (HeN eq_refl) as [H|H]; [left; rewrite H; reflexivity | right; rewrite H; reflexivity].
Qed.

Lemma map_fst_combine : forall {A B} (l1 : list A) (l2 : list B), List.length l2 = List.length l1 ->
    map fst (combine l1 l2) = l1.
Proof.
  intros A B l1. induction l1 as [|a r IH]; intros [|b r2] H; try discriminate; [reflexivity|].
  cbn [combine map fst]. f_equal. apply IH. injection H as H. exact H.
Qed.

Lemma types_ok_tuple : forall ts cs, List.length cs = List.length ts ->
    types_ok ts = encode_tuple_ok (combine ts cs).
Proof.
  intros ts cs H. unfold types_ok. apply encode_tuple_ok_types.
  rewrite (map_fst_combine ts cs H), map_map. cbn [fst]. apply map_id.
Qed.

Lemma set_correct_tuple : forall nm ts, Forall set_correct ts -> forallb pyteal_ty ts = true ->
    set_correct (TTuple nm ts).
Proof.
  intros nm ts HF Hty s v Hwf Hv. cbn [denote copyable] in Hv.
  destruct s as [z|b|k|bs0|bs0|s'|l]; cbn [is_copy negb orb uncopy] in Hv; try discriminate.
  apply option_map_some in Hv as [vs [Hvs ->]]. cbn [src_wf] in Hwf.
  cbn [set_ok run_set is_copy negb orb uncopy andb arc4_encode tuple_enc cell_ok].
  destruct (members_tuple ts HF Hty l vs Hwf Hvs) as [HS HN].
  destruct (enc_seq (map (fun x => enc_elem (is_bool x) (is_dynamic x) (arc4_encode x)) ts) vs) as [es|]; cbn [obind].
  - destruct (HS es eq_refl) as [Hok [cs [Hrun Hrep]]].
    destruct (zip_all_length _ _ _ Hrun) as [Hlen _]. rewrite map_length in Hlen.
    destruct (encode_tuple_correct _ _ Hrep) as [Tok Tbad].
    rewrite Hok, Hrun, (types_ok_tuple ts cs Hlen). cbn [andb obind].
    destruct (encode_tuple_ok (combine ts cs)) eqn:Hto.
    + rewrite <- (Tok eq_refl). split.
      * intros bs Hbs. split; [reflexivity|]. exists (SB bs). rewrite Hbs. split; reflexivity.
      * intro Hnone. right. rewrite Hnone. reflexivity.
    + rewrite (Tbad eq_refl). split; [discriminate|]. intros _. left. reflexivity.
  - split; [discriminate|]. intros _. destruct (HN eq_refl) as [H|H].
    + left. rewrite H. reflexivity.
    + right. rewrite H. reflexivity.
Qed.

(* ------------------------------------------------------------------------------------------ *)
(* 9. every type PyTeal can build                                                              *)
(* ------------------------------------------------------------------------------------------ *)
Theorem set_correct_all : forall t, pyteal_ty t = true -> set_correct t.
Proof.
  induction t as [| | n | | | e n IH | e IH | nm ts IH | n | | k | k] using ty_ind'; intro Hty;
    cbn [pyteal_ty] in Hty; try discriminate.
  - exact set_correct_bool.
  - exact set_correct_byte.
  - exact (set_correct_uint n Hty).
  - exact set_correct_address.
  - exact set_correct_string.
  - exact (set_correct_static_array e n (IH Hty) Hty).
  - exact (set_correct_dyn_array e (IH Hty) Hty).
  - apply set_correct_tuple; [|exact Hty].
    apply Forall_forall. intros x Hin. rewrite Forall_forall in IH. apply (IH x Hin).
    rewrite forallb_forall in Hty. exact (Hty x Hin).
  - exact (set_correct_static_bytes n).
  - exact set_correct_dyn_bytes.
Qed.

(* the observable outcome of  x.set(<source>); Log(x.encode())  on the idealised (uncapped) AVM *)
Theorem set_encodes_per_arc4 : forall t s v,
    pyteal_ty t = true -> src_wf s = true -> denote t s = Some v ->
    set_outcome None t s =
    match arc4_encode t v with
    | Some bs => OBytes bs
    | None => if set_ok t s then OFail else OReject
    end.
Proof.
  intros t s v Hty Hwf Hv. destruct (set_correct_all t Hty s v Hwf Hv) as [HS HN]. unfold set_outcome.
  destruct (arc4_encode t v) as [bs|] eqn:Henc.
  - destruct (HS bs eq_refl) as [Hok [c [Hrun Hcell]]]. rewrite Hok, Hrun. cbn [obind].
    rewrite (cell_encode t v bs c Hty Henc Hcell). reflexivity.
  - destruct (HN eq_refl) as [H|H]; [rewrite H; reflexivity|].
    rewrite H. cbn [obind]. reflexivity.
Qed.

Corollary set_bytes_iff_spec : forall t s v bs,
    pyteal_ty t = true -> src_wf s = true -> denote t s = Some v ->
    (set_outcome None t s = OBytes bs <-> arc4_encode t v = Some bs).
Proof.
  intros t s v bs Hty Hwf Hv. rewrite (set_encodes_per_arc4 t s v Hty Hwf Hv).
  destruct (arc4_encode t v) as [b|]; [split; intro H; congruence|].
  split; [|discriminate]. destruct (set_ok t s); discriminate.
Qed.
