(* Proofs/NormalizeExamples.v — concrete graphs: non-vacuity of the hypotheses of the
   NormalizeBlocks theorems (loop, diamond, chain of empty blocks), and the refutations
   (witnesses found by running the model; each was confirmed on the real compiler, see
   design_notes/C01_normalize.md). *)
From Coq Require Import List Arith NArith String Bool Lia.
From PV Require Import Base.Bytes AVM.Syntax AVM.Machine Src.Expr Src.Denote
  Comp.Blocks Comp.Lower Comp.Passes Comp.GraphSem Comp.SimCheck
  Proofs.LowerFrame Proofs.NormalizeSem Proofs.NormalizeGraph Proofs.IncomingProof Proofs.NormalizeCorrect.
Import ListNotations.

(* a graph from a list of blocks, ids = positions, no incoming lists yet (as lowering leaves it) *)
Definition mk_graph (bs : list block) : graph :=
  mkG (fun i => nth_error bs i) (fun _ => []) (List.length bs).

Lemma wf_mk_graph bs : wf (mk_graph bs).
Proof. intros i L. cbn in *. apply nth_error_None. exact L. Qed.

Lemma mk_graph_inc bs b : g_inc (mk_graph bs) b = [].
Proof. reflexivity. Qed.

Definition op (o : opc) : instr := mkI o [].
Definition with_incoming (g : graph) (s : id) : graph := fst (add_incoming g s).

Lemma wf_with_incoming g s : wf g -> (forall b, NoDup (g_inc g b)) -> wf (with_incoming g s).
Proof.
  intros W Z i L. destruct (add_incoming_covers g s W Z) as (B & N & _).
  unfold with_incoming in *. rewrite B. apply W. rewrite <- N. exact L.
Qed.

Lemma wf_with_incoming_mk bs s : wf (with_incoming (mk_graph bs) s).
Proof. apply wf_with_incoming; [apply wf_mk_graph|intros b; constructor]. Qed.

(* graphs are compared on the allocated ids *)
Definition view (g : graph) : list (option block * list id) :=
  map (fun i => (g_blk g i, g_inc g i)) (seq 0 (g_next g)).

(* ---- shapes ---- *)
(* Seq(While(c).Do(body), Return): an EMPTY start block, then the loop head with two predecessors *)
Definition g_loop_first : graph :=
  mk_graph [ BSimple [] (Some 1);
             BCond [op O_dup] (Some 2) (Some 3);
             BSimple [op O_pop] (Some 1);
             BSimple [op O_return_] None ].

(* something first, then the loop: op ; While(c).Do(body) ; Return *)
Definition g_loop : graph :=
  mk_graph [ BSimple [op O_dup] (Some 1);
             BSimple [] (Some 2);
             BCond [op O_dup] (Some 3) (Some 4);
             BSimple [op O_pop] (Some 2);
             BSimple [] (Some 5);
             BSimple [op O_return_] None ].

(* If(c).Then(a).Else(b) ; Return — a diamond with an empty join block *)
Definition g_diamond : graph :=
  mk_graph [ BSimple [op O_dup] (Some 1);
             BCond [] (Some 2) (Some 3);
             BSimple [op O_pop] (Some 4);
             BSimple [op O_dup] (Some 4);
             BSimple [] (Some 5);
             BSimple [op O_return_] None ].

(* a chain of empty blocks *)
Definition g_chain : graph :=
  mk_graph [ BSimple [op O_dup] (Some 1);
             BSimple [] (Some 2);
             BSimple [] (Some 3);
             BSimple [] (Some 4);
             BSimple [op O_return_] None ].

(* op ; If(c).Then(Seq()) ; While(c).Do(body) ; Return — the If's then-branch and its end block are
   both empty, and the end block cannot be merged into the loop head *)
Definition g_if_empty_then_loop : graph :=
  mk_graph [ BSimple [op O_dup] (Some 1);
             BCond [op O_dup] (Some 2) (Some 3);
             BSimple [] (Some 3);
             BSimple [] (Some 4);
             BCond [op O_dup] (Some 5) (Some 6);
             BSimple [op O_pop] (Some 4);
             BSimple [op O_return_] None ].

(* an empty block that is its own successor *)
Definition g_empty_self_loop : graph :=
  mk_graph [ BSimple [op O_dup] (Some 1);
             BSimple [] (Some 1) ].

(* ---- non-vacuity: the certificate holds and the pass really rewrites the graph ---- *)
Example cert_loop : norm_cert (with_incoming g_loop 0) 0 = true.
Proof. vm_compute. reflexivity. Qed.
Example cert_diamond : norm_cert (with_incoming g_diamond 0) 0 = true.
Proof. vm_compute. reflexivity. Qed.
Example cert_chain : norm_cert (with_incoming g_chain 0) 0 = true.
Proof. vm_compute. reflexivity. Qed.

Example normalize_loop :
  let '(g', s') := normalize (with_incoming g_loop 0) 0 in
  (s', map fst (view g')) =
  (1, [ Some (BSimple [op O_dup] (Some 1));
        Some (BSimple [op O_dup] (Some 2));
        Some (BCond [op O_dup] (Some 3) (Some 5));
        Some (BSimple [op O_pop] (Some 2));
        Some (BSimple [] (Some 5));
        Some (BSimple [op O_return_] None) ]).
Proof. vm_compute. reflexivity. Qed.

Example normalize_chain :
  let '(g', s') := normalize (with_incoming g_chain 0) 0 in
  (s', g_blk g' s') = (4, Some (BSimple [op O_dup; op O_return_] None)).
Proof. vm_compute. reflexivity. Qed.

Example normalize_diamond :
  let '(g', s') := normalize (with_incoming g_diamond 0) 0 in
  (s', map fst (view g')) =
  (1, [ Some (BSimple [op O_dup] (Some 1));
        Some (BCond [op O_dup] (Some 2) (Some 3));
        Some (BSimple [op O_pop] (Some 5));
        Some (BSimple [op O_dup] (Some 5));
        Some (BSimple [] (Some 5));
        Some (BSimple [op O_return_] None) ]).
Proof. vm_compute. reflexivity. Qed.

(* the hypotheses of [normalize_correct] are satisfiable together, with a graph the pass changes *)
Example normalize_correct_nonvacuous :
  exists g s, wf g /\ cond_full g /\ inc_covers g s /\ g_inc g s = [] /\
              g_blk (fst (normalize g s)) <> g_blk g.
Proof.
  exists (with_incoming g_loop 0), 0.
  assert (W : wf (with_incoming g_loop 0)) by apply wf_with_incoming_mk.
  pose proof (norm_pre_check_sound _ W (eq_refl : norm_pre_check (with_incoming g_loop 0) = true)) as P.
  split; [exact W|]. split; [intros i b E; exact (proj1 (P i b E))|].
  split.
  - apply cov_of_tree_valid. apply (validate_tree_iff _ _ W). vm_compute. reflexivity.
  - split; [vm_compute; reflexivity|].
    intros H. apply (f_equal (fun f => f 1)) in H. vm_compute in H. discriminate.
Qed.

(* ---- C20, HISTORICAL: the defects of the code before the repair 39fa261 of /repo ---- *)
(* (1) the pinned code: an empty start block in front of a loop head *)
Theorem normalize_pinned_keeps_tree_valid_refuted :
  exists g s,
    wf g /\ inc_exact g s /\ norm_cert_pinned g s = true /\ validate_tree g s = true /\
    (let '(g', s') := normalize_pinned g s in validate_tree g' s') = false.
Proof.
  exists (with_incoming g_loop_first 0), 0.
  destruct (add_incoming_exact g_loop_first 0 (wf_mk_graph _) (fun b _ => eq_refl)) as (B & N & X).
  split; [apply wf_with_incoming_mk|]. split; [exact X|].
  repeat split; vm_compute; reflexivity.
Qed.

(* the one-line repair (start = outgoing[0]) cures that witness ... *)
Example normalize_startfix_cures_loop_first :
  (let '(g', s') := normalize_startfix (with_incoming g_loop_first 0) 0 in validate_tree g' s') = true.
Proof. vm_compute. reflexivity. Qed.

(* (2) ... but not this one: replaceOutgoing re-points only ONE branch of a conditional block whose
   two branches have both been redirected to the same empty block *)
Theorem normalize_startfix_keeps_tree_valid_refuted :
  exists g s,
    wf g /\ inc_exact g s /\ norm_cert_pinned g s = true /\ validate_tree g s = true /\
    (let '(g', s') := normalize_startfix g s in validate_tree g' s') = false /\
    (let '(g', s') := normalize_pinned g s in validate_tree g' s') = false.
Proof.
  exists (with_incoming g_if_empty_then_loop 0), 0.
  destruct (add_incoming_exact g_if_empty_then_loop 0 (wf_mk_graph _) (fun b _ => eq_refl)) as (B & N & X).
  split; [apply wf_with_incoming_mk|]. split; [exact X|].
  repeat split; vm_compute; reflexivity.
Qed.

Example normalize_noskip_cures_if_empty :
  (let '(g', s') := normalize_noskip (with_incoming g_if_empty_then_loop 0) 0 in validate_tree g' s') = true.
Proof. vm_compute. reflexivity. Qed.

(* (3) with both repairs, the only remaining counterexamples contain an empty block that is its own
   successor (never produced by lowering: every PyTeal loop has a conditional block) *)
Theorem normalize_noskip_keeps_tree_valid_refuted :
  exists g s,
    wf g /\ inc_exact g s /\ validate_tree g s = true /\
    (let '(g', s') := normalize_noskip g s in validate_tree g' s') = false.
Proof.
  exists (with_incoming g_empty_self_loop 0), 0.
  destruct (add_incoming_exact g_empty_self_loop 0 (wf_mk_graph _) (fun b _ => eq_refl)) as (B & N & X).
  split; [apply wf_with_incoming_mk|]. split; [exact X|].
  repeat split; vm_compute; reflexivity.
Qed.

Example normalize_on_witnesses :
  (let '(g', s') := normalize (with_incoming g_loop_first 0) 0 in validate_tree g' s') = true /\
  (let '(g', s') := normalize (with_incoming g_if_empty_then_loop 0) 0 in validate_tree g' s') = true /\
  (let '(g', s') := normalize (with_incoming g_empty_self_loop 0) 0 in validate_tree g' s') = true.
Proof. repeat split; vm_compute; reflexivity. Qed.

Theorem repairs_on_witnesses :
  (let '(g', s') := normalize_startfix (with_incoming g_loop_first 0) 0 in validate_tree g' s') = true /\
  (let '(g', s') := normalize_noskip (with_incoming g_if_empty_then_loop 0) 0 in validate_tree g' s') = true /\
  (let '(g', s') := normalize (with_incoming g_loop_first 0) 0 in validate_tree g' s') = true /\
  (let '(g', s') := normalize (with_incoming g_if_empty_then_loop 0) 0 in validate_tree g' s') = true /\
  (let '(g', s') := normalize (with_incoming g_empty_self_loop 0) 0 in validate_tree g' s') = true.
Proof.
  split; [exact normalize_startfix_cures_loop_first|]. split; [exact normalize_noskip_cures_if_empty|].
  exact normalize_on_witnesses.
Qed.

(* ---- C01: side conditions ---- *)
Definition env0 : denv :=
  mkEnv (mkCtx true [] 0 [] [] 0) (fun x => x) [] [] false (fun _ => mkI O_err []).
Definition st0 : mstate := init_state [] [] [].

Lemma star_det_halting env G c0 c1 c2 :
  star env G c0 c1 -> halting c1 -> star env G c0 c2 -> halting c2 -> c1 = c2.
Proof.
  induction 1 as [c|c0 c1' c1 E S1 IH]; intros H1 S2 H2.
  - symmetry. eapply star_halting; eauto.
  - inversion S2 as [|a b d E2 S2']; subst.
    + rewrite gstep_halting in E by exact H2. discriminate.
    + rewrite E in E2. injection E2 as E2. subst b. apply IH; assumption.
Qed.

Lemma grun_star env G fuel : forall c, star env G c (grun fuel env G c).
Proof.
  induction fuel as [|f IH]; intros c; cbn [grun]; [apply star_refl|].
  destruct (gstep env G c) as [c'|] eqn:E; [|apply star_refl].
  eapply star_step; [exact E|apply IH].
Qed.

(* (a) HISTORICAL (the [elif] replacement): a conditional block whose two branches are the same
   block: pass 1 re-points one branch only, the merged predecessor stays reachable and its ops run
   twice.  The current code is correct on this graph ([normalize_correct] has no such hypothesis). *)
Definition g_double_edge : graph :=
  mk_graph [ BCond [] (Some 1) (Some 1);
             BSimple [op O_pop] (Some 2);
             BSimple [op O_return_] None ].

Theorem normalize_pinned_double_edge_refuted :
  exists g s,
    wf g /\ cond_full g /\ inc_covers g s /\ g_inc g s = [] /\ validate_tree g s = true /\
    let '(g', s') := normalize_pinned g s in
    ~ equiv_from env0 (g_blk g) s (g_blk g') s'.
Proof.
  exists (with_incoming g_double_edge 0), 0.
  assert (W : wf (with_incoming g_double_edge 0)) by apply wf_with_incoming_mk.
  assert (V : validate_tree (with_incoming g_double_edge 0) 0 = true) by (vm_compute; reflexivity).
  split; [exact W|]. split.
  { intros i b E.
    destruct (add_incoming_covers g_double_edge 0 (wf_mk_graph _) (fun b => NoDup_nil _)) as (B & _).
    unfold with_incoming in E. rewrite B in E. cbn [g_double_edge mk_graph g_blk] in E.
    destruct i as [|[|[|i]]]; cbn [nth_error] in E.
    - injection E as E. subst b. split; discriminate.
    - injection E as E. subst b. exact Logic.I.
    - injection E as E. subst b. exact Logic.I.
    - destruct i; discriminate. }
  split; [apply cov_of_tree_valid; apply (validate_tree_iff _ _ W); exact V|].
  split; [vm_compute; reflexivity|]. split; [exact V|].
  destruct (normalize_pinned (with_incoming g_double_edge 0) 0) as [g' s'] eqn:E.
  intros Q.
  pose (stk := [VI 0; VI 7; VI 9]).
  specialize (Q stk st0 (GExit (VI 9) st0) Logic.I).
  assert (S1 : star env0 (g_blk (with_incoming g_double_edge 0)) (GAt 0 stk st0) (GExit (VI 9) st0)).
  { pose proof (grun_star env0 (g_blk (with_incoming g_double_edge 0)) 5 (GAt 0 stk st0)) as K.
    vm_compute in K. exact K. }
  apply Q in S1.
  assert (S2 : star env0 (g_blk g') (GAt s' stk st0) GFail).
  { pose proof (grun_star env0 (g_blk g') 5 (GAt s' stk st0)) as K.
    vm_compute in E. injection E as E1 E2. subst g' s'. vm_compute in K. exact K. }
  pose proof (star_det_halting _ _ _ _ _ S1 Logic.I S2 Logic.I) as K. discriminate.
Qed.

(* (b) CURRENT code: the hypothesis [g_inc g s = []] of [normalize_correct] is needed — a start block
   with an incoming edge whose source gets merged into it: the merged ops run before the start block's
   own ops on entry *)
Definition g_start_with_pred : graph :=
  mk_graph [ BSimple [op O_pop] (Some 1);
             BSimple [op O_return_] (Some 0) ].

Theorem normalize_start_with_pred_refuted :
  exists g s,
    wf g /\ cond_full_check g = true /\ inc_covers g s /\ validate_tree g s = true /\
    let '(g', s') := normalize g s in
    ~ equiv_from env0 (g_blk g) s (g_blk g') s'.
Proof.
  exists (with_incoming g_start_with_pred 0), 0.
  assert (W : wf (with_incoming g_start_with_pred 0)) by apply wf_with_incoming_mk.
  assert (V : validate_tree (with_incoming g_start_with_pred 0) 0 = true) by (vm_compute; reflexivity).
  split; [exact W|]. split; [vm_compute; reflexivity|].
  split; [apply cov_of_tree_valid; apply (validate_tree_iff _ _ W); exact V|]. split; [exact V|].
  destruct (normalize (with_incoming g_start_with_pred 0) 0) as [g' s'] eqn:E.
  intros Q.
  pose (stk := [VI 7; VI 9]).
  specialize (Q stk st0 (GExit (VI 9) st0) Logic.I).
  assert (S1 : star env0 (g_blk (with_incoming g_start_with_pred 0)) (GAt 0 stk st0) (GExit (VI 9) st0)).
  { pose proof (grun_star env0 (g_blk (with_incoming g_start_with_pred 0)) 5 (GAt 0 stk st0)) as K.
    vm_compute in K. exact K. }
  apply Q in S1.
  assert (S2 : star env0 (g_blk g') (GAt s' stk st0) (GExit (VI 7) st0)).
  { pose proof (grun_star env0 (g_blk g') 5 (GAt s' stk st0)) as K.
    vm_compute in E. injection E as E1 E2. subst g' s'. vm_compute in K. exact K. }
  pose proof (star_det_halting _ _ _ _ _ S1 Logic.I S2 Logic.I) as K. discriminate.
Qed.
