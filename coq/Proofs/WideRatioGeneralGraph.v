(* Proofs/WideRatioGeneralGraph.v — C16 for arbitrary factors (part 3):
   (a) a syntactic class of factor expressions for which the semantic hypothesis [uint_valued] of
       [wide_ratio_never_wraps] holds in EVERY environment (constants, sums and products);
   (b) the theorems of Proofs/WideRatioGeneral.v restated on the block graph PyTeal's lowering
       emits for [EWide ns ds], by composition with [lower_correct] (Proofs/LowerCorrect.v). *)
From Coq Require Import List NArith Lia Bool.
From PV Require Import Base.Bytes Base.U64 AVM.Syntax AVM.Ops AVM.Machine Src.Expr Src.Denote
  Comp.Blocks Comp.WideRatio Comp.Lower Comp.GraphSem
  Proofs.LowerFrame Proofs.LowerLemmas Proofs.LowerCorrect
  Proofs.WideRatioProof Proofs.WideRatioGeneralOps Proofs.WideRatioGeneral.
Import ListNotations.
Local Open Scope N_scope.

(* ---------------- (a) expressions that are uint64-valued whatever the context ---------------- *)
Definition x_int (n : N) : expr := EOp O_int [AInt n] TUint [].

Lemma do_op_glue' env o args s st : glue_instr (mkI o args) = true ->
  do_op env o args s st = match exec_pure o args s with POk s' => DNorm s' st | _ => DFail end.
Proof. intros H. exact (do_op_glue env (mkI o args) s st H). Qed.

Lemma denote_int env f n s st : n < U64 -> denote env (S f) (x_int n) s st = DNorm (VI n :: s) st.
Proof.
  intros H. unfold x_int. cbn [denote den_list bind].
  rewrite (do_op_glue' env O_int [AInt n] s st eq_refl).
  cbn [exec_pure]. unfold oki, fits64. apply N.ltb_lt in H. rewrite H. reflexivity.
Qed.

Lemma uint_valued_int env n : uint_valued env (x_int n).
Proof.
  intros fuel s st s' st' H. destruct fuel as [|f]; [discriminate H|].
  unfold x_int in H. cbn [denote den_list bind] in H.
  rewrite (do_op_glue' env O_int [AInt n] s st eq_refl) in H.
  cbn [exec_pure] in H. unfold oki, fits64 in H.
  destruct (N.ltb_spec n U64) as [L|L]; [|discriminate H].
  inversion H; subst. exists n. split; [exact L|reflexivity].
Qed.

Definition sum_or_product (o : opc) : bool := match o with O_add | O_mul => true | _ => false end.

Lemma do_op_sum_product env o a b s st : sum_or_product o = true ->
  do_op env o [] (VI b :: VI a :: s) st =
  let r := match o with O_add => a + b | _ => a * b end in
  if r <? U64 then DNorm (VI r :: s) st else DFail.
Proof.
  intros H. destruct o; try discriminate H.
  - rewrite (do_op_glue' env O_add [] _ st eq_refl). cbn [exec_pure]. unfold oki, fits64.
    cbv zeta. destruct (a + b <? U64); reflexivity.
  - rewrite (do_op_glue' env O_mul [] _ st eq_refl). cbn [exec_pure]. unfold oki, fits64.
    cbv zeta. destruct (a * b <? U64); reflexivity.
Qed.

Lemma nary_rest_uint env den o rest : sum_or_product o = true -> Forall (uintv den) rest ->
  forall a s st s' st', a < U64 ->
    den_nary_rest env den o rest (VI a :: s) st = DNorm s' st' -> exists v, v < U64 /\ s' = VI v :: s.
Proof.
  intros Ho. induction 1 as [|x rest Ux _ IH]; intros a s st s' st' Ha H.
  - cbn [den_nary_rest] in H. inversion H; subst. eauto.
  - cbn [den_nary_rest] in H.
    destruct (den x (VI a :: s) st) as [s1 st1| | | | | | | |] eqn:E; try discriminate H.
    cbn [bind] in H. destruct (Ux _ _ _ _ E) as (b & Hb & ->).
    rewrite (do_op_sum_product env o a b s st1 Ho) in H. cbv zeta in H.
    destruct (N.ltb_spec (match o with O_add => a + b | _ => a * b end) U64) as [L|L]; [|discriminate H].
    cbn [bind] in H. exact (IH _ _ _ _ _ L H).
Qed.

(* a sum / product of uint64-valued expressions is uint64-valued (PyTeal's Add / Mul) *)
Lemma uint_valued_nary env o t a1 rest : sum_or_product o = true ->
  uint_valued env a1 -> Forall (uint_valued env) rest -> uint_valued env (ENary o t (a1 :: rest)).
Proof.
  intros Ho U1 Ur fuel s st s' st' H. destruct fuel as [|f]; [discriminate H|].
  cbn [denote] in H.
  destruct (denote env f a1 s st) as [s1 st1| | | | | | | |] eqn:E; try discriminate H.
  cbn [bind] in H. destruct (U1 f _ _ _ _ E) as (a & Ha & ->).
  eapply (nary_rest_uint env (denote env f) o rest Ho); [|exact Ha|exact H].
  eapply Forall_impl; [|exact Ur]. intros x Hx. apply Hx.
Qed.

(* constant factors: the hypothesis of the general theorem holds, so the constant-factor theorem
   Props/C16.v is an instance of the general one *)
Lemma eval_factors_consts env f vs st : Forall (fun c => c < U64) vs ->
  eval_factors env (S f) (map x_int vs) st vs st.
Proof.
  induction 1 as [|v vs Hv _ IH]; cbn [map]; [constructor|].
  apply (evalF_cons _ (x_int v) (map x_int vs) st v st vs st Hv); [|exact IH].
  intros s. apply denote_int; exact Hv.
Qed.

(* ---------------- (b) on the lowered block graph ---------------- *)
Section Graph.
  Variable env : denv.
  Variable o : copts.
  Variable c : lctx.
  Hypothesis Hcons : consistent env c.
  Variables (ns ds : list expr) (k : option id) (g : graph) (s en : id) (g' : graph).
  Hypothesis W : wf g.
  Hypothesis Hlow : lower o c (EWide ns ds) k g = ((s, en), g').
  Variable G : bgraph.
  Hypothesis HG : gincl (g_blk g') G.

  Lemma wide_graph_tgt fuel stk st :
    tgt env G (GAt s stk st) k c (denote env fuel (EWide ns ds) stk st).
  Proof. exact (lower_correct env o fuel c (EWide ns ds) Hcons k g s en g' W Hlow G HG stk st). Qed.

  (* factors that evaluate: the graph reaches the continuation with the exact quotient pushed, or fails *)
  Theorem wide_ratio_general_graph f nvals dvals stk st stm st' :
    ns <> [] -> ds <> [] ->
    eval_factors env f ns st nvals stm ->
    eval_factors env f ds stm dvals st' ->
    star env G (GAt s stk st)
         (match wide_ratio_spec nvals dvals with
          | Some q => cont_conf k (VI q :: stk) st'
          | None => GFail
          end).
  Proof.
    intros Hn Hd En Ed. pose proof (wide_graph_tgt (S f) stk st) as T.
    rewrite (wide_ratio_general env f ns ds nvals dvals stk st stm st' Hn Hd En Ed) in T.
    destruct (wide_ratio_spec nvals dvals); exact T.
  Qed.

  (* uint64-valued factors: whatever the source semantics prescribes is what the graph does, and when
     that is a normal completion the value pushed is the exact quotient of values the factors took *)
  Theorem wide_ratio_graph_never_wraps fuel stk st :
    ns <> [] -> ds <> [] ->
    Forall (uint_valued env) ns -> Forall (uint_valued env) ds ->
    tgt env G (GAt s stk st) k c (denote env fuel (EWide ns ds) stk st) /\
    forall s' st', denote env fuel (EWide ns ds) stk st = DNorm s' st' ->
      star env G (GAt s stk st) (cont_conf k s' st') /\
      exists f nvals dvals stm,
        fuel = S f /\
        ran_factors env f stk ns st nvals stm /\
        ran_factors env f stk ds stm dvals st' /\
        running_ok 1 nvals = true /\ running_ok 1 dvals = true /\
        prod dvals <> 0 /\ prod nvals / prod dvals < U64 /\
        s' = VI (prod nvals / prod dvals) :: stk.
  Proof.
    intros Hn Hd Un Ud. pose proof (wide_graph_tgt fuel stk st) as T. split; [exact T|].
    intros s' st' E. split.
    - rewrite E in T. exact T.
    - exact (wide_ratio_never_wraps env fuel ns ds stk st s' st' Hn Hd Un Ud E).
  Qed.

  (* a numerator factor that fails makes the graph fail *)
  Theorem wide_ratio_graph_factor_fails f pre e post stk st vals st1 :
    ns = pre ++ e :: post ->
    eval_factors env f pre st vals st1 ->
    (forall s0, denote env f e s0 st1 = DFail) ->
    star env G (GAt s stk st) GFail.
  Proof.
    intros Ens Hpre He. pose proof (wide_graph_tgt (S f) stk st) as T. rewrite Ens in T.
    destruct (wide_ratio_abrupt_num env f pre e post ds stk st vals st1 (fun _ => DFail) Hpre He
                (fun _ => Logic.I)) as (acc & E).
    rewrite E in T. destruct (running_ok 1 vals); exact T.
  Qed.
End Graph.
