(* Proofs/ConstantsProof.v — C12: createConstantBlocks (Comp/Constants.v) preserves every site.
   Structure: (1) what a constant pseudo-op denotes, op by op; (2) the key extracted from a site,
   re-spelled the way createConstantBlocks emits it, denotes the same value (uses ConstantsLitProof);
   (3) list plumbing: frequency tables, stable descending sort, block membership, index look-up;
   (4) the emitted block lines and load ops read back; (5) the main theorem. *)
From Coq Require Import List Arith NArith Ascii String Bool Lia Sorting.Sorted.
From PV Require Import Base.Bytes Base.Sexp AVM.Syntax AVM.Machine AVM.Parse
  Comp.ConstantsLit Comp.Constants Comp.ConstantsSpec Proofs.ConstantsLitProof.
Import ListNotations.
Local Open Scope string_scope.

(* ---------------------------------------------------------------- key equality *)
Lemma bytes_eqb_eq a : forall b, bytes_eqb a b = true <-> a = b.
Proof.
  induction a as [|x a IH]; intros [|y b]; cbn; split; intros H; try reflexivity; try discriminate.
  - apply andb_prop in H. destruct H as [H1 H2]. apply Ascii.eqb_eq in H1. apply IH in H2. congruence.
  - injection H as -> ->. rewrite Ascii.eqb_refl. cbn. now apply IH.
Qed.

Lemma ckey_eqb_eq a b : ckey_eqb a b = true <-> a = b.
Proof.
  destruct a, b; cbn; split; intros H; try discriminate; try congruence.
  - apply N.eqb_eq in H. congruence.
  - injection H as ->. apply N.eqb_refl.
  - apply bytes_eqb_eq in H. congruence.
  - injection H as ->. now apply bytes_eqb_eq.
  - apply String.eqb_eq in H. congruence.
  - injection H as ->. apply String.eqb_refl.
Qed.

Lemma ckey_eqb_refl a : ckey_eqb a a = true.
Proof. now apply ckey_eqb_eq. Qed.

Lemma ckey_eqb_neq a b : ckey_eqb a b = false <-> a <> b.
Proof.
  split; intros H.
  - intros E. apply ckey_eqb_eq in E. congruence.
  - destruct (ckey_eqb a b) eqn:E; [|reflexivity]. apply ckey_eqb_eq in E. contradiction.
Qed.

(* ---------------------------------------------------------------- frequency tables *)
Definition keys (l : freqs) : list ckey := map fst l.
Definition wf_freqs (l : freqs) : Prop := NoDup (keys l) /\ Forall (fun kn => (1 <= snd kn)%nat) l.

Lemma bump_keys k l k' : In k' (keys (bump k l)) -> k' = k \/ In k' (keys l).
Proof.
  induction l as [|[k0 n] t IH]; cbn.
  - intros [H|[]]; auto.
  - destruct (ckey_eqb k k0) eqn:E; cbn; intros [H|H]; auto.
    destruct (IH H); auto.
Qed.

Lemma bump_keys_incl k l k' : In k' (keys l) -> In k' (keys (bump k l)).
Proof.
  induction l as [|[k0 n] t IH]; cbn; [intros []|].
  destruct (ckey_eqb k k0) eqn:E; cbn; intros [H|H]; auto.
Qed.

Lemma bump_wf k l : wf_freqs l -> wf_freqs (bump k l).
Proof.
  unfold wf_freqs. induction l as [|[k0 n] t IH]; cbn; intros [Hnd Hf].
  - split; [constructor; [intros []|constructor]|constructor; [cbn; lia|constructor]].
  - inversion Hnd as [|? ? Hnin Hnd']; subst. inversion Hf as [|? ? Hn Hf']; subst.
    destruct (ckey_eqb k k0) eqn:E; cbn.
    + split; [constructor; assumption|constructor; [cbn in *; lia|assumption]].
    + destruct (IH (conj Hnd' Hf')) as [IH1 IH2].
      split; [|constructor; assumption].
      constructor; [|exact IH1]. intros Hin. apply bump_keys in Hin. destruct Hin as [->|Hin]; [|contradiction].
      rewrite ckey_eqb_refl in E. discriminate.
Qed.

Lemma freq_of_in l : NoDup (keys l) -> forall k n, In (k, n) l -> freq_of k l = n.
Proof.
  induction l as [|[k0 n0] t IH]; cbn; intros Hnd k n Hin; [contradiction|].
  inversion Hnd as [|? ? Hnin Hnd']; subst.
  destruct Hin as [E|Hin].
  - injection E as -> ->. now rewrite ckey_eqb_refl.
  - destruct (ckey_eqb k k0) eqn:E.
    + apply ckey_eqb_eq in E. subst k0. exfalso. apply Hnin. change k with (fst (k, n)). now apply in_map.
    + now apply IH.
Qed.

(* ---------------------------------------------------------------- stable descending sort *)
Definition desc (a b : ckey * nat) : Prop := (snd b <= snd a)%nat.

Lemma insert_desc_in x l y : In y (insert_desc x l) <-> y = x \/ In y l.
Proof.
  induction l as [|z t IH]; cbn [insert_desc].
  - cbn. split; intros [H|H]; auto.
  - destruct (snd z <? snd x)%nat; cbn [In].
    + split; intros [H|H]; auto.
    + rewrite IH. split; [intros [H|[H|H]]|intros [H|[H|H]]]; auto.
Qed.

Lemma insert_desc_sorted x l : StronglySorted desc l -> StronglySorted desc (insert_desc x l).
Proof.
  induction l as [|z t IH]; cbn [insert_desc]; intros Hs.
  - constructor; constructor.
  - inversion Hs as [|? ? Hs' Hall]; subst.
    destruct (Nat.ltb_spec (snd z) (snd x)) as [Hlt|Hge].
    + constructor; [exact Hs|]. constructor; [unfold desc; lia|].
      rewrite Forall_forall in *. intros w Hw. specialize (Hall w Hw). unfold desc in *. lia.
    + constructor; [now apply IH|].
      rewrite Forall_forall in *. intros w Hw. apply insert_desc_in in Hw.
      destruct Hw as [->|Hw]; [exact Hge|now apply Hall].
Qed.

Lemma sort_desc_gen l : forall acc, StronglySorted desc acc ->
  StronglySorted desc (fold_left (fun a x => insert_desc x a) l acc) /\
  (forall y, In y (fold_left (fun a x => insert_desc x a) l acc) <-> In y l \/ In y acc).
Proof.
  induction l as [|x t IH]; cbn; intros acc Hs.
  - split; [exact Hs|intuition].
  - destruct (IH (insert_desc x acc) (insert_desc_sorted x acc Hs)) as [H1 H2].
    split; [exact H1|]. intros y. rewrite H2, insert_desc_in. intuition.
Qed.

Lemma sort_desc_sorted l : StronglySorted desc (sort_desc l).
Proof. apply (sort_desc_gen l [] (SSorted_nil _)). Qed.

Lemma sort_desc_in l y : In y (sort_desc l) <-> In y l.
Proof. unfold sort_desc. rewrite (proj2 (sort_desc_gen l [] (SSorted_nil _))). cbn. intuition. Qed.

(* a monotone filter keeps a descending list's entries in place up to any kept entry *)
Lemma filter_keeps_prefix (P : ckey * nat -> bool) l :
  (forall a b, desc a b -> P b = true -> P a = true) ->
  StronglySorted desc l ->
  forall idx x, nth_error l idx = Some x -> P x = true -> nth_error (filter P l) idx = Some x.
Proof.
  intros Hmono. induction l as [|y t IH]; intros Hs idx x Hn Hp.
  - destruct idx; discriminate Hn.
  - inversion Hs as [|? ? Hs' Hall]; subst. destruct idx as [|i]; cbn in Hn.
    + injection Hn as ->. cbn. rewrite Hp. reflexivity.
    + assert (Hy : P y = true).
      { apply (Hmono y x); [|exact Hp]. rewrite Forall_forall in Hall. apply Hall. eapply nth_error_In; exact Hn. }
      cbn. rewrite Hy. cbn. now apply IH.
Qed.

(* ---------------------------------------------------------------- index look-up *)
Lemma index_of_spec k l : forall idx, index_of k l = Some idx -> nth_error l idx = Some k.
Proof.
  induction l as [|x t IH]; cbn; intros idx H; [discriminate|].
  destruct (ckey_eqb k x) eqn:E.
  - injection H as <-. apply ckey_eqb_eq in E. now subst.
  - destruct (index_of k t) as [j|]; [|discriminate]. injection H as <-. cbn. now apply IH.
Qed.

Lemma int_block_from_incl l : forall i k, In k (int_block_from i l) -> In k (keys l).
Proof.
  induction l as [|kn t IH]; cbn; intros i k H; [contradiction|].
  destruct (int_block_keep i kn); cbn in H.
  - destruct H as [H|H]; [now left|right; eapply IH; exact H].
  - right; eapply IH; exact H.
Qed.

(* ---------------------------------------------------------------- what the sites denote *)
Section Sites.
Variable addr_hash : bytes -> bytes.
Variable sig_hash : string -> bytes.
Variable sigma : string -> string.
Variable msel : list (string * bytes).
Hypothesis Hmsel : msel_consistent sig_hash msel.

Notation denote := (denote sigma msel).
Notation parsed_of := (parsed_of sigma msel).
Notation arg_token := (arg_token sigma).
Notation arg_tokens := (arg_tokens sigma).
Notation extract_key := (extract_key addr_hash sig_hash).

(* the value a key denotes once it is spelled the way createConstantBlocks spells it *)
Definition key_sval (kd : ckind) (k : ckey) : option sval :=
  match kd with
  | CKInt =>
      match arg_token (int_key_arg k) with
      | Some t => option_map SVInt (parse_int_arg t)
      | None => None
      end
  | CKBytes =>
      match arg_token (bytes_key_arg k) with
      | Some t => match parse_bytes_arg [t] with Some (b, []) => Some (SVBytes b) | _ => None end
      | None => None
      end
  | CKNone => None
  end.

Lemma tmpl_not_comment s : is_tmpl_name s = true -> String.eqb s "//" = false.
Proof.
  intros H. destruct (String.eqb s "//") eqn:E; [|reflexivity].
  apply String.eqb_eq in E. subst s. discriminate H.
Qed.

Lemma hex_spelling_not_tmpl b : is_tmpl_name (hex_spelling b) = false.
Proof. reflexivity. Qed.

Lemma key_sval_bytes b : key_sval CKBytes (KBytes b) = Some (SVBytes b).
Proof.
  unfold key_sval. cbn [bytes_key_arg ConstantsSpec.arg_token]. unfold subst_tok.
  change ("0x" ++ bytes_to_hex b) with (hex_spelling b).
  rewrite hex_spelling_not_tmpl, parse_bytes_arg_hex_spelling. reflexivity.
Qed.

Lemma extract_bytes_kind s k : extract_bytes [AStr s] = Some k -> is_tmpl_name s = false -> exists b, k = KBytes b.
Proof.
  unfold extract_bytes. intros H Ht. rewrite Ht in H.
  assert (G : forall x : option bytes, option_map KBytes x = Some k -> exists b, k = KBytes b).
  { intros [b|] E; [|discriminate E]. injection E as <-. eauto. }
  destruct (_ && _) in H; [eapply G; exact H|].
  destruct (String.prefix "0x" s) in H; [eapply G; exact H|].
  destruct (_ && _) in H.
  { destruct (correct_b32_padding _) in H; [eapply G; exact H|discriminate H]. }
  destruct (_ && _) in H; [eapply G; exact H|discriminate H].
Qed.

Lemma denote_int_tok a r tk : is_comment_arg a = false -> arg_token a = Some tk ->
  denote (mkI O_int (a :: r)) <> None -> denote (mkI O_int (a :: r)) = option_map SVInt (parse_int_arg tk).
Proof.
  intros Hc Ht. unfold ConstantsSpec.denote, ConstantsSpec.parsed_of. cbn [i_op i_args ConstantsSpec.arg_tokens].
  rewrite Hc, Ht. destruct (arg_tokens r) as [[|x y]|]; cbn -[parse_int_arg]; try congruence.
  intros _. destruct (parse_int_arg tk); reflexivity.
Qed.

Lemma denote_byte_tok s : String.eqb s "//" = false ->
  denote (mkI O_byte [AStr s]) =
  match parse_bytes_arg [subst_tok sigma s] with Some (b, []) => Some (SVBytes b) | _ => None end.
Proof.
  intros Hc. unfold ConstantsSpec.denote, ConstantsSpec.parsed_of.
  cbn [i_op i_args ConstantsSpec.arg_tokens is_comment_arg ConstantsSpec.arg_token]. rewrite Hc.
  cbn -[parse_bytes_arg].
  destruct (parse_bytes_arg [subst_tok sigma s]) as [[b [|x y]]|]; reflexivity.
Qed.

Lemma denote_addr_tok s : is_tmpl_name s = false -> String.eqb s "//" = false ->
  denote (mkI O_addr [AStr s]) =
  if (String.length s =? 58)%nat then option_map (fun d => SVBytes (firstn 32 d)) (decode_base32 s) else None.
Proof.
  intros Ht Hc. unfold ConstantsSpec.denote, ConstantsSpec.parsed_of.
  cbn [i_op i_args ConstantsSpec.arg_tokens is_comment_arg ConstantsSpec.arg_token]. rewrite Hc. unfold subst_tok. rewrite Ht.
  cbn -[decode_base32 Nat.eqb String.length firstn].
  destruct (String.length s =? 58)%nat; [|reflexivity].
  destruct (decode_base32 s); reflexivity.
Qed.

Lemma denote_method_tok s : is_tmpl_name s = false -> String.eqb s "//" = false ->
  denote (mkI O_method_signature [AStr s]) =
  match parse_string_literal s with
  | Some sg => option_map SVBytes (alookup String.eqb (string_of_bytes sg) msel)
  | None => None
  end.
Proof.
  intros Ht Hc. unfold ConstantsSpec.denote, ConstantsSpec.parsed_of.
  cbn [i_op i_args ConstantsSpec.arg_tokens is_comment_arg ConstantsSpec.arg_token]. rewrite Hc. unfold subst_tok. rewrite Ht.
  cbn -[parse_string_literal alookup].
  destruct (parse_string_literal s) as [sg|]; [|reflexivity].
  destruct (alookup String.eqb (string_of_bytes sg) msel); reflexivity.
Qed.

Lemma comment_arg_denotes_nothing o s r : String.eqb s "//" = true ->
  const_kind o <> CKNone -> denote (mkI o (AStr s :: r)) = None.
Proof.
  intros Hc Hk. unfold ConstantsSpec.denote, ConstantsSpec.parsed_of.
  cbn [i_op i_args ConstantsSpec.arg_tokens is_comment_arg]. rewrite Hc.
  destruct o; try (exfalso; apply Hk; reflexivity); reflexivity.
Qed.

Lemma site_key_value i k v :
  is_const_instr i = true ->
  extract_key i = Some k -> denote i = Some v ->
  no_addr_template_site (COp i) -> plain_method_site (COp i) ->
  key_sval (const_kind (i_op i)) k = Some v.
Proof.
  destruct i as [o args]. unfold is_const_instr, Constants.extract_key, no_addr_template_site, plain_method_site.
  cbn [i_op i_args].
  destruct o; cbn [const_kind]; try discriminate; intros _ Hex Hden Hna Hpm.
  - (* int *)
    destruct args as [|a t]; [cbn in Hex; discriminate Hex|]. destruct a as [n|s|l|sl|sb]; destruct t as [|a2 r]; try (cbn in Hex; discriminate Hex).
    + cbn in Hex. injection Hex as <-.
      rewrite (denote_int_tok (AInt n) [] (N_to_dec n)) in Hden by (reflexivity || congruence). exact Hden.
    + cbn [extract_int] in Hex. destruct (is_tmpl_name s) eqn:Ht.
      * injection Hex as <-.
        rewrite (denote_int_tok (AStr s) [] (subst_tok sigma s)) in Hden
          by (try reflexivity; try congruence; cbn; now apply tmpl_not_comment).
        exact Hden.
      * destruct (assoc_str s int_enum_values) as [n|] eqn:Hn; [|discriminate Hex]. injection Hex as <-.
        destruct (int_enum_agrees _ _ Hn) as [P1 P2].
        destruct (String.eqb s "//") eqn:Ec.
        { apply String.eqb_eq in Ec. subst s. discriminate Hn. }
        rewrite (denote_int_tok (AStr s) [] s) in Hden
          by (try congruence; cbn; try exact Ec; unfold subst_tok; now rewrite Ht).
        rewrite P1 in Hden. cbn in Hden. injection Hden as <-.
        unfold key_sval. cbn [int_key_arg ConstantsSpec.arg_token]. now rewrite P2.
  - (* byte *)
    destruct args as [|a t]; [cbn in Hex; discriminate Hex|]. destruct a as [n|s|l|sl|sb]; destruct t as [|a2 r]; try (cbn in Hex; discriminate Hex).
    destruct (String.eqb s "//") eqn:Ec.
    { apply String.eqb_eq in Ec. subst s. discriminate Hex. }
    rewrite (denote_byte_tok s Ec) in Hden.
    destruct (is_tmpl_name s) eqn:Ht.
    + unfold extract_bytes in Hex. rewrite Ht in Hex. injection Hex as <-.
      unfold key_sval. cbn [bytes_key_arg ConstantsSpec.arg_token]. exact Hden.
    + destruct (extract_bytes_kind _ _ Hex Ht) as [b ->].
      unfold subst_tok in Hden. rewrite Ht in Hden.
      destruct (parse_bytes_arg [s]) as [[b' [|x y]]|] eqn:Hp; try discriminate Hden.
      injection Hden as <-.
      rewrite (extract_bytes_agrees _ _ _ _ Hex Hp). apply key_sval_bytes.
  - (* addr *)
    destruct args as [|a t]; [cbn in Hex; discriminate Hex|]. destruct a as [n|s|l|sl|sb]; destruct t as [|a2 r]; try (cbn in Hex; discriminate Hex).
    cbn [extract_addr] in Hex. rewrite Hna in Hex.
    destruct (String.eqb s "//") eqn:Ec.
    { rewrite comment_arg_denotes_nothing in Hden by (assumption || discriminate). discriminate Hden. }
    rewrite (denote_addr_tok s Hna Ec) in Hden.
    destruct (String.length s =? 58)%nat eqn:Hl; [|discriminate Hden].
    destruct (decode_base32 s) as [d|] eqn:Hd; [|discriminate Hden].
    assert (Ev : v = SVBytes (firstn 32 d)) by (unfold option_map in Hden; congruence).
    clear Hden. destruct s as [|c s']; [discriminate Hl|].
    destruct (decode_address addr_hash (los (String c s'))) as [key|] eqn:Hk; [|discriminate Hex].
    injection Hex as <-.
    rewrite Ev, (decode_address_agrees _ _ _ _ Hk Hl Hd). apply key_sval_bytes.
  - (* method *)
    destruct args as [|a t]; [cbn in Hex; discriminate Hex|]. destruct a as [n|s|l|sl|sb]; destruct t as [|a2 r]; try (cbn in Hex; discriminate Hex).
    assert (Hk : exists b, k = KBytes b).
    { unfold extract_method in Hex. destruct (los s) as [|q l]; [discriminate Hex|].
      destruct (_ && _); [|discriminate Hex]. injection Hex as <-. eauto. }
    destruct Hk as [b ->].
    assert (Ht : is_tmpl_name s = false).
    { unfold extract_method in Hex. destruct s as [|q s']; [discriminate Hex|]. cbn [los] in Hex.
      destruct (Ascii.eqb q """") eqn:Eq; [|discriminate Hex]. apply Ascii.eqb_eq in Eq. subst q. reflexivity. }
    destruct (String.eqb s "//") eqn:Ec.
    { rewrite comment_arg_denotes_nothing in Hden by (assumption || discriminate). discriminate Hden. }
    rewrite (denote_method_tok s Ht Ec) in Hden.
    destruct (parse_string_literal s) as [sg|] eqn:Hp; [|discriminate Hden].
    destruct (alookup String.eqb (string_of_bytes sg) msel) as [sel|] eqn:Hs; [|discriminate Hden].
    cbn in Hden. injection Hden as <-.
    rewrite (Hmsel _ _ Hs).
    rewrite <- (method_sig_agrees _ _ _ _ Hex Hpm Hp). apply key_sval_bytes.
Qed.

(* ---------------------------------------------------------------- the emitted lines read back *)
Notation load_value := ConstantsSpec.load_value.

Lemma nth_error_N_nat {A} (l : list A) idx : nth_error l (N.to_nat (N.of_nat idx)) = nth_error l idx.
Proof. now rewrite Nat2N.id. Qed.

Lemma parsed_long o n orig : (o = O_intc \/ o = O_bytec) ->
  parsed_of (mkI o (AInt n :: cmt orig)) = Some (mkP o [IInt n]).
Proof.
  intros [-> | ->]; unfold ConstantsSpec.parsed_of, cmt;
    cbn [i_op i_args ConstantsSpec.arg_tokens is_comment_arg ConstantsSpec.arg_token];
    cbn -[generic_imm N_to_dec]; now rewrite generic_imm_to_dec.
Qed.

Lemma load_int_op ib bb idx orig n : nth_error ib idx = Some n ->
  exists p', parsed_of (load_op O_intc_0 O_intc_1 O_intc_2 O_intc_3 O_intc idx orig) = Some p' /\ imm_fits p' /\
             load_value ib bb p' = Some (SVInt n).
Proof.
  intros H. destruct idx as [|[|[|[|idx]]]]; cbn [load_op].
  - exists (mkP O_intc_0 []). split; [reflexivity|]. split; [exact I|]. unfold ConstantsSpec.load_value. cbn [p_op p_imms]. now rewrite H.
  - exists (mkP O_intc_1 []). split; [reflexivity|]. split; [exact I|]. unfold ConstantsSpec.load_value. cbn [p_op p_imms]. now rewrite H.
  - exists (mkP O_intc_2 []). split; [reflexivity|]. split; [exact I|]. unfold ConstantsSpec.load_value. cbn [p_op p_imms]. now rewrite H.
  - exists (mkP O_intc_3 []). split; [reflexivity|]. split; [exact I|]. unfold ConstantsSpec.load_value. cbn [p_op p_imms]. now rewrite H.
  - exists (mkP O_intc [IInt (N.of_nat (S (S (S (S idx)))))]). split; [apply parsed_long; now left|]. split; [exact I|].
    unfold ConstantsSpec.load_value. cbn [p_op p_imms]. rewrite nth_error_N_nat, H. reflexivity.
Qed.

Lemma load_bytes_op ib bb idx orig b : nth_error bb idx = Some b ->
  exists p', parsed_of (load_op O_bytec_0 O_bytec_1 O_bytec_2 O_bytec_3 O_bytec idx orig) = Some p' /\ imm_fits p' /\
             load_value ib bb p' = Some (SVBytes b).
Proof.
  intros H. destruct idx as [|[|[|[|idx]]]]; cbn [load_op].
  - exists (mkP O_bytec_0 []). split; [reflexivity|]. split; [exact I|]. unfold ConstantsSpec.load_value. cbn [p_op p_imms]. now rewrite H.
  - exists (mkP O_bytec_1 []). split; [reflexivity|]. split; [exact I|]. unfold ConstantsSpec.load_value. cbn [p_op p_imms]. now rewrite H.
  - exists (mkP O_bytec_2 []). split; [reflexivity|]. split; [exact I|]. unfold ConstantsSpec.load_value. cbn [p_op p_imms]. now rewrite H.
  - exists (mkP O_bytec_3 []). split; [reflexivity|]. split; [exact I|]. unfold ConstantsSpec.load_value. cbn [p_op p_imms]. now rewrite H.
  - exists (mkP O_bytec [IInt (N.of_nat (S (S (S (S idx)))))]). split; [apply parsed_long; now right|]. split; [exact I|].
    unfold ConstantsSpec.load_value. cbn [p_op p_imms]. rewrite nth_error_N_nat, H. reflexivity.
Qed.

(* a key that denotes something is never spelled as the comment marker *)
Lemma key_sval_int_inv k v : key_sval CKInt k = Some v ->
  exists t n, is_comment_arg (int_key_arg k) = false /\ arg_token (int_key_arg k) = Some t /\
              parse_int_arg t = Some n /\ v = SVInt n.
Proof.
  unfold key_sval. destruct (arg_token (int_key_arg k)) as [t|] eqn:Ht; [|discriminate].
  destruct (parse_int_arg t) as [n|] eqn:Hn; [|discriminate]. cbn. intros E; injection E as <-.
  exists t, n. repeat split; try assumption.
  destruct k as [m|b|s]; cbn in *; try reflexivity.
  destruct (String.eqb s "//") eqn:Ec; [|reflexivity].
  apply String.eqb_eq in Ec. subst s. injection Ht as <-. discriminate Hn.
Qed.

Lemma key_sval_bytes_inv k v : key_sval CKBytes k = Some v ->
  exists t b, is_comment_arg (bytes_key_arg k) = false /\ arg_token (bytes_key_arg k) = Some t /\
              parse_bytes_arg [t] = Some (b, []) /\ v = SVBytes b.
Proof.
  unfold key_sval. destruct (arg_token (bytes_key_arg k)) as [t|] eqn:Ht; [|discriminate].
  destruct (parse_bytes_arg [t]) as [[b [|x y]]|] eqn:Hn; try discriminate. intros E; injection E as <-.
  exists t, b. repeat split; try assumption.
  destruct k as [m|b0|s]; cbn in *; try reflexivity.
  destruct (String.eqb s "//") eqn:Ec; [|reflexivity].
  apply String.eqb_eq in Ec. subst s. injection Ht as <-. discriminate Hn.
Qed.

Lemma parse_int_arg_lt t n : parse_int_arg t = Some n -> (n < 18446744073709551616)%N.
Proof.
  unfold parse_int_arg. destruct (parse_uint t) as [m|].
  - destruct (N.ltb_spec m 18446744073709551616); [intros E; now injection E as <-|discriminate].
  - unfold named_int.
    repeat (match goal with |- (if ?c then _ else _) = _ -> _ => destruct c; [intros E; injection E as <-; reflexivity|] end).
    discriminate.
Qed.

Lemma push_int_op k orig v : key_sval CKInt k = Some v ->
  exists p', parsed_of (mkI O_pushint (int_key_arg k :: cmt orig)) = Some p' /\ imm_fits p' /\
             forall ib bb, load_value ib bb p' = Some v.
Proof.
  intros H. destruct (key_sval_int_inv _ _ H) as (t & n & Hc & Ht & Hn & ->).
  exists (mkP O_pushint [IInt n]). split; [|split; [exact (parse_int_arg_lt _ _ Hn)|reflexivity]].
  unfold ConstantsSpec.parsed_of, cmt. cbn [i_op i_args ConstantsSpec.arg_tokens]. rewrite Hc, Ht.
  cbn -[parse_int_arg]. now rewrite Hn.
Qed.

Lemma push_bytes_op k orig v : key_sval CKBytes k = Some v ->
  exists p', parsed_of (mkI O_pushbytes (bytes_key_arg k :: cmt orig)) = Some p' /\ imm_fits p' /\
             forall ib bb, load_value ib bb p' = Some v.
Proof.
  intros H. destruct (key_sval_bytes_inv _ _ H) as (t & b & Hc & Ht & Hn & ->).
  exists (mkP O_pushbytes [IBytes b]). split; [|split; [exact I|reflexivity]].
  unfold ConstantsSpec.parsed_of, cmt. cbn [i_op i_args ConstantsSpec.arg_tokens]. rewrite Hc, Ht.
  cbn -[parse_bytes_arg]. now rewrite Hn.
Qed.

(* block lines *)
Definition int_vals (ks : list ckey) (vals : list N) : Prop :=
  Forall2 (fun k n => key_sval CKInt k = Some (SVInt n)) ks vals.
Definition bytes_vals (ks : list ckey) (vals : list bytes) : Prop :=
  Forall2 (fun k b => key_sval CKBytes k = Some (SVBytes b)) ks vals.

Lemma int_block_tokens ks vals : int_vals ks vals ->
  exists toks, arg_tokens (map int_key_arg ks) = Some toks /\ parse_int_args toks = Some vals.
Proof.
  induction 1 as [|k n ks vals Hk _ IH].
  - exists []. split; reflexivity.
  - destruct IH as (toks & Ha & Hp).
    destruct (key_sval_int_inv _ _ Hk) as (t & n' & Hc & Ht & Hn & E). injection E as <-.
    exists (t :: toks). cbn [map ConstantsSpec.arg_tokens parse_int_args]. now rewrite Hc, Ht, Ha, Hn, Hp.
Qed.

Lemma parse_bytes_arg_rest t v rest : parse_bytes_arg [t] = Some (v, []) ->
  parse_bytes_arg (t :: rest) = Some (v, rest).
Proof.
  unfold parse_bytes_arg.
  destruct (String.eqb t "base64" || String.eqb t "b64"); [discriminate|].
  destruct (String.eqb t "base32" || String.eqb t "b32"); [discriminate|].
  assert (G : forall x : option bytes, option_map (fun b => (b, @nil string)) x = Some (v, []) ->
                                       option_map (fun b => (b, rest)) x = Some (v, rest)).
  { intros [b|] E; [|discriminate E]. cbn in *. now injection E as ->. }
  destruct (paren_body "base64" t); [apply G|].
  destruct (paren_body "b64" t); [apply G|].
  destruct (paren_body "base32" t); [apply G|].
  destruct (paren_body "b32" t); [apply G|].
  destruct (decode_hex0x t); [intros E; now injection E as ->|apply G].
Qed.

Lemma parse_bytes_args_all toks vals :
  Forall2 (fun t b => parse_bytes_arg [t] = Some (b, [])) toks vals ->
  forall fuel, (List.length toks < fuel)%nat -> parse_bytes_args fuel toks = Some vals.
Proof.
  induction 1 as [|t b toks vals Ht _ IH]; intros fuel Hf.
  - destruct fuel; [inversion Hf|reflexivity].
  - destruct fuel as [|f]; [inversion Hf|]. cbn [parse_bytes_args].
    rewrite (parse_bytes_arg_rest _ _ toks Ht). rewrite IH by (cbn in Hf; lia). reflexivity.
Qed.

Lemma bytes_block_tokens ks vals : bytes_vals ks vals ->
  exists toks, arg_tokens (map bytes_key_arg ks) = Some toks /\
               Forall2 (fun t b => parse_bytes_arg [t] = Some (b, [])) toks vals.
Proof.
  induction 1 as [|k b ks vals Hk _ IH].
  - exists []. split; [reflexivity|constructor].
  - destruct IH as (toks & Ha & Hp).
    destruct (key_sval_bytes_inv _ _ Hk) as (t & b' & Hc & Ht & Hn & E). injection E as <-.
    exists (t :: toks). cbn [map ConstantsSpec.arg_tokens]. rewrite Hc, Ht, Ha. split; [reflexivity|].
    constructor; assumption.
Qed.

Lemma imm_ints_map vals : imm_ints (map IInt vals) = Some vals.
Proof. induction vals as [|v t IH]; cbn; [reflexivity|]. now rewrite IH. Qed.
Lemma imm_bytes_map vals : imm_bytes (map IBytes vals) = Some vals.
Proof. induction vals as [|v t IH]; cbn; [reflexivity|]. now rewrite IH. Qed.

Lemma blocks_after_prologue iks bks ivals bvals :
  int_vals iks ivals -> bytes_vals bks bvals ->
  blocks_after sigma msel (block_prologue iks bks) [] [] = Some (ivals, bvals).
Proof.
  intros Hi Hb. unfold block_prologue.
  destruct (int_block_tokens _ _ Hi) as (it & Hia & Hip).
  destruct (bytes_block_tokens _ _ Hb) as (bt & Hba & Hbp).
  assert (PI : iks <> [] -> parsed_of (mkI O_intcblock (map int_key_arg iks)) = Some (mkP O_intcblock (map IInt ivals))).
  { intros _. unfold ConstantsSpec.parsed_of. cbn [i_op i_args]. rewrite Hia. cbn -[parse_int_args]. now rewrite Hip. }
  assert (PB : parsed_of (mkI O_bytecblock (map bytes_key_arg bks)) = Some (mkP O_bytecblock (map IBytes bvals))).
  { unfold ConstantsSpec.parsed_of. cbn [i_op i_args]. rewrite Hba. cbn -[parse_bytes_args].
    rewrite (parse_bytes_args_all _ _ Hbp) by lia. reflexivity. }
  destruct iks as [|ik iks']; destruct bks as [|bk bks'].
  - inversion Hi; inversion Hb; subst. reflexivity.
  - inversion Hi; subst. cbn [app blocks_after]. rewrite PB. cbn [p_op p_imms]. now rewrite imm_bytes_map.
  - inversion Hb; subst. cbn [app blocks_after]. rewrite PI by discriminate. cbn [p_op p_imms]. now rewrite imm_ints_map.
  - cbn [app blocks_after]. rewrite PI by discriminate. cbn [p_op p_imms]. rewrite imm_ints_map.
    cbn [blocks_after]. rewrite PB. cbn [p_op p_imms]. now rewrite imm_bytes_map.
Qed.

(* ---------------------------------------------------------------- the counting loop *)
Definition has_site (ops : list comp) (kd : ckind) (k : ckey) : Prop :=
  exists i, In (COp i) ops /\ const_kind (i_op i) = kd /\ extract_key i = Some k.

Lemma has_site_cons c ops kd k : has_site ops kd k -> has_site (c :: ops) kd k.
Proof. intros (i & Hi & H). exists i. split; [now right|exact H]. Qed.

Ltac split4 := split; [|split; [|split]].

Lemma count_consts_inv ops : forall fi fb fi' fb',
  count_consts addr_hash sig_hash ops fi fb = Some (fi', fb') ->
  (wf_freqs fi -> wf_freqs fi') /\ (wf_freqs fb -> wf_freqs fb') /\
  (forall k, In k (keys fi') -> In k (keys fi) \/ has_site ops CKInt k) /\
  (forall k, In k (keys fb') -> In k (keys fb) \/ has_site ops CKBytes k).
Proof.
  induction ops as [|c t IH]; intros fi fb fi' fb' H.
  - cbn in H. injection H as <- <-. split4; auto.
  - assert (Skip : count_consts addr_hash sig_hash t fi fb = Some (fi', fb') ->
      (wf_freqs fi -> wf_freqs fi') /\ (wf_freqs fb -> wf_freqs fb') /\
      (forall k, In k (keys fi') -> In k (keys fi) \/ has_site (c :: t) CKInt k) /\
      (forall k, In k (keys fb') -> In k (keys fb) \/ has_site (c :: t) CKBytes k)).
    { intros H'. destruct (IH _ _ _ _ H') as (A & B & C & D). split4; auto;
        intros k Hk; [destruct (C k Hk)|destruct (D k Hk)]; auto using has_site_cons. }
    destruct c as [i|l cm|pv]; cbn [count_consts] in H; [|apply Skip; exact H..].
    destruct (const_kind (i_op i)) eqn:Hkd; [| |apply Skip; exact H].
    + destruct (extract_key i) as [k0|] eqn:Hx; [|discriminate H].
      destruct (IH _ _ _ _ H) as (A & B & C & D). split4; auto using bump_wf.
      * intros k Hk. destruct (C k Hk) as [Hin|Hs]; [|auto using has_site_cons].
        apply bump_keys in Hin. destruct Hin as [->|Hin]; [|now left].
        right. exists i. split; [now left|]. split; assumption.
      * intros k Hk. destruct (D k Hk); auto using has_site_cons.
    + destruct (extract_key i) as [k0|] eqn:Hx; [|discriminate H].
      destruct (IH _ _ _ _ H) as (A & B & C & D). split4; auto using bump_wf.
      * intros k Hk. destruct (C k Hk); auto using has_site_cons.
      * intros k Hk. destruct (D k Hk) as [Hin|Hs]; [|auto using has_site_cons].
        apply bump_keys in Hin. destruct Hin as [->|Hin]; [|now left].
        right. exists i. split; [now left|]. split; assumption.
Qed.

Lemma wf_nil : wf_freqs []. Proof. split; constructor. Qed.

(* ---------------------------------------------------------------- hypotheses on the input *)
Definition input_ok (ops : list comp) : Prop :=
  Forall (fun c => well_formed_site sigma msel c /\ no_addr_template_site c /\ plain_method_site c) ops.

Lemma site_has_value ops kd k : input_ok ops -> kd <> CKNone -> has_site ops kd k -> exists v, key_sval kd k = Some v.
Proof.
  intros Hok Hkd (i & Hin & Hk & Hx).
  unfold input_ok in Hok. rewrite Forall_forall in Hok. destruct (Hok _ Hin) as (Hw & Hna & Hpm).
  assert (Hc : is_const_instr i = true) by (unfold is_const_instr; rewrite Hk; destruct kd; congruence).
  cbn in Hw. specialize (Hw Hc). destruct (denote i) as [v|] eqn:Hd; [|congruence].
  exists v. rewrite <- Hk. eapply site_key_value; eassumption.
Qed.

Lemma keys_have_int_vals ks : (forall k, In k ks -> exists v, key_sval CKInt k = Some v) ->
  exists vals, int_vals ks vals.
Proof.
  induction ks as [|k t IH]; intros H; [exists []; constructor|].
  destruct IH as [vals Hv]; [intros k' Hk'; apply H; now right|].
  destruct (H k (or_introl eq_refl)) as [v Hk]. destruct (key_sval_int_inv _ _ Hk) as (tk & n & _ & _ & _ & ->).
  exists (n :: vals). constructor; assumption.
Qed.

Lemma keys_have_bytes_vals ks : (forall k, In k ks -> exists v, key_sval CKBytes k = Some v) ->
  exists vals, bytes_vals ks vals.
Proof.
  induction ks as [|k t IH]; intros H; [exists []; constructor|].
  destruct IH as [vals Hv]; [intros k' Hk'; apply H; now right|].
  destruct (H k (or_introl eq_refl)) as [v Hk]. destruct (key_sval_bytes_inv _ _ Hk) as (tk & b & _ & _ & _ & ->).
  exists (b :: vals). constructor; assumption.
Qed.

Lemma forall2_nth {A B} (R : A -> B -> Prop) l1 l2 : Forall2 R l1 l2 ->
  forall idx a, nth_error l1 idx = Some a -> exists b, nth_error l2 idx = Some b /\ R a b.
Proof.
  induction 1 as [|x y l1 l2 Hxy _ IH]; intros idx a Hn; [destruct idx; discriminate Hn|].
  destruct idx as [|idx]; cbn in *; [injection Hn as <-; eauto|eauto].
Qed.

(* ---------------------------------------------------------------- one component *)
Lemma rewrite_comp_ok iks fb sb ivals bvals c c' :
  wf_freqs fb ->
  int_vals iks ivals ->
  bytes_vals (byte_block_of sb) bvals ->
  sb = sort_desc fb ->
  well_formed_site sigma msel c -> no_addr_template_site c -> plain_method_site c ->
  rewrite_comp addr_hash sig_hash iks fb sb c = Some c' ->
  site_ok sigma msel ivals bvals c c'.
Proof.
  intros Hwf Hiv Hbv Hsb Hw Hna Hpm H.
  destruct c as [i|l cm|pv]; cbn [rewrite_comp] in H; [|injection H as <-; reflexivity..].
  unfold site_ok, is_const_instr.
  destruct (const_kind (i_op i)) eqn:Hkd.
  - (* int site *)
    destruct (extract_key i) as [k|] eqn:Hx; [|discriminate H].
    assert (Hc : is_const_instr i = true) by (unfold is_const_instr; now rewrite Hkd).
    cbn in Hw. specialize (Hw Hc). destruct (denote i) as [v|] eqn:Hd; [|congruence].
    pose proof (site_key_value i k v Hc Hx Hd Hna Hpm) as Hkv. rewrite Hkd in Hkv.
    destruct (index_of k iks) as [idx|] eqn:Hidx; injection H as <-.
    + apply index_of_spec in Hidx.
      destruct (forall2_nth _ _ _ Hiv _ _ Hidx) as (n & Hn & Hkn).
      destruct (load_int_op ivals bvals idx (i_args i) n Hn) as (p' & Hp & Hfit & Hl).
      eexists _, p'. split; [reflexivity|]. split; [exact Hp|]. split; [exact Hfit|].
      intros v' Hv'. injection Hv' as <-. rewrite Hl. congruence.
    + destruct (push_int_op k (i_args i) v Hkv) as (p' & Hp & Hfit & Hl).
      eexists _, p'. split; [reflexivity|]. split; [exact Hp|]. split; [exact Hfit|].
      intros v' Hv'. injection Hv' as <-. apply Hl.
  - (* byte-like site *)
    destruct (extract_key i) as [k|] eqn:Hx; [|discriminate H].
    assert (Hc : is_const_instr i = true) by (unfold is_const_instr; now rewrite Hkd).
    cbn in Hw. specialize (Hw Hc). destruct (denote i) as [v|] eqn:Hd; [|congruence].
    pose proof (site_key_value i k v Hc Hx Hd Hna Hpm) as Hkv. rewrite Hkd in Hkv.
    destruct (freq_of k fb =? 1)%nat eqn:Hf1.
    + injection H as <-.
      destruct (push_bytes_op k (i_args i) v Hkv) as (p' & Hp & Hfit & Hl).
      eexists _, p'. split; [reflexivity|]. split; [exact Hp|]. split; [exact Hfit|].
      intros v' Hv'. injection Hv' as <-. apply Hl.
    + destruct (index_of k (map fst sb)) as [idx|] eqn:Hidx; [|discriminate H]. injection H as <-.
      apply index_of_spec in Hidx.
      (* the entry found in the sorted key list sits at the same index of the byte block *)
      destruct (nth_error sb idx) as [[k' n]|] eqn:Hsb_idx.
      2:{ rewrite nth_error_map, Hsb_idx in Hidx. discriminate Hidx. }
      rewrite nth_error_map, Hsb_idx in Hidx. cbn in Hidx. injection Hidx as ->.
      assert (Hin : In (k, n) fb).
      { apply (sort_desc_in fb). rewrite <- Hsb. eapply nth_error_In; exact Hsb_idx. }
      destruct Hwf as [Hnd Hpos].
      pose proof (freq_of_in fb Hnd k n Hin) as Hfreq.
      assert (Hn1 : (1 <= n)%nat) by (rewrite Forall_forall in Hpos; apply (Hpos _ Hin)).
      apply Nat.eqb_neq in Hf1.
      assert (Hkeep : (fun kn : ckey * nat => (1 <? snd kn)%nat) (k, n) = true) by (cbn [snd]; apply Nat.ltb_lt; lia).
      assert (Hblock : nth_error (byte_block_of sb) idx = Some k).
      { unfold byte_block_of. rewrite nth_error_map.
        rewrite (filter_keeps_prefix (fun kn => (1 <? snd kn)%nat) sb) with (x := (k, n)); try assumption; [reflexivity| |].
        - intros a b Hab Hb. unfold desc in Hab. apply Nat.ltb_lt in Hb. apply Nat.ltb_lt. lia.
        - rewrite Hsb. apply sort_desc_sorted. }
      destruct (forall2_nth _ _ _ Hbv _ _ Hblock) as (b & Hb & Hkb).
      destruct (load_bytes_op ivals bvals idx (i_args i) b Hb) as (p' & Hp & Hfit & Hl).
      eexists _, p'. split; [reflexivity|]. split; [exact Hp|]. split; [exact Hfit|].
      intros v' Hv'. injection Hv' as <-. rewrite Hl. congruence.
  - injection H as <-. reflexivity.
Qed.

Lemma rewrite_all_forall2 (R : comp -> comp -> Prop) iks fb sb ops :
  forall body, rewrite_all addr_hash sig_hash iks fb sb ops = Some body ->
  (forall c c', In c ops -> rewrite_comp addr_hash sig_hash iks fb sb c = Some c' -> R c c') ->
  Forall2 R ops body.
Proof.
  induction ops as [|c t IH]; intros body H HR; cbn [rewrite_all] in H.
  - injection H as <-. constructor.
  - destruct (rewrite_comp addr_hash sig_hash iks fb sb c) as [c'|] eqn:Hc; [|discriminate H].
    destruct (rewrite_all addr_hash sig_hash iks fb sb t) as [r|] eqn:Hr; [|discriminate H].
    injection H as <-. constructor.
    + apply HR; [now left|exact Hc].
    + apply IH; [reflexivity|]. intros c0 c0' Hin. apply HR. now right.
Qed.

(* ---------------------------------------------------------------- main theorem *)
Theorem constants_sites_preserved ops out :
  create_constant_blocks addr_hash sig_hash ops = Some out ->
  input_ok ops ->
  exists pro body ib bb,
    out = (pro ++ body)%list /\
    Forall (fun c => exists i, c = COp i /\ (i_op i = O_intcblock \/ i_op i = O_bytecblock)) pro /\
    blocks_after sigma msel pro [] [] = Some (ib, bb) /\
    Forall2 (site_ok sigma msel ib bb) ops body.
Proof.
  unfold create_constant_blocks, make_plan. intros H Hok.
  destruct (count_consts addr_hash sig_hash ops [] []) as [[fi fb]|] eqn:Hcount; [|discriminate H].
  cbn [pl_int_block pl_fb pl_sorted_bytes pl_byte_block] in H.
  destruct (rewrite_all addr_hash sig_hash (int_block_from 0 (sort_desc fi)) fb (sort_desc fb) ops) as [body|] eqn:Hrw;
    [|discriminate H].
  injection H as <-.
  destruct (count_consts_inv ops _ _ _ _ Hcount) as (Wi & Wb & Ki & Kb).
  specialize (Wi wf_nil). specialize (Wb wf_nil).
  (* every block entry denotes a value *)
  destruct (keys_have_int_vals (int_block_from 0 (sort_desc fi))) as [ivals Hiv].
  { intros k Hk. apply int_block_from_incl in Hk. unfold keys in Hk. apply in_map_iff in Hk.
    destruct Hk as ([k' n] & <- & Hin). apply (proj1 (sort_desc_in _ _)) in Hin.
    assert (Hk' : In k' (keys fi)) by (change k' with (fst (k', n)); now apply in_map).
    destruct (Ki k' Hk') as [[]|Hs].
    eapply site_has_value; [exact Hok|discriminate|exact Hs]. }
  destruct (keys_have_bytes_vals (byte_block_of (sort_desc fb))) as [bvals Hbv].
  { intros k Hk. unfold byte_block_of in Hk. apply in_map_iff in Hk.
    destruct Hk as ([k' n] & <- & Hin). apply filter_In in Hin. destruct Hin as [Hin _].
    apply (proj1 (sort_desc_in _ _)) in Hin.
    assert (Hk' : In k' (keys fb)) by (change k' with (fst (k', n)); now apply in_map).
    destruct (Kb k' Hk') as [[]|Hs].
    eapply site_has_value; [exact Hok|discriminate|exact Hs]. }
  exists (block_prologue (int_block_from 0 (sort_desc fi)) (byte_block_of (sort_desc fb))), body, ivals, bvals.
  split; [reflexivity|]. split; [|split].
  - unfold block_prologue.
    destruct (int_block_from 0 (sort_desc fi)); destruct (byte_block_of (sort_desc fb)); cbn [app];
      repeat constructor; eexists; (split; [reflexivity|cbn; auto]).
  - apply blocks_after_prologue; assumption.
  - eapply rewrite_all_forall2; [exact Hrw|].
    intros c c' Hin Hc. unfold input_ok in Hok. rewrite Forall_forall in Hok.
    destruct (Hok c Hin) as (Hw & Hna & Hpm).
    eapply rewrite_comp_ok; try eassumption. reflexivity.
Qed.

End Sites.
