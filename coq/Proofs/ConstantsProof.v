(* Proofs/ConstantsProof.v — C12: createConstantBlocks (Comp/Constants.v) preserves every site.
   Structure: (1) what a constant pseudo-op denotes, op by op; (2) the key extracted from a site,
   re-spelled the way createConstantBlocks emits it, denotes the same value (uses ConstantsLitProof);
   (3) list plumbing: frequency tables, stable descending sort, block membership, index look-up;
   (4) the emitted block lines and load ops read back; (5) the main theorem. *)
From Coq Require Import List Arith NArith Ascii String Bool Lia Sorting.Sorted.
From PV Require Import Base.Bytes Base.Sexp AVM.Syntax AVM.Machine AVM.Parse
  Comp.ConstantsLit Comp.Constants Comp.ConstantsSpec Proofs.ConstantsLitProof.
Import ListNotations.
Local Open Scope string_scope.

(* ---------------------------------------------------------------- key equality *)
Lemma bytes_eqb_eq a : forall b, bytes_eqb a b = true <-> a = b.
Proof.
  induction a as [|x a IH]; intros [|y b]; cbn; split; intros H; try reflexivity; try discriminate.
  - apply andb_prop in H. destruct H as [H1 H2]. apply Ascii.eqb_eq in H1. apply IH in H2. congruence.
  - injection H as -> ->. rewrite Ascii.eqb_refl. cbn. now apply IH.
Qed.

Lemma ckey_eqb_eq a b : ckey_eqb a b = true <-> a = b.
Proof.
  destruct a, b; cbn; split; intros H; try discriminate; try congruence.
  - apply N.eqb_eq in H. congruence.
  - injection H as ->. apply N.eqb_refl.
  - apply bytes_eqb_eq in H. congruence.
  - injection H as ->. now apply bytes_eqb_eq.
  - apply String.eqb_eq in H. congruence.
  - injection H as ->. apply String.eqb_refl.
Qed.

Lemma ckey_eqb_refl a : ckey_eqb a a = true.
Proof. now apply ckey_eqb_eq. Qed.

Lemma ckey_eqb_neq a b : ckey_eqb a b = false <-> a <> b.
Proof.
  split; intros H.
  - intros E. apply ckey_eqb_eq in E. congruence.
  - destruct (ckey_eqb a b) eqn:E; [|reflexivity]. apply ckey_eqb_eq in E. contradiction.
Qed.

(* ---------------------------------------------------------------- frequency tables *)
Definition keys (l : freqs) : list ckey := map fst l.
Definition wf_freqs (l : freqs) : Prop := NoDup (keys l) /\ Forall (fun kn => (1 <= snd kn)%nat) l.

Lemma bump_keys k l k' : In k' (keys (bump k l)) -> k' = k \/ In k' (keys l).
Proof.
  induction l as [|[k0 n] t IH]; cbn.
  - intros [H|[]]; auto.
  - destruct (ckey_eqb k k0) eqn:E; cbn; intros [H|H]; auto.
    destruct (IH H); auto.
Qed.

Lemma bump_keys_incl k l k' : In k' (keys l) -> In k' (keys (bump k l)).
Proof.
  induction l as [|[k0 n] t IH]; cbn; [intros []|].
  destruct (ckey_eqb k k0) eqn:E; cbn; intros [H|H]; auto.
Qed.

Lemma bump_wf k l : wf_freqs l -> wf_freqs (bump k l).
Proof.
  unfold wf_freqs. induction l as [|[k0 n] t IH]; cbn; intros [Hnd Hf].
  - split; [constructor; [intros []|constructor]|constructor; [cbn; lia|constructor]].
  - inversion Hnd as [|? ? Hnin Hnd']; subst. inversion Hf as [|? ? Hn Hf']; subst.
    destruct (ckey_eqb k k0) eqn:E; cbn.
    + split; [constructor; assumption|constructor; [cbn in *; lia|assumption]].
    + destruct (IH (conj Hnd' Hf')) as [IH1 IH2].
      split; [|constructor; assumption].
      constructor; [|exact IH1]. intros Hin. apply bump_keys in Hin. destruct Hin as [->|Hin]; [|contradiction].
      rewrite ckey_eqb_refl in E. discriminate.
Qed.

Lemma freq_of_in l : NoDup (keys l) -> forall k n, In (k, n) l -> freq_of k l = n.
Proof.
  induction l as [|[k0 n0] t IH]; cbn; intros Hnd k n Hin; [contradiction|].
  inversion Hnd as [|? ? Hnin Hnd']; subst.
  destruct Hin as [E|Hin].
  - injection E as -> ->. now rewrite ckey_eqb_refl.
  - destruct (ckey_eqb k k0) eqn:E.
    + apply ckey_eqb_eq in E. subst k0. exfalso. apply Hnin. change k with (fst (k, n)). now apply in_map.
    + now apply IH.
Qed.

(* ---------------------------------------------------------------- stable descending sort *)
Definition desc (a b : ckey * nat) : Prop := (snd b <= snd a)%nat.

Lemma insert_desc_in x l y : In y (insert_desc x l) <-> y = x \/ In y l.
Proof.
  induction l as [|z t IH]; cbn [insert_desc].
  - cbn. split; intros [H|H]; auto.
  - destruct (snd z <? snd x)%nat; cbn [In].
    + split; intros [H|H]; auto.
    + rewrite IH. split; [intros [H|[H|H]]|intros [H|[H|H]]]; auto.
Qed.

Lemma insert_desc_sorted x l : StronglySorted desc l -> StronglySorted desc (insert_desc x l).
Proof.
  induction l as [|z t IH]; cbn [insert_desc]; intros Hs.
  - constructor; constructor.
  - inversion Hs as [|? ? Hs' Hall]; subst.
    destruct (Nat.ltb_spec (snd z) (snd x)) as [Hlt|Hge].
    + constructor; [exact Hs|]. constructor; [unfold desc; lia|].
      rewrite Forall_forall in *. intros w Hw. specialize (Hall w Hw). unfold desc in *. lia.
    + constructor; [now apply IH|].
      rewrite Forall_forall in *. intros w Hw. apply insert_desc_in in Hw.
      destruct Hw as [->|Hw]; [exact Hge|now apply Hall].
Qed.

Lemma sort_desc_gen l : forall acc, StronglySorted desc acc ->
  StronglySorted desc (fold_left (fun a x => insert_desc x a) l acc) /\
  (forall y, In y (fold_left (fun a x => insert_desc x a) l acc) <-> In y l \/ In y acc).
Proof.
  induction l as [|x t IH]; cbn; intros acc Hs.
  - split; [exact Hs|intuition].
  - destruct (IH (insert_desc x acc) (insert_desc_sorted x acc Hs)) as [H1 H2].
    split; [exact H1|]. intros y. rewrite H2, insert_desc_in. intuition.
Qed.

Lemma sort_desc_sorted l : StronglySorted desc (sort_desc l).
Proof. apply (sort_desc_gen l [] (SSorted_nil _)). Qed.

Lemma sort_desc_in l y : In y (sort_desc l) <-> In y l.
Proof. unfold sort_desc. rewrite (proj2 (sort_desc_gen l [] (SSorted_nil _))). cbn. intuition. Qed.

(* a monotone filter keeps a descending list's entries in place up to any kept entry *)
Lemma filter_keeps_prefix (P : ckey * nat -> bool) l :
  (forall a b, desc a b -> P b = true -> P a = true) ->
  StronglySorted desc l ->
  forall idx x, nth_error l idx = Some x -> P x = true -> nth_error (filter P l) idx = Some x.
Proof.
  intros Hmono. induction l as [|y t IH]; intros Hs idx x Hn Hp.
  - destruct idx; discriminate Hn.
  - inversion Hs as [|? ? Hs' Hall]; subst. destruct idx as [|i]; cbn in Hn.
    + injection Hn as ->. cbn. rewrite Hp. reflexivity.
    + assert (Hy : P y = true).
      { apply (Hmono y x); [|exact Hp]. rewrite Forall_forall in Hall. apply Hall. eapply nth_error_In; exact Hn. }
      cbn. rewrite Hy. cbn. now apply IH.
Qed.

(* ---------------------------------------------------------------- index look-up *)
Lemma index_of_spec k l : forall idx, index_of k l = Some idx -> nth_error l idx = Some k.
Proof.
  induction l as [|x t IH]; cbn; intros idx H; [discriminate|].
  destruct (ckey_eqb k x) eqn:E.
  - injection H as <-. apply ckey_eqb_eq in E. now subst.
  - destruct (index_of k t) as [j|]; [|discriminate]. injection H as <-. cbn. now apply IH.
Qed.

Lemma int_block_from_incl l : forall i k, In k (int_block_from i l) -> In k (keys l).
Proof.
  induction l as [|kn t IH]; cbn; intros i k H; [contradiction|].
  destruct (int_block_keep i kn); cbn in H.
  - destruct H as [H|H]; [now left|right; eapply IH; exact H].
  - right; eapply IH; exact H.
Qed.

(* ---------------------------------------------------------------- what the sites denote *)
Section Sites.
Variable addr_hash : bytes -> bytes.
Variable sig_hash : string -> bytes.
Variable sigma : string -> string.
Variable msel : list (string * bytes).
Hypothesis Hmsel : msel_consistent sig_hash msel.

Notation denote := (denote sigma msel).
Notation parsed_of := (parsed_of sigma msel).
Notation arg_token := (arg_token sigma).
Notation arg_tokens := (arg_tokens sigma).
Notation extract_key := (extract_key addr_hash sig_hash).

(* the value a key denotes once it is spelled the way createConstantBlocks spells it *)
Definition key_sval (kd : ckind) (k : ckey) : option sval :=
  match kd with
  | CKInt =>
      match arg_token (int_key_arg k) with
      | Some t => option_map SVInt (parse_int_arg t)
      | None => None
      end
  | CKBytes =>
      match arg_token (bytes_key_arg k) with
      | Some t => match parse_bytes_arg [t] with Some (b, []) => Some (SVBytes b) | _ => None end
      | None => None
      end
  | CKNone => None
  end.

Lemma tmpl_not_comment s : is_tmpl_name s = true -> String.eqb s "//" = false.
Proof.
  intros H. destruct (String.eqb s "//") eqn:E; [|reflexivity].
  apply String.eqb_eq in E. subst s. discriminate H.
Qed.

Lemma hex_spelling_not_tmpl b : is_tmpl_name (hex_spelling b) = false.
Proof. reflexivity. Qed.

Lemma key_sval_bytes b : key_sval CKBytes (KBytes b) = Some (SVBytes b).
Proof.
  unfold key_sval. cbn [bytes_key_arg ConstantsSpec.arg_token]. unfold subst_tok.
  change ("0x" ++ bytes_to_hex b) with (hex_spelling b).
  rewrite hex_spelling_not_tmpl, parse_bytes_arg_hex_spelling. reflexivity.
Qed.

Lemma extract_bytes_kind s k : extract_bytes [AStr s] = Some k -> is_tmpl_name s = false -> exists b, k = KBytes b.
Proof.
  unfold extract_bytes. intros H Ht. rewrite Ht in H.
  repeat match type of H with
         | (if ?c then _ else _) = _ => destruct c
         | match ?x with Some _ => _ | None => _ end = _ => destruct x; [|discriminate H]
         | option_map KBytes ?x = _ => destruct x; [|discriminate H]
         end; try discriminate H; cbn in H; injection H as <-; eauto.
Qed.

Lemma site_key_value i k v :
  is_const_instr i = true ->
  extract_key i = Some k -> denote i = Some v ->
  no_addr_template_site (COp i) -> plain_method_site (COp i) ->
  key_sval (const_kind (i_op i)) k = Some v.
Proof.
  destruct i as [o args]. unfold is_const_instr, Constants.extract_key, no_addr_template_site, plain_method_site.
  cbn [i_op i_args].
  destruct o; cbn [const_kind]; try discriminate; intros _ Hex Hden Hna Hpm.
  - (* int *)
    destruct args as [|a [|a2 r]]; try discriminate Hex. destruct a as [n|s| | |]; try discriminate Hex.
    + cbn in Hex. injection Hex as <-. exact Hden.
    + cbn [extract_int] in Hex. destruct (is_tmpl_name s) eqn:Ht.
      * injection Hex as <-. exact Hden.
      * destruct (assoc_str s int_enum_values) as [n|] eqn:Hn; [|discriminate Hex]. injection Hex as <-.
        destruct (int_enum_agrees _ _ Hn) as [P1 P2].
        unfold ConstantsSpec.denote, ConstantsSpec.parsed_of in Hden. cbn [i_op i_args ConstantsSpec.arg_tokens is_comment_arg] in Hden.
        destruct (String.eqb s "//") eqn:Ec.
        { apply String.eqb_eq in Ec. subst s. discriminate Hn. }
        cbn [ConstantsSpec.arg_token] in Hden. unfold subst_tok in Hden. rewrite Ht in Hden.
        cbn -[parse_int_arg] in Hden. rewrite P1 in Hden. cbn in Hden. injection Hden as <-.
        unfold key_sval. cbn [int_key_arg ConstantsSpec.arg_token]. now rewrite P2.
  - (* byte *)
    destruct args as [|a [|a2 r]]; try discriminate Hex. destruct a as [n|s| | |]; try discriminate Hex.
    unfold ConstantsSpec.denote, ConstantsSpec.parsed_of in Hden. cbn [i_op i_args ConstantsSpec.arg_tokens is_comment_arg] in Hden.
    destruct (String.eqb s "//") eqn:Ec.
    { apply String.eqb_eq in Ec. subst s. discriminate Hex. }
    cbn [ConstantsSpec.arg_token] in Hden.
    destruct (is_tmpl_name s) eqn:Ht.
    + unfold extract_bytes in Hex. rewrite Ht in Hex. injection Hex as <-.
      unfold key_sval. cbn [bytes_key_arg ConstantsSpec.arg_token].
      cbn -[parse_bytes_arg] in Hden.
      destruct (parse_bytes_arg [subst_tok sigma s]) as [[b [|x y]]|]; try discriminate Hden.
      cbn in Hden. exact Hden.
    + destruct (extract_bytes_kind _ _ Hex Ht) as [b ->].
      unfold subst_tok in Hden. rewrite Ht in Hden. cbn -[parse_bytes_arg] in Hden.
      destruct (parse_bytes_arg [s]) as [[b' [|x y]]|] eqn:Hp; try discriminate Hden.
      cbn in Hden. injection Hden as <-.
      rewrite (extract_bytes_agrees _ _ _ _ Hex Hp). apply key_sval_bytes.
  - (* addr *)
    destruct args as [|a [|a2 r]]; try discriminate Hex. destruct a as [n|s| | |]; try discriminate Hex.
    cbn [extract_addr] in Hex. rewrite Hna in Hex.
    unfold ConstantsSpec.denote, ConstantsSpec.parsed_of in Hden. cbn [i_op i_args ConstantsSpec.arg_tokens is_comment_arg] in Hden.
    destruct (String.eqb s "//") eqn:Ec.
    { cbn in Hden. discriminate Hden. }
    cbn [ConstantsSpec.arg_token] in Hden. unfold subst_tok in Hden. rewrite Hna in Hden.
    cbn -[decode_base32 Nat.eqb String.length] in Hden.
    destruct s as [|c s']; [cbn in Hden; discriminate Hden|].
    destruct (decode_address addr_hash (los (String c s'))) as [key|] eqn:Hk; [|discriminate Hex].
    injection Hex as <-.
    destruct (String.length (String c s') =? 58)%nat eqn:Hl; [|discriminate Hden].
    destruct (decode_base32 (String c s')) as [d|] eqn:Hd; [|discriminate Hden].
    cbn in Hden. injection Hden as <-.
    rewrite (decode_address_agrees _ _ _ _ Hk Hl Hd). apply key_sval_bytes.
  - (* method *)
    destruct args as [|a [|a2 r]]; try discriminate Hex. destruct a as [n|s| | |]; try discriminate Hex.
    assert (Hk : exists b, k = KBytes b).
    { unfold extract_method in Hex. destruct (los s) as [|q l]; [discriminate Hex|].
      destruct (_ && _); [|discriminate Hex]. injection Hex as <-. eauto. }
    destruct Hk as [b ->].
    assert (Ht : is_tmpl_name s = false).
    { unfold extract_method in Hex. destruct s as [|q s']; [discriminate Hex|]. cbn [los] in Hex.
      destruct (Ascii.eqb q """") eqn:Eq; [|discriminate Hex]. apply Ascii.eqb_eq in Eq. subst q. reflexivity. }
    unfold ConstantsSpec.denote, ConstantsSpec.parsed_of in Hden. cbn [i_op i_args ConstantsSpec.arg_tokens is_comment_arg] in Hden.
    destruct (String.eqb s "//") eqn:Ec.
    { cbn in Hden. discriminate Hden. }
    cbn [ConstantsSpec.arg_token] in Hden. unfold subst_tok in Hden. rewrite Ht in Hden.
    cbn -[parse_string_literal alookup] in Hden.
    destruct (parse_string_literal s) as [sg|] eqn:Hp; [|discriminate Hden].
    destruct (alookup String.eqb (string_of_bytes sg) msel) as [sel|] eqn:Hs; [|discriminate Hden].
    cbn in Hden. injection Hden as <-.
    rewrite (Hmsel _ _ Hs).
    rewrite <- (method_sig_agrees _ _ _ _ Hex Hpm Hp). apply key_sval_bytes.
Qed.
