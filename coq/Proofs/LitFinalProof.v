(* Proofs/LitFinalProof.v — C13: every literal constructor, end to end: the model's line, read by
   the assembler model, is the instruction that pushes the literal's specified value. *)
From Coq Require Import List Arith NArith ZArith Ascii String Bool Lia.
From PV Require Import Base.Bytes Base.Sexp AVM.Syntax AVM.Machine AVM.Parse
  Lit.Escape Lit.BaseN Lit.RFC4648 Lit.Spec
  Proofs.LitEscapeProof Proofs.LitLineProof Proofs.LitArith Proofs.LitBaseNProof Proofs.LitIntProof.
Import ListNotations.
Local Open Scope string_scope.
Local Open Scope list_scope.

Lemma drop_0x_model v : strip0x v = drop_0x v.
Proof. apply strip0x_spec. Qed.

(* ---- Bytes ---- *)
Definition reads_as (msel : list (string * bytes)) (line : string) (b : bytes) : Prop :=
  parse_stmt msel (tokens_of_line line) = push_bytes b.

Lemma bytes_utf8_ok msel u : exists line, bytes_line (BUtf8 u) = Some line /\ reads_as msel line u.
Proof. exists (byte_line u). split; [reflexivity | apply escape_roundtrip_stmt]. Qed.

Lemma hex_lower_is_hex b : forallb is_hex (hex_lower b) = true.
Proof.
  apply valid16_chars. rewrite valid16_spec, hex_lower_decodes. reflexivity.
Qed.

Lemma byte_hex_reads msel (h : string) b :
  forallb is_hex (list_ascii_of_string h) = true ->
  b16_decode (list_ascii_of_string h) = Some b ->
  reads_as msel ("byte " ++ "0x" ++ h)%string b.
Proof.
  intros Hc Hd. unfold reads_as. change ("byte " ++ "0x" ++ h)%string with ("byte 0x" ++ h)%string.
  rewrite tokens_hex by exact Hc. rewrite parse_stmt_byte, parse_bytes_arg_hex, b16_is_asm, Hd. reflexivity.
Qed.

Lemma bytes_raw_ok msel b : exists line, bytes_line (BRaw b) = Some line /\ reads_as msel line b.
Proof.
  eexists. split; [reflexivity|]. apply byte_hex_reads; rewrite list_ascii_of_string_of_list_ascii.
  - apply hex_lower_is_hex.
  - apply hex_lower_decodes.
Qed.

Lemma bytes_base16_ok msel v :
  match b16_decode (list_ascii_of_string (drop_0x v)) with
  | Some b => exists line, bytes_line (BBase "base16" v) = Some line /\ reads_as msel line b
  | None => bytes_line (BBase "base16" v) = None
  end.
Proof.
  unfold bytes_line, bytes_payload. cbn [String.eqb Ascii.eqb Bool.eqb]. rewrite drop_0x_model.
  unfold valid_base16. pose proof (valid16_spec (list_ascii_of_string (drop_0x v))) as V.
  destruct (b16_decode (list_ascii_of_string (drop_0x v))) as [b|] eqn:D; cbn [is_some] in V; rewrite V; [|reflexivity].
  eexists. split; [reflexivity|]. apply byte_hex_reads; [now apply valid16_chars | exact D].
Qed.

Lemma bytes_base32_ok msel v :
  match b32_decode (list_ascii_of_string v) with
  | Some b => exists line, bytes_line (BBase "base32" v) = Some line /\ reads_as msel line b
  | None => bytes_line (BBase "base32" v) = None
  end.
Proof.
  unfold bytes_line, bytes_payload. cbn [String.eqb Ascii.eqb Bool.eqb].
  unfold valid_base32. pose proof (valid32_spec (list_ascii_of_string v)) as V.
  destruct (b32_decode (list_ascii_of_string v)) as [b|] eqn:D; cbn [is_some] in V; rewrite V; [|reflexivity].
  eexists. split; [reflexivity|]. unfold reads_as. cbn [option_map].
  change ("byte " ++ "base32(" ++ v ++ ")")%string with ("byte base32(" ++ v ++ ")")%string.
  rewrite tokens_base32 by now apply valid32_chars.
  rewrite parse_stmt_byte, parse_bytes_arg_base32.
  rewrite <- (string_of_list_of v), (b32_asm_spec _ _ D). reflexivity.
Qed.

Lemma bytes_base64_ok msel v :
  match b64_decode (list_ascii_of_string v) with
  | Some b => exists line, bytes_line (BBase "base64" v) = Some line /\ reads_as msel line b
  | None => bytes_line (BBase "base64" v) = None
  end.
Proof.
  unfold bytes_line, bytes_payload. cbn [String.eqb Ascii.eqb Bool.eqb].
  unfold valid_base64. pose proof (valid64_spec (list_ascii_of_string v)) as V.
  destruct (b64_decode (list_ascii_of_string v)) as [b|] eqn:D; cbn [is_some] in V; rewrite V; [|reflexivity].
  eexists. split; [reflexivity|]. unfold reads_as. cbn [option_map].
  change ("byte " ++ "base64(" ++ v ++ ")")%string with ("byte base64(" ++ v ++ ")")%string.
  rewrite tokens_base64 by now apply valid64_chars.
  rewrite parse_stmt_byte, parse_bytes_arg_base64.
  rewrite <- (string_of_list_of v), (b64_asm_spec _ _ D). reflexivity.
Qed.

(* all forms of Bytes at once, against the specification [bytes_value] *)
Lemma bytes_literal_correct msel a :
  match bytes_value a with
  | Some b => exists line, bytes_line a = Some line /\ reads_as msel line b
  | None => bytes_line a = None
  end.
Proof.
  destruct a as [u | b | base v]; cbn [bytes_value].
  - apply bytes_utf8_ok.
  - apply bytes_raw_ok.
  - destruct (String.eqb_spec base "base16") as [->|N16]; [apply bytes_base16_ok|].
    destruct (String.eqb_spec base "base32") as [->|N32]; [apply bytes_base32_ok|].
    destruct (String.eqb_spec base "base64") as [->|N64]; [apply bytes_base64_ok|].
    unfold bytes_line, bytes_payload.
    apply String.eqb_neq in N16, N32, N64. now rewrite N16, N32, N64.
Qed.

(* ---- Int ---- *)
Lemma int_literal_correct msel z :
  match int_value z with
  | Some n => exists line, int_line z = Some line /\ parse_stmt msel (tokens_of_line line) = push_int n
  | None => int_line z = None
  end.
Proof.
  unfold int_value, int_line.
  destruct ((0 <=? z) && (z <? 18446744073709551616))%Z eqn:E; [|reflexivity].
  eexists. split; [reflexivity|]. apply int_line_roundtrip.
  apply andb_true_iff in E as [E1 E2]. apply Z.leb_le in E1. apply Z.ltb_lt in E2. lia.
Qed.

(* ---- Addr ---- *)
Lemma q32_len a b c d e f g h : List.length (q32 a b c d e f g h) = 5%nat.
Proof. reflexivity. Qed.

(* a text of 8q+2 characters decodes to 5q+1 bytes *)
Lemma b32_len_2 s : forall q b, List.length s = (8 * q + 2)%nat -> b32_decode s = Some b ->
  List.length b = (5 * q + 1)%nat.
Proof.
  induction s as [l L | c1 c2 c3 c4 c5 c6 c7 c8 l IH] using oct_ind; intros q b HL H.
  - assert (q = 0%nat) by lia. subst q. cbn in HL.
    destruct l as [|a [|a' [|x l]]]; try discriminate HL.
    cbn in H. unfold g32_2 in H. destruct (v32 a); [|discriminate H]. destruct (v32 a'); [|discriminate H].
    inversion H. reflexivity.
  - cbn [List.length] in HL. destruct q as [|q]; [lia|].
    assert (HL' : List.length l = (8 * q + 2)%nat) by lia.
    assert (T : b32_tail (c1 :: c2 :: c3 :: c4 :: c5 :: c6 :: c7 :: c8 :: l) = Some b -> False).
    { destruct l as [|x l]; [cbn in HL'; lia | discriminate]. }
    cbn [b32_decode] in H.
    destruct (v32 c1); [|now elim T]. destruct (v32 c2); [|now elim T]. destruct (v32 c3); [|now elim T].
    destruct (v32 c4); [|now elim T]. destruct (v32 c5); [|now elim T]. destruct (v32 c6); [|now elim T].
    destruct (v32 c7); [|now elim T]. destruct (v32 c8); [|now elim T].
    destruct (b32_decode l) as [b'|] eqn:El; [|discriminate H]. cbn in H. inversion H; subst b.
    pose proof (IH q b' HL' eq_refl) as IHl. rewrite ?app_length. cbn [List.length q32 q32_4 q32_3 q32_2 q32_1 app]. lia.
Qed.

Lemma addr_literal_reads msel s line :
  addr_line s = Some line ->
  exists b, b32_decode (list_ascii_of_string s) = Some b /\ List.length b = 36%nat /\
            parse_stmt msel (tokens_of_line line) = push_addr (firstn 32 b).
Proof.
  unfold addr_line, valid_address. destruct (String.length s =? 58)%nat eqn:L; [|discriminate].
  cbn [andb]. unfold valid_base32. destruct (valid_base32_l (list_ascii_of_string s)) eqn:V; [|discriminate].
  intros [= <-]. pose proof V as V'. rewrite valid32_spec in V'.
  destruct (b32_decode (list_ascii_of_string s)) as [b|] eqn:D; [|discriminate V'].
  apply Nat.eqb_eq in L. exists b. split; [reflexivity|]. split.
  - apply (b32_len_2 (list_ascii_of_string s) 7 b); [now rewrite <- slen_list | exact D].
  - change (String "a" (String "d" (String "d" (String "r" (String " " s))))) with ("addr " ++ s)%string.
    rewrite tokens_addr.
    + rewrite parse_stmt_addr, L. cbn [Nat.eqb].
      rewrite <- (string_of_list_of s), (b32_asm_spec _ _ D). reflexivity.
    + intros ->. discriminate L.
    + now apply valid32_chars.
Qed.

Lemma addr_rejects_shape s :
  addr_line s = None <-> (String.length s <> 58%nat \/ b32_decode (list_ascii_of_string s) = None).
Proof.
  unfold addr_line, valid_address, valid_base32. rewrite valid32_spec.
  destruct (Nat.eqb_spec (String.length s) 58) as [L|L]; cbn [andb].
  - destruct (b32_decode (list_ascii_of_string s)); cbn [is_some]; split; intros H; try discriminate H; try reflexivity.
    + destruct H as [H|H]; [now elim H | discriminate H].
    + now right.
  - split; [now left | reflexivity].
Qed.

(* The checksum is never looked at: whatever the hash function is, some accepted address has a
   checksum different from the hash of its key (two accepted texts with the same key and
   different checksums). *)
Definition addr_w1 : string := "AAAAAAAAAAAAAAAAAAAAAAAAAAAAAAAAAAAAAAAAAAAAAAAAAAAAAAAAAA".
Definition addr_w2 : string := "AAAAAAAAAAAAAAAAAAAAAAAAAAAAAAAAAAAAAAAAAAAAAAAAAAAAAAAAAE".

Lemma addr_checksum_unchecked (ck : bytes -> bytes) :
  exists s b, addr_line s <> None /\ b32_decode (list_ascii_of_string s) = Some b /\
              skipn 32 b <> ck (firstn 32 b).
Proof.
  assert (D1 : exists b1, b32_decode (list_ascii_of_string addr_w1) = Some b1 /\ firstn 32 b1 = repeat zero 32 /\
                          skipn 32 b1 = [zero; zero; zero; zero]) by (eexists; vm_compute; repeat split; reflexivity).
  assert (D2 : exists b2, b32_decode (list_ascii_of_string addr_w2) = Some b2 /\ firstn 32 b2 = repeat zero 32 /\
                          skipn 32 b2 = [zero; zero; zero; one]) by (eexists; vm_compute; repeat split; reflexivity).
  destruct D1 as (b1 & E1 & K1 & C1). destruct D2 as (b2 & E2 & K2 & C2).
  destruct (list_eq_dec Ascii.ascii_dec (ck (repeat zero 32)) [zero; zero; zero; zero]) as [E|E].
  - exists addr_w2, b2. split; [vm_compute; discriminate|]. split; [exact E2|].
    rewrite K2, C2, E. discriminate.
  - exists addr_w1, b1. split; [vm_compute; discriminate|]. split; [exact E1|].
    rewrite K1, C1. congruence.
Qed.

(* consequently the constructor does not implement the specification of an address *)
Lemma addr_spec_refuted (ck : bytes -> bytes) :
  exists s, addr_value ck s = None /\ addr_line s <> None.
Proof.
  destruct (addr_checksum_unchecked ck) as (s & b & A & D & C).
  exists s. split; [|exact A]. unfold addr_value. rewrite D.
  destruct (String.length s =? 58)%nat; [|reflexivity].
  destruct (bytes_eqb (skipn 32 b) (ck (firstn 32 b))) eqn:E; [|reflexivity].
  exfalso. apply C. clear - E. revert E. generalize (ck (firstn 32 b)). generalize (skipn 32 b).
  induction l as [|x l IH]; intros [|y l'] E; try discriminate E; [reflexivity|].
  cbn in E. apply andb_true_iff in E as [E1 E2]. apply Ascii.eqb_eq in E1. subst. f_equal. now apply IH.
Qed.

(* ---- MethodSignature ---- *)
Definition sigc (c : ascii) : bool := negb (Ascii.eqb c """") && negb (Ascii.eqb c "\").

Lemma tok_instr_plain l : forall rest cur ib acc,
  forallb sigc l = true ->
  tok_line (l ++ rest) cur true false ib acc = tok_line rest (rev l ++ cur) true false ib acc.
Proof.
  induction l as [|c l IH]; intros rest cur ib acc H; [reflexivity|].
  cbn [forallb] in H. apply andb_true_iff in H as [Hc Hl]. unfold sigc in Hc.
  apply andb_true_iff in Hc as [H1 H2]. apply negb_true_iff in H1, H2.
  cbn [app tok_line]. rewrite H1, H2. rewrite IH by assumption. cbn [rev]. now rewrite <- app_assoc.
Qed.

Lemma parse_str_body_step c r :
  r <> [] -> Ascii.eqb c "\" = false -> Ascii.eqb c """" = false ->
  parse_str_body (c :: r) = option_map (cons c) (parse_str_body r).
Proof.
  intros NE H1 H2. destruct r as [|x t]; [now elim NE|].
  cbn [parse_str_body]. rewrite H1, H2. reflexivity.
Qed.

Lemma parse_body_plain l : forallb sigc l = true -> parse_str_body (l ++ [dquote]) = Some l.
Proof.
  induction l as [|c l IH]; intros H; [reflexivity|].
  cbn [forallb] in H. apply andb_true_iff in H as [Hc Hl]. unfold sigc in Hc.
  apply andb_true_iff in Hc as [H1 H2]. apply negb_true_iff in H1, H2.
  cbn [app]. rewrite parse_str_body_step; [| |assumption|assumption].
  - now rewrite IH.
  - intros E. eapply app_cons_not_nil. symmetry. exact E.
Qed.

Lemma method_arg_list s : list_ascii_of_string (method_arg s) = dquote :: list_ascii_of_string s ++ [dquote].
Proof. unfold method_arg. cbn [list_ascii_of_string]. now rewrite list_of_append. Qed.

(* a signature without double quote and backslash reaches the assembler as written *)
Lemma method_plain_ok msel s sel :
  forallb sigc (list_ascii_of_string s) = true ->
  alookup String.eqb s msel = Some sel ->
  parse_stmt msel (tokens_of_line ("method " ++ method_arg s)) = push_method sel.
Proof.
  intros H L.
  assert (T : tokens_of_line ("method " ++ method_arg s) = ["method"; method_arg s]).
  { unfold tokens_of_line. rewrite list_of_append, method_arg_list.
    assert (P : forall rest acc, tok_line (list_ascii_of_string "method " ++ rest) [] false false false acc =
                                 tok_line rest [] false false false ("method" :: acc)) by reflexivity.
    rewrite P. cbn [tok_line]. change (is_space dquote) with false. change (Ascii.eqb dquote """") with true. cbn iota.
    rewrite tok_instr_plain by exact H. cbn [tok_line].
    change (Ascii.eqb dquote "\") with false. change (Ascii.eqb dquote """") with true. cbn iota.
    cbn [rev app]. f_equal. f_equal. unfold str_of. cbn [rev]. rewrite rev_app_distr, rev_involutive. cbn [rev app].
    rewrite <- method_arg_list. apply string_of_list_of. }
  rewrite T, parse_stmt_method. unfold parse_string_literal. rewrite method_arg_list.
  change (Ascii.eqb dquote """") with true. cbn iota. rewrite parse_body_plain by exact H.
  unfold string_of_bytes. rewrite string_of_list_of, L. reflexivity.
Qed.

(* what the constructor accepts (after /repo ae4cf37) *)
Lemma method_line_accepts s line : method_line s = Some line ->
  line = ("method " ++ method_arg s)%string /\ s <> ""%string /\
  forallb sigc (list_ascii_of_string s) = true /\ no_nl (list_ascii_of_string s) = true.
Proof.
  unfold method_line. destruct s as [|c s]; [discriminate|].
  destruct (existsb sig_bad (list_ascii_of_string (String c s))) eqn:E; [discriminate|].
  intros [= <-]. split; [reflexivity|]. split; [discriminate|].
  assert (G1 : forall x, sig_bad x = false -> sigc x = true /\ negb (Ascii.eqb x (chr 10)) = true).
  { intros x Hx. unfold sig_bad in Hx. repeat (apply orb_false_iff in Hx as [Hx ?]).
    unfold sigc. change (chr 10) with "010"%char. unfold dquote, backslash in *.
    repeat match goal with X : Ascii.eqb x _ = false |- _ => rewrite X; clear X end. split; reflexivity. }
  assert (G : forall l, existsb sig_bad l = false -> forallb sigc l = true /\ no_nl l = true).
  { induction l as [|x l IH]; [split; reflexivity|]. cbn [existsb]. intros H.
    apply orb_false_iff in H as [Hx Hl]. destruct (IH Hl) as [I1 I2]. destruct (G1 x Hx) as [J1 J2].
    unfold no_nl in *. cbn [forallb]. now rewrite I1, I2, J1, J2. }
  now apply G.
Qed.

Lemma method_line_rejects s :
  method_line s = None <-> (s = ""%string \/ existsb sig_bad (list_ascii_of_string s) = true).
Proof.
  unfold method_line. destruct s as [|c s]; [split; [now left | reflexivity]|].
  destruct (existsb sig_bad (list_ascii_of_string (String c s))); split; intros H; try reflexivity;
    try discriminate H; [now right | destruct H as [H|H]; discriminate H].
Qed.

Lemma method_tokens s : forallb sigc (list_ascii_of_string s) = true ->
  tokens_of_line ("method " ++ method_arg s) = ["method"; method_arg s].
Proof.
  intros H. unfold tokens_of_line. rewrite list_of_append, method_arg_list.
  assert (P : forall rest acc, tok_line (list_ascii_of_string "method " ++ rest) [] false false false acc =
                               tok_line rest [] false false false ("method" :: acc)) by reflexivity.
  rewrite P. cbn [tok_line]. change (is_space dquote) with false. change (Ascii.eqb dquote """") with true. cbn iota.
  rewrite tok_instr_plain by exact H. cbn [tok_line].
  change (Ascii.eqb dquote "\") with false. change (Ascii.eqb dquote """") with true. cbn iota.
  cbn [rev app]. f_equal. f_equal. unfold str_of. cbn [rev]. rewrite rev_app_distr, rev_involutive. cbn [rev app].
  rewrite <- method_arg_list. apply string_of_list_of.
Qed.

Lemma method_literal_parses s : forallb sigc (list_ascii_of_string s) = true ->
  parse_string_literal (method_arg s) = Some (list_ascii_of_string s).
Proof.
  intros H. unfold parse_string_literal. rewrite method_arg_list.
  change (Ascii.eqb dquote """") with true. cbn iota. now apply parse_body_plain.
Qed.

(* FULL statement: every accepted signature text is emitted as a line that the assembler reads as
   exactly one `method` instruction for exactly that text *)
Lemma method_literal_correct msel s line :
  method_line s = Some line ->
  tokens_of_line line = ["method"; method_arg s] /\
  parse_string_literal (method_arg s) = Some (list_ascii_of_string s) /\
  forall sel, alookup String.eqb s msel = Some sel ->
              parse_stmt msel (tokens_of_line line) = push_method sel.
Proof.
  intros H. destruct (method_line_accepts s line H) as (-> & _ & Hc & _).
  split; [now apply method_tokens|]. split; [now apply method_literal_parses|].
  intros sel L. now apply method_plain_ok.
Qed.

(* a two-token statement line without line feed inside a program text *)
Lemma program_with_line msel (pre post line a b : string) st :
  no_nl (list_ascii_of_string line) = true ->
  tokens_of_line line = [a; b] -> String.eqb a ";" = false -> String.eqb b ";" = false ->
  parse_stmt msel [a; b] = Some (Some st) ->
  statements_of_text msel (pre ++ nl ++ line ++ nl ++ post)%string =
  match statements_of_text msel pre, statements_of_text msel post with
  | Some x, Some y => Some (x ++ st :: y)
  | _, _ => None
  end.
Proof.
  intros NL T Ha Hb P. unfold statements_of_text.
  rewrite !list_of_append. cbn [nl list_ascii_of_string app].
  rewrite split_lines_app_line by exact NL.
  rewrite str_of_rev, string_of_list_of.
  rewrite flat_map_app. cbn [flat_map]. rewrite T.
  rewrite split_semis_two by assumption.
  rewrite parse_stmts_app. cbn [app parse_stmts]. rewrite P.
  destruct (parse_stmts msel (flat_map _ (split_lines (list_ascii_of_string pre) []))); [|reflexivity].
  destruct (parse_stmts msel (flat_map _ (split_lines (list_ascii_of_string post) []))); reflexivity.
Qed.

Lemma method_in_program msel (pre post s line : string) sel :
  method_line s = Some line -> alookup String.eqb s msel = Some sel ->
  statements_of_text msel (pre ++ nl ++ line ++ nl ++ post)%string =
  match statements_of_text msel pre, statements_of_text msel post with
  | Some x, Some y => Some (x ++ SInstr (mkP O_method_signature [IBytes sel]) :: y)
  | _, _ => None
  end.
Proof.
  intros H L. destruct (method_literal_correct msel s line H) as (T & _ & R).
  destruct (method_line_accepts s line H) as (E & _ & _ & NL).
  eapply program_with_line; [| exact T | reflexivity | reflexivity | rewrite <- T; now apply R].
  subst line. rewrite list_of_append, method_arg_list. unfold no_nl in *.
  rewrite forallb_app. cbn [forallb]. rewrite forallb_app, NL. reflexivity.
Qed.

(* the texts that used to break the line are now rejected at construction *)
Definition sig_w1 : string := "a""b c()void".
Definition sig_w2 : string := "a"" ; int 1 ; byte ""b".
Lemma method_former_witnesses_rejected : method_line sig_w1 = None /\ method_line sig_w2 = None.
Proof. split; reflexivity. Qed.

Lemma method_rejects_empty : method_line "" = None.
Proof. reflexivity. Qed.

(* ---- statements in the form the property file quotes ---- *)
Lemma escape_roundtrip b :
  tokens_of_line (byte_line b) = ["byte"; escape_str b] /\ parse_string_literal (escape_str b) = Some b.
Proof. split; [apply escape_tokens | apply parse_string_literal_escape]. Qed.

Lemma hex_roundtrip b : decode_hex0x ("0x" ++ string_of_list_ascii (hex_lower b)) = Some b.
Proof.
  unfold decode_hex0x. cbn [append list_ascii_of_string].
  change (Ascii.eqb "0" "0" && (Ascii.eqb "x" "x" || Ascii.eqb "x" "X")) with true. cbn iota.
  rewrite list_ascii_of_string_of_list_ascii, b16_is_asm. apply hex_lower_decodes.
Qed.

Lemma base16_valid_decodes (s : string) :
  if valid_base16 s
  then exists b, b16_decode (list_ascii_of_string s) = Some b /\ decode_hex0x ("0x" ++ s) = Some b
  else b16_decode (list_ascii_of_string s) = None.
Proof.
  unfold valid_base16. rewrite valid16_spec.
  destruct (b16_decode (list_ascii_of_string s)) as [b|] eqn:D; cbn [is_some]; [|reflexivity].
  exists b. split; [reflexivity|]. unfold decode_hex0x. cbn [append list_ascii_of_string].
  change (Ascii.eqb "0" "0" && (Ascii.eqb "x" "x" || Ascii.eqb "x" "X")) with true. cbn iota.
  now rewrite b16_is_asm.
Qed.

Lemma base64_valid_decodes (s : string) :
  if valid_base64 s
  then exists b, b64_decode (list_ascii_of_string s) = Some b /\ decode_base64 s = Some b
  else b64_decode (list_ascii_of_string s) = None.
Proof.
  unfold valid_base64. rewrite valid64_spec.
  destruct (b64_decode (list_ascii_of_string s)) as [b|] eqn:D; cbn [is_some]; [|reflexivity].
  exists b. split; [reflexivity|]. rewrite <- (string_of_list_of s). now apply b64_asm_spec.
Qed.

Lemma base32_valid_decodes (s : string) :
  if valid_base32 s
  then exists b, b32_decode (list_ascii_of_string s) = Some b /\ decode_base32 s = Some b
  else b32_decode (list_ascii_of_string s) = None.
Proof.
  unfold valid_base32. rewrite valid32_spec.
  destruct (b32_decode (list_ascii_of_string s)) as [b|] eqn:D; cbn [is_some]; [|reflexivity].
  exists b. split; [reflexivity|]. rewrite <- (string_of_list_of s). now apply b32_asm_spec.
Qed.

(* ---- non-vacuity ---- *)
Example bytes_examples :
  bytes_value (BBase "base64" "YWJj") = Some (list_ascii_of_string "abc") /\
  bytes_value (BBase "base32" "MFRGG") = Some (list_ascii_of_string "abc") /\
  bytes_value (BBase "base32" "MFRGG===") = Some (list_ascii_of_string "abc") /\
  bytes_value (BBase "base16" "0x616263") = Some (list_ascii_of_string "abc") /\
  bytes_value (BBase "base64" "YWJ") = None /\ bytes_value (BBase "base32" "MFRGG==") = None /\
  bytes_value (BBase "base16" "0x61626") = None /\
  bytes_line (BBase "base64" "YWJj") = Some "byte base64(YWJj)" /\
  valid_base64 "YR==" = true (* non-canonical pad bits are accepted, RFC 4648 3.5 *).
Proof. repeat split; reflexivity. Qed.

Example addr_example :
  addr_line addr_w1 = Some ("addr " ++ addr_w1)%string /\
  parse_stmt [] (tokens_of_line ("addr " ++ addr_w1)%string) = push_addr (repeat zero 32).
Proof. split; vm_compute; reflexivity. Qed.

Example method_example :
  parse_stmt [("add(uint64,uint64)uint64", [zero; one; zero; one])]
             (tokens_of_line ("method " ++ method_arg "add(uint64,uint64)uint64")) =
  push_method [zero; one; zero; one].
Proof. apply method_plain_ok; reflexivity. Qed.

Example method_separators_example :   (* VT, FF, FS..US stay inside the literal: only LF ends a TEAL line *)
  exists line, method_line (String "a" (String "011" (String "012" (String "028" (String "030" "b"))))) = Some line.
Proof. eexists. reflexivity. Qed.
