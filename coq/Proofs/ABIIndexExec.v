(* Proofs/ABIIndexExec.v — executing decode plans: a plan that addresses the bytes of a component returns
   what a correct decode stores ([stored]). *)
From Coq Require Import List NArith Arith Ascii String Bool Lia.
From PV Require Import Base.Bytes Base.U64 AVM.Syntax AVM.Ops ABI.Types ABI.Spec ABI.Index
  Proofs.ABISpecProof Proofs.ABIIndexBits Proofs.ABIIndexAsm Proofs.ABIIndexElems Proofs.ABIIndexSel.
Import ListNotations.
Local Open Scope N_scope.

Lemma MAXB_U64 : forall n, n <= MAX_BYTES -> n < U64.
Proof. intros n H. unfold MAX_BYTES in H. unfold U64. lia. Qed.

Lemma eval_int : forall enc idx n, n < U64 -> eval_iexpr enc idx (IInt n) = Some n.
Proof. intros. cbn. apply push_int_ok. assumption. Qed.

Lemma u16_at_eq : forall enc s, u16_at enc s = option_map be_decode (slice enc s 2).
Proof. intros. unfold u16_at, slice. cbn. unfold bextract. destruct (bsub enc s (s + 2)); reflexivity. Qed.

Lemma u16_at_ok : forall enc s o, slice enc s 2 = Some (be_encode 2 o) -> o < 65536 -> u16_at enc s = Some o.
Proof.
  intros enc s o H Ho. rewrite u16_at_eq, H. cbn [option_map]. f_equal.
  apply be_decode_encode. exact Ho.
Qed.

Lemma slice_bound : forall enc s n x, slice enc s n = Some x -> s + n <= blen enc.
Proof. intros enc s n x H. unfold slice in H. apply bsub_len in H. lia. Qed.

(* ---- the byte-string forms with constant arguments ---- *)
Lemma sel_extract_ok : forall ver s l, EXTRACT_MIN_VERSION <= ver -> exists o, sel_extract ver s l = SelOk o.
Proof.
  intros ver s l H. destruct (sel_extract ver s l) as [o|] eqn:E; [eauto|].
  apply sel_extract_error in E. lia.
Qed.

Lemma sel_suffix_ok : forall ver s, EXTRACT_MIN_VERSION <= ver -> exists o, sel_suffix ver s = SelOk o.
Proof.
  intros ver s H. destruct (sel_suffix ver s) as [o|] eqn:E; [eauto|].
  apply sel_suffix_error in E. unfold EXTRACT_MIN_VERSION, SUBSTRING_MIN_VERSION in *. lia.
Qed.

Lemma exec_extract_const : forall ver enc idx a bs c,
    EXTRACT_MIN_VERSION <= ver -> enc = a ++ bs ++ c -> blen enc <= MAX_BYTES ->
    exec_plan ver (PExtract (IInt (blen a)) (IInt (blen bs))) enc idx = Some (VB bs).
Proof.
  intros ver enc idx a bs c Hv E Hl. cbn [exec_plan].
  destruct (sel_extract_ok ver (blen a) (blen bs) Hv) as [o Ho]. rewrite Ho. cbn [exec_selres].
  assert (B : blen a + blen bs <= blen enc) by (subst enc; rewrite !blen_app; lia).
  rewrite (sel_extract_correct _ _ _ _ _ Ho) by (apply MAXB_U64; lia).
  rewrite do_extract3_eq. subst enc. rewrite bsub_mid. reflexivity.
Qed.

Lemma exec_suffix_const : forall ver enc idx a bs,
    EXTRACT_MIN_VERSION <= ver -> enc = a ++ bs -> blen enc <= MAX_BYTES ->
    exec_plan ver (PSuffix (IInt (blen a))) enc idx = Some (VB bs).
Proof.
  intros ver enc idx a bs Hv E Hl. cbn [exec_plan].
  destruct (sel_suffix_ok ver (blen a) Hv) as [o Ho]. rewrite Ho. cbn [exec_selres].
  assert (B : blen a <= blen enc) by (subst enc; rewrite !blen_app; lia).
  rewrite (sel_suffix_correct _ _ _ _ Ho) by (apply MAXB_U64; lia).
  rewrite do_substring3_eq. subst enc. rewrite bsub_suffix. reflexivity.
Qed.

(* ---- uint components ---- *)
Lemma pyteal_bits_cases : forall b, pyteal_uint_bits b = true -> b = 8 \/ b = 16 \/ b = 32 \/ b = 64.
Proof.
  intros b H. unfold pyteal_uint_bits in H.
  destruct (N.eqb_spec b 8); auto. destruct (N.eqb_spec b 16); auto.
  destruct (N.eqb_spec b 32); auto. destruct (N.eqb_spec b 64); auto. discriminate.
Qed.

Lemma uint_enc_inv : forall bits v bs, uint_enc bits v = Some bs ->
    exists n, v = VUint n /\ n < 2 ^ bits /\ bs = be_encode (N.to_nat (bits / 8)) n.
Proof.
  intros bits v bs H. destruct v as [b|n|r|vs]; cbn in H; try discriminate.
  destruct (valid_uint_bits bits); cbn [andb] in H; [|discriminate].
  destruct (N.ltb_spec n (2 ^ bits)); [|discriminate]. exists n. repeat split; auto. congruence.
Qed.

(* reading a uintN that sits at offset blen a; the start is any expression that evaluates to it *)
Lemma exec_uint_at_gen : forall ver bits enc idx a n c s,
    (bits = 8 \/ bits = 16 \/ bits = 32 \/ bits = 64) -> n < 2 ^ bits ->
    enc = a ++ be_encode (N.to_nat (bits / 8)) n ++ c ->
    eval_iexpr enc idx s = Some (blen a) ->
    exec_plan ver (PUintAt bits s) enc idx = Some (VI n).
Proof.
  intros ver bits enc idx a n c s Hb Hn E Hs.
  cbn [exec_plan]. rewrite Hs. cbn [obind].
  destruct Hb as [-> | [-> | [-> | ->]]].
  - change (N.to_nat (8 / 8)) with 1%nat in E. cbn [be_encode app] in E.
    cbn [N.eqb Pos.eqb]. cbn. subst enc. rewrite nth_N_app_mid. cbn. rewrite b2n_n2b.
    rewrite N.mod_small by (change (2 ^ 8) with 256 in Hn; exact Hn). reflexivity.
  - change (N.to_nat (16 / 8)) with 2%nat in E. cbn [N.eqb Pos.eqb]. cbn. unfold bextract.
    rewrite (bsub_mid' enc a (be_encode 2 n) c _ _ E eq_refl) by (rewrite be_encode_len; reflexivity).
    cbn [run1]. rewrite be_decode_encode by exact Hn. reflexivity.
  - change (N.to_nat (32 / 8)) with 4%nat in E. cbn [N.eqb Pos.eqb]. cbn. unfold bextract.
    rewrite (bsub_mid' enc a (be_encode 4 n) c _ _ E eq_refl) by (rewrite be_encode_len; reflexivity).
    cbn [run1]. rewrite be_decode_encode by exact Hn. reflexivity.
  - change (N.to_nat (64 / 8)) with 8%nat in E. cbn [N.eqb Pos.eqb]. cbn. unfold bextract.
    rewrite (bsub_mid' enc a (be_encode 8 n) c _ _ E eq_refl) by (rewrite be_encode_len; reflexivity).
    cbn [run1]. rewrite be_decode_encode by exact Hn. reflexivity.
Qed.

Lemma exec_uint_at : forall ver bits enc idx a n c,
    (bits = 8 \/ bits = 16 \/ bits = 32 \/ bits = 64) -> n < 2 ^ bits ->
    enc = a ++ be_encode (N.to_nat (bits / 8)) n ++ c -> blen enc <= MAX_BYTES ->
    exec_plan ver (PUintAt bits (IInt (blen a))) enc idx = Some (VI n).
Proof.
  intros ver bits enc idx a n c Hb Hn E Hl.
  assert (B : blen a <= blen enc) by (subst enc; rewrite !blen_app; lia).
  eapply exec_uint_at_gen; eauto. apply eval_int. apply MAXB_U64. lia.
Qed.

Lemma exec_btoi : forall ver enc idx n, n < 2 ^ 64 -> enc = be_encode 8 n -> exec_plan ver PBtoi enc idx = Some (VI n).
Proof.
  intros ver enc idx n Hn ->. cbn [exec_plan].
  change (exec_pure O_btoi [] [VB (be_encode 8 n)])
    with (if blen (be_encode 8 n) <=? 8 then POk [VI (be_decode (be_encode 8 n))] else PFail).
  rewrite be_encode_len. cbn [N.leb N.compare N.of_nat Pos.of_succ_nat Pos.succ Pos.compare Pos.compare_cont run1].
  rewrite be_decode_encode by exact Hn. reflexivity.
Qed.

(* ---- the (start, length) option matrix of _index_tuple for a static, non-bool component ---- *)
(* s = None only when the component starts at 0; l = None only when nothing follows it *)
Definition range_ok (s l : option iexpr) (off len : N) (c : bytes) : Prop :=
  match s with None => off = 0 | Some x => x = IInt off end /\
  match l with None => c = [] | Some y => y = IInt len end.

Lemma blen_zero_nil : forall a : bytes, blen a = 0 -> a = [].
Proof. intros [|x r] H; [reflexivity|]. unfold blen in H. cbn in H. lia. Qed.

Lemma decode_static_ok : forall ver t v bs enc idx a c s l,
    EXTRACT_MIN_VERSION <= ver ->
    arc4_encode t v = Some bs -> is_bool t = false -> is_dynamic t = false -> pyteal_elem t = true ->
    enc = a ++ bs ++ c -> blen enc <= MAX_BYTES ->
    range_ok s l (blen a) (blen bs) c ->
    exists p sv, decode_plan t s None l = Some p /\ stored t v = Some sv /\ exec_plan ver p enc idx = Some sv.
Proof.
  intros ver t v bs enc idx a c s l Hv He Hb Hd Hp E Hl [Rs Rl].
  assert (Huint : forall bits, (bits = 8 \/ bits = 16 \/ bits = 32 \/ bits = 64) -> uint_enc bits v = Some bs ->
            exists p sv, uint_decode bits s None l = Some p /\
                         match v with VUint n => Some (VI n) | _ => None end = Some sv /\
                         exec_plan ver p enc idx = Some sv).
  { intros bits Hbits Hu. apply uint_enc_inv in Hu as [n [Hv0 [Hn Hbs]]]. subst v bs.
    assert (Ex : exec_plan ver (PUintAt bits (IInt (blen a))) enc idx = Some (VI n))
      by (eapply exec_uint_at; eauto).
    destruct s as [x|]; [subst x|].
    - exists (PUintAt bits (IInt (blen a))), (VI n). split; [|split; [reflexivity|exact Ex]].
      destruct Hbits as [-> | [-> | [-> | ->]]]; destruct l; reflexivity.
    - rewrite Rs in Ex.
      destruct Hbits as [-> | [-> | [-> | ->]]].
      1: exists (PUintAt 8 (IInt 0)), (VI n); split; [destruct l; reflexivity | split; [reflexivity | exact Ex]].
      1: exists (PUintAt 16 (IInt 0)), (VI n); split; [destruct l; reflexivity | split; [reflexivity | exact Ex]].
      1: exists (PUintAt 32 (IInt 0)), (VI n); split; [destruct l; reflexivity | split; [reflexivity | exact Ex]].
      destruct l as [y|].
      + exists (PUintAt 64 (IInt 0)), (VI n). split; [reflexivity | split; [reflexivity | exact Ex]].
      + exists PBtoi, (VI n). split; [reflexivity | split; [reflexivity|]].
        apply exec_btoi; [exact Hn|]. subst c. apply blen_zero_nil in Rs. subst a.
        rewrite E, app_nil_r. reflexivity. }
  assert (Hbytes : substring_for_decoding s None l <> None /\
            forall p, substring_for_decoding s None l = Some p -> exec_plan ver p enc idx = Some (VB bs)).
  { destruct s as [x|]; [subst x|]; destruct l as [y|]; [subst y| |subst y|]; cbn [substring_for_decoding];
      (split; [discriminate|]); intros p Hpl; injection Hpl as <-.
    - eapply exec_extract_const; eauto.
    - subst c. rewrite app_nil_r in E. eapply exec_suffix_const; eauto.
    - apply blen_zero_nil in Rs. subst a. change (IInt 0) with (IInt (blen [])).
      eapply exec_extract_const; eauto.
    - apply blen_zero_nil in Rs. subst a c. cbn [exec_plan]. rewrite E, app_nil_r. reflexivity. }
  destruct Hbytes as [Hs1 Hs2].
  assert (Hgen : decode_plan t s None l = substring_for_decoding s None l ->
                 stored t v = option_map VB (arc4_encode t v) ->
                 exists p sv, decode_plan t s None l = Some p /\ stored t v = Some sv /\ exec_plan ver p enc idx = Some sv).
  { intros D S. destruct (substring_for_decoding s None l) as [p|] eqn:Ep; [|congruence].
    exists p, (VB bs). rewrite D, S, He. repeat split; auto. }
  destruct t; cbn [is_bool is_dynamic pyteal_elem] in Hb, Hd, Hp; try discriminate;
    try (apply Hgen; reflexivity).
  - (* TByte *) cbn [decode_plan stored]. cbn [arc4_encode] in He. apply Huint; auto.
  - (* TUint *) cbn [decode_plan stored]. cbn [arc4_encode] in He. apply Huint; auto.
    apply pyteal_bits_cases. exact Hp.
Qed.

(* ---- the same with a computed start (array elements): Extract(encoded, start, Int len) / uint at start ---- *)
Definition not_const (s : iexpr) : Prop := forall n, s <> IInt n.

Lemma exec_extract_gen : forall ver enc idx a bs c s l,
    not_const s -> enc = a ++ bs ++ c ->
    eval_iexpr enc idx s = Some (blen a) -> eval_iexpr enc idx l = Some (blen bs) ->
    exec_plan ver (PExtract s l) enc idx = Some (VB bs).
Proof.
  intros ver enc idx a bs c s l Hn E Hs Hl.
  assert (G : obind (eval_iexpr enc idx s) (fun x => obind (eval_iexpr enc idx l) (fun y => do_extract3 enc x y)) = Some (VB bs)).
  { rewrite Hs, Hl. cbn [obind]. rewrite do_extract3_eq. subst enc. rewrite bsub_mid. reflexivity. }
  destruct s; try exact G. exfalso. eapply Hn. reflexivity.
Qed.

Lemma exec_substring_gen : forall ver enc idx a bs c s e,
    not_const s -> enc = a ++ bs ++ c ->
    eval_iexpr enc idx s = Some (blen a) -> eval_iexpr enc idx e = Some (blen a + blen bs) ->
    exec_plan ver (PSubstring s e) enc idx = Some (VB bs).
Proof.
  intros ver enc idx a bs c s e Hn E Hs He.
  assert (G : obind (eval_iexpr enc idx s) (fun x => obind (eval_iexpr enc idx e) (fun y => do_substring3 enc x y)) = Some (VB bs)).
  { rewrite Hs, He. cbn [obind]. rewrite do_substring3_eq. subst enc. rewrite bsub_mid. reflexivity. }
  destruct s; try exact G. exfalso. eapply Hn. reflexivity.
Qed.

Lemma decode_static_at : forall ver t v bs enc idx a c s,
    arc4_encode t v = Some bs -> is_bool t = false -> is_dynamic t = false -> pyteal_elem t = true ->
    enc = a ++ bs ++ c -> blen bs < U64 -> not_const s ->
    eval_iexpr enc idx s = Some (blen a) ->
    exists p sv, decode_plan t (Some s) None (Some (IInt (blen bs))) = Some p /\ stored t v = Some sv /\
                 exec_plan ver p enc idx = Some sv.
Proof.
  intros ver t v bs enc idx a c s He Hb Hd Hp E Hl Hn Hs.
  assert (Huint : forall bits, (bits = 8 \/ bits = 16 \/ bits = 32 \/ bits = 64) -> uint_enc bits v = Some bs ->
            exists p sv, uint_decode bits (Some s) None (Some (IInt (blen bs))) = Some p /\
                         match v with VUint n => Some (VI n) | _ => None end = Some sv /\
                         exec_plan ver p enc idx = Some sv).
  { intros bits Hbits Hu. apply uint_enc_inv in Hu as [n [Hv0 [Hn0 Hbs]]]. subst v.
    exists (PUintAt bits s), (VI n). split; [|split; [reflexivity|]].
    - destruct Hbits as [-> | [-> | [-> | ->]]]; reflexivity.
    - eapply exec_uint_at_gen; eauto. rewrite <- Hbs. exact E. }
  assert (Hgen : decode_plan t (Some s) None (Some (IInt (blen bs))) = Some (PExtract s (IInt (blen bs))) ->
                 stored t v = option_map VB (arc4_encode t v) ->
                 exists p sv, decode_plan t (Some s) None (Some (IInt (blen bs))) = Some p /\ stored t v = Some sv /\
                              exec_plan ver p enc idx = Some sv).
  { intros D S. exists (PExtract s (IInt (blen bs))), (VB bs). rewrite D, S, He. repeat split; auto.
    eapply exec_extract_gen; eauto. apply eval_int. exact Hl. }
  destruct t; cbn [is_bool is_dynamic pyteal_elem] in Hb, Hd, Hp; try discriminate;
    try (apply Hgen; reflexivity).
  - cbn [decode_plan stored]. cbn [arc4_encode] in He. apply Huint; auto.
  - cbn [decode_plan stored]. cbn [arc4_encode] in He. apply Huint; auto.
    apply pyteal_bits_cases. exact Hp.
Qed.
