(* Proofs/ConstantsLitProof.v — C12: the value constants.py extracts from a literal spelling is the
   value the TEAL assembler (AVM/Parse.v) reads from the same spelling, whenever both read it; the
   spellings createConstantBlocks emits ("0x" ++ lowercase hex, decimal integers) are read back exactly. *)
From Coq Require Import List Arith NArith Ascii String Bool Lia.
From PV Require Import Base.Bytes Base.Sexp AVM.Syntax AVM.Machine AVM.Parse Comp.ConstantsLit Comp.Constants.
Import ListNotations.
Local Open Scope N_scope.

(* ---------------------------------------------------------------- basic facts *)
Lemma an_lt c : an c < 256.
Proof. unfold an. apply N_ascii_bounded. Qed.

Lemma na_an c : na (an c) = c.
Proof. unfold na, an. apply ascii_N_embedding. Qed.

Lemma an_na n : n < 256 -> an (na n) = n.
Proof. intros H. unfold na, an. apply N_ascii_embedding. exact H. Qed.

Lemma ascii_eqb_eq' a b : Ascii.eqb a b = true -> a = b.
Proof. apply Ascii.eqb_eq. Qed.

Lemma small_cases16 n : n < 16 ->
  n = 0 \/ n = 1 \/ n = 2 \/ n = 3 \/ n = 4 \/ n = 5 \/ n = 6 \/ n = 7 \/
  n = 8 \/ n = 9 \/ n = 10 \/ n = 11 \/ n = 12 \/ n = 13 \/ n = 14 \/ n = 15.
Proof. lia. Qed.

Lemma hexval_hexdigit n : n < 16 -> hexval (hexdigit n) = Some n.
Proof.
  intros H. destruct (small_cases16 n H) as [E|[E|[E|[E|[E|[E|[E|[E|[E|[E|[E|[E|[E|[E|[E|E]]]]]]]]]]]]]]];
    subst n; reflexivity.
Qed.

Lemma hexval_lt c v : hexval c = Some v -> v < 16.
Proof.
  unfold hexval. set (n := N_of_ascii c).
  destruct (N.leb_spec 48 n); destruct (N.leb_spec n 57); cbn [andb]; try (intros E; injection E; lia).
  all: destruct (N.leb_spec 97 n); destruct (N.leb_spec n 102); cbn [andb]; try (intros E; injection E; lia).
  all: destruct (N.leb_spec 65 n); destruct (N.leb_spec n 70); cbn [andb]; try (intros E; injection E; lia); discriminate.
Qed.

(* ---------------------------------------------------------------- hex round trip *)
Lemma hex_of_bytes_roundtrip b : bytes_of_hex_l (hex_of_bytes b) = Some b.
Proof.
  induction b as [|c t IH]; [reflexivity|].
  cbn [hex_of_bytes bytes_of_hex_l].
  pose proof (N_ascii_bounded c) as Hc.
  assert (Hq : N_of_ascii c / 16 < 16) by (apply N.div_lt_upper_bound; lia).
  assert (Hr : N_of_ascii c mod 16 < 16) by (apply N.mod_lt; lia).
  rewrite (hexval_hexdigit _ Hq), (hexval_hexdigit _ Hr), IH.
  f_equal. f_equal.
  rewrite N.mul_comm, <- N.div_mod by lia. apply ascii_N_embedding.
Qed.

Lemma list_of_string_app a b :
  list_ascii_of_string (a ++ b)%string = (list_ascii_of_string a ++ list_ascii_of_string b)%list.
Proof. induction a as [|c a IH]; cbn; [reflexivity|]. now rewrite IH. Qed.

Lemma hexdigit_is_hex n : n < 16 -> exists v, hexval (hexdigit n) = Some v.
Proof. intros H; eexists; apply hexval_hexdigit; exact H. Qed.

Definition hex_spelling (b : bytes) : string := ("0x" ++ bytes_to_hex b)%string.

Lemma decode_hex0x_spelling b : decode_hex0x (hex_spelling b) = Some b.
Proof.
  unfold decode_hex0x, hex_spelling, bytes_to_hex. cbn [append list_ascii_of_string].
  rewrite list_ascii_of_string_of_list_ascii. cbn. apply hex_of_bytes_roundtrip.
Qed.

(* the spelling createConstantBlocks emits for a byte value is read back by the assembler as that value *)
Lemma parse_bytes_arg_hex_spelling b rest :
  parse_bytes_arg (hex_spelling b :: rest) = Some (b, rest).
Proof.
  unfold parse_bytes_arg.
  change (hex_spelling b) with (String "0" (String "x" (bytes_to_hex b))).
  cbn -[decode_hex0x bytes_to_hex].
  change (String "0" (String "x" (bytes_to_hex b))) with (hex_spelling b).
  now rewrite decode_hex0x_spelling.
Qed.

(* ---------------------------------------------------------------- bytes.fromhex vs the assembler's hex *)
Lemma pair_ind {A} (P : list A -> Prop) :
  P [] -> (forall a, P [a]) -> (forall a b t, P t -> P (a :: b :: t)) -> forall l, P l.
Proof.
  intros H0 H1 H2. fix IH 1. intros [|a [|b t]]; [exact H0|apply H1|apply H2; apply IH].
Qed.

Lemma hex_not_space c : hexval c <> None -> py_isspace c = false.
Proof.
  destruct c as [[] [] [] [] [] [] [] []]; vm_compute; intros H; try reflexivity; exfalso; apply H; reflexivity.
Qed.

Lemma fromhex_agrees t : forall v, bytes_of_hex_l t = Some v -> py_fromhex t = Some v.
Proof.
  induction t as [|a|a b t IH] using pair_ind; intros v H.
  - exact H.
  - discriminate H.
  - cbn [bytes_of_hex_l] in H. cbn [py_fromhex].
    destruct (hexval a) as [x|] eqn:Ha; [|discriminate H].
    destruct (hexval b) as [y|] eqn:Hb; [|discriminate H].
    destruct (bytes_of_hex_l t) as [r|] eqn:Hr; [|discriminate H].
    rewrite (hex_not_space a) by (rewrite Ha; discriminate).
    rewrite (IH r eq_refl). exact H.
Qed.

(* ---------------------------------------------------------------- unescapeStr vs parseStringLiteral *)
Local Open Scope char_scope.

Definition psb_esc (x : ascii) (r : list ascii) : option bytes :=
  if x =? "n" then option_map (cons (chr 10)) (parse_str_body r)
  else if x =? "r" then option_map (cons (chr 13)) (parse_str_body r)
  else if x =? "t" then option_map (cons (chr 9)) (parse_str_body r)
  else if x =? "\" then option_map (cons x) (parse_str_body r)
  else if x =? """" then match r with [] => None | _ :: _ => option_map (cons x) (parse_str_body r) end
  else if x =? "x" then
    match r with
    | h1 :: h2 :: t'' =>
        match hexval h1, hexval h2, t'' with
        | Some a, Some b, _ :: _ => option_map (cons (chr (a * 16 + b))) (parse_str_body t'')
        | _, _, _ => None
        end
    | _ => None
    end
  else None.

Lemma psb_unfold c x r :
  parse_str_body (c :: x :: r) =
  if c =? "\" then psb_esc x r
  else if c =? """" then None
  else option_map (cons c) (parse_str_body (x :: r)).
Proof. reflexivity. Qed.

Lemma psb_single c : parse_str_body [c] = if c =? """" then Some [] else None.
Proof. reflexivity. Qed.

Lemma rep_other c t : (c =? "\") = false -> py_replace_bsq (c :: t) = c :: py_replace_bsq t.
Proof. intros H. destruct t as [|q t']; cbn [py_replace_bsq]; [reflexivity|]. now rewrite H. Qed.

Lemma rep_bsq t : py_replace_bsq ("\" :: """" :: t) = """" :: py_replace_bsq t.
Proof. reflexivity. Qed.

Lemma rep_bs_other e t : (e =? """") = false ->
  py_replace_bsq ("\" :: e :: t) = "\" :: py_replace_bsq (e :: t).
Proof. intros H. cbn [py_replace_bsq]. rewrite H. reflexivity. Qed.

Lemma rep_bs_end : py_replace_bsq ["\"] = ["\"].
Proof. reflexivity. Qed.

Lemma pue_other c t : (c =? "\") = false ->
  py_unicode_unescape (c :: t) = option_map (cons c) (py_unicode_unescape t).
Proof. intros H. cbn [py_unicode_unescape]. now rewrite H. Qed.

Lemma pue_n t : py_unicode_unescape ("\" :: "n" :: t) = option_map (cons (chr 10)) (py_unicode_unescape t).
Proof. reflexivity. Qed.
Lemma pue_r t : py_unicode_unescape ("\" :: "r" :: t) = option_map (cons (chr 13)) (py_unicode_unescape t).
Proof. reflexivity. Qed.
Lemma pue_t t : py_unicode_unescape ("\" :: "t" :: t) = option_map (cons (chr 9)) (py_unicode_unescape t).
Proof. reflexivity. Qed.
Lemma pue_bs t : py_unicode_unescape ("\" :: "\" :: t) = option_map (cons "\") (py_unicode_unescape t).
Proof. reflexivity. Qed.
Lemma pue_x h1 h2 t :
  py_unicode_unescape ("\" :: "x" :: h1 :: h2 :: t) =
  match hexval h1, hexval h2 with
  | Some a, Some b => ocons (cp_byte (a * 16 + b)) (py_unicode_unescape t)
  | _, _ => None
  end.
Proof. reflexivity. Qed.

Lemma hex_not_bs c : hexval c <> None -> (c =? "\") = false /\ (c =? """") = false.
Proof.
  destruct c as [[] [] [] [] [] [] [] []]; vm_compute; intros H; try (split; reflexivity); exfalso; apply H; reflexivity.
Qed.

(* The heart of it: on every body the assembler accepts, Python's two passes (replace, then
   unicode-escape decoding) produce the same bytes. *)
Lemma unescape_core n : forall inner v,
  (List.length inner <= n)%nat ->
  parse_str_body (inner ++ [""""]) = Some v ->
  py_unicode_unescape (py_replace_bsq inner) = Some v.
Proof.
  induction n as [|n IH]; intros inner v Hlen H.
  - destruct inner; [|cbn in Hlen; lia]. cbn in H. exact H.
  - destruct inner as [|c t]; [exact H|].
    cbn [app] in H.
    assert (Hnz : exists x r, (t ++ [""""])%list = x :: r) by (destruct t; cbn; eauto).
    destruct Hnz as (x & r & Ex). rewrite Ex, psb_unfold in H.
    destruct (c =? "\") eqn:Ec.
    + apply Ascii.eqb_eq in Ec. subst c.
      (* backslash: t cannot be empty *)
      destruct t as [|e t'].
      { cbn in Ex. injection Ex as <- <-. vm_compute in H. discriminate H. }
      cbn [app] in Ex. injection Ex as <- <-.
      cbn [List.length] in Hlen.
      unfold psb_esc in H.
      destruct (e =? "n") eqn:E1.
      { apply Ascii.eqb_eq in E1; subst e. rewrite rep_bs_other, rep_other, pue_n by reflexivity.
        destruct (parse_str_body (t' ++ [""""])) as [w|] eqn:Hw; [|discriminate H].
        rewrite (IH t' w) by (try lia; exact Hw). exact H. }
      destruct (e =? "r") eqn:E2.
      { apply Ascii.eqb_eq in E2; subst e. rewrite rep_bs_other, rep_other, pue_r by reflexivity.
        destruct (parse_str_body (t' ++ [""""])) as [w|] eqn:Hw; [|discriminate H].
        rewrite (IH t' w) by (try lia; exact Hw). exact H. }
      destruct (e =? "t") eqn:E3.
      { apply Ascii.eqb_eq in E3; subst e. rewrite rep_bs_other, rep_other, pue_t by reflexivity.
        destruct (parse_str_body (t' ++ [""""])) as [w|] eqn:Hw; [|discriminate H].
        rewrite (IH t' w) by (try lia; exact Hw). exact H. }
      destruct (e =? "\") eqn:E4.
      { apply Ascii.eqb_eq in E4; subst e.
        destruct (parse_str_body (t' ++ [""""])) as [w|] eqn:Hw; [|discriminate H].
        rewrite rep_bs_other by reflexivity.
        destruct t' as [|e' t''].
        - rewrite rep_bs_end. cbn in Hw. injection Hw as <-. exact H.
        - destruct (e' =? """") eqn:Eq'.
          + apply Ascii.eqb_eq in Eq'; subst e'. cbn [app] in Hw.
            assert (Hnz2 : exists x2 r2, (t'' ++ [""""])%list = x2 :: r2) by (destruct t''; cbn; eauto).
            destruct Hnz2 as (x2 & r2 & Ex2). rewrite Ex2, psb_unfold in Hw. cbn in Hw. discriminate Hw.
          + rewrite rep_bs_other by exact Eq'. rewrite pue_bs.
            rewrite (IH (e' :: t'') w) by (try (cbn [List.length] in *; lia); exact Hw). exact H. }
      destruct (e =? """") eqn:E5.
      { apply Ascii.eqb_eq in E5; subst e. rewrite rep_bsq, pue_other by reflexivity.
        destruct (t' ++ [""""])%list eqn:Et; [destruct t'; discriminate Et|]. rewrite <- Et in H.
        destruct (parse_str_body (t' ++ [""""])) as [w|] eqn:Hw; [|discriminate H].
        rewrite (IH t' w) by (try lia; exact Hw). exact H. }
      destruct (e =? "x") eqn:E6; [|discriminate H].
      apply Ascii.eqb_eq in E6; subst e.
      destruct t' as [|h1 [|h2 t'']].
      { cbn in H. discriminate H. }
      { cbn in H. destruct (hexval h1); discriminate H. }
      cbn [app] in H.
      destruct (hexval h1) as [a|] eqn:Ha; [|discriminate H].
      destruct (hexval h2) as [b|] eqn:Hb; [|discriminate H].
      destruct (t'' ++ [""""])%list eqn:Et; [destruct t''; discriminate Et|]. rewrite <- Et in H.
      destruct (parse_str_body (t'' ++ [""""])) as [w|] eqn:Hw; [|discriminate H].
      destruct (hex_not_bs h1 ltac:(rewrite Ha; discriminate)) as [B1 Q1].
      destruct (hex_not_bs h2 ltac:(rewrite Hb; discriminate)) as [B2 Q2].
      rewrite rep_bs_other, rep_other, rep_other, rep_other by (reflexivity || assumption).
      rewrite pue_x, Ha, Hb.
      cbn [List.length] in Hlen.
      rewrite (IH t'' w) by (try lia; exact Hw).
      unfold cp_byte.
      pose proof (hexval_lt _ _ Ha). pose proof (hexval_lt _ _ Hb).
      destruct (N.ltb_spec (a * 16 + b) 256) as [_|Hge]; [|lia].
      cbn [ocons]. exact H.
    + destruct (c =? """") eqn:Eq; [discriminate H|].
      rewrite <- Ex in H.
      destruct (parse_str_body (t ++ [""""])) as [w|] eqn:Hw; [|discriminate H].
      rewrite rep_other, pue_other by exact Ec.
      cbn [List.length] in Hlen.
      rewrite (IH t w) by (try lia; exact Hw). exact H.
Qed.

Lemma quoted_agrees l b v :
  py_unescape_bytes l = Some b ->
  (match l with q :: body => if q =? """" then parse_str_body body else None | [] => None end) = Some v ->
  v = b.
Proof.
  unfold py_unescape_bytes. destruct l as [|q rest]; [discriminate|].
  destruct (rev rest) as [|q' rinner] eqn:Er; [discriminate|].
  assert (Erest : rest = (rev rinner ++ [q'])%list).
  { rewrite <- (rev_involutive rest), Er. reflexivity. }
  destruct (q =? """") eqn:Eq; cbn [andb]; [|discriminate].
  destruct (q' =? """") eqn:Eq'; [|discriminate].
  apply Ascii.eqb_eq in Eq'. subst q'.
  intros Hpy Hp. rewrite Erest in Hp.
  rewrite (unescape_core _ _ _ (le_n _) Hp) in Hpy.
  destruct (utf8_valid v); [|discriminate]. now injection Hpy.
Qed.

(* ---------------------------------------------------------------- base32 / base64 *)
Lemma digit_vals_no_eq f l : f "=" = None -> forall vals, digit_vals f l = Some vals ->
  Forall (fun c => (c =? "=") = false) l.
Proof.
  intros Hf. induction l as [|c t IH]; intros vals H; [constructor|].
  cbn [digit_vals] in H. destruct (f c) as [v|] eqn:Hc; [|discriminate H].
  destruct (digit_vals f t) as [r|] eqn:Hr; [|discriminate H].
  constructor; [|eapply IH; reflexivity].
  destruct (c =? "=") eqn:E; [|reflexivity]. apply Ascii.eqb_eq in E. subst c. congruence.
Qed.

Lemma strip_pad_repeat k x : strip_pad (repeat "=" k ++ x) = strip_pad x.
Proof. induction k as [|k IH]; [reflexivity|]. cbn. exact IH. Qed.

Lemma strip_pad_no_eq_last l : Forall (fun c => (c =? "=") = false) l -> strip_pad (rev l) = rev l.
Proof.
  intros H. destruct (rev l) as [|c t] eqn:E; [reflexivity|].
  assert (Hin : In c l) by (apply in_rev; rewrite E; now left).
  rewrite Forall_forall in H. cbn. now rewrite (H c Hin).
Qed.

Lemma strip_body_pads body k : Forall (fun c => (c =? "=") = false) body ->
  rev (strip_pad (rev (body ++ repeat "=" k))) = body.
Proof.
  intros H. rewrite rev_app_distr.
  assert (Er : rev (repeat "=" k) = repeat "=" k).
  { induction k as [|k IH]; [reflexivity|]. cbn [repeat rev]. rewrite IH.
    clear. induction k as [|k IH]; [reflexivity|]. cbn. now rewrite IH. }
  rewrite Er, strip_pad_repeat, strip_pad_no_eq_last by exact H. apply rev_involutive.
Qed.

(* every string is its stripped body followed by pad characters *)
Lemma strip_pad_decomp r : exists k, r = (repeat "=" k ++ strip_pad r)%list.
Proof.
  induction r as [|c t IH]; [exists 0%nat; reflexivity|].
  cbn [strip_pad]. destruct (c =? "=") eqn:E.
  - apply Ascii.eqb_eq in E; subst c. destruct IH as [k Hk]. exists (S k). cbn. now rewrite <- Hk.
  - exists 0%nat. reflexivity.
Qed.

Lemma body_pads_decomp l : exists k, l = (rev (strip_pad (rev l)) ++ repeat "=" k)%list.
Proof.
  destruct (strip_pad_decomp (rev l)) as [k Hk]. exists k.
  rewrite <- (rev_involutive l) at 1. rewrite Hk at 1. rewrite rev_app_distr. f_equal.
  clear. induction k as [|k IH]; [reflexivity|]. cbn [repeat rev]. rewrite IH.
  clear. induction k as [|k IH]; [reflexivity|]. cbn. now rewrite IH.
Qed.

Lemma take_to_eq_body body k : Forall (fun c => (c =? "=") = false) body ->
  take_to_eq (body ++ repeat "=" k) = body.
Proof.
  induction 1 as [|c t Hc Ht IH]; cbn.
  - destruct k; reflexivity.
  - rewrite Hc. now rewrite IH.
Qed.

Lemma b32val_eq : b32val "=" = None. Proof. reflexivity. Qed.
Lemma b64val_eq : b64val "=" = None. Proof. reflexivity. Qed.

(* base64.b32decode on a padded string and the assembler's base32 agree *)
Lemma py_b32decode_value p b : py_b32decode p = Some b ->
  exists vals, digit_vals b32val (rev (strip_pad (rev p))) = Some vals /\ b = decode_bits 5 vals.
Proof.
  unfold py_b32decode. destruct (negb _); [discriminate|].
  destruct (digit_vals b32val (rev (strip_pad (rev p)))) as [vals|]; [|discriminate].
  intros H. exists vals. split; [reflexivity|].
  destruct (List.length p - List.length (rev (strip_pad (rev p))))%nat as [|[|[|[|[|[|[|n]]]]]]];
    try discriminate H; now injection H.
Qed.

Lemma b32_agrees inner p b v :
  correct_b32_padding inner = Some p -> py_b32decode p = Some b ->
  decode_baseN b32val 5 (string_of_list_ascii inner) = Some v -> v = b.
Proof.
  intros Hp Hb Hv. unfold decode_baseN in Hv. rewrite list_ascii_of_string_of_list_ascii in Hv.
  set (body := rev (strip_pad (rev inner))) in *.
  destruct (digit_vals b32val body) as [vals|] eqn:Hd; [|discriminate Hv]. injection Hv as <-.
  pose proof (digit_vals_no_eq _ _ b32val_eq _ Hd) as Hne.
  destruct (body_pads_decomp inner) as [k Hk]. fold body in Hk.
  assert (Ep : exists j, p = (body ++ repeat "=" j)%list).
  { unfold correct_b32_padding in Hp. rewrite Hk, take_to_eq_body in Hp by exact Hne.
    destruct (List.length body mod 8)%nat as [|[|[|[|[|[|[|[|n]]]]]]]]; try discriminate Hp; injection Hp as <-;
      [exists 0%nat; now rewrite app_nil_r|exists 6%nat; reflexivity|exists 4%nat; reflexivity|exists 3%nat; reflexivity|exists 1%nat; reflexivity]. }
  destruct Ep as [j ->].
  destruct (py_b32decode_value _ _ Hb) as (vals' & Hd' & ->).
  rewrite strip_body_pads in Hd' by exact Hne. congruence.
Qed.

(* the base64 scan consumes an all-alphabet body digit by digit *)
Lemma b64_scan_body body : forall vals, digit_vals b64val body = Some vals ->
  forall rest quad pads acc, exists quad' pads',
    b64_scan (body ++ rest) quad pads acc = b64_scan rest quad' pads' (rev vals ++ acc)%list.
Proof.
  induction body as [|c t IH]; intros vals H rest quad pads acc.
  - injection H as <-. exists quad, pads. reflexivity.
  - cbn [digit_vals] in H. destruct (b64val c) as [v0|] eqn:Hc; [|discriminate H].
    destruct (digit_vals b64val t) as [r|] eqn:Hr; [|discriminate H]. injection H as <-.
    cbn [app b64_scan].
    assert (Ec : (c =? "=") = false).
    { destruct (c =? "=") eqn:E; [|reflexivity]. apply Ascii.eqb_eq in E; subst c. discriminate Hc. }
    rewrite Ec, Hc.
    destruct (IH r eq_refl rest (match quad with 3%nat => 0%nat | _ => S quad end) 0%nat (v0 :: acc)) as (q' & p' & E).
    exists q', p'. rewrite E. cbn [rev]. now rewrite <- app_assoc.
Qed.

Lemma b64_scan_pads k : forall quad pads acc r,
  b64_scan (repeat "=" k) quad pads acc = Some r -> r = rev acc.
Proof.
  induction k as [|k IH]; intros quad pads acc r H.
  - cbn in H. destruct (quad =? 0)%nat; [now injection H|discriminate H].
  - cbn [repeat b64_scan] in H. change ("=" =? "=") with true in H. cbv iota in H.
    destruct (2 <=? quad)%nat.
    + destruct (4 <=? quad + S pads)%nat; [now injection H|]. eapply IH; exact H.
    + eapply IH; exact H.
Qed.

Lemma b64_agrees inner b v :
  py_b64decode inner = Some b ->
  decode_baseN b64val 6 (string_of_list_ascii inner) = Some v -> v = b.
Proof.
  intros Hb Hv. unfold decode_baseN in Hv. rewrite list_ascii_of_string_of_list_ascii in Hv.
  set (body := rev (strip_pad (rev inner))) in *.
  destruct (digit_vals b64val body) as [vals|] eqn:Hd; [|discriminate Hv]. injection Hv as <-.
  destruct (body_pads_decomp inner) as [k Hk]. fold body in Hk.
  unfold py_b64decode in Hb. destruct (all_ascii7 inner); [|discriminate Hb].
  destruct (b64_scan inner 0 0 []) as [ds|] eqn:Hs; [|discriminate Hb]. injection Hb as <-.
  rewrite Hk in Hs.
  destruct (b64_scan_body body vals Hd (repeat "=" k) 0%nat 0%nat []) as (q' & p' & E).
  rewrite E in Hs. apply b64_scan_pads in Hs. subst ds.
  now rewrite app_nil_r, rev_involutive.
Qed.

(* ---------------------------------------------------------------- strings as lists *)
Local Open Scope string_scope.
Notation los := list_ascii_of_string.

Lemma length_los s : List.length (los s) = String.length s.
Proof. induction s as [|c s IH]; cbn; [reflexivity|]. now rewrite IH. Qed.

Lemma prefix_split p : forall s, String.prefix p s = true -> exists s', s = p ++ s'.
Proof.
  induction p as [|c p IH]; intros s H.
  - exists s. reflexivity.
  - destruct s as [|d s]; [discriminate H|]. cbn in H.
    destruct (Ascii.ascii_dec c d) as [->|Hne]; [|discriminate H].
    destruct (IH s H) as [s' ->]. exists s'. reflexivity.
Qed.

Lemma prefix_app p s' : String.prefix p (p ++ s') = true.
Proof.
  induction p as [|c p IH]; cbn; [destruct s'; reflexivity|].
  destruct (Ascii.ascii_dec c c) as [_|Hne]; [exact IH|congruence].
Qed.

Lemma substring_los s : forall n m, los (substring n m s) = firstn m (skipn n (los s)).
Proof.
  induction s as [|c s IH]; intros n m.
  - destruct n, m; reflexivity.
  - destruct n as [|n].
    + destruct m as [|m]; [reflexivity|]. cbn. f_equal. apply (IH 0%nat m).
    + cbn. apply IH.
Qed.

Lemma los_inj a b : los a = los b -> a = b.
Proof.
  intros H. rewrite <- (string_of_list_ascii_of_string a), <- (string_of_list_ascii_of_string b). now rewrite H.
Qed.

(* what [paren_body] accepts: p ( a ) *)
Lemma paren_body_shape p tk a : paren_body p tk = Some a ->
  los tk = (los p ++ "("%char :: los a ++ [")"%char])%list.
Proof.
  unfold paren_body, starts_with.
  destruct (String.prefix (p ++ "(") tk) eqn:Hp; cbn [andb]; [|discriminate].
  destruct (String.length p + 2 <=? String.length tk)%nat eqn:Hl; [|discriminate].
  destruct (String.eqb (substring (String.length tk - 1) 1 tk) ")") eqn:He; [|discriminate].
  intros H. injection H as <-.
  apply Nat.leb_le in Hl. apply String.eqb_eq in He.
  destruct (prefix_split _ _ Hp) as [s' ->].
  apply (f_equal los) in He. rewrite substring_los in He.
  rewrite substring_los.
  rewrite !list_of_string_app in *. rewrite <- !length_los in *. rewrite !list_of_string_app in *.
  cbn [los] in *. set (P := los p) in *. set (L := los s') in *.
  rewrite !app_length in *. cbn [List.length] in *.
  rewrite <- app_assoc. cbn [app]. f_equal. f_equal.
  replace (List.length P + 1 + List.length L - List.length P - 2)%nat with (List.length L - 1)%nat by lia.
  replace (List.length P + 1)%nat with (List.length (P ++ ["("%char]))%nat by (rewrite app_length; cbn; lia).
  change (P ++ "("%char :: L)%list with (P ++ ["("%char] ++ L)%list. rewrite app_assoc.
  rewrite skipn_app, skipn_all, Nat.sub_diag. cbn [app skipn].
  replace (List.length P + 1 + List.length L - 1)%nat with (List.length (P ++ ["("%char]) + (List.length L - 1))%nat in He
    by (rewrite app_length; cbn; lia).
  rewrite skipn_app in He. rewrite skipn_all2 in He by lia.
  replace (List.length (P ++ ["("%char]) + (List.length L - 1) - List.length (P ++ ["("%char]))%nat with (List.length L - 1)%nat in He by lia.
  cbn [app] in He.
  assert (HL : (1 <= List.length L)%nat) by lia.
  rewrite <- (firstn_skipn (List.length L - 1) L) at 1. f_equal.
  assert (Hlen1 : List.length (skipn (List.length L - 1) L) = 1%nat) by (rewrite skipn_length; lia).
  destruct (skipn (List.length L - 1) L) as [|x [|y r]]; cbn in Hlen1; try discriminate Hlen1.
  cbn in He. exact He.
Qed.

Lemma slice_inner_shape n pre a c :
  List.length pre = n -> slice_inner n (pre ++ a ++ [c])%list = a.
Proof.
  intros <-. unfold slice_inner. rewrite skipn_app, skipn_all, Nat.sub_diag. cbn [app skipn].
  apply removelast_last.
Qed.

(* ---------------------------------------------------------------- byte spellings: constants.py vs assembler *)
Lemma last_is_app l c : last_is c l = true -> exists a, l = (a ++ [c])%list.
Proof.
  unfold last_is. destruct (rev l) as [|x r] eqn:E; [discriminate|].
  intros H. apply Ascii.eqb_eq in H. subst x. exists (rev r).
  rewrite <- (rev_involutive l), E. reflexivity.
Qed.

Lemma parse_string_literal_unfold s :
  parse_string_literal s =
  match los s with q :: body => if Ascii.eqb q """" then parse_str_body body else None | [] => None end.
Proof. reflexivity. Qed.

Lemma decode_hex0x_quote s' : decode_hex0x (String """" s') = None.
Proof. unfold decode_hex0x. cbn. destruct (los s'); reflexivity. Qed.

Theorem extract_bytes_agrees s b v rest :
  extract_bytes [AStr s] = Some (KBytes b) ->
  parse_bytes_arg (s :: rest) = Some (v, rest) ->
  v = b.
Proof.
  unfold extract_bytes.
  destruct (is_tmpl_name s); [discriminate|].
  destruct (String.prefix """" s && last_is """"%char (los s)) eqn:Hq.
  { (* quoted *)
    apply andb_prop in Hq. destruct Hq as [Hp _].
    destruct (prefix_split _ _ Hp) as [s' ->]. cbn [append].
    destruct (py_unescape_bytes (los (String """" s'))) as [b'|] eqn:Hu; [|discriminate].
    intros E; injection E as <-.
    unfold parse_bytes_arg. cbn -[decode_base64 decode_base32 parse_string_literal decode_hex0x].
    rewrite decode_hex0x_quote, parse_string_literal_unfold.
    destruct (match los (String """" s') with q :: body => if Ascii.eqb q """" then parse_str_body body else None | [] => None end) as [w|] eqn:Hw; [|discriminate].
    cbn [option_map]. intros E; injection E as <-.
    eapply quoted_agrees; eassumption. }
  destruct (String.prefix "0x" s) eqn:Hx.
  { destruct (prefix_split _ _ Hx) as [s' ->]. cbn [append].
    destruct (py_fromhex (skipn 2 (los (String "0" (String "x" s'))))) as [b'|] eqn:Hu; [|discriminate].
    intros E; injection E as <-. cbn [los skipn] in Hu.
    unfold parse_bytes_arg. cbn -[decode_base64 decode_base32 bytes_of_hex_l].
    destruct (bytes_of_hex_l (los s')) as [w|] eqn:Hw; [|discriminate].
    intros E; injection E as <-.
    rewrite (fromhex_agrees _ _ Hw) in Hu. now injection Hu. }
  destruct (String.prefix "base32(" s && last_is ")"%char (los s)) eqn:H32.
  { apply andb_prop in H32. destruct H32 as [Hp Hl].
    destruct (prefix_split _ _ Hp) as [s' ->].
    destruct (correct_b32_padding (slice_inner 7 (los ("base32(" ++ s')))) as [p|] eqn:Hc; [|discriminate].
    destruct (py_b32decode p) as [b'|] eqn:Hd; [|discriminate].
    intros E; injection E as <-.
    unfold parse_bytes_arg. cbn -[decode_base64 decode_base32 paren_body].
    change (String "b" (String "a" (String "s" (String "e" (String "3" (String "2" (String "(" s')))))))
      with ("base32(" ++ s') in *.
    assert (N1 : paren_body "base64" ("base32(" ++ s') = None) by reflexivity.
    assert (N2 : paren_body "b64" ("base32(" ++ s') = None) by reflexivity.
    rewrite N1, N2.
    destruct (paren_body "base32" ("base32(" ++ s')) as [a|] eqn:Ha.
    - apply paren_body_shape in Ha.
      destruct (decode_base32 a) as [w|] eqn:Hw; [|discriminate].
      cbn [option_map]. intros E; injection E as <-.
      rewrite Ha in Hc. change (los "base32" ++ "("%char :: los a ++ [")"%char])%list
        with (los "base32(" ++ los a ++ [")"%char])%list in Hc.
      rewrite slice_inner_shape in Hc by reflexivity.
      unfold decode_base32 in Hw. rewrite <- (string_of_list_ascii_of_string a) in Hw.
      eapply b32_agrees; eassumption.
    - assert (N3 : paren_body "b32" ("base32(" ++ s') = None) by reflexivity.
      rewrite N3. cbn. discriminate. }
  destruct (String.prefix "base64(" s && last_is ")"%char (los s)) eqn:H64; [|discriminate].
  apply andb_prop in H64. destruct H64 as [Hp Hl].
  destruct (prefix_split _ _ Hp) as [s' ->].
  destruct (py_b64decode (slice_inner 7 (los ("base64(" ++ s')))) as [b'|] eqn:Hd; [|discriminate].
  intros E; injection E as <-.
  unfold parse_bytes_arg. cbn -[decode_base64 decode_base32 paren_body].
  change (String "b" (String "a" (String "s" (String "e" (String "6" (String "4" (String "(" s')))))))
    with ("base64(" ++ s') in *.
  destruct (paren_body "base64" ("base64(" ++ s')) as [a|] eqn:Ha.
  - apply paren_body_shape in Ha.
    destruct (decode_base64 a) as [w|] eqn:Hw; [|discriminate].
    cbn [option_map]. intros E; injection E as <-.
    rewrite Ha in Hd. change (los "base64" ++ "("%char :: los a ++ [")"%char])%list
      with (los "base64(" ++ los a ++ [")"%char])%list in Hd.
    rewrite slice_inner_shape in Hd by reflexivity.
    unfold decode_base64 in Hw. rewrite <- (string_of_list_ascii_of_string a) in Hw.
    eapply b64_agrees; eassumption.
  - assert (N2 : paren_body "b64" ("base64(" ++ s') = None) by reflexivity.
    assert (N3 : paren_body "base32" ("base64(" ++ s') = None) by reflexivity.
    assert (N4 : paren_body "b32" ("base64(" ++ s') = None) by reflexivity.
    rewrite N2, N3, N4. cbn. discriminate.
Qed.

(* ---------------------------------------------------------------- integers *)
Local Open Scope N_scope.

Definition is_digit (c : ascii) : bool := (48 <=? an c) && (an c <=? 57).

Lemma dec_digits_digits f : forall n acc, Forall (fun c => is_digit c = true) acc ->
  Forall (fun c => is_digit c = true) (dec_digits f n acc).
Proof.
  induction f as [|f IH]; intros n acc H; cbn [dec_digits]; [exact H|].
  assert (Hd : is_digit (ascii_of_N (48 + n mod 10)) = true).
  { unfold is_digit, an. pose proof (N.mod_lt n 10 ltac:(lia)) as Hm. remember (n mod 10) as d.
    rewrite N_ascii_embedding by lia. apply andb_true_intro; split; apply N.leb_le; lia. }
  destruct (n <? 10); [constructor; assumption|]. apply IH. constructor; assumption.
Qed.

Lemma dec_digits_nonempty f : forall n acc, acc <> [] -> dec_digits f n acc <> [].
Proof.
  induction f as [|f IH]; intros n acc H; cbn [dec_digits]; [exact H|].
  destruct (n <? 10); [discriminate|]. apply IH. discriminate.
Qed.

Lemma dec_acc_digit d acc a : d < 10 ->
  dec_acc (ascii_of_N (48 + d) :: acc) a = dec_acc acc (a * 10 + d).
Proof.
  intros H. cbn [dec_acc]. rewrite N_ascii_embedding by lia.
  replace (48 <=? 48 + d) with true by (symmetry; apply N.leb_le; lia).
  replace (48 + d <=? 57) with true by (symmetry; apply N.leb_le; lia).
  cbn [andb]. f_equal. lia.
Qed.

Lemma dec_digits_S f n acc :
  dec_digits (S f) n acc =
  if n <? 10 then ascii_of_N (48 + n mod 10) :: acc else dec_digits f (n / 10) (ascii_of_N (48 + n mod 10) :: acc).
Proof. reflexivity. Qed.

Lemma dec_digits_value f : forall n acc, n < 10 * 2 ^ N.of_nat f ->
  dec_acc (dec_digits (S f) n acc) 0 = dec_acc acc n.
Proof.
  induction f as [|f IH]; intros n acc H.
  - change (2 ^ N.of_nat 0) with 1 in H. cbn [dec_digits].
    destruct (N.ltb_spec n 10) as [Hlt|Hge]; [|lia].
    rewrite N.mod_small by lia. now rewrite dec_acc_digit by lia.
  - rewrite dec_digits_S. destruct (N.ltb_spec n 10) as [Hlt|Hge].
    + rewrite N.mod_small by lia. now rewrite dec_acc_digit by lia.
    + rewrite IH.
      * pose proof (N.mod_lt n 10 ltac:(lia)). rewrite dec_acc_digit by lia.
        f_equal. rewrite N.mul_comm. symmetry. apply N.div_mod. lia.
      * rewrite Nat2N.inj_succ, N.pow_succ_r' in H.
        apply N.div_lt_upper_bound; lia.
Qed.

Lemma N_of_dec_to_dec n : N_of_dec (N_to_dec n) = Some n.
Proof.
  unfold N_of_dec, N_to_dec. rewrite list_ascii_of_string_of_list_ascii.
  set (f := N.to_nat (N.size n)).
  assert (Hne : dec_digits (S f) n [] <> []).
  { cbn [dec_digits]. destruct (n <? 10); [discriminate|]. apply dec_digits_nonempty. discriminate. }
  destruct (dec_digits (S f) n []) as [|c t] eqn:E; [congruence|]. rewrite <- E.
  rewrite dec_digits_value; [reflexivity|].
  unfold f. rewrite N2Nat.id. pose proof (N.size_gt n). lia.
Qed.

Lemma digit_not_x c : is_digit c = true -> (c =? "x")%char = false /\ (c =? "X")%char = false.
Proof.
  destruct c as [[] [] [] [] [] [] [] []]; vm_compute; intros H; try discriminate H; split; reflexivity.
Qed.

Lemma parse_uint_to_dec n : parse_uint (N_to_dec n) = Some n.
Proof.
  unfold parse_uint.
  pose proof (dec_digits_digits (S (N.to_nat (N.size n))) n [] (Forall_nil _)) as Hd.
  pose proof (N_of_dec_to_dec n) as Hr.
  unfold N_to_dec in *. rewrite list_ascii_of_string_of_list_ascii.
  destruct (dec_digits (S (N.to_nat (N.size n))) n []) as [|z [|x t]]; try exact Hr.
  inversion Hd as [|? ? _ Hd']. inversion Hd' as [|? ? Hx _].
  destruct (digit_not_x _ Hx) as [-> ->]. rewrite andb_false_r. exact Hr.
Qed.

Lemma parse_int_arg_to_dec n : n < 18446744073709551616 -> parse_int_arg (N_to_dec n) = Some n.
Proof.
  intros H. unfold parse_int_arg. rewrite parse_uint_to_dec.
  destruct (N.ltb_spec n 18446744073709551616); [reflexivity|lia].
Qed.

Lemma generic_imm_to_dec n : generic_imm (N_to_dec n) = IInt n.
Proof. unfold generic_imm. now rewrite parse_uint_to_dec. Qed.

(* named constants: constants.py's table and the assembler's table agree, and the decimal
   spelling of the value reads back as the value *)
Lemma int_enum_agrees s n : assoc_str s int_enum_values = Some n ->
  parse_int_arg s = Some n /\ parse_int_arg (N_to_dec n) = Some n.
Proof.
  unfold int_enum_values. cbn [assoc_str].
  repeat (match goal with
          | |- (if String.eqb s ?k then _ else _) = _ -> _ =>
              let E := fresh "E" in destruct (String.eqb s k) eqn:E;
              [apply String.eqb_eq in E; subst s; intros H; injection H as <-; split; reflexivity|]
          end).
  discriminate.
Qed.

(* ---------------------------------------------------------------- addresses *)
Lemma be_encode_length len : forall n, List.length (be_encode len n) = len.
Proof.
  induction len as [|l IH]; intros n; cbn [be_encode]; [reflexivity|].
  rewrite app_length, IH. cbn. lia.
Qed.

Lemma digit_vals_length f l : forall vals, digit_vals f l = Some vals -> List.length vals = List.length l.
Proof.
  induction l as [|c t IH]; intros vals H; cbn [digit_vals] in H.
  - injection H as <-. reflexivity.
  - destruct (f c); [|discriminate H]. destruct (digit_vals f t) as [r|]; [|discriminate H].
    injection H as <-. cbn. now rewrite (IH r eq_refl).
Qed.

Lemma py_b32decode_value' p b : py_b32decode p = Some b ->
  exists vals, digit_vals b32val (rev (strip_pad (rev p))) = Some vals /\ b = decode_bits 5 vals /\
    (List.length p - List.length (rev (strip_pad (rev p))) <= 6)%nat.
Proof.
  unfold py_b32decode. destruct (negb _); [discriminate|].
  destruct (digit_vals b32val (rev (strip_pad (rev p)))) as [vals|]; [|discriminate].
  intros H. exists vals. split; [reflexivity|].
  destruct (List.length p - List.length (rev (strip_pad (rev p))))%nat as [|[|[|[|[|[|[|n]]]]]]];
    try discriminate H; injection H as <-; (split; [reflexivity|lia]).
Qed.

Lemma rev_repeat {A} (x : A) k : rev (repeat x k) = repeat x k.
Proof.
  induction k as [|k IH]; [reflexivity|]. cbn [repeat rev]. rewrite IH.
  clear. induction k as [|k IH]; [reflexivity|]. cbn. now rewrite IH.
Qed.

Lemma strip_pad_length l : (List.length (strip_pad l) <= List.length l)%nat.
Proof. induction l as [|c t IH]; cbn; [lia|]. destruct (c =? "=")%char; cbn; lia. Qed.

Theorem decode_address_agrees ah s key d :
  decode_address ah (los s) = Some key ->
  (String.length s =? 58)%nat = true -> decode_base32 s = Some d ->
  firstn 32 d = key.
Proof.
  unfold decode_address. intros H Hlen Hd.
  rewrite length_los, Hlen in H. cbn [negb] in H.
  destruct (py_b32decode (los s ++ repeat "="%char 6)) as [d'|] eqn:Hp; [|discriminate H].
  destruct (py_b32decode_value' _ _ Hp) as (vals & Hv & -> & Hpad).
  assert (Estrip : rev (strip_pad (rev (los s ++ repeat "="%char 6))) = rev (strip_pad (rev (los s)))).
  { rewrite rev_app_distr, rev_repeat, strip_pad_repeat. reflexivity. }
  rewrite Estrip in Hv, Hpad.
  unfold decode_base32, decode_baseN in Hd. rewrite Hv in Hd. injection Hd as <-.
  apply Nat.eqb_eq in Hlen.
  pose proof (strip_pad_length (rev (los s))) as Hsl.
  rewrite app_length, repeat_length, !rev_length, length_los in *.
  assert (Hbody : List.length (strip_pad (rev (los s))) = 58%nat) by lia.
  pose proof (digit_vals_length _ _ _ Hv) as Hvl. rewrite rev_length, Hbody in Hvl.
  assert (Hdl : List.length (decode_bits 5 vals) = 36%nat).
  { unfold decode_bits. rewrite be_encode_length, Hvl. reflexivity. }
  rewrite Hdl in H. change (36 - 4)%nat with 32%nat in H.
  destruct (bytes_eqb _ _); [|discriminate H]. now injection H.
Qed.

(* ---------------------------------------------------------------- method signatures *)
Lemma plain_literal inner : forall v,
  existsb (fun c => (c =? "\")%char) inner = false ->
  parse_str_body (inner ++ [""""%char]) = Some v -> v = inner.
Proof.
  induction inner as [|c t IH]; intros v Hb H.
  - cbn in H. now injection H.
  - cbn [existsb] in Hb. apply orb_false_elim in Hb. destruct Hb as [Hc Ht].
    cbn [app] in H.
    assert (Hnz : exists x r, (t ++ [""""%char])%list = x :: r) by (destruct t; cbn; eauto).
    destruct Hnz as (x & r & Ex). rewrite Ex, psb_unfold, Hc in H. rewrite <- Ex in H.
    destruct (c =? """")%char; [discriminate H|].
    destruct (parse_str_body (t ++ [""""%char])) as [w|] eqn:Hw; [|discriminate H].
    injection H as <-. f_equal. apply IH; [exact Ht|reflexivity].
Qed.

Lemma existsb_app_false {A} (f : A -> bool) a b : existsb f (a ++ b) = false -> existsb f a = false.
Proof. rewrite existsb_app. intros H. now apply orb_false_elim in H. Qed.

Theorem method_sig_agrees sh s b sig :
  extract_method sh [AStr s] = Some (KBytes b) ->
  existsb (fun c => (c =? "\")%char) (los s) = false ->
  parse_string_literal s = Some sig ->
  b = firstn 4 (sh (string_of_bytes sig)).
Proof.
  unfold extract_method. rewrite parse_string_literal_unfold.
  destruct (los s) as [|q rest] eqn:El; [discriminate|].
  destruct ((q =? """")%char && last_is """"%char (q :: rest)) eqn:Hq; [|discriminate].
  apply andb_prop in Hq. destruct Hq as [Hq1 Hq2]. rewrite Hq1.
  intros H Hbs Hp. injection H as <-.
  destruct rest as [|c r]; [discriminate Hp|].
  destruct (last_is_app _ _ Hq2) as [a Ea].
  destruct a as [|q0 inner]; [discriminate Ea|]. cbn [app] in Ea. injection Ea as <- Er.
  rewrite Er in *. cbn [existsb] in Hbs. apply orb_false_elim in Hbs. destruct Hbs as [_ Hbs].
  apply existsb_app_false in Hbs.
  rewrite (plain_literal _ _ Hbs Hp).
  change (q :: inner ++ [""""%char])%list with ([q] ++ inner ++ [""""%char])%list.
  now rewrite slice_inner_shape by reflexivity.
Qed.
